#!/usr/bin/env python3
"""Regenerates MANIFEST.json from checklib/*.py (one CONFIG per property) and the fixed header below."""
import importlib, json, os, re, sys
ROOT = os.path.dirname(os.path.abspath(__file__))
sys.path.insert(0, ROOT)
ALL = [f"C{n:02d}" for n in range(1, 21)]
have = sorted(f[:-3].upper() for f in os.listdir(os.path.join(ROOT, "checklib")) if re.match(r"c\d\d\.py$", f))
# only properties the coordinator has validated (one id per line in claimed.txt) are claimed
claimed = set(open(os.path.join(ROOT, "claimed.txt")).read().split())
have = [p for p in have if p in claimed]
checks = []
for p in have:
    c = importlib.import_module("checklib." + p.lower()).CONFIG
    checks.append(dict(
        property_id=p,
        quick_cmd=f"./check {p} --tier quick",
        thorough_cmd=f"./check {p} --tier thorough",
        evidence_file=f"/verif/evidence/{p}.json",
        replay_cmd_template=f"./check {p} --replay {{path}}",
        engine="lean4-proof+correspondence",
        level_claimed=dict(category=c.get("level", "proof"), text=c["level_text"], design_ref=c.get("design_ref", f"DESIGN.md §6 {p}")),
        level_note=c["level_note"],
        technique=c.get("technique", "machine-checked proof in Lean 4 over a hand-written executable model, tied to the code by a differential correspondence check"),
    ))
na = [dict(property_id=p, reason="check not built yet in this session (in progress; see DESIGN.md §11 build order)") for p in ALL if p not in have]
m = dict(
    version=1,
    setup_cmd="./check --setup",
    hooks=dict(
        guard="--cfg mahf_verif",
        enable="harness/.cargo/config.toml sets rustflags = [\"--cfg\", \"mahf_verif\"]; the harness crate depends on /repo by path, so every check rebuilds /repo's working tree with the hooks on",
        baseline_off_cmd="cd /repo && cargo test --workspace --no-fail-fast --offline",
        source_commits=json.load(open(os.path.join(ROOT, "hooks.json")))["source_commits"] if os.path.exists(os.path.join(ROOT, "hooks.json")) else [],
        add_only=True,
    ),
    engines=[dict(name="lean4-proof+correspondence", path="/verif/check", serves_properties=have,
                  kind_free_text="Lean 4 theorems over executable models (lean/MahfModel), compiled Lean drivers (lean/Drv), Rust differential harness (harness/), python orchestration (check)")],
    checks=checks,
    notes="See DESIGN.md. Known findings: known_findings.json. Per-property config: checklib/cXX.py.",
    not_applicable=na,
)
json.dump(m, open(os.path.join(ROOT, "MANIFEST.json"), "w"), indent=1)
print("MANIFEST.json:", len(checks), "checks,", len(na), "not_applicable")
