import MahfModel.Model.Sexp
import MahfModel.Model.PopStack
