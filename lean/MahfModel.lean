import MahfModel.Model.Sexp
