/- Helper lemmas for C20 (chemical-reaction optimisation updates). -/
import MahfModel.Model.Cro
import Mathlib.Algebra.Order.Field.Basic
import Mathlib.Tactic.Ring
import Mathlib.Tactic.Linarith
namespace MahfModel.Cro
set_option linter.unusedSectionVars false
set_option linter.unusedSimpArgs false

section lists
variable {α : Type} {F : Type} [Field F]

theorem sumF_map_append (f : α → F) (l₁ l₂ : List α) :
    sumF ((l₁ ++ l₂).map f) = sumF (l₁.map f) + sumF (l₂.map f) := by
  induction l₁ with
  | nil => simp [sumF]
  | cons x xs ih => simp only [List.cons_append, List.map_cons, sumF, ih]; ring

theorem sumF_map_set (f : α → F) (l : List α) (i : Nat) (y x : α) (h : l[i]? = some y) :
    sumF ((l.set i x).map f) = sumF (l.map f) - f y + f x := by
  induction l generalizing i with
  | nil => simp at h
  | cons a as ih =>
    cases i with
    | zero =>
      simp only [List.getElem?_cons_zero, Option.some.injEq] at h
      subst h; simp only [List.set_cons_zero, List.map_cons, sumF]; ring
    | succ i =>
      simp only [List.getElem?_cons_succ] at h
      simp only [List.set_cons_succ, List.map_cons, sumF, ih i h]; ring

theorem sumF_map_eraseIdx (f : α → F) (l : List α) (j : Nat) (y : α) (h : l[j]? = some y) :
    sumF ((l.eraseIdx j).map f) = sumF (l.map f) - f y := by
  induction l generalizing j with
  | nil => simp at h
  | cons a as ih =>
    cases j with
    | zero =>
      simp only [List.getElem?_cons_zero, Option.some.injEq] at h
      subst h; simp only [List.eraseIdx_cons_zero, List.map_cons, sumF]; ring
    | succ j =>
      simp only [List.getElem?_cons_succ] at h
      simp only [List.eraseIdx_cons_succ, List.map_cons, sumF, ih j h]; ring

theorem sumF_nonneg [LinearOrder F] [IsStrictOrderedRing F] (l : List F) (h : ∀ x ∈ l, 0 ≤ x) : 0 ≤ sumF l := by
  induction l with
  | nil => simp [sumF]
  | cons a as ih =>
    simp only [sumF]
    have := h a (by simp)
    have := ih (fun x hx => h x (by simp [hx]))
    linarith

theorem zip_set {β : Type} (l₁ : List α) (l₂ : List β) (i : Nat) (a : α) (b : β) :
    (l₁.set i a).zip (l₂.set i b) = (l₁.zip l₂).set i (a, b) := by
  induction l₁ generalizing l₂ i with
  | nil => simp
  | cons x xs ih =>
    cases l₂ with
    | nil => simp
    | cons y ys =>
      cases i with
      | zero => simp
      | succ i => simp [ih]

theorem zip_set_right {β : Type} (l₁ : List α) (l₂ : List β) (i : Nat) (x : α) (b : β) (h : l₁[i]? = some x) :
    l₁.zip (l₂.set i b) = (l₁.zip l₂).set i (x, b) := by
  have : l₁ = l₁.set i x := by
    apply List.ext_getElem?
    intro k
    by_cases hk : i = k
    · subst hk
      have hl : i < l₁.length := by
        by_contra hc
        rw [List.getElem?_eq_none (by omega)] at h; simp at h
      rw [List.getElem?_set_self hl, h]
    · rw [List.getElem?_set_ne hk]
  conv_lhs => rw [this]
  exact zip_set l₁ l₂ i x b

theorem zip_set_append {β : Type} (l₁ : List α) (l₂ : List β) (i : Nat) (a : α) (b : β) (c : α) (d : β)
    (h : l₁.length = l₂.length) :
    (l₁.set i a ++ [c]).zip (l₂.set i b ++ [d]) = (l₁.zip l₂).set i (a, b) ++ [(c, d)] := by
  rw [List.zip_append (by simp [h]), zip_set]; rfl

theorem zip_eraseIdx {β : Type} (l₁ : List α) (l₂ : List β) (j : Nat) :
    (l₁.eraseIdx j).zip (l₂.eraseIdx j) = (l₁.zip l₂).eraseIdx j := by
  induction l₁ generalizing l₂ j with
  | nil => simp
  | cons x xs ih =>
    cases l₂ with
    | nil => cases j <;> simp
    | cons y ys =>
      cases j with
      | zero => simp
      | succ j => simp [ih]

end lists

section locate
variable {F : Type} [BEq F]

theorem position_some (l : Pop F) (r : Ind F) (i : Nat) (h : position l r = some i) :
    ∃ x, l[i]? = some x ∧ (x == r) = true := by
  induction l generalizing i with
  | nil => simp [position] at h
  | cons a as ih =>
    simp only [position] at h
    split at h
    · rename_i hx
      simp only [Option.some.injEq] at h; subst h
      exact ⟨a, by simp, hx⟩
    · cases hp : position as r with
      | none => simp [hp] at h
      | some k =>
        simp only [hp, Option.map_some, Option.some.injEq] at h; subst h
        obtain ⟨x, hx, hb⟩ := ih k hp
        exact ⟨x, by simpa using hx, hb⟩

/-- the first match: nothing before it is equal to `r` -/
theorem position_first (l : Pop F) (r : Ind F) (i : Nat) (h : position l r = some i) :
    ∀ k, k < i → ∀ y, l[k]? = some y → (y == r) = false := by
  induction l generalizing i with
  | nil => simp [position] at h
  | cons a as ih =>
    simp only [position] at h
    split at h
    · simp only [Option.some.injEq] at h; subst h; intro k hk; omega
    · rename_i hx
      cases hp : position as r with
      | none => simp [hp] at h
      | some j =>
        simp only [hp, Option.map_some, Option.some.injEq] at h; subst h
        intro k hk y hy
        cases k with
        | zero => simp only [List.getElem?_cons_zero, Option.some.injEq] at hy; subst hy; simpa using hx
        | succ k => exact ih j hp k (by omega) y (by simpa using hy)

theorem positionOtherFrom_some (l : Pop F) (k skip : Nat) (r : Ind F) (j : Nat)
    (h : positionOtherFrom l k skip r = some j) :
    k ≤ j ∧ j ≠ skip ∧ ∃ x, l[j - k]? = some x ∧ (x == r) = true := by
  induction l generalizing k with
  | nil => simp [positionOtherFrom] at h
  | cons a as ih =>
    simp only [positionOtherFrom] at h
    split at h
    · rename_i hc
      simp only [Option.some.injEq] at h; subst h
      simp only [Bool.and_eq_true, bne_iff_ne, ne_eq] at hc
      exact ⟨le_refl _, hc.1, a, by simp, hc.2⟩
    · obtain ⟨h1, h2, x, hx, hb⟩ := ih (k + 1) h
      refine ⟨by omega, h2, x, ?_, hb⟩
      have : j - k = (j - (k + 1)) + 1 := by omega
      rw [this]; simpa using hx

theorem positionOther_some (l : Pop F) (skip : Nat) (r : Ind F) (j : Nat)
    (h : positionOther l skip r = some j) :
    j ≠ skip ∧ ∃ x, l[j]? = some x ∧ (x == r) = true := by
  obtain ⟨_, h2, x, hx, hb⟩ := positionOtherFrom_some l 0 skip r j h
  exact ⟨h2, x, by simpa using hx, hb⟩

end locate

section energy
variable {F : Type} [Field F] [LinearOrder F] [IsStrictOrderedRing F]

theorem ind_beq_obj {x r : Ind F} (h : (x == r) = true) : x.obj = r.obj := by
  have : (x.tag == r.tag && x.obj == r.obj) = true := h
  simp only [Bool.and_eq_true, beq_iff_eq] at this
  exact this.2

theorem updateBest_ke (m : Mol F) (p : Ind F) : (m.updateBest p).ke = m.ke := by
  unfold Mol.updateBest; split <;> rfl

theorem energy_set (pop : Pop F) (mols : List (Mol F)) (b b' : F) (i : Nat) (x x' : Ind F) (m m' : Mol F)
    (hx : pop[i]? = some x) (hm : mols[i]? = some m) :
    energy (pop.set i x') (mols.set i m') b' =
      energy pop mols b - x.obj + x'.obj - m.ke + m'.ke - b + b' := by
  simp only [energy, sumF_map_set (·.obj) pop i x x' hx, sumF_map_set (·.ke) mols i m m' hm]; ring

theorem energy_mols_set (pop : Pop F) (mols : List (Mol F)) (b : F) (i : Nat) (m m' : Mol F)
    (hm : mols[i]? = some m) :
    energy pop (mols.set i m') b = energy pop mols b - m.ke + m'.ke := by
  simp only [energy, sumF_map_set (·.ke) mols i m m' hm]; ring

theorem energy_append (pop : Pop F) (mols : List (Mol F)) (b : F) (x : Ind F) (m : Mol F) :
    energy (pop ++ [x]) (mols ++ [m]) b = energy pop mols b + x.obj + m.ke := by
  simp only [energy, sumF_map_append, List.map_cons, List.map_nil, sumF]; ring

theorem energy_eraseIdx (pop : Pop F) (mols : List (Mol F)) (b : F) (j : Nat) (x : Ind F) (m : Mol F)
    (hx : pop[j]? = some x) (hm : mols[j]? = some m) :
    energy (pop.eraseIdx j) (mols.eraseIdx j) b = energy pop mols b - x.obj - m.ke := by
  simp only [energy, sumF_map_eraseIdx (·.obj) pop j x hx, sumF_map_eraseIdx (·.ke) mols j m hm]; ring

end energy

/-! ### Inversion: what an `ok` result looks like -/
section inversion
variable {F : Type} [Field F] [LinearOrder F] [IsStrictOrderedRing F]

theorem onWall_ok (lr a : F) (st : St F) (h : (onWall lr a st).status = .ok) :
    ∃ p r pop rest i x m, st.stack = [p] :: [r] :: pop :: rest ∧ pop[i]? = some x ∧ x.obj = r.obj ∧
      position pop r = some i ∧ st.mols[i]? = some m ∧
      ((p.obj ≤ r.obj + m.ke ∧ lr < 1 ∧ (onWall lr a st).st =
          { stack := pop.set i p :: rest,
            mols := st.mols.set i { (m.hit.updateBest p) with ke := (r.obj + m.ke - p.obj) * a },
            buffer := st.buffer + (r.obj + m.ke - p.obj) * (1 - a) }) ∨
       (¬ p.obj ≤ r.obj + m.ke ∧ (onWall lr a st).st =
          { st with stack := pop :: rest, mols := st.mols.set i m.hit })) := by
  unfold onWall at h ⊢
  split at h
  · rename_i pPop rPop pop rest hs
    split at h
    · rename_i p
      split at h
      · rename_i r
        split at h
        · simp at h
        · rename_i i hp
          split at h
          · simp at h
          · rename_i m hm
            obtain ⟨x, hx, hb⟩ := position_some pop r i hp
            refine ⟨p, r, pop, rest, i, x, m, hs, hx, ind_beq_obj hb, hp, hm, ?_⟩
            have hke : m.hit.ke = m.ke := rfl
            simp only [hs, hp, hm, hke] at h ⊢
            by_cases hc : p.obj ≤ r.obj + m.ke
            · by_cases hl : lr < 1
              · left; exact ⟨hc, hl, by rw [if_pos hc, if_pos hl]⟩
              · rw [if_pos hc, if_neg hl] at h; simp at h
            · right; exact ⟨hc, by rw [if_neg hc]⟩
      · simp at h
    · simp at h
  · simp at h

theorem decomposition_ok (dA δ1 δ2 dB : F) (st : St F) (h : (decomposition dA δ1 δ2 dB st).status = .ok) :
    ∃ p1 p2 r pop rest i x m, st.stack = [p1, p2] :: [r] :: pop :: rest ∧ pop[i]? = some x ∧ x.obj = r.obj ∧
      position pop r = some i ∧ st.mols[i]? = some m ∧
      ((p1.obj + p2.obj ≤ r.obj + m.ke ∧ (decomposition dA δ1 δ2 dB st).st =
          { stack := (pop.set i p1 ++ [p2]) :: rest,
            mols := st.mols.set i (Mol.new ((r.obj + m.ke - (p1.obj + p2.obj)) * dA) p1) ++
                      [Mol.new ((r.obj + m.ke - (p1.obj + p2.obj)) * (1 - dA)) p2],
            buffer := st.buffer }) ∨
       (¬ p1.obj + p2.obj ≤ r.obj + m.ke ∧ r.obj + m.ke + δ1 * δ2 * st.buffer - (p1.obj + p2.obj) < 0 ∧
          (decomposition dA δ1 δ2 dB st).st = { st with stack := pop :: rest, mols := st.mols.set i m.hit }) ∨
       (¬ p1.obj + p2.obj ≤ r.obj + m.ke ∧ ¬ r.obj + m.ke + δ1 * δ2 * st.buffer - (p1.obj + p2.obj) < 0 ∧
          (decomposition dA δ1 δ2 dB st).st =
          { stack := (pop.set i p1 ++ [p2]) :: rest,
            mols := st.mols.set i (Mol.new ((r.obj + m.ke + δ1 * δ2 * st.buffer - (p1.obj + p2.obj)) * dB) p1) ++
                      [Mol.new ((r.obj + m.ke + δ1 * δ2 * st.buffer - (p1.obj + p2.obj)) * (1 - dB)) p2],
            buffer := st.buffer * (1 - δ1 * δ2) })) := by
  unfold decomposition at h ⊢
  split at h
  · rename_i pPop rPop pop rest hs
    split at h
    · rename_i p1 p2
      split at h
      · rename_i r
        split at h
        · simp at h
        · rename_i i hp
          split at h
          · simp at h
          · rename_i m hm
            obtain ⟨x, hx, hb⟩ := position_some pop r i hp
            refine ⟨p1, p2, r, pop, rest, i, x, m, hs, hx, ind_beq_obj hb, hp, hm, ?_⟩
            simp only [hs, hp, hm] at h ⊢
            by_cases hc : p1.obj + p2.obj ≤ r.obj + m.ke
            · left; exact ⟨hc, by rw [if_pos hc]⟩
            · right
              by_cases hd : r.obj + m.ke + δ1 * δ2 * st.buffer - (p1.obj + p2.obj) < 0
              · left; exact ⟨hc, hd, by rw [if_neg hc, if_pos hd]⟩
              · right; exact ⟨hc, hd, by rw [if_neg hc, if_neg hd]⟩
      · simp at h
    · simp at h
  · simp at h

theorem intermolecular_ok (d4 : F) (st : St F) (h : (intermolecular d4 st).status = .ok) :
    ∃ p1 p2 r1 r2 pop rest i j x y mi mj, st.stack = [p1, p2] :: [r1, r2] :: pop :: rest ∧
      pop[i]? = some x ∧ x.obj = r1.obj ∧ pop[j]? = some y ∧ y.obj = r2.obj ∧ j ≠ i ∧
      position pop r1 = some i ∧ positionOther pop i r2 = some j ∧
      st.mols[i]? = some mi ∧ st.mols[j]? = some mj ∧
      ((0 ≤ (r1.obj + mi.ke) + (r2.obj + mj.ke) - (p1.obj + p2.obj) ∧ (intermolecular d4 st).st =
          { stack := ((pop.set i p1).set j p2) :: rest,
            mols := (st.mols.set i (({ mi.hit with ke := ((r1.obj + mi.ke) + (r2.obj + mj.ke) - (p1.obj + p2.obj)) * d4 } : Mol F).updateBest p1)).set j
                      (({ mj.hit with ke := ((r1.obj + mi.ke) + (r2.obj + mj.ke) - (p1.obj + p2.obj)) * (1 - d4) } : Mol F).updateBest p2),
            buffer := st.buffer }) ∨
       (¬ 0 ≤ (r1.obj + mi.ke) + (r2.obj + mj.ke) - (p1.obj + p2.obj) ∧ (intermolecular d4 st).st =
          { st with stack := pop :: rest, mols := (st.mols.set i mi.hit).set j mj.hit })) := by
  unfold intermolecular at h ⊢
  split at h
  · rename_i pPop rPop pop rest hs
    split at h
    · rename_i p1 p2
      split at h
      · rename_i r1 r2
        split at h
        · simp at h
        · rename_i i hp
          split at h
          · simp at h
          · rename_i j hq
            split at h
            · rename_i mi mj hmi hmj
              obtain ⟨x, hx, hb⟩ := position_some pop r1 i hp
              obtain ⟨hji, y, hy, hby⟩ := positionOther_some pop i r2 j hq
              refine ⟨p1, p2, r1, r2, pop, rest, i, j, x, y, mi, mj, hs, hx, ind_beq_obj hb, hy, ind_beq_obj hby, hji,
                hp, hq, hmi, hmj, ?_⟩
              have hki : mi.hit.ke = mi.ke := rfl
              have hkj : mj.hit.ke = mj.ke := rfl
              simp only [hs, hp, hq, hmi, hmj, hki, hkj] at h ⊢
              by_cases hc : 0 ≤ (r1.obj + mi.ke) + (r2.obj + mj.ke) - (p1.obj + p2.obj)
              · left; exact ⟨hc, by rw [if_pos hc]⟩
              · right; exact ⟨hc, by rw [if_neg hc]⟩
            · simp at h
            · simp at h
      · simp at h
    · simp at h
  · simp at h

theorem synthesis_ok (st : St F) (h : (synthesis st).status = .ok) :
    ∃ p r1 r2 pop rest i j x y mi mj, st.stack = [p] :: [r1, r2] :: pop :: rest ∧
      pop[i]? = some x ∧ x.obj = r1.obj ∧ pop[j]? = some y ∧ y.obj = r2.obj ∧ j ≠ i ∧
      position pop r1 = some i ∧ positionOther pop i r2 = some j ∧
      st.mols[i]? = some mi ∧ st.mols[j]? = some mj ∧
      ((p.obj ≤ (r1.obj + mi.ke) + (r2.obj + mj.ke) ∧ (synthesis st).st =
          { stack := ((pop.set i p).eraseIdx j) :: rest,
            mols := (st.mols.set i (Mol.new ((r1.obj + mi.ke) + (r2.obj + mj.ke) - p.obj) p)).eraseIdx j,
            buffer := st.buffer }) ∨
       (¬ p.obj ≤ (r1.obj + mi.ke) + (r2.obj + mj.ke) ∧ (synthesis st).st = { st with stack := pop :: rest })) := by
  unfold synthesis at h ⊢
  split at h
  · rename_i pPop rPop pop rest hs
    split at h
    · rename_i p
      split at h
      · rename_i r1 r2
        split at h
        · simp at h
        · rename_i i hp
          split at h
          · simp at h
          · rename_i j hq
            split at h
            · rename_i mi mj hmi hmj
              obtain ⟨x, hx, hb⟩ := position_some pop r1 i hp
              obtain ⟨hji, y, hy, hby⟩ := positionOther_some pop i r2 j hq
              refine ⟨p, r1, r2, pop, rest, i, j, x, y, mi, mj, hs, hx, ind_beq_obj hb, hy, ind_beq_obj hby, hji,
                hp, hq, hmi, hmj, ?_⟩
              simp only [hs, hp, hq, hmi, hmj] at h ⊢
              by_cases hc : p.obj ≤ (r1.obj + mi.ke) + (r2.obj + mj.ke)
              · left; exact ⟨hc, by rw [if_pos hc]⟩
              · right; exact ⟨hc, by rw [if_neg hc]⟩
            · simp at h
      · simp at h
    · simp at h
  · simp at h

end inversion
end MahfModel.Cro
