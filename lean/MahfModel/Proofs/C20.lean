/- Helper lemmas for C20 (chemical-reaction optimisation updates). -/
import MahfModel.Model.Cro
import Mathlib.Algebra.Order.Field.Basic
import Mathlib.Tactic.Ring
import Mathlib.Tactic.Linarith
namespace MahfModel.Cro
set_option linter.unusedSectionVars false
set_option linter.unusedSimpArgs false

section lists
variable {α : Type} {F : Type} [Field F]

theorem sumF_map_append (f : α → F) (l₁ l₂ : List α) :
    sumF ((l₁ ++ l₂).map f) = sumF (l₁.map f) + sumF (l₂.map f) := by
  induction l₁ with
  | nil => simp [sumF]
  | cons x xs ih => simp only [List.cons_append, List.map_cons, sumF, ih]; ring

theorem sumF_map_set (f : α → F) (l : List α) (i : Nat) (y x : α) (h : l[i]? = some y) :
    sumF ((l.set i x).map f) = sumF (l.map f) - f y + f x := by
  induction l generalizing i with
  | nil => simp at h
  | cons a as ih =>
    cases i with
    | zero =>
      simp only [List.getElem?_cons_zero, Option.some.injEq] at h
      subst h; simp only [List.set_cons_zero, List.map_cons, sumF]; ring
    | succ i =>
      simp only [List.getElem?_cons_succ] at h
      simp only [List.set_cons_succ, List.map_cons, sumF, ih i h]; ring

theorem sumF_map_eraseIdx (f : α → F) (l : List α) (j : Nat) (y : α) (h : l[j]? = some y) :
    sumF ((l.eraseIdx j).map f) = sumF (l.map f) - f y := by
  induction l generalizing j with
  | nil => simp at h
  | cons a as ih =>
    cases j with
    | zero =>
      simp only [List.getElem?_cons_zero, Option.some.injEq] at h
      subst h; simp only [List.eraseIdx_cons_zero, List.map_cons, sumF]; ring
    | succ j =>
      simp only [List.getElem?_cons_succ] at h
      simp only [List.eraseIdx_cons_succ, List.map_cons, sumF, ih j h]; ring

theorem sumF_nonneg [LinearOrder F] [IsStrictOrderedRing F] (l : List F) (h : ∀ x ∈ l, 0 ≤ x) : 0 ≤ sumF l := by
  induction l with
  | nil => simp [sumF]
  | cons a as ih =>
    simp only [sumF]
    have := h a (by simp)
    have := ih (fun x hx => h x (by simp [hx]))
    linarith

theorem zip_set {β : Type} (l₁ : List α) (l₂ : List β) (i : Nat) (a : α) (b : β) :
    (l₁.set i a).zip (l₂.set i b) = (l₁.zip l₂).set i (a, b) := by
  induction l₁ generalizing l₂ i with
  | nil => simp
  | cons x xs ih =>
    cases l₂ with
    | nil => simp
    | cons y ys =>
      cases i with
      | zero => simp
      | succ i => simp [ih]

theorem zip_set_right {β : Type} (l₁ : List α) (l₂ : List β) (i : Nat) (x : α) (b : β) (h : l₁[i]? = some x) :
    l₁.zip (l₂.set i b) = (l₁.zip l₂).set i (x, b) := by
  have : l₁ = l₁.set i x := by
    apply List.ext_getElem?
    intro k
    by_cases hk : i = k
    · subst hk
      have hl : i < l₁.length := by
        by_contra hc
        rw [List.getElem?_eq_none (by omega)] at h; simp at h
      rw [List.getElem?_set_self hl, h]
    · rw [List.getElem?_set_ne hk]
  conv_lhs => rw [this]
  exact zip_set l₁ l₂ i x b

theorem zip_set_append {β : Type} (l₁ : List α) (l₂ : List β) (i : Nat) (a : α) (b : β) (c : α) (d : β)
    (h : l₁.length = l₂.length) :
    (l₁.set i a ++ [c]).zip (l₂.set i b ++ [d]) = (l₁.zip l₂).set i (a, b) ++ [(c, d)] := by
  rw [List.zip_append (by simp [h]), zip_set]; rfl

theorem zip_eraseIdx {β : Type} (l₁ : List α) (l₂ : List β) (j : Nat) :
    (l₁.eraseIdx j).zip (l₂.eraseIdx j) = (l₁.zip l₂).eraseIdx j := by
  induction l₁ generalizing l₂ j with
  | nil => simp
  | cons x xs ih =>
    cases l₂ with
    | nil => cases j <;> simp
    | cons y ys =>
      cases j with
      | zero => simp
      | succ j => simp [ih]

end lists

section locate
variable {F : Type} [BEq F]

theorem position_some (l : Pop F) (r : Ind F) (i : Nat) (h : position l r = some i) :
    ∃ x, l[i]? = some x ∧ (x == r) = true := by
  induction l generalizing i with
  | nil => simp [position] at h
  | cons a as ih =>
    simp only [position] at h
    split at h
    · rename_i hx
      simp only [Option.some.injEq] at h; subst h
      exact ⟨a, by simp, hx⟩
    · cases hp : position as r with
      | none => simp [hp] at h
      | some k =>
        simp only [hp, Option.map_some, Option.some.injEq] at h; subst h
        obtain ⟨x, hx, hb⟩ := ih k hp
        exact ⟨x, by simpa using hx, hb⟩

/-- the first match: nothing before it is equal to `r` -/
theorem position_first (l : Pop F) (r : Ind F) (i : Nat) (h : position l r = some i) :
    ∀ k, k < i → ∀ y, l[k]? = some y → (y == r) = false := by
  induction l generalizing i with
  | nil => simp [position] at h
  | cons a as ih =>
    simp only [position] at h
    split at h
    · simp only [Option.some.injEq] at h; subst h; intro k hk; omega
    · rename_i hx
      cases hp : position as r with
      | none => simp [hp] at h
      | some j =>
        simp only [hp, Option.map_some, Option.some.injEq] at h; subst h
        intro k hk y hy
        cases k with
        | zero => simp only [List.getElem?_cons_zero, Option.some.injEq] at hy; subst hy; simpa using hx
        | succ k => exact ih j hp k (by omega) y (by simpa using hy)

theorem positionOtherFrom_some (l : Pop F) (k skip : Nat) (r : Ind F) (j : Nat)
    (h : positionOtherFrom l k skip r = some j) :
    k ≤ j ∧ j ≠ skip ∧ ∃ x, l[j - k]? = some x ∧ (x == r) = true := by
  induction l generalizing k with
  | nil => simp [positionOtherFrom] at h
  | cons a as ih =>
    simp only [positionOtherFrom] at h
    split at h
    · rename_i hc
      simp only [Option.some.injEq] at h; subst h
      simp only [Bool.and_eq_true, bne_iff_ne, ne_eq] at hc
      exact ⟨le_refl _, hc.1, a, by simp, hc.2⟩
    · obtain ⟨h1, h2, x, hx, hb⟩ := ih (k + 1) h
      refine ⟨by omega, h2, x, ?_, hb⟩
      have : j - k = (j - (k + 1)) + 1 := by omega
      rw [this]; simpa using hx

theorem positionOther_some (l : Pop F) (skip : Nat) (r : Ind F) (j : Nat)
    (h : positionOther l skip r = some j) :
    j ≠ skip ∧ ∃ x, l[j]? = some x ∧ (x == r) = true := by
  obtain ⟨_, h2, x, hx, hb⟩ := positionOtherFrom_some l 0 skip r j h
  exact ⟨h2, x, by simpa using hx, hb⟩

end locate

section energy
variable {F : Type} [Field F] [LinearOrder F] [IsStrictOrderedRing F]

theorem ind_beq_obj {x r : Ind F} (h : (x == r) = true) : x.obj = r.obj := by
  have : (x.tag == r.tag && x.obj == r.obj) = true := h
  simp only [Bool.and_eq_true, beq_iff_eq] at this
  exact this.2

theorem updateBest_ke (m : Mol F) (p : Ind F) : (m.updateBest p).ke = m.ke := by
  unfold Mol.updateBest; split <;> rfl

theorem energy_set (pop : Pop F) (mols : List (Mol F)) (b b' : F) (i : Nat) (x x' : Ind F) (m m' : Mol F)
    (hx : pop[i]? = some x) (hm : mols[i]? = some m) :
    energy (pop.set i x') (mols.set i m') b' =
      energy pop mols b - x.obj + x'.obj - m.ke + m'.ke - b + b' := by
  simp only [energy, sumF_map_set (·.obj) pop i x x' hx, sumF_map_set (·.ke) mols i m m' hm]; ring

theorem energy_mols_set (pop : Pop F) (mols : List (Mol F)) (b : F) (i : Nat) (m m' : Mol F)
    (hm : mols[i]? = some m) :
    energy pop (mols.set i m') b = energy pop mols b - m.ke + m'.ke := by
  simp only [energy, sumF_map_set (·.ke) mols i m m' hm]; ring

theorem energy_append (pop : Pop F) (mols : List (Mol F)) (b : F) (x : Ind F) (m : Mol F) :
    energy (pop ++ [x]) (mols ++ [m]) b = energy pop mols b + x.obj + m.ke := by
  simp only [energy, sumF_map_append, List.map_cons, List.map_nil, sumF]; ring

theorem energy_eraseIdx (pop : Pop F) (mols : List (Mol F)) (b : F) (j : Nat) (x : Ind F) (m : Mol F)
    (hx : pop[j]? = some x) (hm : mols[j]? = some m) :
    energy (pop.eraseIdx j) (mols.eraseIdx j) b = energy pop mols b - x.obj - m.ke := by
  simp only [energy, sumF_map_eraseIdx (·.obj) pop j x hx, sumF_map_eraseIdx (·.ke) mols j m hm]; ring

end energy

/-! ### Inversion: what an `ok` result looks like (for any legal reactant index) -/
section inversion
variable {F : Type} [BEq F] [Add F] [Sub F] [Mul F] [LT F] [LE F] [DecidableLT F] [DecidableLE F] [OfNat F 0] [OfNat F 1]

theorem isAt_some {pop : Pop F} {i : Nat} {r : Ind F} (h : isAt pop i r = true) :
    ∃ x, pop[i]? = some x ∧ (x == r) = true := by
  unfold isAt at h
  split at h
  · rename_i x hx; exact ⟨x, hx, h⟩
  · simp at h

theorem isAt_of_position {pop : Pop F} {i : Nat} {r : Ind F} (h : position pop r = some i) :
    isAt pop i r = true := by
  obtain ⟨x, hx, hb⟩ := position_some pop r i h
  simp [isAt, hx, hb]

theorem isAt_of_positionOther {pop : Pop F} {i j : Nat} {r : Ind F} (h : positionOther pop i r = some j) :
    isAt pop j r = true ∧ j ≠ i := by
  obtain ⟨hji, x, hx, hb⟩ := positionOther_some pop i r j h
  exact ⟨by simp [isAt, hx, hb], hji⟩

/-- The code's own choice (first match) is a legal witness, on every state. -/
theorem legal1_first (st : St F) : legal1 (firstIdx st) st = true := by
  obtain ⟨stack, mols, buffer⟩ := st
  unfold legal1
  split
  · rename_i a r pop rest hs
    simp only at hs
    simp only [firstIdx, hs]
    cases hp : position pop r with
    | none => simp
    | some i => simp [isAt_of_position hp]
  · rfl

theorem legal2_first (st : St F) : legal2 (firstIdx st) (secondIdx st) st = true := by
  obtain ⟨stack, mols, buffer⟩ := st
  unfold legal2
  split
  · rename_i a r1 r2 pop rest hs
    simp only at hs
    simp only [firstIdx, secondIdx, hs]
    cases hp : position pop r1 with
    | none => simp
    | some i =>
      cases hq : positionOther pop i r2 with
      | none => simp [hq]
      | some j =>
        obtain ⟨hj, hji⟩ := isAt_of_positionOther hq
        simp [hq, isAt_of_position hp, hj, Ne.symm hji]
  · rfl

theorem onWallAt_okW (lr a : F) (wi : Nat) (st : St F) (hl : legal1 wi st = true)
    (h : (onWallAt lr a wi st).status = .ok) :
    ∃ p r pop rest x m, st.stack = [p] :: [r] :: pop :: rest ∧ pop[wi]? = some x ∧
      (x == r) = true ∧ st.mols[wi]? = some m ∧
      ((p.obj ≤ r.obj + m.ke ∧ lr < 1 ∧ (onWallAt lr a wi st).st =
          { stack := pop.set wi p :: rest,
            mols := st.mols.set wi { (m.hit.updateBest p) with ke := (r.obj + m.ke - p.obj) * a },
            buffer := st.buffer + (r.obj + m.ke - p.obj) * (1 - a) }) ∨
       (¬ p.obj ≤ r.obj + m.ke ∧ (onWallAt lr a wi st).st =
          { st with stack := pop :: rest, mols := st.mols.set wi m.hit })) := by
  unfold onWallAt at h ⊢
  split at h
  · rename_i pPop rPop pop rest hs
    split at h
    · rename_i p
      split at h
      · rename_i r
        split at h
        · simp at h
        · rename_i i0 hp
          simp only at h
          split at h
          · simp at h
          · rename_i m hm
            have hat : isAt pop wi r = true := by
              simp only [legal1, hs, hp, Option.isNone_some, Bool.false_or] at hl; exact hl
            obtain ⟨x, hx, hb⟩ := isAt_some hat
            refine ⟨p, r, pop, rest, x, m, hs, hx, hb, hm, ?_⟩
            have hke : m.hit.ke = m.ke := rfl
            simp only [hs, hp, hm, hke] at h ⊢
            by_cases hc : p.obj ≤ r.obj + m.ke
            · by_cases hl : lr < 1
              · left; exact ⟨hc, hl, by rw [if_pos hc, if_pos hl]⟩
              · rw [if_pos hc, if_neg hl] at h; simp at h
            · right; exact ⟨hc, by rw [if_neg hc]⟩
      · simp at h
    · simp at h
  · simp at h

theorem decompositionAt_okW (dA δ1 δ2 dB : F) (wi : Nat) (st : St F) (hl : legal1 wi st = true)
    (h : (decompositionAt dA δ1 δ2 dB wi st).status = .ok) :
    ∃ p1 p2 r pop rest x m, st.stack = [p1, p2] :: [r] :: pop :: rest ∧ pop[wi]? = some x ∧
      (x == r) = true ∧ st.mols[wi]? = some m ∧
      ((p1.obj + p2.obj ≤ r.obj + m.ke ∧ (decompositionAt dA δ1 δ2 dB wi st).st =
          { stack := (pop.set wi p1 ++ [p2]) :: rest,
            mols := st.mols.set wi (Mol.new ((r.obj + m.ke - (p1.obj + p2.obj)) * dA) p1) ++
                      [Mol.new ((r.obj + m.ke - (p1.obj + p2.obj)) * (1 - dA)) p2],
            buffer := st.buffer }) ∨
       (¬ p1.obj + p2.obj ≤ r.obj + m.ke ∧ r.obj + m.ke + δ1 * δ2 * st.buffer - (p1.obj + p2.obj) < 0 ∧
          (decompositionAt dA δ1 δ2 dB wi st).st = { st with stack := pop :: rest, mols := st.mols.set wi m.hit }) ∨
       (¬ p1.obj + p2.obj ≤ r.obj + m.ke ∧ ¬ r.obj + m.ke + δ1 * δ2 * st.buffer - (p1.obj + p2.obj) < 0 ∧
          (decompositionAt dA δ1 δ2 dB wi st).st =
          { stack := (pop.set wi p1 ++ [p2]) :: rest,
            mols := st.mols.set wi (Mol.new ((r.obj + m.ke + δ1 * δ2 * st.buffer - (p1.obj + p2.obj)) * dB) p1) ++
                      [Mol.new ((r.obj + m.ke + δ1 * δ2 * st.buffer - (p1.obj + p2.obj)) * (1 - dB)) p2],
            buffer := st.buffer * (1 - δ1 * δ2) })) := by
  unfold decompositionAt at h ⊢
  split at h
  · rename_i pPop rPop pop rest hs
    split at h
    · rename_i p1 p2
      split at h
      · rename_i r
        split at h
        · simp at h
        · rename_i i0 hp
          simp only at h
          split at h
          · simp at h
          · rename_i m hm
            have hat : isAt pop wi r = true := by
              simp only [legal1, hs, hp, Option.isNone_some, Bool.false_or] at hl; exact hl
            obtain ⟨x, hx, hb⟩ := isAt_some hat
            refine ⟨p1, p2, r, pop, rest, x, m, hs, hx, hb, hm, ?_⟩
            simp only [hs, hp, hm] at h ⊢
            by_cases hc : p1.obj + p2.obj ≤ r.obj + m.ke
            · left; exact ⟨hc, by rw [if_pos hc]⟩
            · right
              by_cases hd : r.obj + m.ke + δ1 * δ2 * st.buffer - (p1.obj + p2.obj) < 0
              · left; exact ⟨hc, hd, by rw [if_neg hc, if_pos hd]⟩
              · right; exact ⟨hc, hd, by rw [if_neg hc, if_neg hd]⟩
      · simp at h
    · simp at h
  · simp at h

theorem intermolecularAt_okW (d4 : F) (wi wj : Nat) (st : St F) (hl : legal2 wi wj st = true)
    (h : (intermolecularAt d4 wi wj st).status = .ok) :
    ∃ p1 p2 r1 r2 pop rest x y mi mj, st.stack = [p1, p2] :: [r1, r2] :: pop :: rest ∧
      pop[wi]? = some x ∧ pop[wj]? = some y ∧ wj ≠ wi ∧
      (x == r1) = true ∧ (y == r2) = true ∧
      st.mols[wi]? = some mi ∧ st.mols[wj]? = some mj ∧
      ((0 ≤ (r1.obj + mi.ke) + (r2.obj + mj.ke) - (p1.obj + p2.obj) ∧ (intermolecularAt d4 wi wj st).st =
          { stack := ((pop.set wi p1).set wj p2) :: rest,
            mols := (st.mols.set wi (({ mi.hit with ke := ((r1.obj + mi.ke) + (r2.obj + mj.ke) - (p1.obj + p2.obj)) * d4 } : Mol F).updateBest p1)).set wj
                      (({ mj.hit with ke := ((r1.obj + mi.ke) + (r2.obj + mj.ke) - (p1.obj + p2.obj)) * (1 - d4) } : Mol F).updateBest p2),
            buffer := st.buffer }) ∨
       (¬ 0 ≤ (r1.obj + mi.ke) + (r2.obj + mj.ke) - (p1.obj + p2.obj) ∧ (intermolecularAt d4 wi wj st).st =
          { st with stack := pop :: rest, mols := (st.mols.set wi mi.hit).set wj mj.hit })) := by
  unfold intermolecularAt at h ⊢
  split at h
  · rename_i pPop rPop pop rest hs
    split at h
    · rename_i p1 p2
      split at h
      · rename_i r1 r2
        split at h
        · simp at h
        · rename_i i0 hp
          split at h
          · simp at h
          · rename_i j0 hq
            simp only at h
            split at h
            · rename_i mi mj hmi hmj
              have hat : isAt pop wi r1 = true ∧ isAt pop wj r2 = true ∧ wi ≠ wj := by
                simp only [legal2, hs, hp, hq, Bool.and_eq_true, bne_iff_ne, ne_eq] at hl
                exact ⟨hl.1.1, hl.1.2, hl.2⟩
              obtain ⟨x, hx, hb⟩ := isAt_some hat.1
              obtain ⟨y, hy, hby⟩ := isAt_some hat.2.1
              refine ⟨p1, p2, r1, r2, pop, rest, x, y, mi, mj, hs, hx, hy,
                Ne.symm hat.2.2, hb, hby, hmi, hmj, ?_⟩
              have hki : mi.hit.ke = mi.ke := rfl
              have hkj : mj.hit.ke = mj.ke := rfl
              simp only [hs, hp, hq, hmi, hmj, hki, hkj] at h ⊢
              by_cases hc : 0 ≤ (r1.obj + mi.ke) + (r2.obj + mj.ke) - (p1.obj + p2.obj)
              · left; exact ⟨hc, by rw [if_pos hc]⟩
              · right; exact ⟨hc, by rw [if_neg hc]⟩
            · simp at h
            · simp at h
      · simp at h
    · simp at h
  · simp at h

theorem synthesisAt_okW (wi wj : Nat) (st : St F) (hl : legal2 wi wj st = true)
    (h : (synthesisAt wi wj st).status = .ok) :
    ∃ p r1 r2 pop rest x y mi mj, st.stack = [p] :: [r1, r2] :: pop :: rest ∧
      pop[wi]? = some x ∧ pop[wj]? = some y ∧ wj ≠ wi ∧
      (x == r1) = true ∧ (y == r2) = true ∧
      st.mols[wi]? = some mi ∧ st.mols[wj]? = some mj ∧
      ((p.obj ≤ (r1.obj + mi.ke) + (r2.obj + mj.ke) ∧ (synthesisAt wi wj st).st =
          { stack := ((pop.set wi p).eraseIdx wj) :: rest,
            mols := (st.mols.set wi (Mol.new ((r1.obj + mi.ke) + (r2.obj + mj.ke) - p.obj) p)).eraseIdx wj,
            buffer := st.buffer }) ∨
       (¬ p.obj ≤ (r1.obj + mi.ke) + (r2.obj + mj.ke) ∧ (synthesisAt wi wj st).st = { st with stack := pop :: rest })) := by
  unfold synthesisAt at h ⊢
  split at h
  · rename_i pPop rPop pop rest hs
    split at h
    · rename_i p
      split at h
      · rename_i r1 r2
        split at h
        · simp at h
        · rename_i i0 hp
          split at h
          · simp at h
          · rename_i j0 hq
            simp only at h
            split at h
            · rename_i mi mj hmi hmj
              have hat : isAt pop wi r1 = true ∧ isAt pop wj r2 = true ∧ wi ≠ wj := by
                simp only [legal2, hs, hp, hq, Bool.and_eq_true, bne_iff_ne, ne_eq] at hl
                exact ⟨hl.1.1, hl.1.2, hl.2⟩
              obtain ⟨x, hx, hb⟩ := isAt_some hat.1
              obtain ⟨y, hy, hby⟩ := isAt_some hat.2.1
              refine ⟨p, r1, r2, pop, rest, x, y, mi, mj, hs, hx, hy,
                Ne.symm hat.2.2, hb, hby, hmi, hmj, ?_⟩
              simp only [hs, hp, hq, hmi, hmj] at h ⊢
              by_cases hc : p.obj ≤ (r1.obj + mi.ke) + (r2.obj + mj.ke)
              · left; exact ⟨hc, by rw [if_pos hc]⟩
              · right; exact ⟨hc, by rw [if_neg hc]⟩
            · simp at h
      · simp at h
    · simp at h
  · simp at h

end inversion

section inversionField
variable {F : Type} [Field F] [LinearOrder F] [IsStrictOrderedRing F]

theorem onWallAt_ok (lr a : F) (wi : Nat) (st : St F) (hl : legal1 wi st = true)
    (h : (onWallAt lr a wi st).status = .ok) :
    ∃ p r pop rest x m, st.stack = [p] :: [r] :: pop :: rest ∧ pop[wi]? = some x ∧ x.obj = r.obj ∧
      (x == r) = true ∧ st.mols[wi]? = some m ∧
      ((p.obj ≤ r.obj + m.ke ∧ lr < 1 ∧ (onWallAt lr a wi st).st =
          { stack := pop.set wi p :: rest,
            mols := st.mols.set wi { (m.hit.updateBest p) with ke := (r.obj + m.ke - p.obj) * a },
            buffer := st.buffer + (r.obj + m.ke - p.obj) * (1 - a) }) ∨
       (¬ p.obj ≤ r.obj + m.ke ∧ (onWallAt lr a wi st).st =
          { st with stack := pop :: rest, mols := st.mols.set wi m.hit })) := by
  obtain ⟨p, r, pop, rest, x, m, hs, hx, hb, hm, hcase⟩ := onWallAt_okW lr a wi st hl h
  exact ⟨p, r, pop, rest, x, m, hs, hx, ind_beq_obj hb, hb, hm, hcase⟩

theorem decompositionAt_ok (dA δ1 δ2 dB : F) (wi : Nat) (st : St F) (hl : legal1 wi st = true)
    (h : (decompositionAt dA δ1 δ2 dB wi st).status = .ok) :
    ∃ p1 p2 r pop rest x m, st.stack = [p1, p2] :: [r] :: pop :: rest ∧ pop[wi]? = some x ∧ x.obj = r.obj ∧
      (x == r) = true ∧ st.mols[wi]? = some m ∧
      ((p1.obj + p2.obj ≤ r.obj + m.ke ∧ (decompositionAt dA δ1 δ2 dB wi st).st =
          { stack := (pop.set wi p1 ++ [p2]) :: rest,
            mols := st.mols.set wi (Mol.new ((r.obj + m.ke - (p1.obj + p2.obj)) * dA) p1) ++
                      [Mol.new ((r.obj + m.ke - (p1.obj + p2.obj)) * (1 - dA)) p2],
            buffer := st.buffer }) ∨
       (¬ p1.obj + p2.obj ≤ r.obj + m.ke ∧ r.obj + m.ke + δ1 * δ2 * st.buffer - (p1.obj + p2.obj) < 0 ∧
          (decompositionAt dA δ1 δ2 dB wi st).st = { st with stack := pop :: rest, mols := st.mols.set wi m.hit }) ∨
       (¬ p1.obj + p2.obj ≤ r.obj + m.ke ∧ ¬ r.obj + m.ke + δ1 * δ2 * st.buffer - (p1.obj + p2.obj) < 0 ∧
          (decompositionAt dA δ1 δ2 dB wi st).st =
          { stack := (pop.set wi p1 ++ [p2]) :: rest,
            mols := st.mols.set wi (Mol.new ((r.obj + m.ke + δ1 * δ2 * st.buffer - (p1.obj + p2.obj)) * dB) p1) ++
                      [Mol.new ((r.obj + m.ke + δ1 * δ2 * st.buffer - (p1.obj + p2.obj)) * (1 - dB)) p2],
            buffer := st.buffer * (1 - δ1 * δ2) })) := by
  obtain ⟨p1, p2, r, pop, rest, x, m, hs, hx, hb, hm, hcase⟩ := decompositionAt_okW dA δ1 δ2 dB wi st hl h
  exact ⟨p1, p2, r, pop, rest, x, m, hs, hx, ind_beq_obj hb, hb, hm, hcase⟩

theorem intermolecularAt_ok (d4 : F) (wi wj : Nat) (st : St F) (hl : legal2 wi wj st = true)
    (h : (intermolecularAt d4 wi wj st).status = .ok) :
    ∃ p1 p2 r1 r2 pop rest x y mi mj, st.stack = [p1, p2] :: [r1, r2] :: pop :: rest ∧
      pop[wi]? = some x ∧ x.obj = r1.obj ∧ pop[wj]? = some y ∧ y.obj = r2.obj ∧ wj ≠ wi ∧
      (x == r1) = true ∧ (y == r2) = true ∧
      st.mols[wi]? = some mi ∧ st.mols[wj]? = some mj ∧
      ((0 ≤ (r1.obj + mi.ke) + (r2.obj + mj.ke) - (p1.obj + p2.obj) ∧ (intermolecularAt d4 wi wj st).st =
          { stack := ((pop.set wi p1).set wj p2) :: rest,
            mols := (st.mols.set wi (({ mi.hit with ke := ((r1.obj + mi.ke) + (r2.obj + mj.ke) - (p1.obj + p2.obj)) * d4 } : Mol F).updateBest p1)).set wj
                      (({ mj.hit with ke := ((r1.obj + mi.ke) + (r2.obj + mj.ke) - (p1.obj + p2.obj)) * (1 - d4) } : Mol F).updateBest p2),
            buffer := st.buffer }) ∨
       (¬ 0 ≤ (r1.obj + mi.ke) + (r2.obj + mj.ke) - (p1.obj + p2.obj) ∧ (intermolecularAt d4 wi wj st).st =
          { st with stack := pop :: rest, mols := (st.mols.set wi mi.hit).set wj mj.hit })) := by
  obtain ⟨p1, p2, r1, r2, pop, rest, x, y, mi, mj, hs, hx, hy, hji, hb, hby, hmi, hmj, hcase⟩ :=
    intermolecularAt_okW d4 wi wj st hl h
  exact ⟨p1, p2, r1, r2, pop, rest, x, y, mi, mj, hs, hx, ind_beq_obj hb, hy, ind_beq_obj hby, hji, hb, hby, hmi, hmj, hcase⟩

theorem synthesisAt_ok (wi wj : Nat) (st : St F) (hl : legal2 wi wj st = true)
    (h : (synthesisAt wi wj st).status = .ok) :
    ∃ p r1 r2 pop rest x y mi mj, st.stack = [p] :: [r1, r2] :: pop :: rest ∧
      pop[wi]? = some x ∧ x.obj = r1.obj ∧ pop[wj]? = some y ∧ y.obj = r2.obj ∧ wj ≠ wi ∧
      (x == r1) = true ∧ (y == r2) = true ∧
      st.mols[wi]? = some mi ∧ st.mols[wj]? = some mj ∧
      ((p.obj ≤ (r1.obj + mi.ke) + (r2.obj + mj.ke) ∧ (synthesisAt wi wj st).st =
          { stack := ((pop.set wi p).eraseIdx wj) :: rest,
            mols := (st.mols.set wi (Mol.new ((r1.obj + mi.ke) + (r2.obj + mj.ke) - p.obj) p)).eraseIdx wj,
            buffer := st.buffer }) ∨
       (¬ p.obj ≤ (r1.obj + mi.ke) + (r2.obj + mj.ke) ∧ (synthesisAt wi wj st).st = { st with stack := pop :: rest })) := by
  obtain ⟨p, r1, r2, pop, rest, x, y, mi, mj, hs, hx, hy, hji, hb, hby, hmi, hmj, hcase⟩ := synthesisAt_okW wi wj st hl h
  exact ⟨p, r1, r2, pop, rest, x, y, mi, mj, hs, hx, ind_beq_obj hb, hy, ind_beq_obj hby, hji, hb, hby, hmi, hmj, hcase⟩

end inversionField


/-! ### Non-negativity under rounding

The non-negativity clause does not need exact arithmetic.  It only needs what a correctly rounded
arithmetic on a totally ordered carrier without NaN gives (IEEE-754 doubles in round-to-nearest as
long as no NaN arises, and every ordered field): rounding is monotone and `0`, `1` are exact, so
`b ≤ a ⇒ 0 ≤ a ⊖ b`, `0 ≤ a, b ⇒ 0 ≤ a ⊕ b, 0 ≤ a ⊗ b`, and `a, b ∈ [0,1] ⇒ a ⊗ b ≤ 1`. -/
section rounded
variable {F : Type} [BEq F] [Add F] [Sub F] [Mul F] [LT F] [LE F] [DecidableLT F] [DecidableLE F] [OfNat F 0] [OfNat F 1]

/-- Legal draws: the loss-rate draw lies in `[lr, 1]` with `0 ≤ lr`, every other draw in `[0, 1]`. -/
def Rx.legalDraws : Rx F → Prop
  | .onWall lr a _ => 0 ≤ lr ∧ lr ≤ a ∧ a ≤ 1
  | .decomp dA δ1 δ2 dB _ => (0 ≤ dA ∧ dA ≤ 1) ∧ (0 ≤ δ1 ∧ δ1 ≤ 1) ∧ (0 ≤ δ2 ∧ δ2 ≤ 1) ∧ (0 ≤ dB ∧ dB ≤ 1)
  | .inter d4 _ _ => 0 ≤ d4 ∧ d4 ≤ 1
  | .synth _ _ => True

/-- The facts about the carrier's (possibly rounded) arithmetic the non-negativity clause rests on. -/
structure MonoArith (F : Type) [Add F] [Sub F] [Mul F] [LT F] [LE F] [OfNat F 0] [OfNat F 1] : Prop where
  le_trans : ∀ a b c : F, a ≤ b → b ≤ c → a ≤ c
  le_of_not_lt : ∀ a b : F, ¬ a < b → b ≤ a
  add_nonneg : ∀ a b : F, 0 ≤ a → 0 ≤ b → 0 ≤ a + b
  sub_nonneg : ∀ a b : F, b ≤ a → 0 ≤ a - b
  mul_nonneg : ∀ a b : F, 0 ≤ a → 0 ≤ b → 0 ≤ a * b
  mul_le_one : ∀ a b : F, 0 ≤ a → a ≤ 1 → 0 ≤ b → b ≤ 1 → a * b ≤ 1

/-- No kinetic energy and not the buffer is negative. -/
def NonNeg (st : St F) : Prop := (∀ m ∈ st.mols, 0 ≤ m.ke) ∧ 0 ≤ st.buffer

theorem updateBest_keW (m : Mol F) (p : Ind F) : (m.updateBest p).ke = m.ke := by
  unfold Mol.updateBest; split <;> rfl

theorem nonneg_set {mols : List (Mol F)} (h : ∀ m ∈ mols, 0 ≤ m.ke) (i : Nat) (m' : Mol F) (hm : 0 ≤ m'.ke) :
    ∀ m ∈ mols.set i m', 0 ≤ m.ke := by
  intro m hin
  rcases List.mem_or_eq_of_mem_set hin with h1 | h1
  · exact h m h1
  · subst h1; exact hm

theorem nonneg_append {mols : List (Mol F)} (h : ∀ m ∈ mols, 0 ≤ m.ke) (m' : Mol F) (hm : 0 ≤ m'.ke) :
    ∀ m ∈ mols ++ [m'], 0 ≤ m.ke := by
  intro m hin
  rcases List.mem_append.mp hin with h1 | h1
  · exact h m h1
  · simp only [List.mem_singleton] at h1; subst h1; exact hm

end rounded

/-! ### The run invariant -/
section invariant
variable {F : Type} [Field F] [LinearOrder F] [IsStrictOrderedRing F]

/-- What holds of population / molecule list / buffer between two updates: index-aligned, no
negative kinetic energy or buffer, hit counters ordered (`min_hit ≤ num_hit`, so the criterion's
`u32` subtraction cannot underflow), every molecule's remembered best is at least as good as the
individual it sits beside. -/
structure InvT (pop : Pop F) (mols : List (Mol F)) (buffer : F) : Prop where
  aligned : pop.length = mols.length
  ke_nonneg : ∀ m ∈ mols, 0 ≤ m.ke
  hits : ∀ m ∈ mols, m.minHit ≤ m.numHit
  buffer_nonneg : 0 ≤ buffer
  best_le : ∀ xm ∈ pop.zip mols, xm.2.best.obj ≤ xm.1.obj

/-- The invariant of a state whose population is on top of the stack. -/
def RunInv (st : St F) : Prop := InvT (st.stack.headD []) st.mols st.buffer

/-- A (individual, molecule) pair that may sit in an invariant state. -/
def PairOk (x : Ind F) (m : Mol F) : Prop := 0 ≤ m.ke ∧ m.minHit ≤ m.numHit ∧ m.best.obj ≤ x.obj

theorem InvT.pair {pop : Pop F} {mols : List (Mol F)} {b : F} (h : InvT pop mols b) {i : Nat} {x : Ind F} {m : Mol F}
    (hx : pop[i]? = some x) (hm : mols[i]? = some m) : PairOk x m := by
  have hz : (pop.zip mols)[i]? = some (x, m) := by
    rw [List.getElem?_zip_eq_some]; exact ⟨hx, hm⟩
  exact ⟨h.ke_nonneg m (List.mem_of_getElem? hm), h.hits m (List.mem_of_getElem? hm),
    h.best_le (x, m) (List.mem_of_getElem? hz)⟩

theorem InvT.set {pop : Pop F} {mols : List (Mol F)} {b b' : F} (h : InvT pop mols b) (i : Nat) (x' : Ind F) (m' : Mol F)
    (hp : PairOk x' m') (hb : 0 ≤ b') : InvT (pop.set i x') (mols.set i m') b' := by
  refine ⟨by simp [h.aligned], ?_, ?_, hb, ?_⟩
  · intro m hm
    rcases List.mem_or_eq_of_mem_set hm with hin | heq
    · exact h.ke_nonneg m hin
    · subst heq; exact hp.1
  · intro m hm
    rcases List.mem_or_eq_of_mem_set hm with hin | heq
    · exact h.hits m hin
    · subst heq; exact hp.2.1
  · intro xm hxm
    rw [zip_set] at hxm
    rcases List.mem_or_eq_of_mem_set hxm with hin | heq
    · exact h.best_le xm hin
    · subst heq; exact hp.2.2

theorem set_self_of_getElem? {α : Type} (l : List α) (i : Nat) (x : α) (h : l[i]? = some x) : l.set i x = l := by
  apply List.ext_getElem?
  intro k
  by_cases hk : i = k
  · subst hk
    have hl : i < l.length := by
      by_contra hc
      rw [List.getElem?_eq_none (by omega)] at h; simp at h
    rw [List.getElem?_set_self hl, h]
  · rw [List.getElem?_set_ne hk]

theorem InvT.set_right {pop : Pop F} {mols : List (Mol F)} {b b' : F} (h : InvT pop mols b) (i : Nat) (x : Ind F) (m' : Mol F)
    (hx : pop[i]? = some x) (hp : PairOk x m') (hb : 0 ≤ b') : InvT pop (mols.set i m') b' := by
  have := h.set i x m' hp hb
  rwa [set_self_of_getElem? pop i x hx] at this

theorem InvT.append {pop : Pop F} {mols : List (Mol F)} {b : F} (h : InvT pop mols b) (x : Ind F) (m : Mol F)
    (hp : PairOk x m) : InvT (pop ++ [x]) (mols ++ [m]) b := by
  refine ⟨by simp [h.aligned], ?_, ?_, h.buffer_nonneg, ?_⟩
  · intro m' hm
    rcases List.mem_append.mp hm with hin | hin
    · exact h.ke_nonneg m' hin
    · simp only [List.mem_singleton] at hin; subst hin; exact hp.1
  · intro m' hm
    rcases List.mem_append.mp hm with hin | hin
    · exact h.hits m' hin
    · simp only [List.mem_singleton] at hin; subst hin; exact hp.2.1
  · intro xm hxm
    rw [List.zip_append h.aligned] at hxm
    rcases List.mem_append.mp hxm with hin | hin
    · exact h.best_le xm hin
    · simp only [List.zip_cons_cons, List.zip_nil_right, List.mem_singleton] at hin; subst hin; exact hp.2.2

theorem InvT.eraseIdx {pop : Pop F} {mols : List (Mol F)} {b : F} (h : InvT pop mols b) (j : Nat) :
    InvT (pop.eraseIdx j) (mols.eraseIdx j) b := by
  refine ⟨by simp [List.length_eraseIdx, h.aligned], ?_, ?_, h.buffer_nonneg, ?_⟩
  · intro m hm; exact h.ke_nonneg m (List.mem_of_mem_eraseIdx hm)
  · intro m hm; exact h.hits m (List.mem_of_mem_eraseIdx hm)
  · intro xm hxm
    rw [zip_eraseIdx] at hxm
    exact h.best_le xm (List.mem_of_mem_eraseIdx hxm)

theorem updateBest_best_le (m : Mol F) (p : Ind F) : (m.updateBest p).best.obj ≤ p.obj := by
  unfold Mol.updateBest; split
  · exact le_refl _
  · rename_i h; exact not_lt.mp h

theorem updateBest_hits (m : Mol F) (p : Ind F) (h : m.minHit ≤ m.numHit) :
    (m.updateBest p).minHit ≤ (m.updateBest p).numHit := by
  unfold Mol.updateBest; split
  · exact le_refl _
  · exact h

theorem updateBest_numHit (m : Mol F) (p : Ind F) : (m.updateBest p).numHit = m.numHit := by
  unfold Mol.updateBest; split <;> rfl

theorem PairOk.hit {x : Ind F} {m : Mol F} (h : PairOk x m) : PairOk x m.hit :=
  ⟨h.1, Nat.le_succ_of_le h.2.1, h.2.2⟩

theorem PairOk.new (x : Ind F) (ke : F) (h : 0 ≤ ke) : PairOk x (Mol.new ke x) :=
  ⟨h, Nat.le_refl _, le_refl _⟩

/-- the accepted collision: counters of `m.hit`, best updated with the product, new kinetic energy -/
theorem PairOk.collide {x p : Ind F} {m : Mol F} (h : PairOk x m) (ke : F) (hk : 0 ≤ ke) :
    PairOk p (({ m.hit with ke := ke } : Mol F).updateBest p) := by
  refine ⟨by rw [updateBest_ke]; exact hk, ?_, updateBest_best_le _ _⟩
  exact updateBest_hits _ _ (Nat.le_succ_of_le h.2.1)

theorem PairOk.collide' {x p : Ind F} {m : Mol F} (h : PairOk x m) (ke : F) (hk : 0 ≤ ke) :
    PairOk p ({ (m.hit.updateBest p) with ke := ke } : Mol F) := by
  refine ⟨hk, ?_, updateBest_best_le _ _⟩
  exact updateBest_hits _ _ (Nat.le_succ_of_le h.2.1)

theorem onWallAt_inv (lr a : F) (wi : Nat) (st : St F) (hl : legal1 wi st = true)
    (h : (onWallAt lr a wi st).status = .ok) (hd : 0 ≤ lr ∧ lr ≤ a ∧ a ≤ 1)
    (hI : InvT (st.stack.getD 2 []) st.mols st.buffer) : RunInv (onWallAt lr a wi st).st := by
  obtain ⟨p, r, pop, rest, x, m, hs, hx, hxr, _, hm, hcase⟩ := onWallAt_ok lr a wi st hl h
  simp only [hs, List.getD_cons_zero, List.getD_cons_succ] at hI
  have hp := hI.pair hx hm
  rcases hcase with ⟨hc, _, hst⟩ | ⟨_, hst⟩
  · rw [hst]; unfold RunInv; simp only [List.headD_cons]
    refine hI.set wi p _ (hp.collide' _ (mul_nonneg (by linarith) (by linarith))) ?_
    have : 0 ≤ (r.obj + m.ke - p.obj) * (1 - a) := mul_nonneg (by linarith) (by linarith)
    linarith [hI.buffer_nonneg]
  · rw [hst]; unfold RunInv; simp only [List.headD_cons]
    exact hI.set_right wi x _ hx hp.hit hI.buffer_nonneg

theorem decompositionAt_inv (dA δ1 δ2 dB : F) (wi : Nat) (st : St F) (hl : legal1 wi st = true)
    (h : (decompositionAt dA δ1 δ2 dB wi st).status = .ok)
    (hd : (0 ≤ dA ∧ dA ≤ 1) ∧ (0 ≤ δ1 ∧ δ1 ≤ 1) ∧ (0 ≤ δ2 ∧ δ2 ≤ 1) ∧ (0 ≤ dB ∧ dB ≤ 1))
    (hI : InvT (st.stack.getD 2 []) st.mols st.buffer) : RunInv (decompositionAt dA δ1 δ2 dB wi st).st := by
  obtain ⟨p1, p2, r, pop, rest, x, m, hs, hx, hxr, _, hm, hcase⟩ := decompositionAt_ok dA δ1 δ2 dB wi st hl h
  obtain ⟨hA, h1, h2, hB⟩ := hd
  simp only [hs, List.getD_cons_zero, List.getD_cons_succ] at hI
  have hp := hI.pair hx hm
  rcases hcase with ⟨hc, hst⟩ | ⟨_, _, hst⟩ | ⟨_, hde, hst⟩
  · rw [hst]; unfold RunInv; simp only [List.headD_cons]
    exact (hI.set wi p1 _ (PairOk.new p1 _ (mul_nonneg (by linarith) hA.1)) hI.buffer_nonneg).append p2 _
      (PairOk.new p2 _ (mul_nonneg (by linarith) (by linarith [hA.2])))
  · rw [hst]; unfold RunInv; simp only [List.headD_cons]
    exact hI.set_right wi x _ hx hp.hit hI.buffer_nonneg
  · rw [hst]; unfold RunInv; simp only [List.headD_cons]
    have hde' : 0 ≤ r.obj + m.ke + δ1 * δ2 * st.buffer - (p1.obj + p2.obj) := not_lt.mp hde
    have hdd : δ1 * δ2 ≤ 1 := by nlinarith [h1.1, h1.2, h2.1, h2.2]
    exact (hI.set wi p1 _ (PairOk.new p1 _ (mul_nonneg hde' hB.1))
      (mul_nonneg hI.buffer_nonneg (by linarith))).append p2 _
      (PairOk.new p2 _ (mul_nonneg hde' (by linarith [hB.2])))

theorem intermolecularAt_inv (d4 : F) (wi wj : Nat) (st : St F) (hl : legal2 wi wj st = true)
    (h : (intermolecularAt d4 wi wj st).status = .ok) (hd : 0 ≤ d4 ∧ d4 ≤ 1)
    (hI : InvT (st.stack.getD 2 []) st.mols st.buffer) : RunInv (intermolecularAt d4 wi wj st).st := by
  obtain ⟨p1, p2, r1, r2, pop, rest, x, y, mi, mj, hs, hx, hxr, hy, hyr, hji, _, _, hmi, hmj, hcase⟩ :=
    intermolecularAt_ok d4 wi wj st hl h
  simp only [hs, List.getD_cons_zero, List.getD_cons_succ] at hI
  have hpi := hI.pair hx hmi
  have hpj := hI.pair hy hmj
  rcases hcase with ⟨hc, hst⟩ | ⟨_, hst⟩
  · rw [hst]; unfold RunInv; simp only [List.headD_cons]
    exact (hI.set wi p1 _ (hpi.collide _ (mul_nonneg hc hd.1)) hI.buffer_nonneg).set wj p2 _
      (hpj.collide _ (mul_nonneg hc (by linarith [hd.2]))) hI.buffer_nonneg
  · rw [hst]; unfold RunInv; simp only [List.headD_cons]
    have h1 := hI.set_right wi x _ hx hpi.hit hI.buffer_nonneg
    exact h1.set_right wj y _ hy hpj.hit hI.buffer_nonneg

theorem synthesisAt_inv (wi wj : Nat) (st : St F) (hl : legal2 wi wj st = true)
    (h : (synthesisAt wi wj st).status = .ok)
    (hI : InvT (st.stack.getD 2 []) st.mols st.buffer) : RunInv (synthesisAt wi wj st).st := by
  obtain ⟨p, r1, r2, pop, rest, x, y, mi, mj, hs, hx, hxr, hy, hyr, hji, _, _, hmi, hmj, hcase⟩ :=
    synthesisAt_ok wi wj st hl h
  simp only [hs, List.getD_cons_zero, List.getD_cons_succ] at hI
  rcases hcase with ⟨hc, hst⟩ | ⟨_, hst⟩
  · rw [hst]; unfold RunInv; simp only [List.headD_cons]
    exact (hI.set wi p _ (PairOk.new p _ (by linarith)) hI.buffer_nonneg).eraseIdx wj
  · rw [hst]; unfold RunInv; simp only [List.headD_cons]
    exact hI

end invariant
end MahfModel.Cro
