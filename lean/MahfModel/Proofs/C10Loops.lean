/- Helper lemmas for C10: iteration-bounded loops on the registry chain (nesting, scopes, re-runs). -/
import MahfModel.Model.ConditionsLoops
namespace MahfModel.Conditions

section loops
variable {F : Type}

theorem LReg.iters_of_top (r : LReg F) (k : Nat) (h : r.top.iters = some k) : r.iters = some k := by
  simp [LReg.iters, lookIters, h]

/-- A fresh child registry sees the parent's counter. -/
theorem child_iters (r : LReg F) :
    ({ top := { iters := none, progress := none }, rest := r.top :: r.rest } : LReg F).iters = r.iters := by
  simp [LReg.iters, lookIters]

/-! `lvl0` and `lvl1` exclude each other. -/
mutual
  theorem lvl0_not_lvl1 (i : LItem) (h : lvl0 i = true) : lvl1 i = false := by
    cases i with
    | leaf t => rfl
    | loop id n b => simp [lvl0] at h
    | scope b => rfl
  theorem lvl0s_not_lvl1s (is : LItems) (h : lvl0s is = true) : lvl1s is = false := by
    cases is with
    | nil => rfl
    | cons i is =>
      simp only [lvl0s, Bool.and_eq_true] at h
      simp [lvl1s, lvl0_not_lvl1 i h.1, lvl0s_not_lvl1s is h.2]
end

/-! Initialisation. -/
mutual
  theorem lInit_lvl0 [OfNat F 0] (i : LItem) (h : lvl0 i = true) (r : LReg F) : lInit i r = r := by
    cases i with
    | leaf t => rfl
    | loop id n b => simp [lvl0] at h
    | scope b => rfl
  theorem lInits_lvl0s [OfNat F 0] (is : LItems) (h : lvl0s is = true) (r : LReg F) : lInits is r = r := by
    cases is with
    | nil => rfl
    | cons i is =>
      simp only [lvl0s, Bool.and_eq_true] at h
      simp [lInits, lInit_lvl0 i h.1, lInits_lvl0s is h.2]
end

mutual
  theorem lInit_lvl1 [OfNat F 0] (i : LItem) (h : lvl1 i = true) (r : LReg F) :
      lInit i r = { r with top := { iters := some 0, progress := some 0 } } := by
    cases i with
    | leaf t => simp [lvl1] at h
    | loop id n b =>
      simp only [lvl1] at h
      rw [lInit, lInits_lvl0s b h]
    | scope b => simp [lvl1] at h
  theorem lInits_lvl1s [OfNat F 0] (is : LItems) (h : lvl1s is = true) (r : LReg F) :
      lInits is r = { r with top := { iters := some 0, progress := some 0 } } := by
    cases is with
    | nil => simp [lvl1s] at h
    | cons i is =>
      simp only [lvl1s, Bool.or_eq_true, Bool.and_eq_true] at h
      rcases h with h | h
      · rw [lInits, lInit_lvl1 i h.1, lInits_lvl0s is h.2]
      · rw [lInits, lInit_lvl0 i h.1, lInits_lvl1s is h.2]
end

/-! The specification leaves the visible counter alone on a level without a loop. -/
mutual
  theorem specItem_lvl0_cur [Div F] (toF : Nat → F) (i : LItem) (h : lvl0 i = true) (cur : Option Nat) :
      (specItem toF i cur).2 = cur := by
    cases i with
    | leaf t => rfl
    | loop id n b => simp [lvl0] at h
    | scope b => rfl
  theorem specItems_lvl0s_cur [Div F] (toF : Nat → F) (is : LItems) (h : lvl0s is = true) (cur : Option Nat) :
      (specItems toF is cur).2 = cur := by
    cases is with
    | nil => rfl
    | cons i is =>
      simp only [lvl0s, Bool.and_eq_true] at h
      simp [specItems, specItem_lvl0_cur toF i h.1, specItems_lvl0s_cur toF is h.2]
end

/-- One entry of a loop whose body leaves the registry alone (no loop on this level): from counter
`k` it makes the remaining `d = n − k` passes; test `j` reads `j`, reports `j / n`, the body sees `j`. -/
theorem lLoop_exact [Div F] (toF : Nat → F) (id n : Nat) (body : LReg F → List (LEvent F) → LRes F)
    (bs : Option Nat → List (LEvent F))
    (hb : ∀ r log, body r log = .ok r (log ++ bs r.iters))
    (d : Nat) : ∀ (k : Nat), k + d = n → ∀ (fuel : Nat), d + 1 ≤ fuel →
      ∀ (pr : F) (rest : List (LFrame F)) (log : List (LEvent F)),
      lLoop toF id n body fuel { top := { iters := some k, progress := some pr }, rest := rest } log =
        .ok { top := { iters := some n, progress := some (toF n / toF n) }, rest := rest }
          (log ++ (List.range' k d).flatMap (fun j =>
              LEvent.test id true j (some (toF j / toF n)) :: bs (some j)) ++
            [.test id false n (some (toF n / toF n))]) := by
  induction d with
  | zero =>
    intro k hk fuel hf pr rest log
    cases fuel with
    | zero => omega
    | succ fuel =>
      have hkn : k = n := by omega
      subst hkn
      simp [lLoop, lTest, LReg.iters, lookIters, LReg.setProgress, LReg.progress, lookProgress]
  | succ d ih =>
    intro k hk fuel hf pr rest log
    cases fuel with
    | zero => omega
    | succ fuel =>
      have hlt : k < n := by omega
      have hi : ({ top := { iters := some k, progress := some (toF k / toF n) }, rest := rest } : LReg F).iters = some k := by
        simp [LReg.iters, lookIters]
      simp only [lLoop, lTest, LReg.iters, lookIters, LReg.setProgress, LReg.progress, lookProgress, hlt,
        decide_true, if_true]
      rw [hb]
      simp only [hi, LReg.bump]
      rw [ih (k + 1) (by omega) fuel (by omega)]
      simp [List.range'_succ, List.append_assoc]

end loops

/-! ### The registry-level model meets the specification on well-scoped trees -/

section main
variable {F : Type} [Div F] [OfNat F 0] (toF : Nat → F)

mutual
  /-- A level-0 item (no loop on this level) leaves the registry chain exactly as it found it,
  whatever it contains, and logs what the specification says. -/
  theorem lExec_lvl0 (fuel : Nat) (i : LItem) (h : lvl0 i = true) (hf : maxN i < fuel)
      (r : LReg F) (log : List (LEvent F)) :
      lExec toF fuel i r log = .ok r (log ++ (specItem toF i r.iters).1) := by
    cases i with
    | leaf t => simp [lExec, specItem]
    | loop id n b => simp [lvl0] at h
    | scope b =>
      simp only [lvl0, Bool.or_eq_true] at h
      simp only [maxN] at hf
      rcases h with h | h
      · have e := lExecs_lvl0s fuel b h hf
          { top := { iters := none, progress := none }, rest := r.top :: r.rest } log
        rw [lExec, lInits_lvl0s b h, e, child_iters]
        simp [specItem, lvl0s_not_lvl1s b h]
      · obtain ⟨top', m, e, _, _, _⟩ := lExecs_lvl1s fuel b h hf (some 0) (r.top :: r.rest) log
        rw [lExec, lInits_lvl1s b h, e]
        simp [specItem, h]
  theorem lExecs_lvl0s (fuel : Nat) (is : LItems) (h : lvl0s is = true) (hf : maxNs is < fuel)
      (r : LReg F) (log : List (LEvent F)) :
      lExecs toF fuel is r log = .ok r (log ++ (specItems toF is r.iters).1) := by
    cases is with
    | nil => simp [lExecs, specItems]
    | cons i is =>
      simp only [lvl0s, Bool.and_eq_true] at h
      simp only [maxNs] at hf
      simp only [lExecs, lExec_lvl0 fuel i h.1 (by omega) r log, lExecs_lvl0s fuel is h.2 (by omega),
        specItems, specItem_lvl0_cur toF i h.1, List.append_assoc]
  /-- The one loop of a level, entered right after its initialisation (counter 0, whatever the
  parents hold): the log the specification says; the parents are untouched; the counter ends at the
  value the specification says. -/
  theorem lExec_lvl1 (fuel : Nat) (i : LItem) (h : lvl1 i = true) (hf : maxN i < fuel)
      (pr : Option F) (rest : List (LFrame F)) (log : List (LEvent F)) :
      ∃ (top' : LFrame F) (m : Nat),
        lExec toF fuel i { top := { iters := some 0, progress := pr }, rest := rest } log =
          .ok { top := top', rest := rest } (log ++ (specItem toF i (some 0)).1) ∧
        top'.iters = some m ∧ (specItem toF i (some 0)).2 = some m ∧ top'.progress.isSome = true := by
    cases i with
    | leaf t => simp [lvl1] at h
    | scope b => simp [lvl1] at h
    | loop id n b =>
      simp only [lvl1] at h
      simp only [maxN] at hf
      refine ⟨{ iters := some n, progress := some (toF n / toF n) }, n, ?_, rfl, rfl, rfl⟩
      have hb : ∀ (r : LReg F) (log : List (LEvent F)),
          lExecs toF fuel b r log = .ok r (log ++ (fun cur => (specItems toF b cur).1) r.iters) :=
        fun r log => lExecs_lvl0s fuel b h (by omega) r log
      have e := lLoop_exact toF id n (lExecs toF fuel b) (fun cur => (specItems toF b cur).1) hb
        n 0 (by omega) fuel (by omega) (0 : F) rest log
      simp only [lExec, specItem]
      rw [e]
      simp [List.append_assoc]
  theorem lExecs_lvl1s (fuel : Nat) (is : LItems) (h : lvl1s is = true) (hf : maxNs is < fuel)
      (pr : Option F) (rest : List (LFrame F)) (log : List (LEvent F)) :
      ∃ (top' : LFrame F) (m : Nat),
        lExecs toF fuel is { top := { iters := some 0, progress := pr }, rest := rest } log =
          .ok { top := top', rest := rest } (log ++ (specItems toF is (some 0)).1) ∧
        top'.iters = some m ∧ (specItems toF is (some 0)).2 = some m ∧ top'.progress.isSome = true := by
    cases is with
    | nil => simp [lvl1s] at h
    | cons i is =>
      simp only [lvl1s, Bool.or_eq_true, Bool.and_eq_true] at h
      simp only [maxNs] at hf
      rcases h with h | h
      · obtain ⟨top', m, e, hi, hs, hp⟩ := lExec_lvl1 fuel i h.1 (by omega) pr rest log
        refine ⟨top', m, ?_, hi, ?_, hp⟩
        · have hit : ({ top := top', rest := rest } : LReg F).iters = some m := LReg.iters_of_top _ m hi
          simp only [lExecs, e, lExecs_lvl0s fuel is h.2 (by omega), specItems, hit, hs, List.append_assoc]
        · simp only [specItems, specItems_lvl0s_cur toF is h.2]
          exact hs
      · have e0 := lExec_lvl0 fuel i h.1 (by omega)
          { top := { iters := some 0, progress := pr }, rest := rest } log
        have hit : ({ top := { iters := some 0, progress := pr }, rest := rest } : LReg F).iters = some 0 := by
          simp [LReg.iters, lookIters]
        obtain ⟨top', m, e, hi, hs, hp⟩ := lExecs_lvl1s fuel is h.2 (by omega) pr rest
          (log ++ (specItem toF i (some 0)).1)
        refine ⟨top', m, ?_, hi, ?_, hp⟩
        · simp only [lExecs, e0, hit, e, specItems, specItem_lvl0_cur toF i h.1, List.append_assoc]
        · simp only [specItems, specItem_lvl0_cur toF i h.1]
          exact hs
end

end main
/-! ### A loop guarded by a composite of two bounds -/

theorem connB_eq_goesOn (c : Conn) (n m step k : Nat) :
    connB c (decide (k < n)) (decide (k * step < m)) = goesOn c n m step k := by
  cases c <;> simp [connB, goesOn, allB, anyB]

theorem exists_first_stop (g : Nat → Bool) (N : Nat) (h : g N = false) :
    ∃ p, p ≤ N ∧ g p = false ∧ ∀ q, q < p → g q = true := by
  induction N using Nat.strongRecOn with
  | _ N ih =>
    by_cases hq : ∃ q, q < N ∧ g q = false
    · obtain ⟨q, hqN, hg⟩ := hq
      obtain ⟨p, hp, h1, h2⟩ := ih q hqN hg
      exact ⟨p, by omega, h1, h2⟩
    · refine ⟨N, Nat.le_refl _, h, ?_⟩
      intro q hqN
      cases hgq : g q with
      | true => rfl
      | false => exact absurd ⟨q, hqN, hgq⟩ hq

theorem loop2Go_least {F : Type} [Div F] (toF : Nat → F) (c : Conn) (n m step p : Nat)
    (hstop : goesOn c n m step p = false) (d : Nat) :
    ∀ (k : Nat), k + d = p → (∀ q, k ≤ q → q < p → goesOn c n m step q = true) →
    ∀ (fuel : Nat), d + 1 ≤ fuel → ∀ (pit pev : F) (passes : Nat) (log : List (L2Ev F)),
      loop2Go toF c n m step fuel { it := k, ev := k * step, pit := pit, pev := pev, passes := passes } log =
        some ({ it := p, ev := p * step, pit := toF p / toF n, pev := toF (p * step) / toF m, passes := passes + d },
          log ++ (List.range' k (d + 1)).map (specEv2 toF c n m step)) := by
  induction d with
  | zero =>
    intro k hk _ fuel hf pit pev passes log
    have : k = p := by omega
    subst this
    cases fuel with
    | zero => omega
    | succ fuel =>
      simp [loop2Go, lessThanN, connB_eq_goesOn, hstop, specEv2]
  | succ d ih =>
    intro k hk hgo fuel hf pit pev passes log
    cases fuel with
    | zero => omega
    | succ fuel =>
      have hg : goesOn c n m step k = true := hgo k (Nat.le_refl _) (by omega)
      have e : k * step + step = (k + 1) * step := by rw [Nat.add_mul]; simp
      simp only [loop2Go, lessThanN, connB_eq_goesOn, hg, if_true]
      rw [e, ih (k + 1) (by omega) (fun q h1 h2 => hgo q (by omega) h2) fuel (by omega)]
      simp [List.range'_succ, specEv2, hg, List.append_assoc]
      omega


end MahfModel.Conditions
