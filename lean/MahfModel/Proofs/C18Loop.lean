/- Helper lemmas for the loop-level C18 theorems (`Props/C18Loop.lean`): the PSO loop of
`Model/PsoLoop.lean` keeps a well-formed swarm well formed. The step-level property theorems of
`Props/C18.lean` are used as lemmas. -/
import MahfModel.Model.PsoLoop
import MahfModel.Props.C18
namespace MahfModel.Pso
open MahfModel.Props.C18
set_option linter.unusedSectionVars false
set_option linter.unusedSimpArgs false
set_option linter.unusedVariables false

variable {F : Type} [Field F] [LinearOrder F] [IsStrictOrderedRing F]

/-! ### conditions -/

theorem evalCond_frame (cast : Nat → F) (c : Cond) (s : LoopVars F) :
    (evalCond cast c s).2.iters = s.iters ∧ (evalCond cast c s).2.evals = s.evals := by
  induction c generalizing s with
  | ltIter n => simp [evalCond]
  | ltEval n => simp [evalCond]
  | not c ih => simpa [evalCond] using ih s
  | and a b iha ihb => simp only [evalCond]; rw [(ihb _).1, (ihb _).2]; exact iha s
  | or a b iha ihb => simp only [evalCond]; rw [(ihb _).1, (ihb _).2]; exact iha s

theorem evalCond_progIter (cast : Nat → F) (c : Cond) (s : LoopVars F) :
    (evalCond cast c s).2.progIter =
      match c.lastIterBound with
      | some n => some (cast s.iters / cast n)
      | none => s.progIter := by
  induction c generalizing s with
  | ltIter n => simp [evalCond, Cond.lastIterBound]
  | ltEval n => simp [evalCond, Cond.lastIterBound]
  | not c ih => simpa [evalCond, Cond.lastIterBound] using ih s
  | and a b iha ihb =>
    simp only [evalCond, Cond.lastIterBound]
    rw [ihb, (evalCond_frame cast a s).1]
    cases hb : b.lastIterBound with
    | some n => rfl
    | none => exact iha s
  | or a b iha ihb =>
    simp only [evalCond, Cond.lastIterBound]
    rw [ihb, (evalCond_frame cast a s).1]
    cases hb : b.lastIterBound with
    | some n => rfl
    | none => exact iha s

theorem condInit_iters (zero : F) (c : Cond) (s : LoopVars F) : (condInit zero c s).iters = s.iters := by
  induction c generalizing s with
  | ltIter n => rfl
  | ltEval n => rfl
  | not c ih => exact ih s
  | and a b iha ihb => simp only [condInit]; rw [ihb, iha]
  | or a b iha ihb => simp only [condInit]; rw [ihb, iha]

/-! ### well-formed swarms -/

/-- A particle of dimension `d` that carries an objective value. -/
def GoodPart (d : Nat) (p : Part F) : Prop := p.pos.length = d ∧ p.ev = true

/-- One entry per particle in all three collections, everything of dimension `d` and evaluated,
velocities within `[−v_max, v_max]`, the global best a minimal personal best. -/
structure SwarmOk (d : Nat) (vmax : F) (sw : Swarm F) : Prop where
  lenV : sw.vs.length = sw.xs.length
  lenP : sw.pbest.length = sw.xs.length
  xsOk : ∀ x ∈ sw.xs, GoodPart d x
  vsDim : ∀ v ∈ sw.vs, v.length = d
  vsClamp : ∀ v ∈ sw.vs, ∀ c ∈ v, -vmax ≤ c ∧ c ≤ vmax
  pbOk : ∀ p ∈ sw.pbest, GoodPart d p
  gb : GbestIsMinPbest sw.pbest sw.gbest

theorem dimsOk_of (d : Nat) (g : List F) (hg : g.length = d) (xs : List (Part F)) (vs : List (List F)) (ps : List (Part F))
    (hx : ∀ x ∈ xs, x.pos.length = d) (hv : ∀ v ∈ vs, v.length = d) (hp : ∀ p ∈ ps, p.pos.length = d) :
    dimsOk g xs vs ps = true := by
  induction xs generalizing vs ps with
  | nil => simp [dimsOk]
  | cons x xs ih =>
    cases vs with
    | nil => simp [dimsOk]
    | cons v vs =>
      cases ps with
      | nil => simp [dimsOk]
      | cons p ps =>
        simp only [dimsOk, Bool.and_eq_true, decide_eq_true_eq]
        refine ⟨⟨⟨?_, ?_⟩, ?_⟩, ih vs ps (fun a h => hx a (List.mem_cons_of_mem _ h))
          (fun a h => hv a (List.mem_cons_of_mem _ h)) (fun a h => hp a (List.mem_cons_of_mem _ h))⟩
        · rw [hv v (by simp), hx x (by simp)]
        · rw [hv v (by simp), hp p (by simp)]
        · rw [hv v (by simp), hg]

theorem pbestPanics_false (bs cs : List (Part F)) (hb : ∀ b ∈ bs, b.ev = true) (hc : ∀ c ∈ cs, c.ev = true) :
    pbestPanics bs cs = false := by
  induction bs generalizing cs with
  | nil => cases cs <;> simp [pbestPanics]
  | cons b bs ih =>
    cases cs with
    | nil => simp [pbestPanics]
    | cons c cs =>
      simp only [pbestPanics, hb b (by simp), hc c (by simp), Bool.and_self, Bool.not_true, Bool.false_or]
      exact ih cs (fun a h => hb a (List.mem_cons_of_mem _ h)) (fun a h => hc a (List.mem_cons_of_mem _ h))

theorem pbestUpd_mem (bs cs : List (Part F)) : ∀ p ∈ pbestUpd bs cs, p ∈ bs ∨ p ∈ cs := by
  induction bs generalizing cs with
  | nil => cases cs <;> simp [pbestUpd]
  | cons b bs ih =>
    cases cs with
    | nil => intro p hp; simp [pbestUpd] at hp; exact Or.inl (by simpa using hp)
    | cons c cs =>
      intro p hp
      simp only [pbestUpd, List.mem_cons] at hp
      rcases hp with rfl | hp
      · by_cases h : c.obj < b.obj <;> simp [h]
      · rcases ih cs p hp with h | h
        · exact Or.inl (List.mem_cons_of_mem _ h)
        · exact Or.inr (List.mem_cons_of_mem _ h)

theorem pbestRun_append (init : List (Part F)) (hs : List (List (Part F))) (h : List (Part F)) :
    pbestRun init (hs ++ [h]) = pbestUpd (pbestRun init hs) h := by
  induction hs generalizing init with
  | nil => simp [pbestRun]
  | cons a as ih => simp only [List.cons_append, pbestRun]; exact ih _

/-- The population after velocity update, boundary repair and evaluation. -/
def movedPop (P : Params F) (f : List F → F) (repair : List F → List F) (draws : List (List (F × F))) (sw : Swarm F)
    (g : Part F) : List (Part F) :=
  ((velUpd sw.w P.c1 P.c2 P.vmax g.pos sw.xs sw.vs sw.pbest draws).1.map
    (fun x => ({ x with pos := repair x.pos } : Part F))).map (fun x => { x with obj := f x.pos, ev := true })

/-- The weight after the (optional) inertia-weight update. -/
def nextW (P : Params F) (prog : Option F) (w : F) : F :=
  if P.inertia then (match prog with | some p => linear P.start P.stop p | none => w) else w

/-- The state after one successful pass, explicitly. -/
def passResult (P : Params F) (f : List F → F) (repair : List F → List F) (draws : List (List (F × F))) (st : RunSt F)
    (g : Part F) : RunSt F :=
  { sw := { xs := movedPop P f repair draws st.sw g,
            vs := (velUpd st.sw.w P.c1 P.c2 P.vmax g.pos st.sw.xs st.sw.vs st.sw.pbest draws).2,
            pbest := pbestUpd st.sw.pbest (movedPop P f repair draws st.sw g),
            gbest := gbestUpd st.sw.gbest (movedPop P f repair draws st.sw g),
            w := nextW P st.lv.progIter st.sw.w },
    lv := { st.lv with evals := st.lv.evals + (movedPop P f repair draws st.sw g).length },
    best := gbestUpd st.best (movedPop P f repair draws st.sw g),
    wlog := (st.lv.iters, st.sw.w) :: st.wlog,
    hist := st.hist ++ [movedPop P f repair draws st.sw g] }

/-- One pass on a well-formed swarm succeeds — no `Err`, no panic — with `passResult` as its result,
and the swarm is well formed again. -/
theorem passBody_ok (d : Nat) (P : Params F) (f : List F → F) (repair : List F → List F)
    (hrep : ∀ l, (repair l).length = l.length) (hvm : 0 ≤ P.vmax)
    (draws : List (List (F × F))) (st : RunSt F) (hok : SwarmOk d P.vmax st.sw) (hd : DrawsCover st.sw.vs draws)
    (hprog : P.inertia = true → ∃ p, st.lv.progIter = some p) :
    ∃ g, st.sw.gbest = some g ∧
      velStep P.c1 P.c2 P.vmax draws st.sw = (.ok, { st.sw with
        xs := (velUpd st.sw.w P.c1 P.c2 P.vmax g.pos st.sw.xs st.sw.vs st.sw.pbest draws).1,
        vs := (velUpd st.sw.w P.c1 P.c2 P.vmax g.pos st.sw.xs st.sw.vs st.sw.pbest draws).2 }) ∧
      passBody P f repair draws st = (.ok, passResult P f repair draws st g) ∧
      (movedPop P f repair draws st.sw g).length = st.sw.xs.length ∧
      SwarmOk d P.vmax (passResult P f repair draws st g).sw := by
  obtain ⟨g, hg, hgin, hgle⟩ := hok.gb
  have hgood := hok.pbOk g hgin
  have hdim : dimsOk g.pos st.sw.xs st.sw.vs st.sw.pbest = true :=
    dimsOk_of d g.pos hgood.1 _ _ _ (fun x h => (hok.xsOk x h).1) hok.vsDim (fun p h => (hok.pbOk p h).1)
  have hvel : velStep P.c1 P.c2 P.vmax draws st.sw = (.ok, { st.sw with
      xs := (velUpd st.sw.w P.c1 P.c2 P.vmax g.pos st.sw.xs st.sw.vs st.sw.pbest draws).1,
      vs := (velUpd st.sw.w P.c1 P.c2 P.vmax g.pos st.sw.xs st.sw.vs st.sw.pbest draws).2 }) := by
    simp [velStep, hok.lenV, hok.lenP, hg, hdim]
  obtain ⟨lx, lv⟩ := velUpd_length st.sw.w P.c1 P.c2 P.vmax g.pos st.sw.xs st.sw.vs st.sw.pbest draws
  -- the moved, repaired and evaluated population
  have hpopLen : (movedPop P f repair draws st.sw g).length = st.sw.xs.length := by simp [movedPop, lx]
  have hpopGood : ∀ x ∈ movedPop P f repair draws st.sw g, GoodPart d x := by
    intro x hx
    simp only [movedPop, List.map_map, List.mem_map, Function.comp] at hx
    obtain ⟨y, hy, rfl⟩ := hx
    refine ⟨?_, rfl⟩
    simp only [hrep]
    obtain ⟨k, hk, hkv⟩ := List.getElem_of_mem hy
    rw [lx] at hk
    have hx0 : st.sw.xs[k]? = some st.sw.xs[k] := List.getElem?_eq_getElem hk
    have hv0 : st.sw.vs[k]? = some (st.sw.vs[k]'(by rw [hok.lenV]; exact hk)) := List.getElem?_eq_getElem _
    have hp0 : st.sw.pbest[k]? = some (st.sw.pbest[k]'(by rw [hok.lenP]; exact hk)) := List.getElem?_eq_getElem _
    have hr0 : draws[k]? = some (draws[k]'(by rw [hd.1, hok.lenV]; exact hk)) := List.getElem?_eq_getElem _
    obtain ⟨h1, _⟩ := velUpd_get st.sw.w P.c1 P.c2 P.vmax g.pos st.sw.xs st.sw.vs st.sw.pbest draws k _ _ _ _ hx0 hv0 hp0 hr0
    rw [List.getElem?_eq_getElem (by rw [lx]; exact hk), hkv] at h1
    have := Option.some.inj h1
    rw [this]
    simp only [(stepParticle_length _ _ _ _ _ _ _ _ _).2]
    exact (hok.xsOk _ (List.getElem_mem hk)).1
  -- the velocities
  have hvs : (∀ v ∈ (velUpd st.sw.w P.c1 P.c2 P.vmax g.pos st.sw.xs st.sw.vs st.sw.pbest draws).2, v.length = d) := by
    intro v hv
    obtain ⟨k, hk, hkv⟩ := List.getElem_of_mem hv
    rw [lv] at hk
    have hk' : k < st.sw.xs.length := by rw [← hok.lenV]; exact hk
    have hx0 : st.sw.xs[k]? = some st.sw.xs[k] := List.getElem?_eq_getElem hk'
    have hv0 : st.sw.vs[k]? = some st.sw.vs[k] := List.getElem?_eq_getElem hk
    have hp0 : st.sw.pbest[k]? = some (st.sw.pbest[k]'(by rw [hok.lenP]; exact hk')) := List.getElem?_eq_getElem _
    have hr0 : draws[k]? = some (draws[k]'(by rw [hd.1]; exact hk)) := List.getElem?_eq_getElem _
    obtain ⟨_, h2⟩ := velUpd_get st.sw.w P.c1 P.c2 P.vmax g.pos st.sw.xs st.sw.vs st.sw.pbest draws k _ _ _ _ hx0 hv0 hp0 hr0
    rw [List.getElem?_eq_getElem (by rw [lv]; exact hk), hkv] at h2
    have := Option.some.inj h2
    rw [this, (stepParticle_length _ _ _ _ _ _ _ _ _).1]
    exact hok.vsDim _ (List.getElem_mem hk)
  have hclamp := velocity_clamped P.c1 P.c2 P.vmax draws st.sw _ hvel hvm hd
  -- no panic in the best updates
  have hpp : pbestPanics st.sw.pbest (movedPop P f repair draws st.sw g) = false :=
    pbestPanics_false _ _ (fun b h => (hok.pbOk b h).2) (fun c h => (hpopGood c h).2)
  have hgp : gbestPanics (some g) (movedPop P f repair draws st.sw g) = false := by
    simp only [gbestPanics, Bool.or_eq_false_iff, List.any_eq_false, Bool.not_eq_true', Bool.and_eq_false_iff]
    refine ⟨fun x hx => by simp [(hpopGood x hx).2], Or.inr (by simp [hgood.2])⟩
  -- the result, explicitly
  have hpb' := (gbest_eq_min_pbest (F := F) [] { st.sw with xs := movedPop P f repair draws st.sw g }).2
    ⟨g, hg, hgin, hgle⟩ (by simp [hpopLen, hok.lenP])
  obtain ⟨p, hp⟩ : ∃ p, P.inertia = true → st.lv.progIter = some p := by
    by_cases hi : P.inertia = true
    · obtain ⟨p, hp⟩ := hprog hi; exact ⟨p, fun _ => hp⟩
    · exact ⟨0, fun h => absurd h hi⟩
  refine ⟨g, hg, hvel, ?_, hpopLen, ?_⟩
  · simp only [passBody, hvel, passResult, nextW, movedPop, List.map_map]
    by_cases hi : P.inertia = true
    · simp only [hi, if_true, hp hi, evaluate, inertiaStep, pbestStep, gbestStep, List.map_map]
      simp only [movedPop, List.map_map] at hpp hgp
      simp only [hpp, hg, hgp, Bool.false_eq_true, if_false]
    · simp only [hi, Bool.false_eq_true, if_false, evaluate, pbestStep, gbestStep, List.map_map]
      simp only [movedPop, List.map_map] at hpp hgp
      simp only [hpp, hg, hgp, Bool.false_eq_true, if_false]
  · refine ⟨?_, ?_, hpopGood, hvs, hclamp, ?_, ?_⟩
    · simp only [passResult]; rw [lv, hpopLen, hok.lenV]
    · simp only [passResult]; rw [pbestUpd_length, hpopLen, hok.lenP]
    · intro q hq
      simp only [passResult] at hq
      rcases pbestUpd_mem _ _ q hq with h | h
      · exact hok.pbOk q h
      · exact hpopGood q h
    · exact hpb'

/-! ### the loop -/

theorem wAt_no_inertia (cast : Nat → F) (P : Params F) (n : Nat) (w0 : F) (h : P.inertia = false) (j : Nat) :
    wAt cast P n w0 j = w0 := by
  cases j <;> simp [wAt, h]

/-- What holds at every pass boundary of a PSO loop over `N` particles of dimension `d`. -/
structure RunInv (d : Nat) (cast : Nat → F) (P : Params F) (n : Nat) (w0 : F) (pb0 : List (Part F)) (N : Nat)
    (st : RunSt F) : Prop where
  ok : SwarmOk d P.vmax st.sw
  size : st.sw.xs.length = N
  weight : st.sw.w = wAt cast P n w0 st.lv.iters
  wlogOk : ∀ e ∈ st.wlog, e.2 = wAt cast P n w0 e.1
  pbHist : st.sw.pbest = pbestRun pb0 st.hist
  histLen : ∀ h ∈ st.hist, h.length = N

theorem drawsCover_of (d N : Nat) (vmax : F) (sw : Swarm F) (hok : SwarmOk d vmax sw) (hN : sw.xs.length = N)
    (draws : List (List (F × F))) (hd : draws.length = N ∧ ∀ r ∈ draws, r.length = d) : DrawsCover sw.vs draws := by
  refine ⟨by rw [hd.1, hok.lenV, hN], ?_⟩
  intro k v r hv hr
  rw [hd.2 r (List.mem_of_getElem? hr), hok.vsDim v (List.mem_of_getElem? hv)]

theorem loopGo_inv (d : Nat) (cast : Nat → F) (P : Params F) (n : Nat) (w0 : F) (pb0 : List (Part F)) (N : Nat)
    (f : List F → F) (repair : List F → List F) (c : Cond) (draws : Nat → List (List (F × F)))
    (hrep : ∀ l, (repair l).length = l.length) (hvm : 0 ≤ P.vmax)
    (hc : P.inertia = true → c.lastIterBound = some n)
    (hd : ∀ j, (draws j).length = N ∧ ∀ r ∈ draws j, r.length = d) :
    ∀ (fuel : Nat) (st : RunSt F), RunInv d cast P n w0 pb0 N st →
      (loopGo cast P f repair c draws fuel st).1 = .ok ∧
      RunInv d cast P n w0 pb0 N (loopGo cast P f repair c draws fuel st).2 := by
  intro fuel
  induction fuel with
  | zero => intro st h; exact ⟨rfl, h⟩
  | succ fuel ih =>
    intro st h
    obtain ⟨fi, fe⟩ := evalCond_frame cast c st.lv
    have h1 : RunInv d cast P n w0 pb0 N { st with lv := (evalCond cast c st.lv).2 } :=
      ⟨h.ok, h.size, by simp only [fi]; exact h.weight, h.wlogOk, h.pbHist, h.histLen⟩
    simp only [loopGo]
    by_cases hb : (evalCond cast c st.lv).1 = true
    · simp only [hb, if_true]
      have hprogEq := evalCond_progIter cast c st.lv
      have hprog : P.inertia = true → ∃ p, (evalCond cast c st.lv).2.progIter = some p := by
        intro hi; rw [hprogEq, hc hi]; exact ⟨_, rfl⟩
      obtain ⟨g, hg, hvel, hpass, hlen, hok'⟩ := passBody_ok d P f repair hrep hvm (draws (evalCond cast c st.lv).2.iters)
        { st with lv := (evalCond cast c st.lv).2 } h1.ok
        (drawsCover_of d N P.vmax _ h1.ok h1.size _ (hd _)) hprog
      rw [hpass]
      simp only
      apply ih
      refine ⟨hok', ?_, ?_, ?_, ?_, ?_⟩
      · simp only [passResult]; rw [hlen]; exact h.size
      · simp only [passResult, nextW, fi, wAt]
        by_cases hi : P.inertia = true
        · simp only [hi, if_true, hprogEq, hc hi]
        · have hi' : P.inertia = false := by simpa using hi
          simp only [hi', Bool.false_eq_true, if_false]
          rw [h.weight, wAt_no_inertia cast P n w0 hi']
      · intro e he
        simp only [passResult, List.mem_cons] at he
        rcases he with rfl | he
        · simp only [fi]; exact h.weight
        · exact h.wlogOk e he
      · simp only [passResult]
        rw [pbestRun_append, ← h.pbHist]
      · intro q hq
        simp only [passResult, List.mem_append, List.mem_singleton] at hq
        rcases hq with hq | rfl
        · exact h.histLen q hq
        · rw [hlen]; exact h.size
    · have hb' : (evalCond cast c st.lv).1 = false := by simpa using hb
      simp only [hb', Bool.false_eq_true, if_false]
      exact ⟨trivial, h1⟩

/-- The swarm initialisation (`ParticleSwarmInit`) of a non-empty evaluated population with a legal
velocity witness, on a state that holds no global best yet, gives a well-formed swarm. -/
theorem swarmInit_ok (d : Nat) (vmax : F) (witness : List (List F)) (sw : Swarm F)
    (hne : sw.xs ≠ []) (hx : ∀ x ∈ sw.xs, GoodPart d x) (hg : sw.gbest = none)
    (hl : velInitLegal vmax d witness sw = true) : SwarmOk d vmax (swarmInit witness sw) := by
  have hgb := (gbest_eq_min_pbest witness sw).1 hg hne
  simp only [velInitLegal, Bool.and_eq_true, beq_iff_eq, List.all_eq_true, decide_eq_true_eq] at hl
  refine ⟨?_, ?_, ?_, ?_, ?_, ?_, hgb⟩
  · simp [swarmInit, pbestInit, velInit, hl.1]
  · simp [swarmInit, pbestInit, velInit]
  · simpa [swarmInit, pbestInit, velInit] using hx
  · intro v hv
    have : v ∈ witness := by simpa [swarmInit, pbestInit, velInit] using hv
    exact (hl.2 v this).1
  · intro v hv c hc
    have : v ∈ witness := by simpa [swarmInit, pbestInit, velInit] using hv
    exact (hl.2 v this).2 c hc
  · simpa [swarmInit, pbestInit, velInit] using hx

end MahfModel.Pso
