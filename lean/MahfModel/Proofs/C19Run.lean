/- Helper lemmas for C19 (ant colony): greedy route with open tie-breaking, legal sampling witnesses,
tour lengths, and one loop pass on a valid state. -/
import MahfModel.Proofs.C19
set_option linter.unusedSectionVars false
namespace MahfModel.Aco

variable {F : Type}

/-! ### Greedy route as a function of a witness -/

theorem greedyGoW_perm (le : F → F → Bool) (pm : PM F) :
    ∀ (ks route : List Nat) (last : Nat) (remaining t : List Nat),
      greedyGoW le pm ks route last remaining = .ok t →
      t.Perm (route ++ remaining) ∧ route <+: t := by
  intro ks
  induction ks with
  | nil =>
    intro route last remaining t h
    simp only [greedyGoW] at h
    split at h
    · rename_i he
      have : remaining = [] := by simpa using he
      subst this
      simp at h; subst h; simp
    · simp at h
  | cons k ks ih =>
    intro route last remaining t h
    simp only [greedyGoW] at h
    split at h
    · simp at h
    · cases hph : pheromones pm last remaining with
      | none => simp [hph] at h
      | some ph =>
        simp only [hph] at h
        split at h
        · cases hc : remaining[k]? with
          | none => simp [hc] at h
          | some c =>
            simp only [hc] at h
            obtain ⟨hp, hpre⟩ := ih _ _ _ _ h
            refine ⟨hp.trans ?_, (List.prefix_append route [c]).trans hpre⟩
            have := perm_cons_eraseIdx remaining k c hc
            rw [List.append_assoc]
            exact List.Perm.append_left route this.symm
        · simp at h

theorem greedyGoW_no_panic (le : F → F → Bool) (pm : PM F) (hwf : pm.wf = true) :
    ∀ (ks route : List Nat) (last : Nat) (remaining : List Nat),
      last < pm.dim → (∀ r ∈ remaining, r < pm.dim) →
      greedyGoW le pm ks route last remaining ≠ .panic := by
  intro ks
  induction ks with
  | nil => intro route last remaining _ _; simp only [greedyGoW]; split <;> simp
  | cons k ks ih =>
    intro route last remaining hl hr
    simp only [greedyGoW]
    split
    · simp
    · obtain ⟨ph, hph, _⟩ := pheromones_isSome pm hwf last hl remaining hr
      rw [hph]
      simp only
      split
      · cases hc : remaining[k]? with
        | none => simp
        | some c =>
          simp only
          have hcm : c ∈ remaining := List.mem_of_getElem? hc
          exact ih _ _ _ (hr c hcm) (fun r hr' => hr r ((List.eraseIdx_sublist _ _).subset hr'))
      · simp

section order
variable [LinearOrder F]

theorem isArgmax_dle (ph : List F) (k : Nat) (h : isArgmax dle ph k = true) :
    ∃ w, ph[k]? = some w ∧ ∀ x ∈ ph, x ≤ w := by
  unfold isArgmax at h
  cases hw : ph[k]? with
  | none => simp [hw] at h
  | some w =>
    simp only [hw, List.all_eq_true, dle, decide_eq_true_eq] at h
    exact ⟨w, rfl, h⟩

theorem isArgmax_of_max (ph : List F) (k : Nat) (w : F) (hw : ph[k]? = some w) (hall : ∀ x ∈ ph, x ≤ w) :
    isArgmax dle ph k = true := by
  unfold isArgmax
  simp only [hw, List.all_eq_true, dle, decide_eq_true_eq]
  exact hall

variable [OfNat F 0]

/-- Whatever legal witness the greedy route follows, every step goes to a city of maximal pheromone. -/
theorem greedyGoW_ok (pm : PM F) :
    ∀ (ks route : List Nat) (last : Nat) (remaining t : List Nat),
      remaining.Nodup → greedyGoW dle pm ks route last remaining = .ok t →
      ∃ suffix, t = route ++ suffix ∧ greedyOkGo pm suffix last remaining = true := by
  intro ks
  induction ks with
  | nil =>
    intro route last remaining t _ h
    simp only [greedyGoW] at h
    split at h
    · simp at h
      exact ⟨[], by simp [h], by simp [greedyOkGo]⟩
    · simp at h
  | cons k ks ih =>
    intro route last remaining t hnd h
    simp only [greedyGoW] at h
    split at h
    · simp at h
    · cases hph : pheromones pm last remaining with
      | none => simp [hph] at h
      | some ph =>
        simp only [hph] at h
        split at h
        · rename_i hmax
          cases hc : remaining[k]? with
          | none => simp [hc] at h
          | some c =>
            simp only [hc] at h
            obtain ⟨hk, hck⟩ := List.getElem?_eq_some_iff.mp hc
            have hnd' : (remaining.eraseIdx k).Nodup := hnd.sublist (List.eraseIdx_sublist _ _)
            obtain ⟨suffix, ht, hok⟩ := ih _ _ _ _ hnd' h
            refine ⟨c :: suffix, by simp [ht], ?_⟩
            have hphe := pheromones_eq pm last remaining ph hph
            obtain ⟨w, hw, hall⟩ := isArgmax_dle ph k hmax
            have hwc : w = pm.getD last c 0 := by
              rw [hphe] at hw
              simp [hc] at hw
              exact hw.symm
            have herase : remaining.erase c = remaining.eraseIdx k := by
              rw [← hck]; exact List.Nodup.erase_getElem hnd k hk
            simp only [greedyOkGo, herase, hok, Bool.and_true, List.all_eq_true, decide_eq_true_eq]
            intro r hr
            rw [← hwc]
            apply hall
            rw [hphe]
            exact List.mem_map.mpr ⟨r, hr, rfl⟩
        · simp at h

/-- The code's greedy route (`max_by`: last maximal trail) is the route of a legal witness. -/
theorem greedyGo_refines (N : Num F) (hN : N.tle = dle) (pm : PM F) :
    ∀ (fuel : Nat) (route : List Nat) (last : Nat) (remaining t : List Nat),
      remaining.length ≤ fuel → greedyGo N pm fuel route last remaining = some t →
      ∃ gw, greedyGoW dle pm gw route last remaining = .ok t := by
  intro fuel
  induction fuel with
  | zero =>
    intro route last remaining t hl h
    have : remaining = [] := List.length_eq_zero_iff.mp (Nat.le_zero.mp hl)
    subst this
    simp [greedyGo] at h
    exact ⟨[], by simp [greedyGoW, h]⟩
  | succ fuel ih =>
    intro route last remaining t hl h
    simp only [greedyGo] at h
    split at h
    · rename_i he
      simp at h
      exact ⟨[], by simp [greedyGoW, he, h]⟩
    · rename_i hne
      cases hph : pheromones pm last remaining with
      | none => simp [hph] at h
      | some ph =>
        cases hk' : argmaxLast N.tle ph with
        | none => simp [hph, hk'] at h
        | some k =>
          cases hc : remaining[k]? with
          | none => simp [hph, hk', hc] at h
          | some c =>
            simp only [hph, hk', hc] at h
            have hk : k < remaining.length := (List.getElem?_eq_some_iff.mp hc).1
            have hlen : (remaining.eraseIdx k).length ≤ fuel := by
              rw [List.length_eraseIdx]; simp [hk]; omega
            obtain ⟨gw, hgw⟩ := ih _ _ _ _ hlen h
            rw [hN] at hk'
            obtain ⟨w, hw, hall, _⟩ := argmaxLast_spec ph k hk'
            refine ⟨k :: gw, ?_⟩
            simp only [greedyGoW, hne, hph, isArgmax_of_max ph k w hw hall, hc, hgw]
            simp

end order

/-! ### Legal sampling witnesses are never rejected -/

section
variable [Add F] [Sub F] [Mul F] [Div F] [LT F] [LE F] [DecidableLT F] [DecidableLE F]
  [OfNat F 0] [OfNat F 1]

theorem sampleGo_not_bad (N : Num F) (pm : PM F) (dist : Nat → Nat → F) (α β : F) :
    ∀ (ks route : List Nat) (last : Nat) (remaining : List Nat),
      witLegalGo ks remaining.length = true →
      sampleGo N pm dist α β ks route last remaining ≠ .badWitness := by
  intro ks
  induction ks with
  | nil =>
    intro route last remaining h
    simp only [witLegalGo, beq_iff_eq] at h
    have : remaining = [] := List.length_eq_zero_iff.mp h
    subst this
    simp [sampleGo]
  | cons k ks ih =>
    intro route last remaining h
    simp only [witLegalGo, Bool.and_eq_true, decide_eq_true_eq] at h
    obtain ⟨hk, hrest⟩ := h
    simp only [sampleGo]
    split
    · rename_i he
      have : remaining = [] := by simpa using he
      subst this
      simp at hk
    · cases hw : weights N pm dist α β last remaining with
      | none => simp
      | some ws =>
        simp only
        split
        · rw [List.getElem?_eq_getElem hk]
          simp only
          apply ih
          rw [List.length_eraseIdx]
          simpa [hk] using hrest
        · simp

theorem witLegalGo_zeros : ∀ m : Nat, witLegalGo (List.replicate m 0) m = true := by
  intro m
  induction m with
  | zero => simp [witLegalGo]
  | succ m ih => simp [List.replicate_succ, witLegalGo, ih]

theorem remaining0_length (n : Nat) : (remaining0 n).length = n - 1 := by simp [remaining0]

end

/-! ### Tour lengths are positive -/

section field
variable [Field F] [LinearOrder F] [IsStrictOrderedRing F]

theorem tourLenGo_pos (dist : Nat → Nat → F) (hd : ∀ i j, i ≠ j → 0 < dist i j) (first : Nat) :
    ∀ (l : List Nat) (s : F), l ≠ [] → l.Nodup → l.getLast? ≠ some first → 0 ≤ s →
      0 < tourLenGo dist first l s := by
  intro l
  induction l with
  | nil => intro s h; exact absurd rfl h
  | cons a rest ih =>
    intro s _ hnd hlast hs
    cases rest with
    | nil =>
      simp only [tourLenGo]
      have : a ≠ first := by intro e; apply hlast; simp [e]
      exact add_pos_of_nonneg_of_pos hs (hd a first this)
    | cons b rest =>
      simp only [tourLenGo]
      have hab : a ≠ b := by
        intro e; subst e; simp at hnd
      apply ih
      · simp
      · exact (List.nodup_cons.mp hnd).2
      · simpa [List.getLast?_cons_cons] using hlast
      · exact (add_pos_of_nonneg_of_pos hs (hd a b hab)).le

/-- A route that visits at least two cities, none of them twice, has a positive closing-edge length. -/
theorem tourLen_pos (dist : Nat → Nat → F) (hd : ∀ i j, i ≠ j → 0 < dist i j) (t : List Nat)
    (hnd : t.Nodup) (hlen : 2 ≤ t.length) : 0 < tourLen dist t := by
  cases t with
  | nil => simp at hlen
  | cons a rest =>
    cases rest with
    | nil => simp at hlen
    | cons b rest =>
      simp only [tourLen]
      apply tourLenGo_pos dist hd a _ _ (by simp) hnd _ (le_refl _)
      intro h
      rw [List.getLast?_cons_cons] at h
      have hmem : a ∈ b :: rest := List.mem_of_getLast? h
      exact (List.nodup_cons.mp hnd).1 hmem

end field

/-! ### Matrix entries -/

theorem mem_inner_get? (pm : PM F) (hwf : pm.wf = true) {x : F} (hx : x ∈ pm.inner) :
    ∃ i j, i < pm.dim ∧ j < pm.dim ∧ pm.get? i j = some x := by
  obtain ⟨idx, hidx, hget⟩ := List.getElem_of_mem hx
  have hlen := (wf_iff pm).mp hwf
  have hdpos : 0 < pm.dim := by
    rcases Nat.eq_zero_or_pos pm.dim with h0 | h0
    · rw [h0] at hlen; simp at hlen; rw [hlen] at hidx; simp at hidx
    · exact h0
  have hi : idx / pm.dim < pm.dim := Nat.div_lt_of_lt_mul (by rw [← hlen]; exact hidx)
  have hj : idx % pm.dim < pm.dim := Nat.mod_lt _ hdpos
  refine ⟨idx / pm.dim, idx % pm.dim, hi, hj, ?_⟩
  rw [get?_eq pm hwf hi hj, Nat.div_add_mod' idx pm.dim, List.getElem?_eq_getElem hidx, hget]

theorem new_wf (n : Nat) (v : F) : (PM.new n v).wf = true := by simp [PM.new, PM.wf]

theorem new_mem (n : Nat) (v : F) {x : F} (h : x ∈ (PM.new n v).inner) : x = v := by
  simp [PM.new] at h
  exact h.2

/-! ### One loop pass, unfolded -/

section
variable [Add F] [Sub F] [Mul F] [Div F] [LT F] [LE F] [DecidableLT F] [DecidableLE F]
  [OfNat F 0] [OfNat F 1]

/-- The population the update component sees after evaluation. -/
def popOf (dist : Nat → Nat → F) (ts : List (List Nat)) : List (Ind F) :=
  ts.map (fun t => ({ route := t, obj := some (tourLen dist t) } : Ind F))

theorem stepOf_ok (k : Kind F) (pm : PM F) (dist : Nat → Nat → F) (g : GenOut) (ts : List (List Nat))
    (objs : List F) (pm' : PM F) (h : stepOf k pm dist g = .ok ts objs pm') :
    g = .tours ts ∧ objs = ts.map (tourLen dist) ∧ update k pm (popOf dist ts) = some pm' := by
  cases g with
  | panic => simp [stepOf] at h
  | badWitness => simp [stepOf] at h
  | tours ts' =>
    simp only [stepOf] at h
    cases hu : update k pm (ts'.map (fun t => ({ route := t, obj := some (tourLen dist t) } : Ind F))) with
    | none => simp [hu] at h
    | some q =>
      simp only [hu] at h
      injection h with h1 h2 h3
      subst h1; subst h2; subst h3
      exact ⟨rfl, rfl, hu⟩

theorem stepOf_of_update (k : Kind F) (pm : PM F) (dist : Nat → Nat → F) (ts : List (List Nat)) (pm' : PM F)
    (h : update k pm (popOf dist ts) = some pm') :
    stepOf k pm dist (.tours ts) = .ok ts (ts.map (tourLen dist)) pm' := by
  simp only [stepOf]
  simp only [popOf] at h
  simp [h]

theorem stepOf_not_genPanic (k : Kind F) (pm : PM F) (dist : Nat → Nat → F) (g : GenOut) (hg : g ≠ .panic) :
    stepOf k pm dist g ≠ .genPanic := by
  cases g with
  | panic => exact absurd rfl hg
  | badWitness => simp [stepOf]
  | tours ts =>
    simp only [stepOf]
    split <;> simp

/-- What `generateW` returns: the route of the greedy witness followed by the sampled routes. -/
theorem generateW_tours (N : Num F) (le : F → F → Bool) (pm : PM F) (dist : Nat → Nat → F) (α β : F)
    (n numAnts : Nat) (gw : List Nat) (wits ts : List (List Nat))
    (h : generateW N le pm dist α β n numAnts gw wits = .tours ts) :
    ∃ g ss, ts = g :: ss ∧ greedyTourW le pm n gw = .ok g ∧ sampleAll N pm dist α β n numAnts wits = .tours ss := by
  simp only [generateW] at h
  cases hg : greedyTourW le pm n gw with
  | panic => simp [hg] at h
  | badWitness => simp [hg] at h
  | ok g =>
    simp only [hg] at h
    cases hs : sampleAll N pm dist α β n numAnts wits with
    | panic => simp [hs] at h
    | badWitness => simp [hs] at h
    | tours ss =>
      simp only [hs] at h
      injection h with h
      exact ⟨g, ss, h.symm, rfl, rfl⟩

/-- Count and permutation clauses for every legal greedy witness. -/
theorem generateW_spec (N : Num F) (le : F → F → Bool) (pm : PM F) (dist : Nat → Nat → F) (α β : F)
    (n numAnts : Nat) (gw : List Nat) (wits ts : List (List Nat))
    (h : generateW N le pm dist α β n numAnts gw wits = .tours ts) :
    ts.length = 1 + numAnts ∧ ∀ t ∈ ts, t.Perm (0 :: remaining0 n) ∧ [0] <+: t := by
  obtain ⟨g, ss, rfl, hg, hs⟩ := generateW_tours N le pm dist α β n numAnts gw wits ts h
  obtain ⟨hl, hall⟩ := sampleAll_spec N pm dist α β n numAnts wits ss hs
  refine ⟨by simp [hl]; omega, ?_⟩
  intro t ht
  simp at ht
  rcases ht with rfl | ht
  · have := greedyGoW_perm le pm gw [0] 0 (remaining0 n) t hg
    exact ⟨by simpa using this.1, this.2⟩
  · exact hall t ht

end

/-! ### The update on a valid state -/

section field
variable [Field F] [LinearOrder F] [IsStrictOrderedRing F]

/-- The evaluated population of permutation tours: routes inside the matrix, positive objective values. -/
theorem popOf_valid (dist : Nat → Nat → F) (hd : ∀ i j, i ≠ j → 0 < dist i j) (n : Nat) (hn : 2 ≤ n)
    (ts : List (List Nat)) (hp : ∀ t ∈ ts, t.Perm (List.range n)) :
    (∀ ind ∈ popOf dist ts, ∀ c ∈ ind.route, c < n) ∧
      ∀ ind ∈ popOf dist ts, ∃ o, ind.obj = some o ∧ 0 < o := by
  constructor
  · intro ind hind c hc
    simp only [popOf, List.mem_map] at hind
    obtain ⟨t, ht, rfl⟩ := hind
    exact List.mem_range.mp ((hp t ht).mem_iff.mp hc)
  · intro ind hind
    simp only [popOf, List.mem_map] at hind
    obtain ⟨t, ht, rfl⟩ := hind
    refine ⟨_, rfl, tourLen_pos dist hd t ?_ ?_⟩
    · exact (hp t ht).nodup_iff.mpr List.nodup_range
    · rw [(hp t ht).length_eq]; simpa using hn

/-- Validity of the update's parameters: `ρ ∈ [0, 1]`, `c ≥ 0` for the ant system; `0 ≤ min ≤ max` for the
max-min variant (its evaporation rate needs no condition: the clamp restores the bounds). -/
def kindOk : Kind F → Prop
  | .as ρ c => 0 ≤ ρ ∧ ρ ≤ 1 ∧ 0 ≤ c
  | .mmas _ hi lo => 0 ≤ lo ∧ lo ≤ hi

def inBounds : Kind F → PM F → Prop
  | .as _ _, _ => True
  | .mmas _ hi lo, pm => ∀ x ∈ pm.inner, lo ≤ x ∧ x ≤ hi

/-- On a well-formed, non-negative matrix and a population whose individuals (but possibly the first) have
routes inside the matrix and positive objective values, neither update panics; the result is again
well-formed and non-negative, and — max-min — within the bounds. -/
theorem update_valid (k : Kind F) (hk : kindOk k) (pm : PM F) (hwf : pm.wf = true)
    (hnn : ∀ x ∈ pm.inner, 0 ≤ x) (pop : List (Ind F))
    (hr : ∀ ind ∈ pop.drop 1, ∀ c ∈ ind.route, c < pm.dim)
    (ho : ∀ ind ∈ pop.drop 1, ∃ o, ind.obj = some o ∧ 0 < o) :
    ∃ pm', update k pm pop = some pm' ∧ pm'.wf = true ∧ pm'.dim = pm.dim ∧ (∀ x ∈ pm'.inner, 0 ≤ x) ∧
      inBounds k pm' := by
  have ho' : ∀ ind ∈ pop.drop 1, ind.obj.isSome = true := by
    intro ind h; obtain ⟨o, h1, _⟩ := ho ind h; simp [h1]
  have hrv : routesValid pm.dim (pop.drop 1) = true := (routesValid_iff _ _).mpr hr
  cases k with
  | as ρ c =>
    obtain ⟨hρ0, hρ1, hc⟩ := hk
    obtain ⟨pm', h1, hd, hw, hg⟩ := asUpdate_spec pm ρ c pop hwf hrv ho'
    refine ⟨pm', h1, hw, hd, ?_, trivial⟩
    intro x hx
    obtain ⟨i, j, hi, hj, hget⟩ := mem_inner_get? pm' hw hx
    rw [hd] at hi hj
    rw [hg i j hi hj] at hget
    injection hget with hget
    rw [← hget, asSpec]
    obtain ⟨y, hy⟩ := get?_isSome pm hwf hi hj
    apply asSpecGo_nonneg c hc i j _ _ _ ho
    rw [getD_of_get? pm hy]
    exact mul_nonneg (hnn y (get?_mem pm hy)) (by linarith)
  | mmas ρ hi lo =>
    obtain ⟨hlo, hb⟩ := hk
    have hex : ∃ pm', mmasUpdate pm ρ hi lo pop = some pm' ∧ pm'.dim = pm.dim ∧ pm'.wf = true := by
      by_cases hne : pop.drop 1 = []
      · obtain ⟨pm', h1, hd, hw, _⟩ := mmasUpdate_spec_nil pm ρ hi lo pop hwf hne hb
        exact ⟨pm', h1, hd, hw⟩
      · obtain ⟨⟨best, o⟩, hmin⟩ := Option.isSome_iff_exists.mp (firstMin_isSome _ hne ho')
        obtain ⟨hmem, _⟩ := firstMin_mem _ best o hmin
        obtain ⟨pm', h1, hd, hw, _⟩ := mmasUpdate_spec pm ρ hi lo pop hwf best o hmin (hr best hmem) hb
        exact ⟨pm', h1, hd, hw⟩
    obtain ⟨pm', h1, hd, hw⟩ := hex
    have hall : ∀ x ∈ pm'.inner, lo ≤ x ∧ x ≤ hi := by
      obtain ⟨pm2, h2⟩ := mmasUpdate_cases pm ρ hi lo pop pm' h1
      simp only [clampStage, hb, if_true] at h2
      injection h2 with h2
      subst h2
      intro x hx
      simp only [List.mem_map] at hx
      obtain ⟨y, _, rfl⟩ := hx
      exact clamp_bounds lo hi y hb
    exact ⟨pm', h1, hw, hd, fun x hx => le_trans hlo (hall x hx).1, hall⟩

/-- What a run must satisfy for the property to be claimed: an exact back-end (`fin`, `close`), a `powf` that
keeps non-negative bases non-negative, the positive offset `1e-15`, comparison = the order, at least two
cities, positive distances between distinct cities, a non-negative initial trail and valid update
parameters (`kindOk`). -/
structure RunValid (N : Num F) (c : RunCfg F) : Prop where
  fin : ∀ x, N.fin x = true
  close : ∀ a b, N.close a b = decide (a = b)
  pow : ∀ x a, 0 ≤ x → 0 ≤ N.pow x a
  eps : 0 < N.eps
  tle : N.tle = dle
  cities : 2 ≤ c.n
  dist : ∀ i j, i ≠ j → 0 < c.dist i j
  init : 0 ≤ c.τ0
  kind : kindOk c.kind

end field

/-! ### Edges of a route without repeated cities -/

theorem edges_cons_cons (x y : Nat) (r : List Nat) : edges (x :: y :: r) = (x, y) :: edges (y :: r) := by
  simp [edges]

theorem edges_mem {l : List Nat} {a b : Nat} (h : (a, b) ∈ edges l) : a ∈ l ∧ b ∈ l := by
  have := List.of_mem_zip h
  exact ⟨this.1, List.mem_of_mem_tail this.2⟩

theorem edges_antisymm : ∀ l : List Nat, l.Nodup → ∀ a b, (a, b) ∈ edges l → (b, a) ∉ edges l := by
  intro l
  induction l with
  | nil => intro _ a b h; simp [edges] at h
  | cons x rest ih =>
    intro hnd a b hab hba
    cases rest with
    | nil => simp [edges] at hab
    | cons y r =>
      rw [edges_cons_cons] at hab hba
      obtain ⟨hx, hnd'⟩ := List.nodup_cons.mp hnd
      simp only [List.mem_cons, Prod.mk.injEq] at hab hba
      rcases hab with ⟨rfl, rfl⟩ | hab
      · rcases hba with ⟨h1, _⟩ | hba
        · subst h1; exact hx (by simp)
        · exact hx (edges_mem hba).2
      · rcases hba with ⟨rfl, rfl⟩ | hba
        · exact hx (edges_mem hab).2
        · exact ih hnd' a b hab hba

theorem edges_nodup : ∀ l : List Nat, l.Nodup → (edges l).Nodup := by
  intro l
  induction l with
  | nil => intro _; simp [edges]
  | cons x rest ih =>
    intro hnd
    cases rest with
    | nil => simp [edges]
    | cons y r =>
      rw [edges_cons_cons]
      obtain ⟨hx, hnd'⟩ := List.nodup_cons.mp hnd
      exact List.nodup_cons.mpr ⟨fun h => hx (edges_mem h).1, ih hnd'⟩

/-- A route without repeated cities has each pair of cities joined by at most one of its edges. -/
theorem hits_le_one (l : List Nat) (hnd : l.Nodup) (i j : Nat) : hits l i j ≤ 1 := by
  have hn := edges_nodup l hnd
  have h1 : (edges l).count (i, j) ≤ 1 := List.nodup_iff_count_le_one.mp hn _
  have h2 : (edges l).count (j, i) ≤ 1 := List.nodup_iff_count_le_one.mp hn _
  unfold hits
  by_cases hm : (i, j) ∈ edges l
  · have : (edges l).count (j, i) = 0 := List.count_eq_zero.mpr (edges_antisymm l hnd i j hm)
    omega
  · have : (edges l).count (i, j) = 0 := List.count_eq_zero.mpr hm
    omega

theorem hits_pos_iff (l : List Nat) (i j : Nat) : 0 < hits l i j ↔ (i, j) ∈ edges l ∨ (j, i) ∈ edges l := by
  unfold hits
  rw [Nat.add_pos_iff_pos_or_pos, List.count_pos_iff, List.count_pos_iff]

end MahfModel.Aco
