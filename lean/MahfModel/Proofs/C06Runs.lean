/- Helper lemmas for C06 on configuration trees (`Model/EvalTreeC06.lean`). Core only. -/
import MahfModel.Model.EvalTreeC06
namespace MahfModel.EvalTree
open MahfModel MahfModel.PopMachine

variable {O : Type}

theorem bump_zero (l : List (Option Nat)) : bump 0 l = l := by
  induction l with
  | nil => rfl
  | cons c cs ih => cases c <;> simp [bump, ih]

theorem bump_bump (a b : Nat) (l : List (Option Nat)) : bump a (bump b l) = bump (b + a) l := by
  induction l with
  | nil => rfl
  | cons c cs ih => cases c <;> simp [bump, ih, Nat.add_assoc]

theorem bump_none_cons (k : Nat) (l : List (Option Nat)) : bump k (none :: l) = none :: bump k l := rfl

theorem visible_bump (k : Nat) (l : List (Option Nat)) : visible (bump k l) = (visible l).map (· + k) := by
  induction l with
  | nil => rfl
  | cons c cs ih => cases c <;> simp [bump, visible, ih]

/-! ### A tree without evaluation steps has none "here" and none in scopes -/
mutual
  theorem evalHere_of_allIds_nil : ∀ (c : TStep O), allIds c = [] → evalHere c = false ∧ noScopedEval c = true
    | .push _, _ => by simp [evalHere, noScopedEval]
    | .pop, _ => by simp [evalHere, noScopedEval]
    | .eval _, h => by simp [allIds] at h
    | .scope b, h => by simp [allIds] at h; simp [evalHere, noScopedEval, h]
    | .loopIter _ b, h => by
      simp only [allIds] at h
      simpa [evalHere, noScopedEval] using evalHeres_of_allIdss_nil b h
    | .loopEvals _ b, h => by
      simp only [allIds] at h
      simpa [evalHere, noScopedEval] using evalHeres_of_allIdss_nil b h
    | .branch _ t he e, h => by
      simp only [allIds, List.append_eq_nil_iff] at h
      have ht := evalHeres_of_allIdss_nil t h.1
      cases he with
      | false => simp [evalHere, noScopedEval, ht]
      | true =>
        have he' := evalHeres_of_allIdss_nil e (by simpa using h.2)
        simp [evalHere, noScopedEval, ht, he']
  theorem evalHeres_of_allIdss_nil : ∀ (cs : TSteps O), allIdss cs = [] → evalHeres cs = false ∧ noScopedEvals cs = true
    | .nil, _ => by simp [evalHeres, noScopedEvals]
    | .cons c r, h => by
      simp only [allIdss, List.append_eq_nil_iff] at h
      have h1 := evalHere_of_allIds_nil c h.1
      have h2 := evalHeres_of_allIdss_nil r h.2
      simp [evalHeres, noScopedEvals, h1, h2]
end

/-! ### Counter and call log move together as long as no evaluation step sits in a scope -/

/-- what an execution did to the ghost call log and to the counters -/
def Tracks (s s' : TSt O) : Prop := ∃ l : List Nat, s'.calls = s.calls ++ l ∧ s'.counters = bump l.length s.counters

theorem Tracks.refl (s : TSt O) : Tracks s s := ⟨[], by simp, by simp [bump_zero]⟩

theorem Tracks.trans {s1 s2 s3 : TSt O} (h1 : Tracks s1 s2) (h2 : Tracks s2 s3) : Tracks s1 s3 := by
  obtain ⟨l1, c1, k1⟩ := h1
  obtain ⟨l2, c2, k2⟩ := h2
  exact ⟨l1 ++ l2, by simp [c2, c1], by rw [k2, k1, bump_bump]; simp⟩

theorem Tracks.of_eq {s s' : TSt O} (hc : s'.calls = s.calls) (hk : s'.counters = s.counters) : Tracks s s' :=
  ⟨[], by simp [hc], by simp [hk, bump_zero]⟩

theorem evalT_tracks (f : Nat → O) (reg : List String) (id : String) (s s' : TSt O)
    (h : evalT f reg id s = (s', .ok)) : Tracks s s' := by
  unfold evalT at h
  split at h
  · injection h with h _; subst h; exact Tracks.of_eq rfl rfl
  · rename_i p rest _
    split at h
    · injection h with _ h; cases h
    · split at h
      · injection h with _ h; cases h
      · injection h with h _; subst h
        exact ⟨p.map (·.sol), rfl, by simp⟩

mutual
  theorem execT_tracks (f : Nat → O) (reg : List String) :
      ∀ (fuel : Nat) (c : TStep O) (s s' : TSt O), noScopedEval c = true → execT f reg fuel c s = (s', .ok) → Tracks s s'
    | 0, _, _, _, _, h => by simp [execT] at h
    | fuel + 1, .push p, s, s', _, h => by
      simp only [execT] at h; injection h with h _; subst h; exact Tracks.of_eq rfl rfl
    | fuel + 1, .pop, s, s', _, h => by
      simp only [execT] at h
      split at h
      · injection h with _ h; cases h
      · injection h with h _; subst h; exact Tracks.of_eq rfl rfl
    | fuel + 1, .eval id, s, s', _, h => by
      simp only [execT] at h; exact evalT_tracks f reg id s s' h
    | fuel + 1, .scope body, s, s', hn, h => by
      simp only [execT] at h
      simp only [noScopedEval, List.isEmpty_iff] at hn
      have hb := evalHeres_of_allIdss_nil body hn
      split at h
      · injection h with _ h; cases h
      · split at h
        · rename_i s2 heq
          injection h with h _; subst h
          have := execsT_tracks f reg fuel body _ s2 hb.2 heq
          obtain ⟨l, c1, k1⟩ := this
          refine ⟨l, by simpa [addRec, dropLevel] using c1, ?_⟩
          simp only [addRec, dropLevel, k1, hb.1, initLevel]
          simp [bump]
        · rename_i s2 r hne heq
          injection h with _ h
          exact absurd h (by intro h; exact hne (h ▸ rfl))
    | fuel + 1, .loopIter k body, s, s', hn, h => by
      simp only [execT] at h
      exact loopT_tracks f reg fuel .iter k body s s' (by simpa [noScopedEval] using hn) h
    | fuel + 1, .loopEvals n body, s, s', hn, h => by
      simp only [execT] at h
      exact loopT_tracks f reg fuel .evals n body s s' (by simpa [noScopedEval] using hn) h
    | fuel + 1, .branch n thn he els, s, s', hn, h => by
      simp only [execT] at h
      simp only [noScopedEval, Bool.and_eq_true] at hn
      split at h
      · injection h with _ h; cases h
      · split at h
        · split at h
          · rename_i s2 heq
            injection h with h _; subst h
            obtain ⟨l, c1, k1⟩ := execsT_tracks f reg fuel thn _ s2 hn.1 heq
            exact ⟨l, by simpa [addRec] using c1, by simpa [addRec] using k1⟩
          · rename_i s2 r hne heq
            injection h with _ h
            exact absurd h (by intro h; exact hne (h ▸ rfl))
        · split at h
          · rename_i hhe
            split at h
            · rename_i s2 heq
              injection h with h _; subst h
              have hne : noScopedEvals els = true := by simpa [hhe] using hn.2
              obtain ⟨l, c1, k1⟩ := execsT_tracks f reg fuel els _ s2 hne heq
              exact ⟨l, by simpa [addRec] using c1, by simpa [addRec] using k1⟩
            · rename_i s2 r hne heq
              injection h with _ h
              exact absurd h (by intro h; exact hne (h ▸ rfl))
          · injection h with h _; subst h; exact Tracks.of_eq rfl rfl
  theorem execsT_tracks (f : Nat → O) (reg : List String) :
      ∀ (fuel : Nat) (cs : TSteps O) (s s' : TSt O), noScopedEvals cs = true → execsT f reg fuel cs s = (s', .ok) → Tracks s s'
    | 0, _, _, _, _, h => by simp [execsT] at h
    | fuel + 1, .nil, s, s', _, h => by
      simp only [execsT] at h; injection h with h _; subst h; exact Tracks.refl _
    | fuel + 1, .cons c rest, s, s', hn, h => by
      simp only [execsT] at h
      simp only [noScopedEvals, Bool.and_eq_true] at hn
      split at h
      · rename_i s1 heq
        exact (execT_tracks f reg fuel c s s1 hn.1 heq).trans (execsT_tracks f reg fuel rest s1 s' hn.2 h)
      · rename_i s1 r hne heq
        injection h with _ h
        exact absurd h (by intro h; exact hne (h ▸ rfl))
  theorem loopT_tracks (f : Nat → O) (reg : List String) :
      ∀ (fuel : Nat) (kind : LoopKind) (bound : Nat) (body : TSteps O) (s s' : TSt O), noScopedEvals body = true →
        loopT f reg fuel kind bound body s = (s', .ok) → Tracks s s'
    | 0, _, _, _, _, _, _, h => by simp [loopT] at h
    | fuel + 1, kind, bound, body, s, s', hn, h => by
      simp only [loopT] at h
      split at h
      · injection h with _ h; cases h
      · split at h
        · split at h
          · rename_i s2 heq
            split at h
            · injection h with _ h; cases h
            · have t1 : Tracks s s2 := by
                obtain ⟨l, c1, k1⟩ := execsT_tracks f reg fuel body _ s2 hn heq
                exact ⟨l, by simpa [addRec] using c1, by simpa [addRec] using k1⟩
              have t2 := loopT_tracks f reg fuel kind bound body _ s' hn h
              exact t1.trans (by
                obtain ⟨l, c1, k1⟩ := t2
                exact ⟨l, by simpa using c1, by simpa using k1⟩)
          · rename_i s2 r hne heq
            injection h with _ h
            exact absurd h (by intro h; exact hne (h ▸ rfl))
        · injection h with h _; subst h; exact Tracks.of_eq rfl rfl
end

/-! ### Only registered evaluators are ever applied -/

/-- the evaluator applications an execution added all name registered identifiers -/
def Applies (reg : List String) (s s' : TSt O) : Prop :=
  ∃ l : List String, s'.evalLog = s.evalLog ++ l ∧ ∀ id ∈ l, reg.contains id = true

theorem Applies.refl (reg : List String) (s : TSt O) : Applies reg s s := ⟨[], by simp, by simp⟩

theorem Applies.trans {reg : List String} {s1 s2 s3 : TSt O} (h1 : Applies reg s1 s2) (h2 : Applies reg s2 s3) :
    Applies reg s1 s3 := by
  obtain ⟨l1, c1, k1⟩ := h1
  obtain ⟨l2, c2, k2⟩ := h2
  refine ⟨l1 ++ l2, by simp [c2, c1], ?_⟩
  intro id hid
  rcases List.mem_append.mp hid with h | h
  · exact k1 id h
  · exact k2 id h

theorem Applies.of_eq {reg : List String} {s s' : TSt O} (h : s'.evalLog = s.evalLog) : Applies reg s s' :=
  ⟨[], by simp [h], by simp⟩

theorem evalT_applies (f : Nat → O) (reg : List String) (id : String) (s : TSt O) :
    Applies reg s (evalT f reg id s).1 := by
  unfold evalT
  split
  · exact Applies.of_eq rfl
  · split
    · exact Applies.of_eq rfl
    · rename_i hreg
      have hreg : reg.contains id = true := by simpa using hreg
      split
      · exact ⟨[id], rfl, by simpa using hreg⟩
      · exact ⟨[id], rfl, by simpa using hreg⟩

mutual
  theorem execT_applies (f : Nat → O) (reg : List String) :
      ∀ (fuel : Nat) (c : TStep O) (s : TSt O), Applies reg s (execT f reg fuel c s).1
    | 0, _, s => by simp only [execT]; exact Applies.refl _ _
    | fuel + 1, .push p, s => by simp only [execT]; exact Applies.of_eq rfl
    | fuel + 1, .pop, s => by
      simp only [execT]
      split <;> exact Applies.of_eq rfl
    | fuel + 1, .eval id, s => by simp only [execT]; exact evalT_applies f reg id s
    | fuel + 1, .scope body, s => by
      simp only [execT]
      split
      · exact Applies.refl _ _
      · have := execsT_applies f reg fuel body
          { s with counters := initLevel (evalHeres body) none :: s.counters,
                   iters := initLevel (loopHeres body) none :: s.iters, recs := s.recs ++ [.enter] }
        split
        · rename_i s2 heq
          rw [heq] at this
          obtain ⟨l, c1, k1⟩ := this
          exact ⟨l, by simpa [addRec, dropLevel] using c1, k1⟩
        · rename_i s2 r _ heq
          rw [heq] at this
          obtain ⟨l, c1, k1⟩ := this
          exact ⟨l, by simpa [dropLevel] using c1, k1⟩
    | fuel + 1, .loopIter k body, s => by simp only [execT]; exact loopT_applies f reg fuel .iter k body s
    | fuel + 1, .loopEvals n body, s => by simp only [execT]; exact loopT_applies f reg fuel .evals n body s
    | fuel + 1, .branch n thn he els, s => by
      simp only [execT]
      split
      · exact Applies.refl _ _
      · split
        · have := execsT_applies f reg fuel thn (addRec s .thn)
          split
          · rename_i s2 heq
            rw [heq] at this
            obtain ⟨l, c1, k1⟩ := this
            exact ⟨l, by simpa [addRec] using c1, k1⟩
          · rename_i s2 r _ heq
            rw [heq] at this
            obtain ⟨l, c1, k1⟩ := this
            exact ⟨l, by simpa [addRec] using c1, k1⟩
        · split
          · have := execsT_applies f reg fuel els (addRec s .els)
            split
            · rename_i s2 heq
              rw [heq] at this
              obtain ⟨l, c1, k1⟩ := this
              exact ⟨l, by simpa [addRec] using c1, k1⟩
            · rename_i s2 r _ heq
              rw [heq] at this
              obtain ⟨l, c1, k1⟩ := this
              exact ⟨l, by simpa [addRec] using c1, k1⟩
          · exact Applies.of_eq rfl
  theorem execsT_applies (f : Nat → O) (reg : List String) :
      ∀ (fuel : Nat) (cs : TSteps O) (s : TSt O), Applies reg s (execsT f reg fuel cs s).1
    | 0, _, s => by simp only [execsT]; exact Applies.refl _ _
    | fuel + 1, .nil, s => by simp only [execsT]; exact Applies.refl _ _
    | fuel + 1, .cons c rest, s => by
      simp only [execsT]
      have h1 := execT_applies f reg fuel c s
      split
      · rename_i s1 heq
        rw [heq] at h1
        exact h1.trans (execsT_applies f reg fuel rest s1)
      · rename_i s1 r _ heq
        rw [heq] at h1
        exact h1
  theorem loopT_applies (f : Nat → O) (reg : List String) :
      ∀ (fuel : Nat) (kind : LoopKind) (bound : Nat) (body : TSteps O) (s : TSt O),
        Applies reg s (loopT f reg fuel kind bound body s).1
    | 0, _, _, _, s => by simp only [loopT]; exact Applies.refl _ _
    | fuel + 1, kind, bound, body, s => by
      simp only [loopT]
      split
      · exact Applies.refl _ _
      · split
        · have h1 := execsT_applies f reg fuel body (addRec s (.pass (visible s.counters)))
          split
          · rename_i s2 heq
            rw [heq] at h1
            have h1' : Applies reg s s2 := by
              obtain ⟨l, c1, k1⟩ := h1
              exact ⟨l, by simpa [addRec] using c1, k1⟩
            split
            · exact h1'
            · have h2 := loopT_applies f reg fuel kind bound body { s2 with iters := bump 1 s2.iters }
              exact h1'.trans (by
                obtain ⟨l, c1, k1⟩ := h2
                exact ⟨l, by simpa using c1, k1⟩)
          · rename_i s2 r _ heq
            rw [heq] at h1
            obtain ⟨l, c1, k1⟩ := h1
            exact ⟨l, by simpa [addRec] using c1, k1⟩
        · exact Applies.of_eq rfl
end

/-- A budget loop that ends normally ends with the budget used up. -/
theorem loopT_evals_exit (f : Nat → O) (reg : List String) :
    ∀ (fuel : Nat) (n : Nat) (body : TSteps O) (s s' : TSt O), loopT f reg fuel .evals n body s = (s', .ok) →
      ∃ v, visible s'.counters = some v ∧ n ≤ v
  | 0, _, _, _, _, h => by simp [loopT] at h
  | fuel + 1, n, body, s, s', h => by
    simp only [loopT] at h
    split at h
    · injection h with _ h; cases h
    · rename_i v hv
      split at h
      · split at h
        · split at h
          · injection h with _ h; cases h
          · exact loopT_evals_exit f reg fuel n body _ s' h
        · rename_i s2 r hne heq
          injection h with _ h
          exact absurd h (by intro h; exact hne (h ▸ rfl))
      · rename_i hlt
        injection h with h _; subst h
        exact ⟨v, by simpa [addRec, condValue] using hv, by omega⟩

end MahfModel.EvalTree
