/- Helper lemmas for C13 (variation operators). -/
import MahfModel.Model.Variation
import Mathlib.Data.List.Perm.Basic
import Mathlib.Data.List.Nodup
import Mathlib.Algebra.Order.Field.Basic
import Mathlib.Tactic.Ring
import Mathlib.Tactic.Linarith
namespace MahfModel.Variation
variable {α : Type}

/-! ### swaps are permutations -/
theorem swapAt_perm (l l' : List α) (i j : Nat) (h : swapAt l i j = some l') : l'.Perm l := by
  classical
  unfold swapAt at h
  split at h
  · rename_i a b ha hb
    injection h with h; subst h
    rw [List.perm_iff_count]
    intro x
    obtain ⟨hi, rfl⟩ := List.getElem?_eq_some_iff.mp ha
    obtain ⟨hj, rfl⟩ := List.getElem?_eq_some_iff.mp hb
    rw [List.count_set (by simpa using hj), List.count_set hi]
    have := List.count_pos_iff.mpr (List.getElem_mem hi)
    have := List.count_pos_iff.mpr (List.getElem_mem hj)
    grind
  · cases h

theorem swapPairs_perm (l l' : List α) (ps : List (Nat × Nat)) (h : swapPairs l ps = some l') : l'.Perm l := by
  induction ps generalizing l with
  | nil => simp [swapPairs] at h; subst h; exact List.Perm.refl _
  | cons p ps ih =>
    obtain ⟨i, j⟩ := p
    simp only [swapPairs] at h
    split at h
    · rename_i l1 h1
      exact (ih _ h).trans (swapAt_perm _ _ _ _ h1)
    · cases h

theorem circularSwap_perm (l l' : List α) (idx : List Nat) (h : circularSwap l idx = some l') : l'.Perm l := by
  unfold circularSwap at h
  split at h
  · cases h
  · exact swapPairs_perm _ _ _ h

theorem circularSwap2Loop_perm (l l' : List α) (buf : List Nat) (k : Nat)
    (h : circularSwap2Loop l buf k = some l') : l'.Perm l := by
  induction k generalizing l buf with
  | zero => simp [circularSwap2Loop] at h; subst h; exact List.Perm.refl _
  | succ k ih =>
    simp only [circularSwap2Loop] at h
    split at h
    · split at h
      · rename_i l1 h1
        exact (ih _ _ h).trans (swapAt_perm _ _ _ _ h1)
      · cases h
    · cases h

theorem circularSwap2_perm (l l' : List α) (idx : List Nat) (h : circularSwap2 l idx = some l') : l'.Perm l := by
  unfold circularSwap2 at h
  split at h
  · cases h
  · simp only at h
    split at h
    · split at h
      · rename_i l1 h1
        split at h
        · exact (circularSwap2Loop_perm _ _ _ _ h).trans (swapAt_perm _ _ _ _ h1)
        · injection h with h; subst h; exact swapAt_perm _ _ _ _ h1
      · cases h
    · cases h

/-! ### translocation -/

theorem translocateSlice2_eq (l : List α) (s e i : Nat) (h : translocValid l.length s e i = true) :
    translocateSlice2 l s e i = some (translocSpec l s e i) := by
  simp only [translocValid, translocContract, Bool.and_eq_true, decide_eq_true_eq] at h
  obtain ⟨⟨⟨⟨h1, h2⟩, h3⟩, h4⟩, h5⟩ := h
  unfold translocateSlice2 translocSpec
  simp only [translocContract, h1, h2, h3, decide_true, Bool.and_self, Bool.not_true]
  have a1 : ¬ (i + e < s) := by omega
  have a2 : i + e - s ≤ l.length := by omega
  have a3 : ¬ (e < s) := by omega
  simp [a1, a2, a3]
  omega

theorem translocateSlice_eq (l : List α) (s e i : Nat) (h : translocValid l.length s e i = true) :
    translocateSlice l s e i = some (translocSpec l s e i) := by
  simp only [translocValid, translocContract, Bool.and_eq_true, decide_eq_true_eq] at h
  obtain ⟨⟨⟨⟨h1, h2⟩, h3⟩, h4⟩, h5⟩ := h
  unfold translocateSlice translocSpec
  simp only [translocContract, h1, h2, h3, decide_true, Bool.and_self, Bool.not_true]
  have a3 : ¬ (e < s) := by omega
  simp only [a3, h5, Bool.false_eq_true, if_false, not_true, if_true]
  by_cases c1 : i < s
  · simp only [c1, if_true, rotRight]
    have : e - s ≤ ((l.drop i).take (e - i)).length := by simp; omega
    simp only [this, if_true]
    congr 1
    apply List.ext_getElem?
    intro n
    simp only [List.getElem?_append, List.getElem?_take, List.getElem?_drop, List.length_append, List.length_take, List.length_drop]
    grind
  · simp only [c1, if_false]
    by_cases c2 : s < i
    · simp only [c2, if_true, rotLeft]
      have : e - s ≤ ((l.drop s).take (i + (e - s) - s)).length := by simp; omega
      simp only [this, if_true]
      congr 1
      apply List.ext_getElem?
      intro n
      simp only [List.getElem?_append, List.getElem?_take, List.getElem?_drop, List.length_append, List.length_take, List.length_drop]
      grind
    · simp only [c2, if_false]
      have : i = s := by omega
      subst this
      congr 1
      apply List.ext_getElem?
      intro n
      simp only [List.getElem?_append, List.getElem?_take, List.getElem?_drop, List.length_append, List.length_take, List.length_drop]
      grind

theorem translocSpec_perm (l : List α) (s e i : Nat) (h4 : s ≤ e) :
    (translocSpec l s e i).Perm l := by
  unfold translocSpec
  have hl : l = l.take s ++ ((l.drop s).take (e - s) ++ l.drop e) := by
    apply List.ext_getElem?
    intro n
    simp only [List.getElem?_append, List.getElem?_take, List.getElem?_drop, List.length_take, List.length_drop]
    grind
  simp only
  generalize hS : (l.drop s).take (e - s) = S at *
  generalize hA : l.take s = A at *
  generalize hC : l.drop e = C at *
  generalize hR : A ++ C = rest
  have h1 : (rest.take i ++ S ++ rest.drop i).Perm (S ++ (rest.take i ++ rest.drop i)) := by
    rw [List.append_assoc]
    exact List.perm_append_comm_assoc _ _ _
  rw [List.take_append_drop] at h1
  rw [hl]
  refine h1.trans ?_
  rw [← hR]
  exact List.perm_append_comm_assoc _ _ _

/-! ### uniform crossover -/

theorem uxLoop_spec (mask : List Bool) : ∀ (pre1 pre2 as bs : List α),
    pre1.length = pre2.length → as.length = mask.length → bs.length = mask.length →
    uxLoop pre1.length mask (pre1 ++ as, pre2 ++ bs) =
      some (pre1 ++ mask.zipWith (fun m (ab : α × α) => if m then ab.2 else ab.1) (as.zip bs),
            pre2 ++ mask.zipWith (fun m (ab : α × α) => if m then ab.1 else ab.2) (as.zip bs)) := by
  induction mask with
  | nil =>
    intro pre1 pre2 as bs _ ha hb
    have : as = [] := List.length_eq_zero_iff.mp ha
    have : bs = [] := List.length_eq_zero_iff.mp hb
    subst_vars; simp [uxLoop]
  | cons m mask ih =>
    intro pre1 pre2 as bs hp ha hb
    cases as with
    | nil => simp at ha
    | cons a as =>
    cases bs with
    | nil => simp at hb
    | cons b bs =>
      simp only [List.length_cons, Nat.add_right_cancel_iff] at ha hb
      simp only [uxLoop]
      cases m
      · simp only [Bool.false_eq_true, if_false]
        have := ih (pre1 ++ [a]) (pre2 ++ [b]) as bs (by simp [hp]) ha hb
        simp only [List.length_append, List.length_singleton, List.append_assoc, List.singleton_append] at this
        rw [this]; simp
      · simp only [if_true]
        have e1 : (pre1 ++ a :: as)[pre1.length]? = some a := by simp
        have e2 : (pre2 ++ b :: bs)[pre1.length]? = some b := by rw [hp]; simp
        rw [e1, e2]
        simp only
        have s1 : (pre1 ++ a :: as).set pre1.length b = (pre1 ++ [b]) ++ as := by simp
        have s2 : (pre2 ++ b :: bs).set pre1.length a = (pre2 ++ [a]) ++ bs := by rw [hp]; simp
        rw [s1, s2]
        have := ih (pre1 ++ [b]) (pre2 ++ [a]) as bs (by simp [hp]) ha hb
        simp only [List.length_append, List.length_singleton] at this
        rw [this]; simp

theorem uniformCrossover_eq (p1 p2 : List α) (mask : List Bool) (h : uxValid p1.length p2.length mask = true) :
    uniformCrossover p1 p2 mask = some (uxSpec p1 p2 mask) := by
  simp only [uxValid, Bool.and_eq_true, decide_eq_true_eq] at h
  unfold uniformCrossover uxSpec
  have h1 : ¬ mask.length < p1.length := by omega
  have h2 : ¬ mask.length < p2.length := by omega
  simp only [h1, h2, if_false]
  have := uxLoop_spec mask [] [] p1 p2 rfl (by omega) (by omega)
  simpa using this

/-! ### multi-point crossover -/

theorem swapTails_spec (c1 c2 : List α) (idx : Nat) (hl : c1.length = c2.length) (hi : idx ≤ c1.length) :
    ∃ d1 d2, swapTails c1 c2 idx = some (d1, d2) ∧ d1.length = c1.length ∧ d2.length = c1.length ∧
      ∀ k, d1[k]? = (if idx ≤ k then c2[k]? else c1[k]?) ∧ d2[k]? = (if idx ≤ k then c1[k]? else c2[k]?) := by
  unfold swapTails
  have h1 : ¬ (c1.length < idx ∨ c2.length < idx) := by omega
  have h2 : ¬ (c1.length - idx ≠ c2.length - idx) := by omega
  simp only [h1, h2, if_false]
  refine ⟨_, _, rfl, by simp; omega, by simp; omega, ?_⟩
  intro k
  simp only [List.getElem?_append, List.getElem?_take, List.getElem?_drop, List.length_take]
  constructor <;> grind

theorem mpxLoop_spec (p1 p2 : List α) (n : Nat) (hp : p1.length = p2.length) (idxs : List Nat) :
    ∀ (i : Nat) (c1 c2 : List α), c1.length = c2.length → (∀ x ∈ idxs, x ≤ c1.length) →
    ∃ d1 d2, mpxLoop p1 p2 n i idxs (c1, c2) = some (d1, d2) ∧ d1.length = c1.length ∧ d2.length = c1.length ∧
      ∀ k, d1[k]? = (if idxs.countP (· ≤ k) % 2 = 1 then c2[k]? else c1[k]?) ∧
           d2[k]? = (if idxs.countP (· ≤ k) % 2 = 1 then c1[k]? else c2[k]?) := by
  induction idxs with
  | nil => intro i c1 c2 hl _; exact ⟨c1, c2, by simp [mpxLoop], rfl, hl.symm, by simp⟩
  | cons idx rest ih =>
    intro i c1 c2 hl hr
    obtain ⟨e1, e2, hs, l1, l2, hk⟩ := swapTails_spec c1 c2 idx hl (hr idx (by simp))
    obtain ⟨d1, d2, hd, m1, m2, hk2⟩ := ih (i + 1) e1 e2 (by omega) (by intro x hx; rw [l1]; exact hr x (by simp [hx]))
    refine ⟨d1, d2, ?_, by omega, by omega, ?_⟩
    · simp only [mpxLoop, hp, ne_eq, not_true_eq_false, if_false, hs, hd]
    · intro k
      have := hk k; have := hk2 k
      simp only [List.countP_cons, decide_eq_true_eq]
      grind

/-! ### chains of transpositions -/

/-- Swaps along a chain of indices: `swap(a₁,a₂); swap(a₂,a₃); …`. -/
def chainSwap (l : List α) : List Nat → Option (List α)
  | a :: b :: rest =>
    match swapAt l a b with
    | some l' => chainSwap l' (b :: rest)
    | none => none
  | _ => some l

theorem swapAt_spec (l : List α) (i j : Nat) (hi : i < l.length) (hj : j < l.length) :
    ∃ r, swapAt l i j = some r ∧ r.length = l.length ∧
      ∀ p, r[p]? = if p = j then l[i]? else if p = i then l[j]? else l[p]? := by
  unfold swapAt
  rw [List.getElem?_eq_getElem hi, List.getElem?_eq_getElem hj]
  refine ⟨_, rfl, by simp, ?_⟩
  intro p
  simp only [List.getElem?_set, List.length_set]
  grind

theorem chain_closed (c : List Nat) (hn : c.Nodup) : ∀ (l : List α), (∀ x ∈ c, x < l.length) →
    ∃ r, chainSwap l c = some r ∧ r.length = l.length ∧ (∀ p, p ∉ c → r[p]? = l[p]?) ∧
      (∀ j (h : j + 1 < c.length), r[c[j]]? = l[c[j+1]]?) ∧
      (∀ (h : 0 < c.length), r[c[c.length - 1]]? = l[c[0]]?) := by
  induction c with
  | nil => intro l _; exact ⟨l, rfl, rfl, by simp, by simp, by simp⟩
  | cons a t ih =>
    cases t with
    | nil => intro l _; exact ⟨l, rfl, rfl, by simp, by simp, by simp⟩
    | cons b t =>
      intro l hr
      obtain ⟨l', hs, hl', hg⟩ := swapAt_spec l a b (hr a (by simp)) (hr b (by simp))
      have hn' : (b :: t).Nodup := (List.nodup_cons.mp hn).2
      have ha : a ∉ b :: t := (List.nodup_cons.mp hn).1
      have hb : b ∉ t := (List.nodup_cons.mp hn').1
      obtain ⟨r, hc, hlr, h1, h2, h3⟩ := ih hn' l' (by intro x hx; rw [hl']; exact hr x (by simp [hx]))
      refine ⟨r, by simp [chainSwap, hs, hc], by omega, ?_, ?_, ?_⟩
      · intro p hp
        have hp' : p ∉ b :: t := by intro h; exact hp (by simp [h])
        rw [h1 p hp', hg p]
        have : p ≠ a := by intro h; exact hp (by simp [h])
        have : p ≠ b := by intro h; exact hp (by simp [h])
        simp [*]
      · intro j hj
        cases j with
        | zero =>
          simp only [List.getElem_cons_zero, List.getElem_cons_succ]
          rw [h1 a ha, hg a]
          have : a ≠ b := by intro h; exact ha (by simp [h])
          simp [this]
        | succ j =>
          simp only [List.length_cons] at hj
          have hj' : j < t.length := by omega
          have := h2 j (by simp; omega)
          simp only [List.getElem_cons_succ] at this ⊢
          rw [this, hg]
          have hmem : t[j] ∈ t := List.getElem_mem _
          have n1 : t[j] ≠ b := fun h => hb (h ▸ hmem)
          have n2 : t[j] ≠ a := fun h => ha (by rw [← h]; simp)
          simp [n1, n2]
      · intro _
        have := h3 (by simp)
        simp only [List.length_cons, Nat.add_sub_cancel, List.getElem_cons_zero] at this ⊢
        have e : (a :: b :: t)[t.length + 1] = (b :: t)[t.length] := by simp
        rw [e, this, hg]
        simp

/-- cyclic closed form along chain `c`: position `c[j]` receives the old element of `c[j+1]`,
the last position receives the old element of the first; positions off the chain keep theirs. -/
structure Cyc (l : List α) (c : List Nat) (r : List α) : Prop where
  len : r.length = l.length
  off : ∀ p, p ∉ c → r[p]? = l[p]?
  step : ∀ j x y, c[j]? = some x → c[j+1]? = some y → r[x]? = l[y]?
  wrap : ∀ x y, c.getLast? = some x → c.head? = some y → r[x]? = l[y]?

theorem Cyc.rotl (l : List α) (a : Nat) (t : List Nat) (r : List α) (h : Cyc l (t ++ [a]) r) : Cyc l (a :: t) r := by
  refine ⟨h.len, ?_, ?_, ?_⟩
  · intro p hp; exact h.off p (by simpa [or_comm] using hp)
  · intro j x y hx hy
    cases j with
    | zero =>
      simp at hx; subst hx
      refine h.wrap a y (by simp) ?_
      cases t with
      | nil => simp at hy
      | cons b t => simpa using hy
    | succ j =>
      simp only [List.getElem?_cons_succ] at hx hy
      have hj : j + 1 < t.length := by
        have := (List.getElem?_eq_some_iff.mp hy).1; exact this
      refine h.step j x y ?_ ?_
      · rw [List.getElem?_append_left (by omega)]; exact hx
      · rw [List.getElem?_append_left hj]; exact hy
  · intro x y hx hy
    simp at hy; subst hy
    rcases List.eq_nil_or_concat t with ht | ⟨t', z, ht⟩
    · subst ht; simp at hx; subst hx; exact h.wrap _ _ (by simp) (by simp)
    · subst ht
      simp only [List.concat_eq_append] at hx h
      have : z = x := by
        rw [List.getLast?_cons_of_ne_nil (by simp)] at hx
        simpa using hx
      subst this
      refine h.step t'.length z a ?_ ?_
      · simp
      · simp

theorem Cyc.rotr (l : List α) (a : Nat) (t : List Nat) (r : List α) (h : Cyc l (a :: t) r) : Cyc l (t ++ [a]) r := by
  refine ⟨h.len, ?_, ?_, ?_⟩
  · intro p hp; exact h.off p (by simpa [or_comm] using hp)
  · intro j x y hx hy
    by_cases hj : j + 1 < t.length
    · rw [List.getElem?_append_left (by omega)] at hx
      rw [List.getElem?_append_left hj] at hy
      exact h.step (j + 1) x y (by simpa using hx) (by simpa using hy)
    · have hlt := (List.getElem?_eq_some_iff.mp hy).1
      simp only [List.length_append, List.length_singleton] at hlt
      have hj2 : j + 1 = t.length := by omega
      rw [List.getElem?_append_left (by omega)] at hx
      have hy' : y = a := by
        rw [hj2] at hy; simpa using hy.symm
      subst hy'
      refine h.wrap x y ?_ (by simp)
      have : t ≠ [] := by intro h0; subst h0; simp at hj2
      rw [List.getLast?_cons_of_ne_nil this] 
      rw [List.getLast?_eq_getElem?]
      have : t.length - 1 = j := by omega
      rw [this]; exact hx
  · intro x y hx hy
    have : x = a := by simpa using hx.symm
    subst this
    cases t with
    | nil => simp at hy; subst hy; exact h.wrap _ _ (by simp) (by simp)
    | cons b t =>
      have : y = b := by simpa using hy.symm
      subst this
      exact h.step 0 x y (by simp) (by simp)

theorem Cyc.unique (l : List α) (c : List Nat) (r1 r2 : List α) (h1 : Cyc l c r1) (h2 : Cyc l c r2) : r1 = r2 := by
  apply List.ext_getElem?
  intro p
  by_cases hp : p ∈ c
  · obtain ⟨j, hj, rfl⟩ := List.getElem_of_mem hp
    by_cases hj2 : j + 1 < c.length
    · rw [h1.step j c[j] c[j+1] (by simp) (by simp), h2.step j c[j] c[j+1] (by simp) (by simp)]
    · have hj3 : j = c.length - 1 := by omega
      have hne : c ≠ [] := by intro h0; subst h0; simp at hj
      have hl : c.getLast? = some c[j] := by
        rw [List.getLast?_eq_getElem?, ← hj3]; simp
      have hh : c.head? = some c[0] := by
        cases c with
        | nil => simp at hj
        | cons a t => simp
      rw [h1.wrap _ _ hl hh, h2.wrap _ _ hl hh]
  · rw [h1.off p hp, h2.off p hp]

/-! ### circular swaps as chains -/


theorem chain_cyc (c : List Nat) (hn : c.Nodup) (hne : c ≠ []) (l : List α) (hr : ∀ x ∈ c, x < l.length) :
    ∃ r, chainSwap l c = some r ∧ Cyc l c r := by
  obtain ⟨r, h0, h1, h2, h3, h4⟩ := chain_closed c hn l hr
  refine ⟨r, h0, h1, h2, ?_, ?_⟩
  · intro j x y hx hy
    obtain ⟨hj1, rfl⟩ := List.getElem?_eq_some_iff.mp hx
    obtain ⟨hj2, rfl⟩ := List.getElem?_eq_some_iff.mp hy
    exact h3 j hj2
  · intro x y hx hy
    have hpos : 0 < c.length := List.length_pos_iff.mpr hne
    rw [List.getLast?_eq_getElem?] at hx
    obtain ⟨_, rfl⟩ := List.getElem?_eq_some_iff.mp hx
    rw [List.head?_eq_getElem?] at hy
    obtain ⟨_, rfl⟩ := List.getElem?_eq_some_iff.mp hy
    exact h4 hpos

theorem chainSwap_eq_swapPairs (c : List Nat) : ∀ l : List α, chainSwap l c = swapPairs l (c.zip c.tail) := by
  induction c with
  | nil => intro l; rfl
  | cons a t ih =>
    cases t with
    | nil => intro l; rfl
    | cons b t =>
      intro l
      simp only [chainSwap, List.tail_cons, List.zip_cons_cons, swapPairs]
      cases swapAt l a b with
      | none => rfl
      | some l' => simpa using ih l'

theorem zip_append_left_of_le {β γ : Type} (as : List β) (z : β) (bs : List γ) (h : bs.length ≤ as.length) :
    (as ++ [z]).zip bs = as.zip bs := by
  induction as generalizing bs with
  | nil => cases bs with
    | nil => rfl
    | cons b bs => simp at h
  | cons a as ih =>
    cases bs with
    | nil => rfl
    | cons b bs => simp at h; simp [ih bs h]

theorem circularWindows_drop (x : Nat) (rest : List Nat) :
    (circularWindows (x :: rest)).drop 1 = (rest ++ [x]).zip (rest ++ [x]).tail := by
  cases rest with
  | nil => simp [circularWindows]
  | cons y r =>
    simp only [circularWindows, List.cons_append, List.zip_cons_cons, List.drop_succ_cons, List.drop_zero, List.tail_cons]
    have := zip_append_left_of_le (y :: r) x (r ++ [x]) (by simp)
    simpa using this.symm

/-- `circular_swap` is the chain `[i_{n-2}, …, i_0, i_{n-1}]`. -/
theorem circularSwap_eq_chain (l : List α) (x : Nat) (rest : List Nat) (idx : List Nat)
    (hrev : idx.reverse = x :: rest) (h2 : 2 ≤ idx.length) :
    circularSwap l idx = chainSwap l (rest ++ [x]) := by
  unfold circularSwap
  have : ¬ idx.length ≤ 1 := by omega
  simp only [this, if_false, hrev, circularWindows_drop, chainSwap_eq_swapPairs]

theorem swapAt_comm (l : List α) (i j : Nat) : swapAt l i j = swapAt l j i := by
  unfold swapAt
  cases hi : l[i]? with
  | none => cases hj : l[j]? <;> simp
  | some a =>
    cases hj : l[j]? with
    | none => simp
    | some b =>
      simp only [Option.some.injEq]
      obtain ⟨hi', rfl⟩ := List.getElem?_eq_some_iff.mp hi
      obtain ⟨hj', rfl⟩ := List.getElem?_eq_some_iff.mp hj
      apply List.ext_getElem?
      intro p
      simp only [List.getElem?_set, List.length_set]
      grind

theorem circularSwap2Loop_eq_chain (k : Nat) : ∀ (l : List α) (r : List Nat), k + 1 ≤ r.length →
    circularSwap2Loop l r.reverse k = chainSwap l (r.take (k + 1)) := by
  induction k with
  | zero =>
    intro l r _
    cases r with
    | nil => simp [circularSwap2Loop, chainSwap]
    | cons a t => simp [circularSwap2Loop, chainSwap]
  | succ k ih =>
    intro l r hr
    match r, hr with
    | x :: y :: r', hr =>
      simp only [circularSwap2Loop, List.reverse_cons, List.append_assoc, List.cons_append, List.nil_append,
        List.length_append, List.length_reverse, List.length_cons, List.length_nil]
      have e1 : (r'.reverse ++ [y, x])[r'.length + (0 + 1 + 1) - 1]? = some x := by
        rw [List.getElem?_append_right (by simp)]; simp
      have e2 : (r'.reverse ++ [y, x])[r'.length + (0 + 1 + 1) - 2]? = some y := by
        rw [List.getElem?_append_right (by simp)]; simp
      rw [e1, e2]
      simp only [List.take_succ_cons, chainSwap]
      cases swapAt l x y with
      | none => rfl
      | some l' =>
        have hd : (r'.reverse ++ [y, x]).dropLast = (y :: r').reverse := by
          have : r'.reverse ++ [y, x] = (r'.reverse ++ [y]) ++ [x] := by simp
          rw [this, List.dropLast_concat]; simp
        simp only [hd]
        have := ih l' (y :: r') (by simp at hr ⊢; omega)
        rw [this]; simp

/-- `circular_swap2` is the chain `[i_0, i_{n-1}, …, i_1]`. -/
theorem circularSwap2_eq_chain (l : List α) (i0 : Nat) (tl : List Nat) (htl : tl ≠ []) :
    circularSwap2 l (i0 :: tl) = chainSwap l (i0 :: tl.reverse) := by
  obtain ⟨t', z, rfl⟩ : ∃ t' z, tl = t' ++ [z] := by
    rcases List.eq_nil_or_concat tl with h | ⟨t', z, h⟩
    · exact absurd h htl
    · exact ⟨t', z, by simpa using h⟩
  unfold circularSwap2
  have h1 : ¬ (i0 :: (t' ++ [z])).length ≤ 1 := by simp
  simp only [h1, if_false]
  have e1 : (i0 :: (t' ++ [z]))[(i0 :: (t' ++ [z])).length - 1]? = some z := by simp
  have e2 : (i0 :: (t' ++ [z]))[0]? = some i0 := by simp
  rw [e1, e2]
  simp only [List.reverse_append, List.reverse_cons, List.reverse_nil, List.nil_append, List.singleton_append, chainSwap]
  rw [swapAt_comm l z i0]
  cases swapAt l i0 z with
  | none => rfl
  | some l' =>
    simp only
    by_cases hn : (i0 :: (t' ++ [z])).length > 2
    · simp only [hn, if_true]
      have hrev : (i0 :: (t' ++ [z])) = (z :: (t'.reverse ++ [i0])).reverse := by simp
      rw [hrev, List.length_reverse]
      have := circularSwap2Loop_eq_chain ((z :: (t'.reverse ++ [i0])).length - 2) l' (z :: (t'.reverse ++ [i0]))
        (by simp)
      rw [this]
      congr 1
      simp
    · simp only [hn, if_false]
      have : t' = [] := by
        cases t' with
        | nil => rfl
        | cons a t => simp at hn
      subst this
      simp [chainSwap]

/-- Both circular swaps realise the cyclic closed form along the reversed index list. -/
theorem circularSwap_cyc (l : List α) (idx : List Nat) (hn : idx.Nodup) (h2 : 2 ≤ idx.length)
    (hr : ∀ i ∈ idx, i < l.length) :
    ∃ r, circularSwap l idx = some r ∧ Cyc l idx.reverse r := by
  cases hrev : idx.reverse with
  | nil => rw [List.reverse_eq_nil_iff] at hrev; subst hrev; simp at h2
  | cons x rest =>
    rw [circularSwap_eq_chain l x rest idx hrev h2]
    have hnd : (rest ++ [x]).Nodup := by
      have : (x :: rest).Nodup := hrev ▸ List.nodup_reverse.mpr hn
      exact (List.perm_append_singleton x rest).nodup_iff.mpr this
    have hmem : ∀ y ∈ rest ++ [x], y < l.length := by
      intro y hy
      apply hr
      have : y ∈ idx.reverse := by rw [hrev]; simpa [or_comm] using hy
      simpa using this
    obtain ⟨r, h1, hc⟩ := chain_cyc (rest ++ [x]) hnd (by simp) l hmem
    exact ⟨r, h1, hc.rotl⟩

theorem circularSwap2_cyc (l : List α) (idx : List Nat) (hn : idx.Nodup) (h2 : 2 ≤ idx.length)
    (hr : ∀ i ∈ idx, i < l.length) :
    ∃ r, circularSwap2 l idx = some r ∧ Cyc l idx.reverse r := by
  cases idx with
  | nil => simp at h2
  | cons i0 tl =>
    have htl : tl ≠ [] := by intro h; subst h; simp at h2
    rw [circularSwap2_eq_chain l i0 tl htl]
    have hnd : (i0 :: tl.reverse).Nodup := by
      have := List.nodup_cons.mp hn
      exact List.nodup_cons.mpr ⟨by simpa using this.1, List.nodup_reverse.mpr this.2⟩
    have hmem : ∀ y ∈ i0 :: tl.reverse, y < l.length := by
      intro y hy; apply hr; simpa using hy
    obtain ⟨r, h1, hc⟩ := chain_cyc (i0 :: tl.reverse) hnd (by simp) l hmem
    refine ⟨r, h1, ?_⟩
    have := hc.rotr
    simpa using this

/-- The cyclic closed form, read in terms of the index list: the element at `i_k` moves to `i_{(k+1) mod n}`. -/
theorem Cyc.moves (l : List α) (idx : List Nat) (r : List α) (h : Cyc l idx.reverse r)
    (k : Nat) (hk : k < idx.length) :
    r[idx[(k + 1) % idx.length]'(Nat.mod_lt _ (Nat.lt_of_le_of_lt (Nat.zero_le k) hk))]? = l[idx[k]]? := by
  by_cases hk1 : k + 1 < idx.length
  · have e : (k + 1) % idx.length = k + 1 := Nat.mod_eq_of_lt hk1
    simp only [e]
    refine h.step (idx.length - 2 - k) _ _ ?_ ?_
    · rw [List.getElem?_reverse (by omega)]
      have : idx.length - 1 - (idx.length - 2 - k) = k + 1 := by omega
      simp [this]
    · rw [List.getElem?_reverse (by omega)]
      have : idx.length - 1 - (idx.length - 2 - k + 1) = k := by omega
      simp [this, hk]
  · have e : k + 1 = idx.length := by omega
    have e2 : (k + 1) % idx.length = 0 := by rw [e]; exact Nat.mod_self _
    simp only [e2]
    refine h.wrap _ _ ?_ ?_
    · rw [List.getLast?_reverse, List.head?_eq_getElem?]; simp
    · rw [List.head?_reverse, List.getLast?_eq_getElem?]
      have : idx.length - 1 = k := by omega
      simp [this, hk]

/-! ### translocation: panics coincide -/


theorem translocate_invalid (l : List α) (s e i : Nat) (h : translocValid l.length s e i = false) :
    translocateSlice l s e i = none ∧ translocateSlice2 l s e i = none := by
  unfold translocateSlice translocateSlice2
  by_cases hc : translocContract l.length s e i = true
  · simp only [translocValid, hc, Bool.true_and, Bool.and_eq_false_iff, decide_eq_false_iff_not] at h
    simp only [hc, Bool.not_true, Bool.false_eq_true, if_false]
    constructor
    · by_cases h1 : e < s
      · simp [h1]
      · simp only [h1, if_false]
        have : ¬ (i + (e - s) ≤ l.length) := by omega
        simp [this]
    · by_cases h0 : i + e < s
      · simp [h0]
      · simp only [h0, if_false]
        by_cases h1 : e < s
        · by_cases h2 : i + e - s ≤ l.length <;> simp [h1, h2]
        · have : ¬ (i + e - s ≤ l.length) := by omega
          simp [this]
  · simp [hc]

/-! ### arithmetic crossover -/


section
variable {F : Type} [Add F] [Sub F] [Mul F] [OfNat F 1]

/-- closed form of `arithmetic_crossover` on parents and alphas of one length. -/
def axSpec (p1 p2 al : List F) : List F × List F :=
  ((al.zip (p1.zip p2)).map (fun x => x.1 * x.2.1 + (1 - x.1) * x.2.2),
   (al.zip (p1.zip p2)).map (fun x => x.1 * x.2.2 + (1 - x.1) * x.2.1))

theorem axLoop_spec (al : List F) : ∀ (pre1 pre2 as bs : List F),
    pre1.length = pre2.length → as.length = al.length → bs.length = al.length →
    axLoop pre1.length as bs al (pre1 ++ as, pre2 ++ bs) =
      (pre1 ++ (axSpec as bs al).1, pre2 ++ (axSpec as bs al).2) := by
  induction al with
  | nil =>
    intro pre1 pre2 as bs _ ha hb
    have : as = [] := List.length_eq_zero_iff.mp ha
    have : bs = [] := List.length_eq_zero_iff.mp hb
    subst_vars; simp [axLoop, axSpec]
  | cons m al ih =>
    intro pre1 pre2 as bs hp ha hb
    cases as with
    | nil => simp at ha
    | cons a as =>
    cases bs with
    | nil => simp at hb
    | cons b bs =>
      simp only [List.length_cons, Nat.add_right_cancel_iff] at ha hb
      simp only [axLoop]
      have s1 : (pre1 ++ a :: as).set pre1.length (m * a + (1 - m) * b) = (pre1 ++ [m * a + (1 - m) * b]) ++ as := by simp
      have s2 : (pre2 ++ b :: bs).set pre1.length (m * b + (1 - m) * a) = (pre2 ++ [m * b + (1 - m) * a]) ++ bs := by rw [hp]; simp
      rw [s1, s2]
      have := ih (pre1 ++ [m * a + (1 - m) * b]) (pre2 ++ [m * b + (1 - m) * a]) as bs (by simp [hp]) ha hb
      simp only [List.length_append, List.length_singleton] at this
      rw [this]; simp [axSpec]

theorem arithmeticCrossover_eq (p1 p2 al : List F) (h1 : p1.length = p2.length) (h2 : al.length = p1.length) :
    arithmeticCrossover p1 p2 al = some (axSpec p1 p2 al) := by
  unfold arithmeticCrossover
  have a1 : ¬ al.length < p1.length := by omega
  have a2 : ¬ al.length < p2.length := by omega
  simp only [a1, a2, if_false]
  have := axLoop_spec al [] [] p1 p2 rfl (by omega) (by omega)
  simpa using this
end

section
variable {F : Type} [Field F] [LinearOrder F] [IsStrictOrderedRing F]

theorem convex_between (a b t : F) (h0 : 0 ≤ t) (h1 : t ≤ 1) :
    min a b ≤ t * a + (1 - t) * b ∧ t * a + (1 - t) * b ≤ max a b := by
  rcases le_total a b with h | h
  · rw [min_eq_left h, max_eq_right h]
    constructor
    · nlinarith
    · nlinarith
  · rw [min_eq_right h, max_eq_left h]
    constructor
    · nlinarith
    · nlinarith

omit [LinearOrder F] [IsStrictOrderedRing F] in
theorem convex_sum (a b t : F) : (t * a + (1 - t) * b) + (t * b + (1 - t) * a) = a + b := by ring
end

/-! ### components -/


theorem gated_length (mask : List Bool) (vals sol : List α) : (gated mask vals sol).length = sol.length := by
  fun_induction gated mask vals sol <;> simp_all

theorem gated_all_false (mask : List Bool) (vals sol : List α) (h : mask.all (!·) = true) :
    gated mask vals sol = sol := by
  fun_induction gated mask vals sol <;> simp_all

theorem gated_positionwise (mask : List Bool) (vals sol : List α) (i : Nat) :
    (gated mask vals sol)[i]? = sol[i]? ∨ (gated mask vals sol)[i]? = vals[i]? := by
  fun_induction gated mask vals sol generalizing i with
  | case1 m ms v vs x xs ih =>
    cases i with
    | zero => cases m <;> simp
    | succ i => simpa using ih i
  | case2 => left; rfl

theorem reverseSlice_perm (sol : List α) (s e : Nat) (h1 : s ≤ e) (h2 : e ≤ sol.length) :
    ∃ r, reverseSlice sol s e = some r ∧ r.Perm sol := by
  unfold reverseSlice
  have : ¬ (e < s ∨ sol.length < e) := by omega
  simp only [this, if_false]
  refine ⟨_, rfl, ?_⟩
  have hl : sol = sol.take s ++ ((sol.drop s).take (e - s) ++ sol.drop e) := by
    apply List.ext_getElem?
    intro n
    simp only [List.getElem?_append, List.getElem?_take, List.getElem?_drop, List.length_take, List.length_drop]
    grind
  conv => rhs; rw [hl]
  rw [List.append_assoc]
  exact List.Perm.append_left _ (List.Perm.append_right _ (List.reverse_perm _))

theorem permuteBy_map_some (σ : List Nat) (l r : List α) (h : permuteBy σ l = some r) :
    r.map some = σ.map (l[·]?) := by
  unfold permuteBy at h
  induction σ generalizing r with
  | nil => simp at h; simp [h]
  | cons a t ih =>
    simp only [List.mapM_cons] at h
    cases ha : l[a]? with
    | none => simp [ha] at h
    | some b =>
      cases ht : List.mapM (fun x => l[x]?) t with
      | none => simp [ha, ht] at h
      | some r' =>
        simp [ha, ht] at h
        subst h
        simp [ha, ih r' ht]

theorem map_some_eq_range (l : List α) : l.map some = (List.range l.length).map (l[·]?) := by
  apply List.ext_getElem?
  intro i
  simp only [List.getElem?_map, List.getElem?_range]
  by_cases hi : i < l.length <;> simp [hi]

theorem permuteBy_perm (σ : List Nat) (l r : List α) (h : permuteBy σ l = some r)
    (hσ : σ.Perm (List.range l.length)) : r.Perm l := by
  have h3 : (r.map some).Perm (l.map some) := by
    rw [permuteBy_map_some σ l r h, map_some_eq_range l]; exact hσ.map _
  exact (List.map_perm_map_iff (fun a b hab => Option.some.inj hab)).mp h3

theorem permuteBy_id (l r : List α) (h : permuteBy (List.range l.length) l = some r) : r = l := by
  have h1 := permuteBy_map_some _ l r h
  rw [← map_some_eq_range l] at h1
  exact (List.map_injective_iff.mpr (fun a b hab => Option.some.inj hab)) h1

theorem permuteBy_some (σ : List Nat) (l : List α) (h : ∀ i ∈ σ, i < l.length) : ∃ r, permuteBy σ l = some r := by
  unfold permuteBy
  induction σ with
  | nil => exact ⟨[], rfl⟩
  | cons a t ih =>
    obtain ⟨r, hr⟩ := ih (fun i hi => h i (by simp [hi]))
    have ha : a < l.length := h a (by simp)
    exact ⟨l[a] :: r, by simp [List.mapM_cons, List.getElem?_eq_getElem ha, hr]⟩

theorem frame_length {β : Type} : ∀ (ps : List β) (rs : List (OptPair β)), rs.length = ps.length / 2 →
    (frame ps rs).length = 2 * countNone rs + countSingle rs + 2 * countBoth rs + ps.length % 2
  | [], [], _ => by simp [frame, countNone, countSingle, countBoth]
  | [], _ :: _, h => by simp at h
  | [_], [], _ => by simp [frame, countNone, countSingle, countBoth]
  | [_], _ :: _, h => by simp at h
  | _ :: _ :: rest, [], h => by simp at h; omega
  | p1 :: p2 :: rest, r :: rs, h => by
    have ih := frame_length rest rs (by simp at h; omega)
    cases r <;> simp [frame, ih, countNone, countSingle, countBoth] <;> omega


section
variable {F : Type} [Add F] [Sub F] [Mul F]

theorem deAdd_length (f : F) (xs as bs : List F) : (deAdd f xs as bs).length = xs.length := by
  fun_induction deAdd f xs as bs <;> simp_all

theorem dePairs_length (f : F) (base : List F) (rest : List (List F)) : (dePairs f base rest).length = base.length := by
  fun_induction dePairs f base rest <;> simp_all [deAdd_length]

theorem deChunks_spec (f : F) (size : Nat) (hs : 0 < size) : ∀ (fuel : Nat) (pop : List (List F)),
    pop.length / size ≤ fuel →
    (deChunks f size fuel pop).length = pop.length / size ∧
    ∀ m ∈ deChunks f size fuel pop, ∃ b ∈ pop, m.length = b.length := by
  intro fuel
  induction fuel with
  | zero =>
    intro pop h
    have : pop.length / size = 0 := Nat.le_zero.mp h
    simp [deChunks, this]
  | succ fuel ih =>
    intro pop h
    simp only [deChunks]
    by_cases hlt : pop.length < size
    · have : pop.length / size = 0 := Nat.div_eq_of_lt hlt
      simp [hlt, this]
    · have hne : ¬ (pop.length < size ∨ size = 0) := by omega
      simp only [hne, if_false]
      have hdiv : pop.length / size = (pop.length - size) / size + 1 := by
        rw [Nat.div_eq pop.length size]; simp [hs, Nat.le_of_not_lt hlt]
      cases htake : pop.take size with
      | nil =>
        have := congrArg List.length htake
        rw [List.length_take] at this
        simp only [List.length_nil] at this
        omega
      | cons base remainder =>
        simp only
        have hdrop : (pop.drop size).length / size ≤ fuel := by simp; omega
        obtain ⟨ih1, ih2⟩ := ih (pop.drop size) hdrop
        constructor
        · simp [ih1]; omega
        · intro m hm
          simp only [List.mem_cons] at hm
          rcases hm with rfl | hm
          · refine ⟨base, ?_, dePairs_length f base remainder⟩
            have : base ∈ pop.take size := by rw [htake]; simp
            exact List.mem_of_mem_take this
          · obtain ⟨b, hb, hl⟩ := ih2 m hm
            exact ⟨b, List.mem_of_mem_drop hb, hl⟩

theorem deMutation_format (y : Nat) (f : F) (pop : List (List F)) :
    (deMutation y f pop = .err ↔ pop.length % (y * 2 + 1) ≠ 0) ∧
    (∀ r, deMutation y f pop = .ok r →
      pop.length % (y * 2 + 1) = 0 ∧ r.length = pop.length / (y * 2 + 1) ∧
      ∀ m ∈ r, ∃ b ∈ pop, m.length = b.length) := by
  unfold deMutation
  simp only
  by_cases h : pop.length % (y * 2 + 1) = 0
  · simp only [h, ne_eq, not_true_eq_false, if_false]
    refine ⟨by simp, ?_⟩
    intro r hr
    injection hr with hr
    subst hr
    have := deChunks_spec f (y * 2 + 1) (by omega) pop.length pop (Nat.div_le_self _ _)
    exact ⟨trivial, this.1, this.2⟩
  · simp only [ne_eq, h, not_false_eq_true, if_true]
    refine ⟨by simp, ?_⟩
    intro r hr; cases hr
end

theorem deCross_positionwise (dim : Nat) (mask : List Bool) (m b : List α) (h1 : dim ≤ m.length) (h2 : dim ≤ b.length) :
    ∃ r, deCross dim mask m b = some r ∧ r.length = m.length ∧
      ∀ i : Nat, r[i]? = m[i]? ∨ r[i]? = b[i]? := by
  unfold deCross
  have : ¬ (m.length < dim ∨ b.length < dim) := by omega
  simp only [this, if_false]
  exact ⟨_, rfl, gated_length _ _ _, fun i => gated_positionwise mask b m i⟩


/-- A frame in which no pair was crossed returns the parents. -/
theorem frame_none_id {β : Type} : ∀ (ps : List β) (rs : List (OptPair β)), (∀ r ∈ rs, r = OptPair.none) →
    frame ps rs = ps
  | [], rs, _ => by cases rs <;> rfl
  | [_], rs, _ => by cases rs <;> rfl
  | _ :: _ :: _, [], _ => rfl
  | p1 :: p2 :: rest, r :: rs, h => by
    have hr : r = OptPair.none := h r (by simp)
    subst hr
    simp only [frame]
    rw [frame_none_id rest rs (fun r hr => h r (by simp [hr]))]

/-! ### legal witnesses of the permutation mutations -/


theorem nodupNat_iff (l : List Nat) : nodupNat l = true ↔ l.Nodup := by
  induction l with
  | nil => simp [nodupNat]
  | cons a t ih => simp [nodupNat, ih]

theorem allBelow_iff (l : List Nat) (n : Nat) : allBelow l n = true ↔ ∀ i ∈ l, i < n := by
  simp [allBelow]

theorem swapMutation_legal (k : Nat) (sol : List α) (w : List Nat) (hk : 2 ≤ k) (hk2 : k ≤ sol.length)
    (h : swapLegal k sol.length w = true) : ∃ r, swapMutation k sol w = .ok r ∧ r.Perm sol := by
  simp only [swapLegal, Bool.and_eq_true, beq_iff_eq, nodupNat_iff, allBelow_iff] at h
  obtain ⟨⟨hl, hn⟩, hr⟩ := h
  obtain ⟨r, e, _⟩ := circularSwap_cyc sol w hn (by omega) hr
  refine ⟨r, ?_, circularSwap_perm sol r w e⟩
  unfold swapMutation
  have : ¬ sol.length < k := by omega
  simp [this, e]

theorem inversion_legal (sol : List α) (w : Option (Nat × Nat)) (h : inversionLegal sol.length w = true) :
    ∃ r, inversionMutation sol w = some r ∧ r.Perm sol := by
  cases w with
  | none => exact ⟨sol, rfl, List.Perm.refl _⟩
  | some se =>
    obtain ⟨s, e⟩ := se
    simp only [inversionLegal, Bool.and_eq_true, decide_eq_true_eq] at h
    exact reverseSlice_perm sol s e (by omega) (by omega)

theorem insertion_legal (sol : List α) (w : Nat × Nat) (h : insertionLegal sol.length w = true) :
    ∃ r, insertionMutation sol w = some r ∧ r.Perm sol := by
  simp only [insertionLegal, Bool.and_eq_true, decide_eq_true_eq] at h
  have hv : translocValid sol.length w.1 (w.1 + 1) w.2 = true := by
    simp [translocValid, translocContract]; omega
  exact ⟨_, translocateSlice_eq sol _ _ _ hv, translocSpec_perm sol _ _ _ (by omega)⟩

theorem translocation_legal (sol : List α) (w : Option (Nat × Nat × Nat)) (h : translocationLegal sol.length w = true) :
    ∃ r, translocationMutation sol w = some r ∧ r.Perm sol := by
  cases w with
  | none => exact ⟨sol, rfl, List.Perm.refl _⟩
  | some sei =>
    obtain ⟨s, e, i⟩ := sei
    simp only [translocationLegal, Bool.and_eq_true, decide_eq_true_eq] at h
    have hv : translocValid sol.length s e i = true := by
      simp [translocValid, translocContract]; omega
    exact ⟨_, translocateSlice_eq sol _ _ _ hv, translocSpec_perm sol _ _ _ (by omega)⟩

theorem scramble_legal (rmZero : Bool) (sol : List α) (σ : List Nat) (h : scrambleLegal rmZero sol.length σ = true) :
    ∃ r, scrambleMutation sol σ = some r ∧ r.Perm sol ∧ (rmZero = true → r = sol) := by
  simp only [scrambleLegal, Bool.and_eq_true, Bool.or_eq_true, Bool.not_eq_true', beq_iff_eq] at h
  obtain ⟨hp, hz⟩ := h
  have hperm : σ.Perm (List.range sol.length) := List.isPerm_iff.mp hp
  have hmem : ∀ i ∈ σ, i < sol.length := by
    intro i hi; simpa using hperm.mem_iff.mp hi
  obtain ⟨r, hr⟩ := permuteBy_some σ sol hmem
  refine ⟨r, hr, permuteBy_perm σ sol r hr hperm, ?_⟩
  intro hz'
  rcases hz with hz | hz
  · rw [hz'] at hz; cases hz
  · subst hz
    exact permuteBy_id sol r hr

/-! ### the executable predicates of step O hold on the model -/

theorem translocHolds_model (l : List Nat) (s e i : Nat) :
    translocHolds l s e i (translocateSlice l s e i) (translocateSlice2 l s e i) = true := by
  unfold translocHolds
  cases h : translocValid l.length s e i with
  | false => simp
  | true =>
    rw [translocateSlice_eq l s e i h, translocateSlice2_eq l s e i h]
    simp only [if_true, beq_self_eq_true, Bool.true_and, Bool.and_true]
    have h4 : s ≤ e := by
      simp only [translocValid, Bool.and_eq_true, decide_eq_true_eq] at h; exact h.1.2
    exact List.isPerm_iff.mpr (translocSpec_perm l s e i h4)

theorem cswapSpec_eq (l : List Nat) (idx : List Nat) (r : List Nat) (_hn : idx.Nodup) (h2 : 2 ≤ idx.length)
    (hc : Cyc l idx.reverse r) : r = cswapSpec l idx := by
  apply List.ext_getElem?
  intro p
  unfold cswapSpec
  simp only [List.getElem?_map, List.getElem?_range]
  by_cases hp : p < l.length
  · simp only [hp, List.getElem?_range, Option.map_some]
    by_cases hm : p ∈ idx
    · have hcon : idx.contains p = true := by simpa using hm
      simp only [hcon, if_true]
      -- p = idx[k]
      have hk : idx.idxOf p < idx.length := List.idxOf_lt_length_of_mem hm
      set k := idx.idxOf p with hkdef
      have hpk : idx[k] = p := List.getElem_idxOf hk
      set k' := (k + idx.length - 1) % idx.length with hk'def
      have hk'lt : k' < idx.length := Nat.mod_lt _ (by omega)
      have hmod : (k' + 1) % idx.length = k := by
        by_cases h0 : k = 0
        · have : k' = idx.length - 1 := by
            rw [hk'def, h0]; simp
          rw [this, h0]
          have : idx.length - 1 + 1 = idx.length := by omega
          rw [this]; exact Nat.mod_self _
        · have : k' = k - 1 := by
            rw [hk'def]
            have : k + idx.length - 1 = (k - 1) + idx.length := by omega
            rw [this, Nat.add_mod_right]; exact Nat.mod_eq_of_lt (by omega)
          rw [this]
          have : k - 1 + 1 = k := by omega
          rw [this]; exact Nat.mod_eq_of_lt hk
      have hmv := Cyc.moves l idx r hc k' hk'lt
      simp only [hmod] at hmv
      rw [hpk] at hmv
      rw [hmv]
      have hin : idx[k'] < l.length := by
        -- the right-hand side is `some`, because r[p]? is (p < r.length)
        have : p < r.length := by rw [hc.len]; exact hp
        rw [List.getElem?_eq_getElem this] at hmv
        exact (List.getElem?_eq_some_iff.mp hmv.symm).1
      rw [List.getElem?_eq_getElem hin]
      simp [getElem!_pos, hk'lt, hin]
    · have hcon : idx.contains p = false := by simpa using hm
      simp only [hcon, Bool.false_eq_true, if_false]
      rw [hc.off p (by simpa using hm), List.getElem?_eq_getElem hp]
      simp [getElem!_pos, hp]
  · have : l.length ≤ p := Nat.le_of_not_lt hp
    simp [hp, List.getElem?_eq_none, hc.len, this]

theorem cswapHolds_model (l : List Nat) (idx : List Nat) :
    cswapHolds l idx (circularSwap l idx) (circularSwap2 l idx) = true := by
  unfold cswapHolds
  cases h : cswapValid l.length idx with
  | false => simp
  | true =>
    simp only [cswapValid, Bool.and_eq_true, decide_eq_true_eq, nodupNat_iff, allBelow_iff] at h
    obtain ⟨⟨h2, hn⟩, hr⟩ := h
    obtain ⟨r1, e1, c1⟩ := circularSwap_cyc l idx hn h2 hr
    obtain ⟨r2, e2, c2⟩ := circularSwap2_cyc l idx hn h2 hr
    have e12 : r1 = r2 := Cyc.unique l _ r1 r2 c1 c2
    subst e12
    rw [e1, e2]
    simp only [if_true, beq_self_eq_true, Bool.true_and, Bool.and_eq_true, beq_iff_eq]
    exact ⟨List.isPerm_iff.mpr (circularSwap_perm l r1 idx e1), cswapSpec_eq l idx r1 hn h2 c1⟩

end MahfModel.Variation
