/- The analyses of `Model/Templates*.lean` on the templates as functions of their parameters
(`Model/TemplatesParam.lean`): closed forms for ALL parameter values. -/
import MahfModel.Proofs.C16Size
import MahfModel.Model.TemplatesParam
import MahfModel.Model.TemplatesLoops
namespace MahfModel.Tpl
set_option linter.unusedSimpArgs false

/-! ### The invariant search on a stack that is already invariant, or becomes so after one hull -/

theorem findInv_fix (f : AbsStack → Option AbsStack) (n p : Nat) (cur out : AbsStack)
    (hf : f cur = some out) (hj : stackJoin cur out = some cur) : findInv f n p cur = cur := by
  cases n with
  | zero => rfl
  | succ n => simp [findInv, hf, hj]

theorem findInv_one (f : AbsStack → Option AbsStack) (n p : Nat) (cur out nxt out2 : AbsStack)
    (hf : f cur = some out) (hj : stackJoin cur out = some nxt) (hne : nxt ≠ cur)
    (hf2 : f nxt = some out2) (hj2 : stackJoin nxt out2 = some nxt) :
    findInv f (n + 2) (p + 1) cur = nxt := by
  simp [findInv, hf, hj, hne, hf2, hj2]

theorem sizeOf_loop_fix (B : Itv) (d : Nat) (body : SComp) (st out : AbsStack)
    (hb : Tpl.sizeOf B (d + 1) body st = some out) (hj : stackJoin st out = some st)
    (h1 : stackLe st st = true) (h2 : stackLe out st = true) (h3 : (d != 0 || topWithin B out) = true) :
    Tpl.sizeOf B d (.loop body) st = some st := by
  have hf := findInv_fix (Tpl.sizeOf B (d + 1) body) 8 3 st out hb hj
  simp only [Tpl.sizeOf, hf, hb, h1, h2, h3, Bool.and_self, if_true]

theorem sizeOf_loop_one (B : Itv) (d : Nat) (body : SComp) (st out inv out2 : AbsStack)
    (hb : Tpl.sizeOf B (d + 1) body st = some out) (hj : stackJoin st out = some inv) (hne : inv ≠ st)
    (hb2 : Tpl.sizeOf B (d + 1) body inv = some out2) (hj2 : stackJoin inv out2 = some inv)
    (h1 : stackLe st inv = true) (h2 : stackLe out2 inv = true) (h3 : (d != 0 || topWithin B out2) = true) :
    Tpl.sizeOf B d (.loop body) st = some inv := by
  have hf := findInv_one (Tpl.sizeOf B (d + 1) body) 6 2 st out inv out2 hb hj hne hb2 hj2
  simp only [Tpl.sizeOf, hf, hb2, h1, h2, h3, Bool.and_self, if_true]

/-- singleton stacks of exact intervals -/
theorem exact_facts (n : Nat) :
    stackJoin [⟨n, some n⟩] [⟨n, some n⟩] = some [⟨n, some n⟩] ∧ stackLe [⟨n, some n⟩] [⟨n, some n⟩] = true ∧
    topWithin ⟨n, some n⟩ [⟨n, some n⟩] = true := by
  simp [stackJoin, Itv.join, Itv.hiMax, stackLe, Itv.le, Itv.hiLe, topWithin]

/-- A loop whose body maps the singleton stack `[n, n]` to itself, judged against the bound `[n, n]`. -/
theorem loop_exact (d n : Nat) (body : SComp)
    (hb : Tpl.sizeOf ⟨n, some n⟩ (d + 1) body [⟨n, some n⟩] = some [⟨n, some n⟩]) :
    Tpl.sizeOf ⟨n, some n⟩ d (.loop body) [⟨n, some n⟩] = some [⟨n, some n⟩] :=
  sizeOf_loop_fix _ d body _ _ hb (exact_facts n).1 (exact_facts n).2.1 (exact_facts n).2.1
    (by simp [(exact_facts n).2.2])

/-! ### Per template -/

/-- The simp set that evaluates the analysis on a concrete component sequence. -/
macro "size_eval" : tactic =>
  `(tactic| simp [sq, SComps.ofList, l0, evalUpd, Tpl.sizeOf, sizesOf, sizeStep, opOf, astep, Itv.exact, stackJoin,
      Itv.join, Itv.hiMax, Itv.hiMin, Itv.hiAdd, Itv.hiLe, Itv.mulC, Itv.divC, Itv.add, Itv.capC, Itv.meet, Itv.half])

/-- Finishes `sizeWithin (sq (prefix ++ [sq [… loop …]])) lo hi` once the loop is known (`hl`). -/
macro "size_finish" hl:ident : tactic =>
  `(tactic| (generalize SComp.loop _ = L at $hl:ident ⊢
             simp [sizeWithin, Tpl.sizeOf, sizesOf, sizeStep, opOf, astep, Itv.exact, $hl:ident]))

theorem real_ga_size_all (n ts : Nat) :
    sizeWithin (gaS .RandomSpread .NormalMutation .Saturation n ts) n (some n) = true := by
  have hl := loop_exact 0 n (sq ([.leaf .Tournament n ts, .leaf .UniformCrossover 1 0,
      .branch (sq [l0 .NormalMutation]) (sq []), l0 .Saturation] ++ evalUpd ++ [l0 .Generational, l0 .Logger]))
    (by size_eval)
  simp only [gaS, sq, SComps.ofList, List.cons_append, List.nil_append, evalUpd, l0] at hl ⊢
  size_finish hl

theorem binary_ga_size_all (n ts : Nat) :
    sizeWithin (gaS .RandomBitstring .BitFlipMutation .Noop n ts) n (some n) = true := by
  have hl := loop_exact 0 n (sq ([.leaf .Tournament n ts, .leaf .UniformCrossover 1 0,
      .branch (sq [l0 .BitFlipMutation]) (sq []), l0 .Noop] ++ evalUpd ++ [l0 .Generational, l0 .Logger]))
    (by size_eval)
  simp only [gaS, sq, SComps.ofList, List.cons_append, List.nil_append, evalUpd, l0] at hl ⊢
  size_finish hl

theorem real_es_size_all (mu lam : Nat) : sizeWithin (esS mu lam) mu (some mu) = true := by
  have hl := loop_exact 0 mu (sq ([.leaf .FullyRandom lam 0, l0 .NormalMutation, l0 .Saturation] ++ evalUpd ++
      [.leaf .MuPlusLambda mu 0, l0 .Logger]))
    (by size_eval)
  simp only [esS, sq, SComps.ofList, List.cons_append, List.nil_append, evalUpd, l0] at hl ⊢
  size_finish hl

theorem real_de_size_all (n y : Nat) : sizeWithin (deS n y) n (some n) = true := by
  have hl := loop_exact 0 n (sq ([.leaf .DEBest y 0, .leaf .DEMutation y 0, l0 .DEBinomialCrossover, l0 .Saturation]
      ++ evalUpd ++ [l0 .KeepBetterAtIndex, l0 .Logger]))
    (by size_eval)
  simp only [deS, sq, SComps.ofList, List.cons_append, List.nil_append, evalUpd, l0] at hl ⊢
  size_finish hl

theorem real_pso_size_all (n : Nat) : sizeWithin (psoS n) n (some n) = true := by
  have hl := loop_exact 0 n (sq ([l0 .ParticleVelocitiesUpdate, l0 .Saturation] ++ evalUpd ++
      [l0 .Linear, sq [l0 .PersonalBestParticlesUpdate, l0 .GlobalBestParticleUpdate], l0 .Logger]))
    (by size_eval)
  simp only [psoS, sq, SComps.ofList, List.cons_append, List.nil_append, evalUpd, l0] at hl ⊢
  size_finish hl

theorem real_sa_size_all : sizeWithin (saS .RandomSpread .NormalMutation .Saturation) 1 (some 1) = true := by
  have hl := loop_exact 0 1 (sq ([l0 .All, l0 .NormalMutation, l0 .Saturation] ++ evalUpd ++ [l0 .GeometricCooling, l0 .ExponentialAnnealingAcceptance, l0 .Logger]))
    (by size_eval)
  simp only [saS, lsLoop, sq, SComps.ofList, List.cons_append, List.nil_append, evalUpd, l0] at hl ⊢
  size_finish hl

theorem permutation_sa_size_all : sizeWithin (saS .RandomPermutation .SwapMutation .Noop) 1 (some 1) = true := by
  have hl := loop_exact 0 1 (sq ([l0 .All, l0 .SwapMutation, l0 .Noop] ++ evalUpd ++ [l0 .GeometricCooling, l0 .ExponentialAnnealingAcceptance, l0 .Logger]))
    (by size_eval)
  simp only [saS, lsLoop, sq, SComps.ofList, List.cons_append, List.nil_append, evalUpd, l0] at hl ⊢
  size_finish hl

theorem real_ls_size_all (k : Nat) : sizeWithin (realLsS k) 1 (some 1) = true := by
  have hl := loop_exact 0 1 (sq ([.leaf .CloneSingle k 0, l0 .NormalMutation, l0 .Saturation] ++ evalUpd ++ [.leaf .MuPlusLambda 1 0, l0 .Logger]))
    (by size_eval)
  simp only [realLsS, lsLoop, sq, SComps.ofList, List.cons_append, List.nil_append, evalUpd, l0] at hl ⊢
  size_finish hl

theorem permutation_ls_size_all (k : Nat) : sizeWithin (permLsS k) 1 (some 1) = true := by
  have hl := loop_exact 0 1 (sq ([.leaf .CloneSingle k 0, l0 .SwapMutation, l0 .Noop] ++ evalUpd ++ [.leaf .MuPlusLambda 1 0, l0 .Logger]))
    (by size_eval)
  simp only [permLsS, lsLoop, sq, SComps.ofList, List.cons_append, List.nil_append, evalUpd, l0] at hl ⊢
  size_finish hl

theorem real_rs_size_all : sizeWithin (rsS .RandomSpread .PartialRandomSpread) 1 (some 1) = true := by
  have hl := loop_exact 0 1 (sq ([l0 .All, l0 .PartialRandomSpread] ++ evalUpd ++ [.leaf .MuPlusLambda 1 0, l0 .Logger]))
    (by size_eval)
  simp only [rsS, lsLoop, sq, SComps.ofList, List.cons_append, List.nil_append, evalUpd, l0] at hl ⊢
  size_finish hl

theorem permutation_rs_size_all : sizeWithin (rsS .RandomPermutation .ScrambleMutation) 1 (some 1) = true := by
  have hl := loop_exact 0 1 (sq ([l0 .All, l0 .ScrambleMutation] ++ evalUpd ++ [.leaf .MuPlusLambda 1 0, l0 .Logger]))
    (by size_eval)
  simp only [rsS, lsLoop, sq, SComps.ofList, List.cons_append, List.nil_append, evalUpd, l0] at hl ⊢
  size_finish hl

theorem real_rw_size_all : sizeWithin (rwS .RandomSpread .NormalMutation .Saturation) 1 (some 1) = true := by
  have hl := loop_exact 0 1 (sq ([l0 .All, l0 .NormalMutation, l0 .Saturation] ++ evalUpd ++ [l0 .Generational, l0 .Logger]))
    (by size_eval)
  simp only [rwS, lsLoop, sq, SComps.ofList, List.cons_append, List.nil_append, evalUpd, l0] at hl ⊢
  size_finish hl

theorem permutation_rw_size_all : sizeWithin (rwS .RandomPermutation .SwapMutation .Noop) 1 (some 1) = true := by
  have hl := loop_exact 0 1 (sq ([l0 .All, l0 .SwapMutation, l0 .Noop] ++ evalUpd ++ [l0 .Generational, l0 .Logger]))
    (by size_eval)
  simp only [rwS, lsLoop, sq, SComps.ofList, List.cons_append, List.nil_append, evalUpd, l0] at hl ⊢
  size_finish hl

theorem real_fa_size_all (n : Nat) (cool : Bool) : sizeWithin (faS n cool) n (some n) = true := by
  cases cool
  · have hl := loop_exact 0 n (sq ([l0 .FireflyPositionsUpdate, l0 .Saturation] ++ evalUpd ++ [sq [], l0 .Logger]))
      (by size_eval)
    simp only [faS, sq, SComps.ofList, List.cons_append, List.nil_append, evalUpd, l0, Bool.false_eq_true, ↓reduceIte] at hl ⊢
    size_finish hl
  · have hl := loop_exact 0 n (sq ([l0 .FireflyPositionsUpdate, l0 .Saturation] ++ evalUpd ++
        [sq [l0 .GeometricCooling], l0 .Logger]))
      (by size_eval)
    simp only [faS, sq, SComps.ofList, List.cons_append, List.nil_append, evalUpd, l0, Bool.false_eq_true, ↓reduceIte] at hl ⊢
    size_finish hl

theorem real_bh_size_all (n : Nat) : sizeWithin (bhS n) n (some n) = true := by
  have hl := loop_exact 0 n (sq ([l0 .BlackHoleParticlesUpdate, l0 .Saturation] ++ evalUpd ++ [l0 .EventHorizon] ++ evalUpd ++ [l0 .Logger]))
    (by size_eval)
  simp only [bhS, lsLoop, sq, SComps.ofList, List.cons_append, List.nil_append, evalUpd, l0] at hl ⊢
  size_finish hl


/-- The scoped local-search loop of ILS sits on a stack of two singletons (the working copy and the current
solution) and is nested in the outer loop (`d ≠ 0`: no bound to meet at its pass boundaries). -/
theorem ils_inner (B : Itv) (d k : Nat) (gen con : LeafKind)
    (hb : Tpl.sizeOf B (d + 2) (sq ([.leaf .CloneSingle k 0, l0 gen, l0 con] ++ evalUpd ++
      [.leaf .MuPlusLambda 1 0, l0 .Logger])) [⟨1, some 1⟩, ⟨1, some 1⟩] = some [⟨1, some 1⟩, ⟨1, some 1⟩]) :
    Tpl.sizeOf B (d + 1) (lsLoop gen con k) [⟨1, some 1⟩, ⟨1, some 1⟩] = some [⟨1, some 1⟩, ⟨1, some 1⟩] :=
  sizeOf_loop_fix B (d + 1) _ _ _ hb (by simp [stackJoin, Itv.join, Itv.hiMax])
    (by simp [stackLe, Itv.le, Itv.hiLe]) (by simp [stackLe, Itv.le, Itv.hiLe]) (by simp)

theorem real_ils_size_all (k : Nat) :
    sizeWithin (ilsS .RandomSpread .PartialRandomSpread .NormalMutation .Saturation k) 1 (some 1) = true := by
  have hin := ils_inner ⟨1, some 1⟩ 0 k .NormalMutation .Saturation (by size_eval)
  have hl := loop_exact 0 1 (sq ([l0 .PartialRandomSpread] ++ evalUpd ++ [l0 .All,
      .scope (sq [sq [lsLoop .NormalMutation .Saturation k]]), l0 .BestIndividualUpdate, .leaf .MuPlusLambda 1 0, l0 .Logger]))
    (by
      generalize lsLoop .NormalMutation .Saturation k = L at hin ⊢
      simp [sq, SComps.ofList, l0, evalUpd, Tpl.sizeOf, sizesOf, sizeStep, opOf, astep, Itv.exact, Itv.mulC, hin,
        Itv.add, Itv.capC, Itv.hiAdd])
  simp only [ilsS, sq, SComps.ofList, List.cons_append, List.nil_append, evalUpd, l0] at hl ⊢
  size_finish hl

theorem permutation_ils_size_all (k : Nat) :
    sizeWithin (ilsS .RandomPermutation .ScrambleMutation .SwapMutation .Noop k) 1 (some 1) = true := by
  have hin := ils_inner ⟨1, some 1⟩ 0 k .SwapMutation .Noop (by size_eval)
  have hl := loop_exact 0 1 (sq ([l0 .ScrambleMutation] ++ evalUpd ++ [l0 .All,
      .scope (sq [sq [lsLoop .SwapMutation .Noop k]]), l0 .BestIndividualUpdate, .leaf .MuPlusLambda 1 0, l0 .Logger]))
    (by
      generalize lsLoop .SwapMutation .Noop k = L at hin ⊢
      simp [sq, SComps.ofList, l0, evalUpd, Tpl.sizeOf, sizesOf, sizeStep, opOf, astep, Itv.exact, Itv.mulC, hin,
        Itv.add, Itv.capC, Itv.hiAdd])
  simp only [ilsS, sq, SComps.ofList, List.cons_append, List.nil_append, evalUpd, l0] at hl ⊢
  size_finish hl

/-- Ant colony: the loop is entered on the EMPTY population `Empty` pushed; the generation replaces it by
`ants + 1` routes.  The invariant is the hull `[0, ants + 1]`, found after one round. -/
theorem aco_size_all (upd : LeafKind) (hu : opOf upd 0 0 = some (.keep 1)) (ants : Nat) :
    sizeWithin (acoS upd ants) (ants + 1) (some (ants + 1)) = true := by
  have hbody : ∀ st : AbsStack, st.length = 1 →
      Tpl.sizeOf ⟨ants + 1, some (ants + 1)⟩ 1 (sq ([.leaf .AcoGeneration ants 0] ++ evalUpd ++ [l0 upd, l0 .Logger])) st
        = some [⟨ants + 1, some (ants + 1)⟩] := by
    intro st hst
    match st, hst with
    | [x], _ => simp [sq, SComps.ofList, l0, evalUpd, Tpl.sizeOf, sizesOf, sizeStep, hu, astep, Itv.exact]; simp [opOf, astep, Itv.exact]
  have hl := sizeOf_loop_one ⟨ants + 1, some (ants + 1)⟩ 0 _ [⟨0, some 0⟩] [⟨ants + 1, some (ants + 1)⟩]
    [⟨0, some (ants + 1)⟩] [⟨ants + 1, some (ants + 1)⟩] (hbody _ rfl)
    (by simp [stackJoin, Itv.join, Itv.hiMax]) (by simp) (hbody _ rfl)
    (by simp [stackJoin, Itv.join, Itv.hiMax]) (by simp [stackLe, Itv.le, Itv.hiLe]) (by simp [stackLe, Itv.le, Itv.hiLe])
    (by simp [topWithin, Itv.le, Itv.hiLe])
  simp only [acoS, sq, SComps.ofList, List.cons_append, List.nil_append, evalUpd, l0] at hl ⊢
  size_finish hl

/-! ### Stack balance and loop counters do not depend on the parameters at all -/

macro "shape_eval" : tactic =>
  `(tactic| simp [gaS, esS, deS, psoS, saS, lsLoop, realLsS, permLsS, ilsS, rsS, rwS, iwoS, faS, bhS, croReaction, croS, acoS,
      sq, SComps.ofList, l0, evalUpd, SComp.erase, SComps.erases, balanced, effect, effects, leafEffect,
      SComp.toL, SComps.toLs, itersExact, directLoops, directLoopsL, scopesOk, scopesOkL])

theorem tpl_balanced_all (name : Tid) (ps : List Nat) (cool : Bool) (t : SComp)
    (h : tplT name ps cool = some t) : balanced t.erase = true := by
  unfold tplT at h
  split at h
  all_goals first
    | (injection h with h; subst h; cases cool <;> shape_eval)
    | cases h

theorem tpl_iters_all (name : Tid) (ps : List Nat) (cool : Bool) (t : SComp) (c ci : LCond)
    (h : tplT name ps cool = some t) : itersExact (t.toL c ci) = true := by
  unfold tplT at h
  split at h
  all_goals first
    | (injection h with h; subst h; cases cool <;> shape_eval)
    | cases h

theorem ant_system_size_all (ants : Nat) :
    sizeWithin (acoS .AsPheromoneUpdate ants) (ants + 1) (some (ants + 1)) = true := aco_size_all _ rfl ants
theorem max_min_ant_system_size_all (ants : Nat) :
    sizeWithin (acoS .MinMaxPheromoneUpdate ants) (ants + 1) (some (ants + 1)) = true := aco_size_all _ rfl ants

/-- All templates but the two whose loop invariant needs widening (invasive weed, chemical reaction): the
prescribed bound holds for every value of every parameter. -/
theorem tpl_size_all (name : Tid) (ps : List Nat) (cool : Bool) (t : SComp) (lo : Nat) (hi : Option Nat)
    (hn1 : name ≠ .real_iwo) (hn2 : name ≠ .real_cro)
    (h : tplT name ps cool = some t) (hp : prescribedT name ps = some (lo, hi)) :
    sizeWithin t lo hi = true := by
  unfold tplT at h
  split at h
  all_goals first
    | (cases h; done)
    | (exfalso; exact hn1 rfl)
    | (exfalso; exact hn2 rfl)
    | (injection h with h; subst h
       simp only [prescribedT] at hp
       injection hp with hp; injection hp with h1 h2; subst h1; subst h2
       simp only [real_ga_size_all, binary_ga_size_all, real_es_size_all, real_de_size_all, real_pso_size_all,
         real_sa_size_all, permutation_sa_size_all, real_ls_size_all, permutation_ls_size_all, real_ils_size_all,
         permutation_ils_size_all, real_rs_size_all, permutation_rs_size_all, real_rw_size_all, permutation_rw_size_all,
         real_fa_size_all, real_bh_size_all, ant_system_size_all, max_min_ant_system_size_all])

end MahfModel.Tpl
