/-
Helper definitions / lemmas for C17: an IEEE-like carrier WITH signed zeros (`Iz F`), so that the
clause "a candidate at least as good always replaces" can be stated on every pair of objective
values that are numerically equal — `−0` / `+0` and `+∞` / `+∞` included — and at the temperature
extremes `T = 0` and `T = +∞`.
-/
import MahfModel.Proofs.C17
set_option linter.unusedSectionVars false
namespace MahfModel.Sa

/-- Well-formed frame, on any carrier. -/
theorem acceptStep_two {G : Type} [Sub G] [Div G] [LT G] [LE G] [DecidableLT G] [DecidableLE G]
    (exp : G → G) (T u : G) (cand cur : Ind G) (rest : Stk G) :
    acceptStep exp T u ([cand] :: [cur] :: rest) =
      (.ok, [if accepts exp cur.obj cand.obj T u then cand else cur] :: rest, drawsUsed cur.obj cand.obj) := by
  simp only [acceptStep]
  split <;> simp

/-- An ordered field extended by `−0` (`nzero`; `fin 0` is `+0`), `+∞`, `−∞` and `NaN`. -/
inductive Iz (F : Type) where
  | fin (x : F) | nzero | pinf | ninf | nan

namespace Iz
variable {F : Type} [Field F] [LinearOrder F] [IsStrictOrderedRing F]

/-- The numeric value: both zeros are the number 0. -/
def val : Iz F → Ext F
  | fin x => .fin x | nzero => .fin 0 | pinf => .pinf | ninf => .ninf | nan => .nan

/-- The sign bit. -/
def neg : Iz F → Bool
  | fin x => decide (x < 0) | nzero => true | pinf => false | ninf => true | nan => false

def isZero : Iz F → Bool
  | fin x => decide (x = 0) | nzero => true | _ => false

def isNegZero : Iz F → Bool
  | nzero => true | _ => false

def isPosZero : Iz F → Bool
  | fin x => decide (x = 0) | _ => false

/-- Back from the numeric value; an exact zero gets the given sign. -/
def ofExt (negZero : Bool) : Ext F → Iz F
  | .fin x => if x = 0 ∧ negZero = true then nzero else fin x
  | .pinf => pinf | .ninf => ninf | .nan => nan

/-- IEEE subtraction (round to nearest): an exact zero result is `+0` unless it is `−0 − (+0)`. -/
instance : Sub (Iz F) := ⟨fun a b => ofExt (a.isNegZero && b.isPosZero) (a.val - b.val)⟩

/-- IEEE division: `0/0 = NaN`, `x/±0 = ±∞` by the signs, a zero quotient carries the xor of the signs. -/
instance : Div (Iz F) := ⟨fun a b =>
  if b.isZero then
    (if a.isZero then nan else
      match a with
      | nan => nan
      | _ => if xor a.neg b.neg then ninf else pinf)
  else ofExt (xor a.neg b.neg) (a.val / b.val)⟩

/-- IEEE comparisons are numeric: `−0 = +0`, anything with a NaN is false. -/
instance : LT (Iz F) := ⟨fun a b => a.val < b.val⟩
instance : DecidableLT (Iz F) := fun a b => inferInstanceAs (Decidable (a.val < b.val))
instance : LE (Iz F) := ⟨fun a b => a.val ≤ b.val⟩
instance : DecidableLE (Iz F) := fun a b => inferInstanceAs (Decidable (a.val ≤ b.val))

/-- A function on the field lifted the IEEE way (`f(−0) = f(0)`, NaN stays NaN). -/
def lift (f : F → F) (atPinf atNinf : Iz F) : Iz F → Iz F
  | fin x => fin (f x) | nzero => fin (f 0) | pinf => atPinf | ninf => atNinf | nan => nan

theorem le_iff (a b : Iz F) : a ≤ b ↔ Ext.leb a.val b.val = true := Iff.rfl
theorem lt_iff (a b : Iz F) : a < b ↔ Ext.ltb a.val b.val = true := Iff.rfl

theorem leb_refl {v : Ext F} (h : v ≠ .nan) : Ext.leb v v = true := by
  cases v <;> simp_all [Ext.leb]

/-- Numerically equal, non-NaN values are `≤` each other, whatever the sign of a zero. -/
theorem le_of_val_eq {a b : Iz F} (h : a.val = b.val) (hn : a.val ≠ .nan) : a ≤ b := by
  rw [le_iff, ← h]; exact leb_refl hn

theorem not_lt_nan (u : Iz F) : ¬ (u < (nan : Iz F)) := by
  rw [lt_iff]; cases u <;> simp [val, Ext.ltb]

/-- The difference of two numerically equal values is a zero or NaN. -/
theorem sub_of_val_eq {a b : Iz F} (h : a.val = b.val) : (a - b).isZero = true ∨ a - b = nan := by
  show (ofExt _ (a.val - b.val)).isZero = true ∨ ofExt _ (a.val - b.val) = nan
  rw [h]
  cases hb : b.val with
  | fin x =>
    left
    show (ofExt _ (Ext.fin (x - x))).isZero = true
    simp only [sub_self, ofExt]
    split <;> simp [isZero]
  | pinf => right; rfl
  | ninf => right; rfl
  | nan => right; rfl

/-- A zero or NaN divided by a zero is NaN. -/
theorem div_zero_of_zero_or_nan {d T : Iz F} (hd : d.isZero = true ∨ d = nan) (hT : T.isZero = true) :
    d / T = nan := by
  show (if T.isZero then _ else _) = nan
  rw [if_pos hT]
  rcases hd with hd | hd
  · rw [if_pos hd]
  · subst hd; simp [isZero]

end Iz
end MahfModel.Sa
