/- Soundness of the population-size analysis (`Model/TemplatesSize.lean`) for every execution of the
concrete size interpreter. Core only. -/
import MahfModel.Model.TemplatesSize
namespace MahfModel.Tpl

/-! ### Intervals -/
namespace Itv

theorem memb_iff (i : Itv) (n : Nat) : i.memb n = true ↔ i.mem n := by
  rcases i with ⟨lo, hi⟩
  cases hi <;> simp [memb, mem]

theorem mem_exact (n : Nat) : (exact n).mem n := by simp [exact, mem]

theorem le_sound {a b : Itv} {n : Nat} (h : a.le b = true) (hm : a.mem n) : b.mem n := by
  rcases a with ⟨al, ah⟩; rcases b with ⟨bl, bh⟩
  cases ah <;> cases bh <;> simp [le, hiLe, mem] at * <;> omega

theorem join_left {a b : Itv} {n : Nat} (hm : a.mem n) : (a.join b).mem n := by
  rcases a with ⟨al, ah⟩; rcases b with ⟨bl, bh⟩
  cases ah <;> cases bh <;> simp [join, hiMax, mem] at * <;> omega

theorem join_right {a b : Itv} {n : Nat} (hm : b.mem n) : (a.join b).mem n := by
  rcases a with ⟨al, ah⟩; rcases b with ⟨bl, bh⟩
  cases ah <;> cases bh <;> simp [join, hiMax, mem] at * <;> omega

theorem meet_sound {a b m : Itv} {n : Nat} (h : a.meet b = some m) (ha : a.mem n) (hb : b.mem n) :
    m.mem n := by
  rcases a with ⟨al, ah⟩; rcases b with ⟨bl, bh⟩
  simp only [meet] at h
  split at h
  · injection h with h; subst h
    cases ah <;> cases bh <;> simp [hiMin, mem] at * <;> omega
  · cases h

theorem add_sound {a b : Itv} {n m : Nat} (ha : a.mem n) (hb : b.mem m) : (a.add b).mem (n + m) := by
  rcases a with ⟨al, ah⟩; rcases b with ⟨bl, bh⟩
  cases ah <;> cases bh <;> simp [add, hiAdd, mem] at * <;> omega

theorem mulC_sound {a : Itv} {n : Nat} (d : Nat) (ha : a.mem n) : (a.mulC d).mem (n * d) := by
  rcases a with ⟨al, ah⟩
  cases ah with
  | none => simp [mulC, mem] at *; exact Nat.mul_le_mul_right d ha
  | some h =>
    simp [mulC, mem] at *
    exact ⟨Nat.mul_le_mul_right d ha.1, Nat.mul_le_mul_right d ha.2⟩

theorem divC_sound {a : Itv} {n : Nat} (d : Nat) (ha : a.mem n) : (a.divC d).mem (n / d) := by
  rcases a with ⟨al, ah⟩
  cases ah with
  | none => simp [divC, mem] at *; exact Nat.div_le_div_right ha
  | some h =>
    simp [divC, mem] at *
    exact ⟨Nat.div_le_div_right ha.1, Nat.div_le_div_right ha.2⟩

theorem capC_sound {a : Itv} {n : Nat} (mu : Nat) (ha : a.mem n) : (a.capC mu).mem (min mu n) := by
  rcases a with ⟨al, ah⟩
  cases ah <;> simp [capC, mem] at * <;> omega

theorem half_sound {a : Itv} {n c : Nat} (ha : a.mem n) (h1 : (n + 1) / 2 ≤ c) (h2 : c ≤ n) :
    a.half.mem c := by
  rcases a with ⟨al, ah⟩
  cases ah <;> simp [half, mem] at * <;> omega

end Itv

/-! ### Stacks -/

theorem stackLe_sound : ∀ {a b : AbsStack} {s : List Nat}, stackLe a b = true → Conc s a → Conc s b
  | [], [], [], _, _ => trivial
  | [], [], _ :: _, _, h => by simp [Conc] at h
  | [], _ :: _, _, h, _ => by simp [stackLe] at h
  | _ :: _, [], _, h, _ => by simp [stackLe] at h
  | _ :: _, _ :: _, [], _, h => by simp [Conc] at h
  | x :: a, y :: b, n :: s, h, hc => by
    simp only [stackLe, Bool.and_eq_true] at h
    simp only [Conc] at hc ⊢
    exact ⟨Itv.le_sound h.1 hc.1, stackLe_sound h.2 hc.2⟩

theorem stackJoin_left : ∀ {a b c : AbsStack} {s : List Nat}, stackJoin a b = some c → Conc s a → Conc s c
  | [], [], c, [], h, _ => by simp [stackJoin] at h; subst h; trivial
  | [], [], _, _ :: _, _, hc => by simp [Conc] at hc
  | [], _ :: _, _, _, h, _ => by simp [stackJoin] at h
  | _ :: _, [], _, _, h, _ => by simp [stackJoin] at h
  | _ :: _, _ :: _, _, [], _, hc => by simp [Conc] at hc
  | x :: a, y :: b, c, n :: s, h, hc => by
    simp only [stackJoin] at h
    cases hj : stackJoin a b with
    | none => simp [hj] at h
    | some r =>
      simp [hj] at h; subst h
      simp only [Conc] at hc ⊢
      exact ⟨Itv.join_left hc.1, stackJoin_left hj hc.2⟩

theorem stackJoin_right : ∀ {a b c : AbsStack} {s : List Nat}, stackJoin a b = some c → Conc s b → Conc s c
  | [], [], c, [], h, _ => by simp [stackJoin] at h; subst h; trivial
  | [], [], _, _ :: _, _, hc => by simp [Conc] at hc
  | [], _ :: _, _, _, h, _ => by simp [stackJoin] at h
  | _ :: _, [], _, _, h, _ => by simp [stackJoin] at h
  | _ :: _, _ :: _, _, [], _, hc => by simp [Conc] at hc
  | x :: a, y :: b, c, n :: s, h, hc => by
    simp only [stackJoin] at h
    cases hj : stackJoin a b with
    | none => simp [hj] at h
    | some r =>
      simp [hj] at h; subst h
      simp only [Conc] at hc ⊢
      exact ⟨Itv.join_right hc.1, stackJoin_right hj hc.2⟩

theorem Conc_length : ∀ {s : List Nat} {a : AbsStack}, Conc s a → s.length = a.length
  | [], [], _ => rfl
  | [], _ :: _, h => by simp [Conc] at h
  | _ :: _, [], h => by simp [Conc] at h
  | _ :: s, _ :: a, h => by
    simp only [Conc] at h
    simp [Conc_length h.2]

theorem topWithin_sound {B : Itv} {a : AbsStack} {s : List Nat} (h : topWithin B a = true)
    (hc : Conc s a) : topIn B s = true := by
  cases a with
  | nil => simp [topWithin] at h
  | cons x a =>
    cases s with
    | nil => simp [Conc] at hc
    | cons n s =>
      simp only [Conc] at hc
      simp only [topWithin] at h
      simp only [topIn]
      exact (Itv.memb_iff B n).2 (Itv.le_sound h hc.1)

/-! ### One component -/

theorem astep_sound (op : Op) (c : Nat) (a a' : AbsStack) (s s' : List Nat)
    (ha : astep op a = some a') (hc : Conc s a) (hs : cstep op c s = some s') : Conc s' a' := by
  have hlen := Conc_length hc
  cases op with
  | push need k =>
    simp only [astep] at ha; simp only [cstep] at hs
    split at ha <;> split at hs <;> simp at ha hs
    subst ha; subst hs
    exact ⟨Itv.mem_exact k, hc⟩
  | keep need =>
    simp only [astep] at ha; simp only [cstep] at hs
    split at ha <;> split at hs <;> simp at ha hs
    subst ha; subst hs; exact hc
  | selMul d =>
    match a, s, hc with
    | [], _, _ => simp [astep] at ha
    | _ :: _, [], hc => simp [Conc] at hc
    | x :: a, n :: s, hc =>
      simp only [astep] at ha; simp only [cstep] at hs
      injection ha with ha; injection hs with hs; subst ha; subst hs
      simp only [Conc] at hc ⊢
      exact ⟨Itv.mulC_sound d hc.1, hc.1, hc.2⟩
  | selRange mn mx =>
    match a, s, hc with
    | [], _, _ => simp [astep] at ha
    | _ :: _, [], hc => simp [Conc] at hc
    | x :: a, n :: s, hc =>
      simp only [astep] at ha; simp only [cstep] at hs
      split at hs
      · rename_i hr
        injection ha with ha; injection hs with hs; subst ha; subst hs
        simp only [Conc] at hc ⊢
        refine ⟨?_, hc.1, hc.2⟩
        rcases x with ⟨xl, xh⟩
        have h1 : xl * mn ≤ n * mn := Nat.mul_le_mul_right mn hc.1.1
        cases xh with
        | none => simp [Itv.mem]; omega
        | some h =>
          have h2 : n * mx ≤ h * mx := Nat.mul_le_mul_right mx (hc.1.2 h rfl)
          simp [Itv.mem]; omega
      · cases hs
  | dup =>
    match a, s, hc with
    | [], _, _ => simp [astep] at ha
    | _ :: _, [], hc => simp [Conc] at hc
    | x :: a, n :: s, hc =>
      simp only [astep] at ha; simp only [cstep] at hs
      injection ha with ha; injection hs with hs; subst ha; subst hs
      simp only [Conc] at hc ⊢
      exact ⟨Itv.mulC_sound 2 hc.1, hc.2⟩
  | halve =>
    match a, s, hc with
    | [], _, _ => simp [astep] at ha
    | _ :: _, [], hc => simp [Conc] at hc
    | x :: a, n :: s, hc =>
      simp only [astep] at ha; simp only [cstep] at hs
      split at hs
      · rename_i hr
        injection ha with ha; injection hs with hs; subst ha; subst hs
        simp only [Conc] at hc ⊢
        exact ⟨Itv.half_sound hc.1 hr.1 hr.2, hc.2⟩
      · cases hs
  | setTop k =>
    match a, s, hc with
    | [], _, _ => simp [astep] at ha
    | _ :: _, [], hc => simp [Conc] at hc
    | x :: a, n :: s, hc =>
      simp only [astep] at ha; simp only [cstep] at hs
      injection ha with ha; injection hs with hs; subst ha; subst hs
      simp only [Conc] at hc ⊢
      exact ⟨Itv.mem_exact k, hc.2⟩
  | replOffspring =>
    match a, s, hc with
    | [], _, _ => simp [astep] at ha
    | [_], _, _ => simp [astep] at ha
    | _ :: _ :: _, [], hc => simp [Conc] at hc
    | _ :: _ :: _, [_], hc => simp [Conc] at hc
    | x :: y :: a, n :: m :: s, hc =>
      simp only [astep] at ha; simp only [cstep] at hs
      injection ha with ha; injection hs with hs; subst ha; subst hs
      simp only [Conc] at hc ⊢
      exact ⟨hc.1, hc.2.2⟩
  | replParents =>
    match a, s, hc with
    | [], _, _ => simp [astep] at ha
    | [_], _, _ => simp [astep] at ha
    | _ :: _ :: _, [], hc => simp [Conc] at hc
    | _ :: _ :: _, [_], hc => simp [Conc] at hc
    | x :: y :: a, n :: m :: s, hc =>
      simp only [astep] at ha; simp only [cstep] at hs
      injection ha with ha; injection hs with hs; subst ha; subst hs
      simp only [Conc] at hc ⊢
      exact ⟨hc.2.1, hc.2.2⟩
  | replMerge =>
    match a, s, hc with
    | [], _, _ => simp [astep] at ha
    | [_], _, _ => simp [astep] at ha
    | _ :: _ :: _, [], hc => simp [Conc] at hc
    | _ :: _ :: _, [_], hc => simp [Conc] at hc
    | x :: y :: a, n :: m :: s, hc =>
      simp only [astep] at ha; simp only [cstep] at hs
      injection ha with ha; injection hs with hs; subst ha; subst hs
      simp only [Conc] at hc ⊢
      exact ⟨Itv.add_sound hc.1 hc.2.1, hc.2.2⟩
  | replTrunc mu =>
    match a, s, hc with
    | [], _, _ => simp [astep] at ha
    | [_], _, _ => simp [astep] at ha
    | _ :: _ :: _, [], hc => simp [Conc] at hc
    | _ :: _ :: _, [_], hc => simp [Conc] at hc
    | x :: y :: a, n :: m :: s, hc =>
      simp only [astep] at ha; simp only [cstep] at hs
      injection ha with ha; injection hs with hs; subst ha; subst hs
      simp only [Conc] at hc ⊢
      exact ⟨Itv.capC_sound mu (Itv.add_sound hc.1 hc.2.1), hc.2.2⟩
  | replEqual =>
    match a, s, hc with
    | [], _, _ => simp [astep] at ha
    | [_], _, _ => simp [astep] at ha
    | _ :: _ :: _, [], hc => simp [Conc] at hc
    | _ :: _ :: _, [_], hc => simp [Conc] at hc
    | x :: y :: a, n :: m :: s, hc =>
      simp only [astep] at ha; simp only [cstep] at hs
      split at hs
      · rename_i heq
        subst heq
        injection hs with hs; subst hs
        cases hm : x.meet y with
        | none => simp [hm] at ha
        | some z =>
          simp [hm] at ha; subst ha
          simp only [Conc] at hc ⊢
          exact ⟨Itv.meet_sound hm hc.1 hc.2.1, hc.2.2⟩
      · cases hs
  | replEither =>
    match a, s, hc with
    | [], _, _ => simp [astep] at ha
    | [_], _, _ => simp [astep] at ha
    | _ :: _ :: _, [], hc => simp [Conc] at hc
    | _ :: _ :: _, [_], hc => simp [Conc] at hc
    | x :: y :: a, n :: m :: s, hc =>
      simp only [astep] at ha; simp only [cstep] at hs
      injection ha with ha; injection hs with hs; subst ha; subst hs
      simp only [Conc] at hc ⊢
      refine ⟨?_, hc.2.2⟩
      split
      · exact Itv.join_left hc.1
      · exact Itv.join_right hc.2.1
  | divide d =>
    match a, s, hc with
    | [], _, _ => simp [astep] at ha
    | _ :: _, [], hc => simp [Conc] at hc
    | x :: a, n :: s, hc =>
      simp only [astep] at ha; simp only [cstep] at hs
      split at ha
      · cases ha
      · split at hs
        · injection ha with ha; injection hs with hs; subst ha; subst hs
          simp only [Conc] at hc ⊢
          exact ⟨Itv.divC_sound d hc.1, hc.2⟩
        · cases hs
  | cro p r up down =>
    match a, s, hc with
    | [], _, _ => simp [astep] at ha
    | [_], _, _ => simp [astep] at ha
    | [_, _], _, _ => simp [astep] at ha
    | _ :: _ :: _ :: _, [], hc => simp [Conc] at hc
    | _ :: _ :: _ :: _, [_], hc => simp [Conc] at hc
    | _ :: _ :: _ :: _, [_, _], hc => simp [Conc] at hc
    | x :: y :: z :: a, n :: m :: k :: s, hc =>
      simp only [astep] at ha; simp only [cstep] at hs
      split at ha
      · split at hs
        · rename_i hg
          injection ha with ha; injection hs with hs; subst ha; subst hs
          simp only [Conc] at hc ⊢
          refine ⟨?_, hc.2.2.2⟩
          rcases z with ⟨zl, zh⟩
          have hz := hc.2.2.1
          cases zh <;> simp [Itv.mem] at * <;> omega
        · cases hs
      · cases ha

theorem sizeStep_sound (k : LeafKind) (p q c : Nat) (a a' : AbsStack) (s s' : List Nat)
    (ha : sizeStep k p q a = some a') (hc : Conc s a) (hs : leafStep k p q c s = some s') :
    Conc s' a' := by
  simp only [sizeStep] at ha; simp only [leafStep] at hs
  cases ho : opOf k p q with
  | none => simp [ho] at ha
  | some op =>
    simp only [ho] at ha hs
    exact astep_sound op c a a' s s' ha hc hs

/-! ### Trees -/

/-- What the analysis promises about one terminating execution. -/
def SGood (a' : AbsStack) (s s' : SSt) : Prop :=
  Conc s'.stack a' ∧ (s.ok = true → s'.ok = true)

mutual
  theorem sexec_sound (B : Itv) (o : SOracle) : ∀ (fuel d : Nat) (c : SComp) (a a' : AbsStack) (s s' : SSt),
      sizeOf B d c a = some a' → Conc s.stack a → sexec B o fuel d c s = some s' → SGood a' s s'
    | 0, _, _, _, _, _, _, _, _, h => by simp [sexec] at h
    | fuel + 1, d, .leaf k p q, a, a', s, s', ha, hc, h => by
      simp only [sizeOf] at ha
      simp only [sexec] at h
      split at h
      · cases h
      · cases hl : leafStep k p q (o.pick s.tick) s.stack with
        | none => simp [hl] at h
        | some st =>
          simp only [hl] at h
          injection h with h; subst h
          exact ⟨sizeStep_sound k p q _ a a' s.stack st ha hc hl, fun hp => hp⟩
    | fuel + 1, d, .seq cs, a, a', s, s', ha, hc, h => by
      simp only [sizeOf] at ha
      simp only [sexec] at h
      exact sexecs_sound B o fuel d cs a a' s s' ha hc h
    | fuel + 1, d, .loop body, a, a', s, s', ha, hc, h => by
      simp only [sizeOf] at ha
      simp only [sexec] at h
      cases hb : sizeOf B (d + 1) body (findInv (sizeOf B (d + 1) body) 8 3 a) with
      | none => simp [hb] at ha
      | some out =>
        simp only [hb] at ha
        split at ha
        · rename_i hchk
          injection ha with ha; subst ha
          simp only [Bool.and_eq_true] at hchk
          have hinv := stackLe_sound hchk.1.1 hc
          exact sloop_sound B o fuel d body _ out s s' hb hchk.1.2 hchk.2 hinv h
        · cases ha
    | fuel + 1, d, .branch t e, a, a', s, s', ha, hc, h => by
      simp only [sizeOf] at ha
      simp only [sexec] at h
      cases hx : sizeOf B d t a with
      | none => simp [hx] at ha
      | some x =>
        cases hy : sizeOf B d e a with
        | none => simp [hx, hy] at ha
        | some y =>
          simp only [hx, hy] at ha
          split at h
          · have g := sexec_sound B o fuel d t a x { s with tick := s.tick + 1 } s' hx hc h
            exact ⟨stackJoin_left ha g.1, g.2⟩
          · have g := sexec_sound B o fuel d e a y { s with tick := s.tick + 1 } s' hy hc h
            exact ⟨stackJoin_right ha g.1, g.2⟩
    | fuel + 1, d, .scope body, a, a', s, s', ha, hc, h => by
      simp only [sizeOf] at ha
      simp only [sexec] at h
      exact sexec_sound B o fuel d body a a' s s' ha hc h
  theorem sexecs_sound (B : Itv) (o : SOracle) : ∀ (fuel d : Nat) (cs : SComps) (a a' : AbsStack) (s s' : SSt),
      sizesOf B d cs a = some a' → Conc s.stack a → sexecs B o fuel d cs s = some s' → SGood a' s s'
    | 0, _, _, _, _, _, _, _, _, h => by simp [sexecs] at h
    | fuel + 1, d, .nil, a, a', s, s', ha, hc, h => by
      simp only [sizesOf] at ha
      simp only [sexecs] at h
      injection ha with ha; injection h with h
      subst ha; subst h
      exact ⟨hc, fun hp => hp⟩
    | fuel + 1, d, .cons c rest, a, a', s, s', ha, hc, h => by
      simp only [sizesOf] at ha
      simp only [sexecs] at h
      cases hx : sizeOf B d c a with
      | none => simp [hx] at ha
      | some x =>
        simp only [hx] at ha
        cases h1 : sexec B o fuel d c s with
        | none => simp [h1] at h
        | some s1 =>
          simp only [h1] at h
          have g1 := sexec_sound B o fuel d c a x s s1 hx hc h1
          have g2 := sexecs_sound B o fuel d rest x a' s1 s' ha g1.1 h
          exact ⟨g2.1, fun hp => g2.2 (g1.2 hp)⟩
  /-- A loop whose body maps the invariant `inv` into itself (and, if outermost, into the bound). -/
  theorem sloop_sound (B : Itv) (o : SOracle) : ∀ (fuel d : Nat) (body : SComp) (inv out : AbsStack) (s s' : SSt),
      sizeOf B (d + 1) body inv = some out → stackLe out inv = true →
      (d != 0 || topWithin B out) = true → Conc s.stack inv →
      sloop B o fuel d body s = some s' → SGood inv s s'
    | 0, _, _, _, _, _, _, _, _, _, _, h => by simp [sloop] at h
    | fuel + 1, d, body, inv, out, s, s', hb, hle, hB, hc, h => by
      simp only [sloop] at h
      split at h
      · cases h1 : sexec B o fuel (d + 1) body { s with tick := s.tick + 1 } with
        | none => simp [h1] at h
        | some s1 =>
          simp only [h1] at h
          have g1 := sexec_sound B o fuel (d + 1) body inv out { s with tick := s.tick + 1 } s1 hb hc h1
          have hc1 : Conc (mark B d s1).stack inv := by
            have : (mark B d s1).stack = s1.stack := by
              simp only [mark]; split <;> rfl
            rw [this]; exact stackLe_sound hle g1.1
          have g2 := sloop_sound B o fuel d body inv out _ s' hb hle hB hc1 h
          refine ⟨g2.1, fun hp => g2.2 ?_⟩
          have hp1 : s1.ok = true := g1.2 hp
          simp only [mark]
          split
          · rename_i hd
            subst hd
            have hB' : topWithin B out = true := by simpa using hB
            simp [hp1, topWithin_sound hB' g1.1]
          · exact hp1
      · injection h with h
        subst h
        exact ⟨hc, fun hp => hp⟩
end

/-! ### The ghost flag is never set again once cleared -/

theorem mark_ok_mono (B : Itv) (d : Nat) (s : SSt) (h : (mark B d s).ok = true) : s.ok = true := by
  simp only [mark] at h
  split at h
  · simp only [Bool.and_eq_true] at h; exact h.1
  · exact h

mutual
  theorem sexec_ok_mono (B : Itv) (o : SOracle) : ∀ (fuel d : Nat) (c : SComp) (s s' : SSt),
      sexec B o fuel d c s = some s' → s'.ok = true → s.ok = true
    | 0, _, _, _, _, h, _ => by simp [sexec] at h
    | fuel + 1, d, .leaf k p q, s, s', h, hk => by
      simp only [sexec] at h
      split at h
      · cases h
      · cases hl : leafStep k p q (o.pick s.tick) s.stack with
        | none => simp [hl] at h
        | some st =>
          simp only [hl] at h
          injection h with h; subst h
          exact hk
    | fuel + 1, d, .seq cs, s, s', h, hk => by
      simp only [sexec] at h
      exact sexecs_ok_mono B o fuel d cs s s' h hk
    | fuel + 1, d, .loop body, s, s', h, hk => by
      simp only [sexec] at h
      exact sloop_ok_mono B o fuel d body s s' h hk
    | fuel + 1, d, .branch t e, s, s', h, hk => by
      simp only [sexec] at h
      split at h
      · exact sexec_ok_mono B o fuel d t { s with tick := s.tick + 1 } s' h hk
      · exact sexec_ok_mono B o fuel d e { s with tick := s.tick + 1 } s' h hk
    | fuel + 1, d, .scope body, s, s', h, hk => by
      simp only [sexec] at h
      exact sexec_ok_mono B o fuel d body s s' h hk
  theorem sexecs_ok_mono (B : Itv) (o : SOracle) : ∀ (fuel d : Nat) (cs : SComps) (s s' : SSt),
      sexecs B o fuel d cs s = some s' → s'.ok = true → s.ok = true
    | 0, _, _, _, _, h, _ => by simp [sexecs] at h
    | fuel + 1, d, .nil, s, s', h, hk => by
      simp only [sexecs] at h
      injection h with h; subst h; exact hk
    | fuel + 1, d, .cons c rest, s, s', h, hk => by
      simp only [sexecs] at h
      cases h1 : sexec B o fuel d c s with
      | none => simp [h1] at h
      | some s1 =>
        simp only [h1] at h
        exact sexec_ok_mono B o fuel d c s s1 h1 (sexecs_ok_mono B o fuel d rest s1 s' h hk)
  theorem sloop_ok_mono (B : Itv) (o : SOracle) : ∀ (fuel d : Nat) (body : SComp) (s s' : SSt),
      sloop B o fuel d body s = some s' → s'.ok = true → s.ok = true
    | 0, _, _, _, _, h, _ => by simp [sloop] at h
    | fuel + 1, d, body, s, s', h, hk => by
      simp only [sloop] at h
      split at h
      · cases h1 : sexec B o fuel (d + 1) body { s with tick := s.tick + 1 } with
        | none => simp [h1] at h
        | some s1 =>
          simp only [h1] at h
          have h2 := sloop_ok_mono B o fuel d body (mark B d s1) s' h hk
          exact sexec_ok_mono B o fuel (d + 1) body { s with tick := s.tick + 1 } s1 h1 (mark_ok_mono B d s1 h2)
      · injection h with h; subst h; exact hk
end

end MahfModel.Tpl
