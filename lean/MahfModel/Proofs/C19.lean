/- Helper lemmas for C19 (ant colony). -/
import MahfModel.Model.Aco
import Mathlib.Algebra.Order.Field.Basic
import Mathlib.Tactic.Ring
import Mathlib.Tactic.Linarith
set_option linter.unusedSectionVars false
namespace MahfModel.Aco

theorem perm_cons_eraseIdx {α} (l : List α) (k : Nat) (c : α) (h : l[k]? = some c) :
    l.Perm (c :: l.eraseIdx k) := by
  induction l generalizing k with
  | nil => simp at h
  | cons x xs ih =>
    cases k with
    | zero => simp at h; subst h; simp
    | succ k =>
      simp at h
      have := ih k h
      simp only [List.eraseIdx_cons_succ]
      exact (List.Perm.cons x this).trans (List.Perm.swap c x _)

variable {F : Type}

theorem greedyGo_perm (N : Num F) (pm : PM F) :
    ∀ (fuel : Nat) (route : List Nat) (last : Nat) (remaining t : List Nat),
      remaining.length ≤ fuel → greedyGo N pm fuel route last remaining = some t →
      t.Perm (route ++ remaining) ∧ route <+: t := by
  intro fuel
  induction fuel with
  | zero =>
    intro route last remaining t hl h
    have : remaining = [] := List.length_eq_zero_iff.mp (Nat.le_zero.mp hl)
    subst this
    simp [greedyGo] at h
    subst h; simp
  | succ fuel ih =>
    intro route last remaining t hl h
    simp only [greedyGo] at h
    split at h
    · rename_i he
      have : remaining = [] := by simpa using he
      subst this
      simp at h; subst h; simp
    · cases hph : pheromones pm last remaining with
      | none => simp [hph] at h
      | some ph =>
        cases hk' : argmaxLast N.tle ph with
        | none => simp [hph, hk'] at h
        | some k =>
          cases hc : remaining[k]? with
          | none => simp [hph, hk', hc] at h
          | some c =>
            simp only [hph, hk', hc] at h
            have hk : k < remaining.length := (List.getElem?_eq_some_iff.mp hc).1
            have hlen : (remaining.eraseIdx k).length ≤ fuel := by
              rw [List.length_eraseIdx]; simp [hk]; omega
            obtain ⟨hp, hpre⟩ := ih _ _ _ _ hlen h
            refine ⟨hp.trans ?_, (List.prefix_append route [c]).trans hpre⟩
            have := perm_cons_eraseIdx remaining k c hc
            rw [List.append_assoc]
            exact List.Perm.append_left route this.symm


section
variable [Add F] [Sub F] [Mul F] [Div F] [LT F] [LE F] [DecidableLT F] [DecidableLE F]
  [OfNat F 0] [OfNat F 1]

theorem sampleGo_perm (N : Num F) (pm : PM F) (dist : Nat → Nat → F) (α β : F) :
    ∀ (ks route : List Nat) (last : Nat) (remaining t : List Nat),
      sampleGo N pm dist α β ks route last remaining = .ok t →
      t.Perm (route ++ remaining) ∧ route <+: t := by
  intro ks
  induction ks with
  | nil =>
    intro route last remaining t h
    simp only [sampleGo] at h
    split at h
    · rename_i he
      have : remaining = [] := by simpa using he
      subst this
      simp at h; subst h; simp
    · simp at h
  | cons k ks ih =>
    intro route last remaining t h
    simp only [sampleGo] at h
    split at h
    · simp at h
    · cases hw : weights N pm dist α β last remaining with
      | none => simp [hw] at h
      | some ws =>
        simp only [hw] at h
        split at h
        · cases hc : remaining[k]? with
          | none => simp [hc] at h
          | some c =>
            simp only [hc] at h
            obtain ⟨hp, hpre⟩ := ih _ _ _ _ h
            refine ⟨hp.trans ?_, (List.prefix_append route [c]).trans hpre⟩
            have := perm_cons_eraseIdx remaining k c hc
            rw [List.append_assoc]
            exact List.Perm.append_left route this.symm
        · simp at h

theorem range_eq_zero_cons (n : Nat) (h : 1 ≤ n) : List.range n = 0 :: remaining0 n := by
  obtain ⟨m, rfl⟩ : ∃ m, n = m + 1 := ⟨n - 1, by omega⟩
  simp [remaining0, List.range_eq_range', List.range'_succ]

theorem sampleAll_spec (N : Num F) (pm : PM F) (dist : Nat → Nat → F) (α β : F) (n : Nat) :
    ∀ (ants : Nat) (wits : List (List Nat)) (ts : List (List Nat)),
      sampleAll N pm dist α β n ants wits = .tours ts →
      ts.length = ants ∧ ∀ t ∈ ts, t.Perm (0 :: remaining0 n) ∧ [0] <+: t := by
  intro ants
  induction ants with
  | zero =>
    intro wits ts h
    cases wits with
    | nil => simp [sampleAll] at h; subst h; simp
    | cons w ws => simp [sampleAll] at h
  | succ ants ih =>
    intro wits ts h
    cases wits with
    | nil => simp [sampleAll] at h
    | cons w ws =>
      simp only [sampleAll] at h
      cases hs : sampleGo N pm dist α β w [0] 0 (remaining0 n) with
      | panic => simp [hs] at h
      | badWitness => simp [hs] at h
      | ok t =>
        simp only [hs] at h
        cases hr : sampleAll N pm dist α β n ants ws with
        | panic => simp [hr] at h
        | badWitness => simp [hr] at h
        | tours ts' =>
          simp only [hr] at h
          injection h with h; subst h
          obtain ⟨hl, hall⟩ := ih ws ts' hr
          obtain ⟨hp, hpre⟩ := sampleGo_perm N pm dist α β w [0] 0 (remaining0 n) t hs
          refine ⟨by simp [hl], ?_⟩
          intro u hu
          simp at hu
          rcases hu with rfl | hu
          · exact ⟨by simpa using hp, hpre⟩
          · exact hall u hu


end

/-! ### Matrix and update lemmas -/

theorem idx_inj {d i j i' j' : Nat} (hj : j < d) (hj' : j' < d) (h : i * d + j = i' * d + j') :
    i = i' ∧ j = j' := by
  have h1 : (i * d + j) / d = i := by
    rw [Nat.mul_comm, Nat.mul_add_div (by omega), Nat.div_eq_of_lt hj]; simp
  have h2 : (i' * d + j') / d = i' := by
    rw [Nat.mul_comm, Nat.mul_add_div (by omega), Nat.div_eq_of_lt hj']; simp
  have hi : i = i' := by rw [← h1, ← h2, h]
  subst hi
  exact ⟨rfl, by omega⟩

theorem wf_iff (pm : PM F) : pm.wf = true ↔ pm.inner.length = pm.dim * pm.dim := by
  simp [PM.wf]

theorem idx_lt {d i j : Nat} (hi : i < d) (hj : j < d) : i * d + j < d * d := by
  have : (i + 1) * d ≤ d * d := Nat.mul_le_mul_right d hi
  rw [Nat.add_mul] at this
  omega

theorem get?_eq (pm : PM F) (hwf : pm.wf = true) {i j : Nat} (hi : i < pm.dim) (hj : j < pm.dim) :
    pm.get? i j = pm.inner[i * pm.dim + j]? := by
  rw [wf_iff] at hwf
  have hlt := idx_lt hi hj
  have hrow : i * pm.dim + pm.dim ≤ pm.inner.length := by
    have : (i + 1) * pm.dim ≤ pm.dim * pm.dim := Nat.mul_le_mul_right _ hi
    rw [Nat.add_mul] at this
    omega
  simp [PM.get?, PM.row?, hi, hrow, hj]

theorem get?_isSome (pm : PM F) (hwf : pm.wf = true) {i j : Nat} (hi : i < pm.dim) (hj : j < pm.dim) :
    ∃ x, pm.get? i j = some x := by
  rw [get?_eq pm hwf hi hj]
  have hlt := idx_lt hi hj
  rw [wf_iff] at hwf
  exact ⟨pm.inner[i * pm.dim + j]'(by omega), List.getElem?_eq_getElem _⟩

theorem get?_mem (pm : PM F) {i j : Nat} {x : F} (h : pm.get? i j = some x) : x ∈ pm.inner := by
  simp only [PM.get?, PM.row?] at h
  split at h
  · rename_i r hr
    split at hr
    · split at hr
      · injection hr with hr; subst hr
        exact List.mem_of_mem_drop (List.mem_of_mem_take (List.mem_of_getElem? h))
      · simp at hr
    · simp at hr
  · simp at h


theorem add?_spec [Add F] (pm : PM F) (hwf : pm.wf = true) {a b : Nat} (ha : a < pm.dim) (hb : b < pm.dim)
    (δ : F) :
    ∃ pm1, pm.add? a b δ = some pm1 ∧ pm1.dim = pm.dim ∧ pm1.wf = true ∧
      ∀ i j, i < pm.dim → j < pm.dim →
        pm1.get? i j = if a = i ∧ b = j then (pm.get? i j).map (· + δ) else pm.get? i j := by
  obtain ⟨x, hx⟩ := get?_isSome pm hwf ha hb
  have hwf' := (wf_iff pm).mp hwf
  refine ⟨{ pm with inner := pm.inner.set (a * pm.dim + b) (x + δ) }, by simp [PM.add?, hx], rfl, ?_, ?_⟩
  · simp [PM.wf, hwf']
  · intro i j hi hj
    have hwf1 : (PM.wf { pm with inner := pm.inner.set (a * pm.dim + b) (x + δ) }) = true := by
      simp [PM.wf, hwf']
    rw [get?_eq _ hwf1 (by exact hi) (by exact hj), get?_eq pm hwf hi hj]
    simp only [List.getElem?_set]
    by_cases h : a = i ∧ b = j
    · obtain ⟨rfl, rfl⟩ := h
      have hlt := idx_lt ha hb
      rw [get?_eq pm hwf ha hb] at hx
      obtain ⟨_, hxe⟩ := List.getElem?_eq_some_iff.mp hx
      simp [hwf', hlt, hxe]
    · have hne : a * pm.dim + b ≠ i * pm.dim + j := by
        intro he
        exact h (idx_inj hb hj he)
      simp [hne, h]

theorem scale_wf [Mul F] (pm : PM F) (k : F) : (pm.scale k).wf = pm.wf := by simp [PM.scale, PM.wf]

theorem scale_get? [Mul F] (pm : PM F) (hwf : pm.wf = true) (k : F) {i j : Nat} (hi : i < pm.dim)
    (hj : j < pm.dim) : (pm.scale k).get? i j = (pm.get? i j).map (· * k) := by
  have hwf1 : (pm.scale k).wf = true := by rw [scale_wf]; exact hwf
  rw [get?_eq _ hwf1 (by exact hi) (by exact hj), get?_eq pm hwf hi hj]
  simp [PM.scale]

/-- Every edge of the list lies inside the matrix. -/
def edgesIn (n : Nat) (es : List (Nat × Nat)) : Prop := ∀ e ∈ es, e.1 < n ∧ e.2 < n

theorem reward_spec [Add F] (δ : F) :
    ∀ (es : List (Nat × Nat)) (pm : PM F), pm.wf = true → edgesIn pm.dim es →
      ∃ pm', reward pm δ es = some pm' ∧ pm'.dim = pm.dim ∧ pm'.wf = true ∧
        ∀ i j, i < pm.dim → j < pm.dim →
          pm'.get? i j = (pm.get? i j).map (depositEdges δ i j es) := by
  intro es
  induction es with
  | nil =>
    intro pm hwf _
    refine ⟨pm, rfl, rfl, hwf, ?_⟩
    intro i j _ _
    cases pm.get? i j <;> simp [depositEdges]
  | cons e es ih =>
    intro pm hwf hin
    obtain ⟨a, b⟩ := e
    have hab : a < pm.dim ∧ b < pm.dim := hin (a, b) (by simp)
    obtain ⟨pm1, h1, hd1, hw1, hg1⟩ := add?_spec pm hwf hab.1 hab.2 δ
    obtain ⟨pm2, h2, hd2, hw2, hg2⟩ := add?_spec pm1 hw1 (hd1 ▸ hab.2) (hd1 ▸ hab.1) δ
    have hin2 : edgesIn pm2.dim es := by
      intro e he
      rw [hd2, hd1]
      exact hin e (by simp [he])
    obtain ⟨pm', h3, hd3, hw3, hg3⟩ := ih pm2 hw2 hin2
    refine ⟨pm', by simp [reward, h1, h2, h3], by rw [hd3, hd2, hd1], hw3, ?_⟩
    intro i j hi hj
    rw [hg3 i j (by rw [hd2, hd1]; exact hi) (by rw [hd2, hd1]; exact hj),
      hg2 i j (by rw [hd1]; exact hi) (by rw [hd1]; exact hj), hg1 i j hi hj]
    obtain ⟨x, hx⟩ := get?_isSome pm hwf hi hj
    simp only [hx, depositEdges, Option.map_some]
    by_cases c1 : a = i ∧ b = j
    · obtain ⟨rfl, rfl⟩ := c1
      by_cases c2 : b = a
      · subst c2; simp
      · have c3 : ¬ (b = a ∧ a = b) := fun h => c2 h.1
        simp [c3]
    · by_cases c2 : b = i ∧ a = j
      · obtain ⟨rfl, rfl⟩ := c2
        have c3 : ¬ (a = b ∧ b = a) := fun h => c1 h
        simp [c3]
      · simp [c1, c2]


theorem edgesIn_of_route {n : Nat} {route : List Nat} (h : ∀ c ∈ route, c < n) : edgesIn n (edges route) := by
  intro e he
  obtain ⟨a, b⟩ := e
  have := List.of_mem_zip he
  exact ⟨h a this.1, h b (List.mem_of_mem_tail this.2)⟩

theorem routesValid_iff (n : Nat) (pop : List (Ind F)) :
    routesValid n pop = true ↔ ∀ ind ∈ pop, ∀ c ∈ ind.route, c < n := by
  simp [routesValid]

section
variable [Add F] [Sub F] [Mul F] [Div F] [LT F] [LE F] [DecidableLT F] [DecidableLE F]
  [OfNat F 0] [OfNat F 1]

theorem asGo_spec (c : F) :
    ∀ (l : List (Ind F)) (pm : PM F), pm.wf = true → (∀ ind ∈ l, ∀ x ∈ ind.route, x < pm.dim) →
      (∀ ind ∈ l, ind.obj.isSome = true) →
      ∃ pm', asGo c pm l = some pm' ∧ pm'.dim = pm.dim ∧ pm'.wf = true ∧
        ∀ i j, i < pm.dim → j < pm.dim → pm'.get? i j = (pm.get? i j).map (asSpecGo c i j l) := by
  intro l
  induction l with
  | nil =>
    intro pm hwf _ _
    refine ⟨pm, rfl, rfl, hwf, ?_⟩
    intro i j _ _
    cases pm.get? i j <;> simp [asSpecGo]
  | cons ind rest ih =>
    intro pm hwf hr ho
    have ho1 := ho ind (by simp)
    obtain ⟨o, hobj⟩ := Option.isSome_iff_exists.mp ho1
    obtain ⟨pm1, h1, hd1, hw1, hg1⟩ :=
      reward_spec (c / o) (edges ind.route) pm hwf (edgesIn_of_route (hr ind (by simp)))
    obtain ⟨pm', h2, hd2, hw2, hg2⟩ := ih pm1 hw1
      (by intro x hx; rw [hd1]; exact hr x (by simp [hx])) (by intro x hx; exact ho x (by simp [hx]))
    refine ⟨pm', by simp [asGo, hobj, h1, h2], by rw [hd2, hd1], hw2, ?_⟩
    intro i j hi hj
    rw [hg2 i j (by rw [hd1]; exact hi) (by rw [hd1]; exact hj), hg1 i j hi hj]
    cases pm.get? i j <;> simp [asSpecGo, hobj]

theorem getD_of_get? (pm : PM F) {i j : Nat} {x d : F} (h : pm.get? i j = some x) : pm.getD i j d = x := by
  simp [PM.getD, h]

/-- `AsPheromoneUpdate` on a well-formed matrix with in-range routes and evaluated individuals does not
panic, keeps the shape, and every entry is the specified one. -/
theorem asUpdate_spec (pm : PM F) (ρ c : F) (pop : List (Ind F)) (hwf : pm.wf = true)
    (hr : routesValid pm.dim (pop.drop 1) = true) (ho : ∀ ind ∈ pop.drop 1, ind.obj.isSome = true) :
    ∃ pm', asUpdate pm ρ c pop = some pm' ∧ pm'.dim = pm.dim ∧ pm'.wf = true ∧
      ∀ i j, i < pm.dim → j < pm.dim → pm'.get? i j = some (asSpec pm ρ c pop i j) := by
  have hw1 : (pm.scale (1 - ρ)).wf = true := by rw [scale_wf]; exact hwf
  obtain ⟨pm', h1, hd, hw, hg⟩ := asGo_spec c (pop.drop 1) (pm.scale (1 - ρ)) hw1
    ((routesValid_iff _ _).mp hr) ho
  refine ⟨pm', h1, hd, hw, ?_⟩
  intro i j hi hj
  rw [hg i j hi hj, scale_get? pm hwf _ hi hj]
  obtain ⟨x, hx⟩ := get?_isSome pm hwf hi hj
  simp [hx, asSpec, getD_of_get? pm hx]

end
end MahfModel.Aco
