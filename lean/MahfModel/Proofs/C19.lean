/- Helper lemmas for C19 (ant colony). -/
import MahfModel.Model.Aco
import Mathlib.Algebra.Order.Field.Basic
import Mathlib.Tactic.Ring
import Mathlib.Tactic.Linarith
import Mathlib.Data.List.Nodup
import Mathlib.Data.List.Perm.Subperm
set_option linter.unusedSectionVars false
namespace MahfModel.Aco

theorem perm_cons_eraseIdx {α} (l : List α) (k : Nat) (c : α) (h : l[k]? = some c) :
    l.Perm (c :: l.eraseIdx k) := by
  induction l generalizing k with
  | nil => simp at h
  | cons x xs ih =>
    cases k with
    | zero => simp at h; subst h; simp
    | succ k =>
      simp at h
      have := ih k h
      simp only [List.eraseIdx_cons_succ]
      exact (List.Perm.cons x this).trans (List.Perm.swap c x _)

variable {F : Type}

theorem greedyGo_perm (N : Num F) (pm : PM F) :
    ∀ (fuel : Nat) (route : List Nat) (last : Nat) (remaining t : List Nat),
      remaining.length ≤ fuel → greedyGo N pm fuel route last remaining = some t →
      t.Perm (route ++ remaining) ∧ route <+: t := by
  intro fuel
  induction fuel with
  | zero =>
    intro route last remaining t hl h
    have : remaining = [] := List.length_eq_zero_iff.mp (Nat.le_zero.mp hl)
    subst this
    simp [greedyGo] at h
    subst h; simp
  | succ fuel ih =>
    intro route last remaining t hl h
    simp only [greedyGo] at h
    split at h
    · rename_i he
      have : remaining = [] := by simpa using he
      subst this
      simp at h; subst h; simp
    · cases hph : pheromones pm last remaining with
      | none => simp [hph] at h
      | some ph =>
        cases hk' : argmaxLast N.tle ph with
        | none => simp [hph, hk'] at h
        | some k =>
          cases hc : remaining[k]? with
          | none => simp [hph, hk', hc] at h
          | some c =>
            simp only [hph, hk', hc] at h
            have hk : k < remaining.length := (List.getElem?_eq_some_iff.mp hc).1
            have hlen : (remaining.eraseIdx k).length ≤ fuel := by
              rw [List.length_eraseIdx]; simp [hk]; omega
            obtain ⟨hp, hpre⟩ := ih _ _ _ _ hlen h
            refine ⟨hp.trans ?_, (List.prefix_append route [c]).trans hpre⟩
            have := perm_cons_eraseIdx remaining k c hc
            rw [List.append_assoc]
            exact List.Perm.append_left route this.symm


section
variable [Add F] [Sub F] [Mul F] [Div F] [LT F] [LE F] [DecidableLT F] [DecidableLE F]
  [OfNat F 0] [OfNat F 1]

theorem sampleGo_perm (N : Num F) (pm : PM F) (dist : Nat → Nat → F) (α β : F) :
    ∀ (ks route : List Nat) (last : Nat) (remaining t : List Nat),
      sampleGo N pm dist α β ks route last remaining = .ok t →
      t.Perm (route ++ remaining) ∧ route <+: t := by
  intro ks
  induction ks with
  | nil =>
    intro route last remaining t h
    simp only [sampleGo] at h
    split at h
    · rename_i he
      have : remaining = [] := by simpa using he
      subst this
      simp at h; subst h; simp
    · simp at h
  | cons k ks ih =>
    intro route last remaining t h
    simp only [sampleGo] at h
    split at h
    · simp at h
    · cases hw : weights N pm dist α β last remaining with
      | none => simp [hw] at h
      | some ws =>
        simp only [hw] at h
        split at h
        · cases hc : remaining[k]? with
          | none => simp [hc] at h
          | some c =>
            simp only [hc] at h
            obtain ⟨hp, hpre⟩ := ih _ _ _ _ h
            refine ⟨hp.trans ?_, (List.prefix_append route [c]).trans hpre⟩
            have := perm_cons_eraseIdx remaining k c hc
            rw [List.append_assoc]
            exact List.Perm.append_left route this.symm
        · simp at h

theorem range_eq_zero_cons (n : Nat) (h : 1 ≤ n) : List.range n = 0 :: remaining0 n := by
  obtain ⟨m, rfl⟩ : ∃ m, n = m + 1 := ⟨n - 1, by omega⟩
  simp [remaining0, List.range_eq_range', List.range'_succ]

theorem sampleAll_spec (N : Num F) (pm : PM F) (dist : Nat → Nat → F) (α β : F) (n : Nat) :
    ∀ (ants : Nat) (wits : List (List Nat)) (ts : List (List Nat)),
      sampleAll N pm dist α β n ants wits = .tours ts →
      ts.length = ants ∧ ∀ t ∈ ts, t.Perm (0 :: remaining0 n) ∧ [0] <+: t := by
  intro ants
  induction ants with
  | zero =>
    intro wits ts h
    cases wits with
    | nil => simp [sampleAll] at h; subst h; simp
    | cons w ws => simp [sampleAll] at h
  | succ ants ih =>
    intro wits ts h
    cases wits with
    | nil => simp [sampleAll] at h
    | cons w ws =>
      simp only [sampleAll] at h
      cases hs : sampleGo N pm dist α β w [0] 0 (remaining0 n) with
      | panic => simp [hs] at h
      | badWitness => simp [hs] at h
      | ok t =>
        simp only [hs] at h
        cases hr : sampleAll N pm dist α β n ants ws with
        | panic => simp [hr] at h
        | badWitness => simp [hr] at h
        | tours ts' =>
          simp only [hr] at h
          injection h with h; subst h
          obtain ⟨hl, hall⟩ := ih ws ts' hr
          obtain ⟨hp, hpre⟩ := sampleGo_perm N pm dist α β w [0] 0 (remaining0 n) t hs
          refine ⟨by simp [hl], ?_⟩
          intro u hu
          simp at hu
          rcases hu with rfl | hu
          · exact ⟨by simpa using hp, hpre⟩
          · exact hall u hu


end

/-! ### Matrix and update lemmas -/

theorem idx_inj {d i j i' j' : Nat} (hj : j < d) (hj' : j' < d) (h : i * d + j = i' * d + j') :
    i = i' ∧ j = j' := by
  have h1 : (i * d + j) / d = i := by
    rw [Nat.mul_comm, Nat.mul_add_div (by omega), Nat.div_eq_of_lt hj]; simp
  have h2 : (i' * d + j') / d = i' := by
    rw [Nat.mul_comm, Nat.mul_add_div (by omega), Nat.div_eq_of_lt hj']; simp
  have hi : i = i' := by rw [← h1, ← h2, h]
  subst hi
  exact ⟨rfl, by omega⟩

theorem wf_iff (pm : PM F) : pm.wf = true ↔ pm.inner.length = pm.dim * pm.dim := by
  simp [PM.wf]

theorem idx_lt {d i j : Nat} (hi : i < d) (hj : j < d) : i * d + j < d * d := by
  have : (i + 1) * d ≤ d * d := Nat.mul_le_mul_right d hi
  rw [Nat.add_mul] at this
  omega

theorem get?_eq (pm : PM F) (hwf : pm.wf = true) {i j : Nat} (hi : i < pm.dim) (hj : j < pm.dim) :
    pm.get? i j = pm.inner[i * pm.dim + j]? := by
  rw [wf_iff] at hwf
  have hlt := idx_lt hi hj
  have hrow : i * pm.dim + pm.dim ≤ pm.inner.length := by
    have : (i + 1) * pm.dim ≤ pm.dim * pm.dim := Nat.mul_le_mul_right _ hi
    rw [Nat.add_mul] at this
    omega
  simp [PM.get?, PM.row?, hi, hrow, hj]

theorem get?_isSome (pm : PM F) (hwf : pm.wf = true) {i j : Nat} (hi : i < pm.dim) (hj : j < pm.dim) :
    ∃ x, pm.get? i j = some x := by
  rw [get?_eq pm hwf hi hj]
  have hlt := idx_lt hi hj
  rw [wf_iff] at hwf
  exact ⟨pm.inner[i * pm.dim + j]'(by omega), List.getElem?_eq_getElem _⟩

theorem get?_mem (pm : PM F) {i j : Nat} {x : F} (h : pm.get? i j = some x) : x ∈ pm.inner := by
  simp only [PM.get?, PM.row?] at h
  split at h
  · rename_i r hr
    split at hr
    · split at hr
      · injection hr with hr; subst hr
        exact List.mem_of_mem_drop (List.mem_of_mem_take (List.mem_of_getElem? h))
      · simp at hr
    · simp at hr
  · simp at h


theorem add?_spec [Add F] (pm : PM F) (hwf : pm.wf = true) {a b : Nat} (ha : a < pm.dim) (hb : b < pm.dim)
    (δ : F) :
    ∃ pm1, pm.add? a b δ = some pm1 ∧ pm1.dim = pm.dim ∧ pm1.wf = true ∧
      ∀ i j, i < pm.dim → j < pm.dim →
        pm1.get? i j = if a = i ∧ b = j then (pm.get? i j).map (· + δ) else pm.get? i j := by
  obtain ⟨x, hx⟩ := get?_isSome pm hwf ha hb
  have hwf' := (wf_iff pm).mp hwf
  refine ⟨{ pm with inner := pm.inner.set (a * pm.dim + b) (x + δ) }, by simp [PM.add?, hx], rfl, ?_, ?_⟩
  · simp [PM.wf, hwf']
  · intro i j hi hj
    have hwf1 : (PM.wf { pm with inner := pm.inner.set (a * pm.dim + b) (x + δ) }) = true := by
      simp [PM.wf, hwf']
    rw [get?_eq _ hwf1 (by exact hi) (by exact hj), get?_eq pm hwf hi hj]
    simp only [List.getElem?_set]
    by_cases h : a = i ∧ b = j
    · obtain ⟨rfl, rfl⟩ := h
      have hlt := idx_lt ha hb
      rw [get?_eq pm hwf ha hb] at hx
      obtain ⟨_, hxe⟩ := List.getElem?_eq_some_iff.mp hx
      simp [hwf', hlt, hxe]
    · have hne : a * pm.dim + b ≠ i * pm.dim + j := by
        intro he
        exact h (idx_inj hb hj he)
      simp [hne, h]

theorem scale_wf [Mul F] (pm : PM F) (k : F) : (pm.scale k).wf = pm.wf := by simp [PM.scale, PM.wf]

theorem scale_get? [Mul F] (pm : PM F) (hwf : pm.wf = true) (k : F) {i j : Nat} (hi : i < pm.dim)
    (hj : j < pm.dim) : (pm.scale k).get? i j = (pm.get? i j).map (· * k) := by
  have hwf1 : (pm.scale k).wf = true := by rw [scale_wf]; exact hwf
  rw [get?_eq _ hwf1 (by exact hi) (by exact hj), get?_eq pm hwf hi hj]
  simp [PM.scale]

/-- Every edge of the list lies inside the matrix. -/
def edgesIn (n : Nat) (es : List (Nat × Nat)) : Prop := ∀ e ∈ es, e.1 < n ∧ e.2 < n

theorem reward_spec [Add F] (δ : F) :
    ∀ (es : List (Nat × Nat)) (pm : PM F), pm.wf = true → edgesIn pm.dim es →
      ∃ pm', reward pm δ es = some pm' ∧ pm'.dim = pm.dim ∧ pm'.wf = true ∧
        ∀ i j, i < pm.dim → j < pm.dim →
          pm'.get? i j = (pm.get? i j).map (depositEdges δ i j es) := by
  intro es
  induction es with
  | nil =>
    intro pm hwf _
    refine ⟨pm, rfl, rfl, hwf, ?_⟩
    intro i j _ _
    cases pm.get? i j <;> simp [depositEdges]
  | cons e es ih =>
    intro pm hwf hin
    obtain ⟨a, b⟩ := e
    have hab : a < pm.dim ∧ b < pm.dim := hin (a, b) (by simp)
    obtain ⟨pm1, h1, hd1, hw1, hg1⟩ := add?_spec pm hwf hab.1 hab.2 δ
    obtain ⟨pm2, h2, hd2, hw2, hg2⟩ := add?_spec pm1 hw1 (hd1 ▸ hab.2) (hd1 ▸ hab.1) δ
    have hin2 : edgesIn pm2.dim es := by
      intro e he
      rw [hd2, hd1]
      exact hin e (by simp [he])
    obtain ⟨pm', h3, hd3, hw3, hg3⟩ := ih pm2 hw2 hin2
    refine ⟨pm', by simp [reward, h1, h2, h3], by rw [hd3, hd2, hd1], hw3, ?_⟩
    intro i j hi hj
    rw [hg3 i j (by rw [hd2, hd1]; exact hi) (by rw [hd2, hd1]; exact hj),
      hg2 i j (by rw [hd1]; exact hi) (by rw [hd1]; exact hj), hg1 i j hi hj]
    obtain ⟨x, hx⟩ := get?_isSome pm hwf hi hj
    simp only [hx, depositEdges, Option.map_some]
    by_cases c1 : a = i ∧ b = j
    · obtain ⟨rfl, rfl⟩ := c1
      by_cases c2 : b = a
      · subst c2; simp
      · have c3 : ¬ (b = a ∧ a = b) := fun h => c2 h.1
        simp [c3]
    · by_cases c2 : b = i ∧ a = j
      · obtain ⟨rfl, rfl⟩ := c2
        have c3 : ¬ (a = b ∧ b = a) := fun h => c1 h
        simp [c3]
      · simp [c1, c2]


theorem edgesIn_of_route {n : Nat} {route : List Nat} (h : ∀ c ∈ route, c < n) : edgesIn n (edges route) := by
  intro e he
  obtain ⟨a, b⟩ := e
  have := List.of_mem_zip he
  exact ⟨h a this.1, h b (List.mem_of_mem_tail this.2)⟩

theorem routesValid_iff (n : Nat) (pop : List (Ind F)) :
    routesValid n pop = true ↔ ∀ ind ∈ pop, ∀ c ∈ ind.route, c < n := by
  simp [routesValid]

section
variable [Add F] [Sub F] [Mul F] [Div F] [LT F] [LE F] [DecidableLT F] [DecidableLE F]
  [OfNat F 0] [OfNat F 1]

theorem asGo_spec (c : F) :
    ∀ (l : List (Ind F)) (pm : PM F), pm.wf = true → (∀ ind ∈ l, ∀ x ∈ ind.route, x < pm.dim) →
      (∀ ind ∈ l, ind.obj.isSome = true) →
      ∃ pm', asGo c pm l = some pm' ∧ pm'.dim = pm.dim ∧ pm'.wf = true ∧
        ∀ i j, i < pm.dim → j < pm.dim → pm'.get? i j = (pm.get? i j).map (asSpecGo c i j l) := by
  intro l
  induction l with
  | nil =>
    intro pm hwf _ _
    refine ⟨pm, rfl, rfl, hwf, ?_⟩
    intro i j _ _
    cases pm.get? i j <;> simp [asSpecGo]
  | cons ind rest ih =>
    intro pm hwf hr ho
    have ho1 := ho ind (by simp)
    obtain ⟨o, hobj⟩ := Option.isSome_iff_exists.mp ho1
    obtain ⟨pm1, h1, hd1, hw1, hg1⟩ :=
      reward_spec (c / o) (edges ind.route) pm hwf (edgesIn_of_route (hr ind (by simp)))
    obtain ⟨pm', h2, hd2, hw2, hg2⟩ := ih pm1 hw1
      (by intro x hx; rw [hd1]; exact hr x (by simp [hx])) (by intro x hx; exact ho x (by simp [hx]))
    refine ⟨pm', by simp [asGo, hobj, h1, h2], by rw [hd2, hd1], hw2, ?_⟩
    intro i j hi hj
    rw [hg2 i j (by rw [hd1]; exact hi) (by rw [hd1]; exact hj), hg1 i j hi hj]
    cases pm.get? i j <;> simp [asSpecGo, hobj]

theorem getD_of_get? (pm : PM F) {i j : Nat} {x d : F} (h : pm.get? i j = some x) : pm.getD i j d = x := by
  simp [PM.getD, h]

/-- `AsPheromoneUpdate` on a well-formed matrix with in-range routes and evaluated individuals does not
panic, keeps the shape, and every entry is the specified one. -/
theorem asUpdate_spec (pm : PM F) (ρ c : F) (pop : List (Ind F)) (hwf : pm.wf = true)
    (hr : routesValid pm.dim (pop.drop 1) = true) (ho : ∀ ind ∈ pop.drop 1, ind.obj.isSome = true) :
    ∃ pm', asUpdate pm ρ c pop = some pm' ∧ pm'.dim = pm.dim ∧ pm'.wf = true ∧
      ∀ i j, i < pm.dim → j < pm.dim → pm'.get? i j = some (asSpec pm ρ c pop i j) := by
  have hw1 : (pm.scale (1 - ρ)).wf = true := by rw [scale_wf]; exact hwf
  obtain ⟨pm', h1, hd, hw, hg⟩ := asGo_spec c (pop.drop 1) (pm.scale (1 - ρ)) hw1
    ((routesValid_iff _ _).mp hr) ho
  refine ⟨pm', h1, hd, hw, ?_⟩
  intro i j hi hj
  rw [hg i j hi hj, scale_get? pm hwf _ hi hj]
  obtain ⟨x, hx⟩ := get?_isSome pm hwf hi hj
  simp [hx, asSpec, getD_of_get? pm hx]

end

/-! ### Max-min update -/

section
variable [Add F] [Sub F] [Mul F] [Div F] [LT F] [LE F] [DecidableLT F] [DecidableLE F]
  [OfNat F 0] [OfNat F 1]

theorem firstMinGo_mem :
    ∀ (l : List (Ind F)) (bi : Ind F) (bv : F) (r : Ind F) (o : F),
      firstMinGo bi bv l = some (r, o) → bi.obj = some bv → (r = bi ∨ r ∈ l) ∧ r.obj = some o := by
  intro l
  induction l with
  | nil =>
    intro bi bv r o h hb
    simp [firstMinGo] at h
    obtain ⟨rfl, rfl⟩ := h
    exact ⟨Or.inl rfl, hb⟩
  | cons x xs ih =>
    intro bi bv r o h hb
    simp only [firstMinGo] at h
    cases hx : x.obj with
    | none => simp [hx] at h
    | some v =>
      simp only [hx] at h
      split at h
      · obtain ⟨h1, h2⟩ := ih x v r o h hx
        exact ⟨Or.inr (by rcases h1 with rfl | h1 <;> simp [*]), h2⟩
      · obtain ⟨h1, h2⟩ := ih bi bv r o h hb
        exact ⟨by rcases h1 with rfl | h1 <;> simp [*], h2⟩

theorem firstMin_mem (l : List (Ind F)) (r : Ind F) (o : F) (h : firstMin l = some (r, o)) :
    r ∈ l ∧ r.obj = some o := by
  cases l with
  | nil => simp [firstMin] at h
  | cons x xs =>
    simp only [firstMin] at h
    cases hx : x.obj with
    | none => simp [hx] at h
    | some v =>
      simp only [hx] at h
      obtain ⟨h1, h2⟩ := firstMinGo_mem xs x v r o h hx
      exact ⟨by rcases h1 with rfl | h1 <;> simp [*], h2⟩

theorem firstMinGo_isSome :
    ∀ (l : List (Ind F)) (bi : Ind F) (bv : F), (∀ x ∈ l, x.obj.isSome = true) →
      (firstMinGo bi bv l).isSome = true := by
  intro l
  induction l with
  | nil => intro bi bv _; simp [firstMinGo]
  | cons x xs ih =>
    intro bi bv h
    obtain ⟨v, hv⟩ := Option.isSome_iff_exists.mp (h x (by simp))
    simp only [firstMinGo, hv]
    split
    · exact ih _ _ (fun y hy => h y (by simp [hy]))
    · exact ih _ _ (fun y hy => h y (by simp [hy]))

theorem firstMin_isSome (l : List (Ind F)) (hne : l ≠ []) (h : ∀ x ∈ l, x.obj.isSome = true) :
    (firstMin l).isSome = true := by
  cases l with
  | nil => exact absurd rfl hne
  | cons x xs =>
    obtain ⟨v, hv⟩ := Option.isSome_iff_exists.mp (h x (by simp))
    simp only [firstMin, hv]
    exact firstMinGo_isSome xs x v (fun y hy => h y (by simp [hy]))

/-- The clamp stage of `MinMaxPheromoneUpdate`. -/
def clampStage (lo hi : F) (pm2 : PM F) : Option (PM F) :=
  if lo ≤ hi then some { pm2 with inner := pm2.inner.map (clamp lo hi) }
  else if pm2.inner.isEmpty then some pm2 else none

theorem mmasUpdate_of_min (pm : PM F) (ρ hi lo : F) (pop : List (Ind F)) (ind : Ind F) (o : F)
    (hmin : firstMin (pop.drop 1) = some (ind, o)) :
    mmasUpdate pm ρ hi lo pop =
      (reward (pm.scale (1 - ρ)) (1 / o) (edges ind.route)).bind (clampStage lo hi) := by
  cases hl : pop.drop 1 with
  | nil => rw [hl] at hmin; simp [firstMin] at hmin
  | cons x xs =>
    rw [hl] at hmin
    simp only [mmasUpdate, hl, hmin, clampStage]
    cases reward (pm.scale (1 - ρ)) (1 / o) (edges ind.route) <;> rfl

theorem mmasUpdate_of_nil (pm : PM F) (ρ hi lo : F) (pop : List (Ind F)) (hl : pop.drop 1 = []) :
    mmasUpdate pm ρ hi lo pop = clampStage lo hi (pm.scale (1 - ρ)) := by
  simp only [mmasUpdate, hl, clampStage]

theorem mmasUpdate_cases (pm : PM F) (ρ hi lo : F) (pop : List (Ind F)) (pm' : PM F)
    (h : mmasUpdate pm ρ hi lo pop = some pm') : ∃ pm2, clampStage lo hi pm2 = some pm' := by
  cases hl : pop.drop 1 with
  | nil => exact ⟨_, by rw [← mmasUpdate_of_nil pm ρ hi lo pop hl]; exact h⟩
  | cons x xs =>
    cases hmin : firstMin (pop.drop 1) with
    | none =>
      rw [hl] at hmin
      simp [mmasUpdate, hl, hmin] at h
    | some p =>
      obtain ⟨ind, o⟩ := p
      rw [mmasUpdate_of_min pm ρ hi lo pop ind o hmin] at h
      cases hr : reward (pm.scale (1 - ρ)) (1 / o) (edges ind.route) with
      | none => simp [hr] at h
      | some pm2 => exact ⟨pm2, by simpa [hr] using h⟩

theorem clampStage_get? (lo hi : F) (hb : lo ≤ hi) (pm2 : PM F) (hw2 : pm2.wf = true) :
    ∃ pm', clampStage lo hi pm2 = some pm' ∧ pm'.dim = pm2.dim ∧ pm'.wf = true ∧
      ∀ i j, i < pm2.dim → j < pm2.dim → pm'.get? i j = (pm2.get? i j).map (clamp lo hi) := by
  have hw3 : (PM.wf { pm2 with inner := pm2.inner.map (clamp lo hi) }) = true := by
    simpa [PM.wf] using hw2
  refine ⟨{ pm2 with inner := pm2.inner.map (clamp lo hi) }, by simp [clampStage, hb], rfl, hw3, ?_⟩
  intro i j hi' hj'
  rw [get?_eq _ hw3 (by exact hi') (by exact hj'), get?_eq pm2 hw2 hi' hj']
  simp

/-- `MinMaxPheromoneUpdate` given the rewarded individual. -/
theorem mmasUpdate_spec (pm : PM F) (ρ hi lo : F) (pop : List (Ind F)) (hwf : pm.wf = true)
    (ind : Ind F) (o : F) (hmin : firstMin (pop.drop 1) = some (ind, o))
    (hr : ∀ c ∈ ind.route, c < pm.dim) (hb : lo ≤ hi) :
    ∃ pm', mmasUpdate pm ρ hi lo pop = some pm' ∧ pm'.dim = pm.dim ∧ pm'.wf = true ∧
      ∀ i j, i < pm.dim → j < pm.dim → pm'.get? i j = some (mmasSpec pm ρ hi lo pop i j) := by
  have hw1 : (pm.scale (1 - ρ)).wf = true := by rw [scale_wf]; exact hwf
  obtain ⟨pm2, h2, hd2, hw2, hg2⟩ :=
    reward_spec (1 / o) (edges ind.route) (pm.scale (1 - ρ)) hw1 (edgesIn_of_route hr)
  have hd2' : pm2.dim = pm.dim := hd2
  obtain ⟨pm', h3, hd3, hw3, hg3⟩ := clampStage_get? lo hi hb pm2 hw2
  refine ⟨pm', by rw [mmasUpdate_of_min pm ρ hi lo pop ind o hmin, h2]; exact h3, by rw [hd3, hd2'], hw3, ?_⟩
  intro i j hi' hj'
  rw [hg3 i j (hd2' ▸ hi') (hd2' ▸ hj'), hg2 i j hi' hj', scale_get? pm hwf _ hi' hj']
  obtain ⟨x, hx⟩ := get?_isSome pm hwf hi' hj'
  simp only [hx, Option.map_some, mmasSpec, hmin, getD_of_get? pm hx]

/-- `MinMaxPheromoneUpdate` with no sampled individual: evaporate and clamp. -/
theorem mmasUpdate_spec_nil (pm : PM F) (ρ hi lo : F) (pop : List (Ind F)) (hwf : pm.wf = true)
    (hl : pop.drop 1 = []) (hb : lo ≤ hi) :
    ∃ pm', mmasUpdate pm ρ hi lo pop = some pm' ∧ pm'.dim = pm.dim ∧ pm'.wf = true ∧
      ∀ i j, i < pm.dim → j < pm.dim → pm'.get? i j = some (mmasSpec pm ρ hi lo pop i j) := by
  have hw1 : (pm.scale (1 - ρ)).wf = true := by rw [scale_wf]; exact hwf
  obtain ⟨pm', h3, hd3, hw3, hg3⟩ := clampStage_get? lo hi hb (pm.scale (1 - ρ)) hw1
  refine ⟨pm', by rw [mmasUpdate_of_nil pm ρ hi lo pop hl]; exact h3, hd3, hw3, ?_⟩
  intro i j hi' hj'
  rw [hg3 i j hi' hj', scale_get? pm hwf _ hi' hj']
  obtain ⟨x, hx⟩ := get?_isSome pm hwf hi' hj'
  simp only [hx, Option.map_some, mmasSpec, hl, firstMin, getD_of_get? pm hx]

/-! The same with the rewarded tour given explicitly (any of the tied best tours, see `Model/Aco.lean`). -/

theorem mmasUpdateWith_eq (pm : PM F) (ρ hi lo : F) (best : Option (Ind F × F)) :
    mmasUpdateWith pm ρ hi lo best =
      (match best with
       | none => some (pm.scale (1 - ρ))
       | some (ind, o) => reward (pm.scale (1 - ρ)) (1 / o) (edges ind.route)).bind (clampStage lo hi) := by
  cases best with
  | none => simp only [mmasUpdateWith, clampStage, Option.bind_some]
  | some p =>
    obtain ⟨ind, o⟩ := p
    simp only [mmasUpdateWith, clampStage]
    cases reward (pm.scale (1 - ρ)) (1 / o) (edges ind.route) <;> rfl

/-- `mmasUpdate` is `mmasUpdateWith` for the first minimal sampled tour. -/
theorem mmasUpdate_eq_with (pm : PM F) (ρ hi lo : F) (pop : List (Ind F))
    (h : pop.drop 1 = [] ∨ (firstMin (pop.drop 1)).isSome = true) :
    mmasUpdate pm ρ hi lo pop = mmasUpdateWith pm ρ hi lo (firstMin (pop.drop 1)) := by
  rcases h with hl | hs
  · rw [mmasUpdate_of_nil pm ρ hi lo pop hl, mmasUpdateWith_eq, hl]
    simp [firstMin]
  · obtain ⟨⟨ind, o⟩, hmin⟩ := Option.isSome_iff_exists.mp hs
    rw [mmasUpdate_of_min pm ρ hi lo pop ind o hmin, mmasUpdateWith_eq, hmin]

theorem mmasUpdateWith_spec (pm : PM F) (ρ hi lo : F) (hwf : pm.wf = true) (best : Option (Ind F × F))
    (hr : ∀ ind o, best = some (ind, o) → ∀ c ∈ ind.route, c < pm.dim) (hb : lo ≤ hi) :
    ∃ pm', mmasUpdateWith pm ρ hi lo best = some pm' ∧ pm'.dim = pm.dim ∧ pm'.wf = true ∧
      ∀ i j, i < pm.dim → j < pm.dim → pm'.get? i j = some (mmasSpecWith pm ρ hi lo best i j) := by
  have hw1 : (pm.scale (1 - ρ)).wf = true := by rw [scale_wf]; exact hwf
  cases best with
  | none =>
    obtain ⟨pm', h3, hd3, hw3, hg3⟩ := clampStage_get? lo hi hb (pm.scale (1 - ρ)) hw1
    refine ⟨pm', by rw [mmasUpdateWith_eq]; exact h3, hd3, hw3, ?_⟩
    intro i j hi' hj'
    rw [hg3 i j hi' hj', scale_get? pm hwf _ hi' hj']
    obtain ⟨x, hx⟩ := get?_isSome pm hwf hi' hj'
    simp only [hx, Option.map_some, mmasSpecWith, getD_of_get? pm hx]
  | some p =>
    obtain ⟨ind, o⟩ := p
    obtain ⟨pm2, h2, hd2, hw2, hg2⟩ :=
      reward_spec (1 / o) (edges ind.route) (pm.scale (1 - ρ)) hw1 (edgesIn_of_route (hr ind o rfl))
    have hd2' : pm2.dim = pm.dim := hd2
    obtain ⟨pm', h3, hd3, hw3, hg3⟩ := clampStage_get? lo hi hb pm2 hw2
    refine ⟨pm', by rw [mmasUpdateWith_eq]; simp only [h2, Option.bind_some]; exact h3, by rw [hd3, hd2'], hw3, ?_⟩
    intro i j hi' hj'
    rw [hg3 i j (hd2' ▸ hi') (hd2' ▸ hj'), hg2 i j hi' hj', scale_get? pm hwf _ hi' hj']
    obtain ⟨x, hx⟩ := get?_isSome pm hwf hi' hj'
    simp only [hx, Option.map_some, mmasSpecWith, getD_of_get? pm hx]

theorem mmasSpec_eq_with (pm : PM F) (ρ hi lo : F) (pop : List (Ind F)) (i j : Nat) :
    mmasSpec pm ρ hi lo pop i j = mmasSpecWith pm ρ hi lo (firstMin (pop.drop 1)) i j := by
  unfold mmasSpec mmasSpecWith
  cases firstMin (pop.drop 1) with
  | none => rfl
  | some p => rfl

theorem holdsMmas_eq_with (N : Num F) (pm : PM F) (ρ hi lo : F) (pop : List (Ind F)) (pm' : PM F) :
    holdsMmas N pm ρ hi lo pop pm' = holdsMmasWith N pm ρ hi lo (firstMin (pop.drop 1)) pm' := by
  unfold holdsMmas holdsMmasWith
  simp only [mmasSpec_eq_with]

end

/-! ### Ordered-field facts -/

section field
variable {F : Type} [Field F] [LinearOrder F] [IsStrictOrderedRing F]

theorem clamp_bounds (lo hi x : F) (h : lo ≤ hi) : lo ≤ clamp lo hi x ∧ clamp lo hi x ≤ hi := by
  unfold clamp
  split
  · exact ⟨le_refl _, h⟩
  · split
    · exact ⟨h, le_refl _⟩
    · rename_i h1 h2
      exact ⟨not_lt.mp h1, not_lt.mp h2⟩

theorem depositEdges_closed (δ : F) (i j : Nat) :
    ∀ (es : List (Nat × Nat)) (x : F),
      depositEdges δ i j es x = x + ((es.count (i, j) + es.count (j, i) : Nat) : F) * δ := by
  intro es
  induction es with
  | nil => intro x; simp [depositEdges]
  | cons e es ih =>
    intro x
    obtain ⟨a, b⟩ := e
    simp only [depositEdges, ih, List.count_cons]
    by_cases c1 : a = i ∧ b = j <;> by_cases c2 : b = i ∧ a = j
    · obtain ⟨rfl, rfl⟩ := c1
      obtain ⟨rfl, _⟩ := c2
      simp; ring
    · obtain ⟨rfl, rfl⟩ := c1
      have : ¬ (b = a) := fun h => c2 ⟨h, h.symm⟩
      have h2 : ((a, b) == (b, a)) = false := by simp; intro h; exact absurd h.symm this
      simp [this, h2]; ring
    · obtain ⟨rfl, rfl⟩ := c2
      have : ¬ (a = b) := fun h => c1 ⟨h, h.symm⟩
      have h2 : ((a, b) == (b, a)) = false := by simp; intro h; exact absurd h this
      simp [this, h2]; ring
    · have h1 : ((a, b) == (i, j)) = false := by simpa using fun h1 h2 => c1 ⟨h1, h2⟩
      have h2 : ((a, b) == (j, i)) = false := by simpa using fun h1 h2 => c2 ⟨h2, h1⟩
      simp [c1, c2, h1, h2]

theorem depositEdges_symm (δ : F) (i j : Nat) (es : List (Nat × Nat)) (x : F) :
    depositEdges δ i j es x = depositEdges δ j i es x := by
  rw [depositEdges_closed, depositEdges_closed, Nat.add_comm]

theorem depositEdges_nonneg (δ : F) (hδ : 0 ≤ δ) (i j : Nat) (es : List (Nat × Nat)) (x : F) (hx : 0 ≤ x) :
    0 ≤ depositEdges δ i j es x := by
  rw [depositEdges_closed]
  positivity


theorem asSpecGo_closed (c : F) (i j : Nat) :
    ∀ (l : List (Ind F)) (x : F), (∀ ind ∈ l, ind.obj.isSome = true) →
      asSpecGo c i j l x =
        x + (l.map (fun ind => (hits ind.route i j : F) * (c / ind.obj.getD 1))).sum := by
  intro l
  induction l with
  | nil => intro x _; simp [asSpecGo]
  | cons ind rest ih =>
    intro x h
    obtain ⟨o, ho⟩ := Option.isSome_iff_exists.mp (h ind (by simp))
    simp only [asSpecGo, ho, List.map_cons, List.sum_cons, Option.getD_some]
    rw [ih _ (fun y hy => h y (by simp [hy])), depositEdges_closed]
    simp only [hits]
    ring

theorem hits_symm (route : List Nat) (i j : Nat) : hits route i j = hits route j i := by
  simp [hits, Nat.add_comm]

theorem asSpecGo_symm (c : F) (i j : Nat) (l : List (Ind F)) (x : F) (h : ∀ ind ∈ l, ind.obj.isSome = true) :
    asSpecGo c i j l x = asSpecGo c j i l x := by
  rw [asSpecGo_closed c i j l x h, asSpecGo_closed c j i l x h]
  simp only [hits_symm]

theorem asSpecGo_nonneg (c : F) (hc : 0 ≤ c) (i j : Nat) :
    ∀ (l : List (Ind F)) (x : F), 0 ≤ x → (∀ ind ∈ l, ∃ o, ind.obj = some o ∧ 0 < o) →
      0 ≤ asSpecGo c i j l x := by
  intro l
  induction l with
  | nil => intro x hx _; simpa [asSpecGo] using hx
  | cons ind rest ih =>
    intro x hx h
    obtain ⟨o, ho, hpos⟩ := h ind (by simp)
    simp only [asSpecGo, ho]
    apply ih
    · exact depositEdges_nonneg _ (div_nonneg hc hpos.le) _ _ _ _ hx
    · exact fun y hy => h y (by simp [hy])

theorem firstMinGo_le :
    ∀ (l : List (Ind F)) (bi : Ind F) (bv : F) (r : Ind F) (o : F),
      firstMinGo bi bv l = some (r, o) → o ≤ bv ∧ ∀ x ∈ l, ∀ v, x.obj = some v → o ≤ v := by
  intro l
  induction l with
  | nil =>
    intro bi bv r o h
    simp [firstMinGo] at h
    obtain ⟨_, rfl⟩ := h
    simp
  | cons x xs ih =>
    intro bi bv r o h
    simp only [firstMinGo] at h
    cases hx : x.obj with
    | none => simp [hx] at h
    | some v =>
      simp only [hx] at h
      split at h
      · rename_i hlt
        obtain ⟨h1, h2⟩ := ih x v r o h
        refine ⟨le_trans h1 hlt.le, ?_⟩
        intro y hy w hw
        simp at hy
        rcases hy with rfl | hy
        · rw [hx] at hw; injection hw with hw; subst hw; exact h1
        · exact h2 y hy w hw
      · rename_i hnlt
        obtain ⟨h1, h2⟩ := ih bi bv r o h
        refine ⟨h1, ?_⟩
        intro y hy w hw
        simp at hy
        rcases hy with rfl | hy
        · rw [hx] at hw; injection hw with hw; subst hw; exact le_trans h1 (not_lt.mp hnlt)
        · exact h2 y hy w hw

/-- The rewarded individual has the least objective value among the individuals considered. -/
theorem firstMin_le (l : List (Ind F)) (r : Ind F) (o : F) (h : firstMin l = some (r, o)) :
    ∀ x ∈ l, ∀ v, x.obj = some v → o ≤ v := by
  cases l with
  | nil => simp [firstMin] at h
  | cons y ys =>
    simp only [firstMin] at h
    cases hy : y.obj with
    | none => simp [hy] at h
    | some w =>
      simp only [hy] at h
      obtain ⟨h1, h2⟩ := firstMinGo_le ys y w r o h
      intro x hx v hv
      simp at hx
      rcases hx with rfl | hx
      · rw [hy] at hv; injection hv with hv; subst hv; exact h1
      · exact h2 x hx v hv

end field

/-! ### Greedy route -/

section order
variable {F : Type} [LinearOrder F]

theorem argmaxGo_spec :
    ∀ (xs : List F) (i bi : Nat) (bv : F),
      (argmaxGo dle i bi bv xs = bi ∧ ∀ x ∈ xs, x < bv) ∨
      (∃ m w, xs[m]? = some w ∧ argmaxGo dle i bi bv xs = i + m ∧ bv ≤ w ∧ (∀ x ∈ xs, x ≤ w) ∧
        ∀ m' v, m < m' → xs[m']? = some v → v < w) := by
  intro xs
  induction xs with
  | nil => intro i bi bv; left; simp [argmaxGo]
  | cons x xs ih =>
    intro i bi bv
    simp only [argmaxGo, dle, decide_eq_true_eq]
    split
    · rename_i hle
      right
      rcases ih (i + 1) i x with ⟨hk, hall⟩ | ⟨m, w, hm, hk, hxw, hall, hlater⟩
      · refine ⟨0, x, by simp, by simpa using hk, hle, ?_, ?_⟩
        · intro y hy; simp at hy; rcases hy with rfl | hy
          · exact le_refl _
          · exact (hall y hy).le
        · intro m' v hm' hv
          obtain ⟨n, rfl⟩ : ∃ n, m' = n + 1 := ⟨m' - 1, by omega⟩
          simp at hv
          exact hall v (List.mem_of_getElem? hv)
      · refine ⟨m + 1, w, by simpa using hm, by omega, le_trans hle hxw, ?_, ?_⟩
        · intro y hy; simp at hy; rcases hy with rfl | hy
          · exact hxw
          · exact hall y hy
        · intro m' v hm' hv
          obtain ⟨n, rfl⟩ : ∃ n, m' = n + 1 := ⟨m' - 1, by omega⟩
          simp at hv
          exact hlater n v (by omega) hv
    · rename_i hnle
      have hlt : x < bv := not_le.mp hnle
      rcases ih (i + 1) bi bv with ⟨hk, hall⟩ | ⟨m, w, hm, hk, hxw, hall, hlater⟩
      · left
        refine ⟨hk, ?_⟩
        intro y hy; simp at hy; rcases hy with rfl | hy
        · exact hlt
        · exact hall y hy
      · right
        refine ⟨m + 1, w, by simpa using hm, by omega, hxw, ?_, ?_⟩
        · intro y hy; simp at hy; rcases hy with rfl | hy
          · exact (lt_of_lt_of_le hlt hxw).le
          · exact hall y hy
        · intro m' v hm' hv
          obtain ⟨n, rfl⟩ : ∃ n, m' = n + 1 := ⟨m' - 1, by omega⟩
          simp at hv
          exact hlater n v (by omega) hv

/-- `max_by(total_cmp)` on a linear order: the index of a maximal element, the last one among equals. -/
theorem argmaxLast_spec (l : List F) (k : Nat) (h : argmaxLast dle l = some k) :
    ∃ w, l[k]? = some w ∧ (∀ x ∈ l, x ≤ w) ∧ ∀ j v, k < j → l[j]? = some v → v < w := by
  cases l with
  | nil => simp [argmaxLast] at h
  | cons x xs =>
    simp only [argmaxLast, Option.some.injEq] at h
    rcases argmaxGo_spec xs 1 0 x with ⟨hk, hall⟩ | ⟨m, w, hm, hk, hxw, hall, hlater⟩
    · rw [hk] at h; subst h
      refine ⟨x, by simp, ?_, ?_⟩
      · intro y hy; simp at hy; rcases hy with rfl | hy
        · exact le_refl _
        · exact (hall y hy).le
      · intro j v hj hv
        obtain ⟨n, rfl⟩ : ∃ n, j = n + 1 := ⟨j - 1, by omega⟩
        simp at hv
        exact hall v (List.mem_of_getElem? hv)
    · rw [hk] at h; subst h
      refine ⟨w, by simpa [Nat.add_comm] using hm, ?_, ?_⟩
      · intro y hy; simp at hy; rcases hy with rfl | hy
        · exact hxw
        · exact hall y hy
      · intro j v hj hv
        obtain ⟨n, rfl⟩ : ∃ n, j = n + 1 := ⟨j - 1, by omega⟩
        simp at hv
        exact hlater n v (by omega) hv


variable [OfNat F 0]

theorem pheromones_eq (pm : PM F) (last : Nat) :
    ∀ (rem : List Nat) (ph : List F), pheromones pm last rem = some ph →
      ph = rem.map (fun r => pm.getD last r 0) := by
  intro rem
  induction rem with
  | nil => intro ph h; simp [pheromones] at h; simp [h]
  | cons r rs ih =>
    intro ph h
    simp only [pheromones] at h
    cases hx : pm.get? last r with
    | none => simp [hx] at h
    | some x =>
      cases hr : pheromones pm last rs with
      | none => simp [hx, hr] at h
      | some xs =>
        simp only [hx, hr] at h
        injection h with h; subst h
        simp [ih xs hr, PM.getD, hx]

theorem greedyGo_ok (N : Num F) (hN : N.tle = dle) (pm : PM F) :
    ∀ (fuel : Nat) (route : List Nat) (last : Nat) (remaining t : List Nat),
      remaining.length ≤ fuel → remaining.Nodup → greedyGo N pm fuel route last remaining = some t →
      ∃ suffix, t = route ++ suffix ∧ greedyOkGo pm suffix last remaining = true := by
  intro fuel
  induction fuel with
  | zero =>
    intro route last remaining t hl _ h
    have : remaining = [] := List.length_eq_zero_iff.mp (Nat.le_zero.mp hl)
    subst this
    simp [greedyGo] at h
    exact ⟨[], by simp [h], by simp [greedyOkGo]⟩
  | succ fuel ih =>
    intro route last remaining t hl hnd h
    simp only [greedyGo] at h
    split at h
    · rename_i he
      have : remaining = [] := by simpa using he
      subst this
      simp at h
      exact ⟨[], by simp [h], by simp [greedyOkGo]⟩
    · cases hph : pheromones pm last remaining with
      | none => simp [hph] at h
      | some ph =>
        cases hk' : argmaxLast N.tle ph with
        | none => simp [hph, hk'] at h
        | some k =>
          cases hc : remaining[k]? with
          | none => simp [hph, hk', hc] at h
          | some c =>
            simp only [hph, hk', hc] at h
            obtain ⟨hk, hck⟩ := List.getElem?_eq_some_iff.mp hc
            have hlen : (remaining.eraseIdx k).length ≤ fuel := by
              rw [List.length_eraseIdx]; simp [hk]; omega
            have hnd' : (remaining.eraseIdx k).Nodup := hnd.sublist (List.eraseIdx_sublist _ _)
            obtain ⟨suffix, ht, hok⟩ := ih _ _ _ _ hlen hnd' h
            refine ⟨c :: suffix, by simp [ht], ?_⟩
            have hphe := pheromones_eq pm last remaining ph hph
            rw [hN] at hk'
            obtain ⟨w, hw, hall, _⟩ := argmaxLast_spec ph k hk'
            have hwc : w = pm.getD last c 0 := by
              rw [hphe] at hw
              simp [hc] at hw
              exact hw.symm
            have herase : remaining.erase c = remaining.eraseIdx k := by
              rw [← hck]; exact List.Nodup.erase_getElem hnd k hk
            simp only [greedyOkGo, herase, hok, Bool.and_true, List.all_eq_true, decide_eq_true_eq]
            intro r hr
            rw [← hwc]
            apply hall
            rw [hphe]
            exact List.mem_map.mpr ⟨r, hr, rfl⟩

end order

/-! ### The executable permutation predicate -/

theorem isPermFromZero_of_perm (n : Nat) (t : List Nat) (hp : t.Perm (List.range n)) (hh : t.head? = some 0) :
    isPermFromZero n t = true := by
  simp only [isPermFromZero, Bool.and_eq_true, beq_iff_eq, List.all_eq_true, List.contains_iff_mem,
    List.mem_range]
  refine ⟨⟨hh, by simpa using hp.length_eq⟩, ?_⟩
  intro c hc
  exact hp.mem_iff.mpr (List.mem_range.mpr hc)

theorem perm_of_isPermFromZero (n : Nat) (t : List Nat) (h : isPermFromZero n t = true) :
    t.Perm (List.range n) ∧ t.head? = some 0 := by
  simp only [isPermFromZero, Bool.and_eq_true, beq_iff_eq, List.all_eq_true, List.contains_iff_mem,
    List.mem_range] at h
  obtain ⟨⟨hh, hl⟩, hall⟩ := h
  refine ⟨?_, hh⟩
  have hsub : List.range n ⊆ t := fun c hc => hall c (List.mem_range.mp hc)
  have hsp : (List.range n).Subperm t := List.subperm_of_subset List.nodup_range hsub
  exact (hsp.perm_of_length_le (by simp [hl])).symm



/-! ### Generation does not panic in exact arithmetic -/

theorem argmaxGo_lt {F : Type} (tle : F → F → Bool) :
    ∀ (xs : List F) (i bi : Nat) (bv : F), bi < i → argmaxGo tle i bi bv xs < i + xs.length := by
  intro xs
  induction xs with
  | nil => intro i bi bv h; simpa [argmaxGo] using h
  | cons x xs ih =>
    intro i bi bv h
    simp only [argmaxGo]
    split
    · have := ih (i + 1) i x (by omega); simp; omega
    · have := ih (i + 1) bi bv (by omega); simp; omega

theorem pheromones_isSome {F : Type} (pm : PM F) (hwf : pm.wf = true) (last : Nat) (hl : last < pm.dim) :
    ∀ rem : List Nat, (∀ r ∈ rem, r < pm.dim) → ∃ ph, pheromones pm last rem = some ph ∧ ph.length = rem.length := by
  intro rem
  induction rem with
  | nil => intro _; exact ⟨[], rfl, rfl⟩
  | cons r rs ih =>
    intro h
    obtain ⟨x, hx⟩ := get?_isSome pm hwf hl (h r (by simp))
    obtain ⟨ph, hph, hlen⟩ := ih (fun y hy => h y (by simp [hy]))
    exact ⟨x :: ph, by simp [pheromones, hx, hph], by simp [hlen]⟩

theorem mem_eraseIdx_of_nodup {l : List Nat} (hnd : l.Nodup) {k : Nat} {c : Nat} (hc : l[k]? = some c) :
    ∀ r, r ∈ l.eraseIdx k → r ∈ l ∧ r ≠ c := by
  intro r hr
  obtain ⟨hk, hck⟩ := List.getElem?_eq_some_iff.mp hc
  rw [← List.Nodup.erase_getElem hnd k hk, hck] at hr
  have := (List.Nodup.mem_erase_iff hnd).mp hr
  exact ⟨this.2, this.1⟩

theorem greedyGo_isSome {F : Type} (N : Num F) (pm : PM F) (hwf : pm.wf = true) :
    ∀ (fuel : Nat) (route : List Nat) (last : Nat) (remaining : List Nat),
      last < pm.dim → (∀ r ∈ remaining, r < pm.dim) →
      (greedyGo N pm fuel route last remaining).isSome = true := by
  intro fuel
  induction fuel with
  | zero => intro route last remaining _ _; simp [greedyGo]
  | succ fuel ih =>
    intro route last remaining hl hr
    simp only [greedyGo]
    split
    · simp
    · rename_i hne
      obtain ⟨ph, hph, hlen⟩ := pheromones_isSome pm hwf last hl remaining hr
      rw [hph]
      cases ph with
      | nil =>
        have : remaining = [] := List.length_eq_zero_iff.mp (by simpa using hlen.symm)
        simp [this] at hne
      | cons x xs =>
        have hk := argmaxGo_lt N.tle xs 1 0 x (by omega)
        simp only [argmaxLast]
        have hk' : argmaxGo N.tle 1 0 x xs < remaining.length := by
          rw [← hlen]; simp; omega
        rw [List.getElem?_eq_getElem hk']
        exact ih _ _ _ (hr _ (List.getElem_mem hk'))
          (fun r hr' => hr r ((List.eraseIdx_sublist _ _).subset hr'))

section field
variable {F : Type} [Field F] [LinearOrder F] [IsStrictOrderedRing F]

theorem weights_pos (N : Num F) (hpow : ∀ x a, 0 ≤ x → 0 ≤ N.pow x a) (heps : 0 < N.eps)
    (pm : PM F) (hwf : pm.wf = true) (hnn : ∀ x ∈ pm.inner, 0 ≤ x) (dist : Nat → Nat → F) (α β : F)
    (last : Nat) (hl : last < pm.dim) :
    ∀ rem : List Nat, (∀ r ∈ rem, r < pm.dim ∧ 0 < dist last r) →
      ∃ ws, weights N pm dist α β last rem = some ws ∧ ws.length = rem.length ∧ ∀ w ∈ ws, 0 < w := by
  intro rem
  induction rem with
  | nil => intro _; exact ⟨[], rfl, rfl, by simp⟩
  | cons r rs ih =>
    intro h
    obtain ⟨hr, hd⟩ := h r (by simp)
    obtain ⟨x, hx⟩ := get?_isSome pm hwf hl hr
    obtain ⟨ws, hws, hlen, hpos⟩ := ih (fun y hy => h y (by simp [hy]))
    refine ⟨_ :: ws, by simp [weights, hx, hws]; rfl, by simp [hlen], ?_⟩
    intro w hw
    simp at hw
    rcases hw with rfl | hw
    · have h1 : 0 ≤ N.pow x α := hpow x α (hnn x (get?_mem pm hx))
      have h2 : 0 ≤ N.pow (1 / dist last r) β := hpow _ β (div_nonneg zero_le_one hd.le)
      have h3 : 0 ≤ N.pow x α * N.pow (1 / dist last r) β := mul_nonneg h1 h2
      simpa using add_pos_of_nonneg_of_pos h3 heps
    · exact hpos w hw

theorem foldl_add_pos : ∀ (l : List F) (a : F), 0 < a → (∀ w ∈ l, 0 < w) → 0 < l.foldl (· + ·) a := by
  intro l
  induction l with
  | nil => intro a ha _; simpa using ha
  | cons x xs ih =>
    intro a ha h
    simp only [List.foldl_cons]
    exact ih _ (add_pos ha (h x (by simp))) (fun w hw => h w (by simp [hw]))

theorem weightsLegal_of_pos (N : Num F) (hfin : ∀ x, N.fin x = true) (ws : List F) (hne : ws ≠ [])
    (hpos : ∀ w ∈ ws, 0 < w) : weightsLegal N ws = true := by
  cases ws with
  | nil => exact absurd rfl hne
  | cons w rest =>
    simp only [weightsLegal, Bool.and_eq_true, List.all_eq_true, decide_eq_true_eq, hfin, and_true]
    exact ⟨fun x hx => (hpos x hx).le, foldl_add_pos rest w (hpos w (by simp)) (fun x hx => hpos x (by simp [hx]))⟩

theorem sampleGo_no_panic (N : Num F) (hfin : ∀ x, N.fin x = true) (hpow : ∀ x a, 0 ≤ x → 0 ≤ N.pow x a)
    (heps : 0 < N.eps) (pm : PM F) (hwf : pm.wf = true) (hnn : ∀ x ∈ pm.inner, 0 ≤ x)
    (dist : Nat → Nat → F) (hd : ∀ i j, i ≠ j → 0 < dist i j) (α β : F) :
    ∀ (ks route : List Nat) (last : Nat) (remaining : List Nat),
      last < pm.dim → (∀ r ∈ remaining, r < pm.dim ∧ r ≠ last) → remaining.Nodup →
      sampleGo N pm dist α β ks route last remaining ≠ .panic := by
  intro ks
  induction ks with
  | nil => intro route last remaining _ _ _; simp only [sampleGo]; split <;> simp
  | cons k ks ih =>
    intro route last remaining hl hr hnd
    simp only [sampleGo]
    split
    · simp
    · rename_i hne
      obtain ⟨ws, hws, hlen, hpos⟩ := weights_pos N hpow heps pm hwf hnn dist α β last hl remaining
        (fun r h => ⟨(hr r h).1, hd last r (fun e => (hr r h).2 e.symm)⟩)
      have hne' : ws ≠ [] := by
        intro e; rw [e] at hlen
        have : remaining = [] := List.length_eq_zero_iff.mp hlen.symm
        simp [this] at hne
      rw [hws]
      simp only [weightsLegal_of_pos N hfin ws hne' hpos, if_true]
      cases hc : remaining[k]? with
      | none => simp
      | some c =>
        simp only
        have hcm : c ∈ remaining := List.mem_of_getElem? hc
        apply ih _ _ _ (hr c hcm).1
        · intro r hr'
          obtain ⟨h1, h2⟩ := mem_eraseIdx_of_nodup hnd hc r hr'
          exact ⟨(hr r h1).1, h2⟩
        · exact hnd.sublist (List.eraseIdx_sublist _ _)

end field

theorem allEntries_iff (n : Nat) (p : Nat → Nat → Bool) :
    allEntries n p = true ↔ ∀ i, i < n → ∀ j, j < n → p i j = true := by
  simp [allEntries]

theorem remaining0_mem {n r : Nat} (h : r ∈ remaining0 n) : r < n ∧ r ≠ 0 := by
  simp [remaining0, List.mem_range'] at h
  omega

theorem remaining0_nodup (n : Nat) : (remaining0 n).Nodup := by simp [remaining0, List.nodup_range']

end MahfModel.Aco
