/- Helper lemmas for C11, part 5: the operators that only COMPARE objective values (`Tournament`,
`LinearRank`, `DEBest`, `DECurrentToBest`, and `f::best`) over an arbitrary TOTAL PREORDER — no
arithmetic law, no finiteness: the carrier may have a greatest element (`+inf`), values of any magnitude
(`±f64::MAX`), and distinct elements that compare equal (`-0.0` / `+0.0`). -/
import MahfModel.Proofs.C11Err
namespace MahfModel.Selection
set_option linter.unusedSectionVars false
set_option linter.unusedSimpArgs false

section range
variable {G : Type} [Preorder G] [Std.Total (α := G) (· ≤ ·)] [DecidableLT G] [DecidableLE G]
  [Add G] [Sub G] [Mul G] [Div G] [OfNat G 0] [OfNat G 1]

theorem le_of_not_lt' {a b : G} (h : ¬ a < b) : b ≤ a := by
  rcases Std.Total.total (r := (· ≤ · : G → G → Prop)) a b with hab | hba
  · by_contra hc
    exact h (lt_of_le_not_ge hab hc)
  · exact hba

/-- `min_by_key`: the result is minimal, and it is the first such element -/
theorem firstMin_spec' {ks : List (Ind G × G)} {m : Ind G × G} (h : firstMin ks = some m) :
    (∀ x ∈ ks, m.2 ≤ x.2) ∧ ∃ pre post, ks = pre ++ m :: post ∧ ∀ y ∈ pre, m.2 < y.2 := by
  induction ks generalizing m with
  | nil => simp [firstMin] at h
  | cons x rest ih =>
    simp only [firstMin] at h
    cases hr : firstMin rest with
    | none =>
      simp only [hr] at h
      injection h with h; subst h
      have : rest = [] := firstMin_eq_none.mp hr
      subst this
      exact ⟨by simp, [], [], rfl, by simp⟩
    | some m' =>
      simp only [hr] at h
      obtain ⟨ih1, pre, post, ih2, ih3⟩ := ih hr
      split at h
      · next hlt =>
        injection h with h; subst h
        refine ⟨?_, x :: pre, post, by simp [ih2], ?_⟩
        · intro y hy
          rcases List.mem_cons.mp hy with rfl | hy
          · exact le_of_lt hlt
          · exact ih1 y hy
        · intro y hy
          rcases List.mem_cons.mp hy with rfl | hy
          · exact hlt
          · exact ih3 y hy
      · next hnlt =>
        injection h with h; subst h
        refine ⟨?_, [], rest, rfl, by simp⟩
        intro y hy
        rcases List.mem_cons.mp hy with rfl | hy
        · exact le_refl _
        · exact le_trans (le_of_not_lt' hnlt) (ih1 y hy)

/-- `f::best` on an evaluated population: never a panic, `None` exactly on the empty population, and the
result is a member (at the position of the FIRST minimum) whose objective is minimal. -/
theorem best_total' (pop : Pop G) (hev : ∀ x ∈ pop, x.obj.isSome) :
    best pop ≠ .error .panic ∧ (best pop = .ok none ↔ pop = []) ∧
    ∀ b, best pop = .ok (some b) →
      b ∈ pop ∧ ∃ a, b.obj = some a ∧ ∀ x ∈ pop, ∀ c, x.obj = some c → a ≤ c := by
  obtain ⟨ks, hks⟩ := withKeys_isSome_of_evaluated hev
  have hfst := withKeys_map_fst hks
  have hobj := withKeys_obj hks
  simp only [best, hks]
  refine ⟨by simp, ?_, ?_⟩
  · constructor
    · intro h
      injection h with h
      cases hm : firstMin ks with
      | none =>
        have : ks = [] := firstMin_eq_none.mp hm
        subst this; simpa using hfst.symm
      | some m => simp [hm] at h
    · intro hp; subst hp
      have : ks = [] := by simpa using hfst
      subst this; rfl
  · intro b h
    injection h with h
    cases hm : firstMin ks with
    | none => simp [hm] at h
    | some m =>
      simp only [hm, Option.map_some, Option.some.injEq] at h
      obtain ⟨h1, _⟩ := firstMin_spec' hm
      have hmem := firstMin_mem hm
      refine ⟨?_, m.2, ?_, ?_⟩
      · rw [← hfst, ← h]; exact List.mem_map.mpr ⟨m, hmem, rfl⟩
      · rw [← h]; exact hobj m hmem
      · intro x hx c hc
        rw [← hfst] at hx
        obtain ⟨p, hp, rfl⟩ := List.mem_map.mp hx
        have := hobj p hp
        rw [this] at hc; injection hc with hc; subst hc
        exact h1 p hp

/-- the position of the code's own best is a legal witness position, and the witness-based `bestAt`
agrees with `best` there -/
theorem best_is_legal_choice' (pop : Pop G) (b : Ind G) (h : best pop = .ok (some b)) :
    ∃ i, pop[i]? = some b ∧ BestIdx pop i ∧ bestAt pop i = best pop := by
  simp only [best] at h
  cases hk : withKeys pop with
  | none => simp [hk] at h
  | some ks =>
    simp only [hk] at h
    injection h with h
    cases hm : firstMin ks with
    | none => simp [hm] at h
    | some m =>
      simp only [hm, Option.map_some, Option.some.injEq] at h
      obtain ⟨h1, pre, post, h2, _⟩ := firstMin_spec' hm
      have hfst := withKeys_map_fst hk
      have hobj := withKeys_obj hk
      have hget : pop[pre.length]? = some b := by
        rw [← hfst, h2, ← h]; simp
      refine ⟨pre.length, hget, Or.inr ⟨b, m.2, hget, ?_, ?_⟩, ?_⟩
      · rw [← h]; exact hobj m (firstMin_mem hm)
      · intro x hx c hc
        rw [← hfst] at hx
        obtain ⟨p, hp, rfl⟩ := List.mem_map.mp hx
        have := hobj p hp
        rw [this] at hc; injection hc with hc; subst hc
        exact h1 p hp
      · simp only [bestAt, best, hk, hm, Option.map_some, hget, h]

/-- when no member is strictly better than another one (all `+inf`, all equal, `-0.0` next to `+0.0`),
EVERY position is a legal "best" position -/
theorem bestIdx_of_all_equiv (pop : Pop G) (hev : ∀ x ∈ pop, x.obj.isSome)
    (heq : ∀ x ∈ pop, ∀ y ∈ pop, ∀ a b, x.obj = some a → y.obj = some b → a ≤ b) :
    ∀ i, i < pop.length → BestIdx pop i := by
  intro i hi
  have hx : pop[i]? = some pop[i] := List.getElem?_eq_getElem hi
  have hmem : pop[i] ∈ pop := List.getElem_mem hi
  obtain ⟨a, ha⟩ := Option.isSome_iff_exists.mp (hev _ hmem)
  exact Or.inr ⟨pop[i], a, hx, ha, fun y hy b hb => heq _ hmem y hy a b ha hb⟩

/-! ### outcomes: `Err` exactly on the documented inputs, never a panic -/

theorem bestAt_outcome' (pop : Pop G) (hev : ∀ x ∈ pop, x.obj.isSome) (i : Nat) (hb : BestIdx pop i) :
    (pop = [] → bestAt pop i = .ok none) ∧ (pop ≠ [] → ∃ b, bestAt pop i = .ok (some b)) := by
  obtain ⟨ks, hks⟩ := withKeys_isSome_of_evaluated hev
  simp only [bestAt, hks]
  constructor
  · intro hp; subst hp; rfl
  · intro hp
    rcases hb with rfl | ⟨x, _, hx, _⟩
    · exact absurd rfl hp
    · exact ⟨x, by rw [hx]⟩

theorem de_outcome' (O : Ops G) (y bi : Nat) (ss : List (List Nat)) (pop : Pop G)
    (hev : ∀ x ∈ pop, x.obj.isSome) (hbi : BestIdx pop bi) :
    (select O (.deBest y) (.setsBest bi ss) pop = .error .exec ↔ pop.length < 2 * y ∨ pop = []) ∧
    select O (.deBest y) (.setsBest bi ss) pop ≠ .error .panic ∧
    (select O (.deCurrentToBest y) (.setsBest bi ss) pop = .error .exec ↔
      pop = [] ∨ ∃ ind ∈ pop, (pop.filter (fun j => !sameInd j ind)).length < 2 * y - 1) ∧
    select O (.deCurrentToBest y) (.setsBest bi ss) pop ≠ .error .panic := by
  obtain ⟨hb1, hb2⟩ := bestAt_outcome' pop hev bi hbi
  have e1 : select O (.deBest y) (.setsBest bi ss) pop =
      if pop.length < 2 * y then .error .exec else
      match bestAt pop bi with
      | .error e => .error e
      | .ok none => .error .exec
      | .ok (some b) => .ok (ss.flatMap fun s => b :: pick pop s) := rfl
  have e2 : select O (.deCurrentToBest y) (.setsBest bi ss) pop =
      match bestAt pop bi with
      | .error e => .error e
      | .ok none => .error .exec
      | .ok (some b) =>
        if pop.any (fun ind => decide ((pop.filter (fun j => !sameInd j ind)).length < 2 * y - 1)) then .error .exec
        else .ok ((pop.zip ss).flatMap fun (ind, s) => ind :: b :: pick (pop.filter (fun j => !sameInd j ind)) s) := rfl
  rw [e1, e2]
  refine ⟨?_, ?_, ?_, ?_⟩
  · by_cases h : pop.length < 2 * y
    · simp [h]
    · by_cases hp : pop = []
      · rw [hb1 hp]; simp [h, hp]
      · obtain ⟨b, hb⟩ := hb2 hp
        rw [hb]; simp [h, hp]
  · by_cases h : pop.length < 2 * y
    · simp [h]
    · by_cases hp : pop = []
      · rw [hb1 hp]; simp [h]
      · obtain ⟨b, hb⟩ := hb2 hp
        rw [hb]; simp [h]
  · by_cases hp : pop = []
    · rw [hb1 hp]; simp [hp]
    · obtain ⟨b, hb⟩ := hb2 hp
      rw [hb]
      simp only [hp, false_or]
      by_cases hany : pop.any (fun ind => decide ((pop.filter (fun j => !sameInd j ind)).length < 2 * y - 1)) = true
      · simp only [hany, if_true, true_iff]
        obtain ⟨ind, hi, hd⟩ := List.any_eq_true.mp hany
        exact ⟨ind, hi, by simpa using hd⟩
      · simp only [hany, Bool.false_eq_true, if_false, reduceCtorEq, false_iff, not_exists, not_and]
        intro ind hi hc
        exact hany (List.any_eq_true.mpr ⟨ind, hi, by simpa using hc⟩)
  · by_cases hp : pop = []
    · rw [hb1 hp]; simp
    · obtain ⟨b, hb⟩ := hb2 hp
      rw [hb]
      split_ifs <;> simp

theorem tournamentRound_ok_of' {pop : Pop G} {c : List Nat} (hev : ∀ x ∈ pop, x.obj.isSome) (hc : pick pop c ≠ []) :
    ∃ win, tournamentRound pop c = .ok win := by
  obtain ⟨ks, hks⟩ := withKeys_isSome_of_evaluated (l := pick pop c) (fun x hx => hev x (mem_of_mem_pick hx))
  simp only [tournamentRound, hks]
  cases hm : firstMin ks with
  | none =>
    have : ks = [] := firstMin_eq_none.mp hm
    have h2 := withKeys_map_fst hks
    rw [this] at h2
    exact absurd h2.symm hc
  | some m => exact ⟨m.1, rfl⟩

theorem tournamentRounds_ok_of' {pop : Pop G} {ss : List (List Nat)}
    (h : ∀ c ∈ ss, ∃ win, tournamentRound pop c = .ok win) : ∃ sel, tournamentRounds pop ss = .ok sel := by
  induction ss with
  | nil => exact ⟨[], rfl⟩
  | cons c cs ih =>
    obtain ⟨win, hw⟩ := h c (by simp)
    obtain ⟨sel, hs⟩ := ih (fun c' hc' => h c' (by simp [hc']))
    exact ⟨win :: sel, by simp [tournamentRounds, hw, hs]⟩

theorem tournament_outcome' (O : Ops G) (n size : Nat) (ss : List (List Nat)) (pop : Pop G)
    (hev : ∀ x ∈ pop, x.obj.isSome) (hl : Legal (.tournament n size) pop (.sets ss)) :
    (select O (.tournament n size) (.sets ss) pop = .error .exec ↔ pop.length < size ∨ (size = 0 ∧ n ≠ 0)) ∧
    select O (.tournament n size) (.sets ss) pop ≠ .error .panic := by
  simp only [Legal] at hl
  have e : select O (.tournament n size) (.sets ss) pop =
      if pop.length < size then .error .exec else tournamentRounds pop ss := rfl
  rw [e]
  by_cases hlt : pop.length < size
  · simp [hlt]
  · simp only [hlt, if_false, false_or]
    by_cases hs : size = 0
    · subst hs
      cases ss with
      | nil => simp [tournamentRounds, ← hl.1]
      | cons c cs =>
        have hc := hl.2 c (by simp)
        have : c = [] := List.eq_nil_of_length_eq_zero (by simpa using hc.1)
        subst this
        have hn : n ≠ 0 := by rw [← hl.1]; simp
        have herr : tournamentRound pop [] = .error .exec := by
          simp [tournamentRound, pick, withKeys, firstMin]
        simp [tournamentRounds, herr, hn]
    · have : ∀ c ∈ ss, ∃ win, tournamentRound pop c = .ok win := by
        intro c hc
        obtain ⟨h1, _, h3⟩ := hl.2 c hc
        apply tournamentRound_ok_of' hev
        intro hnil
        have := pick_length pop c h3
        rw [hnil, h1] at this
        simp at this; omega
      obtain ⟨sel, hsel⟩ := tournamentRounds_ok_of' this
      simp [hsel, hs]

theorem tournamentRound_spec' {pop : Pop G} {c : List Nat} {win : Ind G} (h : tournamentRound pop c = .ok win) :
    ∃ a, win.obj = some a ∧ (∀ x ∈ pick pop c, ∃ b, x.obj = some b ∧ a ≤ b) := by
  simp only [tournamentRound] at h
  cases hk : withKeys (pick pop c) with
  | none => simp [hk] at h
  | some ks =>
    simp only [hk] at h
    cases hm : firstMin ks with
    | none => simp [hm] at h
    | some m =>
      simp only [hm] at h
      injection h with h
      obtain ⟨h1, _⟩ := firstMin_spec' hm
      have hobj := withKeys_obj hk
      have hfst := withKeys_map_fst hk
      refine ⟨m.2, ?_, ?_⟩
      · rw [← h]; exact hobj m (firstMin_mem hm)
      · intro x hx
        rw [← hfst] at hx
        obtain ⟨p, hp, rfl⟩ := List.mem_map.mp hx
        exact ⟨p.2, hobj p hp, h1 p hp⟩

theorem tournamentRounds_spec' {pop : Pop G} {ss : List (List Nat)} {sel : Pop G}
    (h : tournamentRounds pop ss = .ok sel) :
    List.Forall₂ (fun c win => tournamentRound pop c = .ok win) ss sel := by
  induction ss generalizing sel with
  | nil => simp [tournamentRounds] at h; subst h; exact List.Forall₂.nil
  | cons c cs ih =>
    simp only [tournamentRounds] at h
    cases hc : tournamentRound pop c with
    | error e => simp [hc] at h
    | ok x =>
      simp only [hc] at h
      cases hcs : tournamentRounds pop cs with
      | error e => simp [hcs] at h
      | ok xs =>
        simp only [hcs] at h
        injection h with h; subst h
        exact List.Forall₂.cons hc (ih hcs)

/-- a tournament over the whole population returns a best individual, every time -/
theorem tournament_whole_population' (O : Ops G) (n : Nat) (ss : List (List Nat)) (pop sel : Pop G)
    (hl : Legal (.tournament n pop.length) pop (.sets ss))
    (h : select O (.tournament n pop.length) (.sets ss) pop = .ok sel) :
    ∀ win ∈ sel, ∃ a, win.obj = some a ∧ ∀ x ∈ pop, ∃ b, x.obj = some b ∧ a ≤ b := by
  have e : select O (.tournament n pop.length) (.sets ss) pop =
      if pop.length < pop.length then .error .exec else tournamentRounds pop ss := rfl
  rw [e] at h
  simp only [lt_irrefl, if_false] at h
  have hw := (tournamentRounds_spec' h).imp fun _ _ hc => tournamentRound_spec' hc
  simp only [Legal] at hl
  intro win hwin
  obtain ⟨c, hc, a, ha, hmin⟩ := forall₂_exists_left hw hwin
  obtain ⟨h1, h2, h3⟩ := hl.2 c hc
  have hperm := pick_perm_of_full pop c (by simpa using h1) h2 h3
  exact ⟨a, ha, fun x hx => hmin x (hperm.mem_iff.mpr hx)⟩

theorem objectives_of_evaluated' {pop : Pop G} (h : ∀ x ∈ pop, x.obj.isSome) :
    ∃ objs, objectives pop = some objs ∧ objs.length = pop.length := by
  induction pop with
  | nil => exact ⟨[], rfl, rfl⟩
  | cons a l ih =>
    obtain ⟨objs, h1, h2⟩ := ih (fun x hx => h x (by simp [hx]))
    obtain ⟨o, ho⟩ := Option.isSome_iff_exists.mp (h a (by simp))
    refine ⟨o :: objs, ?_, by simp [h2]⟩
    simp only [objectives] at h1
    simp [objectives, List.mapM_cons, ho, h1]

theorem linearRank_outcome' (O : Ops G) (n : Nat) (is : List Nat) (pop : Pop G) (hev : ∀ x ∈ pop, x.obj.isSome) :
    (select O (.linearRank n) (.idx is) pop = .error .exec ↔ pop = []) ∧
    select O (.linearRank n) (.idx is) pop ≠ .error .panic := by
  obtain ⟨objs, h1, h2⟩ := objectives_of_evaluated' hev
  have e : select O (.linearRank n) (.idx is) pop =
      match objectives pop with
      | none => .error .panic
      | some objs =>
        if (linearRankWeights (reverseRank objs)).isEmpty then .error .exec
        else if maxNat (linearRankWeights (reverseRank objs)) = 0 then .error .exec else .ok (pick pop is) := rfl
  rw [e, h1]
  simp only
  have hrl : (reverseRank objs).length = objs.length := by simp [reverseRank]
  cases pop with
  | nil =>
    have : objs = [] := List.eq_nil_of_length_eq_zero (by simpa using h2)
    subst this; simp [reverseRank, linearRankWeights]
  | cons x xs =>
    have hlen : (reverseRank objs).length = xs.length + 1 := by rw [hrl, h2]; simp
    have hne : (linearRankWeights (reverseRank objs)).isEmpty = false := by
      cases hr : reverseRank objs with
      | nil => rw [hr] at hlen; simp at hlen
      | cons r rs => simp [linearRankWeights]
    have hpos : maxNat (linearRankWeights (reverseRank objs)) ≠ 0 := by
      cases hr : reverseRank objs with
      | nil => rw [hr] at hlen; simp at hlen
      | cons r rs =>
        have hrm : r ≤ maxNat (r :: rs) := le_maxNat _ r (by simp)
        have : maxNat (r :: rs) + 1 - r ∈ linearRankWeights (r :: rs) := by simp [linearRankWeights]
        have := le_maxNat _ _ this
        omega
    simp [hne, hpos]

/-! ### block contents of the DE selections -/

theorem bestAt_some' {pop : Pop G} {i : Nat} {b : Ind G} (h : bestAt pop i = .ok (some b)) : pop[i]? = some b := by
  simp only [bestAt] at h
  cases hk : withKeys pop with
  | none => simp [hk] at h
  | some ks => simp only [hk] at h; injection h with h

theorem bestIdx_spec' {pop : Pop G} {i : Nat} {b : Ind G} (hb : BestIdx pop i) (h : pop[i]? = some b) :
    b ∈ pop ∧ ∃ a, b.obj = some a ∧ ∀ x ∈ pop, ∀ c, x.obj = some c → a ≤ c := by
  refine ⟨List.mem_of_getElem? h, ?_⟩
  rcases hb with rfl | ⟨x, a, hx, ha, hmin⟩
  · simp at h
  · rw [h] at hx; injection hx with hx; subst hx
    exact ⟨a, ha, hmin⟩

theorem de_best_shape' (O : Ops G) (y bi : Nat) (ss : List (List Nat)) (pop sel : Pop G)
    (hl : Legal (.deBest y) pop (.setsBest bi ss)) (h : select O (.deBest y) (.setsBest bi ss) pop = .ok sel) :
    ∃ b a, pop[bi]? = some b ∧ b.obj = some a ∧ (∀ x ∈ pop, ∀ c, x.obj = some c → a ≤ c) ∧
      sel = (ss.map fun s => b :: pick pop s).flatten ∧ ss.length = pop.length ∧
      ∀ s ∈ ss, s.length = 2 * y ∧ s.Nodup ∧ inRange pop.length s := by
  simp only [Legal] at hl
  have e1 : select O (.deBest y) (.setsBest bi ss) pop =
      if pop.length < 2 * y then .error .exec else
      match bestAt pop bi with
      | .error e => .error e
      | .ok none => .error .exec
      | .ok (some b) => .ok (ss.flatMap fun s => b :: pick pop s) := rfl
  rw [e1] at h
  split_ifs at h with hlt
  split at h
  · cases h
  · cases h
  · next b hb =>
    injection h with h; subst h
    have hbi := bestAt_some' hb
    obtain ⟨_, a, ha, hmin⟩ := bestIdx_spec' hl.2 hbi
    refine ⟨b, a, hbi, ha, hmin, by rw [List.flatMap_def], hl.1.1, fun s hs => ?_⟩
    obtain ⟨h1, h2, h3⟩ := hl.1.2 s hs
    exact ⟨by rw [h1]; omega, h2, h3⟩

theorem de_ctb_shape' (O : Ops G) (y bi : Nat) (ss : List (List Nat)) (pop sel : Pop G)
    (hl : Legal (.deCurrentToBest y) pop (.setsBest bi ss))
    (h : select O (.deCurrentToBest y) (.setsBest bi ss) pop = .ok sel) :
    ∃ b a, pop[bi]? = some b ∧ b.obj = some a ∧ (∀ x ∈ pop, ∀ c, x.obj = some c → a ≤ c) ∧
      sel = ((pop.zip ss).map fun (p : Ind G × List Nat) =>
        p.1 :: b :: pick (pop.filter (fun j => !sameInd j p.1)) p.2).flatten ∧ ss.length = pop.length ∧
      ∀ p ∈ pop.zip ss, p.2.length = 2 * y - 1 ∧ p.2.Nodup ∧
        inRange (pop.filter (fun j => !sameInd j p.1)).length p.2 := by
  simp only [Legal] at hl
  have e2 : select O (.deCurrentToBest y) (.setsBest bi ss) pop =
      match bestAt pop bi with
      | .error e => .error e
      | .ok none => .error .exec
      | .ok (some b) =>
        if pop.any (fun ind => decide ((pop.filter (fun j => !sameInd j ind)).length < 2 * y - 1)) then .error .exec
        else .ok ((pop.zip ss).flatMap fun (ind, s) => ind :: b :: pick (pop.filter (fun j => !sameInd j ind)) s) := rfl
  rw [e2] at h
  split at h
  · cases h
  · cases h
  · next b hb =>
    split_ifs at h with hany
    injection h with h; subst h
    have hbi := bestAt_some' hb
    obtain ⟨_, a, ha, hmin⟩ := bestIdx_spec' hl.2 hbi
    refine ⟨b, a, hbi, ha, hmin, by rw [List.flatMap_def], hl.1.1, fun p hp => ?_⟩
    obtain ⟨h1, h2, h3⟩ := hl.1.2 p hp
    refine ⟨?_, h2, h3⟩
    have hbig : ¬ (pop.filter (fun j => !sameInd j p.1)).length < 2 * y - 1 := by
      intro hc
      apply hany
      rw [List.any_eq_true]
      exact ⟨p.1, (List.of_mem_zip hp).1, by simpa using hc⟩
    rw [h1]; omega

end range
end MahfModel.Selection
