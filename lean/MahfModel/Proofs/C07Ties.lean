/- Helper lemmas for the tie-agnostic (witness-based) C07 models of `Model/PopMachineC07.lean`. -/
import MahfModel.Proofs.C07
import MahfModel.Model.PopMachineC07
namespace MahfModel.PopMachine

set_option linter.unusedSectionVars false
variable {O : Type} [LinearOrder O]

/-! ### legal witnesses for the best of a population -/

theorem notWorse_iff (a b : Ind O) : notWorse a b = true ↔ objLe a b := by
  unfold notWorse objLe
  cases ha : a.obj <;> cases hb : b.obj <;> simp

theorem legalBest_iff (p : List (Ind O)) (w : Nat) :
    legalBest p w = true ↔ ∃ c, p[w]? = some c ∧ ∀ i ∈ p, objLe c i := by
  unfold legalBest
  cases h : p[w]? with
  | none => simp
  | some c => simp [notWorse_iff]

theorem legalBest_keyed (p : List (Ind O)) (w : Nat) (h : legalBest p w = true) : ∃ kp, keyed p = some kp := by
  obtain ⟨c, _, hc⟩ := (legalBest_iff p w).mp h
  apply keyed_some_of_all
  intro i hi
  obtain ⟨x, y, _, hy, _⟩ := hc i hi
  simp [hy]

/-- The core step: offering ANY minimal member `c` of `p` keeps "the record is a minimum of everything
seen so far". -/
theorem bestUpdate_isMinOf (b b' : Option (Ind O)) (r : Bool) (S p : List (Ind O)) (c : Ind O)
    (hc1 : c ∈ p) (hc2 : ∀ i ∈ p, objLe c i) (hb : IsMinOf b S) (h : bestUpdate b c = some (b', r)) :
    IsMinOf b' (S ++ p) := by
  cases b with
  | none =>
    simp only [IsMinOf] at hb
    subst hb
    simp only [bestUpdate] at h
    injection h with h; injection h with h1 h2; subst h1
    simp only [Ind.clone_eq, IsMinOf]
    exact ⟨by simpa using hc1, by simpa using hc2⟩
  | some x =>
    obtain ⟨hx1, hx2⟩ := hb
    simp only [bestUpdate] at h
    split at h
    · rename_i co bo hco hbo
      by_cases hlt : co < bo
      · simp only [hlt, if_true] at h
        injection h with h; injection h with h1 h2; subst h1
        simp only [Ind.clone_eq, IsMinOf]
        refine ⟨by simp [hc1], ?_⟩
        intro i hi
        rcases List.mem_append.mp hi with hi | hi
        · obtain ⟨x', y', e1, e2, hle⟩ := hx2 i hi
          rw [hbo] at e1; injection e1 with e1; subst e1
          exact ⟨co, y', hco, e2, le_of_lt (lt_of_lt_of_le hlt hle)⟩
        · exact hc2 i hi
      · simp only [hlt, if_false] at h
        injection h with h; injection h with h1 h2; subst h1
        simp only [IsMinOf]
        refine ⟨by simp [hx1], ?_⟩
        intro i hi
        rcases List.mem_append.mp hi with hi | hi
        · exact hx2 i hi
        · obtain ⟨x', y', e1, e2, hle⟩ := hc2 i hi
          rw [hco] at e1; injection e1 with e1; subst e1
          exact ⟨bo, y', hbo, e2, le_trans (not_lt.mp hlt) hle⟩
    · cases h

/-- Unfolding of one witness step on a non-empty, legal input. -/
theorem feedW_some (b b' : Option (Ind O)) (p : List (Ind O)) (w : Nat) (hl : legalBest p w = true)
    (h : feedW b p w = some b') :
    ∃ c r, p[w]? = some c ∧ c ∈ p ∧ (∀ i ∈ p, objLe c i) ∧ bestUpdate b c = some (b', r) := by
  obtain ⟨c, hw, hc⟩ := (legalBest_iff p w).mp hl
  obtain ⟨kp, hk⟩ := legalBest_keyed p w hl
  simp only [feedW, bestUpdateStepW, hk, hw, Option.map_map, Option.map_eq_some_iff] at h
  obtain ⟨r, hr, rfl⟩ := h
  exact ⟨c, r.2, hw, List.mem_of_getElem? hw, hc, by simpa using hr⟩

theorem feedW_nil (b : Option (Ind O)) (w : Nat) : feedW b [] w = some b := by
  simp [feedW, bestUpdateStepW, keyed]

theorem feedW_isMinOf (b b' : Option (Ind O)) (S p : List (Ind O)) (w : Nat)
    (hl : p.isEmpty = true ∨ legalBest p w = true) (hb : IsMinOf b S) (h : feedW b p w = some b') :
    IsMinOf b' (S ++ p) := by
  rcases hl with hl | hl
  · have : p = [] := by simpa using hl
    subst this
    rw [feedW_nil] at h
    injection h with h; subst h
    simpa using hb
  · obtain ⟨c, r, _, hc1, hc2, hu⟩ := feedW_some b b' p w hl h
    exact bestUpdate_isMinOf b b' r S p c hc1 hc2 hb hu

theorem feedAllW_isMinOf (hist : List (List (Ind O) × Nat)) (b r : Option (Ind O)) (S : List (Ind O))
    (hl : legalHistory hist = true) (hb : IsMinOf b S) (h : feedAllW b hist = some r) :
    IsMinOf r (S ++ (hist.map (·.1)).flatten) := by
  induction hist generalizing b S with
  | nil => simp [feedAllW] at h; subst h; simpa using hb
  | cons pw ps ih =>
    obtain ⟨p, w⟩ := pw
    simp only [feedAllW] at h
    simp only [legalHistory, Bool.and_eq_true, Bool.or_eq_true] at hl
    split at h
    · cases h
    · rename_i b' hf
      have := ih b' (S ++ p) hl.2 (feedW_isMinOf b b' S p w hl.1 hb hf) h
      simpa [List.append_assoc] using this

/-- Two minima of the same list carry the same objective value. -/
theorem isMinOf_obj_unique (a b : Option (Ind O)) (S : List (Ind O)) (ha : IsMinOf a S) (hb : IsMinOf b S) :
    a.bind (·.obj) = b.bind (·.obj) := by
  cases a with
  | none =>
    simp only [IsMinOf] at ha; subst ha
    cases b with
    | none => rfl
    | some y => simp [IsMinOf] at hb
  | some x =>
    cases b with
    | none => simp only [IsMinOf] at hb; subst hb; simp [IsMinOf] at ha
    | some y =>
      obtain ⟨x1, x2, e1, e2, h12⟩ := ha.2 y hb.1
      obtain ⟨y1, y2, f1, f2, h21⟩ := hb.2 x ha.1
      rw [e1] at f2; rw [e2] at f1
      injection f1 with f1; injection f2 with f2
      subst f1 f2
      simp [e1, e2, le_antisymm h12 h21]

/-- The first minimum is a legal witness. -/
theorem firstMin_legal (p : List (Ind O)) (m : Ind O) (h : bestIndividual p = some (some m)) :
    ∃ w, legalBest p w = true ∧ p[w]? = some m := by
  obtain ⟨hm1, hm2⟩ := bestIndividual_min p m h
  obtain ⟨w, hw, hw2⟩ := List.getElem_of_mem hm1
  refine ⟨w, (legalBest_iff p w).mpr ⟨m, ?_, hm2⟩, ?_⟩ <;> simp [List.getElem?_eq_getElem hw, hw2]

/-- History-level monotonicity: whatever is fed afterwards (legal witnesses), the record is the same
individual or a strictly better one. -/
theorem feedAllW_monotone (hist : List (List (Ind O) × Nat)) (x : Ind O) (r : Option (Ind O))
    (hl : legalHistory hist = true) (h : feedAllW (some x) hist = some r) :
    ∃ y, r = some y ∧ (y = x ∨ objLt y x) := by
  induction hist generalizing x with
  | nil => simp [feedAllW] at h; exact ⟨x, h.symm, Or.inl rfl⟩
  | cons pw ps ih =>
    obtain ⟨p, w⟩ := pw
    simp only [feedAllW] at h
    simp only [legalHistory, Bool.and_eq_true, Bool.or_eq_true] at hl
    split at h
    · cases h
    · rename_i b' hf
      rcases hl.1 with hp | hp
      · have : p = [] := by simpa using hp
        subst this
        rw [feedW_nil] at hf
        injection hf with hf; subst hf
        exact ih x hl.2 h
      · obtain ⟨c, rr, _, _, _, hu⟩ := feedW_some (some x) b' p w hp hf
        simp only [bestUpdate] at hu
        split at hu
        · rename_i co bo hco hbo
          by_cases hlt : co < bo
          · simp only [hlt, if_true] at hu
            injection hu with hu; injection hu with h1 h2; subst h1
            rw [Ind.clone_eq] at h
            obtain ⟨y, hy, hyc⟩ := ih c hl.2 h
            refine ⟨y, hy, Or.inr ?_⟩
            rcases hyc with rfl | ⟨a1, a2, e1, e2, hlt2⟩
            · exact ⟨co, bo, hco, hbo, hlt⟩
            · rw [hco] at e2; injection e2 with e2; subst e2
              exact ⟨a1, bo, e1, hbo, lt_trans hlt2 hlt⟩
          · simp only [hlt, if_false] at hu
            injection hu with hu; injection hu with h1 h2; subst h1
            exact ih x hl.2 h
        · cases hu

/-! ### archive: any admissible sort -/

theorem sortedByObj_iff (s : List (Ind O)) :
    sortedByObj s = true ↔ s.Pairwise (fun a b => objLe a b) := by
  induction s with
  | nil => simp [sortedByObj]
  | cons x xs ih =>
    simp only [sortedByObj, Bool.and_eq_true, List.all_eq_true, List.pairwise_cons, ih]
    constructor
    · rintro ⟨h1, h2⟩; exact ⟨fun y hy => (notWorse_iff x y).mp (h1 y hy), h2⟩
    · rintro ⟨h1, h2⟩; exact ⟨fun y hy => (notWorse_iff x y).mpr (h1 y hy), h2⟩

theorem legalSort_iff (all s : List (Ind O)) :
    legalSort all s = true ↔ s.Perm all ∧ s.Pairwise (fun a b => objLe a b) := by
  simp [legalSort, List.isPerm_iff, sortedByObj_iff]

/-- One archive update with ANY legal sort witness: same four facts as `archiveUpdate_spec`. -/
theorem archiveUpdateW_spec (arch pop arch' s : List (Ind O)) (k : Nat)
    (hl : legalSort (arch ++ pop) s = true) (h : archiveUpdateW arch pop k s = some arch') :
    ∃ rest, (arch' ++ rest).Perm (arch ++ pop) ∧ arch'.length = min k (arch ++ pop).length ∧
      (∀ x ∈ arch', ∀ y ∈ rest, ¬ objLt y x) ∧
      ((∀ i ∈ arch ++ pop, i.obj.isSome) → ∀ x ∈ arch', (arch ++ pop).countP (fun z => ltB z x) < k) := by
  obtain ⟨hperm, hsorted⟩ := (legalSort_iff _ _).mp hl
  simp only [archiveUpdateW] at h
  split at h
  · -- fewer than two elements: nothing is compared; identical to the deterministic model
    rename_i hlen
    have : archiveUpdate arch pop k = some arch' := by
      simp only [archiveUpdate]; rw [if_pos hlen]; exact h
    exact archiveUpdate_spec arch pop arch' k this
  · rename_i hlen
    simp only [Option.map_eq_some_iff] at h
    obtain ⟨kl, hkl, rfl⟩ := h
    have hsplit : (s.take k ++ s.drop k).Pairwise (fun a b => objLe a b) := by
      rw [List.take_append_drop]; exact hsorted
    refine ⟨s.drop k, by rw [List.take_append_drop]; exact hperm, ?_, ?_, ?_⟩
    · rw [List.length_take, hperm.length_eq]
    · intro x hx y hy ⟨yo, xo, hyo, hxo, hlt⟩
      obtain ⟨x1, y1, e1, e2, hle⟩ := (List.pairwise_append.mp hsplit).2.2 x hx y hy
      rw [e1] at hxo; rw [e2] at hyo
      injection hxo with hxo; injection hyo with hyo
      subst hxo hyo
      exact absurd hlt (not_lt.mpr hle)
    · intro hev x hx
      -- go through the keyed version of `s`
      have hevs : ∀ i ∈ s, i.obj.isSome := fun i hi => hev i (hperm.mem_iff.mp hi)
      obtain ⟨ks, hks⟩ := keyed_some_of_all s hevs
      obtain ⟨hk1, hk2⟩ := keyed_spec s ks hks
      have hksorted : ks.Pairwise (fun a b => a.2 ≤ b.2) := by
        have : (ks.map (·.1)).Pairwise (fun a b => objLe a b) := by rw [hk1]; exact hsorted
        rw [List.pairwise_map] at this
        refine this.imp_of_mem ?_
        intro a b ha hb hab
        obtain ⟨x1, y1, e1, e2, hle⟩ := hab
        rw [hk2 a ha] at e1; rw [hk2 b hb] at e2
        injection e1 with e1; injection e2 with e2
        subst e1 e2; exact hle
      have hxs : x ∈ (ks.map (·.1)).take k := by rw [hk1]; exact hx
      rw [← List.map_take] at hxs
      rcases List.mem_map.mp hxs with ⟨xk, hxk, rfl⟩
      have hc := sorted_take_count (fun x : Ind O × O => x.2) ks k hksorted xk hxk
      have e1 := hk2 xk (List.mem_of_mem_take hxk)
      rw [← hperm.countP_eq, ← hk1, List.countP_map]
      have : List.countP ((fun z => ltB z xk.1) ∘ fun x : Ind O × O => x.1) ks =
          List.countP (fun z => decide (z.2 < xk.2)) ks := by
        apply List.countP_congr
        intro z hz
        have e2 := hk2 z hz
        simp [ltB, e1, e2]
      rw [this]
      exact hc

/-- The invariant step from the four facts of a single update (deterministic or witness model). -/
theorem archInv_step_gen (k : Nat) (arch rest shown pop arch' : List (Ind O))
    (hinv : ArchInv k arch rest shown) (hev : ∀ i ∈ shown ++ pop, i.obj.isSome)
    (hspec : ∃ r1, (arch' ++ r1).Perm (arch ++ pop) ∧ arch'.length = min k (arch ++ pop).length ∧
      (∀ x ∈ arch', ∀ y ∈ r1, ¬ objLt y x) ∧
      ((∀ i ∈ arch ++ pop, i.obj.isSome) → ∀ x ∈ arch', (arch ++ pop).countP (fun z => ltB z x) < k)) :
    ∃ rest', ArchInv k arch' rest' (shown ++ pop) := by
  obtain ⟨hperm, hlen, hdom⟩ := hinv
  have hevA : ∀ i ∈ arch ++ pop, i.obj.isSome := by
    intro i hi
    rcases List.mem_append.mp hi with hi | hi
    · exact hev i (List.mem_append_left _ (hperm.mem_iff.mp (List.mem_append_left _ hi)))
    · exact hev i (List.mem_append_right _ hi)
  obtain ⟨r1, hp1, hl1, hd1, hc1⟩ := hspec
  refine ⟨r1 ++ rest, ?_, ?_, ?_⟩
  · have : (arch' ++ (r1 ++ rest)).Perm ((arch ++ pop) ++ rest) := by
      rw [← List.append_assoc]; exact hp1.append_right rest
    refine this.trans ?_
    have : ((arch ++ pop) ++ rest).Perm ((arch ++ rest) ++ pop) := by
      rw [List.append_assoc, List.append_assoc]
      exact List.Perm.append_left arch List.perm_append_comm
    exact this.trans (hperm.append_right pop)
  · rw [hl1]; simp only [List.length_append]; rw [hlen]; omega
  · intro x hx y hy
    rcases List.mem_append.mp hy with hy | hy
    · exact hd1 x hx y hy
    · intro hlt
      have hfull : arch.length = k := by
        have h1 := hperm.length_eq
        have h2 := List.length_pos_of_mem hy
        simp only [List.length_append] at h1
        omega
      have hcount := hc1 hevA x hx
      have hall : arch.countP (fun z => ltB z x) = arch.length := by
        rw [List.countP_eq_length]
        intro a ha
        rw [ltB_iff]
        obtain ⟨yo, xo, hyo, hxo, hyx⟩ := hlt
        have hae := hevA a (List.mem_append_left _ ha)
        cases hao : a.obj with
        | none => simp [hao] at hae
        | some ao =>
          have : ¬ objLt y a := hdom a ha y hy
          have hle : ao ≤ yo := by
            apply not_lt.mp
            intro hh
            exact this ⟨yo, ao, hyo, hao, hh⟩
          exact ⟨ao, xo, hao, hxo, lt_of_le_of_lt hle hyx⟩
      rw [List.countP_append] at hcount
      omega

theorem archFeedW_inv (k : Nat) (hist : List (List (Ind O) × List (Ind O))) (arch rest shown final : List (Ind O))
    (hinv : ArchInv k arch rest shown) (hev : ∀ i ∈ shown ++ (hist.map (·.1)).flatten, i.obj.isSome)
    (hl : legalArchHistory k arch hist = true) (h : archFeedW k arch hist = some final) :
    ∃ rest', ArchInv k final rest' (shown ++ (hist.map (·.1)).flatten) := by
  induction hist generalizing arch rest shown with
  | nil => simp [archFeedW] at h; subst h; exact ⟨rest, by simpa using hinv⟩
  | cons ps pss ih =>
    obtain ⟨p, s⟩ := ps
    simp only [archFeedW] at h
    simp only [legalArchHistory, Bool.and_eq_true] at hl
    split at h
    · cases h
    · rename_i a' ha
      rw [ha] at hl
      obtain ⟨r', hinv'⟩ := archInv_step_gen k arch rest shown p a' hinv
        (by intro i hi; apply hev; simp at hi ⊢; rcases hi with hi | hi <;> simp [hi])
        (archiveUpdateW_spec arch p a' s k hl.1 ha)
      have := ih a' r' (shown ++ p) hinv' (by simpa [List.append_assoc] using hev) hl.2 h
      simpa [List.append_assoc] using this

/-! ### the kept objective VALUES are canonical -/

theorem objKeys_append (a b : List (Ind O)) : objKeys (a ++ b) = objKeys a ++ objKeys b := by
  simp [objKeys, List.filterMap_append]

theorem objKeys_length (a : List (Ind O)) (h : ∀ i ∈ a, i.obj.isSome) : (objKeys a).length = a.length := by
  induction a with
  | nil => rfl
  | cons x xs ih =>
    have hx := h x List.mem_cons_self
    cases ho : x.obj with
    | none => simp [ho] at hx
    | some o =>
      simp only [objKeys, List.filterMap_cons, ho, List.length_cons]
      have := ih (fun i hi => h i (List.mem_cons_of_mem _ hi))
      simp only [objKeys] at this
      omega

theorem mem_objKeys (a : List (Ind O)) (v : O) : v ∈ objKeys a ↔ ∃ i ∈ a, i.obj = some v := by
  simp [objKeys, List.mem_filterMap]

/-- From the invariant (sub-multiset, full, nothing omitted strictly better) to the canonical form:
the sorted objective values of the archive are the first `k` sorted objective values of everything shown. -/
theorem archInv_keys (k : Nat) (arch rest shown : List (Ind O)) (hinv : ArchInv k arch rest shown)
    (hev : ∀ i ∈ shown, i.obj.isSome) :
    sortByKey id (objKeys arch) = (sortByKey id (objKeys shown)).take k := by
  obtain ⟨hperm, hlen, hdom⟩ := hinv
  have hevA : ∀ i ∈ arch, i.obj.isSome := fun i hi => hev i (hperm.mem_iff.mp (List.mem_append_left _ hi))
  have hevR : ∀ i ∈ rest, i.obj.isSome := fun i hi => hev i (hperm.mem_iff.mp (List.mem_append_right _ hi))
  -- sorted(arch keys) ++ sorted(rest keys) is sorted and a permutation of the keys shown
  have hA := sortByKey_sorted (id : O → O) (objKeys arch)
  have hR := sortByKey_sorted (id : O → O) (objKeys rest)
  have hAp := sortByKey_perm (id : O → O) (objKeys arch)
  have hRp := sortByKey_perm (id : O → O) (objKeys rest)
  have hcat : (sortByKey id (objKeys arch) ++ sortByKey id (objKeys rest)).Pairwise (fun a b : O => a ≤ b) := by
    rw [List.pairwise_append]
    refine ⟨by simpa using hA, by simpa using hR, ?_⟩
    intro a ha b hb
    have ha' := (mem_objKeys arch a).mp (hAp.mem_iff.mp ha)
    have hb' := (mem_objKeys rest b).mp (hRp.mem_iff.mp hb)
    obtain ⟨x, hx, hxo⟩ := ha'
    obtain ⟨y, hy, hyo⟩ := hb'
    apply not_lt.mp
    intro hlt
    exact hdom x hx y hy ⟨b, a, hyo, hxo, hlt⟩
  have hpermK : (sortByKey id (objKeys arch) ++ sortByKey id (objKeys rest)).Perm (sortByKey id (objKeys shown)) := by
    refine (hAp.append hRp).trans ?_
    rw [← objKeys_append]
    refine List.Perm.trans ?_ (sortByKey_perm id (objKeys shown)).symm
    exact hperm.filterMap _
  have heq := List.Perm.eq_of_pairwise (le := fun a b : O => a ≤ b)
    (fun a b _ _ h1 h2 => le_antisymm h1 h2) hcat (by simpa using sortByKey_sorted (id : O → O) (objKeys shown)) hpermK
  rw [← heq]
  have hlenA : (sortByKey id (objKeys arch)).length = arch.length := by
    rw [hAp.length_eq, objKeys_length arch hevA]
  have hlenR : (sortByKey id (objKeys rest)).length = rest.length := by
    rw [hRp.length_eq, objKeys_length rest hevR]
  have htot : arch.length + rest.length = shown.length := by
    have := hperm.length_eq; simpa using this
  by_cases hk : k ≤ shown.length
  · have : arch.length = k := by omega
    rw [List.take_append_of_le_length (by omega), List.take_of_length_le (by omega)]
  · have hr0 : rest.length = 0 := by omega
    have : sortByKey id (objKeys rest) = [] := List.eq_nil_of_length_eq_zero (by omega)
    rw [this, List.append_nil, List.take_of_length_le (by omega)]

/-! ### the deterministic model is an instance of the witness model -/

theorem sortInds_legal (all : List (Ind O)) (hev : ∀ i ∈ all, i.obj.isSome) : legalSort all (sortInds all) = true := by
  obtain ⟨kl, hkl⟩ := keyed_some_of_all all hev
  obtain ⟨hk1, hk2⟩ := keyed_spec all kl hkl
  rw [legalSort_iff]
  simp only [sortInds, hkl]
  have hperm := sortByKey_perm (fun x : Ind O × O => x.2) kl
  refine ⟨by rw [← hk1]; exact hperm.map _, ?_⟩
  rw [List.pairwise_map]
  refine (sortByKey_sorted (fun x : Ind O × O => x.2) kl).imp_of_mem ?_
  intro a b ha hb hab
  exact ⟨a.2, b.2, hk2 a (hperm.mem_iff.mp ha), hk2 b (hperm.mem_iff.mp hb), hab⟩

theorem archiveUpdate_eq_W (arch pop : List (Ind O)) (k : Nat) :
    archiveUpdate arch pop k = archiveUpdateW arch pop k (sortInds (arch ++ pop)) := by
  simp only [archiveUpdate, archiveUpdateW]
  split
  · rfl
  · cases hk : keyed (arch ++ pop) with
    | none => rfl
    | some kl => simp [sortInds, hk, List.map_take]

/-! ### sub-multisets -/

theorem subBag_perm (a b : List (Ind O)) (h : subBag a b = true) : ∃ r, (a ++ r).Perm b := by
  induction a generalizing b with
  | nil => exact ⟨b, by simp⟩
  | cons x xs ih =>
    simp only [subBag, Bool.and_eq_true, List.contains_iff_mem] at h
    obtain ⟨r, hr⟩ := ih (b.erase x) h.2
    refine ⟨r, ?_⟩
    have : (x :: (xs ++ r)).Perm (x :: b.erase x) := List.Perm.cons x hr
    exact this.trans (List.perm_cons_erase h.1).symm

theorem subBag_of_perm (a r b : List (Ind O)) (h : (a ++ r).Perm b) : subBag a b = true := by
  induction a generalizing b with
  | nil => rfl
  | cons x xs ih =>
    have hx : x ∈ b := h.mem_iff.mp (by simp)
    simp only [subBag, Bool.and_eq_true, List.contains_iff_mem]
    refine ⟨hx, ih (b.erase x) ?_⟩
    have h2 : (x :: (xs ++ r)).Perm (x :: b.erase x) := h.trans (List.perm_cons_erase hx)
    exact (List.perm_cons x).mp h2


theorem subBag_eraseAll (a b : List (Ind O)) (h : subBag a b = true) : (a ++ eraseAll b a).Perm b := by
  induction a generalizing b with
  | nil => simp [eraseAll]
  | cons x xs ih =>
    simp only [subBag, Bool.and_eq_true, List.contains_iff_mem] at h
    have := ih (b.erase x) h.2
    simp only [eraseAll]
    have h2 : (x :: (xs ++ eraseAll (b.erase x) xs)).Perm (x :: b.erase x) := List.Perm.cons x this
    exact h2.trans (List.perm_cons_erase h.1).symm

theorem eraseAll_append_left (a e : List (Ind O)) : eraseAll (a ++ e) a = e := by
  induction a with
  | nil => rfl
  | cons x xs ih => simp [eraseAll, ih]

/-! ### the executable archive predicate is the specification -/

/-- Completeness: whatever the invariant allows, the predicate accepts. -/
theorem kBestOk_of_archInv (k : Nat) (arch rest shown : List (Ind O)) (hinv : ArchInv k arch rest shown)
    (hev : ∀ i ∈ shown, i.obj.isSome) : kBestOk k shown arch = true := by
  have hk := archInv_keys k arch rest shown hinv hev
  obtain ⟨hperm, hlen, _⟩ := hinv
  simp only [kBestOk, Bool.and_eq_true, beq_iff_eq]
  exact ⟨⟨subBag_of_perm arch rest shown hperm, hlen⟩, hk⟩

/-- Soundness: if the predicate accepts, the invariant holds (with what was omitted made explicit). -/
theorem archInv_of_kBestOk (k : Nat) (shown a : List (Ind O)) (h : kBestOk k shown a = true)
    : ArchInv k a (eraseAll shown a) shown := by
  simp only [kBestOk, Bool.and_eq_true, beq_iff_eq] at h
  obtain ⟨⟨hsub, hlen⟩, hkeys⟩ := h
  have hperm := subBag_eraseAll a shown hsub
  refine ⟨hperm, hlen, ?_⟩
  intro x hx y hy ⟨yo, xo, hyo, hxo, hlt⟩
  -- sorted keys of everything shown: first k = keys of `a`, the remainder = keys of what was omitted
  have hS := sortByKey_sorted (id : O → O) (objKeys shown)
  have hSp := sortByKey_perm (id : O → O) (objKeys shown)
  have hAp := sortByKey_perm (id : O → O) (objKeys a)
  have h1 : (sortByKey id (objKeys a) ++ (sortByKey id (objKeys shown)).drop k).Perm
      (sortByKey id (objKeys a) ++ objKeys (eraseAll shown a)) := by
    rw [hkeys, List.take_append_drop]
    refine hSp.trans ?_
    refine List.Perm.trans ?_ ((hkeys ▸ hAp).symm.append_right _)
    rw [← objKeys_append]
    exact hperm.symm.filterMap _
  have h2 := (List.perm_append_left_iff _).mp h1
  have hyk : yo ∈ (sortByKey id (objKeys shown)).drop k :=
    h2.mem_iff.mpr ((mem_objKeys _ yo).mpr ⟨y, hy, hyo⟩)
  have hxk : xo ∈ (sortByKey id (objKeys shown)).take k := by
    rw [← hkeys]; exact hAp.mem_iff.mpr ((mem_objKeys _ xo).mpr ⟨x, hx, hxo⟩)
  have hsplit : ((sortByKey id (objKeys shown)).take k ++ (sortByKey id (objKeys shown)).drop k).Pairwise
      (fun a b : O => a ≤ b) := by rw [List.take_append_drop]; simpa using hS
  have := (List.pairwise_append.mp hsplit).2.2 xo hxk yo hyk
  exact absurd hlt (not_lt.mpr this)

/-! ### the executable re-insertion predicate is the specification -/

theorem reinsertOk_model (arch pop : List (Ind O)) : reinsertOk arch pop (archiveInto arch pop) = true := by
  obtain ⟨extra, h1, h2, h3, h4⟩ := archiveInto_spec arch pop
  simp only [reinsertOk, Bool.and_eq_true, List.all_eq_true, List.contains_iff_mem, Bool.not_eq_true',
    beq_iff_eq]
  rw [h1, eraseAll_append_left]
  refine ⟨⟨subBag_of_perm pop extra _ (List.Perm.refl _), ?_⟩, ?_⟩
  · intro e he
    refine ⟨⟨(h3 e he).1, ?_⟩, ?_⟩
    · simpa using (h3 e he).2
    · have h1' := List.nodup_iff_count.mp h2 e
      have h2' := List.count_pos_iff.mpr he
      omega
  · intro e he
    have := h4 e he
    rwa [h1] at this

theorem reinsertOk_sound (arch pop r : List (Ind O)) (h : reinsertOk arch pop r = true) :
    ∃ extra, (pop ++ extra).Perm r ∧ extra.Nodup ∧ (∀ e ∈ extra, e ∈ arch ∧ e ∉ pop) ∧ ∀ e ∈ arch, e ∈ r := by
  simp only [reinsertOk, Bool.and_eq_true, List.all_eq_true, List.contains_iff_mem, Bool.not_eq_true',
    beq_iff_eq] at h
  obtain ⟨⟨hsub, hex⟩, harch⟩ := h
  refine ⟨eraseAll r pop, subBag_eraseAll pop r hsub, ?_, ?_, harch⟩
  · rw [List.nodup_iff_count]
    intro e
    by_cases he : e ∈ eraseAll r pop
    · rw [(hex e he).2]; exact Nat.le_refl 1
    · rw [List.count_eq_zero.mpr he]; exact Nat.zero_le 1
  · intro e he
    refine ⟨(hex e he).1.1, ?_⟩
    have := (hex e he).1.2
    simpa using this

/-! ### run level: equality with the minimum returned -/

theorem feedBest_mem (b : Option O) (pop : List O) (x : O) (h : feedBest b pop = some x) : b = some x ∨ x ∈ pop := by
  unfold feedBest at h
  cases hm : minByKey id pop with
  | none => rw [hm] at h; exact Or.inl h
  | some c =>
    rw [hm] at h
    have hc := (minByKey_le id pop c hm).1
    cases b with
    | none => simp at h; subst h; exact Or.inr hc
    | some bo =>
      simp only at h
      split at h
      · injection h with h; subst h; exact Or.inr hc
      · exact Or.inl h

/-- Invariant of covered runs whose updates only see returned values: one visible best, ≤ every value
returned so far, and itself one of them. -/
def BestInvEq (s : Scoped O) : Prop :=
  ∃ b, s.bests = [b] ∧ (∀ fr ∈ s.frames, fr.2 = false) ∧ (∀ v ∈ s.returned, ∃ x, b = some x ∧ x ≤ v) ∧
    ∀ x, b = some x → x ∈ s.returned

theorem contains_iff_mem' (l : List O) (v : O) : l.contains v = true ↔ v ∈ l := by simp

theorem covered_inv_eq (evs : List (Ev O)) (hc : Covered evs) (s : Scoped O) (hs : BestInvEq s)
    (hu : updatesShowReturned s.returned evs = true) : BestInvEq (scopedRun s evs) := by
  induction hc generalizing s with
  | nil => exact hs
  | other t _ ih => exact ih s hs (by simpa [updatesShowReturned] using hu)
  | enter he t _ ih =>
    apply ih
    · obtain ⟨b, h1, h2, h3, h4⟩ := hs
      exact ⟨b, by simp [scopedStep, h1], by
        intro fr hfr; simp [scopedStep] at hfr; rcases hfr with rfl | hfr; rfl; exact h2 fr hfr,
        by simpa [scopedStep] using h3, by simpa [scopedStep] using h4⟩
    · simpa [updatesShowReturned, scopedStep] using hu
  | exit t _ ih =>
    have hret : (scopedStep s Ev.exit).returned = s.returned := by
      simp only [scopedStep]; split <;> rfl
    apply ih
    · obtain ⟨b, h1, h2, h3, h4⟩ := hs
      cases hfr : s.frames with
      | nil => exact ⟨b, by simp [scopedStep, hfr, h1], by simp [scopedStep, hfr],
          by simpa [scopedStep, hfr] using h3, by simpa [scopedStep, hfr] using h4⟩
      | cons fr frs =>
        obtain ⟨he, hb⟩ := fr
        have : hb = false := h2 (he, hb) (by simp [hfr])
        subst this
        exact ⟨b, by simp [scopedStep, hfr, h1], by
          intro fr h; simp [scopedStep, hfr] at h; exact h2 fr (by simp [hfr, h]),
          by simpa [scopedStep, hfr] using h3, by simpa [scopedStep, hfr] using h4⟩
    · rw [hret]; simpa [updatesShowReturned] using hu
  | update pop t _ ih =>
    simp only [updatesShowReturned, Bool.and_eq_true, List.all_eq_true] at hu
    apply ih
    · obtain ⟨b, h1, h2, h3, h4⟩ := hs
      refine ⟨feedBest b pop, by simp [scopedStep, h1, setTop], by simpa [scopedStep] using h2, ?_, ?_⟩
      · intro v hv
        simp only [scopedStep] at hv
        obtain ⟨x, hx, hxv⟩ := h3 v hv
        obtain ⟨y, hy, hyx⟩ := (feedBest_le b pop).2 x hx
        exact ⟨y, hy, le_trans hyx hxv⟩
      · intro x hx
        simp only [scopedStep]
        rcases feedBest_mem b pop x hx with h | h
        · exact h4 x h
        · exact (contains_iff_mem' _ _).mp (hu.1 x h)
    · simpa [scopedStep] using hu.2
  | eval n vals pop t hsub _ ih =>
    simp only [updatesShowReturned, Bool.and_eq_true, List.all_eq_true] at hu
    apply ih
    · obtain ⟨b, h1, h2, h3, h4⟩ := hs
      refine ⟨feedBest b pop, by simp [scopedStep, h1, setTop], by simpa [scopedStep] using h2, ?_, ?_⟩
      · intro v hv
        simp only [scopedStep, List.mem_append] at hv
        rcases hv with hv | hv
        · obtain ⟨x, hx, hxv⟩ := h3 v hv
          obtain ⟨y, hy, hyx⟩ := (feedBest_le b pop).2 x hx
          exact ⟨y, hy, le_trans hyx hxv⟩
        · exact (feedBest_le b pop).1 v (hsub v hv)
      · intro x hx
        simp only [scopedStep]
        rcases feedBest_mem b pop x hx with h | h
        · exact List.mem_append_left _ (h4 x h)
        · exact (contains_iff_mem' _ _).mp (hu.1 x h)
    · simpa [scopedStep] using hu.2
  | selfEval vals pop t hsub _ ih =>
    simp only [updatesShowReturned, Bool.and_eq_true, List.all_eq_true] at hu
    apply ih
    · obtain ⟨b, h1, h2, h3, h4⟩ := hs
      refine ⟨feedBest b pop, by simp [scopedStep, h1, setTop], by simpa [scopedStep] using h2, ?_, ?_⟩
      · intro v hv
        simp only [scopedStep, List.mem_append] at hv
        rcases hv with hv | hv
        · obtain ⟨x, hx, hxv⟩ := h3 v hv
          obtain ⟨y, hy, hyx⟩ := (feedBest_le b pop).2 x hx
          exact ⟨y, hy, le_trans hyx hxv⟩
        · exact (feedBest_le b pop).1 v (hsub v hv)
      · intro x hx
        simp only [scopedStep]
        rcases feedBest_mem b pop x hx with h | h
        · exact List.mem_append_left _ (h4 x h)
        · exact (contains_iff_mem' _ _).mp (hu.1 x h)
    · simpa [scopedStep] using hu.2

/-! ### the value-level update of the run model refines the individual-level update -/

theorem foldl_min_map {α : Type} (key : α → O) (xs : List α) (x : α) :
    (xs.map key).foldl (fun m y => if id y < id m then y else m) (key x) =
      key (xs.foldl (fun m y => if key y < key m then y else m) x) := by
  induction xs generalizing x with
  | nil => rfl
  | cons y ys ih =>
    simp only [List.map_cons, List.foldl_cons, id]
    by_cases h : key y < key x
    · simp only [h, if_true]; exact ih y
    · simp only [h, if_false]; exact ih x

theorem minByKey_map {α : Type} (key : α → O) (l : List α) :
    minByKey id (l.map key) = (minByKey key l).map key := by
  cases l with
  | nil => rfl
  | cons x xs => simp only [List.map_cons, minByKey, Option.map_some]; rw [foldl_min_map]

theorem keyed_objKeys (p : List (Ind O)) (kp : List (Ind O × O)) (h : keyed p = some kp) :
    objKeys p = kp.map (·.2) := by
  induction p generalizing kp with
  | nil => simp [keyed] at h; subst h; rfl
  | cons i is ih =>
    simp only [keyed] at h
    split at h
    · rename_i o r ho hr
      injection h with h; subst h
      simp [objKeys, ho]
      simpa [objKeys] using ih r hr
    · cases h

theorem feed_refines_feedBest (b b' : Option (Ind O)) (p : List (Ind O)) (h : feed b p = some b') :
    b'.bind (·.obj) = feedBest (b.bind (·.obj)) (objKeys p) := by
  simp only [feed, bestUpdateStep] at h
  cases hbi : bestIndividual p with
  | none => simp [hbi] at h
  | some r =>
    cases r with
    | none =>
      simp [hbi] at h
      subst h
      rw [(bestIndividual_none_iff p).mp hbi]
      simp [objKeys, feedBest, minByKey]
    | some m =>
      simp only [hbi, Option.map_map, Option.map_eq_some_iff] at h
      obtain ⟨r, hr, rfl⟩ := h
      -- the first minimum of the keys is the key of the first minimum
      simp only [bestIndividual] at hbi
      split at hbi
      · cases hbi
      · rename_i kp hk
        injection hbi with hbi
        obtain ⟨hk1, hk2⟩ := keyed_spec p kp hk
        cases hmk : minByKey (fun x : Ind O × O => x.2) kp with
        | none => simp [hmk] at hbi
        | some mk =>
          simp [hmk] at hbi
          have hmem : mk ∈ kp := (minByKey_le _ kp mk hmk).1
          have hmo : m.obj = some mk.2 := by rw [← hbi]; exact hk2 mk hmem
          have hmin : minByKey id (objKeys p) = some mk.2 := by
            rw [keyed_objKeys p kp hk, minByKey_map, hmk]; rfl
          simp only [feedBest, hmin]
          cases b with
          | none =>
            simp only [bestUpdate] at hr
            injection hr with hr; subst hr
            simp [Ind.clone_eq, hmo]
          | some x =>
            simp only [bestUpdate, hmo] at hr
            split at hr
            · rename_i co bo hco hbo
              injection hco with hco; subst hco
              simp only [Option.bind_some, hbo]
              by_cases hlt : mk.2 < bo
              · simp only [hlt, if_true] at hr ⊢
                injection hr with hr; subst hr
                simp [Ind.clone_eq, hmo]
              · simp only [hlt, if_false] at hr ⊢
                injection hr with hr; subst hr
                simp [hbo]
            · cases hr

/-! ### scopes: what happens inside cannot reach below the records the scope can see -/

def countHb : List (Bool × Bool) → Nat
  | [] => 0
  | (_, hb) :: t => (if hb then 1 else 0) + countHb t

/-- `c` is a state reached inside `d` scopes opened on top of the frames `F` and the records `r0 :: B`
(`r0`: the record visible when the first of them was opened; it may have been updated since). -/
def Above (F : List (Bool × Bool)) (B : List (Option O)) (d : Nat) (c : Scoped O) : Prop :=
  ∃ fr bs, c.frames = fr ++ F ∧ fr.length = d ∧ c.bests = bs ++ B ∧ bs.length = countHb fr + 1

theorem above_step (F : List (Bool × Bool)) (B : List (Option O)) (d d' : Nat) (c : Scoped O) (ev : Ev O)
    (evs : List (Ev O)) (hd : depthAfter d (ev :: evs) = some d') (h : Above F B d c) :
    ∃ d1, depthAfter d1 evs = some d' ∧ Above F B d1 (scopedStep c ev) := by
  obtain ⟨fr, bs, h1, h2, h3, h4⟩ := h
  cases ev with
  | enter he hb =>
    refine ⟨d + 1, by simpa [depthAfter] using hd, (he, hb) :: fr, if hb then none :: bs else bs, ?_, ?_, ?_, ?_⟩
    · simp [scopedStep, h1]
    · simp [h2]
    · cases hb <;> simp [scopedStep, h3]
    · cases hb <;> simp [countHb, h4]; omega
  | exit =>
    cases d with
    | zero => simp [depthAfter] at hd
    | succ d0 =>
      cases fr with
      | nil => simp at h2
      | cons f fr0 =>
        obtain ⟨he, hb⟩ := f
        refine ⟨d0, by simpa [depthAfter] using hd, fr0, if hb then bs.drop 1 else bs, ?_, ?_, ?_, ?_⟩
        · simp [scopedStep, h1]
        · simpa using h2
        · cases hb
          · simp [scopedStep, h1, h3]
          · simp only [scopedStep, h1, List.cons_append, if_true, h3]
            cases bs with
            | nil => simp [countHb] at h4
            | cons b bs0 => simp
        · cases hb
          · simpa [countHb] using h4
          · simp only [countHb, if_true] at h4
            simp only [if_true, List.length_drop]; omega
  | eval n vals => exact ⟨d, by simpa [depthAfter] using hd, fr, bs, by simp [scopedStep, h1], h2, by simp [scopedStep, h3], h4⟩
  | selfEval vals => exact ⟨d, by simpa [depthAfter] using hd, fr, bs, by simp [scopedStep, h1], h2, by simp [scopedStep, h3], h4⟩
  | other => exact ⟨d, by simpa [depthAfter] using hd, fr, bs, by simp [scopedStep, h1], h2, by simp [scopedStep, h3], h4⟩
  | update pop =>
    cases bs with
    | nil => simp at h4
    | cons b bs0 =>
      refine ⟨d, by simpa [depthAfter] using hd, fr, feedBest b pop :: bs0, by simp [scopedStep, h1], h2, ?_, by simpa using h4⟩
      simp [scopedStep, h3, setTop]

theorem above_run (F : List (Bool × Bool)) (B : List (Option O)) (evs : List (Ev O)) (d d' : Nat) (c : Scoped O)
    (hd : depthAfter d evs = some d') (h : Above F B d c) : Above F B d' (scopedRun c evs) := by
  induction evs generalizing d c with
  | nil => simp [depthAfter] at hd; subst hd; exact h
  | cons ev evs ih =>
    obtain ⟨d1, hd1, h1⟩ := above_step F B d d' c ev evs hd h
    exact ih d1 (scopedStep c ev) hd1 h1


theorem exit_step (c : Scoped O) (he hb : Bool) (F : List (Bool × Bool)) (h : c.frames = (he, hb) :: F) :
    (scopedStep c .exit).frames = F ∧ (scopedStep c .exit).bests = if hb then c.bests.drop 1 else c.bests := by
  simp [scopedStep, h]

theorem scopedRun_bracket (s : Scoped O) (a e : Ev O) (body : List (Ev O)) :
    scopedRun s (a :: body ++ [e]) = scopedStep (scopedRun (scopedStep s a) body) e := by
  simp [scopedRun, List.foldl_append]

theorem scope_own_record (s : Scoped O) (he : Bool) (body : List (Ev O)) (hb : wellBracketed body = true) :
    (scopedRun s (.enter he true :: body ++ [.exit])).bests = s.bests ∧
    (scopedRun s (.enter he true :: body ++ [.exit])).frames = s.frames := by
  have hd : depthAfter 0 body = some 0 := by simpa [wellBracketed] using hb
  have h0 : Above ((he, true) :: s.frames) s.bests 0 (scopedStep s (.enter he true)) :=
    ⟨[], [none], by simp [scopedStep], rfl, by simp [scopedStep], rfl⟩
  obtain ⟨fr, bs, h1, h2, h3, h4⟩ := above_run _ _ body 0 0 _ hd h0
  have hfr : fr = [] := List.eq_nil_of_length_eq_zero h2
  subst hfr
  simp only [countHb, Nat.zero_add] at h4
  obtain ⟨x, rfl⟩ := List.length_eq_one_iff.mp h4
  rw [scopedRun_bracket]
  generalize scopedRun (scopedStep s (.enter he true)) body = c1 at h1 h3
  simp only [List.nil_append] at h1
  obtain ⟨e1, e2⟩ := exit_step c1 he true s.frames h1
  exact ⟨by rw [e2, h3]; simp, e1⟩

theorem scope_shared_record (s : Scoped O) (he : Bool) (body : List (Ev O)) (b0 : Option O) (B0 : List (Option O))
    (hs : s.bests = b0 :: B0) (hb : wellBracketed body = true) :
    (∃ b0', (scopedRun s (.enter he false :: body ++ [.exit])).bests = b0' :: B0) ∧
    (scopedRun s (.enter he false :: body ++ [.exit])).frames = s.frames := by
  have hd : depthAfter 0 body = some 0 := by simpa [wellBracketed] using hb
  have h0 : Above ((he, false) :: s.frames) B0 0 (scopedStep s (.enter he false)) :=
    ⟨[], [b0], by simp [scopedStep], rfl, by simp [scopedStep, hs], rfl⟩
  obtain ⟨fr, bs, h1, h2, h3, h4⟩ := above_run _ _ body 0 0 _ hd h0
  have hfr : fr = [] := List.eq_nil_of_length_eq_zero h2
  subst hfr
  simp only [countHb, Nat.zero_add] at h4
  obtain ⟨x, rfl⟩ := List.length_eq_one_iff.mp h4
  rw [scopedRun_bracket]
  generalize scopedRun (scopedStep s (.enter he false)) body = c1 at h1 h3
  simp only [List.nil_append] at h1
  obtain ⟨e1, e2⟩ := exit_step c1 he false s.frames h1
  exact ⟨⟨x, by rw [e2, h3]; simp⟩, e1⟩


end MahfModel.PopMachine
