/- Helper lemmas for C18 (particle swarm). -/
import MahfModel.Model.Pso
import Mathlib.Algebra.Order.Field.Basic
import Mathlib.Tactic.Ring
import Mathlib.Tactic.Linarith
namespace MahfModel.Pso
set_option linter.unusedSectionVars false
set_option linter.unusedSimpArgs false

variable {F : Type} [Field F] [LinearOrder F] [IsStrictOrderedRing F]

theorem clamp_bounds (lo hi v : F) (h : lo ≤ hi) : lo ≤ clamp lo hi v ∧ clamp lo hi v ≤ hi := by
  unfold clamp
  by_cases h1 : v < lo
  · simp only [h1, if_true]
    by_cases h2 : hi < lo
    · exact absurd h (not_le.mpr h2)
    · simp only [h2, if_false]; exact ⟨le_refl _, h⟩
  · simp only [h1, if_false]
    by_cases h2 : hi < v
    · simp only [h2, if_true]; exact ⟨h, le_refl _⟩
    · simp only [h2, if_false]; exact ⟨not_lt.mp h1, not_lt.mp h2⟩

theorem clamp_id (lo hi v : F) (h1 : lo ≤ v) (h2 : v ≤ hi) : clamp lo hi v = v := by
  unfold clamp
  simp [not_lt.mpr h1, not_lt.mpr h2]

/-! ### one particle -/

theorem stepParticle_length (w c1 c2 vmax : F) (v x p g : List F) (r : List (F × F)) :
    (stepParticle w c1 c2 vmax v x p g r).1.length = v.length ∧
    (stepParticle w c1 c2 vmax v x p g r).2.length = x.length := by
  induction v generalizing x p g r with
  | nil => simp [stepParticle]
  | cons a as ih =>
    cases x with
    | nil => simp [stepParticle]
    | cons b bs =>
      cases p with
      | nil => simp [stepParticle]
      | cons c cs =>
        cases g with
        | nil => simp [stepParticle]
        | cons d ds =>
          cases r with
          | nil => simp [stepParticle]
          | cons e es =>
            obtain ⟨r1, r2⟩ := e
            simp [stepParticle, (ih bs cs ds es).1, (ih bs cs ds es).2]

/-- Coordinate `i` of one particle: the documented formula, the clamp and the motion. -/
theorem stepParticle_get (w c1 c2 vmax : F) (v x p g : List F) (r : List (F × F)) (i : Nat)
    (a b c d r1 r2 : F) (hv : v[i]? = some a) (hx : x[i]? = some b) (hp : p[i]? = some c) (hg : g[i]? = some d)
    (hr : r[i]? = some (r1, r2)) :
    (stepParticle w c1 c2 vmax v x p g r).1[i]? = some (stepComp w c1 c2 vmax r1 r2 a b c d).1 ∧
    (stepParticle w c1 c2 vmax v x p g r).2[i]? = some (stepComp w c1 c2 vmax r1 r2 a b c d).2 := by
  induction i generalizing v x p g r with
  | zero =>
    match v, x, p, g, r, hv, hx, hp, hg, hr with
    | _ :: _, _ :: _, _ :: _, _ :: _, (_, _) :: _, hv, hx, hp, hg, hr =>
      simp only [List.getElem?_cons_zero, Option.some.injEq] at hv hx hp hg hr
      obtain ⟨h1, h2⟩ := Prod.mk.inj hr
      subst hv hx hp hg h1 h2
      simp [stepParticle]
  | succ i ih =>
    match v, x, p, g, r, hv, hx, hp, hg, hr with
    | _ :: vs, _ :: xs, _ :: ps, _ :: gs, (_, _) :: rs, hv, hx, hp, hg, hr =>
      simp only [List.getElem?_cons_succ] at hv hx hp hg hr
      simp only [stepParticle, List.getElem?_cons_succ]
      exact ih vs xs ps gs rs hv hx hp hg hr

/-! ### the swarm -/

theorem velUpd_length (w c1 c2 vmax : F) (g : List F) (xs : List (Part F)) (vs : List (List F)) (ps : List (Part F))
    (rs : List (List (F × F))) :
    (velUpd w c1 c2 vmax g xs vs ps rs).1.length = xs.length ∧ (velUpd w c1 c2 vmax g xs vs ps rs).2.length = vs.length := by
  induction xs generalizing vs ps rs with
  | nil => simp [velUpd]
  | cons x xs ih =>
    cases vs with
    | nil => simp [velUpd]
    | cons v vs =>
      cases ps with
      | nil => simp [velUpd]
      | cons p ps =>
        cases rs with
        | nil => simp [velUpd]
        | cons r rs => simp [velUpd, (ih vs ps rs).1, (ih vs ps rs).2]

theorem velUpd_get (w c1 c2 vmax : F) (g : List F) (xs : List (Part F)) (vs : List (List F)) (ps : List (Part F))
    (rs : List (List (F × F))) (k : Nat) (x p : Part F) (v : List F) (r : List (F × F))
    (hx : xs[k]? = some x) (hv : vs[k]? = some v) (hp : ps[k]? = some p) (hr : rs[k]? = some r) :
    (velUpd w c1 c2 vmax g xs vs ps rs).1[k]? =
      some { x with pos := (stepParticle w c1 c2 vmax v x.pos p.pos g r).2, ev := false } ∧
    (velUpd w c1 c2 vmax g xs vs ps rs).2[k]? = some (stepParticle w c1 c2 vmax v x.pos p.pos g r).1 := by
  induction k generalizing xs vs ps rs with
  | zero =>
    match xs, vs, ps, rs, hx, hv, hp, hr with
    | _ :: _, _ :: _, _ :: _, _ :: _, hx, hv, hp, hr =>
      simp only [List.getElem?_cons_zero, Option.some.injEq] at hx hv hp hr
      subst hx hv hp hr
      simp [velUpd]
  | succ k ih =>
    match xs, vs, ps, rs, hx, hv, hp, hr with
    | _ :: xs, _ :: vs, _ :: ps, _ :: rs, hx, hv, hp, hr =>
      simp only [List.getElem?_cons_succ] at hx hv hp hr
      simp only [velUpd, List.getElem?_cons_succ]
      exact ih xs vs ps rs hx hv hp hr

theorem dimsOk_get (g : List F) (xs : List (Part F)) (vs : List (List F)) (ps : List (Part F))
    (h : dimsOk g xs vs ps = true) (k : Nat) (x p : Part F) (v : List F)
    (hx : xs[k]? = some x) (hv : vs[k]? = some v) (hp : ps[k]? = some p) :
    v.length ≤ x.pos.length ∧ v.length ≤ p.pos.length ∧ v.length ≤ g.length := by
  induction k generalizing xs vs ps with
  | zero =>
    match xs, vs, ps, hx, hv, hp with
    | _ :: _, _ :: _, _ :: _, hx, hv, hp =>
      simp only [List.getElem?_cons_zero, Option.some.injEq] at hx hv hp
      subst hx hv hp
      simp only [dimsOk, Bool.and_eq_true, decide_eq_true_eq] at h
      exact ⟨h.1.1.1, h.1.1.2, h.1.2⟩
  | succ k ih =>
    match xs, vs, ps, hx, hv, hp with
    | _ :: xs, _ :: vs, _ :: ps, hx, hv, hp =>
      simp only [List.getElem?_cons_succ] at hx hv hp
      simp only [dimsOk, Bool.and_eq_true] at h
      exact ih xs vs ps h.2 hx hv hp

/-- What an `ok` velocity step looks like. -/
theorem velStep_ok (c1 c2 vmax : F) (draws : List (List (F × F))) (sw sw' : Swarm F)
    (h : velStep c1 c2 vmax draws sw = (.ok, sw')) :
    sw.vs.length = sw.xs.length ∧ sw.pbest.length = sw.xs.length ∧
    ∃ g, sw.gbest = some g ∧ dimsOk g.pos sw.xs sw.vs sw.pbest = true ∧
      sw' = { sw with xs := (velUpd sw.w c1 c2 vmax g.pos sw.xs sw.vs sw.pbest draws).1,
                      vs := (velUpd sw.w c1 c2 vmax g.pos sw.xs sw.vs sw.pbest draws).2 } := by
  unfold velStep at h
  by_cases h1 : sw.vs.length = sw.xs.length
  · by_cases h2 : sw.pbest.length = sw.xs.length
    · simp only [h1, h2, bne_self_eq_false, Bool.false_eq_true, if_false] at h
      cases hg : sw.gbest with
      | none => simp [hg] at h
      | some g =>
        simp only [hg] at h
        by_cases hd : dimsOk g.pos sw.xs sw.vs sw.pbest = true
        · simp only [hd, if_true, Prod.mk.injEq, true_and] at h
          exact ⟨h1, h2, g, rfl, hd, h.symm⟩
        · simp [hd] at h
    · simp [h1, h2] at h
  · simp [h1] at h

/-! ### personal and global bests -/

theorem pbestUpd_length (bs cs : List (Part F)) : (pbestUpd bs cs).length = bs.length := by
  induction bs generalizing cs with
  | nil => cases cs <;> simp [pbestUpd]
  | cons b bs ih => cases cs with
    | nil => simp [pbestUpd]
    | cons c cs => simp [pbestUpd, ih]

theorem pbestUpd_get (bs cs : List (Part F)) (k : Nat) (b c : Part F) (hb : bs[k]? = some b) (hc : cs[k]? = some c) :
    (pbestUpd bs cs)[k]? = some (if c.obj < b.obj then c else b) := by
  induction k generalizing bs cs with
  | zero =>
    match bs, cs, hb, hc with
    | _ :: _, _ :: _, hb, hc =>
      simp only [List.getElem?_cons_zero, Option.some.injEq] at hb hc; subst hb hc; simp [pbestUpd]
  | succ k ih =>
    match bs, cs, hb, hc with
    | _ :: bs, _ :: cs, hb, hc =>
      simp only [List.getElem?_cons_succ] at hb hc
      simp only [pbestUpd, List.getElem?_cons_succ]; exact ih bs cs hb hc

theorem pbestUpd_get_none (bs cs : List (Part F)) (k : Nat) (hc : cs[k]? = none) : (pbestUpd bs cs)[k]? = bs[k]? := by
  induction k generalizing bs cs with
  | zero =>
    cases bs with
    | nil => cases cs <;> simp [pbestUpd]
    | cons b bs => cases cs with
      | nil => simp [pbestUpd]
      | cons c cs => simp at hc
  | succ k ih =>
    cases bs with
    | nil => cases cs <;> simp [pbestUpd]
    | cons b bs => cases cs with
      | nil => simp [pbestUpd]
      | cons c cs =>
        simp only [List.getElem?_cons_succ] at hc
        simp only [pbestUpd, List.getElem?_cons_succ]; exact ih bs cs hc

theorem minBy_none (xs : List (Part F)) : minBy xs = none ↔ xs = [] := by
  cases xs with
  | nil => simp [minBy]
  | cons x xs =>
    simp only [minBy]
    cases minBy xs with
    | none => simp
    | some m => by_cases h : m.obj < x.obj <;> simp [h]

theorem minBy_some (xs : List (Part F)) (m : Part F) (h : minBy xs = some m) :
    m ∈ xs ∧ ∀ x ∈ xs, m.obj ≤ x.obj := by
  induction xs generalizing m with
  | nil => simp [minBy] at h
  | cons a as ih =>
    simp only [minBy] at h
    cases hm : minBy as with
    | none =>
      simp only [hm, Option.some.injEq] at h; subst h
      have : as = [] := (minBy_none as).mp hm
      subst this; simp
    | some m' =>
      obtain ⟨hin, hle⟩ := ih m' hm
      simp only [hm] at h
      by_cases hc : m'.obj < a.obj
      · simp only [hc, if_true, Option.some.injEq] at h; subst h
        refine ⟨by simp [hin], ?_⟩
        intro x hx
        rcases List.mem_cons.mp hx with rfl | hx
        · exact le_of_lt hc
        · exact hle x hx
      · simp only [hc, if_false, Option.some.injEq] at h; subst h
        refine ⟨by simp, ?_⟩
        intro x hx
        rcases List.mem_cons.mp hx with rfl | hx
        · exact le_refl _
        · exact le_trans (not_lt.mp hc) (hle x hx)

end MahfModel.Pso
