/- Helper lemmas for C13: the cycle table computed by `cycle_crossover` is closed under the
   successor map, hence the children of two permutations are permutations. -/
import MahfModel.Model.Variation
import Mathlib.Data.List.Perm.Basic
import Mathlib.Data.List.Nodup
namespace MahfModel.Variation.Cycle

/-- The while loop of `cycle_crossover` over an abstract successor map `sig`
(`sig pos` = position in parent 1 of the gene parent 2 has at `pos`). -/
def wloop (sig : Nat → Nat) (cn : Int) : Nat → Nat → List Int → Option (List Int)
  | 0, _, _ => none
  | fuel + 1, pos, cyc =>
    match cyc[pos]? with
    | none => none
    | some c => if c < 0 then wloop sig cn fuel (sig pos) (cyc.set pos cn) else some cyc

/-- Entry `j` of the cycle table (−1 = unmarked, also outside the table). -/
def gd (l : List Int) (j : Nat) : Int := l.getD j (-1)

theorem gd_set (l : List Int) (p : Nat) (v : Int) (j : Nat) (hp : p < l.length) :
    gd (l.set p v) j = if j = p then v else gd l j := by
  unfold gd
  simp only [List.getD_eq_getElem?_getD, List.getElem?_set]
  by_cases h : j = p
  · subst h; simp [hp]
  · have : ¬ p = j := fun e => h e.symm
    simp [h, this]

theorem gd_of_getElem? (l : List Int) (j : Nat) (c : Int) (h : l[j]? = some c) : gd l j = c := by
  simp [gd, List.getD_eq_getElem?_getD, h]

def negs (l : List Int) : Nat := l.countP (· < 0)

theorem negs_le (l : List Int) : negs l ≤ l.length := List.countP_le_length

theorem negs_set (l : List Int) (p : Nat) (v c : Int) (h : l[p]? = some c) (hc : c < 0) (hv : 0 ≤ v) :
    negs (l.set p v) + 1 = negs l := by
  obtain ⟨hp, rfl⟩ := List.getElem?_eq_some_iff.mp h
  unfold negs
  rw [List.countP_set hp]
  have hpos : 0 < List.countP (· < 0) l := by
    apply List.countP_pos_iff.mpr
    exact ⟨l[p], List.getElem_mem hp, by simpa using hc⟩
  have : ¬ v < 0 := by omega
  simp [hc, this]; omega

variable (sig : Nat → Nat) (n : Nat)

/-- marked entries are closed under `sig` with equal numbers, and under `sig`-preimages. -/
structure Inv (cyc : List Int) : Prop where
  len : cyc.length = n
  closed : ∀ j, j < n → 0 ≤ gd cyc j → gd cyc (sig j) = gd cyc j
  pre : ∀ j, j < n → 0 ≤ gd cyc (sig j) → 0 ≤ gd cyc j

/-- Loop-head invariant of the while loop started at the unmarked position `s` of table `c0`. -/
structure J (c0 : List Int) (s : Nat) (cn : Int) (pos : Nat) (cur : List Int) : Prop where
  len : cur.length = n
  pos_lt : pos < n
  old : ∀ j, j < n → 0 ≤ gd c0 j → gd cur j = gd c0 j
  fresh : ∀ j, j < n → gd c0 j < 0 → gd cur j < 0 ∨ gd cur j = cn
  fwd : ∀ j, j < n → gd c0 j < 0 → gd cur j = cn → sig j ≠ pos → (gd c0 (sig j) < 0 ∧ gd cur (sig j) = cn)
  bwd : ∀ j, j < n → gd c0 (sig j) < 0 → gd cur (sig j) = cn → sig j ≠ s → (gd c0 j < 0 ∧ gd cur j = cn)
  last : ∃ q, q < n ∧ gd c0 q < 0 ∧ gd cur q = cn ∧ sig q = pos
  start : gd c0 s < 0 ∧ gd cur s = cn
  head : gd cur pos < 0 ∨ pos = s

variable {sig n}
variable (hlt : ∀ j, j < n → sig j < n) (hinj : ∀ i j, i < n → j < n → sig i = sig j → i = j)
include hlt hinj

theorem J.step {c0 : List Int} {s : Nat} {cn : Int} {pos : Nat} {cur : List Int} (hcn : 0 ≤ cn)
    (h0 : Inv sig n c0) (_hs : s < n) (h : J sig n c0 s cn pos cur) (hneg : gd cur pos < 0) :
    J sig n c0 s cn (sig pos) (cur.set pos cn) := by
  have hp : pos < cur.length := by rw [h.len]; exact h.pos_lt
  have hpn := h.pos_lt
  have c0pos : gd c0 pos < 0 := by
    by_contra hc
    have := h.old pos hpn (by omega)
    omega
  obtain ⟨q, hq, hq0, hqc, hqs⟩ := h.last
  have hqpos : q ≠ pos := by intro e; rw [e] at hqc; omega
  refine ⟨by simp [h.len], hlt pos hpn, ?_, ?_, ?_, ?_, ?_, ?_, ?_⟩
  · intro j hj hj0
    rw [gd_set _ _ _ _ hp]
    have : j ≠ pos := by intro e; rw [e] at hj0; omega
    simp [this, h.old j hj hj0]
  · intro j hj hj0
    rw [gd_set _ _ _ _ hp]
    by_cases e : j = pos
    · simp [e]
    · simp [e, h.fresh j hj hj0]
  · intro j hj hj0 hjc hne
    rw [gd_set _ _ _ _ hp] at hjc
    rw [gd_set _ _ _ _ hp]
    by_cases e : j = pos
    · exact absurd (by rw [e]) hne
    · simp only [e, if_false] at hjc
      by_cases e2 : sig j = pos
      · simp [e2, c0pos]
      · have := h.fwd j hj hj0 hjc e2
        simp [e2, this]
  · intro j hj hj0 hjc hne
    rw [gd_set _ _ _ _ hp] at hjc
    rw [gd_set _ _ _ _ hp]
    by_cases e2 : sig j = pos
    · -- the unique predecessor of `pos` is `q`
      have : j = q := hinj j q hj hq (by rw [e2, hqs])
      subst this
      simp [hqpos, hq0, hqc]
    · simp only [e2, if_false] at hjc
      have := h.bwd j hj hj0 hjc hne
      by_cases e : j = pos
      · rw [e] at this; omega
      · simp [e, this]
  · exact ⟨pos, hpn, c0pos, by rw [gd_set _ _ _ _ hp]; simp, rfl⟩
  · have hsp : s ≠ pos := by intro e; rw [← e] at hneg; have := h.start.2; omega
    rw [gd_set _ _ _ _ hp]
    simp [hsp, h.start]
  · -- the next head is unmarked, or it is the start
    by_contra hcon
    rw [not_or] at hcon
    obtain ⟨hm, hns⟩ := hcon
    rw [gd_set _ _ _ _ hp] at hm
    by_cases e : sig pos = pos
    · -- then `q = pos`
      exact hqpos (hinj q pos hq hpn (by rw [hqs, e]))
    · simp only [e, if_false] at hm
      have hsp := hlt pos hpn
      by_cases hold : 0 ≤ gd c0 (sig pos)
      · have := h0.pre pos hpn hold; omega
      · have hfr := h.fresh (sig pos) hsp (by omega)
        have hc : gd cur (sig pos) = cn := by omega
        have := h.bwd pos hpn (by omega) hc hns
        omega

theorem J.exit {c0 : List Int} {s : Nat} {cn : Int} {pos : Nat} {cur : List Int} (hcn : 0 ≤ cn)
    (h0 : Inv sig n c0) (_hs : s < n) (h : J sig n c0 s cn pos cur) (hm : ¬ gd cur pos < 0) :
    Inv sig n cur ∧ (∀ j, j < n → 0 ≤ gd c0 j → gd cur j = gd c0 j) ∧ 0 ≤ gd cur s := by
  have hps : pos = s := by rcases h.head with h1 | h1; exact absurd h1 hm; exact h1
  obtain ⟨q, hq, hq0, hqc, hqs⟩ := h.last
  refine ⟨⟨h.len, ?_, ?_⟩, h.old, by rw [h.start.2]; exact hcn⟩
  · intro j hj hjm
    by_cases hold : 0 ≤ gd c0 j
    · have e1 := h.old j hj hold
      have e2 := h0.closed j hj hold
      have e3 := h.old (sig j) (hlt j hj) (by omega)
      omega
    · have hf := h.fresh j hj (by omega)
      have hjc : gd cur j = cn := by omega
      by_cases e : sig j = pos
      · rw [e, hps, h.start.2, hjc]
      · have := h.fwd j hj (by omega) hjc e
        omega
  · intro j hj hjm
    by_cases hold : 0 ≤ gd c0 (sig j)
    · have := h0.pre j hj hold
      have := h.old j hj this
      omega
    · have hf := h.fresh (sig j) (hlt j hj) (by omega)
      have hjc : gd cur (sig j) = cn := by omega
      by_cases e : sig j = s
      · have : j = q := hinj j q hj hq (by rw [e, hqs, hps])
        rw [this, hqc]; exact hcn
      · have := h.bwd j hj (by omega) hjc e
        omega

theorem wloop_inner (cn : Int) (hcn : 0 ≤ cn) (c0 : List Int) (h0 : Inv sig n c0) (s : Nat) (hs : s < n) :
    ∀ (fuel : Nat) (pos : Nat) (cur : List Int), J sig n c0 s cn pos cur → negs cur < fuel →
    ∃ cyc', wloop sig cn fuel pos cur = some cyc' ∧ Inv sig n cyc' ∧
      (∀ j, j < n → 0 ≤ gd c0 j → gd cyc' j = gd c0 j) ∧ 0 ≤ gd cyc' s := by
  intro fuel
  induction fuel with
  | zero => intro pos cur _ h; omega
  | succ f ih =>
    intro pos cur hJ hf
    have hp : pos < cur.length := by rw [hJ.len]; exact hJ.pos_lt
    simp only [wloop, List.getElem?_eq_getElem hp]
    have hg : gd cur pos = cur[pos] := gd_of_getElem? _ _ _ (List.getElem?_eq_getElem hp)
    by_cases hc : cur[pos] < 0
    · simp only [hc, if_true]
      have hJ' := J.step hlt hinj hcn h0 hs hJ (by rw [hg]; exact hc)
      have hn := negs_set cur pos cn cur[pos] (List.getElem?_eq_getElem hp) hc hcn
      exact ih _ _ hJ' (by omega)
    · simp only [hc, if_false]
      obtain ⟨a, b, c⟩ := J.exit hlt hinj hcn h0 hs hJ (by rw [hg]; exact hc)
      exact ⟨cur, rfl, a, b, c⟩

theorem wloop_spec (cn : Int) (hcn : 0 ≤ cn) (c0 : List Int) (h0 : Inv sig n c0) (s : Nat) (hs : s < n)
    (fuel : Nat) (hf : negs c0 < fuel) :
    ∃ cyc', wloop sig cn fuel s c0 = some cyc' ∧ Inv sig n cyc' ∧
      (∀ j, j < n → 0 ≤ gd c0 j → gd cyc' j = gd c0 j) ∧ 0 ≤ gd cyc' s := by
  cases fuel with
  | zero => omega
  | succ f =>
    have hp : s < c0.length := by rw [h0.len]; exact hs
    have hg : gd c0 s = c0[s] := gd_of_getElem? _ _ _ (List.getElem?_eq_getElem hp)
    simp only [wloop, List.getElem?_eq_getElem hp]
    by_cases hc : c0[s] < 0
    · simp only [hc, if_true]
      have hn := negs_set c0 s cn c0[s] (List.getElem?_eq_getElem hp) hc hcn
      have c0s : gd c0 s < 0 := by rw [hg]; exact hc
      -- establish the loop-head invariant after the first pass
      have hJ : J sig n c0 s cn (sig s) (c0.set s cn) := by
        refine ⟨by simp [h0.len], hlt s hs, ?_, ?_, ?_, ?_, ?_, ?_, ?_⟩
        · intro j hj hj0
          rw [gd_set _ _ _ _ hp]
          have : j ≠ s := by intro e; rw [e] at hj0; omega
          simp [this]
        · intro j hj hj0
          rw [gd_set _ _ _ _ hp]
          by_cases e : j = s
          · simp [e]
          · simp [e, hj0]
        · intro j hj hj0 hjc hne
          rw [gd_set _ _ _ _ hp] at hjc
          by_cases e : j = s
          · exact absurd (by rw [e]) hne
          · simp only [e, if_false] at hjc; omega
        · intro j hj hj0 hjc hne
          rw [gd_set _ _ _ _ hp] at hjc
          simp only [hne, if_false] at hjc; omega
        · exact ⟨s, hs, c0s, by rw [gd_set _ _ _ _ hp]; simp, rfl⟩
        · exact ⟨c0s, by rw [gd_set _ _ _ _ hp]; simp⟩
        · by_cases e : sig s = s
          · right; exact e
          · left
            rw [gd_set _ _ _ _ hp]
            simp only [e, if_false]
            by_contra hcon
            have := h0.pre s hs (by omega)
            omega
      exact wloop_inner hlt hinj cn hcn c0 h0 s hs f _ _ hJ (by omega)
    · simp only [hc, if_false]
      exact ⟨c0, rfl, h0, fun _ _ _ => rfl, by rw [hg]; omega⟩

end MahfModel.Variation.Cycle

namespace MahfModel.Variation.Cycle

def floop (sig : Nat → Nat) : List Nat → Int → List Int → Option (List Int)
  | [], _, cyc => some cyc
  | s :: rest, cn, cyc =>
    match wloop sig cn (cyc.length + 1) s cyc with
    | some c' => floop sig rest (cn + 1) c'
    | none => none

section
variable {sig : Nat → Nat} {n : Nat}
variable (hlt : ∀ j, j < n → sig j < n) (hinj : ∀ i j, i < n → j < n → sig i = sig j → i = j)
include hlt hinj

theorem floop_spec (starts : List Nat) : ∀ (cn : Int) (cyc : List Int), 0 ≤ cn → Inv sig n cyc →
    (∀ s ∈ starts, s < n) →
    ∃ cyc', floop sig starts cn cyc = some cyc' ∧ Inv sig n cyc' ∧
      (∀ j, j < n → 0 ≤ gd cyc j → gd cyc' j = gd cyc j) ∧ (∀ s ∈ starts, 0 ≤ gd cyc' s) := by
  induction starts with
  | nil => intro cn cyc _ h _; exact ⟨cyc, rfl, h, fun _ _ _ => rfl, by simp⟩
  | cons s rest ih =>
    intro cn cyc hcn h hs
    have hsn : s < n := hs s (by simp)
    obtain ⟨c1, e1, i1, k1, m1⟩ := wloop_spec hlt hinj cn hcn cyc h s hsn (cyc.length + 1)
      (Nat.lt_succ_of_le (negs_le cyc))
    obtain ⟨c2, e2, i2, k2, m2⟩ := ih (cn + 1) c1 (by omega) i1 (fun x hx => hs x (by simp [hx]))
    refine ⟨c2, by simp [floop, e1, e2], i2, ?_, ?_⟩
    · intro j hj hj0
      have a := k1 j hj hj0
      have b := k2 j hj (by omega)
      omega
    · intro x hx
      simp only [List.mem_cons] at hx
      rcases hx with rfl | hx
      · have := k2 x hsn m1; omega
      · exact m2 x hx
end

theorem inv_init (sig : Nat → Nat) (n : Nat) : Inv sig n (List.replicate n (-1)) := by
  have hg : ∀ j, gd (List.replicate n (-1)) j = -1 := by
    intro j
    unfold gd
    rw [List.getD_eq_getElem?_getD]
    by_cases h : j < n
    · simp [List.getElem?_replicate, h]
    · simp [List.getElem?_replicate, h]
  refine ⟨by simp, ?_, ?_⟩
  · intro j _ h; rw [hg] at h; omega
  · intro j _ h; rw [hg] at h; omega

end MahfModel.Variation.Cycle

namespace MahfModel.Variation
open Cycle
variable {α : Type} [DecidableEq α]

/-- successor map of two parents: position in `p1` of the gene `p2` has at `j`. -/
def sigOf (p1 p2 : List α) (j : Nat) : Nat :=
  match p2[j]? with
  | some x => p1.idxOf x
  | none => 0

theorem position_eq (p1 : List α) (x : α) (h : x ∈ p1) : position p1 x = some (p1.idxOf x) := by
  unfold position
  rw [List.findIdx?_eq_some_iff_findIdx_eq]
  exact ⟨List.idxOf_lt_length_of_mem h, rfl⟩

theorem ccWhile_eq_wloop (p1 p2 : List α) (n : Nat) (hl2 : p2.length = n) (hmem : ∀ x ∈ p2, x ∈ p1)
    (hlt : ∀ j, j < n → sigOf p1 p2 j < n) (cn : Int) :
    ∀ (fuel pos : Nat) (cyc : List Int), cyc.length = n → pos < n →
      ccWhile p1 p2 cn fuel pos cyc = wloop (sigOf p1 p2) cn fuel pos cyc := by
  intro fuel
  induction fuel with
  | zero => intro pos cyc _ _; rfl
  | succ f ih =>
    intro pos cyc hc hp
    simp only [ccWhile, wloop]
    have hp' : pos < cyc.length := by omega
    rw [List.getElem?_eq_getElem hp']
    simp only
    by_cases hneg : cyc[pos] < 0
    · simp only [hneg, if_true]
      have hp2 : pos < p2.length := by omega
      rw [List.getElem?_eq_getElem hp2]
      simp only
      rw [position_eq p1 p2[pos] (hmem _ (List.getElem_mem hp2))]
      simp only
      have e : sigOf p1 p2 pos = p1.idxOf p2[pos] := by simp [sigOf, List.getElem?_eq_getElem hp2]
      rw [← e]
      exact ih _ _ (by simp [hc]) (hlt pos hp)
    · simp only [hneg, if_false]

theorem ccFor_eq_floop (p1 p2 : List α) (n : Nat) (hl2 : p2.length = n) (hmem : ∀ x ∈ p2, x ∈ p1)
    (hlt : ∀ j, j < n → sigOf p1 p2 j < n) (hinj : ∀ i j, i < n → j < n → sigOf p1 p2 i = sigOf p1 p2 j → i = j)
    (starts : List Nat) : ∀ (cn : Int) (cyc : List Int), 0 ≤ cn → Inv (sigOf p1 p2) n cyc → (∀ s ∈ starts, s < n) →
      ccFor p1 p2 starts cn cyc = floop (sigOf p1 p2) starts cn cyc := by
  induction starts with
  | nil => intro cn cyc _ _ _; rfl
  | cons s rest ih =>
    intro cn cyc hcn hi hs
    have hsn : s < n := hs s (by simp)
    simp only [ccFor, floop]
    rw [ccWhile_eq_wloop p1 p2 n hl2 hmem hlt cn _ s cyc hi.len hsn]
    obtain ⟨c1, e1, i1, _, _⟩ := wloop_spec hlt hinj cn hcn cyc hi s hsn (cyc.length + 1)
      (Nat.lt_succ_of_le (negs_le cyc))
    rw [e1]
    exact ih (cn + 1) c1 (by omega) i1 (fun x hx => hs x (by simp [hx]))

theorem validPermutation_iff (l : List α) : validPermutation l = true ↔ l.Nodup := by
  induction l with
  | nil => simp [validPermutation]
  | cons a t ih => simp [validPermutation, ih]

/-- closed form of the children given the cycle table. -/
theorem ccChildren_spec : ∀ (p1 p2 : List α) (cyc : List Int), p1.length = p2.length → cyc.length = p1.length →
    (ccChildren p1 p2 cyc).1.length = p1.length ∧ (ccChildren p1 p2 cyc).2.length = p1.length ∧
    ∀ (k : Nat) (a b : α) (c : Int), p1[k]? = some a → p2[k]? = some b → cyc[k]? = some c →
      (ccChildren p1 p2 cyc).1[k]? = some (if c % 2 != 0 then a else b) ∧
      (ccChildren p1 p2 cyc).2[k]? = some (if c % 2 != 0 then b else a)
  | [], [], [], _, _ => by simp [ccChildren]
  | [], [], _ :: _, _, h => by simp at h
  | [], _ :: _, _, h, _ => by simp at h
  | _ :: _, [], _, h, _ => by simp at h
  | _ :: _, _ :: _, [], _, h => by simp at h
  | a :: as, b :: bs, c :: cs, h1, h2 => by
    have ih := ccChildren_spec as bs cs (by simpa using h1) (by simpa using h2)
    simp only [ccChildren]
    by_cases hc : (c % 2 != 0) = true
    · simp only [hc, if_true]
      refine ⟨by simp [ih.1], by simp [ih.2.1], ?_⟩
      intro k a' b' c' ha hb hcc
      cases k with
      | zero => simp at ha hb hcc; subst ha hb hcc; simp [hc]
      | succ k => simpa using ih.2.2 k a' b' c' (by simpa using ha) (by simpa using hb) (by simpa using hcc)
    · simp only [hc]
      refine ⟨by simp [ih.1], by simp [ih.2.1], ?_⟩
      intro k a' b' c' ha hb hcc
      cases k with
      | zero => simp at ha hb hcc; subst ha hb hcc; simp [hc]
      | succ k => simpa using ih.2.2 k a' b' c' (by simpa using ha) (by simpa using hb) (by simpa using hcc)

/-- A child that takes, cycle by cycle, the genes of one parent is a permutation. -/
theorem child_perm (p1 p2 c : List α) (h1 : p1.Nodup) (hp : p1.Perm p2) (sig : Nat → Nat)
    (hlt : ∀ j, j < p1.length → sig j < p1.length)
    (hget : ∀ j (hj : j < p1.length), p1[sig j]'(hlt j hj) = p2[j]'(by rw [← hp.length_eq]; exact hj))
    (num : Nat → Int) (hclosed : ∀ j, j < p1.length → num (sig j) = num j)
    (pick : Nat → Bool) (hpick : ∀ i j, num i = num j → pick i = pick j)
    (hc : c.length = p1.length)
    (hck : ∀ k (hk : k < p1.length), c[k]'(by omega) = if pick k then p1[k] else p2[k]'(by rw [← hp.length_eq]; exact hk)) :
    c.Perm p1 := by
  have h2 : p2.Nodup := hp.nodup_iff.mp h1
  have hl : p1.length = p2.length := hp.length_eq
  have hnd : c.Nodup := by
    rw [List.nodup_iff_injective_getElem]
    intro ⟨i, hi⟩ ⟨j, hj⟩ e
    simp only at e
    have hi' : i < p1.length := by omega
    have hj' : j < p1.length := by omega
    rw [hck i hi', hck j hj'] at e
    apply Fin.ext
    simp only
    cases hpi : pick i <;> cases hpj : pick j <;> simp only [hpi, hpj, if_true, if_false, Bool.false_eq_true] at e
    · exact (List.Nodup.getElem_inj_iff h2).mp e
    · -- p2[i] = p1[j] = … so j = sig i
      have := hget i hi'
      rw [← this] at e
      have hji : sig i = j := (List.Nodup.getElem_inj_iff h1).mp e
      have := hpick i j (by rw [← hji, hclosed i hi'])
      rw [hpi, hpj] at this; cases this
    · have := hget j hj'
      rw [← this] at e
      have hij : i = sig j := (List.Nodup.getElem_inj_iff h1).mp e
      have := hpick i j (by rw [hij, hclosed j hj'])
      rw [hpi, hpj] at this; cases this
    · exact (List.Nodup.getElem_inj_iff h1).mp e
  have hsub : c ⊆ p1 := by
    intro x hx
    obtain ⟨k, hk, rfl⟩ := List.getElem_of_mem hx
    have hk' : k < p1.length := by omega
    rw [hck k hk']
    split
    · exact List.getElem_mem _
    · exact hp.mem_iff.mpr (List.getElem_mem _)
  exact (List.subperm_of_subset hnd hsub).perm_of_length_le (by omega)

theorem cycleCrossover_spec (p1 p2 : List α) (h1 : p1.Nodup) (hp : p1.Perm p2) :
    ∃ c1 c2, cycleCrossover p1 p2 = some (c1, c2) ∧ c1.length = p1.length ∧ c2.length = p1.length ∧
      (∀ k : Nat, k < p1.length →
        (c1[k]? = p1[k]? ∧ c2[k]? = p2[k]?) ∨ (c1[k]? = p2[k]? ∧ c2[k]? = p1[k]?)) ∧
      c1.Perm p1 ∧ c2.Perm p1 := by
  have h2 : p2.Nodup := hp.nodup_iff.mp h1
  have hl : p1.length = p2.length := hp.length_eq
  have hmem : ∀ x ∈ p2, x ∈ p1 := fun x hx => hp.mem_iff.mpr hx
  -- the successor map and its properties
  have hsig : ∀ j (hj : j < p2.length), sigOf p1 p2 j = p1.idxOf p2[j] := by
    intro j hj; simp [sigOf, List.getElem?_eq_getElem hj]
  have hlt : ∀ j, j < p1.length → sigOf p1 p2 j < p1.length := by
    intro j hj
    rw [hsig j (by omega)]
    exact List.idxOf_lt_length_of_mem (hmem _ (List.getElem_mem _))
  have hget : ∀ j (hj : j < p1.length), p1[sigOf p1 p2 j]'(hlt j hj) = p2[j]'(by omega) := by
    intro j hj
    have : sigOf p1 p2 j = p1.idxOf (p2[j]'(by omega)) := hsig j (by omega)
    simp only [this]
    exact List.getElem_idxOf _
  have hinj : ∀ i j, i < p1.length → j < p1.length → sigOf p1 p2 i = sigOf p1 p2 j → i = j := by
    intro i j hi hj e
    have a := hget i hi
    have b := hget j hj
    have : p2[i]'(by omega) = p2[j]'(by omega) := by
      rw [← a, ← b]; congr 1
    exact (List.Nodup.getElem_inj_iff h2).mp this
  -- run the loops
  obtain ⟨cyc, ef, hinv, _, hmarked⟩ := floop_spec hlt hinj (List.range p1.length) 1 (List.replicate p1.length (-1)) (by omega)
    (inv_init _ p1.length) (by intro s hs; simpa using hs)
  have efor : ccFor p1 p2 (List.range p1.length) 1 (List.replicate p1.length (-1)) = some cyc := by
    rw [ccFor_eq_floop p1 p2 p1.length hl.symm hmem hlt hinj (List.range p1.length) 1 _ (by omega) (inv_init _ p1.length)
      (by intro s hs; simpa using hs)]
    exact ef
  have hcl : cyc.length = p1.length := hinv.len
  obtain ⟨l1, l2, hch⟩ := ccChildren_spec p1 p2 cyc hl hcl
  refine ⟨(ccChildren p1 p2 cyc).1, (ccChildren p1 p2 cyc).2, ?_, l1, l2, ?_, ?_, ?_⟩
  · unfold cycleCrossover
    have v1 : validPermutation p1 = true := (validPermutation_iff p1).mpr h1
    have v2 : validPermutation p2 = true := (validPermutation_iff p2).mpr h2
    have e0 : ¬ (p1.length ≠ p2.length) := by simp [hl]
    simp only [e0, if_false, v1, v2, Bool.not_true, Bool.false_eq_true, efor]
  · intro k hk
    have hk2 : k < p2.length := by omega
    have hkc : k < cyc.length := by omega
    have := hch k p1[k] p2[k] cyc[k] (List.getElem?_eq_getElem hk) (List.getElem?_eq_getElem hk2)
      (List.getElem?_eq_getElem hkc)
    by_cases hc : (cyc[k] % 2 != 0) = true
    · left; simp only [hc, if_true] at this
      rw [this.1, this.2, List.getElem?_eq_getElem hk, List.getElem?_eq_getElem hk2]; exact ⟨rfl, rfl⟩
    · right; simp only [hc] at this
      rw [this.1, this.2, List.getElem?_eq_getElem hk, List.getElem?_eq_getElem hk2]; exact ⟨rfl, rfl⟩
  · -- child 1: cycle parity odd ↦ parent 1
    have hmk : ∀ j, j < p1.length → 0 ≤ gd cyc j := fun j hj => hmarked j (by simpa using hj)
    have hgd : ∀ j (hj : j < p1.length), gd cyc j = cyc[j]'(by omega) :=
      fun j hj => gd_of_getElem? _ _ _ (List.getElem?_eq_getElem (by omega))
    refine child_perm p1 p2 _ h1 hp (sigOf p1 p2) hlt hget (gd cyc)
      (fun j hj => hinv.closed j hj (hmk j hj)) (fun k => gd cyc k % 2 != 0)
      (fun i j e => by simp only [e]) l1 ?_
    intro k hk
    have hk2 : k < p2.length := by omega
    have hkc : k < cyc.length := by omega
    have := (hch k p1[k] p2[k] cyc[k] (List.getElem?_eq_getElem hk) (List.getElem?_eq_getElem hk2)
      (List.getElem?_eq_getElem hkc)).1
    rw [List.getElem?_eq_getElem (by omega)] at this
    rw [hgd k hk]
    exact Option.some.inj this
  · have hmk : ∀ j, j < p1.length → 0 ≤ gd cyc j := fun j hj => hmarked j (by simpa using hj)
    have hgd : ∀ j (hj : j < p1.length), gd cyc j = cyc[j]'(by omega) :=
      fun j hj => gd_of_getElem? _ _ _ (List.getElem?_eq_getElem (by omega))
    refine child_perm p1 p2 _ h1 hp (sigOf p1 p2) hlt hget (gd cyc)
      (fun j hj => hinv.closed j hj (hmk j hj)) (fun k => !(gd cyc k % 2 != 0))
      (fun i j e => by simp only [e]) l2 ?_
    intro k hk
    have hk2 : k < p2.length := by omega
    have hkc : k < cyc.length := by omega
    have := (hch k p1[k] p2[k] cyc[k] (List.getElem?_eq_getElem hk) (List.getElem?_eq_getElem hk2)
      (List.getElem?_eq_getElem hkc)).2
    rw [List.getElem?_eq_getElem (by omega)] at this
    rw [hgd k hk]
    have := Option.some.inj this
    rw [this]
    cases (cyc[k] % 2 != 0) <;> simp

end MahfModel.Variation
