/- Helper lemmas for C11: stochastic universal sampling returns exactly `n` individuals — over ANY
carrier (core classes only, so in particular over `Float`): the count does not depend on arithmetic. -/
import MahfModel.Proofs.C11
namespace MahfModel.Selection
set_option linter.unusedSectionVars false

section generic
variable {F : Type} [Add F] [Sub F] [Mul F] [Div F] [LT F] [LE F] [DecidableLT F] [DecidableLE F]
  [OfNat F 0] [OfNat F 1]

theorem susInner_index (distance : F) (rest : List F) (i : Nat) (sumW : F) :
    (susInner distance rest i sumW).1 + (susInner distance rest i sumW).2.2.length = i + rest.length := by
  induction rest generalizing i sumW with
  | nil => unfold susInner; split <;> rfl
  | cons w rest ih =>
    unfold susInner
    split
    · rw [ih (i + 1) (sumW + w)]; simp; omega
    · rfl

theorem susGo_spec (O : Ops F) (start gaps : F) (cnt k : Nat) (rest : List F) (i : Nat) (sumW : F) :
    (susGo O start gaps cnt k rest i sumW).length = cnt ∧
    ∀ j ∈ susGo O start gaps cnt k rest i sumW, j ≤ i + rest.length := by
  induction cnt generalizing k rest i sumW with
  | zero => simp [susGo]
  | succ cnt ih =>
    simp only [susGo]
    have hidx := susInner_index (start + O.ofNat k * gaps) rest i sumW
    obtain ⟨h1, h2⟩ := ih (k + 1) (susInner (start + O.ofNat k * gaps) rest i sumW).2.2
      (susInner (start + O.ofNat k * gaps) rest i sumW).1 (susInner (start + O.ofNat k * gaps) rest i sumW).2.1
    refine ⟨by simp [h1], ?_⟩
    intro j hj
    rcases List.mem_cons.mp hj with rfl | hj
    · omega
    · have := h2 j hj; omega

/-- SUS picks exactly `n` positions, all inside the weight list — whatever the carrier computes. -/
theorem susIndices_count (O : Ops F) (ws : List F) (n : Nat) (u : F) (is : List Nat)
    (h : susIndices O ws n u = .ok is) : is.length = n ∧ ∀ j ∈ is, j < ws.length := by
  simp only [susIndices] at h
  split_ifs at h
  cases ws with
  | nil => cases h
  | cons w0 rest =>
    simp only at h
    injection h with h; subst h
    obtain ⟨h1, h2⟩ := susGo_spec O (u * (sum (w0 :: rest) / O.ofNat n)) (sum (w0 :: rest) / O.ofNat n) n 0 rest 0 w0
    refine ⟨h1, fun j hj => ?_⟩
    have := h2 j hj
    simp; omega

theorem objectives_length {pop : Pop F} {objs : List F} (h : objectives pop = some objs) :
    objs.length = pop.length := by
  induction pop generalizing objs with
  | nil => simp [objectives] at h; subst h; rfl
  | cons a l ih =>
    simp only [objectives, List.mapM_cons] at h
    cases ha : a.obj with
    | none => simp [ha] at h
    | some o =>
      cases hl : List.mapM (fun x => x.obj) l with
      | none => simp [ha, hl] at h
      | some os =>
        simp [ha, hl] at h
        subst h
        simp [ih (objs := os) (by simpa [objectives] using hl)]

theorem proportionalWeights_length_any (O : Ops F) (objs : List F) (offset : F) (normalize : Bool) (ws : List F)
    (h : proportionalWeights O objs offset normalize = .ok (some ws)) : ws.length = objs.length := by
  unfold proportionalWeights at h
  repeat' split at h
  all_goals first
    | (simp only [Except.ok.injEq, Option.some.injEq] at h; subst h; simp)
    | (simp at h)

/-- `StochasticUniversalSampling`: an `Ok` result has exactly `num_selected` individuals — for every
population, offset, draw and carrier. -/
theorem sus_select_count (O : Ops F) (n : Nat) (offset u : F) (pop sel : Pop F)
    (h : select O (.sus n offset) (.draw u) pop = .ok sel) : sel.length = n := by
  have heq : select O (.sus n offset) (.draw u) pop =
      match objectives pop with
      | none => .error .panic
      | some objs =>
        match proportionalWeights O objs offset false with
        | .error e => .error e
        | .ok none => .error .exec
        | .ok (some ws) =>
          match susIndices O ws n u with
          | .error e => .error e
          | .ok is => .ok (pick pop is) := rfl
  rw [heq] at h
  split at h
  · cases h
  · next objs hobjs =>
    split at h
    · cases h
    · cases h
    · next ws hws =>
      split at h
      · cases h
      · next is his =>
        injection h with h; subst h
        obtain ⟨h1, h2⟩ := susIndices_count O ws n u is his
        rw [pick_length pop is, h1]
        intro j hj
        rw [← objectives_length hobjs, ← proportionalWeights_length_any O objs offset false ws hws]
        exact h2 j hj

end generic
end MahfModel.Selection
