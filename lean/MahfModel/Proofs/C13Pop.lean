/- Helper lemmas for C13: population level (`recombination()`, `mutation()`, rate-gated loops over a
   population) and parameters read from the state. -/
import MahfModel.Proofs.C13
namespace MahfModel.Variation
variable {α : Type}

/-! ### `recombination()` -/

theorem frame_cons_cons {β : Type} (p1 p2 : β) (rest : List β) (r : OptPair β) (rs : List (OptPair β)) :
    frame (p1 :: p2 :: rest) (r :: rs) = emitPair p1 p2 r ++ frame rest rs := by
  cases r <;> simp [frame, emitPair]

/-- The successive `recombine` results of a run (one per pair, while witnesses last). -/
def pairResults {β W : Type} (rec : β → β → W → Option (OptPair β)) : List β → List W → List (Option (OptPair β))
  | p1 :: p2 :: rest, w :: ws => rec p1 p2 w :: pairResults rec rest ws
  | _, _ => []

/-- A run that did not panic is the frame over its `recombine` results. -/
theorem recombinationRun_frame {β W : Type} (rec : β → β → W → Option (OptPair β)) :
    ∀ (ps : List β) (ws : List W) (out : List β), recombinationRun rec ps ws = some out →
      ps.length / 2 ≤ ws.length →
      ∃ rs, rs.length = ps.length / 2 ∧ pairResults rec ps ws = rs.map some ∧ out = frame ps rs
  | [], ws, out, h, _ => by
    simp only [recombinationRun, Option.some.injEq] at h
    exact ⟨[], by simp, by simp [pairResults], by subst h; cases ws <;> rfl⟩
  | [p], ws, out, h, _ => by
    simp only [recombinationRun, Option.some.injEq] at h
    exact ⟨[], by simp, by simp [pairResults], by subst h; cases ws <;> rfl⟩
  | _ :: _ :: _, [], _, _, hl => by simp at hl; omega
  | p1 :: p2 :: rest, w :: ws, out, h, hl => by
    simp only [recombinationRun] at h
    cases hr : rec p1 p2 w with
    | none => simp [hr] at h
    | some r =>
      simp only [hr] at h
      cases hrest : recombinationRun rec rest ws with
      | none => simp [hrest] at h
      | some out' =>
        simp only [hrest, Option.some.injEq] at h
        obtain ⟨rs, h1, h2, h3⟩ := recombinationRun_frame rec rest ws out' hrest (by simp at hl; omega)
        refine ⟨r :: rs, by simp [h1]; omega, by simp [pairResults, hr, h2], ?_⟩
        rw [frame_cons_cons, ← h3, h]

/-- The run panics only if some `recombine` call panics. -/
theorem recombinationRun_isSome {β W : Type} (rec : β → β → W → Option (OptPair β)) (S : β → Prop) (T : W → Prop)
    (hrec : ∀ p1 p2 w, S p1 → S p2 → T w → (rec p1 p2 w).isSome) :
    ∀ (ps : List β) (ws : List W), (∀ p ∈ ps, S p) → (∀ w ∈ ws, T w) → (recombinationRun rec ps ws).isSome
  | [], ws, _, _ => by cases ws <;> simp [recombinationRun]
  | [_], ws, _, _ => by cases ws <;> simp [recombinationRun]
  | _ :: _ :: _, [], _, _ => by simp [recombinationRun]
  | p1 :: p2 :: rest, w :: ws, hS, hT => by
    have h1 := hrec p1 p2 w (hS p1 (by simp)) (hS p2 (by simp)) (hT w (by simp))
    have ih := recombinationRun_isSome rec S T hrec rest ws (fun p hp => hS p (by simp [hp]))
      (fun w hw => hT w (by simp [hw]))
    obtain ⟨r, hr⟩ := Option.isSome_iff_exists.mp h1
    obtain ⟨o, ho⟩ := Option.isSome_iff_exists.mp ih
    simp [recombinationRun, hr, ho]

/-- Every member of the new population is a parent handed through or a child of a pair, where
`Q p1 p2 c` is whatever `recombine` guarantees of its children. -/
theorem recombinationRun_members {β W : Type} (rec : β → β → W → Option (OptPair β)) (S : β → Prop) (T : W → Prop)
    (Q : β → β → β → Prop)
    (hrec : ∀ p1 p2 w r, S p1 → S p2 → T w → rec p1 p2 w = some r →
      ∀ c ∈ emitPair p1 p2 r, c = p1 ∨ c = p2 ∨ Q p1 p2 c) :
    ∀ (ps : List β) (ws : List W) (out : List β), (∀ p ∈ ps, S p) → (∀ w ∈ ws, T w) →
      recombinationRun rec ps ws = some out →
      ∀ c ∈ out, c ∈ ps ∨ ∃ p1 ∈ ps, ∃ p2 ∈ ps, Q p1 p2 c
  | [], ws, out, _, _, h => by
    simp only [recombinationRun, Option.some.injEq] at h; subst h; intro c hc; exact Or.inl hc
  | [_], ws, out, _, _, h => by
    simp only [recombinationRun, Option.some.injEq] at h; subst h; intro c hc; exact Or.inl hc
  | _ :: _ :: _, [], out, _, _, h => by
    simp only [recombinationRun, Option.some.injEq] at h; subst h; intro c hc; exact Or.inl hc
  | p1 :: p2 :: rest, w :: ws, out, hS, hT, h => by
    simp only [recombinationRun] at h
    cases hr : rec p1 p2 w with
    | none => simp [hr] at h
    | some r =>
      simp only [hr] at h
      cases hrest : recombinationRun rec rest ws with
      | none => simp [hrest] at h
      | some out' =>
        simp only [hrest, Option.some.injEq] at h
        subst h
        intro c hc
        rcases List.mem_append.mp hc with hc | hc
        · rcases hrec p1 p2 w r (hS p1 (by simp)) (hS p2 (by simp)) (hT w (by simp)) hr c hc with e | e | q
          · exact Or.inl (by simp [e])
          · exact Or.inl (by simp [e])
          · exact Or.inr ⟨p1, by simp, p2, by simp, q⟩
        · rcases recombinationRun_members rec S T Q hrec rest ws out' (fun p hp => hS p (by simp [hp]))
            (fun w hw => hT w (by simp [hw])) hrest c hc with hm | ⟨a, ha, b, hb, q⟩
          · exact Or.inl (by simp [hm])
          · exact Or.inr ⟨a, by simp [ha], b, by simp [hb], q⟩

section GateCount
variable {F : Type} [LT F] [DecidableLT F]

/-- Offspring count of a run of a gated crossover, in terms of the settings and the draws. -/
theorem gate_count {β W : Type} (pc : F) (both : Bool) (helper : β → β → W → Option (β × β)) :
    ∀ (ps : List β) (ws : List (F × W)) (out : List β), ws.length = ps.length / 2 →
      recombinationRun (gateRecombine pc both helper) ps ws = some out →
      out.length = 2 * ws.countP (fun w => !crossedBy w.1 pc) +
        (if both then 2 else 1) * ws.countP (fun w => crossedBy w.1 pc) + ps.length % 2
  | [], ws, out, hl, h => by
    simp only [recombinationRun, Option.some.injEq] at h; subst h
    have : ws = [] := List.eq_nil_of_length_eq_zero (by simpa using hl)
    simp [this]
  | [_], ws, out, hl, h => by
    simp only [recombinationRun, Option.some.injEq] at h; subst h
    have : ws = [] := List.eq_nil_of_length_eq_zero (by simpa using hl)
    simp [this]
  | _ :: _ :: _, [], _, hl, _ => by simp at hl; omega
  | p1 :: p2 :: rest, w :: ws, out, hl, h => by
    simp only [recombinationRun] at h
    cases hr : gateRecombine pc both helper p1 p2 w with
    | none => simp [hr] at h
    | some r =>
      simp only [hr] at h
      cases hrest : recombinationRun (gateRecombine pc both helper) rest ws with
      | none => simp [hrest] at h
      | some out' =>
        simp only [hrest, Option.some.injEq] at h
        have ih := gate_count pc both helper rest ws out' (by simp at hl; omega) hrest
        subst h
        have hmod : (p1 :: p2 :: rest).length % 2 = rest.length % 2 := by simp; omega
        rw [List.length_append, ih, hmod]
        unfold gateRecombine at hr
        cases hc : crossedBy w.1 pc with
        | false =>
          simp only [hc, Bool.false_eq_true, if_false, Option.some.injEq] at hr
          subst hr
          simp [emitPair, hc]; omega
        | true =>
          simp only [hc, if_true] at hr
          cases hh : helper p1 p2 w.2 with
          | none => simp [hh] at hr
          | some c =>
            simp only [hh, Option.map_some, Option.some.injEq] at hr
            subst hr
            cases both <;> simp [emitPair, OptPair.fromPair, hc] <;> omega
end GateCount

/-! ### rate-gated loop over a population -/

theorem gated_all_true : ∀ (mask : List Bool) (vals sol : List α), mask.all id = true →
    mask.length = vals.length → vals.length = sol.length → gated mask vals sol = vals
  | [], [], [], _, _, _ => rfl
  | [], _ :: _, _, _, h, _ => by simp at h
  | _ :: _, [], _, _, h, _ => by simp at h
  | _, _ :: _, [], _, _, h => by simp at h
  | [], [], _ :: _, _, _, h => by simp at h
  | m :: ms, v :: vs, s :: ss, ha, hl, hv => by
    simp only [List.all_cons, id, Bool.and_eq_true] at ha
    simp only [gated, ha.1, if_true]
    rw [gated_all_true ms vs ss ha.2 (by simpa using hl) (by simpa using hv)]

theorem gatedPop_length : ∀ (ms : List (List Bool)) (vs pop : List (List α)),
    (gatedPop ms vs pop).length = pop.length
  | [], _, _ => by simp [gatedPop]
  | _ :: _, [], _ => by simp [gatedPop]
  | _ :: _, _ :: _, [] => by simp [gatedPop]
  | m :: ms, v :: vs, s :: ss => by simp [gatedPop, gatedPop_length ms vs ss]

theorem gatedPop_dims : ∀ (ms : List (List Bool)) (vs pop : List (List α)),
    (gatedPop ms vs pop).map List.length = pop.map List.length
  | [], _, _ => by simp [gatedPop]
  | _ :: _, [], _ => by simp [gatedPop]
  | _ :: _, _ :: _, [] => by simp [gatedPop]
  | m :: ms, v :: vs, s :: ss => by simp [gatedPop, gatedPop_dims ms vs ss, gated_length]

section RateZero
variable {F : Type} [LE F] [DecidableLE F] [OfNat F 0] [OfNat F 1]

theorem gatedPop_rate_zero (rate : Param F) (hz : rateIsZero rate = true) :
    ∀ (ms : List (List Bool)) (vs pop : List (List α)), masksLegal rate ms pop = true →
      gatedPop ms vs pop = pop
  | [], _, _, _ => by simp [gatedPop]
  | _ :: _, [], _, _ => by simp [gatedPop]
  | _ :: _, _ :: _, [], _ => by simp [gatedPop]
  | m :: ms, v :: vs, s :: ss, h => by
    simp only [masksLegal, Bool.and_eq_true] at h
    have hm := h.1
    simp only [maskLegal, hz, Bool.not_true, Bool.false_or, Bool.and_eq_true] at hm
    simp only [gatedPop]
    rw [gated_all_false m v s hm.1.2, gatedPop_rate_zero rate hz ms vs ss h.2]
end RateZero

/-! ### `mutation()` -/

theorem mutateAll_length {β : Type} (mutate : β → Option β) : ∀ (xs ys : List β),
    mutateAll mutate xs = some ys → ys.length = xs.length
  | [], ys, h => by simp only [mutateAll, Option.some.injEq] at h; subst h; rfl
  | x :: xs, ys, h => by
    simp only [mutateAll] at h
    cases hx : mutate x with
    | none => simp [hx] at h
    | some y =>
      simp only [hx] at h
      cases hr : mutateAll mutate xs with
      | none => simp [hr] at h
      | some r =>
        simp only [hr, Option.map_some, Option.some.injEq] at h
        subst h
        simp [mutateAll_length mutate xs r hr]

theorem mutateAll_total {β : Type} (mutate : β → Option β) : ∀ (xs : List β),
    (∀ x ∈ xs, (mutate x).isSome) → ∃ ys, mutateAll mutate xs = some ys ∧
      ys.length = xs.length ∧ ∀ i (hi : i < xs.length), some <$> ys[i]? = some (mutate xs[i])
  | [], _ => ⟨[], rfl, rfl, fun i hi => by simp at hi⟩
  | x :: xs, h => by
    obtain ⟨y, hy⟩ := Option.isSome_iff_exists.mp (h x (by simp))
    obtain ⟨ys, e, l, hk⟩ := mutateAll_total mutate xs (fun z hz => h z (by simp [hz]))
    refine ⟨y :: ys, by simp [mutateAll, hy, e], by simp [l], ?_⟩
    intro i hi
    cases i with
    | zero => simp [hy]
    | succ j => simpa using hk j (by simpa using hi)

theorem mutateAll_none {β : Type} (mutate : β → Option β) : ∀ (xs : List β),
    (∃ x ∈ xs, mutate x = none) → mutateAll mutate xs = none
  | [], h => by obtain ⟨_, hx, _⟩ := h; simp at hx
  | x :: xs, h => by
    simp only [mutateAll]
    cases hx : mutate x with
    | none => rfl
    | some y =>
      obtain ⟨z, hz, hzn⟩ := h
      have : z ∈ xs := by
        rcases List.mem_cons.mp hz with e | e
        · subst e; simp [hx] at hzn
        · exact e
      simp [mutateAll_none mutate xs ⟨z, this, hzn⟩]

end MahfModel.Variation
