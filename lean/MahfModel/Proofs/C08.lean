/- Helper lemmas for C08 (same seed, same run). Core only. -/
import MahfModel.Model.Determinism
namespace MahfModel.Determinism

theorem getElem?_modifyAt {α : Type} (g : α → α) (l : List α) (i j : Nat) :
    (modifyAt g l i)[j]? = if i = j then l[j]?.map g else l[j]? := by
  induction l generalizing i j with
  | nil => simp [modifyAt]
  | cons x xs ih =>
    cases i with
    | zero =>
      cases j with
      | zero => simp [modifyAt]
      | succ j => simp [modifyAt]
    | succ i =>
      cases j with
      | zero => simp [modifyAt]
      | succ j => simp [modifyAt, ih]

theorem length_modifyAt {α : Type} (g : α → α) (l : List α) (i : Nat) : (modifyAt g l i).length = l.length := by
  induction l generalizing i with
  | nil => rfl
  | cons x xs ih => cases i <;> simp [modifyAt, ih]

/-- Writes to the slots of a schedule, `g` idempotent: slot `j` is `g`-ed iff it is scheduled. -/
theorem getElem?_foldl_modifyAt {α : Type} (g : α → α) (hg : ∀ x, g (g x) = g x) (sched : List Nat)
    (l : List α) (j : Nat) :
    (sched.foldl (modifyAt g) l)[j]? = if j ∈ sched then l[j]?.map g else l[j]? := by
  induction sched generalizing l with
  | nil => simp
  | cons i is ih =>
    simp only [List.foldl_cons, ih, getElem?_modifyAt, List.mem_cons]
    by_cases hij : i = j
    · subst hij
      simp only [if_true, true_or]
      cases h : l[i]? with
      | none => simp
      | some x => simp [hg]
    · have hji : ¬ j = i := fun h => hij h.symm
      simp [hij, hji]

theorem evalInd_idem {S O : Type} (f : S → O) (i : Ind S O) : evalInd f (evalInd f i) = evalInd f i := rfl

theorem evalPar_eq {S O : Type} (f : S → O) (pop : List (Ind S O)) (sched : List Nat)
    (h : sched.Perm (List.range pop.length)) : evalPar f pop sched = evalSeq f pop := by
  apply List.ext_getElem?
  intro j
  unfold evalPar evalSeq
  rw [getElem?_foldl_modifyAt _ (evalInd_idem f), List.getElem?_map]
  by_cases hj : j < pop.length
  · have : j ∈ sched := h.mem_iff.2 (List.mem_range.2 hj)
    simp [this]
  · have hn : pop[j]? = none := List.getElem?_eq_none (by omega)
    simp [hn]

theorem range_filterMap_getElem? {α β : Type} (g : α → β) (l : List α) :
    (List.range l.length).filterMap (fun i => l[i]?.map g) = l.map g := by
  induction l with
  | nil => rfl
  | cons x xs ih =>
    rw [List.length_cons, List.range_succ_eq_map, List.filterMap_cons]
    simp only [List.getElem?_cons_zero, Option.map_some, List.filterMap_map, List.map_cons]
    congr 1

theorem callsPar_perm {S O : Type} (pop : List (Ind S O)) (sched : List Nat)
    (h : sched.Perm (List.range pop.length)) : (callsPar pop sched).Perm (pop.map (·.sol)) := by
  unfold callsPar
  have := h.filterMap (fun i => pop[i]?.map (·.sol))
  rwa [range_filterMap_getElem?] at this

theorem cur_eq {a b : RunSt} (h : a.stack = b.stack) : cur a = cur b := by simp [cur, h]

theorem stepOther_rel (stream : Nat → Nat) (op : Op) (a b : RunSt) (h : SameUpToCallOrder a b) :
    SameUpToCallOrder (stepOther stream op a) (stepOther stream op b) := by
  obtain ⟨h1, h2, h3, h4, h5, h6⟩ := h
  have hc := cur_eq h1
  cases op with
  | eval => exact ⟨h1, h2, h3, h4, h5, h6⟩
  | perturb => exact ⟨by simp [stepOther, setCur, hc, h1, h2], by simp [stepOther, setCur, h2], h3, h4, h5, h6⟩
  | spawn => exact ⟨by simp [stepOther, setCur, hc, h1, h2], by simp [stepOther, setCur, h2], h3, h4, h5, h6⟩
  | select => exact ⟨by simp [stepOther, hc, h1, h2], by simp [stepOther, h2], h3, h4, h5, h6⟩
  | merge =>
    simp only [stepOther, ← h1]
    split
    · exact ⟨rfl, h2, h3, h4, h5, h6⟩
    · exact ⟨h1, h2, h3, h4, h5, h6⟩
  | best => exact ⟨h1, h2, h3, by simp [stepOther, hc, h4], h5, h6⟩
  | log => exact ⟨h1, h2, h3, h4, by simp [stepOther, hc, h3, h4, h5], h6⟩

theorem evalStep_rel (f : Nat → Nat) (sch : List Nat) (a b : RunSt) (h : SameUpToCallOrder a b)
    (hs : sch.Perm (List.range (cur b).length)) :
    SameUpToCallOrder (evalStepPar f sch a) (evalStepSeq f b) := by
  obtain ⟨h1, h2, h3, h4, h5, h6⟩ := h
  have hc := cur_eq h1
  refine ⟨?_, h2, ?_, h4, h5, ?_⟩
  · simp only [evalStepPar, evalStepSeq, setCur, hc, h1]
    rw [evalPar_eq f (cur b) sch hs]
  · simp [evalStepPar, evalStepSeq, setCur, hc, h3]
  · simp only [evalStepPar, evalStepSeq, setCur, hc]
    exact h6.append (callsPar_perm (cur b) sch hs)

theorem evalStepSeq_rel (f : Nat → Nat) (a b : RunSt) (h : SameUpToCallOrder a b) :
    SameUpToCallOrder (evalStepSeq f a) (evalStepSeq f b) := by
  obtain ⟨h1, h2, h3, h4, h5, h6⟩ := h
  have hc := cur_eq h1
  exact ⟨by simp [evalStepSeq, setCur, hc, h1], h2, by simp [evalStepSeq, setCur, hc, h3], h4, h5,
    by simp only [evalStepSeq, setCur, hc]; exact h6.append_right _⟩

theorem runPar_rel (f : Nat → Nat) (stream : Nat → Nat) (ops : List Op) :
    ∀ (schs : List (List Nat)) (a b : RunSt), SameUpToCallOrder a b → Legal f stream ops schs b →
      SameUpToCallOrder (runPar f stream ops schs a) (runSeq f stream ops b) := by
  induction ops with
  | nil => intro schs a b h _; cases schs <;> exact h
  | cons op ops ih =>
    intro schs a b h hl
    cases op with
    | eval =>
      cases schs with
      | nil => simp [Legal] at hl
      | cons sch schs =>
        simp only [Legal] at hl
        simp only [runPar, runSeq]
        exact ih _ _ _ (evalStep_rel f sch a b h hl.1) hl.2
    | perturb => simp only [runPar, runSeq]; exact ih _ _ _ (stepOther_rel stream _ a b h) (by simpa [Legal] using hl)
    | spawn => simp only [runPar, runSeq]; exact ih _ _ _ (stepOther_rel stream _ a b h) (by simpa [Legal] using hl)
    | select => simp only [runPar, runSeq]; exact ih _ _ _ (stepOther_rel stream _ a b h) (by simpa [Legal] using hl)
    | merge => simp only [runPar, runSeq]; exact ih _ _ _ (stepOther_rel stream _ a b h) (by simpa [Legal] using hl)
    | best => simp only [runPar, runSeq]; exact ih _ _ _ (stepOther_rel stream _ a b h) (by simpa [Legal] using hl)
    | log => simp only [runPar, runSeq]; exact ih _ _ _ (stepOther_rel stream _ a b h) (by simpa [Legal] using hl)

/-! ### experiment runner -/

theorem mem_jobs (runs nprob r p : Nat) : (r, p) ∈ jobs runs nprob ↔ r < runs ∧ p < nprob := by
  simp [jobs, List.mem_flatMap, List.mem_map, List.mem_range]

theorem experiment_file {R : Type} (single : Nat → Nat → R) (runs nprob : Nat) (sched : List Nat)
    (hs : sched.Perm (List.range (jobs runs nprob).length)) (p r : Nat) (hr : r < runs) (hp : p < nprob) :
    fileOf (experiment single runs nprob sched) p r = some (single p r) := by
  unfold fileOf
  have hmem : (r, p) ∈ jobs runs nprob := (mem_jobs runs nprob r p).2 ⟨hr, hp⟩
  obtain ⟨j, hj, hjj⟩ := List.getElem_of_mem hmem
  have hjs : j ∈ sched := hs.mem_iff.2 (List.mem_range.2 hj)
  have hin : ((p, r), single p r) ∈ experiment single runs nprob sched := by
    simp only [experiment, List.mem_filterMap]
    exact ⟨j, hjs, by simp [List.getElem?_eq_getElem hj, hjj, jobSeed]⟩
  cases hf : (experiment single runs nprob sched).find? (fun x => decide (x.1 = (p, r))) with
  | none =>
    rw [List.find?_eq_none] at hf
    exact absurd (hf _ hin) (by simp)
  | some x =>
    have hx := List.find?_some hf
    have hxm := List.mem_of_find?_eq_some hf
    simp only [decide_eq_true_eq] at hx
    simp only [experiment, List.mem_filterMap] at hxm
    obtain ⟨j', _, hj'⟩ := hxm
    cases hjob : (jobs runs nprob)[j']? with
    | none => simp [hjob] at hj'
    | some job =>
      simp only [hjob, Option.map_some, Option.some.injEq] at hj'
      subst hj'
      simp only [Prod.mk.injEq] at hx
      simp [jobSeed, hx.1, hx.2]

theorem childSeeds_eq (d : Nat → Nat) (k : Nat) (r : Rng) :
    childSeeds d k r = (List.range k).map (fun i => d (r.stream (r.pos + i))) := by
  induction k generalizing r with
  | zero => rfl
  | succ k ih =>
    simp only [childSeeds, Rng.next, ih, List.range_succ_eq_map, List.map_cons, List.map_map]
    simp only [Nat.add_zero, List.cons.injEq, true_and]
    apply List.map_congr_left
    intro i _
    simp [Nat.add_assoc, Nat.add_comm 1 i]

theorem children_eq (ctor : Nat → Nat → Nat) (d : Nat → Nat) (k : Nat) (r : Rng) :
    (children ctor d k r).1 = (childSeeds d k r).map (mkRng ctor) ∧
    (children ctor d k r).2 = { r with pos := r.pos + k } := by
  induction k generalizing r with
  | zero => exact ⟨rfl, rfl⟩
  | succ k ih =>
    obtain ⟨h1, h2⟩ := ih r.next.2
    simp only [children, childSeeds, List.map_cons]
    refine ⟨by rw [h1], ?_⟩
    rw [h2]
    simp [Rng.next, Nat.add_assoc, Nat.add_comm 1 k]

/-! ### `Random` over a backend -/

theorem Random.run_eq {B : Backend} (script : List Draw) (r : Random B) :
    r.run script = B.run script r.inner := by
  induction script generalizing r with
  | nil => rfl
  | cons d ds ih => simp only [Random.run, Backend.run, Random.draw, ih]

theorem Random.nthChild_eq {B : Backend} (d : Nat → Nat) (i : Nat) (r : Random B) :
    Random.nthChild d i r = Random.withRng B (d (B.nthWord i r.inner)) := by
  induction i generalizing r with
  | zero => rfl
  | succ i ih => simp only [Random.nthChild, Backend.nthWord, ih, Random.child]

theorem Random.descend_withRng {B : Backend} (d : Nat → Nat) (path : List Nat) (seed : Nat) :
    (Random.withRng B seed).descend d path = Random.withRng B (B.descendSeed d path seed) := by
  induction path generalizing seed with
  | nil => rfl
  | cons i path ih =>
    simp only [Random.descend, Backend.descendSeed, Random.nthChild_eq, ih]
    rfl

/-- The seeds reported on the way down end with the descendant's seed. -/
theorem Random.descendSeeds_getLastD {B : Backend} (d : Nat → Nat) (path : List Nat) (seed : Nat) :
    ((Random.withRng B seed).descendSeeds d path).getLastD seed = B.descendSeed d path seed := by
  induction path generalizing seed with
  | nil => rfl
  | cons i path ih =>
    simp only [Random.descendSeeds, Backend.descendSeed, Random.nthChild_eq]
    have h := ih (d (B.nthWord i (Random.withRng B seed).inner))
    rw [List.getLastD_cons]
    exact h

/-- Deriving children advances the parent by exactly the words handed out and nothing else. -/
theorem Random.child_parent {B : Backend} (d : Nat → Nat) (r : Random B) :
    (r.child d).2.cfgSeed = r.cfgSeed ∧ (r.child d).2.inner = (B.nextU64 r.inner).2 := ⟨rfl, rfl⟩

theorem ctr_first_word (a : Nat) (ha : a < 2 ^ 64) : ctr.nthWord 0 (ctr.seedFrom a) = a := by
  simp only [Backend.nthWord, ctr]
  exact Nat.mod_eq_of_lt ha

theorem jobGenerator_eq {G : Type} (newG : Nat → G) (setup : Option G → Except Unit (Option G)) (dflt : G) (run : Nat) :
    jobGenerator newG setup dflt run =
      match setup (some (newG run)) with
      | .error e => .error e
      | .ok none => .ok dflt
      | .ok (some g) => .ok g := by
  unfold jobGenerator optimizeWithG jobInit
  cases setup (some (newG run)) with
  | error e => rfl
  | ok o => cases o <;> rfl

/-! ### coverage characterisation, thread pools -/

/-- Exactly when a completion order reproduces the sequential result: every slot is either visited
or already holds the value the objective function gives. No assumption on `sched` (out-of-range
entries write nothing, repeated entries are idempotent). -/
theorem evalPar_eq_iff {S O : Type} (f : S → O) (pop : List (Ind S O)) (sched : List Nat) :
    evalPar f pop sched = evalSeq f pop ↔
      ∀ j (h : j < pop.length), j ∈ sched ∨ pop[j].obj = some (f pop[j].sol) := by
  constructor
  · intro he j hj
    have := congrArg (·[j]?) he
    simp only [evalPar, evalSeq, getElem?_foldl_modifyAt _ (evalInd_idem f), List.getElem?_map] at this
    by_cases hm : j ∈ sched
    · exact Or.inl hm
    · right
      simp only [hm, if_false, List.getElem?_eq_getElem hj, Option.map_some, Option.some.injEq] at this
      have h2 := congrArg (·.obj) this
      simpa [evalInd] using h2
  · intro h
    apply List.ext_getElem?
    intro j
    unfold evalPar evalSeq
    rw [getElem?_foldl_modifyAt _ (evalInd_idem f), List.getElem?_map]
    by_cases hj : j < pop.length
    · by_cases hm : j ∈ sched
      · simp [hm]
      · simp only [hm, if_false, List.getElem?_eq_getElem hj, Option.map_some, Option.some.injEq]
        rcases h j hj with h1 | h1
        · exact absurd h1 hm
        · cases hp : pop[j] with
          | mk sol obj => rw [hp] at h1; simp only at h1; simp [evalInd, h1]
    · have hn : pop[j]? = none := List.getElem?_eq_none (by omega)
      simp [hn]

/-- A split tree divides its block without remainder and in order, whatever its shape. -/
theorem Split.blocks_tile (t : Split) (lo len : Nat) :
    (t.blocks lo len).flatMap blockIdx = List.range' lo len := by
  induction t generalizing lo len with
  | leaf => simp [Split.blocks, blockIdx]
  | node k l r ihl ihr =>
    simp only [Split.blocks, List.flatMap_append, ihl, ihr]
    have := @List.range'_append lo (min k len) (len - min k len) 1
    simp only [Nat.one_mul] at this
    rw [this]
    congr 1
    omega

theorem flatMap_range_blocks (size k : Nat) :
    ((List.range k).map fun c => (c * size, size)).flatMap blockIdx = List.range' 0 (k * size) := by
  induction k with
  | zero => simp
  | succ k ih =>
    rw [List.range_succ, List.map_append, List.flatMap_append, ih]
    simp only [List.map_cons, List.map_nil, List.flatMap_cons, List.flatMap_nil, List.append_nil, blockIdx]
    have := @List.range'_append 0 (k * size) size 1
    simp only [Nat.one_mul, Nat.zero_add] at this
    rw [this, Nat.succ_mul]

/-- `par_chunks_exact_mut(size)` visits exactly the first `⌊n / size⌋ · size` slots. -/
theorem chunksExact_cover (size n : Nat) :
    (chunksExact size n).flatMap blockIdx = List.range (n / size * size) := by
  rw [chunksExact, flatMap_range_blocks, List.range_eq_range']

/-- `par_chunks_mut(size)` divides the slice without remainder. -/
theorem chunks_tile (size n : Nat) (hs : 0 < size) :
    (chunks size n).flatMap blockIdx = List.range n := by
  unfold chunks
  -- full blocks, then possibly one shorter block
  have hdm := Nat.div_add_mod n size
  have hml := Nat.mod_lt n hs
  have e1 : (n / size + 1) * size = size * (n / size) + size := by rw [Nat.add_mul, Nat.mul_comm]; simp
  have e2 : (n / size + 1 + 1) * size = size * (n / size) + size + size := by
    rw [Nat.add_mul, Nat.add_mul, Nat.mul_comm]; simp
  have e0 : n / size * size = size * (n / size) := Nat.mul_comm _ _
  have hq : (n + size - 1) / size = if n % size = 0 then n / size else n / size + 1 := by
    split
    · next h => exact Nat.div_eq_of_lt_le (by omega) (by omega)
    · next h => exact Nat.div_eq_of_lt_le (by omega) (by omega)
  rw [hq]
  have hfull : ∀ k, k ≤ n / size →
      ((List.range k).map fun c => (c * size, min size (n - c * size)))
        = (List.range k).map fun c => (c * size, size) := by
    intro k hk
    apply List.map_congr_left
    intro c hc
    have hc' : c < n / size := Nat.lt_of_lt_of_le (List.mem_range.1 hc) hk
    have : (c + 1) * size ≤ n := Nat.le_trans (Nat.mul_le_mul_right _ hc') (Nat.div_mul_le_self _ _)
    rw [Nat.succ_mul] at this
    simp only [Prod.mk.injEq, true_and]
    omega
  split
  · next h =>
    rw [hfull _ (Nat.le_refl _), flatMap_range_blocks, List.range_eq_range']
    congr 1
    rw [e0]; omega
  · next h =>
    rw [List.range_succ, List.map_append, List.flatMap_append, hfull _ (Nat.le_refl _), flatMap_range_blocks]
    simp only [List.map_cons, List.map_nil, List.flatMap_cons, List.flatMap_nil, List.append_nil, blockIdx]
    have hmin : min size (n - n / size * size) = n % size := by
      rw [e0]; omega
    rw [hmin]
    have := @List.range'_append 0 (n / size * size) (n % size) 1
    simp only [Nat.one_mul, Nat.zero_add] at this
    rw [this, List.range_eq_range']
    congr 1
    rw [e0]; omega

/-- The driver's legality check of a witness schedule is sound. -/
theorem legalSched_sound (sched : List Nat) (n : Nat) (h : legalSched sched n = true) :
    sched.Perm (List.range n) := by
  unfold legalSched at h
  have he : sched.mergeSort (fun a b => decide (a ≤ b)) = List.range n := by simpa using h
  exact he ▸ (List.mergeSort_perm sched _).symm

theorem SameUpToCallOrder.symm {a b : RunSt} (h : SameUpToCallOrder a b) : SameUpToCallOrder b a :=
  ⟨h.1.symm, h.2.1.symm, h.2.2.1.symm, h.2.2.2.1.symm, h.2.2.2.2.1.symm, h.2.2.2.2.2.symm⟩

theorem SameUpToCallOrder.trans {a b c : RunSt} (h : SameUpToCallOrder a b) (g : SameUpToCallOrder b c) :
    SameUpToCallOrder a c :=
  ⟨h.1.trans g.1, h.2.1.trans g.2.1, h.2.2.1.trans g.2.2.1, h.2.2.2.1.trans g.2.2.2.1,
   h.2.2.2.2.1.trans g.2.2.2.2.1, h.2.2.2.2.2.trans g.2.2.2.2.2⟩

end MahfModel.Determinism
