/- Helper lemmas for C08 (same seed, same run). Core only. -/
import MahfModel.Model.Determinism
namespace MahfModel.Determinism

theorem getElem?_modifyAt {α : Type} (g : α → α) (l : List α) (i j : Nat) :
    (modifyAt g l i)[j]? = if i = j then l[j]?.map g else l[j]? := by
  induction l generalizing i j with
  | nil => simp [modifyAt]
  | cons x xs ih =>
    cases i with
    | zero =>
      cases j with
      | zero => simp [modifyAt]
      | succ j => simp [modifyAt]
    | succ i =>
      cases j with
      | zero => simp [modifyAt]
      | succ j => simp [modifyAt, ih]

theorem length_modifyAt {α : Type} (g : α → α) (l : List α) (i : Nat) : (modifyAt g l i).length = l.length := by
  induction l generalizing i with
  | nil => rfl
  | cons x xs ih => cases i <;> simp [modifyAt, ih]

/-- Writes to the slots of a schedule, `g` idempotent: slot `j` is `g`-ed iff it is scheduled. -/
theorem getElem?_foldl_modifyAt {α : Type} (g : α → α) (hg : ∀ x, g (g x) = g x) (sched : List Nat)
    (l : List α) (j : Nat) :
    (sched.foldl (modifyAt g) l)[j]? = if j ∈ sched then l[j]?.map g else l[j]? := by
  induction sched generalizing l with
  | nil => simp
  | cons i is ih =>
    simp only [List.foldl_cons, ih, getElem?_modifyAt, List.mem_cons]
    by_cases hij : i = j
    · subst hij
      simp only [if_true, true_or]
      cases h : l[i]? with
      | none => simp
      | some x => simp [hg]
    · have hji : ¬ j = i := fun h => hij h.symm
      simp [hij, hji]

theorem evalInd_idem {S O : Type} (f : S → O) (i : Ind S O) : evalInd f (evalInd f i) = evalInd f i := rfl

theorem evalPar_eq {S O : Type} (f : S → O) (pop : List (Ind S O)) (sched : List Nat)
    (h : sched.Perm (List.range pop.length)) : evalPar f pop sched = evalSeq f pop := by
  apply List.ext_getElem?
  intro j
  unfold evalPar evalSeq
  rw [getElem?_foldl_modifyAt _ (evalInd_idem f), List.getElem?_map]
  by_cases hj : j < pop.length
  · have : j ∈ sched := h.mem_iff.2 (List.mem_range.2 hj)
    simp [this]
  · have hn : pop[j]? = none := List.getElem?_eq_none (by omega)
    simp [hn]

theorem runPar_eq (f : Nat → Nat) (stream : Nat → Nat) (ops : List Op) :
    ∀ (schs : List (List Nat)) (s : RunSt), Legal f stream ops schs s → runPar f stream ops schs s = runSeq f stream ops s := by
  induction ops with
  | nil => intro schs s _; cases schs <;> rfl
  | cons op ops ih =>
    intro schs s hl
    cases op with
    | eval =>
      cases schs with
      | nil => simp only [runPar, runSeq]; exact ih _ _ (by simpa [Legal] using hl)
      | cons sch schs =>
        simp only [Legal] at hl
        simp only [runPar, runSeq]
        rw [evalPar_eq f s.pop sch hl.1]
        exact ih _ _ hl.2
    | perturb => simp only [runPar, runSeq]; exact ih _ _ (by simpa [Legal] using hl)
    | spawn => simp only [runPar, runSeq]; exact ih _ _ (by simpa [Legal] using hl)
    | best => simp only [runPar, runSeq]; exact ih _ _ (by simpa [Legal] using hl)

theorem childSeeds_eq (k : Nat) (r : Rng) : childSeeds k r = (List.range k).map (fun i => r.stream (r.pos + i)) := by
  induction k generalizing r with
  | zero => rfl
  | succ k ih =>
    simp only [childSeeds, Rng.next, ih, List.range_succ_eq_map, List.map_cons, List.map_map]
    simp only [Nat.add_zero, List.cons.injEq, true_and]
    apply List.map_congr_left
    intro i _
    simp [Nat.add_assoc, Nat.add_comm 1 i]

theorem children_eq (ctor : Nat → Nat → Nat) (k : Nat) (r : Rng) :
    (children ctor k r).1 = (childSeeds k r).map (mkRng ctor) ∧
    (children ctor k r).2 = { r with pos := r.pos + k } := by
  induction k generalizing r with
  | zero => exact ⟨rfl, rfl⟩
  | succ k ih =>
    obtain ⟨h1, h2⟩ := ih r.next.2
    simp only [children, childSeeds, List.map_cons]
    refine ⟨by rw [h1], ?_⟩
    rw [h2]
    simp [Rng.next, Nat.add_assoc, Nat.add_comm 1 k]

end MahfModel.Determinism
