/- C01 — helper lemmas for `State::holding` inside registry histories (`Model/RegistryH.lean`). Core only. -/
import MahfModel.Proofs.C01X
import MahfModel.Proofs.C02
import MahfModel.Model.RegistryH
namespace MahfModel.RegistryH
open MahfModel.Registry MahfModel.Borrow MahfModel.RegistryX

/-! ### frame: an extended operation leaves alone every type it does not mention -/

/-- The types an extended operation names. -/
def XOp.keys : XOp → List Key
  | .base o => ROp.keys o
  | .bor k | .tryBor k | .borMut k _ | .tryBorMut k _ | .bval k | .tryBval k | .bvalMut k _ | .tryBvalMut k _
  | .entOrInsW k _ _ | .entOrDefW k _ => [k]

/-- Not a raw scope push/pop. -/
def XOp.flat : XOp → Bool
  | .base o => ROp.flat o
  | _ => true

theorem xspecStep_frame (sp : Spec) (o : XOp) (q : Key) (hq : q ∉ XOp.keys o) (hflat : XOp.flat o = true)
    (hne : sp ≠ []) : col (xspecStep sp o).1 q = col sp q := by
  cases o <;> simp only [XOp.keys, List.mem_singleton] at hq <;> simp only [xspecStep]
  case base o => exact specStep_frame sp o q hq hflat hne
  case borMut k v => split <;> first | rfl | exact col_updFirst sp k q _ (Ne.symm hq)
  case tryBorMut k v => split <;> first | rfl | exact col_updFirst sp k q _ (Ne.symm hq)
  case bvalMut k v => split <;> first | rfl | exact col_updFirst sp k q _ (Ne.symm hq)
  case tryBvalMut k v => split <;> first | rfl | exact col_updFirst sp k q _ (Ne.symm hq)
  case entOrInsW k v w =>
    split
    · exact col_updFirst sp k q _ (Ne.symm hq)
    · exact col_setTop sp k q _ (Ne.symm hq) hne
  case entOrDefW k w =>
    split
    · exact col_updFirst sp k q _ (Ne.symm hq)
    · exact col_setTop sp k q _ (Ne.symm hq) hne

theorem xstep_frame (r : Reg) (o : XOp) (q : Key) (hI : Inv r) (hq : q ∉ XOp.keys o) (hflat : XOp.flat o = true) :
    vcol (xstep r o).1 q = vcol r q := by
  have h := (xstep_refines r o hI).2.2
  simp only [vcol, h]
  exact xspecStep_frame (abs r) o q hq hflat (abs_ne_nil r hI.1)

/-! ### statements keep the registry quiescent -/

theorem inv_heldOut (r : Reg) (i : Nat) (k : Key) (h : Inv r) : Inv (heldOut r i k) :=
  inv_erase_at _ i k (inv_put_at r i (markerOf k) 0 h)

theorem inv_putBack (r : Reg) (j : Nat) (k : Key) (v : Nat) (h : Inv r) : Inv (putBack r j k v) :=
  inv_erase_at _ j _ (inv_put_at r j k v h)

mutual
  theorem execHStmt_inv (s : HStmt) (r : Reg) (h : Inv r) : Inv (execHStmt r s).1 := by
    cases s with
    | op o =>
      simp only [execHStmt]
      exact (xstep_refines r o h).1
    | hold k d ok body =>
      simp only [execHStmt]
      split
      · exact h
      · rename_i i _
        split
        · exact h
        · rename_i c _
          have ih := execHProg_inv body _ (inv_heldOut r i k h)
          split
          · exact ih
          · exact inv_putBack _ _ _ _ ih
    | inner ok body =>
      simp only [execHStmt]
      have ih := execHProg_inv body _ (inv_intoChild r h)
      split
      · rename_i p child heq
        obtain ⟨h1, h2⟩ := intoParent_some _ p child heq
        rw [h1] at ih
        obtain ⟨_, hq⟩ := ih
        simp only [quiet_cons, Bool.and_eq_true] at hq
        exact ⟨h2, hq.2⟩
      · exact inv_new
  theorem execHProg_inv (p : HProg) (r : Reg) (h : Inv r) : Inv (execHProg r p).1 := by
    cases p with
    | nil => exact h
    | cons s rest =>
      simp only [execHProg]
      exact execHProg_inv rest _ (execHStmt_inv s r h)
end

/-! ### frame: a program leaves alone every type it does not mention -/

mutual
  /-- The program never names the type `q`: no operation on it, no raw push/pop, no nested `holding` of it
  or of the type whose marker it is. -/
  def HStmt.avoids (q : Key) : HStmt → Prop
    | .op o => q ∉ XOp.keys o ∧ XOp.flat o = true
    | .hold k _ _ body => k ≠ q ∧ markerOf k ≠ q ∧ HProg.avoids q body
    | .inner _ body => HProg.avoids q body
  def HProg.avoids (q : Key) : HProg → Prop
    | .nil => True
    | .cons s rest => HStmt.avoids q s ∧ HProg.avoids q rest
end

theorem vcol_heldOut (r : Reg) (i : Nat) (k q : Key) (hk : k ≠ q) (hmk : markerOf k ≠ q) :
    vcol (heldOut r i k) q = vcol r q := by
  simp only [heldOut]
  rw [vcol_erase_at _ i k q hk, vcol_put_at _ i _ q _ hmk]

theorem vcol_putBack (r : Reg) (j : Nat) (k q : Key) (v : Nat) (hk : k ≠ q) (hmk : markerOf k ≠ q) :
    vcol (putBack r j k v) q = vcol r q := by
  simp only [putBack]
  rw [vcol_erase_at _ j _ q hmk, vcol_put_at _ j k q _ hk]

mutual
  theorem execHStmt_frame (s : HStmt) (r : Reg) (q : Key) (hI : Inv r) (ha : HStmt.avoids q s) :
      vcol (execHStmt r s).1 q = vcol r q := by
    cases s with
    | op o =>
      simp only [HStmt.avoids] at ha
      simp only [execHStmt]
      exact xstep_frame r o q hI ha.1 ha.2
    | hold k d ok body =>
      simp only [HStmt.avoids] at ha
      obtain ⟨hk, hmk, hb⟩ := ha
      simp only [execHStmt]
      split
      · rfl
      · rename_i i _
        split
        · rfl
        · rename_i c _
          have ih := execHProg_frame body _ q (inv_heldOut r i k hI) hb
          rw [vcol_heldOut r i k q hk hmk] at ih
          split
          · exact ih
          · rename_i j _
            simp only
            rw [vcol_putBack _ j k q _ hk hmk]
            exact ih
    | inner ok body =>
      simp only [HStmt.avoids] at ha
      simp only [execHStmt]
      have ih := execHProg_frame body _ q (inv_intoChild r hI) ha
      split
      · rename_i p child heq
        obtain ⟨h1, _⟩ := intoParent_some _ p child heq
        rw [h1] at ih
        simp only [intoChild, vcol_cons] at ih
        exact (List.cons.inj ih).2
      · rename_i heq
        exfalso
        generalize (execHProg (intoChild r) body).1 = r2 at *
        have hl := congrArg List.length ih
        simp only [vcol_length, intoChild, List.length_cons] at hl
        have hr : 0 < r.length := List.length_pos_iff.mpr hI.1
        cases r2 with
        | nil => simp at hl
        | cons s t =>
          cases t with
          | nil => simp only [List.length_cons, List.length_nil] at hl; omega
          | cons s' t' => simp [intoParent] at heq
  theorem execHProg_frame (p : HProg) (r : Reg) (q : Key) (hI : Inv r) (ha : HProg.avoids q p) :
      vcol (execHProg r p).1 q = vcol r q := by
    cases p with
    | nil => rfl
    | cons s rest =>
      simp only [HProg.avoids] at ha
      simp only [execHProg]
      rw [execHProg_frame rest _ q (execHStmt_inv s r hI) ha.2]
      exact execHStmt_frame s r q hI ha.1
end

/-! ### `holding` puts the value back into the scope it was taken from -/

theorem scopeAt_heldOut (r : Reg) (i : Nat) (k : Key) (hi : i < r.length) (j : Nat) :
    scopeAt (heldOut r i k) j =
      if j = i then ((scopeAt r i).put (markerOf k) (fresh 0)).erase k else scopeAt r j := by
  have hlen1 : (modifyAt r i (·.put (markerOf k) (fresh 0))).length = r.length := modifyAt_length _ _ _
  simp only [heldOut]
  rw [scopeAt_modifyAt _ i j _ (by rw [hlen1]; exact hi)]
  split
  · rw [scopeAt_modifyAt _ i i _ hi]; simp
  · rename_i hj; rw [scopeAt_modifyAt _ i j _ hi]; simp [hj]

theorem holdingH_restores' (r : Reg) (k : Key) (d : Nat) (ok : Bool) (body : HProg) (i : Nat) (c : Cell)
    (hI : Inv r) (hf : find r k = some i) (hc : cellAt r i k = some c)
    (hnm : ∀ j, (scopeAt r j).has (markerOf k) = false) (hwf : HProg.avoids (markerOf k) body) :
    (execHStmt r (.hold k d ok body)).2 = (execHProg (heldOut r i k) body).2 ++ [resOut ok] ∧
    (execHStmt r (.hold k d ok body)).1.length = r.length ∧
    cellAt (execHStmt r (.hold k d ok body)).1 i k = some (fresh (c.val + d)) ∧
    (∀ j, (scopeAt (execHStmt r (.hold k d ok body)).1 j).has (markerOf k) = false) ∧
    (∀ j q, ¬ (j = i ∧ (q = k ∨ q = markerOf k)) →
      cellAt (execHStmt r (.hold k d ok body)).1 j q = cellAt (execHProg (heldOut r i k) body).1 j q) := by
  have hi := find_lt r k i hf
  have hmk := marker_ne k
  have h2 := inv_heldOut r i k hI
  have hs2 := scopeAt_heldOut r i k hi
  have hfind2 : find (heldOut r i k) (markerOf k) = some i := by
    apply find_eq_some_of
    · rw [hs2 i]; simp [Scope.has, Scope.get?_erase, Scope.get?_put, hmk]
    · intro j hj; rw [hs2 j]; simp [Nat.ne_of_lt hj, hnm j]
  have hframe := execHProg_frame body (heldOut r i k) (markerOf k) h2 hwf
  have hfind3 : find (execHProg (heldOut r i k) body).1 (markerOf k) = some i := by
    rw [find_of_vcol _ _ _ hframe]; exact hfind2
  have hlen3 : (execHProg (heldOut r i k) body).1.length = r.length := by
    have := congrArg List.length hframe
    simp only [vcol_length] at this
    rw [this]; simp [heldOut, modifyAt_length]
  have hunf : execHStmt r (.hold k d ok body) =
      (putBack (execHProg (heldOut r i k) body).1 i k (c.val + d),
        (execHProg (heldOut r i k) body).2 ++ [resOut ok]) := by
    simp only [execHStmt, hf, hc, hfind3]
  rw [hunf]
  generalize (execHProg (heldOut r i k) body).1 = r3 at *
  have hlen4 : (modifyAt r3 i (·.put k (fresh (c.val + d)))).length = r3.length := modifyAt_length _ _ _
  have hi3 : i < r3.length := by omega
  simp only [putBack]
  refine ⟨by first | trivial | rfl, by simp [modifyAt_length, hlen3], ?_, ?_, ?_⟩
  · rw [cellAt_erase_at _ i _ i k (by omega), cellAt_put_at _ i k _ i k hi3]
    simp [Ne.symm hmk]
  · intro j
    by_cases hj : j = i
    · subst hj
      simp only [Scope.has]
      have := cellAt_erase_at (modifyAt r3 j (·.put k (fresh (c.val + d)))) j (markerOf k) j (markerOf k) (by omega)
      simp only [cellAt] at this
      simp [this]
    · rw [scopeAt_modifyAt _ i j _ (by omega), scopeAt_modifyAt _ i j _ hi3]
      simp only [hj, if_false]
      rw [has_of_vcol, hframe, ← has_of_vcol, hs2 j]
      simp [hj, hnm j]
  · intro j q hjq
    rw [cellAt_erase_at _ i _ j q (by omega), cellAt_put_at _ i k _ j q hi3]
    have a1 : ¬ (j = i ∧ q = markerOf k) := fun h => hjq ⟨h.1, Or.inr h.2⟩
    have a2 : ¬ (j = i ∧ q = k) := fun h => hjq ⟨h.1, Or.inl h.2⟩
    simp [a1, a2]

end MahfModel.RegistryH
