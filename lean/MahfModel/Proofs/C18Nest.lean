/- Helper lemmas for `Props/C18Nest.lean`: components executed on a registry chain only write to the
top-most registry once that registry has been initialised for them (`Scope` does exactly this), hence a
`Scope` leaves the enclosing registries alone, and a PSO loop with scoped refinements in its body runs
exactly like the plain PSO loop of `Model/PsoLoop.lean`. -/
import MahfModel.Model.PsoNest
import MahfModel.Proofs.C18Loop
namespace MahfModel.Pso
set_option linter.unusedSectionVars false
set_option linter.unusedSimpArgs false
set_option linter.unusedVariables false

section chain
variable {F : Type}

/-- Everything the first registry has, the second has as well. -/
structure Frame.le (a b : Frame F) : Prop where
  iters : a.iters.isSome = true → b.iters.isSome = true
  evals : a.evals.isSome = true → b.evals.isSome = true
  progIter : a.progIter.isSome = true → b.progIter.isSome = true
  progEval : a.progEval.isSome = true → b.progEval.isSome = true

theorem Frame.le_refl (a : Frame F) : Frame.le a a := ⟨id, id, id, id⟩
theorem Frame.le_trans {a b c : Frame F} (h1 : Frame.le a b) (h2 : Frame.le b c) : Frame.le a c :=
  ⟨fun h => h2.iters (h1.iters h), fun h => h2.evals (h1.evals h), fun h => h2.progIter (h1.progIter h),
   fun h => h2.progEval (h1.progEval h)⟩

/-- The registry holds the `Progress` entries the condition writes to. -/
def Cond.cov (fr : Frame F) : Cond → Bool
  | .ltIter _ => fr.progIter.isSome
  | .ltEval _ => fr.progEval.isSome
  | .not c => Cond.cov fr c
  | .and a b => Cond.cov fr a && Cond.cov fr b
  | .or a b => Cond.cov fr a && Cond.cov fr b

mutual
/-- The registry holds everything the component writes to (outside its own scopes). -/
def Comp.cov (fr : Frame F) : Comp → Bool
  | .nop => true
  | .evals => fr.evals.isSome
  | .loop c b => fr.iters.isSome && Cond.cov fr c && Comps.cov fr b
  | .branch c b => Cond.cov fr c && Comps.cov fr b
  | .scope _ => true
def Comps.cov (fr : Frame F) : Comps → Bool
  | .nil => true
  | .cons c cs => Comp.cov fr c && Comps.cov fr cs
end

theorem Cond.cov_mono {a b : Frame F} (h : Frame.le a b) (c : Cond) : Cond.cov a c = true → Cond.cov b c = true := by
  induction c with
  | ltIter n => exact h.progIter
  | ltEval n => exact h.progEval
  | not c ih => exact ih
  | and x y ihx ihy => simp only [Cond.cov, Bool.and_eq_true]; exact fun ⟨p, q⟩ => ⟨ihx p, ihy q⟩
  | or x y ihx ihy => simp only [Cond.cov, Bool.and_eq_true]; exact fun ⟨p, q⟩ => ⟨ihx p, ihy q⟩

mutual
theorem Comp.cov_mono {a b : Frame F} (h : Frame.le a b) : ∀ c : Comp, Comp.cov a c = true → Comp.cov b c = true
  | .nop => fun _ => rfl
  | .evals => h.evals
  | .loop c body => by
    simp only [Comp.cov, Bool.and_eq_true]
    exact fun ⟨⟨p, q⟩, r⟩ => ⟨⟨h.iters p, Cond.cov_mono h c q⟩, Comps.cov_mono h body r⟩
  | .branch c body => by
    simp only [Comp.cov, Bool.and_eq_true]
    exact fun ⟨q, r⟩ => ⟨Cond.cov_mono h c q, Comps.cov_mono h body r⟩
  | .scope _ => fun _ => rfl
theorem Comps.cov_mono {a b : Frame F} (h : Frame.le a b) : ∀ cs : Comps, Comps.cov a cs = true → Comps.cov b cs = true
  | .nil => fun _ => rfl
  | .cons c cs => by
    simp only [Comps.cov, Bool.and_eq_true]
    exact fun ⟨p, q⟩ => ⟨Comp.cov_mono h c p, Comps.cov_mono h cs q⟩
end

/-! ### initialisation only touches the top-most registry and makes it cover the component -/

theorem condInitC_top (zero : F) (c : Cond) (fr : Frame F) (rest : Chain F) :
    ∃ fr', condInitC zero c (fr :: rest) = fr' :: rest ∧ Frame.le fr fr' ∧ Cond.cov fr' c = true := by
  induction c generalizing fr with
  | ltIter n => exact ⟨_, rfl, ⟨id, id, fun _ => rfl, id⟩, rfl⟩
  | ltEval n => exact ⟨_, rfl, ⟨id, id, id, fun _ => rfl⟩, rfl⟩
  | not c ih => exact ih fr
  | and a b iha ihb =>
    obtain ⟨f1, h1, l1, c1⟩ := iha fr
    obtain ⟨f2, h2, l2, c2⟩ := ihb f1
    refine ⟨f2, by simp only [condInitC, h1, h2], Frame.le_trans l1 l2, ?_⟩
    simp only [Cond.cov, Bool.and_eq_true]; exact ⟨Cond.cov_mono l2 a c1, c2⟩
  | or a b iha ihb =>
    obtain ⟨f1, h1, l1, c1⟩ := iha fr
    obtain ⟨f2, h2, l2, c2⟩ := ihb f1
    refine ⟨f2, by simp only [condInitC, h1, h2], Frame.le_trans l1 l2, ?_⟩
    simp only [Cond.cov, Bool.and_eq_true]; exact ⟨Cond.cov_mono l2 a c1, c2⟩

mutual
theorem cinit_top (zero : F) : ∀ (c : Comp) (fr : Frame F) (rest : Chain F),
    ∃ fr', cinit zero c (fr :: rest) = fr' :: rest ∧ Frame.le fr fr' ∧ Comp.cov fr' c = true
  | .nop, fr, rest => ⟨fr, rfl, Frame.le_refl fr, rfl⟩
  | .evals, fr, rest => ⟨_, rfl, ⟨id, fun _ => rfl, id, id⟩, rfl⟩
  | .loop c b, fr, rest => by
    obtain ⟨f1, h1, l1, c1⟩ := condInitC_top zero c { fr with iters := some 0 } rest
    obtain ⟨f2, h2, l2, c2⟩ := cinits_top zero b f1 rest
    have l0 : Frame.le fr { fr with iters := some 0 } := ⟨fun _ => rfl, id, id, id⟩
    refine ⟨f2, by simp only [cinit, insTop, h1, h2], Frame.le_trans l0 (Frame.le_trans l1 l2), ?_⟩
    simp only [Comp.cov, Bool.and_eq_true]
    exact ⟨⟨(Frame.le_trans l1 l2).iters rfl, Cond.cov_mono l2 c c1⟩, c2⟩
  | .branch c b, fr, rest => by
    obtain ⟨f1, h1, l1, c1⟩ := condInitC_top zero c fr rest
    obtain ⟨f2, h2, l2, c2⟩ := cinits_top zero b f1 rest
    refine ⟨f2, by simp only [cinit, h1, h2], Frame.le_trans l1 l2, ?_⟩
    simp only [Comp.cov, Bool.and_eq_true]
    exact ⟨Cond.cov_mono l2 c c1, c2⟩
  | .scope _, fr, rest => ⟨fr, rfl, Frame.le_refl fr, rfl⟩
theorem cinits_top (zero : F) : ∀ (cs : Comps) (fr : Frame F) (rest : Chain F),
    ∃ fr', cinits zero cs (fr :: rest) = fr' :: rest ∧ Frame.le fr fr' ∧ Comps.cov fr' cs = true
  | .nil, fr, rest => ⟨fr, rfl, Frame.le_refl fr, rfl⟩
  | .cons c cs, fr, rest => by
    obtain ⟨f1, h1, l1, c1⟩ := cinit_top zero c fr rest
    obtain ⟨f2, h2, l2, c2⟩ := cinits_top zero cs f1 rest
    refine ⟨f2, by simp only [cinits, h1, h2], Frame.le_trans l1 l2, ?_⟩
    simp only [Comps.cov, Bool.and_eq_true]
    exact ⟨Comp.cov_mono l2 c c1, c2⟩
end

/-! ### the counters are somewhere in the chain -/

/-- `Iterations` and `Evaluations` are somewhere in the chain (the lenses of `LessThanN` succeed). -/
def HasCounters (ch : Chain F) : Prop :=
  (getFirst (fun fr => fr.iters) ch).isSome = true ∧ (getFirst (fun fr => fr.evals) ch).isSome = true

theorem getFirst_isSome_cons {α : Type} (get : Frame F → Option α) (fr : Frame F) (rest : Chain F) :
    (getFirst get (fr :: rest)).isSome = ((get fr).isSome || (getFirst get rest).isSome) := by
  simp only [getFirst]
  cases get fr <;> simp

theorem hasCounters_mono {a b : Frame F} (h : Frame.le a b) (rest : Chain F) :
    HasCounters (a :: rest) → HasCounters (b :: rest) := by
  simp only [HasCounters, getFirst_isSome_cons, Bool.or_eq_true]
  rintro ⟨h1 | h1, h2 | h2⟩
  · exact ⟨Or.inl (h.iters h1), Or.inl (h.evals h2)⟩
  · exact ⟨Or.inl (h.iters h1), Or.inr h2⟩
  · exact ⟨Or.inr h1, Or.inl (h.evals h2)⟩
  · exact ⟨Or.inr h1, Or.inr h2⟩

theorem hasCounters_push (ch : Chain F) : HasCounters ch → HasCounters (Frame.empty :: ch) := by
  simp only [HasCounters, getFirst_isSome_cons, Frame.empty, Option.isSome_none, Bool.false_or]
  exact id

/-! ### evaluation of a covered condition only writes to the top-most registry -/

variable [Div F]

theorem evalCondC_top (cast : Nat → F) (c : Cond) (fr : Frame F) (rest : Chain F) (hc : Cond.cov fr c = true) :
    (evalCondC cast c (fr :: rest) = none ∧ ¬ HasCounters (fr :: rest)) ∨
    ∃ b fr', evalCondC cast c (fr :: rest) = some (b, fr' :: rest) ∧ Frame.le fr fr' ∧ Frame.le fr' fr := by
  induction c generalizing fr with
  | ltIter n =>
    simp only [Cond.cov] at hc
    simp only [evalCondC]
    cases hg : getFirst (fun fr => fr.iters) (fr :: rest) with
    | none => exact Or.inl ⟨rfl, fun h => by simp [HasCounters, hg] at h⟩
    | some it =>
      refine Or.inr ⟨decide (it < n), { fr with progIter := some (cast it / cast n) },
        by simp only [setFirst, hc, if_true], ?_, ?_⟩
      · exact ⟨id, id, fun _ => rfl, id⟩
      · exact ⟨id, id, fun _ => hc, id⟩
  | ltEval n =>
    simp only [Cond.cov] at hc
    simp only [evalCondC]
    cases hg : getFirst (fun fr => fr.evals) (fr :: rest) with
    | none => exact Or.inl ⟨rfl, fun h => by simp [HasCounters, hg] at h⟩
    | some it =>
      refine Or.inr ⟨decide (it < n), { fr with progEval := some (cast it / cast n) },
        by simp only [setFirst, hc, if_true], ?_, ?_⟩
      · exact ⟨id, id, id, fun _ => rfl⟩
      · exact ⟨id, id, id, fun _ => hc⟩
  | not c ih =>
    rcases ih fr hc with ⟨h, hn⟩ | ⟨b, fr', h, l1, l2⟩
    · exact Or.inl ⟨by simp only [evalCondC, h], hn⟩
    · exact Or.inr ⟨!b, fr', by simp only [evalCondC, h], l1, l2⟩
  | and x y ihx ihy =>
    simp only [Cond.cov, Bool.and_eq_true] at hc
    rcases ihx fr hc.1 with ⟨h, hn⟩ | ⟨b1, f1, h1, l1, l1'⟩
    · exact Or.inl ⟨by simp only [evalCondC, h], hn⟩
    · rcases ihy f1 (Cond.cov_mono l1 y hc.2) with ⟨h, hn⟩ | ⟨b2, f2, h2, l2, l2'⟩
      · exact Or.inl ⟨by simp only [evalCondC, h1, h], fun hh => hn (hasCounters_mono l1 rest hh)⟩
      · exact Or.inr ⟨b1 && b2, f2, by simp only [evalCondC, h1, h2], Frame.le_trans l1 l2, Frame.le_trans l2' l1'⟩
  | or x y ihx ihy =>
    simp only [Cond.cov, Bool.and_eq_true] at hc
    rcases ihx fr hc.1 with ⟨h, hn⟩ | ⟨b1, f1, h1, l1, l1'⟩
    · exact Or.inl ⟨by simp only [evalCondC, h], hn⟩
    · rcases ihy f1 (Cond.cov_mono l1 y hc.2) with ⟨h, hn⟩ | ⟨b2, f2, h2, l2, l2'⟩
      · exact Or.inl ⟨by simp only [evalCondC, h1, h], fun hh => hn (hasCounters_mono l1 rest hh)⟩
      · exact Or.inr ⟨b1 || b2, f2, by simp only [evalCondC, h1, h2], Frame.le_trans l1 l2, Frame.le_trans l2' l1'⟩

/-- What executing a covered component does to the chain: only the top-most registry changes (and
keeps what it had); with the counters in reach there is no `Err` / panic. -/
def TopOnly (r : CRes F) (fr : Frame F) (rest : Chain F) : Prop :=
  (∃ fr', r.chain = fr' :: rest ∧ Frame.le fr fr') ∧ (HasCounters (fr :: rest) → r.status = .ok)

theorem exec_top (cast : Nat → F) (zero : F) (N : Nat) : ∀ fuel : Nat,
    (∀ (c : Comp) (fr : Frame F) (rest : Chain F), Comp.cov fr c = true →
      TopOnly (cexec cast zero N fuel c (fr :: rest)) fr rest) ∧
    (∀ (cs : Comps) (fr : Frame F) (rest : Chain F), Comps.cov fr cs = true →
      TopOnly (cexecs cast zero N fuel cs (fr :: rest)) fr rest) ∧
    (∀ (c : Cond) (b : Comps) (fr : Frame F) (rest : Chain F), fr.iters.isSome = true → Cond.cov fr c = true →
      Comps.cov fr b = true → TopOnly (cloop cast zero N fuel c b (fr :: rest)) fr rest) := by
  intro fuel
  induction fuel with
  | zero =>
    refine ⟨fun c fr rest _ => ?_, fun cs fr rest _ => ?_, fun c b fr rest _ _ _ => ?_⟩ <;>
      simp only [cexec, cexecs, cloop] <;> exact ⟨⟨fr, rfl, Frame.le_refl fr⟩, fun _ => rfl⟩
  | succ fuel ih =>
    obtain ⟨ihc, ihs, ihl⟩ := ih
    refine ⟨?_, ?_, ?_⟩
    · intro c fr rest hc
      cases c with
      | nop => simp only [cexec]; exact ⟨⟨fr, rfl, Frame.le_refl fr⟩, fun _ => rfl⟩
      | evals =>
        simp only [Comp.cov] at hc
        simp only [cexec]
        have hg : ∃ v, getFirst (fun fr => fr.evals) (fr :: rest) = some v := by
          simp only [getFirst]
          cases he : fr.evals with
          | none => simp [he] at hc
          | some v => exact ⟨v, rfl⟩
        obtain ⟨v, hv⟩ := hg
        simp only [hv, setFirst, hc, if_true]
        refine ⟨⟨_, rfl, ⟨id, fun _ => ?_, id, id⟩⟩, fun _ => rfl⟩
        cases he : fr.evals with
        | none => simp [he] at hc
        | some v => rfl
      | loop c b =>
        simp only [Comp.cov, Bool.and_eq_true] at hc
        simp only [cexec]
        obtain ⟨f1, h1, l1, c1⟩ := condInitC_top zero c fr rest
        rw [h1]
        obtain ⟨⟨f2, h2, l2⟩, ok2⟩ := ihl c b f1 rest (l1.iters hc.1.1) c1 (Comps.cov_mono l1 b hc.2)
        exact ⟨⟨f2, h2, Frame.le_trans l1 l2⟩, fun hh => ok2 (hasCounters_mono l1 rest hh)⟩
      | branch c b =>
        simp only [Comp.cov, Bool.and_eq_true] at hc
        simp only [cexec]
        rcases evalCondC_top cast c fr rest hc.1 with ⟨h, hn⟩ | ⟨bv, f1, h1, l1, l1'⟩
        · rw [h]; exact ⟨⟨fr, rfl, Frame.le_refl fr⟩, fun hh => absurd hh hn⟩
        · rw [h1]
          cases bv with
          | true =>
            obtain ⟨⟨f2, h2, l2⟩, ok2⟩ := ihs b f1 rest (Comps.cov_mono l1 b hc.2)
            exact ⟨⟨f2, h2, Frame.le_trans l1 l2⟩, fun hh => ok2 (hasCounters_mono l1 rest hh)⟩
          | false => exact ⟨⟨f1, rfl, l1⟩, fun _ => rfl⟩
      | scope b =>
        simp only [cexec]
        obtain ⟨e1, h1, _, c1⟩ := cinits_top zero b (Frame.empty : Frame F) (fr :: rest)
        rw [h1]
        obtain ⟨⟨e2, h2, _⟩, ok2⟩ := ihs b e1 (fr :: rest) c1
        rw [h2]
        refine ⟨⟨fr, rfl, Frame.le_refl fr⟩, fun hh => ok2 ?_⟩
        have := hasCounters_push (fr :: rest) hh
        rw [← h1]
        obtain ⟨e1', h1', l1', _⟩ := cinits_top zero b (Frame.empty : Frame F) (fr :: rest)
        rw [h1']
        exact hasCounters_mono l1' (fr :: rest) this
    · intro cs fr rest hc
      cases cs with
      | nil => simp only [cexecs]; exact ⟨⟨fr, rfl, Frame.le_refl fr⟩, fun _ => rfl⟩
      | cons c cs =>
        simp only [Comps.cov, Bool.and_eq_true] at hc
        simp only [cexecs]
        obtain ⟨⟨f1, h1, l1⟩, ok1⟩ := ihc c fr rest hc.1
        cases hs : (cexec cast zero N fuel c (fr :: rest)).status with
        | ok =>
          simp only [h1]
          obtain ⟨⟨f2, h2, l2⟩, ok2⟩ := ihs cs f1 rest (Comps.cov_mono l1 cs hc.2)
          exact ⟨⟨f2, h2, Frame.le_trans l1 l2⟩, fun hh => ok2 (hasCounters_mono l1 rest hh)⟩
        | err => exact ⟨⟨f1, h1, l1⟩, fun hh => by rw [ok1 hh] at hs; cases hs⟩
        | panic => exact ⟨⟨f1, h1, l1⟩, fun hh => by rw [ok1 hh] at hs; cases hs⟩
    · intro c b fr rest hi hc hb
      simp only [cloop]
      rcases evalCondC_top cast c fr rest hc with ⟨h, hn⟩ | ⟨bv, f1, h1, l1, l1'⟩
      · rw [h]; exact ⟨⟨fr, rfl, Frame.le_refl fr⟩, fun hh => absurd hh hn⟩
      · rw [h1]
        cases bv with
        | false => exact ⟨⟨f1, rfl, l1⟩, fun _ => rfl⟩
        | true =>
          simp only
          obtain ⟨⟨f2, h2, l2⟩, ok2⟩ := ihs b f1 rest (Comps.cov_mono l1 b hb)
          cases hs : (cexecs cast zero N fuel b (f1 :: rest)).status with
          | ok =>
            simp only [h2]
            have hi2 : f2.iters.isSome = true := (Frame.le_trans l1 l2).iters hi
            have hg : ∃ v, getFirst (fun fr => fr.iters) (f2 :: rest) = some v := by
              simp only [getFirst]
              cases he : f2.iters with
              | none => simp [he] at hi2
              | some v => exact ⟨v, rfl⟩
            obtain ⟨v, hv⟩ := hg
            simp only [hv, setFirst, hi2, if_true]
            have l3 : Frame.le f2 { f2 with iters := f2.iters.map (· + 1) } :=
              ⟨fun _ => by cases he : f2.iters with
                | none => simp [he] at hi2
                | some v => rfl, id, id, id⟩
            have l12 := Frame.le_trans l1 l2
            obtain ⟨⟨f4, h4, l4⟩, ok4⟩ := ihl c b { f2 with iters := f2.iters.map (· + 1) } rest (l3.iters hi2)
              (Cond.cov_mono (Frame.le_trans l12 l3) c hc) (Comps.cov_mono (Frame.le_trans l12 l3) b hb)
            exact ⟨⟨f4, h4, Frame.le_trans l12 (Frame.le_trans l3 l4)⟩,
              fun hh => ok4 (hasCounters_mono (Frame.le_trans l12 l3) rest hh)⟩
          | err => exact ⟨⟨f2, h2, Frame.le_trans l1 l2⟩,
              fun hh => by rw [ok2 (hasCounters_mono l1 rest hh)] at hs; cases hs⟩
          | panic => exact ⟨⟨f2, h2, Frame.le_trans l1 l2⟩,
              fun hh => by rw [ok2 (hasCounters_mono l1 rest hh)] at hs; cases hs⟩

/-- A `Scope` gives the chain back as it was, whatever its body does, and does not fail when the
counters are in reach. -/
theorem scope_frame (cast : Nat → F) (zero : F) (N : Nat) (fuel : Nat) (b : Comps) (ch : Chain F) :
    (cexec cast zero N fuel (.scope b) ch).chain = ch ∧
    (HasCounters ch → (cexec cast zero N fuel (.scope b) ch).status = .ok) := by
  cases fuel with
  | zero => exact ⟨by simp only [cexec], fun _ => by simp only [cexec]⟩
  | succ fuel =>
    simp only [cexec]
    obtain ⟨e1, h1, l1, c1⟩ := cinits_top zero b (Frame.empty : Frame F) ch
    rw [h1]
    obtain ⟨⟨e2, h2, _⟩, ok2⟩ := (exec_top cast zero N fuel).2.1 b e1 ch c1
    rw [h2]
    exact ⟨rfl, fun hh => ok2 (hasCounters_mono l1 ch (hasCounters_push ch hh))⟩

/-- Every component of the block is a `Scope` (or has no bookkeeping at all). -/
def Comps.allScoped : Comps → Bool
  | .nil => true
  | .cons (.scope _) cs => Comps.allScoped cs
  | .cons .nop cs => Comps.allScoped cs
  | .cons _ _ => false

theorem scoped_block_frame (cast : Nat → F) (zero : F) (N : Nat) : ∀ (fuel : Nat) (cs : Comps) (ch : Chain F),
    Comps.allScoped cs = true → HasCounters ch →
    (cexecs cast zero N fuel cs ch).chain = ch ∧ (cexecs cast zero N fuel cs ch).status = .ok
  | 0, _, _, _, _ => ⟨rfl, rfl⟩
  | _ + 1, .nil, _, _, _ => ⟨rfl, rfl⟩
  | fuel + 1, .cons c cs, ch, hs, hh => by
    cases c with
    | nop =>
      have ih := scoped_block_frame cast zero N fuel cs ch (by simpa [Comps.allScoped] using hs) hh
      cases fuel with
      | zero => simp [cexecs, cexec]
      | succ fuel => simp only [cexecs, cexec]; exact ih
    | scope b =>
      have ih := scoped_block_frame cast zero N fuel cs ch (by simpa [Comps.allScoped] using hs) hh
      obtain ⟨h1, h2⟩ := scope_frame cast zero N fuel b ch
      simp only [cexecs, h2 hh, h1]
      exact ih
    | evals => simp [Comps.allScoped] at hs
    | loop c b => simp [Comps.allScoped] at hs
    | branch c b => simp [Comps.allScoped] at hs

end chain

/-! ### the PSO loop with scoped refinements is the PSO loop -/

section run
variable {F : Type} [Field F] [LinearOrder F] [IsStrictOrderedRing F]

theorem hasCounters_frameOf (lv : LoopVars F) (below : Chain F) : HasCounters (frameOf lv :: below) := by
  simp [HasCounters, getFirst, frameOf]

theorem unframe_frameOf (lv : LoopVars F) : unframe (frameOf lv) lv = lv := by
  cases lv; rfl

theorem runSlot_scoped (cast : Nat → F) (zero : F) (ifuel : Nat) (cs : Comps) (s : NestSt F)
    (h : Comps.allScoped cs = true) : runSlot cast zero ifuel cs s = (.ok, s) := by
  obtain ⟨h1, h2⟩ := scoped_block_frame cast zero s.st.sw.xs.length ifuel cs (frameOf s.st.lv :: s.below) h
    (hasCounters_frameOf _ _)
  simp only [runSlot, h1, h2, unframe_frameOf]

/-- The pass body of `Model/PsoLoop.lean` is its four phases in sequence. -/
theorem passBody_phases (P : Params F) (f : List F → F) (repair : List F → List F) (draws : List (List (F × F)))
    (st : RunSt F) :
    passBody P f repair draws st =
      andThen (andThen (andThen (phaseVel P draws st) (phaseEval f repair)) (phaseInertia P)) phaseBest := by
  simp only [passBody, phaseVel]
  rcases hv : velStep P.c1 P.c2 P.vmax draws st.sw with ⟨s, s1⟩
  cases s with
  | ok =>
    simp only [andThen, phaseEval, phaseInertia]
    by_cases hi : P.inertia = true
    · simp only [hi, if_true]
      cases hp : st.lv.progIter with
      | none => simp only [andThen]
      | some p =>
        simp only [andThen, phaseBest]
        rcases hb : pbestStep (inertiaStep P.start P.stop p
          (evaluate f { s1 with xs := s1.xs.map (fun x => ({ x with pos := repair x.pos } : Part F)) })) with ⟨sb, s4⟩
        cases sb <;> simp only [hb]
    · have hi' : P.inertia = false := by simpa using hi
      simp only [hi', Bool.false_eq_true, if_false, andThen, phaseBest]
      rcases hb : pbestStep (evaluate f { s1 with xs := s1.xs.map (fun x => ({ x with pos := repair x.pos } : Part F)) })
        with ⟨sb, s4⟩
      cases sb <;> simp only [hb]
  | err => simp only [andThen]
  | panic => simp only [andThen]

/-- All four slots hold scoped components only. -/
def Slots.allScoped (sl : Slots) : Bool :=
  Comps.allScoped sl.pre && Comps.allScoped sl.con && Comps.allScoped sl.ine && Comps.allScoped sl.upd

theorem andThen_liftN (r : Status × RunSt F) (below : Chain F) (g : RunSt F → Status × RunSt F) :
    andThen ((r.1, ({ st := r.2, below := below } : NestSt F))) (liftN g) =
      ((andThen r g).1, ({ st := (andThen r g).2, below := below } : NestSt F)) := by
  rcases r with ⟨s, st⟩
  cases s <;> simp [andThen, liftN]

theorem passBodyN_scoped (cast : Nat → F) (zero : F) (ifuel : Nat) (sl : Slots) (P : Params F) (f : List F → F)
    (repair : List F → List F) (draws : List (List (F × F))) (s : NestSt F) (h : sl.allScoped = true) :
    passBodyN cast zero ifuel sl P f repair draws s =
      ((passBody P f repair draws s.st).1, { st := (passBody P f repair draws s.st).2, below := s.below }) := by
  simp only [Slots.allScoped, Bool.and_eq_true] at h
  obtain ⟨⟨⟨hpre, hcon⟩, hine⟩, hupd⟩ := h
  have slot : ∀ (cs : Comps), Comps.allScoped cs = true → ∀ (r : Status × RunSt F),
      andThen ((r.1, ({ st := r.2, below := s.below } : NestSt F))) (runSlot cast zero ifuel cs) =
        (r.1, ({ st := r.2, below := s.below } : NestSt F)) := by
    intro cs hcs r
    rcases r with ⟨st, x⟩
    cases st <;> simp [andThen, runSlot_scoped cast zero ifuel cs _ hcs]
  rw [passBody_phases]
  simp only [passBodyN, runSlot_scoped cast zero ifuel sl.pre s hpre]
  have e0 : andThen ((Status.ok, s) : Status × NestSt F) (liftN (phaseVel P draws)) =
      ((phaseVel P draws s.st).1, ({ st := (phaseVel P draws s.st).2, below := s.below } : NestSt F)) := by
    simp [andThen, liftN]
  rw [e0, slot sl.con hcon, andThen_liftN, slot sl.ine hine, andThen_liftN, andThen_liftN, slot sl.upd hupd]

theorem loopGoN_scoped (cast : Nat → F) (zero : F) (ifuel : Nat) (sl : Slots) (P : Params F) (f : List F → F)
    (repair : List F → List F) (c : Cond) (draws : Nat → List (List (F × F))) (h : sl.allScoped = true) :
    ∀ (fuel : Nat) (s : NestSt F),
    loopGoN cast zero ifuel sl P f repair c draws fuel s =
      ((loopGo cast P f repair c draws fuel s.st).1,
       { st := (loopGo cast P f repair c draws fuel s.st).2, below := s.below }) := by
  intro fuel
  induction fuel with
  | zero => intro s; rfl
  | succ fuel ih =>
    intro s
    simp only [loopGoN, loopGo]
    by_cases hb : (evalCond cast c s.st.lv).1 = true
    · simp only [hb, if_true]
      rw [passBodyN_scoped cast zero ifuel sl P f repair _ _ h]
      simp only
      rcases hp : passBody P f repair (draws (evalCond cast c s.st.lv).2.iters)
        { s.st with lv := (evalCond cast c s.st.lv).2 } with ⟨sp, st2⟩
      cases sp with
      | ok => simp only [ih]
      | err => rfl
      | panic => rfl
    · have hb' : (evalCond cast c s.st.lv).1 = false := by simpa using hb
      simp only [hb', Bool.false_eq_true, if_false]

theorem psoRunN_scoped (cast : Nat → F) (zero : F) (ifuel : Nat) (sl : Slots) (P : Params F) (f : List F → F)
    (repair : List F → List F) (c : Cond) (witness : List (List F)) (draws : Nat → List (List (F × F)))
    (h : sl.allScoped = true) (fuel : Nat) (s : NestSt F) :
    psoRunN cast zero ifuel sl P f repair c witness draws fuel s =
      ((psoRun cast zero P f repair c witness draws fuel s.st).1,
       { st := (psoRun cast zero P f repair c witness draws fuel s.st).2, below := s.below }) := by
  simp only [psoRunN, psoRun, loopGoN_scoped cast zero ifuel sl P f repair c draws h]

end run
end MahfModel.Pso
