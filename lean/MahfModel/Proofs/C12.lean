/- Helper lemmas for C12 (replacement operators). -/
import MahfModel.Model.Replacement
import Mathlib.Order.Defs.LinearOrder
import Mathlib.Order.Basic
import Batteries.Data.List.Perm
import Mathlib.Data.Int.Order.Basic
namespace MahfModel.Replacement
set_option linter.unusedSectionVars false

theorem range_filterMap_getElem? {α : Type} (l : List α) :
    (List.range l.length).filterMap (l[·]?) = l := by
  induction l with
  | nil => simp
  | cons a l ih =>
    rw [List.length_cons, List.range_succ_eq_map]
    simp only [List.filterMap_cons, List.getElem?_cons_zero, List.filterMap_map]
    congr 1

theorem permute_perm {α : Type} (l : List α) (w : List Nat) (h : Legal w l.length) :
    (permute l w).Perm l := by
  have := List.Perm.filterMap (l[·]?) h
  rw [range_filterMap_getElem?] at this
  exact this

theorem permute_length {α : Type} (l : List α) (w : List Nat) (h : Legal w l.length) :
    (permute l w).length = l.length := (permute_perm l w h).length_eq

theorem subBag_refl {α : Type} (l : List α) : SubBag l l := ⟨[], by simp⟩

theorem subBag_take_of_perm {α : Type} {s all : List α} (h : s.Perm all) (k : Nat) :
    SubBag (s.take k) all := ⟨s.drop k, by rw [List.take_append_drop]; exact h⟩

/-- The order on objective values is total: any two values are comparable.  Together with
`Preorder` this is all the theorems need — *not* antisymmetry: `f64` without NaN is such an order in
which `0.0` and `-0.0` are different values that compare equal. -/
def TotalLE (F : Type) [LE F] : Prop := ∀ a b : F, a ≤ b ∨ b ≤ a

section order
variable {F : Type} [Preorder F] [DecidableLE F] [DecidableLT F]

theorem leO_trans (a b c : Option F) : leO a b = true → leO b c = true → leO a c = true := by
  cases a <;> cases b <;> cases c <;> simp [leO]
  exact le_trans

theorem leO_total (tot : TotalLE F) (a b : Option F) : (leO a b || leO b a) = true := by
  cases a <;> cases b <;> simp [leO]
  exact tot _ _

theorem leInd_trans (a b c : Ind F) : leInd a b = true → leInd b c = true → leInd a c = true :=
  leO_trans _ _ _

theorem leInd_total (tot : TotalLE F) (a b : Ind F) : (leInd a b || leInd b a) = true :=
  leO_total tot _ _

theorem not_lt_of_le' {a b : F} (h : a ≤ b) : ¬ b < a := not_lt_of_ge h

theorem keepBetter_length (ps os : Pop F) (r : Pop F) (hl : ps.length = os.length)
    (h : keepBetter ps os = .ok r) : r.length = ps.length := by
  induction ps generalizing os r with
  | nil => cases os <;> simp_all [keepBetter]
  | cons p ps ih =>
    cases os with
    | nil => simp at hl
    | cons o os =>
      simp only [keepBetter] at h
      split at h
      · split at h
        · next r' hr =>
          injection h with h; subst h
          simp [ih os r' (by simpa using hl) hr]
        · cases h
      · cases h

theorem keepBetter_ok (ps os : Pop F) (hl : ps.length = os.length)
    (hp : ∀ x ∈ ps, x.obj.isSome) (ho : ∀ x ∈ os, x.obj.isSome) :
    ∃ r, keepBetter ps os = .ok r := by
  induction ps generalizing os with
  | nil => cases os <;> simp_all [keepBetter]
  | cons p ps ih =>
    cases os with
    | nil => simp at hl
    | cons o os =>
      obtain ⟨r, hr⟩ := ih os (by simpa using hl) (fun x hx => hp x (by simp [hx])) (fun x hx => ho x (by simp [hx]))
      have h1 := hp p (by simp)
      have h2 := ho o (by simp)
      obtain ⟨a, ha⟩ := Option.isSome_iff_exists.mp h1
      obtain ⟨b, hb⟩ := Option.isSome_iff_exists.mp h2
      simp [keepBetter, ha, hb, hr]

theorem keepBetter_subBag (ps os r : Pop F) (h : keepBetter ps os = .ok r) :
    SubBag r (ps ++ os) := by
  induction ps generalizing os r with
  | nil =>
    simp only [keepBetter] at h
    injection h with h; subst h
    exact ⟨os, by simp⟩
  | cons p ps ih =>
    cases os with
    | nil =>
      simp only [keepBetter] at h
      injection h with h; subst h
      exact ⟨p :: ps, by simp⟩
    | cons o os =>
      simp only [keepBetter] at h
      split at h
      · next a b _ _ =>
        split at h
        · next r' hr =>
          injection h with h; subst h
          obtain ⟨rest, hrest⟩ := ih os r' hr
          have hmid : (ps ++ o :: os).Perm (o :: (ps ++ os)) := List.perm_middle
          by_cases hlt : b < a
          · refine ⟨p :: rest, ?_⟩
            simp only [hlt, if_true, List.cons_append]
            have h1 : (r' ++ p :: rest).Perm (p :: (r' ++ rest)) := List.perm_middle
            have h2 : (o :: (r' ++ p :: rest)).Perm (o :: p :: (ps ++ os)) :=
              (h1.trans (hrest.cons p)).cons o
            exact h2.trans ((List.Perm.swap p o _).trans (hmid.symm.cons p))
          · refine ⟨o :: rest, ?_⟩
            simp only [hlt, if_false, List.cons_append]
            have h1 : (r' ++ o :: rest).Perm (o :: (r' ++ rest)) := List.perm_middle
            exact ((h1.trans (hrest.cons o)).trans hmid.symm).cons p
        · cases h
      · cases h

theorem keepBetter_spec (ps os r : Pop F) (h : keepBetter ps os = .ok r) (hl : ps.length = os.length) :
    ∀ i (hp : i < ps.length) (ho : i < os.length) (hr : i < r.length) (a b : F),
      ps[i].obj = some a → os[i].obj = some b → r[i] = if b < a then os[i] else ps[i] := by
  induction ps generalizing os r with
  | nil => intro i hp; simp at hp
  | cons p ps ih =>
    cases os with
    | nil => simp at hl
    | cons o os =>
      simp only [keepBetter] at h
      split at h
      · next a0 b0 ha0 hb0 =>
        split at h
        · next r' hr' =>
          injection h with h; subst h
          intro i hp ho hr a b ha hb
          cases i with
          | zero =>
            simp only [List.getElem_cons_zero] at ha hb ⊢
            rw [ha0] at ha; rw [hb0] at hb
            injection ha with ha; injection hb with hb
            subst ha; subst hb; rfl
          | succ i =>
            simp only [List.getElem_cons_succ] at ha hb ⊢
            exact ih os r' hr' (by simpa using hl) i (by simpa using hp) (by simpa using ho) (by simpa using hr) a b ha hb
        · cases h
      · cases h

theorem keepBetterSpecB_of_keepBetter [DecidableEq F] (ps os r : Pop F) (hl : ps.length = os.length)
    (hk : keepBetter ps os = .ok r) : keepBetterSpecB ps os r = true := by
  induction ps generalizing os r with
  | nil =>
    cases os with
    | nil => simp [keepBetter] at hk; subst hk; simp [keepBetterSpecB]
    | cons _ _ => simp at hl
  | cons p ps ih =>
    cases os with
    | nil => simp at hl
    | cons o os =>
      simp only [keepBetter] at hk
      split at hk
      · next a b ha hb =>
        split at hk
        · next r' hr' =>
          injection hk with hk; subst hk
          simp [keepBetterSpecB, ha, hb, ih os r' (by simpa using hl) hr']
        · cases hk
      · cases hk

end order

/-! Executable multiset inclusion / difference against their proof-friendly forms. -/

theorem subBagB_of_subBag {α : Type} [DecidableEq α] {r all : List α} (h : SubBag r all) :
    subBagB r all = true := by
  obtain ⟨rest, hp⟩ := h
  simp only [subBagB, List.all_eq_true, decide_eq_true_eq]
  intro x _
  rw [← hp.count_eq x, List.count_append]
  omega

theorem bagDiff_perm {α : Type} [DecidableEq α] (r rest all : List α) (h : (r ++ rest).Perm all) :
    (bagDiff all r).Perm rest := by
  induction r generalizing all with
  | nil => simpa [bagDiff] using h.symm
  | cons x r ih =>
    have h1 : (all.erase x).Perm (r ++ rest) := by
      have := h.symm.erase x
      simpa using this
    simp only [bagDiff, List.foldl_cons]
    exact ih (all.erase x) h1.symm

theorem permB_iff {α : Type} [DecidableEq α] {r r' : List α} : permB r r' = true ↔ r.Perm r' := by
  constructor
  · intro h
    simp only [permB, Bool.and_eq_true, beq_iff_eq, List.all_eq_true] at h
    obtain ⟨hl, hc⟩ := h
    -- r ≤ r' as multisets and equal length
    have hsub : List.Subperm r r' := by
      rw [List.subperm_ext_iff]
      intro x hx
      exact Nat.le_of_eq (hc x hx)
    exact hsub.perm_of_length_le (Nat.le_of_eq hl.symm)
  · intro h
    simp only [permB, Bool.and_eq_true, beq_iff_eq, List.all_eq_true]
    exact ⟨h.length_eq, fun x _ => h.count_eq x⟩

theorem subBagB_perm {α : Type} [DecidableEq α] {r r' : List α} (all : List α) (h : r.Perm r') :
    subBagB r all = subBagB r' all := by
  simp only [subBagB]
  rw [Bool.eq_iff_iff]
  simp only [List.all_eq_true, decide_eq_true_eq]
  constructor
  · intro H x hx; rw [← h.count_eq x]; exact H x (h.mem_iff.2 hx)
  · intro H x hx; rw [h.count_eq x]; exact H x (h.mem_iff.1 hx)

theorem bagDiff_perm_right {α : Type} [DecidableEq α] {r r' : List α} (all : List α) (h : r.Perm r') :
    bagDiff all r = bagDiff all r' := by
  unfold bagDiff
  induction h generalizing all with
  | nil => rfl
  | cons x _ ih => simp only [List.foldl_cons]; exact ih _
  | swap x y l => simp only [List.foldl_cons]; rw [List.erase_comm]
  | trans _ _ ih1 ih2 => exact (ih1 all).trans (ih2 all)

theorem noBetterDiscardedB_perm {F : Type} [LT F] [DecidableLT F] {k k' d d' : Pop F}
    (hk : k.Perm k') (hd : d.Perm d') : noBetterDiscardedB k d = noBetterDiscardedB k' d' := by
  simp only [noBetterDiscardedB]
  rw [Bool.eq_iff_iff]
  simp only [List.all_eq_true]
  constructor
  · intro H x hx y hy; exact H x (hk.mem_iff.2 hx) y (hd.mem_iff.2 hy)
  · intro H x hx y hy; exact H x (hk.mem_iff.1 hx) y (hd.mem_iff.1 hy)

/-- A carrier that is *not* a linear order: a value with a sign flag the order ignores (as `0.0` and
`-0.0`): two different values tie, `TotalLE` holds, and the theorems apply. -/
structure SZ where
  v : Int
  neg : Bool
  deriving DecidableEq
instance : Preorder SZ := Preorder.lift SZ.v
instance : DecidableLE SZ := fun a b => inferInstanceAs (Decidable (a.v ≤ b.v))
instance : DecidableLT SZ := fun a b => inferInstanceAs (Decidable (a.v < b.v))

end MahfModel.Replacement
