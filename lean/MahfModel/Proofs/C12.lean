/- Helper lemmas for C12 (replacement operators). -/
import MahfModel.Model.Replacement
import Mathlib.Order.Defs.LinearOrder
import Mathlib.Order.Basic
namespace MahfModel.Replacement

theorem range_filterMap_getElem? {α : Type} (l : List α) :
    (List.range l.length).filterMap (l[·]?) = l := by
  induction l with
  | nil => simp
  | cons a l ih =>
    rw [List.length_cons, List.range_succ_eq_map]
    simp only [List.filterMap_cons, List.getElem?_cons_zero, List.filterMap_map]
    congr 1

theorem permute_perm {α : Type} (l : List α) (w : List Nat) (h : Legal w l.length) :
    (permute l w).Perm l := by
  have := List.Perm.filterMap (l[·]?) h
  rw [range_filterMap_getElem?] at this
  exact this

theorem permute_length {α : Type} (l : List α) (w : List Nat) (h : Legal w l.length) :
    (permute l w).length = l.length := (permute_perm l w h).length_eq

theorem subBag_refl {α : Type} (l : List α) : SubBag l l := ⟨[], by simp⟩

theorem subBag_take_of_perm {α : Type} {s all : List α} (h : s.Perm all) (k : Nat) :
    SubBag (s.take k) all := ⟨s.drop k, by rw [List.take_append_drop]; exact h⟩

section order
variable {F : Type} [LinearOrder F]

theorem leO_trans (a b c : Option F) : leO a b = true → leO b c = true → leO a c = true := by
  cases a <;> cases b <;> cases c <;> simp [leO]
  exact le_trans

theorem leO_total (a b : Option F) : (leO a b || leO b a) = true := by
  cases a <;> cases b <;> simp [leO]
  exact le_total _ _

theorem leInd_trans (a b c : Ind F) : leInd a b = true → leInd b c = true → leInd a c = true :=
  leO_trans _ _ _

theorem leInd_total (a b : Ind F) : (leInd a b || leInd b a) = true := leO_total _ _

theorem keepBetter_length (ps os : Pop F) (r : Pop F) (hl : ps.length = os.length)
    (h : keepBetter ps os = .ok r) : r.length = ps.length := by
  induction ps generalizing os r with
  | nil => cases os <;> simp_all [keepBetter]
  | cons p ps ih =>
    cases os with
    | nil => simp at hl
    | cons o os =>
      simp only [keepBetter] at h
      split at h
      · split at h
        · next r' hr =>
          injection h with h; subst h
          simp [ih os r' (by simpa using hl) hr]
        · cases h
      · cases h

theorem keepBetter_ok (ps os : Pop F) (hl : ps.length = os.length)
    (hp : ∀ x ∈ ps, x.obj.isSome) (ho : ∀ x ∈ os, x.obj.isSome) :
    ∃ r, keepBetter ps os = .ok r := by
  induction ps generalizing os with
  | nil => cases os <;> simp_all [keepBetter]
  | cons p ps ih =>
    cases os with
    | nil => simp at hl
    | cons o os =>
      obtain ⟨r, hr⟩ := ih os (by simpa using hl) (fun x hx => hp x (by simp [hx])) (fun x hx => ho x (by simp [hx]))
      have h1 := hp p (by simp)
      have h2 := ho o (by simp)
      obtain ⟨a, ha⟩ := Option.isSome_iff_exists.mp h1
      obtain ⟨b, hb⟩ := Option.isSome_iff_exists.mp h2
      simp [keepBetter, ha, hb, hr]

theorem keepBetter_subBag (ps os r : Pop F) (h : keepBetter ps os = .ok r) :
    SubBag r (ps ++ os) := by
  induction ps generalizing os r with
  | nil =>
    simp only [keepBetter] at h
    injection h with h; subst h
    exact ⟨os, by simp⟩
  | cons p ps ih =>
    cases os with
    | nil =>
      simp only [keepBetter] at h
      injection h with h; subst h
      exact ⟨p :: ps, by simp⟩
    | cons o os =>
      simp only [keepBetter] at h
      split at h
      · next a b _ _ =>
        split at h
        · next r' hr =>
          injection h with h; subst h
          obtain ⟨rest, hrest⟩ := ih os r' hr
          have hmid : (ps ++ o :: os).Perm (o :: (ps ++ os)) := List.perm_middle
          by_cases hlt : b < a
          · refine ⟨p :: rest, ?_⟩
            simp only [hlt, if_true, List.cons_append]
            have h1 : (r' ++ p :: rest).Perm (p :: (r' ++ rest)) := List.perm_middle
            have h2 : (o :: (r' ++ p :: rest)).Perm (o :: p :: (ps ++ os)) :=
              (h1.trans (hrest.cons p)).cons o
            exact h2.trans ((List.Perm.swap p o _).trans (hmid.symm.cons p))
          · refine ⟨o :: rest, ?_⟩
            simp only [hlt, if_false, List.cons_append]
            have h1 : (r' ++ o :: rest).Perm (o :: (r' ++ rest)) := List.perm_middle
            exact ((h1.trans (hrest.cons o)).trans hmid.symm).cons p
        · cases h
      · cases h

theorem keepBetter_spec (ps os r : Pop F) (h : keepBetter ps os = .ok r) (hl : ps.length = os.length) :
    ∀ i (hp : i < ps.length) (ho : i < os.length) (hr : i < r.length) (a b : F),
      ps[i].obj = some a → os[i].obj = some b → r[i] = if b < a then os[i] else ps[i] := by
  induction ps generalizing os r with
  | nil => intro i hp; simp at hp
  | cons p ps ih =>
    cases os with
    | nil => simp at hl
    | cons o os =>
      simp only [keepBetter] at h
      split at h
      · next a0 b0 ha0 hb0 =>
        split at h
        · next r' hr' =>
          injection h with h; subst h
          intro i hp ho hr a b ha hb
          cases i with
          | zero =>
            simp only [List.getElem_cons_zero] at ha hb ⊢
            rw [ha0] at ha; rw [hb0] at hb
            injection ha with ha; injection hb with hb
            subst ha; subst hb; rfl
          | succ i =>
            simp only [List.getElem_cons_succ] at ha hb ⊢
            exact ih os r' hr' (by simpa using hl) i (by simpa using hp) (by simpa using ho) (by simpa using hr) a b ha hb
        · cases h
      · cases h

theorem keepBetterSpecB_of_keepBetter [DecidableEq F] (ps os r : Pop F) (hl : ps.length = os.length)
    (hk : keepBetter ps os = .ok r) : keepBetterSpecB ps os r = true := by
  induction ps generalizing os r with
  | nil =>
    cases os with
    | nil => simp [keepBetter] at hk; subst hk; simp [keepBetterSpecB]
    | cons _ _ => simp at hl
  | cons p ps ih =>
    cases os with
    | nil => simp at hl
    | cons o os =>
      simp only [keepBetter] at hk
      split at hk
      · next a b ha hb =>
        split at hk
        · next r' hr' =>
          injection hk with hk; subst hk
          simp [keepBetterSpecB, ha, hb, ih os r' (by simpa using hl) hr']
        · cases hk
      · cases hk

end order

/-! Executable multiset inclusion / difference against their proof-friendly forms. -/

theorem subBagB_of_subBag {α : Type} [DecidableEq α] {r all : List α} (h : SubBag r all) :
    subBagB r all = true := by
  obtain ⟨rest, hp⟩ := h
  simp only [subBagB, List.all_eq_true, decide_eq_true_eq]
  intro x _
  rw [← hp.count_eq x, List.count_append]
  omega

theorem bagDiff_perm {α : Type} [DecidableEq α] (r rest all : List α) (h : (r ++ rest).Perm all) :
    (bagDiff all r).Perm rest := by
  induction r generalizing all with
  | nil => simpa [bagDiff] using h.symm
  | cons x r ih =>
    have h1 : (all.erase x).Perm (r ++ rest) := by
      have := h.symm.erase x
      simpa using this
    simp only [bagDiff, List.foldl_cons]
    exact ih (all.erase x) h1.symm

end MahfModel.Replacement
