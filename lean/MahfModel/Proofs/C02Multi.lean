/- C02, helper lemmas for `Model/BorrowMulti.lean`: every public entry point of the multi-borrow. Core only. -/
import MahfModel.Model.BorrowMulti
import MahfModel.Proofs.C02
namespace MahfModel.BorrowMulti
open MahfModel.Registry MahfModel.Borrow

/-- The registry front-end of the base model is the trait method (`T::try_get_mut(self)`). -/
theorem tuple_eq_base (r : Reg) (ks : List Key) : tupleTryGetMut r ks = tryGetMultipleMut r ks := rfl

theorem askVia_cases (via : Via) (r : Reg) (ks : List Key) :
    (∀ cs, tryGetMultipleMut r ks = .ok cs → askVia via r ks = .refs cs) ∧
    (∀ e, tryGetMultipleMut r ks = .error e → askVia via r ks = (if via = .regP then .panic else .err e)) := by
  cases via <;>
    simp only [askVia, regGetMultipleMut, regTryGetMultipleMut, tuple_eq_base] <;>
    cases tryGetMultipleMut r ks <;> simp [Answer.ofRes]

theorem askVia_refs_iff (via : Via) (r : Reg) (ks : List Key) (cs : List (Nat × Key)) :
    askVia via r ks = .refs cs ↔ tryGetMultipleMut r ks = .ok cs := by
  obtain ⟨h1, h2⟩ := askVia_cases via r ks
  cases h : tryGetMultipleMut r ks with
  | ok cs' =>
    rw [h1 cs' h]
    constructor
    · intro hx; cases hx; rfl
    · intro hx; cases hx; rfl
  | error e =>
    rw [h2 e h]
    constructor
    · intro hx; split at hx <;> cases hx
    · intro hx; cases hx

theorem nodup_false_distinct (ks : List Key) (h : ¬ ks.Nodup) : distinct ks = false := by
  cases hx : distinct ks with
  | false => rfl
  | true => exact absurd ((distinct_iff ks).mp hx) h

/-! ### `stepVia` is the base step under `parent_mut()^dist` -/

/-- The registry operation of the base model an entry point corresponds to. -/
def Via.rop (via : Via) (ks : List Key) (d : Nat) : ROp :=
  match via with
  | .regP => .multiP ks d
  | _ => .multi ks d

theorem stepVia_under (r : Reg) (q : Req) (hd : q.dist < r.length) :
    stepVia r q = under r q.dist (fun p => step p (q.via.rop q.ks q.d)) := by
  obtain ⟨via, dist, ks, d⟩ := q
  simp only at hd
  have htd : r.take dist ++ r.drop dist = r := List.take_append_drop dist r
  obtain ⟨h1, h2⟩ := askVia_cases via (r.drop dist) ks
  simp only [stepVia, parentN, hd, if_true, under]
  cases h : tryGetMultipleMut (r.drop dist) ks with
  | ok cs =>
    rw [h1 cs h]
    cases via <;> simp [Via.rop, step, h]
  | error e =>
    rw [h2 e h]
    cases via <;> simp [Via.rop, step, h, htd]

theorem stepVia_noParent (r : Reg) (q : Req) (hd : ¬ q.dist < r.length) : stepVia r q = (r, .noParent) := by
  simp [stepVia, parentN, hd]

theorem specVia_under (sp : Spec) (q : Req) (hd : q.dist < sp.length) :
    specVia sp q =
      ((sp.take q.dist ++ (specStep (sp.drop q.dist) (q.via.rop q.ks q.d)).1),
        (specStep (sp.drop q.dist) (q.via.rop q.ks q.d)).2) := by
  obtain ⟨via, dist, ks, d⟩ := q
  simp only at hd
  have htd : sp.take dist ++ sp.drop dist = sp := List.take_append_drop dist sp
  simp only [specVia, hd, if_true]
  by_cases hn : ks.Nodup
  · by_cases ha : ks.all (fun k => (Spec.lookup (sp.drop dist) k).isSome) = true
    · cases via <;> simp [Via.rop, specStep, hn, ha]
    · cases via <;> simp [Via.rop, specStep, hn, ha, refusal, htd]
  · cases via <;> simp [Via.rop, specStep, hn, refusal, htd]

theorem refines_rop (r : Reg) (via : Via) (ks : List Key) (d : Nat) (h : Inv r) : Refines r (via.rop ks d) := by
  cases via
  · exact step_multi r ks d h
  · exact step_multi r ks d h
  · exact step_multiP r ks d h

theorem stepVia_refines (r : Reg) (q : Req) (h : Inv r) :
    Inv (stepVia r q).1 ∧ (stepVia r q).2 = (specVia (abs r) q).2 ∧ abs (stepVia r q).1 = (specVia (abs r) q).1 := by
  have ⟨hne, hq⟩ := h
  by_cases hd : q.dist < r.length
  · have hqd := quiet_drop r q.dist hq
    have hned : r.drop q.dist ≠ [] := by
      intro h'; have := congrArg List.length h'; simp at this; omega
    obtain ⟨⟨_, hi1⟩, hi2, hi3⟩ := refines_rop (r.drop q.dist) q.via q.ks q.d ⟨hned, hqd⟩
    rw [stepVia_under r q hd, specVia_under (abs r) q (by simpa using hd)]
    rw [abs_drop] at hi2 hi3
    simp only [under, abs_append, abs_take]
    refine ⟨⟨by simp; intro h1; omega, ?_⟩, hi2, by rw [hi3]⟩
    rw [quiet_append, quiet_take r q.dist hq, hi1]; rfl
  · rw [stepVia_noParent r q hd]
    simp [specVia, hd, h]

theorem stepVia_nodupKeys (r : Reg) (q : Req) (h : Inv r) (hn : nodupKeys r) : nodupKeys (stepVia r q).1 := by
  have ⟨hne, hq⟩ := h
  by_cases hd : q.dist < r.length
  · have hqd := quiet_drop r q.dist hq
    have hned : r.drop q.dist ≠ [] := by
      intro h'; have := congrArg List.length h'; simp at this; omega
    have := (execStmt_inv (.op (q.via.rop q.ks q.d)) (r.drop q.dist) ⟨hned, hqd⟩ (nodupKeys_drop r q.dist hn)).2
    rw [stepVia_under r q hd]
    simp only [under]
    simp only [execStmt] at this
    exact nodupKeys_append _ _ (nodupKeys_take r q.dist hn) this
  · rw [stepVia_noParent r q hd]; exact hn

theorem xmstep_inv (m : M) (op : XOp) (h : FlagInv m) : FlagInv (xmstep m op).1 := by
  cases op with
  | base o => exact mstep_inv m o h
  | multiVia q =>
    simp only [xmstep]
    split
    · rename_i hg
      have hg' : m.guards = [] := by simpa using hg
      have hI := h.inv_of_no_guards m hg'
      have h1 := (stepVia_refines m.reg q hI).1
      have h2 := stepVia_nodupKeys m.reg q hI h.nk
      have := flagInv_of_inv _ m.next h1 h2
      simp only [hg']; exact this
    · exact h

theorem xmrun_inv (m : M) (ops : List XOp) (h : FlagInv m) : FlagInv (xmrun m ops).1 := by
  induction ops generalizing m with
  | nil => exact h
  | cons op ops ih => simp only [xmrun]; exact ih _ (xmstep_inv m op h)

/-- A history without the new requests is a history of the base machine. -/
theorem xmrun_base (m : M) (ops : List MOp) : xmrun m (ops.map .base) = mrun m ops := by
  induction ops generalizing m with
  | nil => rfl
  | cons op ops ih => simp only [List.map_cons, xmrun, xmstep, mrun, ih]

theorem xsrun_base (m : SM) (ops : List MOp) : xsrun m (ops.map .base) = srun m ops := by
  induction ops generalizing m with
  | nil => rfl
  | cons op ops ih => simp only [List.map_cons, xsrun, xsstep, srun, ih]

end MahfModel.BorrowMulti
