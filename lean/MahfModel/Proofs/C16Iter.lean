/- Soundness of the loop-counter check `itersExact` for every execution of `lexec`. -/
import MahfModel.Model.TemplatesLoops
namespace MahfModel.Tpl

/-- What is known about the passes made so far by a running loop whose counter started at 0. -/
def LCond.inv : LCond → Nat → Prop
  | .iterLt n, p => p ≤ n
  | .both n, p => p ≤ n
  | .either _, _ => True
  | .other, _ => True

theorem LCond.inv_zero (c : LCond) : c.inv 0 := by
  cases c <;> simp [LCond.inv]

theorem LCond.inv_step (c : LCond) (p : Nat) (b : Bool) (hi : c.inv p) (he : c.eval p b = true) :
    c.inv (p + 1) := by
  cases c <;> simp_all [LCond.inv, LCond.eval] <;> omega

theorem LCond.ok_exit (c : LCond) (p : Nat) (b : Bool) (hi : c.inv p) (he : c.eval p b = false) :
    c.okCount p = true := by
  cases c <;> simp_all [LCond.inv, LCond.eval, LCond.okCount] <;> omega

mutual
  /-- A component without a loop of this level leaves all counters alone. -/
  theorem noLoop_sound (o : LOracle) : ∀ (fuel d : Nat) (c : LComp) (s s' : LSt),
      directLoops c = 0 → scopesOk c = true → lexec o fuel d c s = some s' →
      s'.ctrs = s.ctrs ∧ (s.exact = true → s'.exact = true)
    | 0, _, _, _, _, _, _, h => by simp [lexec] at h
    | fuel + 1, d, .leaf rp, s, s', _, _, h => by
      simp only [lexec] at h
      split at h
      · cases h
      · injection h with h; subst h; simp
    | fuel + 1, d, .seq cs, s, s', hd, hs, h => by
      simp only [directLoops] at hd
      simp only [scopesOk] at hs
      simp only [lexec] at h
      exact noLoops_sound o fuel d cs s s' hd hs h
    | fuel + 1, d, .loop c b, s, s', hd, _, _ => by
      simp only [directLoops] at hd
      omega
    | fuel + 1, d, .branch t e, s, s', hd, hs, h => by
      simp only [directLoops] at hd
      simp only [scopesOk, Bool.and_eq_true] at hs
      simp only [lexec] at h
      split at h
      · have := noLoop_sound o fuel d t _ s' (by omega) hs.1 h
        simpa using this
      · have := noLoop_sound o fuel d e _ s' (by omega) hs.2 h
        simpa using this
    | fuel + 1, d, .scope b, s, s', _, hs, h => by
      simp only [scopesOk, Bool.and_eq_true, decide_eq_true_eq] at hs
      simp only [lexec] at h
      cases h1 : lexec o fuel d b { s with ctrs := 0 :: s.ctrs, prog := s.prog || levelProg b } with
      | none => simp [h1] at h
      | some s1 =>
        simp only [h1] at h
        injection h with h; subst h
        have g := oneLoop_sound o fuel d b _ s1 s.ctrs hs.1 hs.2 rfl h1
        obtain ⟨⟨x, hx⟩, he⟩ := g
        exact ⟨by simp [hx], fun hp => by simpa using he hp⟩
  theorem noLoops_sound (o : LOracle) : ∀ (fuel d : Nat) (cs : LComps) (s s' : LSt),
      directLoopsL cs = 0 → scopesOkL cs = true → lexecs o fuel d cs s = some s' →
      s'.ctrs = s.ctrs ∧ (s.exact = true → s'.exact = true)
    | 0, _, _, _, _, _, _, h => by simp [lexecs] at h
    | fuel + 1, d, .nil, s, s', _, _, h => by
      simp only [lexecs] at h
      injection h with h; subst h; simp
    | fuel + 1, d, .cons c rest, s, s', hd, hs, h => by
      simp only [directLoopsL] at hd
      simp only [scopesOkL, Bool.and_eq_true] at hs
      simp only [lexecs] at h
      cases h1 : lexec o fuel d c s with
      | none => simp [h1] at h
      | some s1 =>
        simp only [h1] at h
        have g1 := noLoop_sound o fuel d c s s1 (by omega) hs.1 h1
        have g2 := noLoops_sound o fuel d rest s1 s' (by omega) hs.2 h
        exact ⟨g2.1.trans g1.1, fun hp => g2.2 (g1.2 hp)⟩
  /-- A level with at most one loop, entered with a fresh counter: the counters of the enclosing levels are
  untouched and no loop execution is flagged. -/
  theorem oneLoop_sound (o : LOracle) : ∀ (fuel d : Nat) (c : LComp) (s s' : LSt) (r : List Nat),
      directLoops c ≤ 1 → scopesOk c = true → s.ctrs = 0 :: r → lexec o fuel d c s = some s' →
      (∃ x, s'.ctrs = x :: r) ∧ (s.exact = true → s'.exact = true)
    | 0, _, _, _, _, _, _, _, _, h => by simp [lexec] at h
    | fuel + 1, d, .leaf rp, s, s', r, _, _, hc, h => by
      simp only [lexec] at h
      split at h
      · cases h
      · injection h with h; subst h; exact ⟨⟨0, by simpa using hc⟩, by simp⟩
    | fuel + 1, d, .seq cs, s, s', r, hd, hs, hc, h => by
      simp only [directLoops] at hd
      simp only [scopesOk] at hs
      simp only [lexec] at h
      exact oneLoops_sound o fuel d cs s s' r hd hs hc h
    | fuel + 1, d, .loop c b, s, s', r, hd, hs, hc, h => by
      simp only [directLoops] at hd
      simp only [scopesOk] at hs
      simp only [lexec] at h
      exact lloop_sound o fuel d c b 0 s s' r (by omega) hs hc c.inv_zero h
    | fuel + 1, d, .branch t e, s, s', r, hd, hs, hc, h => by
      simp only [directLoops] at hd
      simp only [scopesOk, Bool.and_eq_true] at hs
      simp only [lexec] at h
      split at h
      · have := oneLoop_sound o fuel d t _ s' r (by omega) hs.1 (by simpa using hc) h
        simpa using this
      · have := oneLoop_sound o fuel d e _ s' r (by omega) hs.2 (by simpa using hc) h
        simpa using this
    | fuel + 1, d, .scope b, s, s', r, _, hs, hc, h => by
      have g := noLoop_sound o (fuel + 1) d (.scope b) s s' (by simp [directLoops]) hs h
      exact ⟨⟨0, by rw [g.1, hc]⟩, g.2⟩
  theorem oneLoops_sound (o : LOracle) : ∀ (fuel d : Nat) (cs : LComps) (s s' : LSt) (r : List Nat),
      directLoopsL cs ≤ 1 → scopesOkL cs = true → s.ctrs = 0 :: r → lexecs o fuel d cs s = some s' →
      (∃ x, s'.ctrs = x :: r) ∧ (s.exact = true → s'.exact = true)
    | 0, _, _, _, _, _, _, _, _, h => by simp [lexecs] at h
    | fuel + 1, d, .nil, s, s', r, _, _, hc, h => by
      simp only [lexecs] at h
      injection h with h; subst h; exact ⟨⟨0, hc⟩, id⟩
    | fuel + 1, d, .cons c rest, s, s', r, hd, hs, hc, h => by
      simp only [directLoopsL] at hd
      simp only [scopesOkL, Bool.and_eq_true] at hs
      simp only [lexecs] at h
      cases h1 : lexec o fuel d c s with
      | none => simp [h1] at h
      | some s1 =>
        simp only [h1] at h
        by_cases hz : directLoops c = 0
        · -- the loop of this level, if any, comes later: the counter is still fresh
          have g1 := noLoop_sound o fuel d c s s1 hz hs.1 h1
          have g2 := oneLoops_sound o fuel d rest s1 s' r (by omega) hs.2 (by rw [g1.1, hc]) h
          exact ⟨g2.1, fun hp => g2.2 (g1.2 hp)⟩
        · -- this is the loop of the level: nothing after it touches the counter
          have g1 := oneLoop_sound o fuel d c s s1 r (by omega) hs.1 hc h1
          have g2 := noLoops_sound o fuel d rest s1 s' (by omega) hs.2 h
          obtain ⟨⟨x, hx⟩, he⟩ := g1
          exact ⟨⟨x, by rw [g2.1, hx]⟩, fun hp => g2.2 (he hp)⟩
  /-- A running loop whose body has no loop of this level: the counter equals the passes made, and when the
  loop ends the number of passes is one its condition allows. -/
  theorem lloop_sound (o : LOracle) : ∀ (fuel d : Nat) (c : LCond) (b : LComp) (p : Nat) (s s' : LSt) (r : List Nat),
      directLoops b = 0 → scopesOk b = true → s.ctrs = p :: r → c.inv p →
      lloop o fuel d c b p s = some s' →
      (∃ x, s'.ctrs = x :: r) ∧ (s.exact = true → s'.exact = true)
    | 0, _, _, _, _, _, _, _, _, _, _, _, h => by simp [lloop] at h
    | fuel + 1, d, c, b, p, s, s', r, hd, hs, hc, hi, h => by
      simp only [lloop] at h
      split at h
      · cases h
      · rename_i ctr rest hcs
        have hctr : ctr = p := by
          rw [hc] at hcs
          injection hcs with h1 _
          exact h1.symm
        subst hctr
        split at h
        · rename_i hev
          cases h1 : lexec o fuel (d + 1) b { s with tick := s.tick + 1 } with
          | none => simp [h1] at h
          | some s1 =>
            simp only [h1] at h
            have g1 := noLoop_sound o fuel (d + 1) b _ s1 hd hs h1
            have hc1 : s1.ctrs = ctr :: r := by rw [g1.1]; simpa using hc
            have g2 := lloop_sound o fuel d c b (ctr + 1) _ s' r hd hs (by simp [hc1, bump])
              (c.inv_step ctr _ hi hev) h
            exact ⟨g2.1, fun hp => g2.2 (by simpa using g1.2 (by simpa using hp))⟩
        · rename_i hev
          injection h with h; subst h
          have hok := c.ok_exit ctr _ hi (by simpa using hev)
          exact ⟨⟨ctr, by simpa using hc⟩, fun hp => by simp [hp, hok]⟩
end

/-- The flag is never set again once cleared. -/
theorem and_true_left {a b : Bool} (h : (a && b) = true) : a = true := by
  cases a <;> simp_all

mutual
  theorem lexec_exact_mono (o : LOracle) : ∀ (fuel d : Nat) (c : LComp) (s s' : LSt),
      lexec o fuel d c s = some s' → s'.exact = true → s.exact = true
    | 0, _, _, _, _, h, _ => by simp [lexec] at h
    | fuel + 1, d, .leaf rp, s, s', h, hk => by
      simp only [lexec] at h
      split at h
      · cases h
      · injection h with h; subst h; simpa using hk
    | fuel + 1, d, .seq cs, s, s', h, hk => by
      simp only [lexec] at h
      exact lexecs_exact_mono o fuel d cs s s' h hk
    | fuel + 1, d, .loop c b, s, s', h, hk => by
      simp only [lexec] at h
      exact lloop_exact_mono o fuel d c b 0 s s' h hk
    | fuel + 1, d, .branch t e, s, s', h, hk => by
      simp only [lexec] at h
      split at h
      · simpa using lexec_exact_mono o fuel d t _ s' h hk
      · simpa using lexec_exact_mono o fuel d e _ s' h hk
    | fuel + 1, d, .scope b, s, s', h, hk => by
      simp only [lexec] at h
      cases h1 : lexec o fuel d b { s with ctrs := 0 :: s.ctrs, prog := s.prog || levelProg b } with
      | none => simp [h1] at h
      | some s1 =>
        simp only [h1] at h
        injection h with h; subst h
        simpa using lexec_exact_mono o fuel d b _ s1 h1 (by simpa using hk)
  theorem lexecs_exact_mono (o : LOracle) : ∀ (fuel d : Nat) (cs : LComps) (s s' : LSt),
      lexecs o fuel d cs s = some s' → s'.exact = true → s.exact = true
    | 0, _, _, _, _, h, _ => by simp [lexecs] at h
    | fuel + 1, d, .nil, s, s', h, hk => by
      simp only [lexecs] at h
      injection h with h; subst h; exact hk
    | fuel + 1, d, .cons c rest, s, s', h, hk => by
      simp only [lexecs] at h
      cases h1 : lexec o fuel d c s with
      | none => simp [h1] at h
      | some s1 =>
        simp only [h1] at h
        exact lexec_exact_mono o fuel d c s s1 h1 (lexecs_exact_mono o fuel d rest s1 s' h hk)
  theorem lloop_exact_mono (o : LOracle) : ∀ (fuel d : Nat) (c : LCond) (b : LComp) (p : Nat) (s s' : LSt),
      lloop o fuel d c b p s = some s' → s'.exact = true → s.exact = true
    | 0, _, _, _, _, _, _, h, _ => by simp [lloop] at h
    | fuel + 1, d, c, b, p, s, s', h, hk => by
      simp only [lloop] at h
      split at h
      · cases h
      · split at h
        · cases h1 : lexec o fuel (d + 1) b { s with tick := s.tick + 1 } with
          | none => simp [h1] at h
          | some s1 =>
            simp only [h1] at h
            have := lloop_exact_mono o fuel d c b (p + 1) _ s' h hk
            simpa using lexec_exact_mono o fuel (d + 1) b _ s1 h1 (by simpa using this)
        · injection h with h; subst h
          exact and_true_left (by simpa using hk)
end

/-! ### The pass log: a component at nesting depth `d` only logs passes of depth `≥ d`. -/

mutual
  theorem lexec_passes (o : LOracle) : ∀ (fuel d : Nat) (c : LComp) (s s' : LSt),
      lexec o fuel d c s = some s' → ∃ l, s'.passes = l ++ s.passes ∧ ∀ x ∈ l, d ≤ x
    | 0, _, _, _, _, h => by simp [lexec] at h
    | fuel + 1, d, .leaf rp, s, s', h => by
      simp only [lexec] at h
      split at h
      · cases h
      · injection h with h; subst h; exact ⟨[], by simp⟩
    | fuel + 1, d, .seq cs, s, s', h => by
      simp only [lexec] at h
      exact lexecs_passes o fuel d cs s s' h
    | fuel + 1, d, .loop c b, s, s', h => by
      simp only [lexec] at h
      exact lloop_passes o fuel d c b 0 s s' h
    | fuel + 1, d, .branch t e, s, s', h => by
      simp only [lexec] at h
      split at h
      · simpa using lexec_passes o fuel d t _ s' h
      · simpa using lexec_passes o fuel d e _ s' h
    | fuel + 1, d, .scope b, s, s', h => by
      simp only [lexec] at h
      cases h1 : lexec o fuel d b { s with ctrs := 0 :: s.ctrs, prog := s.prog || levelProg b } with
      | none => simp [h1] at h
      | some s1 =>
        simp only [h1] at h
        injection h with h; subst h
        simpa using lexec_passes o fuel d b _ s1 h1
  theorem lexecs_passes (o : LOracle) : ∀ (fuel d : Nat) (cs : LComps) (s s' : LSt),
      lexecs o fuel d cs s = some s' → ∃ l, s'.passes = l ++ s.passes ∧ ∀ x ∈ l, d ≤ x
    | 0, _, _, _, _, h => by simp [lexecs] at h
    | fuel + 1, d, .nil, s, s', h => by
      simp only [lexecs] at h
      injection h with h; subst h; exact ⟨[], by simp⟩
    | fuel + 1, d, .cons c rest, s, s', h => by
      simp only [lexecs] at h
      cases h1 : lexec o fuel d c s with
      | none => simp [h1] at h
      | some s1 =>
        simp only [h1] at h
        obtain ⟨l1, e1, m1⟩ := lexec_passes o fuel d c s s1 h1
        obtain ⟨l2, e2, m2⟩ := lexecs_passes o fuel d rest s1 s' h
        refine ⟨l2 ++ l1, by rw [e2, e1, List.append_assoc], ?_⟩
        intro x hx
        rcases List.mem_append.1 hx with hx | hx
        · exact m2 x hx
        · exact m1 x hx
  theorem lloop_passes (o : LOracle) : ∀ (fuel d : Nat) (c : LCond) (b : LComp) (p : Nat) (s s' : LSt),
      lloop o fuel d c b p s = some s' → ∃ l, s'.passes = l ++ s.passes ∧ ∀ x ∈ l, d ≤ x
    | 0, _, _, _, _, _, _, h => by simp [lloop] at h
    | fuel + 1, d, c, b, p, s, s', h => by
      simp only [lloop] at h
      split at h
      · cases h
      · split at h
        · cases h1 : lexec o fuel (d + 1) b { s with tick := s.tick + 1 } with
          | none => simp [h1] at h
          | some s1 =>
            simp only [h1] at h
            obtain ⟨l1, e1, m1⟩ := lexec_passes o fuel (d + 1) b _ s1 h1
            obtain ⟨l2, e2, m2⟩ := lloop_passes o fuel d c b (p + 1) _ s' h
            refine ⟨l2 ++ (d :: l1), ?_, ?_⟩
            · rw [e2]; simp [e1]
            · intro x hx
              rcases List.mem_append.1 hx with hx | hx
              · exact m2 x hx
              · rcases List.mem_cons.1 hx with hx | hx
                · omega
                · have := m1 x hx; omega
        · injection h with h; subst h; exact ⟨[], by simp⟩
end

theorem passesAt_of_deeper (d : Nat) (s s' : LSt) (l : List Nat)
    (e : s'.passes = l ++ s.passes) (m : ∀ x ∈ l, d + 1 ≤ x) : passesAt d s' = passesAt d s := by
  have hnil : l.filter (· == d) = [] := by
    rw [List.filter_eq_nil_iff]
    intro x hx
    have := m x hx
    simp; omega
  simp [passesAt, e, List.filter_append, hnil]

/-- One loop bounded by the iteration counter, body without a loop of this level, counter equal to the passes
made so far: it ends with the counter at `n` after exactly `n - p` further passes — for every oracle. -/
theorem lloop_iterLt_exact (o : LOracle) : ∀ (fuel d n : Nat) (b : LComp) (p : Nat) (s s' : LSt) (r : List Nat),
    directLoops b = 0 → scopesOk b = true → s.ctrs = p :: r → p ≤ n →
    lloop o fuel d (.iterLt n) b p s = some s' →
    s'.ctrs = n :: r ∧ passesAt d s' = passesAt d s + (n - p)
  | 0, _, _, _, _, _, _, _, _, _, _, _, h => by simp [lloop] at h
  | fuel + 1, d, n, b, p, s, s', r, hd, hs, hc, hp, h => by
    simp only [lloop] at h
    split at h
    · cases h
    · rename_i ctr rest hcs
      have hctr : ctr = p := by
        rw [hc] at hcs
        injection hcs with h1 _
        exact h1.symm
      subst hctr
      split at h
      · rename_i hev
        have hlt : ctr < n := by simpa [LCond.eval] using hev
        cases h1 : lexec o fuel (d + 1) b { s with tick := s.tick + 1 } with
        | none => simp [h1] at h
        | some s1 =>
          simp only [h1] at h
          have g1 := noLoop_sound o fuel (d + 1) b _ s1 hd hs h1
          have hc1 : s1.ctrs = ctr :: r := by rw [g1.1]; simpa using hc
          obtain ⟨l1, e1, m1⟩ := lexec_passes o fuel (d + 1) b _ s1 h1
          have hp1 : passesAt d s1 = passesAt d s := by
            have := passesAt_of_deeper d { s with tick := s.tick + 1 } s1 l1 e1 m1
            simpa [passesAt] using this
          have g2 := lloop_iterLt_exact o fuel d n b (ctr + 1) _ s' r hd hs (by simp [hc1, bump]) (by omega) h
          refine ⟨g2.1, ?_⟩
          rw [g2.2]
          have : passesAt d { s1 with ctrs := bump s1.ctrs, passes := d :: s1.passes } = passesAt d s1 + 1 := by
            simp [passesAt]
          rw [this, hp1]; omega
      · rename_i hev
        have hge : ¬ ctr < n := by simpa [LCond.eval] using hev
        injection h with h; subst h
        have : ctr = n := by omega
        subst this
        exact ⟨by simpa using hc, by simp [passesAt]⟩

end MahfModel.Tpl
