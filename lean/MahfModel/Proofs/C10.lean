/- Helper lemmas for C10 (conditions, loop counts). -/
import MahfModel.Model.Conditions
import Mathlib.Algebra.Order.Field.Basic
import Mathlib.Tactic.Linarith
namespace MahfModel.Conditions

/-! ### ChangeOf -/

section changeOf
variable {V : Type} (eqv : V → V → Bool)

theorem changeOfRun_length (prev : Option V) (xs : List V) :
    (changeOfRun eqv prev xs).length = xs.length := by
  induction xs generalizing prev with
  | nil => rfl
  | cons v vs ih => simp [changeOfRun, ih]

theorem changeOfRun_append (prev : Option V) (xs ys : List V) :
    changeOfRun eqv prev (xs ++ ys) =
      changeOfRun eqv prev xs ++ changeOfRun eqv (changeOfState eqv prev xs) ys := by
  induction xs generalizing prev with
  | nil => rfl
  | cons v vs ih => simp [changeOfRun, changeOfState, ih]

/-- The `Previous` state is the value last reported (or the initial one if nothing fired yet). -/
theorem changeOfState_eq (prev : Option V) (xs : List V) :
    changeOfState eqv prev xs =
      match lastReported xs (changeOfRun eqv prev xs) with
      | some r => some r
      | none => prev := by
  induction xs generalizing prev with
  | nil => rfl
  | cons v vs ih =>
    simp only [changeOfState, changeOfRun, lastReported]
    rw [ih]
    cases h : lastReported vs (changeOfRun eqv (changeOfStep eqv prev v).2 vs) with
    | some r => rfl
    | none =>
      cases prev with
      | none => simp [changeOfStep]
      | some p => cases h2 : eqv v p <;> simp [changeOfStep, h2]

theorem changeOfRun_take (xs : List V) (k : Nat) :
    (changeOfRun eqv none xs).take k = changeOfRun eqv none (xs.take k) := by
  conv => lhs; rw [← List.take_append_drop k xs]
  rw [changeOfRun_append]
  by_cases hk : k ≤ xs.length
  · rw [List.take_append_of_le_length (by simp [changeOfRun_length, hk])]
    rw [List.take_of_length_le (by simp [changeOfRun_length])]
  · have : xs.drop k = [] := List.drop_eq_nil_of_le (by omega)
    simp [this, changeOfRun, List.take_of_length_le, changeOfRun_length]

theorem changeOfRun_get (xs : List V) (k : Nat) (hk : k < xs.length) :
    (changeOfRun eqv none xs)[k]? =
      some (match lastReported (xs.take k) ((changeOfRun eqv none xs).take k) with
        | none => true
        | some p => !eqv xs[k] p) := by
  rw [changeOfRun_take]
  have hsplit : xs = xs.take k ++ xs[k] :: xs.drop (k + 1) := by
    rw [List.getElem_cons_drop, List.take_append_drop]
  conv => lhs; rw [hsplit, changeOfRun_append]
  have hl : (changeOfRun eqv none (xs.take k)).length = k := by
    rw [changeOfRun_length]; simp; omega
  rw [List.getElem?_append_right (by omega), hl, Nat.sub_self]
  simp only [changeOfRun, List.getElem?_cons_zero, changeOfStep]
  rw [changeOfState_eq]
  cases lastReported (xs.take k) (changeOfRun eqv none (xs.take k)) <;> rfl

end changeOf

theorem deltaEq_iff (th a b : Nat) :
    deltaEq th a b = true ↔ ((a : Int) - b < th ∧ (b : Int) - a < th) := by
  unfold deltaEq
  split <;> simp <;> omega

theorem deltaEqG_iff {F : Type} [Field F] [LinearOrder F] [IsStrictOrderedRing F] (th a b : F) :
    deltaEqG th a b = true ↔ |a - b| < th := by
  unfold deltaEqG
  by_cases h : a < b
  · simp only [h, if_true, decide_eq_true_eq]
    rw [abs_of_neg (by linarith)]; constructor <;> intro _ <;> linarith
  · simp only [h, if_false, decide_eq_true_eq]
    rw [abs_of_nonneg (by linarith)]

/-! ### ChangeOf: re-initialisation, several conditions -/

section reinit
variable {V : Type} (eqv : V → V → Bool)

theorem changeOfRunR_append_init (slot : Option (Option V)) (pre post : List (Option V)) :
    changeOfRunR eqv slot (pre ++ none :: post) =
      changeOfRunR eqv slot pre ++ changeOfRunR eqv (some none) post := by
  induction pre generalizing slot with
  | nil => cases slot <;> simp [changeOfRunR]
  | cons e es ih =>
    cases e with
    | none => cases slot <;> simp [changeOfRunR, ih]
    | some v => cases slot <;> simp [changeOfRunR, ih]

theorem changeOfRunR_evals (p : Option V) (vs : List V) :
    changeOfRunR eqv (some p) (vs.map some) = (changeOfRun eqv p vs).map some := by
  induction vs generalizing p with
  | nil => simp [changeOfRunR, changeOfRun]
  | cons v vs ih => simp [changeOfRunR, changeOfRun, ih]

end reinit

theorem upd_same {α : Type} (f : Nat → α) (k : Nat) (a : α) : upd f k a k = a := by simp [upd]
theorem upd_other {α : Type} (f : Nat → α) (k j : Nat) (a : α) (h : j ≠ k) : upd f k a j = f j := by
  simp [upd, h]

theorem runFlat_independent (condOf : Nat → CondSpec) (c : Nat) (evs : List Ev) (vals : Nat → Nat) (f : Frame)
    (hk : ∀ c' ∈ condsIn evs, (condOf c').key = (condOf c).key → c' = c) :
    (runFlat condOf { vals := vals, stack := [f] } evs).filterMap
        (fun o => if o.1 = c then some o.2 else none) =
      changeOfRunR (condOf c).eqv (f (condOf c).key) (histOf condOf c vals evs) := by
  induction evs generalizing vals f with
  | nil => cases h : f (condOf c).key <;> simp [runFlat, histOf, changeOfRunR]
  | cons e es ih =>
    cases e with
    | set l v =>
      simp only [runFlat, evStep, histOf]
      exact ih _ _ (fun c' hc' => hk c' (by simpa [condsIn] using hc'))
    | init c' =>
      have hk' : ∀ c'' ∈ condsIn es, (condOf c'').key = (condOf c).key → c'' = c :=
        fun c'' h => hk c'' (by simp [condsIn, h])
      simp only [runFlat, evStep, histOf, initSlot]
      by_cases hc : c' = c
      · subst hc
        simp only [if_true]
        rw [ih _ _ hk', upd_same]
        cases f (condOf c').key <;> simp [changeOfRunR]
      · simp only [hc, if_false]
        have hne : (condOf c).key ≠ (condOf c').key := fun h => hc (hk c' (by simp [condsIn]) h.symm)
        rw [ih _ _ hk', upd_other _ _ _ _ hne]
    | eval c' =>
      have hk' : ∀ c'' ∈ condsIn es, (condOf c'').key = (condOf c).key → c'' = c :=
        fun c'' h => hk c'' (by simp [condsIn, h])
      simp only [runFlat, evStep, histOf, findSlot]
      cases hs : f (condOf c').key with
      | none =>
        simp only [List.filterMap_cons]
        by_cases hc : c' = c
        · subst hc
          simp only [if_true]
          rw [ih _ _ hk', hs]
          simp [changeOfRunR]
        · simp only [hc, if_false]
          exact ih _ _ hk'
      | some prev =>
        simp only [writeSlot, hs, List.filterMap_cons]
        by_cases hc : c' = c
        · subst hc
          simp only [if_true]
          rw [ih _ _ hk', upd_same, hs]
          simp [changeOfRunR]
        · simp only [hc, if_false]
          have hne : (condOf c).key ≠ (condOf c').key := fun h => hc (hk c' (by simp [condsIn]) h.symm)
          rw [ih _ _ hk', upd_other _ _ _ _ hne]


/-! ### And / Or / Not -/

/-- Boolean values of a list of operands (specification side). -/
def semList (env : Env) : Forms → List Bool
  | .nil => []
  | .cons f fs => sem (fun o => (env o).toBool) f :: semList env fs

mutual
  theorem eval_ok (env : Env) (f : Form) (log : List Nat) (h : errFree env f = true) :
      eval env f log = (.val (sem (fun o => (env o).toBool) f), log ++ leaves f) := by
    cases f with
    | leaf tag operand =>
      simp only [errFree, bne_iff_ne, ne_eq] at h
      simp only [eval, sem, leaves]
      cases he : env operand with
      | val b => rfl
      | err => exact absurd he h
    | and fs =>
      simp only [errFree] at h
      obtain ⟨i1, i2, _⟩ := evalAll_ok env fs log h
      simp [eval, sem, leaves, i1, i2]
    | or fs =>
      simp only [errFree] at h
      obtain ⟨i1, _, i3⟩ := evalAll_ok env fs log h
      simp [eval, sem, leaves, i1, i3]
    | not g =>
      simp only [errFree] at h
      simp [eval, sem, leaves, eval_ok env g log h]
  theorem evalAll_ok (env : Env) (fs : Forms) (log : List Nat) (h : errFreeAll env fs = true) :
      evalAll env fs log = (some (semList env fs), log ++ leavesAll fs) ∧
      allB (semList env fs) = semAll (fun o => (env o).toBool) fs ∧
      anyB (semList env fs) = semAny (fun o => (env o).toBool) fs := by
    cases fs with
    | nil => simp [evalAll, semList, leavesAll, allB, anyB, semAll, semAny]
    | cons g gs =>
      simp only [errFreeAll, Bool.and_eq_true] at h
      obtain ⟨i1, i2, i3⟩ := evalAll_ok env gs (log ++ leaves g) h.2
      simp [evalAll, eval_ok env g log h.1, i1, semList, leavesAll, allB, anyB, semAll, semAny, i2, i3]
end

/- With an erring operand the evaluation errs, and what has been evaluated is a prefix of the
left-to-right leaf order (evaluation stops at the first error). -/
mutual
  theorem eval_err (env : Env) (f : Form) (log : List Nat) (h : errFree env f = false) :
      (eval env f log).1 = .err ∧ ∃ l, (eval env f log).2 = log ++ l ∧ l <+: leaves f := by
    cases f with
    | leaf tag operand =>
      simp only [errFree, bne_eq_false_iff_eq] at h
      simp [eval, leaves, h]
    | and fs =>
      simp only [errFree] at h
      obtain ⟨i1, l, i2, i3⟩ := evalAll_err env fs log h
      refine ⟨?_, l, ?_, i3⟩ <;> (simp only [eval]; cases hh : evalAll env fs log with | mk r lg => cases r <;> simp_all)
    | or fs =>
      simp only [errFree] at h
      obtain ⟨i1, l, i2, i3⟩ := evalAll_err env fs log h
      refine ⟨?_, l, ?_, i3⟩ <;> (simp only [eval]; cases hh : evalAll env fs log with | mk r lg => cases r <;> simp_all)
    | not g =>
      simp only [errFree] at h
      obtain ⟨i1, l, i2, i3⟩ := eval_err env g log h
      refine ⟨?_, l, ?_, i3⟩ <;> (simp only [eval]; cases hh : eval env g log with | mk r lg => cases r <;> simp_all)
  theorem evalAll_err (env : Env) (fs : Forms) (log : List Nat) (h : errFreeAll env fs = false) :
      (evalAll env fs log).1 = none ∧ ∃ l, (evalAll env fs log).2 = log ++ l ∧ l <+: leavesAll fs := by
    cases fs with
    | nil => simp [errFreeAll] at h
    | cons g gs =>
      simp only [errFreeAll, Bool.and_eq_false_iff] at h
      by_cases hg : errFree env g = true
      · have hgs : errFreeAll env gs = false := by
          rcases h with h | h
          · simp [hg] at h
          · exact h
        obtain ⟨i1, l, i2, i3⟩ := evalAll_err env gs (log ++ leaves g) hgs
        have e1 := eval_ok env g log hg
        refine ⟨?_, leaves g ++ l, ?_, ?_⟩
        · simp only [evalAll, e1]
          cases hh : evalAll env gs (log ++ leaves g) with | mk r lg => cases r <;> simp_all
        · simp only [evalAll, e1]
          cases hh : evalAll env gs (log ++ leaves g) with | mk r lg => cases r <;> simp_all
        · simp only [leavesAll]
          exact (List.prefix_append_right_inj _).mpr i3
      · have hg' : errFree env g = false := by simpa using hg
        obtain ⟨i1, l, i2, i3⟩ := eval_err env g log hg'
        refine ⟨?_, l, ?_, ?_⟩
        · simp only [evalAll]
          cases hh : eval env g log with | mk r lg => cases r <;> simp_all
        · simp only [evalAll]
          cases hh : eval env g log with | mk r lg => cases r <;> simp_all
        · simp only [leavesAll]
          exact i3.trans (List.prefix_append _ _)
end

/-! ### RandomChance: counting -/

theorem countP_lt_range (N m : Nat) : ((List.range N).countP (fun w => decide (w < m))) = min m N := by
  induction N with
  | zero => simp
  | succ N ih =>
    rw [List.range_succ, List.countP_append, ih]
    by_cases h : N < m
    · simp [h]; omega
    · simp [h]; omega

/-! RandomChance: counts that do not depend on which words fire -/

/-- Of the words `0 … N−1` exactly `N − a` are `≥ a`. -/
theorem countP_ge_range (N a : Nat) : ((List.range N).countP (fun w => decide (a ≤ w))) = N - a := by
  induction N with
  | zero => simp
  | succ N ih =>
    rw [List.range_succ, List.countP_append, ih]
    by_cases h : a ≤ N
    · simp [h]; omega
    · simp [h]; omega

/-- The test "among the `m` LARGEST of `N` words" fires for exactly `min m N` words. -/
theorem countP_upper_range (N m : Nat) :
    ((List.range N).countP (fun w => decide (N - 1 - w < m))) = min m N := by
  have : ∀ w ∈ List.range N, (decide (N - 1 - w < m)) = (decide (N - m ≤ w)) := by
    intro w hw
    have hw' : w < N := List.mem_range.mp hw
    by_cases h : N - m ≤ w
    · simp [h]; omega
    · simp [h]; omega
  rw [List.countP_congr (fun w hw => by rw [this w hw]), countP_ge_range]
  omega

/-- Any bijective relabelling of the words keeps the count. -/
theorem countP_relabel (N m : Nat) (σ : Nat → Nat) (hσ : ((List.range N).map σ).Perm (List.range N)) :
    ((List.range N).countP (fun w => decide (σ w < m))) = min m N := by
  have h1 : ((List.range N).map σ).countP (fun w => decide (w < m)) =
      (List.range N).countP (fun w => decide (σ w < m)) := by
    rw [List.countP_map]; rfl
  rw [← h1, hσ.countP_eq, countP_lt_range]

/-- Sweep: of the `N` equidistant words `o + k·D` (`k < N`) exactly `min ⌈(m − o)/D⌉ N` are below `m`. -/
theorem sweep_lower_count (N D o m : Nat) (hD : 0 < D) :
    ((List.range N).countP (fun k => decide (o + k * D < m))) = min ((m - o + D - 1) / D) N := by
  have : ∀ k, decide (o + k * D < m) = decide (k < (m - o + D - 1) / D) := by
    intro k
    have h : k < (m - o + D - 1) / D ↔ (k + 1) * D ≤ m - o + D - 1 := by
      rw [Nat.lt_iff_add_one_le, Nat.le_div_iff_mul_le hD]
    have e : (k + 1) * D = k * D + D := by rw [Nat.add_mul]; simp
    by_cases hh : o + k * D < m
    · have : k < (m - o + D - 1) / D := h.mpr (by rw [e]; omega)
      simp [hh, this]
    · have : ¬ k < (m - o + D - 1) / D := fun hk => by have := h.mp hk; rw [e] at this; omega
      simp [hh, this]
  simp only [this]
  exact countP_lt_range N _

/-- … which is `⌊m/D⌋` or `⌊m/D⌋ + 1` for every offset `o < D`. -/
theorem sweep_lower_bounds (D o m : Nat) (hD : 0 < D) (ho : o < D) :
    m / D ≤ (m - o + D - 1) / D ∧ (m - o + D - 1) / D ≤ m / D + 1 := by
  constructor
  · exact Nat.div_le_div_right (by omega)
  · calc (m - o + D - 1) / D ≤ (m + D) / D := Nat.div_le_div_right (by omega)
      _ = m / D + 1 := Nat.add_div_right m hD


/-! ### Loop -/

section loop
variable {F : Type} [Div F] (toF : Nat → F)

/-- Iteration-bounded loop (`step = 1`) from counter `c ≤ n`: exactly `n − c` more passes. -/
theorem loopGo_exact (n : Nat) (d : Nat) (s : LoopSt F) (hc : s.counter + d = n) (fuel : Nat) (hf : d + 1 ≤ fuel) :
    ∃ s', loopGo toF n 1 fuel s = some s' ∧ s'.passes = s.passes + d ∧ s'.tests = s.tests + d + 1 ∧
      s'.counter = n ∧ s'.progress = toF n / toF n := by
  induction d generalizing s fuel with
  | zero =>
    cases fuel with
    | zero => omega
    | succ fuel =>
      have hcn : s.counter = n := by omega
      simp [loopGo, lessThanN, hcn]
  | succ d ih =>
    cases fuel with
    | zero => omega
    | succ fuel =>
      have : s.counter < n := by omega
      simp only [loopGo, lessThanN, this, decide_true, if_true]
      obtain ⟨s', h1, h2, h3, h4, h5⟩ := ih
        { counter := s.counter + 1, progress := toF s.counter / toF n, tests := s.tests + 1, passes := s.passes + 1 }
        (by simp; omega) fuel (by omega)
      exact ⟨s', h1, by rw [h2]; simp; omega, by rw [h3]; simp; omega, h4, h5⟩

/-- A loop whose counter is already at or past `n` tests once and makes no pass. -/
theorem loopGo_done (n step : Nat) (s : LoopSt F) (hc : n ≤ s.counter) (fuel : Nat) :
    loopGo toF n step (fuel + 1) s =
      some { s with progress := toF s.counter / toF n, tests := s.tests + 1 } := by
  have : ¬ s.counter < n := by omega
  simp [loopGo, lessThanN, this]

/-- General step (`Evaluations`-bounded loop with a body adding `step ≥ 1` per pass):
the number of passes `p` is the least with `c + p·step ≥ n`. -/
theorem loopGo_step (n step : Nat) (hs : 1 ≤ step) (fuel : Nat) (s : LoopSt F) (hf : n - s.counter + 1 ≤ fuel) :
    ∃ s' p, loopGo toF n step fuel s = some s' ∧ s'.passes = s.passes + p ∧ s'.tests = s.tests + p + 1 ∧
      s'.counter = s.counter + p * step ∧ n ≤ s'.counter ∧
      (0 < p → s.counter + (p - 1) * step < n) ∧ s'.progress = toF s'.counter / toF n := by
  induction fuel generalizing s with
  | zero => omega
  | succ fuel ih =>
    by_cases hc : s.counter < n
    · simp only [loopGo, lessThanN, hc, decide_true, if_true]
      obtain ⟨s', p, h1, h2, h3, h4, h5, h6, h7⟩ := ih
        { counter := s.counter + step, progress := toF s.counter / toF n, tests := s.tests + 1, passes := s.passes + 1 }
        (by simp; omega)
      refine ⟨s', p + 1, h1, by rw [h2]; simp; omega, by rw [h3]; simp; omega, ?_, h5, ?_, h7⟩
      · rw [h4]; simp [Nat.add_mul]; omega
      · intro _
        simp only [Nat.add_sub_cancel]
        by_cases hp : 0 < p
        · have := h6 hp
          simp at this
          have e : p * step = (p - 1) * step + step := by
            conv => lhs; rw [show p = (p - 1) + 1 by omega]; rw [Nat.add_mul]; simp
          omega
        · have : p = 0 := by omega
          subst this; simpa using hc
    · refine ⟨_, 0, loopGo_done toF n step s (by omega) fuel, ?_, ?_, ?_, ?_, ?_, ?_⟩ <;> (simp; try omega)

end loop

end MahfModel.Conditions
