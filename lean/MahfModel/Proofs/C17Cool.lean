/- Helper lemmas for C17 (geometric cooling inside programs: blocks, loops, scopes). -/
import MahfModel.Model.SaCool
import MahfModel.Proofs.C17
namespace MahfModel.Sa

section
variable {F : Type} [Field F]

/-- Product of the factors of the logged executions that targeted cell `c`. -/
def factor (c : Nat) : List (CEntry F) → F
  | [] => 1
  | e :: r => if e.cell = c then factor c r * e.alpha else factor c r

theorem factor_append (c : Nat) (a b : List (CEntry F)) :
    factor c (a ++ b) = factor c a * factor c b := by
  induction a with
  | nil => simp [factor]
  | cons e r ih =>
    simp only [List.cons_append, factor]
    split
    · rw [ih]; ring
    · rw [ih]

/-- Cell `c` scaled by `f` (absent cells stay absent). -/
def scaleCell (cells : List (Option F)) (c : Nat) (f : F) : Option (Option F) :=
  (cells[c]?).map (Option.map (· * f))

theorem scaleCell_one (cells : List (Option F)) (c : Nat) : scaleCell cells c 1 = cells[c]? := by
  unfold scaleCell
  cases cells[c]? with
  | none => rfl
  | some o => cases o <;> simp

/-- What a run did to the cells, in terms of the executions it logged. -/
def Effect (s s' : CState F) : Prop :=
  ∃ new : List (CEntry F), s'.trace = new ++ s.trace ∧
    ∀ c, s'.cells[c]? = scaleCell s.cells c (factor c new)

theorem Effect.refl (s : CState F) : Effect s s :=
  ⟨[], by simp, fun c => by simp [factor, scaleCell_one]⟩

theorem Effect.trans {s s1 s2 : CState F} (h1 : Effect s s1) (h2 : Effect s1 s2) : Effect s s2 := by
  obtain ⟨n1, t1, c1⟩ := h1
  obtain ⟨n2, t2, c2⟩ := h2
  refine ⟨n2 ++ n1, by rw [t2, t1, List.append_assoc], fun c => ?_⟩
  rw [c2 c, factor_append]
  unfold scaleCell at *
  rw [c1 c]
  cases s.cells[c]? with
  | none => rfl
  | some o => cases o <;> simp [mul_assoc, mul_comm]

theorem Effect.of_iters {s s' : CState F} (it : List (Option Nat)) (h : Effect s s') :
    Effect s { s' with iters := it } := h

theorem Effect.from_iters {s s' : CState F} (it : List (Option Nat)) (h : Effect { s with iters := it } s') :
    Effect s s' := h

/-- One execution of a cooling component. -/
theorem cexec_cool (fuel id c : Nat) (a : F) (s : CState F) :
    cexec (fuel + 1) (.cool id c a) s =
      match s.cells[c]? with
      | some (some v) =>
        (.ok, { s with cells := s.cells.set c (some (v * a)), trace := ⟨id, c, a, v * a⟩ :: s.trace })
      | _ => (.err, s) := by
  rfl

theorem cool_effect (id c : Nat) (a v : F) (s : CState F) (hv : s.cells[c]? = some (some v)) :
    Effect s { s with cells := s.cells.set c (some (v * a)), trace := ⟨id, c, a, v * a⟩ :: s.trace } := by
  refine ⟨[⟨id, c, a, v * a⟩], rfl, fun c' => ?_⟩
  have hlt : c < s.cells.length := by
    rcases Nat.lt_or_ge c s.cells.length with h | h
    · exact h
    · rw [List.getElem?_eq_none h] at hv; cases hv
  by_cases hc : c = c'
  · subst hc
    simp [factor, scaleCell, hv, List.getElem?_set_self hlt]
  · have : (s.cells.set c (some (v * a)))[c']? = s.cells[c']? := List.getElem?_set_ne hc
    simp only [this, factor, hc, if_false]
    exact (scaleCell_one _ _).symm

/-- **Every run — whatever its status — changes the cells exactly by the logged executions**:
each cell ends as its initial value times the product of the factors of the executions that
targeted it; nothing else touches a cell. -/
theorem cexec_effect : ∀ (fuel : Nat) (p : CProg F) (s : CState F) (st : CStatus) (s' : CState F),
    cexec fuel p s = (st, s') → Effect s s' := by
  intro fuel
  induction fuel with
  | zero =>
    intro p s st s' h
    simp only [cexec] at h
    cases h; exact Effect.refl s
  | succ fuel ih =>
    intro p s st s' h
    cases p with
    | cool id c a =>
      rw [cexec_cool] at h
      split at h
      · next v hv => cases h; exact cool_effect id c a v s hv
      · cases h; exact Effect.refl s
    | setIter v => simp only [cexec] at h; cases h; exact Effect.refl s
    | skip => simp only [cexec] at h; cases h; exact Effect.refl s
    | seq a b =>
      simp only [cexec] at h
      split at h
      · next s1 h1 => exact (ih a s _ s1 h1).trans (ih b s1 st s' h)
      · exact ih a s st s' h
    | loop n body =>
      simp only [cexec] at h
      split at h
      · cases h; exact Effect.refl s
      · split at h
        · split at h
          · next s1 h1 =>
            have e1 := ih body s _ s1 h1
            split at h
            · next it _ => exact e1.trans (Effect.from_iters it (ih _ _ st s' h))
            · cases h; exact e1
          · exact ih body s st s' h
        · cases h; exact Effect.refl s
    | scope body =>
      simp only [cexec] at h
      cases hx : cexec fuel body { s with iters := cinit body (none :: s.iters) } with
      | mk st1 s1 =>
        rw [hx] at h
        cases h
        exact Effect.of_iters _ (Effect.from_iters _ (ih body _ st1 s1 hx))

/-- Product of the factors a block applies to cell `c`. -/
def blockFactor (c : Nat) : List (Nat × Nat × F) → F
  | [] => 1
  | (_, c', a) :: r => if c' = c then a * blockFactor c r else blockFactor c r

/-- A straight-line block of cooling components that ends `ok`: every component multiplied its
cell once, `Iterations` (every scope) untouched, one log entry per component. -/
theorem cexec_block : ∀ (cs : List (Nat × Nat × F)) (fuel : Nat) (s s' : CState F),
    cexec fuel (blockOf cs) s = (.ok, s') →
      s'.iters = s.iters ∧ s'.trace.length = s.trace.length + cs.length ∧
      ∀ c, s'.cells[c]? = scaleCell s.cells c (blockFactor c cs) := by
  intro cs
  induction cs with
  | nil =>
    intro fuel s s' h
    cases fuel with
    | zero => simp [cexec] at h
    | succ fuel =>
      simp only [blockOf, cexec] at h
      cases h
      exact ⟨rfl, rfl, fun c => (scaleCell_one _ _).symm⟩
  | cons e r ih =>
    obtain ⟨id, c0, a⟩ := e
    intro fuel s s' h
    cases fuel with
    | zero => simp [cexec] at h
    | succ fuel =>
      simp only [blockOf, cexec] at h
      split at h
      · next s1 h1 =>
        cases fuel with
        | zero => simp [cexec] at h1
        | succ fuel =>
          rw [cexec_cool] at h1
          split at h1
          · next v hv =>
            cases h1
            obtain ⟨hi, ht, hc⟩ := ih _ _ _ h
            refine ⟨hi, by simp only [ht, List.length_cons]; omega, fun c => ?_⟩
            rw [hc c]
            have hlt : c0 < s.cells.length := by
              rcases Nat.lt_or_ge c0 s.cells.length with h' | h'
              · exact h'
              · rw [List.getElem?_eq_none h'] at hv; cases hv
            simp only [blockFactor, scaleCell]
            by_cases hcc : c0 = c
            · subst hcc
              simp [hv, List.getElem?_set_self hlt, mul_assoc]
            · simp [hcc, List.getElem?_set_ne hcc]
          · cases h1
      · next hne => exact absurd h (hne s')

theorem itersGet_bump {it it' : List (Option Nat)} {i : Nat} (hg : itersGet it = some i)
    (hb : itersBump it = some it') : itersGet it' = some (i + 1) := by
  induction it generalizing it' with
  | nil => simp [itersGet] at hg
  | cons x r ih =>
    cases x with
    | some v =>
      simp only [itersGet] at hg
      simp only [itersBump] at hb
      cases hg; cases hb
      simp [itersGet]
    | none =>
      simp only [itersGet] at hg
      simp only [itersBump] at hb
      cases hr : itersBump r with
      | none => simp [hr] at hb
      | some r' =>
        simp [hr] at hb
        subst hb
        simp only [itersGet]
        exact ih hg hr

theorem scaleCell_scale (cells cells' : List (Option F)) (f g : F) (c : Nat)
    (h : cells'[c]? = scaleCell cells c f) :
    scaleCell cells' c g = scaleCell cells c (f * g) := by
  unfold scaleCell at *
  rw [h]
  cases cells[c]? with
  | none => rfl
  | some o => cases o <;> simp [mul_assoc]

/-- A `Loop` bounded by `LessThanN::iterations(n)` around a block of cooling components, entered
with `Iterations = i ≤ n`: every pass applies every component once, so each cell ends multiplied
by `(product of its factors in the body) ^ (n − i)`. -/
theorem cexec_loop_block (cs : List (Nat × Nat × F)) (n : Nat) : ∀ (fuel : Nat) (s s' : CState F) (i : Nat),
    itersGet s.iters = some i → i ≤ n →
    cexec fuel (.loop n (blockOf cs)) s = (.ok, s') →
      itersGet s'.iters = some n ∧
      s'.trace.length = s.trace.length + cs.length * (n - i) ∧
      ∀ c, s'.cells[c]? = scaleCell s.cells c (blockFactor c cs ^ (n - i)) := by
  intro fuel
  induction fuel with
  | zero => intro s s' i _ _ h; simp [cexec] at h
  | succ fuel ih =>
    intro s s' i hi hle h
    simp only [cexec, hi] at h
    split at h
    · next hlt =>
      split at h
      · next s1 h1 =>
        obtain ⟨hit, htr, hcl⟩ := cexec_block cs fuel s s1 h1
        split at h
        · next it hb =>
          rw [hit] at hb
          have hg := itersGet_bump hi hb
          obtain ⟨g2, t2, c2⟩ := ih { s1 with iters := it } s' (i + 1) hg (by omega) h
          refine ⟨g2, ?_, fun c => ?_⟩
          · simp only [] at t2
            rw [t2, htr]
            have : n - i = (n - (i + 1)) + 1 := by omega
            rw [this, Nat.mul_add]; omega
          · rw [c2 c]
            simp only []
            rw [scaleCell_scale s.cells s1.cells _ _ c (hcl c)]
            have : n - i = (n - (i + 1)) + 1 := by omega
            rw [this, pow_succ, mul_comm]
        · cases h
      · next hne => exact absurd h (hne s')
    · next hge =>
      cases h
      have : i = n := by omega
      subst this
      refine ⟨hi, by simp, fun c => ?_⟩
      simp [scaleCell_one]

theorem blockFactor_replicate (c id k : Nat) (a : F) :
    blockFactor c (List.replicate k (id, c, a)) = a ^ k := by
  induction k with
  | zero => simp [blockFactor]
  | succ k ih => simp [List.replicate_succ, blockFactor, ih, pow_succ, mul_comm]

omit [Field F] in
/-- A cell that holds a value still holds one after any cell was overwritten with a value. -/
theorem present_set (cells : List (Option F)) (c c' : Nat) (x : F)
    (h : ∃ v, cells[c']? = some (some v)) : ∃ v, (cells.set c (some x))[c']? = some (some v) := by
  obtain ⟨v, hv⟩ := h
  have hlt : c' < cells.length := by
    rcases Nat.lt_or_ge c' cells.length with h' | h'
    · exact h'
    · rw [List.getElem?_eq_none h'] at hv; cases hv
  by_cases hc : c = c'
  · subst hc; exact ⟨x, by simp [List.getElem?_set_self hlt]⟩
  · exact ⟨v, by rw [List.getElem?_set_ne hc]; exact hv⟩

/-- A block of cooling components whose targets all exist ends `ok` (given the step budget). -/
theorem cexec_block_ok : ∀ (cs : List (Nat × Nat × F)) (fuel : Nat) (s : CState F),
    cs.length + 2 ≤ fuel → (∀ e ∈ cs, ∃ v, s.cells[e.2.1]? = some (some v)) →
      ∃ s', cexec fuel (blockOf cs) s = (.ok, s') := by
  intro cs
  induction cs with
  | nil =>
    intro fuel s hf _
    obtain ⟨f, rfl⟩ : ∃ f, fuel = f + 1 := ⟨fuel - 1, by omega⟩
    exact ⟨s, by simp [blockOf, cexec]⟩
  | cons e r ih =>
    obtain ⟨id, c0, a⟩ := e
    intro fuel s hf hp
    obtain ⟨f, rfl⟩ : ∃ f, fuel = f + 2 := ⟨fuel - 2, by simp only [List.length_cons] at hf; omega⟩
    obtain ⟨v, hv⟩ := hp (id, c0, a) (by simp)
    obtain ⟨s', h2⟩ := ih (f + 1)
      { s with cells := s.cells.set c0 (some (v * a)), trace := ⟨id, c0, a, v * a⟩ :: s.trace }
      (by simp only [List.length_cons] at hf; omega)
      (fun e he => present_set s.cells c0 e.2.1 (v * a) (hp e (by simp [he])))
    exact ⟨s', by simp only [blockOf, cexec, hv]; exact h2⟩

/-- **Non-interference**: what a block of cooling components does to the cells (and whether it
succeeds) does not depend on the `Iterations` counters — present or not, whatever their values. -/
theorem cexec_block_iters_irrelevant (it1 it2 : List (Option Nat)) :
    ∀ (cs : List (Nat × Nat × F)) (fuel : Nat) (s : CState F),
      (cexec fuel (blockOf cs) { s with iters := it1 }).1 = (cexec fuel (blockOf cs) { s with iters := it2 }).1 ∧
      (cexec fuel (blockOf cs) { s with iters := it1 }).2.cells =
        (cexec fuel (blockOf cs) { s with iters := it2 }).2.cells := by
  intro cs
  induction cs with
  | nil =>
    intro fuel s
    cases fuel <;> simp [blockOf, cexec]
  | cons e r ih =>
    obtain ⟨id, c0, a⟩ := e
    intro fuel s
    cases fuel with
    | zero => simp [cexec]
    | succ fuel =>
      cases fuel with
      | zero => simp [blockOf, cexec]
      | succ fuel =>
        simp only [blockOf, cexec]
        cases hv : s.cells[c0]? with
        | none => simp
        | some o =>
          cases o with
          | none => simp
          | some v =>
            simp only []
            exact ih (fuel + 1) { s with cells := s.cells.set c0 (some (v * a)), trace := ⟨id, c0, a, v * a⟩ :: s.trace }

end
end MahfModel.Sa
