/- Soundness of `usesOnly` (C06: a template applies only the requested evaluator) for every execution of `execI`. -/
import MahfModel.Model.TemplatesId
namespace MahfModel.Tpl

theorem requiresEvaluator_calls (k : LeafKind) (h : requiresEvaluator k = true) : callsObjective k = true := by
  cases k <;> simp_all [requiresEvaluator, callsObjective]

theorem requiresEvaluator_not_opaque (k : LeafKind) (h : requiresEvaluator k = true) : k ≠ .opaque := by
  cases k <;> simp_all [requiresEvaluator]

/-! ## `require` -/

mutual
  /-- every evaluator a `usesOnly w` tree demands is `w` -/
  theorem requiredIds_eq (w : EvId) : ∀ (c : IComp), usesOnly w c = true → ∀ i ∈ requiredIds c, i = w
    | .leaf k id, h, i, hi => by
      simp only [requiredIds] at hi
      split at hi
      · rename_i hr
        have hc := requiresEvaluator_calls k hr
        simp only [usesOnly, hc, Bool.not_true, Bool.false_or, Bool.and_eq_true, beq_iff_eq] at h
        simp only [List.mem_singleton] at hi
        simp [hi, h.2, evaluatorOf]
      · simp at hi
    | .seq cs, h, i, hi => by
      simp only [usesOnly] at h
      simp only [requiredIds] at hi
      exact requiredIdss_eq w cs h i hi
    | .loop b, h, i, hi => by
      simp only [usesOnly] at h
      simp only [requiredIds] at hi
      exact requiredIds_eq w b h i hi
    | .branch t e, h, i, hi => by
      simp only [usesOnly, Bool.and_eq_true] at h
      simp only [requiredIds, List.mem_append] at hi
      cases hi with
      | inl hi => exact requiredIds_eq w t h.1 i hi
      | inr hi => exact requiredIds_eq w e h.2 i hi
    | .scope _, _, i, hi => by simp [requiredIds] at hi
  theorem requiredIdss_eq (w : EvId) : ∀ (cs : IComps), usesOnlys w cs = true → ∀ i ∈ requiredIdss cs, i = w
    | .nil, _, i, hi => by simp [requiredIdss] at hi
    | .cons c cs, h, i, hi => by
      simp only [usesOnlys, Bool.and_eq_true] at h
      simp only [requiredIdss, List.mem_append] at hi
      cases hi with
      | inl hi => exact requiredIds_eq w c h.1 i hi
      | inr hi => exact requiredIdss_eq w cs h.2 i hi
end

/-- A tree that uses only `w` passes `require` on every state in which `w` is registered. -/
theorem requireOk_of_usesOnly (w : EvId) (reg : List EvId) (c : IComp)
    (h : usesOnly w c = true) (hw : reg.contains w = true) : requireOk reg c = true := by
  simp only [requireOk, List.all_eq_true]
  intro i hi
  rw [requiredIds_eq w c h i hi]; exact hw

/-- A tree that uses only `w` and demands some evaluator is refused by `require` when `w` is missing. -/
theorem requireOk_false_of_missing (w : EvId) (reg : List EvId) (c : IComp)
    (h : usesOnlyTop w c = true) (hw : reg.contains w = false) : requireOk reg c = false := by
  simp only [usesOnlyTop, Bool.and_eq_true, Bool.not_eq_true', List.isEmpty_eq_false_iff] at h
  obtain ⟨hne, hu⟩ := h
  cases hr : requiredIds c with
  | nil => exact absurd hr hne
  | cons i rest =>
    have : i = w := requiredIds_eq w c hu i (by simp [hr])
    have hw' : w ∉ reg := by simpa using hw
    simp [requireOk, hr, this, hw']

/-! ## `execute`: only `w` is applied -/

/-- the run appended `l` to the log and every entry of `l` is an application of `w` -/
def IGood (w : EvId) (s s' : ISt) : Prop :=
  ∃ l : List (EvId × Nat), s'.log = s.log ++ l ∧ ∀ e ∈ l, e.1 = w

theorem IGood.refl (w : EvId) (s : ISt) : IGood w s s := ⟨[], by simp, by simp⟩

theorem IGood.trans {w : EvId} {s s1 s2 : ISt} (a : IGood w s s1) (b : IGood w s1 s2) : IGood w s s2 := by
  obtain ⟨l1, e1, h1⟩ := a
  obtain ⟨l2, e2, h2⟩ := b
  refine ⟨l1 ++ l2, by rw [e2, e1, List.append_assoc], ?_⟩
  intro e he
  rcases List.mem_append.mp he with he | he
  · exact h1 e he
  · exact h2 e he

mutual
  theorem execI_sound (w : EvId) (reg : List EvId) (o : IOracle) : ∀ (fuel : Nat) (c : IComp) (s s' : ISt),
      usesOnly w c = true → execI reg o fuel c s = some s' → IGood w s s'
    | 0, _, _, _, _, h => by simp [execI] at h
    | fuel + 1, .leaf k id, s, s', hc, h => by
      simp only [usesOnly, Bool.and_eq_true, bne_iff_ne, ne_eq, Bool.or_eq_true, Bool.not_eq_true',
        beq_iff_eq] at hc
      have hk : (k == LeafKind.opaque) = false := by simp [hc.1]
      simp only [execI, hk, Bool.false_eq_true, if_false] at h
      split at h
      · cases h
      · split at h
        · rename_i hcall
          have hid : id = some w := by
            cases hc.2 with
            | inl h0 => simp [hcall] at h0
            | inr h1 => exact h1
          split at h
          · injection h with h; subst h
            exact ⟨[(evaluatorOf id, o.calls s.tick)], rfl, by simp [hid, evaluatorOf]⟩
          · cases h
        · injection h with h; subst h
          exact ⟨[], by simp, by simp⟩
    | fuel + 1, .seq cs, s, s', hc, h => by
      simp only [usesOnly] at hc
      simp only [execI] at h
      exact execsI_sound w reg o fuel cs s s' hc h
    | fuel + 1, .loop b, s, s', hc, h => by
      simp only [usesOnly] at hc
      simp only [execI] at h
      exact loopI_sound w reg o fuel b s s' hc h
    | fuel + 1, .branch t e, s, s', hc, h => by
      simp only [usesOnly, Bool.and_eq_true] at hc
      simp only [execI] at h
      split at h
      · obtain ⟨l, h1, h2⟩ := execI_sound w reg o fuel t _ s' hc.1 h
        exact ⟨l, by simpa using h1, h2⟩
      · obtain ⟨l, h1, h2⟩ := execI_sound w reg o fuel e _ s' hc.2 h
        exact ⟨l, by simpa using h1, h2⟩
    | fuel + 1, .scope b, s, s', hc, h => by
      simp only [usesOnly] at hc
      simp only [execI] at h
      split at h
      · exact execI_sound w reg o fuel b s s' hc h
      · cases h
  theorem execsI_sound (w : EvId) (reg : List EvId) (o : IOracle) : ∀ (fuel : Nat) (cs : IComps) (s s' : ISt),
      usesOnlys w cs = true → execsI reg o fuel cs s = some s' → IGood w s s'
    | 0, _, _, _, _, h => by simp [execsI] at h
    | fuel + 1, .nil, s, s', _, h => by
      simp only [execsI] at h
      injection h with h; subst h
      exact IGood.refl w _
    | fuel + 1, .cons c rest, s, s', hc, h => by
      simp only [usesOnlys, Bool.and_eq_true] at hc
      simp only [execsI] at h
      cases h1 : execI reg o fuel c s with
      | none => simp [h1] at h
      | some s1 =>
        simp only [h1] at h
        exact (execI_sound w reg o fuel c s s1 hc.1 h1).trans (execsI_sound w reg o fuel rest s1 s' hc.2 h)
  theorem loopI_sound (w : EvId) (reg : List EvId) (o : IOracle) : ∀ (fuel : Nat) (b : IComp) (s s' : ISt),
      usesOnly w b = true → loopI reg o fuel b s = some s' → IGood w s s'
    | 0, _, _, _, _, h => by simp [loopI] at h
    | fuel + 1, b, s, s', hc, h => by
      simp only [loopI] at h
      split at h
      · cases h1 : execI reg o fuel b { s with tick := s.tick + 1 } with
        | none => simp [h1] at h
        | some s1 =>
          simp only [h1] at h
          obtain ⟨l, a1, a2⟩ := execI_sound w reg o fuel b _ s1 hc h1
          exact IGood.trans ⟨l, by simpa using a1, a2⟩ (loopI_sound w reg o fuel b s1 s' hc h)
      · injection h with h; subst h
        exact ⟨[], by simp, by simp⟩
end

/-! ## `execute`: no other registered evaluator matters -/

mutual
  theorem execI_reg_irrelevant (w : EvId) (reg : List EvId) (o : IOracle) (hw : reg.contains w = true) :
      ∀ (fuel : Nat) (c : IComp) (s : ISt), usesOnly w c = true → execI reg o fuel c s = execI [w] o fuel c s
    | 0, _, _, _ => by simp [execI]
    | fuel + 1, .leaf k id, s, hc => by
      simp only [usesOnly, Bool.and_eq_true, bne_iff_ne, ne_eq, Bool.or_eq_true, Bool.not_eq_true',
        beq_iff_eq] at hc
      have hk : (k == LeafKind.opaque) = false := by simp [hc.1]
      simp only [execI, hk, Bool.false_eq_true, if_false]
      cases hcall : callsObjective k with
      | false => simp
      | true =>
        have hid : id = some w := by
          cases hc.2 with
          | inl h0 => simp [hcall] at h0
          | inr h1 => exact h1
        have hw' : w ∈ reg := by simpa using hw
        simp [hid, evaluatorOf, hw']
    | fuel + 1, .seq cs, s, hc => by
      simp only [usesOnly] at hc
      simp only [execI]
      exact execsI_reg_irrelevant w reg o hw fuel cs s hc
    | fuel + 1, .loop b, s, hc => by
      simp only [usesOnly] at hc
      simp only [execI]
      exact loopI_reg_irrelevant w reg o hw fuel b s hc
    | fuel + 1, .branch t e, s, hc => by
      simp only [usesOnly, Bool.and_eq_true] at hc
      simp only [execI]
      rw [execI_reg_irrelevant w reg o hw fuel t _ hc.1, execI_reg_irrelevant w reg o hw fuel e _ hc.2]
    | fuel + 1, .scope b, s, hc => by
      simp only [usesOnly] at hc
      simp only [execI]
      rw [requireOk_of_usesOnly w reg b hc hw, requireOk_of_usesOnly w [w] b hc (by simp),
        execI_reg_irrelevant w reg o hw fuel b s hc]
  theorem execsI_reg_irrelevant (w : EvId) (reg : List EvId) (o : IOracle) (hw : reg.contains w = true) :
      ∀ (fuel : Nat) (cs : IComps) (s : ISt), usesOnlys w cs = true → execsI reg o fuel cs s = execsI [w] o fuel cs s
    | 0, _, _, _ => by simp [execsI]
    | fuel + 1, .nil, s, _ => by simp [execsI]
    | fuel + 1, .cons c rest, s, hc => by
      simp only [usesOnlys, Bool.and_eq_true] at hc
      simp only [execsI]
      rw [execI_reg_irrelevant w reg o hw fuel c s hc.1]
      cases execI [w] o fuel c s with
      | none => rfl
      | some s1 => exact execsI_reg_irrelevant w reg o hw fuel rest s1 hc.2
  theorem loopI_reg_irrelevant (w : EvId) (reg : List EvId) (o : IOracle) (hw : reg.contains w = true) :
      ∀ (fuel : Nat) (b : IComp) (s : ISt), usesOnly w b = true → loopI reg o fuel b s = loopI [w] o fuel b s
    | 0, _, _, _ => by simp [loopI]
    | fuel + 1, b, s, hc => by
      simp only [loopI]
      rw [execI_reg_irrelevant w reg o hw fuel b _ hc]
      cases execI [w] o fuel b { s with tick := s.tick + 1 } with
      | none => rfl
      | some s1 => simp only; rw [loopI_reg_irrelevant w reg o hw fuel b s1 hc]
end

end MahfModel.Tpl
