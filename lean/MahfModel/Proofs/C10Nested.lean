/- Helper lemmas for C10: the conditions on nested states (registry chains with shadowing). -/
import MahfModel.Model.ConditionsNested
namespace MahfModel.Conditions

section chain
variable {F α β : Type}

/-- The code's parent walk finds what the state sees: the first declared value, innermost first. -/
theorem nLook_eq_visible (sel : NFrame F → Option α) (fs : List (NFrame F)) : nLook sel fs = visible sel fs := by
  induction fs with
  | nil => rfl
  | cons f fs ih =>
    cases h : sel f with
    | some a => simp [nLook, visible, declared, h]
    | none => simpa [nLook, visible, declared, h] using ih

theorem nLook_some_iff (sel : NFrame F → Option α) (fs : List (NFrame F)) (a : α) :
    nLook sel fs = some a ↔ ∃ i, Innermost sel fs i a := by
  induction fs with
  | nil => simp [nLook, Innermost]
  | cons f fs ih =>
    cases h : sel f with
    | some b =>
      simp only [nLook, h, Option.some.injEq]
      constructor
      · intro e; subst e
        exact ⟨0, f, rfl, h, fun j hj => by omega⟩
      · rintro ⟨i, fr, hi, hs, hall⟩
        cases i with
        | zero =>
          simp only [List.getElem?_cons_zero, Option.some.injEq] at hi
          subst hi; rw [h] at hs; exact Option.some.inj hs
        | succ i =>
          have := hall 0 (by omega) f rfl
          rw [h] at this; cases this
    | none =>
      simp only [nLook, h, ih]
      constructor
      · rintro ⟨i, fr, hi, hs, hall⟩
        refine ⟨i + 1, fr, by simpa using hi, hs, ?_⟩
        intro j hj g hg
        cases j with
        | zero => simp only [List.getElem?_cons_zero, Option.some.injEq] at hg; subst hg; exact h
        | succ j => exact hall j (by omega) g (by simpa using hg)
      · rintro ⟨i, fr, hi, hs, hall⟩
        cases i with
        | zero =>
          simp only [List.getElem?_cons_zero, Option.some.injEq] at hi
          subst hi; rw [h] at hs; cases hs
        | succ i =>
          exact ⟨i, fr, by simpa using hi, hs, fun j hj g hg => hall (j + 1) (by omega) g (by simpa using hg)⟩

theorem nLook_none_iff (sel : NFrame F → Option α) (fs : List (NFrame F)) :
    nLook sel fs = none ↔ ∀ g ∈ fs, sel g = none := by
  induction fs with
  | nil => simp [nLook]
  | cons f fs ih =>
    cases h : sel f with
    | some b => simp [nLook, h]
    | none => simp [nLook, h, ih]

/-- Inner registries that do not hold the state type are looked through; the first that does decides. -/
theorem nLook_append_holder (sel : NFrame F → Option α) (inner : List (NFrame F)) (fr : NFrame F) (outer : List (NFrame F))
    (a : α) (h1 : ∀ g ∈ inner, sel g = none) (h2 : sel fr = some a) :
    nLook sel (inner ++ fr :: outer) = some a := by
  induction inner with
  | nil => simp [nLook, h2]
  | cons g gs ih =>
    have hg : sel g = none := h1 g (by simp)
    simp only [List.cons_append, nLook, hg]
    exact ih (fun x hx => h1 x (by simp [hx]))

theorem nWrite_length (sel : NFrame F → Option α) (wr : NFrame F → NFrame F) (fs : List (NFrame F)) :
    (nWrite sel wr fs).length = fs.length := by
  induction fs with
  | nil => rfl
  | cons f fs ih => cases h : sel f <;> simp [nWrite, h, ih]

/-- A write changes exactly the innermost holder. -/
theorem nWrite_innermost (sel : NFrame F → Option α) (wr : NFrame F → NFrame F) (fs : List (NFrame F)) (i : Nat) (a : α)
    (h : Innermost sel fs i a) :
    ∃ fr, fs[i]? = some fr ∧ sel fr = some a ∧ nWrite sel wr fs = fs.set i (wr fr) := by
  induction fs generalizing i with
  | nil => obtain ⟨fr, hi, _⟩ := h; simp at hi
  | cons f fs ih =>
    obtain ⟨fr, hi, hs, hall⟩ := h
    cases i with
    | zero =>
      simp only [List.getElem?_cons_zero, Option.some.injEq] at hi
      subst hi
      exact ⟨f, rfl, hs, by simp [nWrite, hs]⟩
    | succ i =>
      have hf : sel f = none := hall 0 (by omega) f rfl
      obtain ⟨fr', h1, h2, h3⟩ := ih i ⟨fr, by simpa using hi, hs, fun j hj g hg => hall (j + 1) (by omega) g (by simpa using hg)⟩
      exact ⟨fr', by simpa using h1, h2, by simp [nWrite, hf, h3]⟩

/-- Nothing holds the state type: a write does nothing. -/
theorem nWrite_none (sel : NFrame F → Option α) (wr : NFrame F → NFrame F) (fs : List (NFrame F))
    (h : nLook sel fs = none) : nWrite sel wr fs = fs := by
  induction fs with
  | nil => rfl
  | cons f fs ih =>
    cases hf : sel f with
    | some b => simp [nLook, hf] at h
    | none => simp only [nLook, hf] at h; simp [nWrite, hf, ih h]

/-- A write that leaves another state type alone does not change what is seen of it. -/
theorem nLook_nWrite_other (sel : NFrame F → Option α) (sel' : NFrame F → Option β) (wr : NFrame F → NFrame F)
    (hw : ∀ f, sel (wr f) = sel f) (fs : List (NFrame F)) : nLook sel (nWrite sel' wr fs) = nLook sel fs := by
  induction fs with
  | nil => rfl
  | cons f fs ih =>
    cases h' : sel' f with
    | some b => simp [nWrite, h', nLook, hw]
    | none => simp only [nWrite, h', nLook]; rw [ih]

/-- A write to the state type itself: what is seen afterwards is the written value. -/
theorem nLook_nWrite_same (sel : NFrame F → Option α) (wr : NFrame F → NFrame F) (g : α → α)
    (hw : ∀ f a, sel f = some a → sel (wr f) = some (g a)) (fs : List (NFrame F)) :
    nLook sel (nWrite sel wr fs) = (nLook sel fs).map g := by
  induction fs with
  | nil => rfl
  | cons f fs ih =>
    cases h : sel f with
    | some b => simp [nWrite, h, nLook, hw f b h]
    | none => simp only [nWrite, h, nLook]; exact ih

end chain

/-! ### The nested search -/
section search
variable {F : Type}

/-- The slots of one state type along the chain. -/
def updFirst {α : Type} (g : α → α) : List (Option α) → List (Option α)
  | [] => []
  | some a :: xs => some (g a) :: xs
  | none :: xs => none :: updFirst g xs

def firstSome {α : Type} : List (Option α) → Option α
  | [] => none
  | some a :: _ => some a
  | none :: xs => firstSome xs

theorem nLook_eq_firstSome {α : Type} (sel : NFrame F → Option α) (fs : List (NFrame F)) :
    nLook sel fs = firstSome (fs.map sel) := by
  induction fs with
  | nil => rfl
  | cons f fs ih => cases h : sel f <;> simp [nLook, firstSome, h, ih]

theorem map_nWrite_same {α : Type} (sel : NFrame F → Option α) (wr : NFrame F → NFrame F) (g : α → α)
    (hw : ∀ f a, sel f = some a → sel (wr f) = some (g a)) (fs : List (NFrame F)) :
    (nWrite sel wr fs).map sel = updFirst g (fs.map sel) := by
  induction fs with
  | nil => rfl
  | cons f fs ih =>
    cases h : sel f with
    | some b => simp [nWrite, h, updFirst, hw f b h]
    | none => simp [nWrite, h, updFirst, ih]

theorem map_nWrite_other {α β : Type} (sel : NFrame F → Option α) (sel' : NFrame F → Option β) (wr : NFrame F → NFrame F)
    (hw : ∀ f, sel (wr f) = sel f) (fs : List (NFrame F)) : (nWrite sel' wr fs).map sel = fs.map sel := by
  induction fs with
  | nil => rfl
  | cons f fs ih => cases h : sel' f <;> simp [nWrite, h, hw, ih]

theorem nBest_of_look (fs : List (NFrame F)) (cur : Option F) (h : nLook (fun f => f.best) fs = some cur) :
    nBest fs = cur := by
  cases cur <;> simp [nBest, h]

/-- The slots of `BestIndividual` after feeding the first `d` scripted values to the nearest one. -/
def iterBest [LT F] [DecidableLT F] : List F → Nat → List (Option (Option F)) → List (Option (Option F))
  | _, 0, B => B
  | [], _ + 1, B => B
  | s :: rest, d + 1, B => iterBest rest d (updFirst (upd1 s) B)

theorem runningBest_zero [LT F] [DecidableLT F] (start : Option F) (sc : List F) : runningBest start sc 0 = start := by
  cases sc <;> rfl

theorem runningBest_nil [LT F] [DecidableLT F] (start : Option F) (j : Nat) : runningBest start [] j = start := by
  cases j <;> rfl

theorem iterBest_zero [LT F] [DecidableLT F] (sc : List F) (B : List (Option (Option F))) : iterBest sc 0 B = B := by
  cases sc <;> rfl

theorem map_range'_shift {β : Type} (f : Nat → β) (n s : Nat) :
    (List.range' (s + 1) n).map f = (List.range' s n).map (fun q => f (q + 1)) := by
  induction n generalizing s with
  | zero => rfl
  | succ n ih => simp [List.range'_succ, ih]

theorem iterBest_nil [LT F] [DecidableLT F] (d : Nat) (B : List (Option (Option F))) : iterBest ([] : List F) d B = B := by
  cases d <;> rfl

/-- The three writes of one loop pass. -/
def wProg (p : F) (fs : List (NFrame F)) : List (NFrame F) :=
  nWrite (fun f => f.prog 0) (fun f => { f with prog := upd f.prog 0 (some p) }) fs

def wBest [LT F] [DecidableLT F] (sc : List F) (fs : List (NFrame F)) : List (NFrame F) :=
  match sc with
  | s :: _ => nWrite (fun f => f.best) (fun f => { f with best := bestUpdate s f.best }) fs
  | [] => fs

def wIter (v : Nat) (fs : List (NFrame F)) : List (NFrame F) :=
  nWrite (fun f => f.obs 0) (fun f => { f with obs := upd f.obs 0 (some v) }) fs

def stepCur [LT F] [DecidableLT F] (sc : List F) (cur : Option F) : Option F :=
  match sc with
  | s :: _ => upd1 s cur
  | [] => cur

theorem wProg_facts (p : F) (fs : List (NFrame F)) :
    nLook (fun f => f.obs 0) (wProg p fs) = nLook (fun f => f.obs 0) fs ∧
    nLook (fun f => f.best) (wProg p fs) = nLook (fun f => f.best) fs ∧
    (wProg p fs).map (fun f => f.best) = fs.map (fun f => f.best) ∧ (wProg p fs).length = fs.length :=
  ⟨nLook_nWrite_other (fun f => f.obs 0) (fun f => f.prog 0) (fun f => { f with prog := upd f.prog 0 (some p) }) (fun _ => rfl) fs,
   nLook_nWrite_other (fun f => f.best) (fun f => f.prog 0) (fun f => { f with prog := upd f.prog 0 (some p) }) (fun _ => rfl) fs,
   map_nWrite_other (fun f => f.best) (fun f => f.prog 0) (fun f => { f with prog := upd f.prog 0 (some p) }) (fun _ => rfl) fs,
   nWrite_length _ _ fs⟩

theorem wIter_facts (v : Nat) (fs : List (NFrame F)) :
    nLook (fun f => f.obs 0) (wIter v fs) = (nLook (fun f => f.obs 0) fs).map (fun _ => v) ∧
    nLook (fun f => f.best) (wIter v fs) = nLook (fun f => f.best) fs ∧
    (wIter v fs).map (fun f => f.best) = fs.map (fun f => f.best) ∧ (wIter v fs).length = fs.length :=
  ⟨nLook_nWrite_same (fun f => f.obs 0) (fun f => { f with obs := upd f.obs 0 (some v) }) (fun _ => v) (by intro f a _; simp [upd]) fs,
   nLook_nWrite_other (fun f => f.best) (fun f => f.obs 0) (fun f => { f with obs := upd f.obs 0 (some v) }) (fun _ => rfl) fs,
   map_nWrite_other (fun f => f.best) (fun f => f.obs 0) (fun f => { f with obs := upd f.obs 0 (some v) }) (fun _ => rfl) fs,
   nWrite_length _ _ fs⟩

theorem wBest_facts [LT F] [DecidableLT F] (sc : List F) (fs : List (NFrame F)) :
    nLook (fun f => f.obs 0) (wBest sc fs) = nLook (fun f => f.obs 0) fs ∧
    nLook (fun f => f.best) (wBest sc fs) = (nLook (fun f => f.best) fs).map (stepCur sc) ∧
    (wBest sc fs).map (fun f => f.best) =
      (match sc with
        | s :: _ => updFirst (upd1 s) (fs.map (fun f => f.best))
        | [] => fs.map (fun f => f.best)) ∧
    (wBest sc fs).length = fs.length := by
  cases sc with
  | nil =>
    refine ⟨rfl, ?_, rfl, rfl⟩
    show nLook (fun f => f.best) fs = _
    cases nLook (fun f => f.best) fs <;> rfl
  | cons s rest =>
    refine ⟨nLook_nWrite_other (fun f => f.obs 0) (fun f => f.best) (fun f => { f with best := bestUpdate s f.best }) (fun _ => rfl) fs, ?_, ?_, nWrite_length _ _ fs⟩
    · exact nLook_nWrite_same (fun f => f.best) (fun f => { f with best := bestUpdate s f.best }) (upd1 s) (by intro f a h; simp [h, bestUpdate]) fs
    · exact map_nWrite_same (fun f => f.best) (fun f => { f with best := bestUpdate s f.best }) (upd1 s) (by intro f a h; simp [h, bestUpdate]) fs

/-- One turn of `nsGo`, spelled with the three writes. -/
theorem nsGo_unfold [Add F] [Sub F] [Div F] [LT F] [LE F] [DecidableLT F] [DecidableLE F] [BEq F]
    (toF : Nat → F) (optimum eps : F) (k fuel : Nat) (fs : List (NFrame F)) (sc : List F) (it : Nat) (cur : Option F)
    (passes : Nat) (log : List (SEvent F))
    (hit : nLook (fun f => f.obs 0) fs = some it) (hcur : nLook (fun f => f.best) fs = some cur) :
    nsGo toF optimum eps k (fuel + 1) fs sc passes log =
      if (!(optimumReached eps cur optimum) && decide (it < k)) = true then
        nsGo toF optimum eps k fuel (wIter (it + 1) (wBest sc (wProg (toF it / toF k) fs))) sc.tail (passes + 1)
          (log ++ [{ verdict := true, iters := it, best := cur }])
      else some (wProg (toF it / toF k) fs, passes, log ++ [{ verdict := false, iters := it, best := cur }]) := by
  have hv : allB [!optimumReached eps cur optimum, decide (it < k)] = (!(optimumReached eps cur optimum) && decide (it < k)) := by
    simp [allB]
  simp only [nsGo, nEval, hit, lessThanN, nBest_of_look fs cur hcur, hv]
  by_cases h : (!(optimumReached eps cur optimum) && decide (it < k)) = true
  · simp only [h, if_true]
    cases sc <;> rfl
  · simp only [h]
    simp [wProg]

/-- The loop of the nested search stops at the first pass count at which `!reached(best seen) & counter < k`
is false; the log has one entry per test; the `BestIndividual` slots afterwards are the initial ones
with the consumed script fed to the nearest holder. -/
theorem nsGo_least [Add F] [Sub F] [Div F] [LT F] [LE F] [DecidableLT F] [DecidableLE F] [BEq F]
    (toF : Nat → F) (optimum eps : F) (k : Nat) (d : Nat) :
    ∀ (fs : List (NFrame F)) (sc : List F) (it : Nat) (cur : Option F) (passes : Nat) (log : List (SEvent F)) (fuel : Nat),
      nLook (fun f => f.obs 0) fs = some it → nLook (fun f => f.best) fs = some cur →
      (!(optimumReached eps (runningBest cur sc d) optimum) && decide (it + d < k)) = false →
      (∀ q, q < d → (!(optimumReached eps (runningBest cur sc q) optimum) && decide (it + q < k)) = true) →
      d + 1 ≤ fuel →
      ∃ fs', nsGo toF optimum eps k fuel fs sc passes log =
          some (fs', passes + d, log ++ (List.range' 0 (d + 1)).map fun q =>
            { verdict := !(optimumReached eps (runningBest cur sc q) optimum) && decide (it + q < k),
              iters := it + q, best := runningBest cur sc q }) ∧
        fs'.map (fun f => f.best) = iterBest sc d (fs.map (fun f => f.best)) ∧ fs'.length = fs.length := by
  induction d with
  | zero =>
    intro fs sc it cur passes log fuel hit hcur hstop _ hf
    cases fuel with
    | zero => omega
    | succ fuel =>
      simp only [runningBest_zero, Nat.add_zero] at hstop
      refine ⟨wProg (toF it / toF k) fs, ?_, by rw [iterBest_zero]; exact (wProg_facts (toF it / toF k) fs).2.2.1, (wProg_facts (toF it / toF k) fs).2.2.2⟩
      rw [nsGo_unfold toF optimum eps k fuel fs sc it cur passes log hit hcur]
      simp [hstop, runningBest_zero]
  | succ d ih =>
    intro fs sc it cur passes log fuel hit hcur hstop hgo hf
    cases fuel with
    | zero => omega
    | succ fuel =>
      have h0 := hgo 0 (by omega)
      simp only [runningBest_zero, Nat.add_zero] at h0
      have hP := wProg_facts (toF it / toF k) fs
      have hB := wBest_facts sc (wProg (toF it / toF k) fs)
      have hI := wIter_facts (it + 1) (wBest sc (wProg (toF it / toF k) fs))
      have h2_obs : nLook (fun f => f.obs 0) (wIter (it + 1) (wBest sc (wProg (toF it / toF k) fs))) = some (it + 1) := by
        rw [hI.1, hB.1, hP.1, hit]; rfl
      have h2_best : nLook (fun f => f.best) (wIter (it + 1) (wBest sc (wProg (toF it / toF k) fs))) = some (stepCur sc cur) := by
        rw [hI.2.1, hB.2.1, hP.2.1, hcur]; rfl
      have hrb : ∀ q, runningBest (stepCur sc cur) sc.tail q = runningBest cur sc (q + 1) := by
        intro q
        cases sc with
        | nil => simp [stepCur, runningBest_nil]
        | cons s rest => rfl
      have harith : ∀ q, decide (it + 1 + q < k) = decide (it + (q + 1) < k) := by
        intro q; congr 1; apply propext; omega
      obtain ⟨fs', e, hBs, hlen⟩ := ih _ sc.tail (it + 1) (stepCur sc cur) (passes + 1)
        (log ++ [{ verdict := true, iters := it, best := cur }]) fuel h2_obs h2_best
        (by rw [hrb, harith]; exact hstop)
        (fun q hq => by rw [hrb, harith]; exact hgo (q + 1) (by omega)) (by omega)
      refine ⟨fs', ?_, ?_, ?_⟩
      · rw [nsGo_unfold toF optimum eps k fuel fs sc it cur passes log hit hcur]
        simp only [h0, if_true]
        rw [e]
        simp only [Option.some.injEq, Prod.mk.injEq, true_and]
        refine ⟨by omega, ?_⟩
        rw [List.append_assoc]
        congr 1
        conv => rhs; rw [List.range'_succ, List.map_cons, map_range'_shift]
        simp only [List.singleton_append, runningBest_zero, Nat.add_zero, h0]
        congr 1
        apply List.map_congr_left
        intro q _
        simp only [hrb, harith]
        congr 1
        omega
      · rw [hBs, hI.2.2.1, hB.2.2.1, hP.2.2.1]
        cases sc with
        | nil => simp [iterBest_nil]
        | cons s rest => simp [iterBest]
      · rw [hlen, hI.2.2.2, hB.2.2.2, hP.2.2.2]

/-! The `BestIndividual` slots of the chain the search runs on: one per scope (innermost first), then the root. -/

def slotOf {F : Type} (sh : Bool) : Option (Option F) := if sh then some none else none

theorem map_best_nsScopes (shadow : List Bool) (fs : List (NFrame F)) :
    (nsScopes shadow fs).map (fun f => f.best) = shadow.reverse.map slotOf ++ fs.map (fun f => f.best) := by
  induction shadow generalizing fs with
  | nil => rfl
  | cons sh rest ih =>
    rw [nsScopes, ih]
    simp [slotOf, NFrame.empty]

theorem firstSome_slots (xs : List Bool) (ys : List (Option (Option F))) :
    firstSome (xs.map slotOf ++ ys) = if xs.any id then some none else firstSome ys := by
  induction xs with
  | nil => rfl
  | cons x xs ih => cases x <;> simp [slotOf, firstSome, ih]

theorem updFirst_length {α : Type} (g : α → α) (xs : List (Option α)) : (updFirst g xs).length = xs.length := by
  induction xs with
  | nil => rfl
  | cons x xs ih => cases x <;> simp [updFirst, ih]

theorem iterBest_length [LT F] [DecidableLT F] (sc : List F) (d : Nat) (B : List (Option (Option F))) :
    (iterBest sc d B).length = B.length := by
  induction sc generalizing d B with
  | nil => rw [iterBest_nil]
  | cons s rest ih =>
    cases d with
    | zero => rfl
    | succ d => rw [iterBest, ih, updFirst_length]

/-- Some scope keeps its own best individual: every update stays in the scopes, the root is untouched. -/
theorem updFirst_append_found {α : Type} (g : α → α) (xs ys : List (Option α)) (h : firstSome xs ≠ none) :
    updFirst g (xs ++ ys) = updFirst g xs ++ ys ∧ firstSome (updFirst g xs) ≠ none := by
  induction xs with
  | nil => simp [firstSome] at h
  | cons x xs ih =>
    cases x with
    | some a => simp [updFirst, firstSome]
    | none =>
      simp only [firstSome] at h
      simp [updFirst, firstSome, ih h]

theorem iterBest_append_found [LT F] [DecidableLT F] (sc : List F) (d : Nat) (xs ys : List (Option (Option F)))
    (h : firstSome xs ≠ none) : iterBest sc d (xs ++ ys) = iterBest sc d xs ++ ys := by
  induction sc generalizing d xs with
  | nil => simp [iterBest_nil]
  | cons s rest ih =>
    cases d with
    | zero => rfl
    | succ d =>
      rw [iterBest, iterBest, (updFirst_append_found (upd1 s) xs ys h).1]
      exact ih d _ (updFirst_append_found (upd1 s) xs ys h).2

/-- No scope keeps one: every update reaches the root's. -/
theorem updFirst_append_none {α : Type} (g : α → α) (xs ys : List (Option α)) (h : ∀ x ∈ xs, x = none) :
    updFirst g (xs ++ ys) = xs ++ updFirst g ys := by
  induction xs with
  | nil => rfl
  | cons x xs ih =>
    have hx : x = none := h x (by simp)
    subst hx
    simp [updFirst, ih (fun y hy => h y (by simp [hy]))]

theorem iterBest_append_none [LT F] [DecidableLT F] (sc : List F) (d : Nat) (xs : List (Option (Option F))) (o : Option F)
    (h : ∀ x ∈ xs, x = none) : iterBest sc d (xs ++ [some o]) = xs ++ [some (runningBest o sc d)] := by
  induction sc generalizing d o with
  | nil => simp [iterBest_nil, runningBest_nil]
  | cons s rest ih =>
    cases d with
    | zero => rfl
    | succ d =>
      rw [iterBest, updFirst_append_none _ _ _ h]
      simp only [updFirst]
      rw [ih d (upd1 s o)]
      rfl

theorem nBest_eq_firstSome (fs : List (NFrame F)) :
    nBest fs = match firstSome (fs.map (fun f => f.best)) with
      | some (some b) => some b
      | _ => none := by
  rw [nBest, nLook_eq_firstSome]
  cases firstSome (fs.map (fun f => f.best)) with
  | none => rfl
  | some x => cases x <;> rfl

theorem slots_none_of_not_any (xs : List Bool) (h : xs.any id = false) :
    ∀ x ∈ (xs.map slotOf : List (Option (Option F))), x = none := by
  intro x hx
  simp only [List.mem_map] at hx
  obtain ⟨b, hb, rfl⟩ := hx
  have : b = false := by
    cases b with
    | false => rfl
    | true => have := List.any_eq_false.mp h true hb; simp at this
  subst this; rfl

/-- The whole run of the nested search against its state-free specification. -/
theorem nsRun_exact [OfNat F 0] [Add F] [Sub F] [Div F] [LT F] [LE F] [DecidableLT F] [DecidableLE F] [BEq F]
    (toF : Nat → F) (optimum eps : F) (k : Nat) (outer : Option F) (shadow : List Bool) (script : List F) (p fuel : Nat)
    (hstop : searchGoesOn optimum eps k (searchStart outer shadow) script p = false)
    (hgo : ∀ q, q < p → searchGoesOn optimum eps k (searchStart outer shadow) script q = true)
    (hf : p + 1 ≤ fuel) :
    nsRun toF optimum eps k outer shadow script fuel =
      some (p, (List.range' 0 (p + 1)).map (fun j =>
          { verdict := searchGoesOn optimum eps k (searchStart outer shadow) script j, iters := j,
            best := runningBest (searchStart outer shadow) script j }),
        if shadow.any id then outer else runningBest outer script p) := by
  let root : NFrame F := { (NFrame.empty : NFrame F) with best := some outer }
  let fs0 := nTop (fun f : NFrame F => { f with obs := upd f.obs 0 (some 0), prog := upd f.prog 0 (some (0 : F)) })
    (nsScopes shadow [root])
  have hne : ∃ t rest, nsScopes shadow [root] = t :: rest := by
    cases h : nsScopes shadow [root] with
    | nil =>
      have := congrArg List.length (map_best_nsScopes shadow [root])
      simp [h] at this
    | cons t rest => exact ⟨t, rest, rfl⟩
  obtain ⟨t, rest, hs⟩ := hne
  have hB0 : fs0.map (fun f => f.best) = shadow.reverse.map slotOf ++ [some outer] := by
    have := map_best_nsScopes shadow [root]
    simp only [fs0, hs, nTop] at this ⊢
    simpa using this
  have hobs : nLook (fun f => f.obs 0) fs0 = some 0 := by
    simp [fs0, hs, nTop, nLook, upd]
  have hbest : nLook (fun f => f.best) fs0 = some (searchStart outer shadow) := by
    rw [nLook_eq_firstSome, hB0, firstSome_slots, List.any_reverse]
    by_cases h : shadow.any id = true <;> simp [h, searchStart, firstSome]
  have hlen0 : fs0.length = shadow.length + 1 := by
    have := congrArg List.length hB0
    simpa using this
  obtain ⟨fs', e, hB, hlen⟩ := nsGo_least toF optimum eps k p fs0 script 0 (searchStart outer shadow) 0 [] fuel hobs hbest
    (by simpa [searchGoesOn] using hstop) (fun q hq => by simpa [searchGoesOn] using hgo q hq) hf
  have e' : nsGo toF optimum eps k fuel fs0 script 0 [] = some (fs', p, (List.range' 0 (p + 1)).map (fun j =>
      { verdict := searchGoesOn optimum eps k (searchStart outer shadow) script j, iters := j,
        best := runningBest (searchStart outer shadow) script j })) := by
    rw [e]; simp [searchGoesOn]
  show (match nsGo toF optimum eps k fuel fs0 script 0 [] with
    | none => none
    | some (fs', passes, log) => some (passes, log, nBest (fs'.drop shadow.length))) = _
  rw [e']
  simp only [Option.some.injEq, Prod.mk.injEq, true_and]
  rw [nBest_eq_firstSome, List.map_drop, hB, hB0]
  by_cases h : shadow.any id = true
  · have hf' : firstSome (shadow.reverse.map slotOf : List (Option (Option F))) ≠ none := by
      have := firstSome_slots (F := F) shadow.reverse []
      simp only [List.append_nil, List.any_reverse, h, if_true] at this
      rw [this]; simp
    rw [iterBest_append_found script p _ _ hf']
    have hl : (iterBest script p (shadow.reverse.map slotOf : List (Option (Option F)))).length = shadow.length := by
      rw [iterBest_length]; simp
    rw [List.drop_left' hl]
    cases outer <;> simp [h, firstSome]
  · have h' : shadow.any id = false := by simpa using h
    rw [iterBest_append_none script p _ outer (slots_none_of_not_any shadow.reverse (by rw [List.any_reverse]; exact h'))]
    have hl : (shadow.reverse.map slotOf : List (Option (Option F))).length = shadow.length := by simp
    rw [List.drop_left' hl]
    cases runningBest outer script p <;> simp [h', firstSome]

end search

end MahfModel.Conditions
