/- Soundness of `counterExact` (C06) and `etu` (C07) for every execution of their interpreters. -/
import MahfModel.Model.TemplatesEval
namespace MahfModel.Tpl

/-! ## counterExact -/

theorem bumpFirst_zero (cs : Counters) : bumpFirst 0 cs = cs := by
  induction cs with
  | nil => rfl
  | cons c cs ih => cases c <;> simp [bumpFirst, ih]

theorem bumpFirst_add (a b : Nat) (cs : Counters) :
    bumpFirst b (bumpFirst a cs) = bumpFirst (a + b) cs := by
  induction cs with
  | nil => rfl
  | cons c cs ih =>
    cases c with
    | none => simp [bumpFirst, ih]
    | some k => simp [bumpFirst]; omega

theorem visible_bumpFirst (n : Nat) (cs : Counters) (k : Nat) (h : visible cs = some k) :
    visible (bumpFirst n cs) = some (k + n) := by
  induction cs with
  | nil => simp [visible] at h
  | cons c cs ih =>
    cases c with
    | none => simp [visible, bumpFirst] at *; exact ih h
    | some j => simp [visible, bumpFirst] at *; omega

/-- the step made `d` objective calls and added exactly `d` to the innermost visible counter -/
def CGood (d : Nat) (s s' : CSt) : Prop :=
  s'.calls = s.calls + d ∧ s'.counters = bumpFirst d s.counters

mutual
  theorem execC_sound (o : COracle) : ∀ (fuel : Nat) (c : Comp) (s s' : CSt),
      counterExact c = true → execC o fuel c s = some s' → ∃ d, CGood d s s'
    | 0, _, _, _, _, h => by simp [execC] at h
    | fuel + 1, .leaf k, s, s', _, h => by
      simp only [execC] at h
      split at h
      · cases h
      · split at h
        · split at h
          · injection h with h; subst h
            exact ⟨o.calls s.tick, rfl, rfl⟩
          · cases h
        · injection h with h; subst h
          exact ⟨0, by simp, by simp [bumpFirst_zero]⟩
    | fuel + 1, .seq cs, s, s', hc, h => by
      simp only [counterExact] at hc
      simp only [execC] at h
      exact execsC_sound o fuel cs s s' hc h
    | fuel + 1, .loop b, s, s', hc, h => by
      simp only [counterExact] at hc
      simp only [execC] at h
      exact loopC_sound o fuel b s s' hc h
    | fuel + 1, .branch t e, s, s', hc, h => by
      simp only [counterExact, Bool.and_eq_true] at hc
      simp only [execC] at h
      split at h
      · obtain ⟨d, h1, h2⟩ := execC_sound o fuel t _ s' hc.1 h
        exact ⟨d, by simpa using h1, by simpa using h2⟩
      · obtain ⟨d, h1, h2⟩ := execC_sound o fuel e _ s' hc.2 h
        exact ⟨d, by simpa using h1, by simpa using h2⟩
    | fuel + 1, .scope b, s, s', hc, h => by
      simp only [counterExact, Bool.and_eq_true, Bool.not_eq_true'] at hc
      simp only [execC, hc.1, Bool.false_eq_true, if_false] at h
      cases h1 : execC o fuel b { s with counters := none :: s.counters } with
      | none => simp [h1] at h
      | some s1 =>
        simp only [h1] at h
        injection h with h; subst h
        obtain ⟨d, g1, g2⟩ := execC_sound o fuel b _ s1 hc.2 h1
        refine ⟨d, by simpa using g1, ?_⟩
        simp [g2, bumpFirst]
  theorem execsC_sound (o : COracle) : ∀ (fuel : Nat) (cs : Comps) (s s' : CSt),
      counterExacts cs = true → execsC o fuel cs s = some s' → ∃ d, CGood d s s'
    | 0, _, _, _, _, h => by simp [execsC] at h
    | fuel + 1, .nil, s, s', _, h => by
      simp only [execsC] at h
      injection h with h; subst h
      exact ⟨0, by simp, by simp [bumpFirst_zero]⟩
    | fuel + 1, .cons c rest, s, s', hc, h => by
      simp only [counterExacts, Bool.and_eq_true] at hc
      simp only [execsC] at h
      cases h1 : execC o fuel c s with
      | none => simp [h1] at h
      | some s1 =>
        simp only [h1] at h
        obtain ⟨d1, a1, a2⟩ := execC_sound o fuel c s s1 hc.1 h1
        obtain ⟨d2, b1, b2⟩ := execsC_sound o fuel rest s1 s' hc.2 h
        refine ⟨d1 + d2, ?_, ?_⟩
        · rw [b1, a1]; omega
        · rw [b2, a2, bumpFirst_add]
  theorem loopC_sound (o : COracle) : ∀ (fuel : Nat) (b : Comp) (s s' : CSt),
      counterExact b = true → loopC o fuel b s = some s' → ∃ d, CGood d s s'
    | 0, _, _, _, _, h => by simp [loopC] at h
    | fuel + 1, b, s, s', hc, h => by
      simp only [loopC] at h
      split at h
      · cases h1 : execC o fuel b { s with tick := s.tick + 1 } with
        | none => simp [h1] at h
        | some s1 =>
          simp only [h1] at h
          obtain ⟨d1, a1, a2⟩ := execC_sound o fuel b _ s1 hc h1
          obtain ⟨d2, b1, b2⟩ := loopC_sound o fuel b s1 s' hc h
          refine ⟨d1 + d2, ?_, ?_⟩
          · rw [b1, a1]; simp; omega
          · rw [b2, a2, bumpFirst_add]
      · injection h with h; subst h
        exact ⟨0, by simp, by simp [bumpFirst_zero]⟩
end

/-! ## evaluate-then-update -/

theorem omin_none_right (a : Option Nat) : omin a none = a := by cases a <;> rfl
theorem omin_none_left (a : Option Nat) : omin none a = a := by cases a <;> rfl

theorem omin_assoc (a b c : Option Nat) : omin (omin a b) c = omin a (omin b c) := by
  cases a <;> cases b <;> cases c <;> simp [omin, Nat.min_assoc]

/-- the visible best together with what is still pending accounts for everything seen -/
def EInv (s : ESt) : Prop := omin s.best s.pend = s.seen

def EPost (p : Bool) (s : ESt) : Prop := EInv s ∧ (p = false → s.pend = none)

mutual
  theorem execE_sound (o : EOracle) : ∀ (fuel : Nat) (sh : Bool) (c : Comp) (p p' : Bool) (s s' : ESt),
      etu sh c p = some p' → EPost p s → execE o sh fuel c s = some s' → EPost p' s'
    | 0, _, _, _, _, _, _, _, _, h => by simp [execE] at h
    | fuel + 1, sh, .leaf k, p, p', s, s', he, ⟨hi, hp⟩, h => by
      simp only [etu, etuLeaf] at he
      simp only [execE] at h
      split at h
      · cases h
      · cases hk : eclass k <;> simp only [hk] at he h
        · -- eval
          injection h with h; subst h
          injection he with he; subst he
          refine ⟨?_, by simp⟩
          simp only [EInv] at *
          rw [← omin_assoc, hi]
        · -- evalInPlace: refused by the analysis
          cases he
        · -- update
          split at he
          · rename_i hsh
            injection he with he; subst he
            simp only [hsh, if_true] at h
            injection h with h; subst h
            exact ⟨hi, hp⟩
          · rename_i hsh
            injection he with he; subst he
            simp only [hsh] at h
            injection h with h; subst h
            refine ⟨?_, fun _ => rfl⟩
            simp only [EInv] at *
            rw [omin_none_right, hi]
        · -- neutral
          injection he with he; subst he
          injection h with h; subst h
          exact ⟨hi, hp⟩
        · -- modify
          split at he
          · cases he
          · rename_i hpf
            injection he with he; subst he
            injection h with h; subst h
            have hpn := hp (by simpa using hpf)
            refine ⟨?_, fun _ => rfl⟩
            simp only [EInv] at *
            rw [hpn] at hi; exact hi
        · cases he
    | fuel + 1, sh, .seq cs, p, p', s, s', he, hpost, h => by
      simp only [etu] at he
      simp only [execE] at h
      exact execsE_sound o fuel sh cs p p' s s' he hpost h
    | fuel + 1, sh, .loop b, p, p', s, s', he, hpost, h => by
      simp only [etu] at he
      simp only [execE] at h
      cases hb : etu sh b p with
      | none => simp [hb] at he
      | some q =>
        simp only [hb] at he
        split at he
        · rename_i hq
          injection he with he; subst he; subst hq
          exact loopE_sound o fuel sh b q s s' hb hpost h
        · cases he
    | fuel + 1, sh, .branch t e, p, p', s, s', he, hpost, h => by
      simp only [etu] at he
      simp only [execE] at h
      cases ha : etu sh t p with
      | none => simp [ha] at he
      | some a =>
        cases hb : etu sh e p with
        | none => simp [ha, hb] at he
        | some b =>
          simp only [ha, hb] at he
          split at he
          · rename_i hab
            injection he with he; subst he; subst hab
            split at h
            · exact execE_sound o fuel sh t p a _ s' ha (by simpa [EPost, EInv] using hpost) h
            · exact execE_sound o fuel sh e p a _ s' hb (by simpa [EPost, EInv] using hpost) h
          · cases he
    | fuel + 1, sh, .scope b, p, p', s, s', he, hpost, h => by
      simp only [etu] at he
      simp only [execE] at h
      exact execE_sound o fuel _ b p p' s s' he hpost h
  theorem execsE_sound (o : EOracle) : ∀ (fuel : Nat) (sh : Bool) (cs : Comps) (p p' : Bool) (s s' : ESt),
      etus sh cs p = some p' → EPost p s → execsE o sh fuel cs s = some s' → EPost p' s'
    | 0, _, _, _, _, _, _, _, _, h => by simp [execsE] at h
    | fuel + 1, sh, .nil, p, p', s, s', he, hpost, h => by
      simp only [etus] at he
      simp only [execsE] at h
      injection h with h; injection he with he; subst h; subst he
      exact hpost
    | fuel + 1, sh, .cons c rest, p, p', s, s', he, hpost, h => by
      simp only [etus] at he
      simp only [execsE] at h
      cases ha : etu sh c p with
      | none => simp [ha] at he
      | some q =>
        simp only [ha] at he
        cases h1 : execE o sh fuel c s with
        | none => simp [h1] at h
        | some s1 =>
          simp only [h1] at h
          have g1 := execE_sound o fuel sh c p q s s1 ha hpost h1
          exact execsE_sound o fuel sh rest q p' s1 s' he g1 h
  theorem loopE_sound (o : EOracle) : ∀ (fuel : Nat) (sh : Bool) (b : Comp) (p : Bool) (s s' : ESt),
      etu sh b p = some p → EPost p s → loopE o sh fuel b s = some s' → EPost p s'
    | 0, _, _, _, _, _, _, _, h => by simp [loopE] at h
    | fuel + 1, sh, b, p, s, s', hb, hpost, h => by
      simp only [loopE] at h
      split at h
      · cases h1 : execE o sh fuel b { s with tick := s.tick + 1 } with
        | none => simp [h1] at h
        | some s1 =>
          simp only [h1] at h
          have g1 := execE_sound o fuel sh b p p _ s1 hb (by simpa [EPost, EInv] using hpost) h1
          exact loopE_sound o fuel sh b p s1 s' hb g1 h
      · injection h with h; subst h
        simpa [EPost, EInv] using hpost
end

end MahfModel.Tpl
