/- C02, second layer of helper lemmas: requests through `parent()`, value accessors next to live guards. -/
import MahfModel.Proofs.C02
namespace MahfModel.Borrow
open MahfModel.Registry

/-! ### requests through `parent()^d` -/

theorem parentN_lt (r : Reg) (d : Nat) (h : d < r.length) : parentN r d = some (r.drop d) := by
  simp [parentN, h]

theorem parentN_ge (r : Reg) (d : Nat) (h : ¬ d < r.length) : parentN r d = none := by
  simp [parentN, h]

theorem writer_of_flag (m : M) (h : FlagInv m) (i : Nat) (k : Key) (c : Cell) (hc : cellAt m.reg i k = some c) :
    (c.writer = true ↔ exclOn m.guards i k ≠ 0) ∧ c.readers = sharedOn m.guards i k := by
  obtain ⟨p1, p2, p3, _⟩ := h.present i k c hc
  refine ⟨⟨fun hw => by have := p2.mp hw; omega, fun hx => p2.mpr (by omega)⟩, p1⟩

theorem parBor_spec (m : M) (h : FlagInv m) (d : Nat) (k : Key) :
    (¬ d < m.reg.length → mstep m (.parBor d k) = (m, [.noParent])) ∧
    (d < m.reg.length → find (m.reg.drop d) k = none → mstep m (.parBor d k) = (m, [.err .notFound])) ∧
    (∀ i, d < m.reg.length → find (m.reg.drop d) k = some i → exclOn m.guards (d + i) k ≠ 0 →
      mstep m (.parBor d k) = (m, [.err .conflictImm])) ∧
    (∀ i, d < m.reg.length → find (m.reg.drop d) k = some i → exclOn m.guards (d + i) k = 0 →
      ∃ r', mstep m (.parBor d k) =
        ({ reg := r', guards := ⟨m.next, d + i, k, false⟩ :: m.guards, next := m.next + 1 }, [.guard m.next])) := by
  refine ⟨?_, ?_, ?_, ?_⟩
  · intro hd; simp [mstep, borrowAt, parentN_ge _ _ hd]
  · intro hd hf; simp [mstep, borrowAt, parentN_lt _ _ hd, tryBorrow, hf]
  · intro i hd hf hx
    obtain ⟨c, hc⟩ := find_cell (m.reg.drop d) k i hf
    have hc' := hc; rw [cellAt_drop] at hc'
    have hw : c.writer = true := (writer_of_flag m h _ _ c hc').1.mpr hx
    simp [mstep, borrowAt, parentN_lt _ _ hd, tryBorrow, hf, hc, Cell.tryBorrow, hw]
  · intro i hd hf hx
    obtain ⟨c, hc⟩ := find_cell (m.reg.drop d) k i hf
    have hc' := hc; rw [cellAt_drop] at hc'
    have hw : c.writer = false := by
      cases hw : c.writer with
      | false => rfl
      | true => exact absurd hx ((writer_of_flag m h _ _ c hc').1.mp hw)
    refine ⟨m.reg.take d ++ modifyAt (m.reg.drop d) i (·.modify k (fun _ => { c with readers := c.readers + 1 })), ?_⟩
    simp [mstep, borrowAt, parentN_lt _ _ hd, tryBorrow, hf, hc, Cell.tryBorrow, hw, grant]

theorem parBorMut_spec (m : M) (h : FlagInv m) (d : Nat) (k : Key) :
    (¬ d < m.reg.length → mstep m (.parBorMut d k) = (m, [.noParent])) ∧
    (d < m.reg.length → find (m.reg.drop d) k = none → mstep m (.parBorMut d k) = (m, [.err .notFound])) ∧
    (∀ i, d < m.reg.length → find (m.reg.drop d) k = some i →
      exclOn m.guards (d + i) k + sharedOn m.guards (d + i) k ≠ 0 →
      mstep m (.parBorMut d k) = (m, [.err .conflictMut])) ∧
    (∀ i, d < m.reg.length → find (m.reg.drop d) k = some i →
      exclOn m.guards (d + i) k + sharedOn m.guards (d + i) k = 0 →
      ∃ r', mstep m (.parBorMut d k) =
        ({ reg := r', guards := ⟨m.next, d + i, k, true⟩ :: m.guards, next := m.next + 1 }, [.guard m.next])) := by
  refine ⟨?_, ?_, ?_, ?_⟩
  · intro hd; simp [mstep, borrowAt, parentN_ge _ _ hd]
  · intro hd hf; simp [mstep, borrowAt, parentN_lt _ _ hd, tryBorrowMut, hf]
  · intro i hd hf hx
    obtain ⟨c, hc⟩ := find_cell (m.reg.drop d) k i hf
    have hc' := hc; rw [cellAt_drop] at hc'
    obtain ⟨w1, w2⟩ := writer_of_flag m h _ _ c hc'
    have hb : (c.writer || c.readers != 0) = true := by
      by_cases he : exclOn m.guards (d + i) k = 0
      · have : c.readers ≠ 0 := by omega
        simp [this]
      · simp [w1.mpr he]
    simp [mstep, borrowAt, parentN_lt _ _ hd, tryBorrowMut, hf, hc, Cell.tryBorrowMut, hb]
  · intro i hd hf hx
    obtain ⟨c, hc⟩ := find_cell (m.reg.drop d) k i hf
    have hc' := hc; rw [cellAt_drop] at hc'
    obtain ⟨w1, w2⟩ := writer_of_flag m h _ _ c hc'
    have hw : c.writer = false := by
      cases hw : c.writer with
      | false => rfl
      | true => have := w1.mp hw; omega
    have hr : c.readers = 0 := by omega
    refine ⟨m.reg.take d ++ modifyAt (m.reg.drop d) i (·.modify k (fun _ => { c with writer := true })), ?_⟩
    simp [mstep, borrowAt, parentN_lt _ _ hd, tryBorrowMut, hf, hc, Cell.tryBorrowMut, hw, hr, grant]

theorem not_granted_err (e : Err) : ¬ granted [Out.err e] := by rintro ⟨id, h⟩; cases h
theorem not_granted_noParent : ¬ granted [Out.noParent] := by rintro ⟨id, h⟩; cases h

theorem grant_iff_parent' (m : M) (h : FlagInv m) (d : Nat) (k : Key) :
    (granted (mstep m (.parBor d k)).2 ↔
      d < m.reg.length ∧ ∃ i, find (m.reg.drop d) k = some i ∧ exclOn m.guards (d + i) k = 0) ∧
    (granted (mstep m (.parBorMut d k)).2 ↔
      d < m.reg.length ∧ ∃ i, find (m.reg.drop d) k = some i ∧ exclOn m.guards (d + i) k = 0 ∧
        sharedOn m.guards (d + i) k = 0) := by
  obtain ⟨a0, a1, a2, a3⟩ := parBor_spec m h d k
  obtain ⟨b0, b1, b2, b3⟩ := parBorMut_spec m h d k
  constructor
  · constructor
    · intro hg
      by_cases hd : d < m.reg.length
      · cases hf : find (m.reg.drop d) k with
        | none => rw [a1 hd hf] at hg; exact absurd hg (not_granted_err _)
        | some i =>
          by_cases hx : exclOn m.guards (d + i) k = 0
          · exact ⟨hd, i, rfl, hx⟩
          · rw [a2 i hd hf hx] at hg; exact absurd hg (not_granted_err _)
      · rw [a0 hd] at hg; exact absurd hg not_granted_noParent
    · rintro ⟨hd, i, hf, hx⟩
      obtain ⟨r', hr'⟩ := a3 i hd hf hx
      rw [hr']; exact ⟨_, rfl⟩
  · constructor
    · intro hg
      by_cases hd : d < m.reg.length
      · cases hf : find (m.reg.drop d) k with
        | none => rw [b1 hd hf] at hg; exact absurd hg (not_granted_err _)
        | some i =>
          by_cases hx : exclOn m.guards (d + i) k + sharedOn m.guards (d + i) k = 0
          · exact ⟨hd, i, rfl, by omega, by omega⟩
          · rw [b2 i hd hf hx] at hg; exact absurd hg (not_granted_err _)
      · rw [b0 hd] at hg; exact absurd hg not_granted_noParent
    · rintro ⟨hd, i, hf, hx, hs⟩
      obtain ⟨r', hr'⟩ := b3 i hd hf (by omega)
      rw [hr']; exact ⟨_, rfl⟩

theorem refused_parent' (m : M) (h : FlagInv m) (d : Nat) (k : Key) :
    (¬ granted (mstep m (.parBor d k)).2 → (mstep m (.parBor d k)).1 = m ∧
      (((mstep m (.parBor d k)).2 = [.noParent] ∧ ¬ d < m.reg.length) ∨
       ((mstep m (.parBor d k)).2 = [.err .notFound] ∧ find (m.reg.drop d) k = none) ∨
       ((mstep m (.parBor d k)).2 = [.err .conflictImm] ∧
          ∃ i, find (m.reg.drop d) k = some i ∧ exclOn m.guards (d + i) k = 1))) ∧
    (¬ granted (mstep m (.parBorMut d k)).2 → (mstep m (.parBorMut d k)).1 = m ∧
      (((mstep m (.parBorMut d k)).2 = [.noParent] ∧ ¬ d < m.reg.length) ∨
       ((mstep m (.parBorMut d k)).2 = [.err .notFound] ∧ find (m.reg.drop d) k = none) ∨
       ((mstep m (.parBorMut d k)).2 = [.err .conflictMut] ∧
          ∃ i, find (m.reg.drop d) k = some i ∧
            0 < exclOn m.guards (d + i) k + sharedOn m.guards (d + i) k))) := by
  obtain ⟨a0, a1, a2, a3⟩ := parBor_spec m h d k
  obtain ⟨b0, b1, b2, b3⟩ := parBorMut_spec m h d k
  constructor
  · intro hg
    by_cases hd : d < m.reg.length
    · cases hf : find (m.reg.drop d) k with
      | none => rw [a1 hd hf]; exact ⟨rfl, Or.inr (Or.inl ⟨rfl, rfl⟩)⟩
      | some i =>
        by_cases hx : exclOn m.guards (d + i) k = 0
        · obtain ⟨r', hr'⟩ := a3 i hd hf hx
          rw [hr'] at hg; exact absurd ⟨_, rfl⟩ hg
        · rw [a2 i hd hf hx]
          obtain ⟨c, hc⟩ := find_cell (m.reg.drop d) k i hf
          rw [cellAt_drop] at hc
          have := (h.present _ _ c hc).2.2.1
          exact ⟨rfl, Or.inr (Or.inr ⟨rfl, i, rfl, by omega⟩)⟩
    · rw [a0 hd]; exact ⟨rfl, Or.inl ⟨rfl, hd⟩⟩
  · intro hg
    by_cases hd : d < m.reg.length
    · cases hf : find (m.reg.drop d) k with
      | none => rw [b1 hd hf]; exact ⟨rfl, Or.inr (Or.inl ⟨rfl, rfl⟩)⟩
      | some i =>
        by_cases hx : exclOn m.guards (d + i) k + sharedOn m.guards (d + i) k = 0
        · obtain ⟨r', hr'⟩ := b3 i hd hf hx
          rw [hr'] at hg; exact absurd ⟨_, rfl⟩ hg
        · rw [b2 i hd hf hx]
          exact ⟨rfl, Or.inr (Or.inr ⟨rfl, i, rfl, by omega⟩)⟩
    · rw [b0 hd]; exact ⟨rfl, Or.inl ⟨rfl, hd⟩⟩

/-! ### value accessors next to live guards -/

theorem tryGetValue_cell (r : Reg) (k : Key) (i : Nat) (c : Cell) (hf : find r k = some i)
    (hc : cellAt r i k = some c) :
    tryGetValue r k = if c.writer then .error .conflictImm else .ok c.val := by
  have hi := find_lt r k i hf
  have hc' := hc; simp only [cellAt] at hc'
  unfold tryGetValue tryBorrow
  simp only [hf, hc, Cell.tryBorrow]
  cases hw : c.writer with
  | true => rfl
  | false =>
    have : cellAt (modifyAt r i (·.modify k (fun _ => { c with readers := c.readers + 1 }))) i k
        = some { c with readers := c.readers + 1 } := by
      rw [cellAt_modifyAt r i _ k hi, Scope.get?_modify]; simp [hc']
    rw [hw] at this
    simp [this]

theorem setValue_cell (r : Reg) (k : Key) (v : Nat) (i : Nat) (c : Cell) (hf : find r k = some i)
    (hc : cellAt r i k = some c) :
    setValue r k v = if c.writer || c.readers != 0 then (r, none)
      else (modifyAt r i (·.modify k (fun c => { c with val := v })), some c.val) := by
  have hi := find_lt r k i hf
  have hc' := hc; simp only [cellAt] at hc'
  unfold setValue tryBorrowMut
  simp only [hf, hc, Cell.tryBorrowMut]
  cases hb : (c.writer || c.readers != 0) with
  | true => rfl
  | false =>
    have hw : c.writer = false := by cases hw : c.writer <;> simp_all
    have : cellAt (modifyAt r i (·.modify k (fun _ => { c with writer := true }))) i k
        = some { c with writer := true } := by
      rw [cellAt_modifyAt r i _ k hi, Scope.get?_modify]; simp [hc']
    simp only [Bool.false_eq_true, if_false, this, releaseAt, modifyAt_modifyAt, Scope.modify_modify]
    congr 1
    apply modifyAt_congr r i _ _ []
    apply Scope.modify_congr
    intro c0 h0
    have h1 : (scopeAt r i).get? k = some c0 := h0
    rw [hc'] at h1
    cases h1
    simp [Cell.release, hw]

theorem value_access' (m : M) (h : FlagInv m) (k : Key) (v : Nat) (i : Nat) (c : Cell)
    (hf : find m.reg k = some i) (hc : cellAt m.reg i k = some c) :
    mstep m (.sh (.tryGet k)) = (m, [if exclOn m.guards i k = 0 then .val c.val else .err .conflictImm]) ∧
    mstep m (.sh (.get k)) = (m, [if exclOn m.guards i k = 0 then .val c.val else .panic]) ∧
    (exclOn m.guards i k + sharedOn m.guards i k ≠ 0 → mstep m (.sh (.set k v)) = (m, [.none])) ∧
    (exclOn m.guards i k + sharedOn m.guards i k = 0 →
      mstep m (.sh (.set k v)) = ({ m with reg := writeAt m.reg i k (fun _ => v) }, [.val c.val])) := by
  obtain ⟨w1, w2⟩ := writer_of_flag m h i k c hc
  have hg := tryGetValue_cell m.reg k i c hf hc
  have hs := setValue_cell m.reg k v i c hf hc
  refine ⟨?_, ?_, ?_, ?_⟩
  · simp only [mstep, ROp.isShared, if_true, step, hg]
    by_cases hx : exclOn m.guards i k = 0
    · have hw : c.writer = false := by
        cases hw : c.writer with
        | false => rfl
        | true => exact absurd hx (w1.mp hw)
      simp [hx, hw, Out.ofRes]
    · simp [hx, w1.mpr hx, Out.ofRes]
  · simp only [mstep, ROp.isShared, if_true, step, hg]
    by_cases hx : exclOn m.guards i k = 0
    · have hw : c.writer = false := by
        cases hw : c.writer with
        | false => rfl
        | true => exact absurd hx (w1.mp hw)
      simp [hx, hw, Out.orPanic]
    · simp [hx, w1.mpr hx, Out.orPanic]
  · intro hx
    have hb : (c.writer || c.readers != 0) = true := by
      by_cases he : exclOn m.guards i k = 0
      · have : c.readers ≠ 0 := by omega
        simp [this]
      · simp [w1.mpr he]
    simp [mstep, ROp.isShared, step, hs, hb, Out.ofOpt]
  · intro hx
    have hw : c.writer = false := by
      cases hw : c.writer with
      | false => rfl
      | true => have := w1.mp hw; omega
    have hr : c.readers = 0 := by omega
    simp [mstep, ROp.isShared, step, hs, hw, hr, Out.ofOpt, writeAt]

theorem value_access_absent' (m : M) (k : Key) (v : Nat) (hf : find m.reg k = none) :
    mstep m (.sh (.tryGet k)) = (m, [.err .notFound]) ∧ mstep m (.sh (.get k)) = (m, [.panic]) ∧
    mstep m (.sh (.set k v)) = (m, [.none]) := by
  refine ⟨?_, ?_, ?_⟩ <;>
    simp [mstep, ROp.isShared, step, tryGetValue, setValue, tryBorrow, tryBorrowMut, hf, Out.ofRes, Out.orPanic,
      Out.ofOpt]

theorem value_access_parent' (m : M) (h : FlagInv m) (d : Nat) (k : Key) (i : Nat) (c : Cell)
    (hd : d < m.reg.length) (hf : find (m.reg.drop d) k = some i) (hc : cellAt m.reg (d + i) k = some c) :
    mstep m (.sh (.parGet d k)) =
      (m, [if exclOn m.guards (d + i) k = 0 then .val c.val else .err .conflictImm]) := by
  obtain ⟨w1, w2⟩ := writer_of_flag m h (d + i) k c hc
  have hc' : cellAt (m.reg.drop d) i k = some c := by rw [cellAt_drop]; exact hc
  have hg := tryGetValue_cell (m.reg.drop d) k i c hf hc'
  simp only [mstep, ROp.isShared, if_true, step, parentN_lt _ _ hd, hg]
  by_cases hx : exclOn m.guards (d + i) k = 0
  · have hw : c.writer = false := by
      cases hw : c.writer with
      | false => rfl
      | true => exact absurd hx (w1.mp hw)
    simp [hx, hw, Out.ofRes]
  · simp [hx, w1.mpr hx, Out.ofRes]

/-- After a write through an exclusive guard and any non-writing requests, the value accessors read it. -/
theorem write_then_value_read' (m : M) (h : FlagInv m) (gd : Guard) (hmem : gd ∈ m.guards) (hex : gd.excl = true)
    (v : Nat) (ops : List MOp) (hops : ∀ o ∈ ops, nonWriting o = true)
    (hfind : find (mrun (mstep m (.wr gd.id v)).1 ops).1.reg gd.key = some gd.idx)
    (hfree : exclOn (mrun (mstep m (.wr gd.id v)).1 ops).1.guards gd.idx gd.key = 0) :
    (mstep (mrun (mstep m (.wr gd.id v)).1 ops).1 (.sh (.tryGet gd.key))).2 = [.val v] ∧
    (mstep (mrun (mstep m (.wr gd.id v)).1 ops).1 (.sh (.get gd.key))).2 = [.val v] := by
  have hfg := findGuard_mem m.guards gd hmem h.nd
  obtain ⟨c, hc⟩ := h.guard_cell m gd hmem
  have hi := cellAt_lt m.reg gd.idx gd.key c hc
  have h1 : FlagInv (mstep m (.wr gd.id v)).1 := mstep_inv m _ h
  have h2 := mrun_inv _ ops h1
  have habs : abs (mrun (mstep m (.wr gd.id v)).1 ops).1.reg =
      modifyAt (abs m.reg) gd.idx (fun mp : PMap => mp.set gd.key (some v)) := by
    rw [nonWriting_run_abs _ ops hops]
    simp only [mstep, hfg, hex, if_true]
    exact abs_writeAt_cell m.reg gd.idx gd.key v c hc
  have hv := view_scopeAt (mrun (mstep m (.wr gd.id v)).1 ops).1.reg gd.idx gd.key
  rw [habs, getD_modifyAt _ gd.idx gd.idx _ _ (by simpa using hi)] at hv
  simp only [if_true, PMap.set] at hv
  generalize (mrun (mstep m (.wr gd.id v)).1 ops).1 = m2 at *
  obtain ⟨c2, hc2⟩ := find_cell m2.reg gd.key gd.idx hfind
  simp [hc2] at hv
  obtain ⟨a1, a2, _, _⟩ := value_access' m2 h2 gd.key 0 gd.idx c2 hfind hc2
  rw [a1, a2]
  simp [hfree, hv]

/-! ### a panic only from the explicitly panicking accessors -/

def isPanicOut : Out → Bool
  | .panic => true
  | _ => false

/-- The requests that are NOT explicitly panicking accessors: everything a client can issue through `&State`
except `borrow`, `borrow_mut`, `get_value` (and `&mut` statements, which are C01/C03 matter). -/
def fallible : MOp → Bool
  | .borP _ | .borMutP _ | .ex _ => false
  | .sh (.get _) => false
  | _ => true

theorem ofRes_noPanic (x : Except Err Nat) : isPanicOut (Out.ofRes x) = false := by cases x <;> rfl
theorem ofOpt_noPanic (x : Option Nat) : isPanicOut (Out.ofOpt x) = false := by cases x <;> rfl

theorem no_panic_from_fallible' (m : M) (op : MOp) (hop : fallible op = true) :
    ∀ o ∈ (mstep m op).2, isPanicOut o = false := by
  cases op with
  | bor k => simp only [mstep]; split <;> simp [grant, isPanicOut]
  | borMut k => simp only [mstep]; split <;> simp [grant, isPanicOut]
  | borP k => simp [fallible] at hop
  | borMutP k => simp [fallible] at hop
  | parBor d k => simp only [mstep]; split <;> simp [grant, isPanicOut]
  | parBorMut d k => simp only [mstep]; split <;> simp [grant, isPanicOut]
  | drop g => simp only [mstep]; split <;> simp [isPanicOut]
  | rd g =>
    simp only [mstep]; split
    · simp [isPanicOut]
    · simp only [List.mem_singleton, forall_eq]; split <;> rfl
  | wr g v =>
    simp only [mstep]; split
    · simp [isPanicOut]
    · split <;> simp [isPanicOut]
  | ex s => simp [fallible] at hop
  | locks => simp [mstep, isPanicOut]
  | sh o =>
    simp only [mstep]
    split
    · rename_i hs
      cases o <;> simp [ROp.isShared] at hs <;> simp [fallible] at hop <;>
        simp only [step, List.mem_singleton, forall_eq]
      all_goals first
        | rfl
        | exact ofRes_noPanic _
        | exact ofOpt_noPanic _
        | (split <;> first | rfl | exact ofRes_noPanic _ | exact ofOpt_noPanic _)
    · simp [isPanicOut]

end MahfModel.Borrow
