/- Soundness of the stack-effect analysis for every execution of the abstract interpreter. -/
import MahfModel.Model.Templates
namespace MahfModel.Tpl

/-- What the analysis promises about one terminating execution. -/
def Good (k : Int) (s s' : St) : Prop :=
  s'.height = s.height + k ∧ (s.passesBalanced = true → s'.passesBalanced = true)

mutual
  theorem exec_sound (o : Oracle) : ∀ (fuel : Nat) (c : Comp) (s s' : St) (k : Int),
      effect c = some k → exec o fuel c s = some s' → Good k s s'
    | 0, _, _, _, _, _, h => by simp [exec] at h
    | fuel + 1, .leaf kind, s, s', k, he, h => by
      simp only [effect] at he
      simp only [exec] at h
      split at h
      · cases h
      · injection h with h
        subst h
        simp [Good, he]
    | fuel + 1, .seq cs, s, s', k, he, h => by
      simp only [effect] at he
      simp only [exec] at h
      exact execs_sound o fuel cs s s' k he h
    | fuel + 1, .loop b, s, s', k, he, h => by
      simp only [effect] at he
      simp only [exec] at h
      split at he
      · rename_i hb
        have hk : (0 : Int) = k := Option.some.inj he
        subst hk
        have := loop_sound o fuel b s s' hb h
        simpa [Good] using this
      · cases he
    | fuel + 1, .branch t e, s, s', k, he, h => by
      simp only [effect] at he
      simp only [exec] at h
      cases ha : effect t with
      | none => simp [ha] at he
      | some a =>
        cases hb : effect e with
        | none => simp [ha, hb] at he
        | some b =>
          simp only [ha, hb] at he
          split at he
          · rename_i hab
            have hk : a = k := Option.some.inj he
            subst hk
            split at h
            · have := exec_sound o fuel t _ s' a ha h
              simpa [Good] using this
            · have := exec_sound o fuel e _ s' b hb h
              subst hab
              simpa [Good] using this
          · cases he
    | fuel + 1, .scope b, s, s', k, he, h => by
      simp only [effect] at he
      simp only [exec] at h
      exact exec_sound o fuel b s s' k he h
  theorem execs_sound (o : Oracle) : ∀ (fuel : Nat) (cs : Comps) (s s' : St) (k : Int),
      effects cs = some k → execs o fuel cs s = some s' → Good k s s'
    | 0, _, _, _, _, _, h => by simp [execs] at h
    | fuel + 1, .nil, s, s', k, he, h => by
      simp only [effects] at he
      simp only [execs] at h
      injection h with h; injection he with he
      subst h; subst he
      simp [Good]
    | fuel + 1, .cons c rest, s, s', k, he, h => by
      simp only [effects] at he
      simp only [execs] at h
      cases ha : effect c with
      | none => simp [ha] at he
      | some a =>
        cases hb : effects rest with
        | none => simp [ha, hb] at he
        | some b =>
          simp only [ha, hb] at he
          have hk : a + b = k := Option.some.inj he
          subst hk
          cases h1 : exec o fuel c s with
          | none => simp [h1] at h
          | some s1 =>
            simp only [h1] at h
            have g1 := exec_sound o fuel c s s1 a ha h1
            have g2 := execs_sound o fuel rest s1 s' b hb h
            refine ⟨?_, fun hp => g2.2 (g1.2 hp)⟩
            rw [g2.1, g1.1]; omega
  theorem loop_sound (o : Oracle) : ∀ (fuel : Nat) (b : Comp) (s s' : St),
      effect b = some 0 → loopGo o fuel b s = some s' → Good 0 s s'
    | 0, _, _, _, _, h => by simp [loopGo] at h
    | fuel + 1, b, s, s', hb, h => by
      simp only [loopGo] at h
      split at h
      · cases h1 : exec o fuel b { s with tick := s.tick + 1 } with
        | none => simp [h1] at h
        | some s1 =>
          simp only [h1] at h
          have g1 := exec_sound o fuel b _ s1 0 hb h1
          have g2 := loop_sound o fuel b _ s' hb h
          have hh : s1.height = s.height := by simpa using g1.1
          refine ⟨?_, fun hp => g2.2 ?_⟩
          · have := g2.1; simp at this; rw [this, hh]; simp
          · have := g1.2 hp
            simp [this, hh]
      · injection h with h
        subst h
        simp [Good]
end

end MahfModel.Tpl
