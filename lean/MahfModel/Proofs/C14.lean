/- Helper lemmas for C14 (boundary repair and initialisation), exact arithmetic. -/
import MahfModel.Model.Boundary
import Mathlib.Algebra.Order.Field.Basic
import Mathlib.Algebra.Order.Floor.Ring
import Mathlib.Algebra.Order.Floor.Semiring
import Mathlib.Data.List.Perm.Basic
import Mathlib.Tactic.Ring
import Mathlib.Tactic.Linarith
namespace MahfModel.Boundary

section
variable {F : Type} [Field F] [LinearOrder F] [IsStrictOrderedRing F]

theorem absF_eq (x : F) : absF x = |x| := by
  unfold absF
  split
  · rename_i h; rw [abs_of_neg h]; ring
  · rename_i h; rw [abs_of_nonneg (not_lt.mp h)]

/-! ### Saturation -/

theorem clamp_spec (x a b : F) (hab : a ≤ b) : ∃ y, clamp x a b = some y ∧ a ≤ y ∧ y ≤ b ∧
    (a ≤ x → x ≤ b → y = x) := by
  unfold clamp
  simp only [hab, if_true]
  refine ⟨_, rfl, ?_, ?_, ?_⟩
  · split <;> split <;> first | exact hab | exact le_refl _ | (rename_i h1 h2; exact not_lt.mp h1)
  · split <;> split <;> first | exact hab | exact le_refl _ | (rename_i h1 h2; exact not_lt.mp h2)
  · intro h1 h2
    have : ¬ x < a := not_lt.mpr h1
    simp only [this, if_false]
    have : ¬ x > b := not_lt.mpr h2
    simp [this]

/-! ### Mirror -/

/-- Distance to the closed interval `[a, b]`. -/
def excess (a b x : F) : F := max (max (a - x) (x - b)) 0

theorem excess_nonneg (a b x : F) : 0 ≤ excess a b x := le_max_right _ _

theorem excess_zero_iff (a b x : F) : excess a b x = 0 ↔ a ≤ x ∧ x ≤ b := by
  unfold excess
  constructor
  · intro h
    have h1 : max (a - x) (x - b) ≤ 0 := by
      have := le_max_left (max (a - x) (x - b)) 0; rw [h] at this; exact this
    have h2 := le_trans (le_max_left _ _) h1
    have h3 := le_trans (le_max_right _ _) h1
    constructor <;> linarith
  · intro ⟨h1, h2⟩
    apply max_eq_right
    apply max_le <;> linarith

theorem max3_drop {F : Type} [LinearOrder F] [Zero F] (u v : F) (hu : u ≤ 0) : max (max u v) 0 = max v 0 := by
  rw [max_comm u v, max_assoc, max_eq_right hu]

theorem excess_step (a b x : F) (hab : a < b) :
    excess a b (mirrorStep a b x) = max (excess a b x - (b - a)) 0 := by
  unfold mirrorStep excess
  by_cases h1 : x < a
  · simp only [h1, if_true]
    have e1 : max (max (a - (a + (a - x))) (a + (a - x) - b)) 0 = max (a + (a - x) - b) 0 :=
      max3_drop _ _ (by linarith)
    have e2 : max (max (a - x) (x - b)) 0 = a - x := by
      rw [max_eq_left (by linarith : x - b ≤ a - x), max_eq_left (by linarith)]
    rw [e1, e2]; congr 1; ring
  · simp only [h1, if_false]
    by_cases h2 : x > b
    · simp only [h2, if_true]
      have e1 : max (max (a - (b - (x - b))) (b - (x - b) - b)) 0 = max (a - (b - (x - b))) 0 := by
        rw [max_comm (a - (b - (x - b)))]; exact max3_drop _ _ (by linarith)
      have e2 : max (max (a - x) (x - b)) 0 = x - b := by
        have : a - x ≤ x - b := by linarith
        rw [max_eq_right this, max_eq_left (by linarith)]
      rw [e1, e2]; congr 1; ring
    · simp only [h2, if_false]
      have hx1 : a ≤ x := not_lt.mp h1
      have hx2 : x ≤ b := not_lt.mp h2
      have e2 : max (max (a - x) (x - b)) 0 = 0 := by
        apply max_eq_right; apply max_le <;> linarith
      rw [e2]
      symm; apply max_eq_right; linarith

theorem excess_iter (a b : F) (hab : a < b) (n : Nat) : ∀ x,
    excess a b (mirrorIter a b n x) = max (excess a b x - n * (b - a)) 0 := by
  induction n with
  | zero => intro x; simp [mirrorIter, excess_nonneg]
  | succ n ih =>
    intro x
    simp only [mirrorIter]
    rw [ih, excess_step a b x hab]
    have hd : 0 < b - a := by linarith
    have hn : (0 : F) ≤ n := Nat.cast_nonneg n
    push_cast
    rcases le_total (excess a b x - (b - a)) 0 with h | h
    · rw [max_eq_right h]
      have : excess a b x - (↑n + 1) * (b - a) ≤ 0 := by nlinarith
      rw [max_eq_right this]
      apply max_eq_right
      have : 0 ≤ ↑n * (b - a) := mul_nonneg hn hd.le
      linarith
    · rw [max_eq_left h]
      congr 1; ring

theorem excess_le_abs (a b x : F) (hab : a < b) : excess a b x ≤ |x - a| := by
  unfold excess
  apply max_le
  · apply max_le
    · rw [← abs_neg]; have : -(x - a) = a - x := by ring
      rw [this]; exact le_abs_self _
    · have : x - b ≤ x - a := by linarith
      exact le_trans this (le_abs_self _)
  · exact abs_nonneg _

theorem mirrorLoop_eq_iter (a b : F) : ∀ (fuel : Nat) (x y : F), mirrorLoop a b fuel x = some y →
    ∃ k, k ≤ fuel ∧ y = mirrorIter a b k x ∧ a ≤ y ∧ y ≤ b := by
  intro fuel
  induction fuel with
  | zero =>
    intro x y h
    simp only [mirrorLoop] at h
    split at h
    · cases h
    · rename_i hin
      injection h with h; subst h
      have hin' := not_or.mp hin
      exact ⟨0, le_refl _, rfl, not_lt.mp hin'.1, not_lt.mp hin'.2⟩
  | succ f ih =>
    intro x y h
    simp only [mirrorLoop] at h
    split at h
    · obtain ⟨k, hk, e, hb⟩ := ih _ _ h
      exact ⟨k + 1, by omega, by simpa [mirrorIter] using e, hb⟩
    · rename_i hin
      injection h with h; subst h
      have hin' := not_or.mp hin
      exact ⟨0, by omega, rfl, not_lt.mp hin'.1, not_lt.mp hin'.2⟩

theorem mirrorLoop_inside (a b : F) (fuel : Nat) (x : F) (h1 : a ≤ x) (h2 : x ≤ b) :
    mirrorLoop a b fuel x = some x := by
  have : ¬ (x < a ∨ x > b) := not_or.mpr ⟨not_lt.mpr h1, not_lt.mpr h2⟩
  cases fuel <;> simp [mirrorLoop, this]

theorem mirrorLoop_of_iter (a b : F) : ∀ (n fuel : Nat) (x : F), n ≤ fuel →
    a ≤ mirrorIter a b n x → mirrorIter a b n x ≤ b →
    ∃ y, mirrorLoop a b fuel x = some y := by
  intro n
  induction n with
  | zero =>
    intro fuel x _ h1 h2
    exact ⟨x, mirrorLoop_inside a b fuel x h1 h2⟩
  | succ n ih =>
    intro fuel x hf h1 h2
    cases fuel with
    | zero => omega
    | succ f =>
      simp only [mirrorLoop]
      split
      · exact ih f _ (by omega) h1 h2
      · exact ⟨x, rfl⟩

/-! ### Mirror: the fold before the loop (`rem_euclid`) and the closed form of the reflection -/

/-- Whatever `rem` does: a coordinate within one width of the domain is not folded. -/
theorem mirrorFold_near (rem : F → F → F) (a b x : F) (h1 : a - (b - a) ≤ x) (h2 : x ≤ b + (b - a)) :
    mirrorFold rem a b x = x := by
  unfold mirrorFold
  simp [not_lt.mpr h1, not_lt.mpr h2]

/-- One pass suffices for a value within one width of the domain. -/
theorem mirrorIter_one_of_near (a b x : F) (h1 : a - (b - a) ≤ x) (h2 : x ≤ b + (b - a)) :
    ∃ n, n ≤ 1 ∧ a ≤ mirrorIter a b n x ∧ mirrorIter a b n x ≤ b := by
  by_cases hlo : x < a
  · refine ⟨1, le_refl _, ?_⟩
    simp only [mirrorIter, mirrorStep, hlo, if_true]
    constructor <;> linarith
  · by_cases hhi : x > b
    · refine ⟨1, le_refl _, ?_⟩
      simp only [mirrorIter, mirrorStep, hlo, hhi, if_true, if_false]
      constructor <;> linarith
    · exact ⟨0, by omega, not_lt.mp hlo, not_lt.mp hhi⟩

section Floor
variable [FloorRing F]

/-- `f64::rem_euclid(x, m)` in exact arithmetic (for `m > 0`): `x − m·⌊x / m⌋`. -/
def remE (x m : F) : F := x - m * (⌊x / m⌋ : F)

theorem remE_repr (x m : F) : x = remE x m + (⌊x / m⌋ : F) * m := by unfold remE; ring

theorem remE_nonneg (x m : F) (hm : 0 < m) : 0 ≤ remE x m := by
  unfold remE
  have h := Int.floor_le (x / m)
  have h2 : m * (⌊x / m⌋ : F) ≤ m * (x / m) := mul_le_mul_of_nonneg_left h hm.le
  rw [mul_div_cancel₀ _ hm.ne'] at h2
  linarith

theorem remE_lt (x m : F) (hm : 0 < m) : remE x m < m := by
  unfold remE
  have h := Int.lt_floor_add_one (x / m)
  have h2 : m * (x / m) < m * ((⌊x / m⌋ : F) + 1) := mul_lt_mul_of_pos_left h hm
  rw [mul_div_cancel₀ _ hm.ne'] at h2
  linarith

/-- The Euclidean remainder is unique: `x = r + k·m` with `0 ≤ r < m` forces `remE x m = r`. -/
theorem remE_unique (x m r : F) (k : ℤ) (hm : 0 < m) (h0 : 0 ≤ r) (h1 : r < m) (hx : x = r + k * m) :
    remE x m = r := by
  have hf : ⌊x / m⌋ = k := by
    rw [Int.floor_eq_iff]
    constructor
    · rw [le_div_iff₀ hm, hx]; linarith
    · rw [div_lt_iff₀ hm, hx]; linarith
  unfold remE; rw [hf, hx]; ring

/-- The fold lands within one width of the domain (in fact in `[a, b + d)` when it is taken). -/
theorem mirrorFold_range (a b x : F) (hab : a < b) :
    a - (b - a) ≤ mirrorFold remE a b x ∧ mirrorFold remE a b x ≤ b + (b - a) := by
  have hd : 0 < b - a := by linarith
  have hm : 0 < 2 * (b - a) := by linarith
  unfold mirrorFold
  simp only
  split
  · have h0 := remE_nonneg (x - a) (2 * (b - a)) hm
    have h1 := remE_lt (x - a) (2 * (b - a)) hm
    constructor <;> linarith
  · rename_i hc
    have hc' : ¬ (x < a - (b - a) ∨ x > b + (b - a)) := fun h => hc ⟨hd, h⟩
    have := not_or.mp hc'
    exact ⟨not_lt.mp this.1, not_lt.mp this.2⟩

/-- Closed form of reflecting until inside: the triangle wave of period `2(b − a)` through `[a, b]`. -/
def triangle (a b x : F) : F :=
  let t := remE (x - a) (2 * (b - a))
  if t ≤ b - a then a + t else a + (2 * (b - a) - t)

theorem triangle_of_repr (a b x r : F) (k : ℤ) (hab : a < b) (h0 : 0 ≤ r) (h1 : r < 2 * (b - a))
    (hx : x - a = r + k * (2 * (b - a))) :
    triangle a b x = if r ≤ b - a then a + r else a + (2 * (b - a) - r) := by
  unfold triangle
  rw [remE_unique _ _ r k (by linarith) h0 h1 hx]

theorem triangle_in_bounds (a b x : F) (hab : a < b) : a ≤ triangle a b x ∧ triangle a b x ≤ b := by
  have hm : 0 < 2 * (b - a) := by linarith
  have h0 := remE_nonneg (x - a) (2 * (b - a)) hm
  have h1 := remE_lt (x - a) (2 * (b - a)) hm
  unfold triangle
  simp only
  split
  · constructor <;> linarith
  · constructor <;> linarith

theorem triangle_inside (a b y : F) (hab : a < b) (h1 : a ≤ y) (h2 : y ≤ b) : triangle a b y = y := by
  rw [triangle_of_repr a b y (y - a) 0 hab (by linarith) (by linarith) (by simp)]
  have : y - a ≤ b - a := by linarith
  simp [this]

/-- Reflection at `a` or at `b` (and any shift by whole periods) leaves the triangle wave unchanged. -/
theorem triangle_reflect (a b x x' : F) (j : ℤ) (hab : a < b)
    (h : x' - a = -(x - a) + j * (2 * (b - a))) : triangle a b x' = triangle a b x := by
  have hm : 0 < 2 * (b - a) := by linarith
  have h0 := remE_nonneg (x - a) (2 * (b - a)) hm
  have h1 := remE_lt (x - a) (2 * (b - a)) hm
  have hrepr := remE_repr (x - a) (2 * (b - a))
  generalize hr : remE (x - a) (2 * (b - a)) = r at h0 h1 hrepr
  generalize hk : ⌊(x - a) / (2 * (b - a))⌋ = k at hrepr
  rw [triangle_of_repr a b x r k hab h0 h1 hrepr]
  rcases eq_or_lt_of_le h0 with hz | hpos
  · subst hz
    rw [triangle_of_repr a b x' 0 (j - k) hab le_rfl hm (by rw [h, hrepr]; push_cast; ring)]
  · rw [triangle_of_repr a b x' (2 * (b - a) - r) (j - k - 1) hab (by linarith) (by linarith)
      (by rw [h, hrepr]; push_cast; ring)]
    split_ifs <;> linarith

theorem triangle_step (a b x : F) (hab : a < b) : triangle a b (mirrorStep a b x) = triangle a b x := by
  unfold mirrorStep
  split
  · exact triangle_reflect a b x _ 0 hab (by push_cast; ring)
  · split
    · exact triangle_reflect a b x _ 1 hab (by push_cast; ring)
    · rfl

theorem triangle_iter (a b : F) (hab : a < b) (n : Nat) : ∀ x,
    triangle a b (mirrorIter a b n x) = triangle a b x := by
  induction n with
  | zero => intro x; rfl
  | succ n ih => intro x; simp only [mirrorIter]; rw [ih, triangle_step a b x hab]

/-- Whatever the reflection loop returns is the triangle wave of its start value. -/
theorem mirrorLoop_eq_triangle (a b x y : F) (hab : a < b) (fuel : Nat) (h : mirrorLoop a b fuel x = some y) :
    y = triangle a b x := by
  obtain ⟨k, _, e, h1, h2⟩ := mirrorLoop_eq_iter a b fuel x y h
  rw [← triangle_iter a b hab k x, ← e, triangle_inside a b y hab h1 h2]

/-- The fold does not change the triangle wave. -/
theorem triangle_fold (a b x : F) (hab : a < b) : triangle a b (mirrorFold remE a b x) = triangle a b x := by
  have hm : 0 < 2 * (b - a) := by linarith
  unfold mirrorFold
  simp only
  split
  · have h0 := remE_nonneg (x - a) (2 * (b - a)) hm
    have h1 := remE_lt (x - a) (2 * (b - a)) hm
    rw [triangle_of_repr a b _ (remE (x - a) (2 * (b - a))) 0 hab h0 h1 (by push_cast; ring)]
    rfl
  · rfl

end Floor

/-! ### one-tailed normal correction -/

theorem oneTailedLoop_inside (a b : F) (script : List F) (x : F) (h1 : a ≤ x) (h2 : x ≤ b) :
    oneTailedLoop a b script x = some (x, script) := by
  have n1 : ¬ x < a := not_lt.mpr h1
  have n2 : ¬ x > b := not_lt.mpr h2
  cases script <;> simp [oneTailedLoop, n1, n2]

theorem oneTailedLoop_result (a b : F) : ∀ (script : List F) (x y : F) (rest : List F),
    oneTailedLoop a b script x = some (y, rest) → a ≤ y ∧ y ≤ b ∧ ∃ k, rest = script.drop k := by
  intro script
  induction script with
  | nil =>
    intro x y rest h
    simp only [oneTailedLoop] at h
    split at h
    · cases h
    · rename_i hin
      have hin' := not_or.mp hin
      simp only [Option.some.injEq, Prod.mk.injEq] at h
      obtain ⟨rfl, rfl⟩ := h
      exact ⟨not_lt.mp hin'.1, not_lt.mp hin'.2, 0, rfl⟩
  | cons s t ih =>
    intro x y rest h
    simp only [oneTailedLoop] at h
    split at h
    · obtain ⟨h1, h2, k, hk⟩ := ih _ _ _ h
      exact ⟨h1, h2, k + 1, by simpa using hk⟩
    · split at h
      · obtain ⟨h1, h2, k, hk⟩ := ih _ _ _ h
        exact ⟨h1, h2, k + 1, by simpa using hk⟩
      · rename_i n1 n2
        simp only [Option.some.injEq, Prod.mk.injEq] at h
        obtain ⟨rfl, rfl⟩ := h
        exact ⟨not_lt.mp n1, not_lt.mp n2, 0, rfl⟩
end

/-! ### dimension -/
section
variable {F : Type}

theorem zipDomain_length (f : F → F × F → F) : ∀ (xs : List F) (ds : List (F × F)),
    (zipDomain f xs ds).length = xs.length := by
  intro xs
  induction xs with
  | nil => intro ds; cases ds <;> simp [zipDomain]
  | cons x xs ih => intro ds; cases ds <;> simp [zipDomain, ih]

theorem zipDomainM_length (f : F → F × F → Option F) : ∀ (xs : List F) (ds : List (F × F)) (ys : List F),
    zipDomainM f xs ds = some ys → ys.length = xs.length := by
  intro xs
  induction xs with
  | nil => intro ds ys h; cases ds <;> simp [zipDomainM] at h <;> subst h <;> rfl
  | cons x xs ih =>
    intro ds ys h
    cases ds with
    | nil => simp [zipDomainM] at h; subst h; rfl
    | cons d ds =>
      simp only [zipDomainM] at h
      split at h
      · rename_i y ys' hy hys
        injection h with h; subst h
        simp [ih ds ys' hys]
      · cases h
end

section
variable {F : Type} [Add F] [Sub F] [Mul F] [Div F] [LT F] [DecidableLT F] [OfNat F 3]

theorem oneTailedSolution_length : ∀ (xs : List F) (ds : List (F × F)) (script : List F) (ys rest : List F),
    oneTailedSolution xs ds script = some (ys, rest) → ys.length = xs.length := by
  intro xs
  induction xs with
  | nil => intro ds script ys rest h; cases ds <;> simp [oneTailedSolution] at h <;> (obtain ⟨rfl, _⟩ := h; rfl)
  | cons x xs ih =>
    intro ds script ys rest h
    cases ds with
    | nil => simp [oneTailedSolution] at h; obtain ⟨rfl, _⟩ := h; rfl
    | cons d ds =>
      simp only [oneTailedSolution] at h
      cases h1 : oneTailedLoop d.1 d.2 script x with
      | none => simp [h1] at h
      | some r1 =>
        obtain ⟨y, s'⟩ := r1
        simp only [h1] at h
        cases h2 : oneTailedSolution xs ds s' with
        | none => simp [h2] at h
        | some r2 =>
          obtain ⟨ys', s''⟩ := r2
          simp only [h2, Option.some.injEq, Prod.mk.injEq] at h
          obtain ⟨rfl, _⟩ := h
          simp [ih ds s' ys' s'' h2]
end

/-! ### initialisation -/

theorem mapM_map_some {α β : Type} (f : α → Option β) : ∀ (σ : List α) (r : List β),
    σ.mapM f = some r → r.map some = σ.map f := by
  intro σ
  induction σ with
  | nil => intro r h; simp at h; simp [h]
  | cons a t ih =>
    intro r h
    simp only [List.mapM_cons] at h
    cases ha : f a with
    | none => simp [ha] at h
    | some b =>
      cases ht : List.mapM f t with
      | none => simp [ha, ht] at h
      | some r' =>
        simp [ha, ht] at h
        subst h
        simp [ha, ih r' ht]

theorem shuffleBy_perm {α : Type} (σ : List Nat) (l r : List α) (h : shuffleBy σ l = some r)
    (hσ : σ.Perm (List.range l.length)) : r.Perm l := by
  unfold shuffleBy at h
  have h1 := mapM_map_some _ σ r h
  have h2 : l.map some = (List.range l.length).map (l[·]?) := by
    apply List.ext_getElem?
    intro i
    simp only [List.getElem?_map, List.getElem?_range]
    by_cases hi : i < l.length
    · simp [hi]
    · simp [hi]
  have h3 : (r.map some).Perm (l.map some) := by
    rw [h1, h2]; exact hσ.map _
  exact (List.map_perm_map_iff (fun a b hab => Option.some.inj hab)).mp h3

/-! ### from coordinates to solutions -/
section
variable {F : Type}

/-- Lifting a per-coordinate guarantee to a whole solution (Option-valued operators). -/
theorem zipDomainM_all (f : F → F × F → Option F) (P : F × F → F → Prop) :
    ∀ (xs : List F) (ds : List (F × F)), xs.length = ds.length →
    (∀ k (hk : k < xs.length) (hd : k < ds.length), ∃ y, f xs[k] ds[k] = some y ∧ P ds[k] y) →
    ∃ ys, zipDomainM f xs ds = some ys ∧ ys.length = xs.length ∧
      ∀ k (hk : k < ys.length) (hd : k < ds.length), P ds[k] ys[k]
  | [], [], _, _ => ⟨[], by simp [zipDomainM], rfl, by simp⟩
  | [], _ :: _, h, _ => by simp at h
  | _ :: _, [], h, _ => by simp at h
  | x :: xs, d :: ds, h, hf => by
    obtain ⟨y, hy, py⟩ := hf 0 (by simp) (by simp)
    obtain ⟨ys, hys, hl, hp⟩ := zipDomainM_all f P xs ds (by simpa using h)
      (fun k hk hd => by
        have := hf (k + 1) (by simpa using hk) (by simpa using hd)
        simp only [List.getElem_cons_succ] at this
        exact this)
    refine ⟨y :: ys, by simp at hy; simp [zipDomainM, hy, hys], by simp [hl], ?_⟩
    intro k hk hd
    cases k with
    | zero => simpa using py
    | succ k => simpa using hp k (by simpa using hk) (by simpa using hd)

/-- The same for total operators. -/
theorem zipDomain_all (f : F → F × F → F) (P : F × F → F → Prop) :
    ∀ (xs : List F) (ds : List (F × F)), xs.length = ds.length →
    (∀ x, ∀ d ∈ ds, P d (f x d)) →
    ∀ k (hk : k < (zipDomain f xs ds).length) (hd : k < ds.length), P ds[k] (zipDomain f xs ds)[k]
  | [], [], _, _ => by simp [zipDomain]
  | [], _ :: _, h, _ => by simp at h
  | _ :: _, [], h, _ => by simp at h
  | x :: xs, d :: ds, h, hf => by
    intro k hk hd
    cases k with
    | zero => simpa [zipDomain] using hf x d (by simp)
    | succ k =>
      have := zipDomain_all f P xs ds (by simpa using h) (fun x' d' hd' => hf x' d' (by simp [hd'])) k
        (by simpa [zipDomain] using hk) (by simpa using hd)
      simpa [zipDomain] using this
end

section
variable {F : Type} [Field F] [LinearOrder F] [IsStrictOrderedRing F]

theorem oneTailedSolution_in_bounds : ∀ (xs : List F) (ds : List (F × F)) (script ys rest : List F),
    xs.length = ds.length → oneTailedSolution xs ds script = some (ys, rest) →
    ∀ k (hk : k < ys.length) (hd : k < ds.length), ds[k].1 ≤ ys[k] ∧ ys[k] ≤ ds[k].2
  | [], [], _, ys, _, _, h => by
    simp [oneTailedSolution] at h; obtain ⟨rfl, _⟩ := h; simp
  | [], _ :: _, _, _, _, hl, _ => by simp at hl
  | _ :: _, [], _, _, _, hl, _ => by simp at hl
  | x :: xs, d :: ds, script, ys, rest, hl, h => by
    simp only [oneTailedSolution] at h
    cases h1 : oneTailedLoop d.1 d.2 script x with
    | none => simp [h1] at h
    | some r1 =>
      obtain ⟨y, s'⟩ := r1
      simp only [h1] at h
      cases h2 : oneTailedSolution xs ds s' with
      | none => simp [h2] at h
      | some r2 =>
        obtain ⟨ys', s''⟩ := r2
        simp only [h2, Option.some.injEq, Prod.mk.injEq] at h
        obtain ⟨rfl, _⟩ := h
        have hb := oneTailedLoop_result d.1 d.2 script x y s' h1
        have ih := oneTailedSolution_in_bounds xs ds s' ys' s'' (by simpa using hl) h2
        intro k hk hd
        cases k with
        | zero => exact ⟨hb.1, hb.2.1⟩
        | succ k => simpa using ih k (by simpa using hk) (by simpa using hd)
end

/-! ### whole solutions, pointwise: every coordinate related to ITS input and ITS range -/
section
variable {F : Type}

theorem zipDomainM_pointwise (f : F → F × F → Option F) (P : F × F → F → F → Prop)
    (hf : ∀ x d y, f x d = some y → P d x y) :
    ∀ (xs : List F) (ds : List (F × F)) (ys : List F), zipDomainM f xs ds = some ys →
      ys.length = xs.length ∧
      ∀ k (hk : k < ys.length) (hx : k < xs.length) (hd : k < ds.length), P ds[k] xs[k] ys[k]
  | [], [], ys, h => by simp [zipDomainM] at h; subst h; simp
  | [], _ :: _, ys, h => by simp [zipDomainM] at h; subst h; simp
  | _ :: _, [], ys, h => by simp [zipDomainM] at h; subst h; simp
  | x :: xs, d :: ds, ys, h => by
    simp only [zipDomainM] at h
    split at h
    · rename_i y ys' hy hys
      injection h with h; subst h
      obtain ⟨hl, hp⟩ := zipDomainM_pointwise f P hf xs ds ys' hys
      refine ⟨by simp [hl], ?_⟩
      intro k hk hx hd
      cases k with
      | zero => simpa using hf x d y hy
      | succ k => simpa using hp k (by simpa using hk) (by simpa using hx) (by simpa using hd)
    · cases h

theorem zipDomain_pointwise (f : F → F × F → F) (P : F × F → F → F → Prop) :
    ∀ (xs : List F) (ds : List (F × F)), (∀ x, ∀ d ∈ ds, P d x (f x d)) →
      ∀ k (hk : k < (zipDomain f xs ds).length) (hx : k < xs.length) (hd : k < ds.length),
        P ds[k] xs[k] (zipDomain f xs ds)[k]
  | [], [], _ => by simp [zipDomain]
  | [], _ :: _, _ => by simp [zipDomain]
  | _ :: _, [], _ => by simp
  | x :: xs, d :: ds, hf => by
    intro k hk hx hd
    cases k with
    | zero => simpa [zipDomain] using hf x d (by simp)
    | succ k =>
      have := zipDomain_pointwise f P xs ds (fun x' d' hd' => hf x' d' (by simp [hd'])) k
        (by simpa [zipDomain] using hk) (by simpa using hx) (by simpa using hd)
      simpa [zipDomain] using this

/-- An operator that returns every inside coordinate unchanged returns an all-inside solution unchanged. -/
theorem zipDomainM_fixed (f : F → F × F → Option F) (I : F × F → F → Prop)
    (hfix : ∀ x d, I d x → f x d = some x) :
    ∀ (ys : List F) (ds : List (F × F)),
      (∀ k (hk : k < ys.length) (hd : k < ds.length), I ds[k] ys[k]) → zipDomainM f ys ds = some ys
  | [], [], _ => by simp [zipDomainM]
  | [], _ :: _, _ => by simp [zipDomainM]
  | _ :: _, [], _ => by simp [zipDomainM]
  | y :: ys, d :: ds, h => by
    have h0 := hfix y d (h 0 (by simp) (by simp))
    have ht := zipDomainM_fixed f I hfix ys ds (fun k hk hd =>
      h (k + 1) (by simpa using hk) (by simpa using hd))
    simp [zipDomainM, h0, ht]

theorem zipDomain_fixed (f : F → F × F → F) (I : F × F → F → Prop)
    (hfix : ∀ x d, I d x → f x d = x) :
    ∀ (ys : List F) (ds : List (F × F)),
      (∀ k (hk : k < ys.length) (hd : k < ds.length), I ds[k] ys[k]) → zipDomain f ys ds = ys
  | [], [], _ => by simp [zipDomain]
  | [], _ :: _, _ => by simp [zipDomain]
  | _ :: _, [], _ => by simp [zipDomain]
  | y :: ys, d :: ds, h => by
    have h0 := hfix y d (h 0 (by simp) (by simp))
    have ht := zipDomain_fixed f I hfix ys ds (fun k hk hd =>
      h (k + 1) (by simpa using hk) (by simpa using hd))
    simp [zipDomain, h0, ht]
end

section
variable {F : Type} [Add F] [Sub F] [Mul F] [Div F] [LT F] [DecidableLT F] [OfNat F 3]

theorem oneTailedSolution_pointwise (P : F × F → F → F → Prop)
    (hf : ∀ (a b : F) (script : List F) (x y : F) (rest : List F),
      oneTailedLoop a b script x = some (y, rest) → P (a, b) x y) :
    ∀ (xs : List F) (ds : List (F × F)) (script ys rest : List F),
      oneTailedSolution xs ds script = some (ys, rest) →
      ys.length = xs.length ∧
      ∀ k (hk : k < ys.length) (hx : k < xs.length) (hd : k < ds.length), P ds[k] xs[k] ys[k]
  | [], [], _, ys, _, h => by simp [oneTailedSolution] at h; obtain ⟨rfl, _⟩ := h; simp
  | [], _ :: _, _, ys, _, h => by simp [oneTailedSolution] at h; obtain ⟨rfl, _⟩ := h; simp
  | _ :: _, [], _, ys, _, h => by simp [oneTailedSolution] at h; obtain ⟨rfl, _⟩ := h; simp
  | x :: xs, d :: ds, script, ys, rest, h => by
    simp only [oneTailedSolution] at h
    cases h1 : oneTailedLoop d.1 d.2 script x with
    | none => simp [h1] at h
    | some r1 =>
      obtain ⟨y, s'⟩ := r1
      simp only [h1] at h
      cases h2 : oneTailedSolution xs ds s' with
      | none => simp [h2] at h
      | some r2 =>
        obtain ⟨ys', s''⟩ := r2
        simp only [h2, Option.some.injEq, Prod.mk.injEq] at h
        obtain ⟨rfl, _⟩ := h
        obtain ⟨hl, hp⟩ := oneTailedSolution_pointwise P hf xs ds s' ys' s'' h2
        refine ⟨by simp [hl], ?_⟩
        intro k hk hx hd
        cases k with
        | zero => simpa using hf d.1 d.2 script x y s' h1
        | succ k => simpa using hp k (by simpa using hk) (by simpa using hx) (by simpa using hd)

theorem oneTailedSolution_fixed (I : F × F → F → Prop)
    (hfix : ∀ (a b : F) (script : List F) (x : F), I (a, b) x → oneTailedLoop a b script x = some (x, script)) :
    ∀ (ys : List F) (ds : List (F × F)) (script : List F),
      (∀ k (hk : k < ys.length) (hd : k < ds.length), I ds[k] ys[k]) →
      oneTailedSolution ys ds script = some (ys, script)
  | [], [], _, _ => by simp [oneTailedSolution]
  | [], _ :: _, _, _ => by simp [oneTailedSolution]
  | _ :: _, [], _, _ => by simp [oneTailedSolution]
  | y :: ys, d :: ds, script, h => by
    have h0 := hfix d.1 d.2 script y (h 0 (by simp) (by simp))
    have ht := oneTailedSolution_fixed I hfix ys ds script (fun k hk hd =>
      h (k + 1) (by simpa using hk) (by simpa using hd))
    simp [oneTailedSolution, h0, ht]
end

/-! ### the driver -/
section
variable {F S : Type}

theorem constrainAll_forall₂ (op : List F → S → Option (List F × S)) (R : List F → List F → Prop)
    (hop : ∀ sol s y s', op sol s = some (y, s') → R sol y) :
    ∀ (pop : List (List F)) (s : S) (pop' : List (List F)) (s' : S),
      constrainAll op pop s = some (pop', s') → List.Forall₂ R pop pop'
  | [], s, pop', s', h => by
    simp [constrainAll] at h; obtain ⟨rfl, _⟩ := h; exact .nil
  | sol :: sols, s, pop', s', h => by
    simp only [constrainAll] at h
    cases h1 : op sol s with
    | none => simp [h1] at h
    | some r1 =>
      obtain ⟨y, s1⟩ := r1
      simp only [h1] at h
      cases h2 : constrainAll op sols s1 with
      | none => simp [h2] at h
      | some r2 =>
        obtain ⟨ys, s2⟩ := r2
        simp only [h2, Option.some.injEq, Prod.mk.injEq] at h
        obtain ⟨rfl, _⟩ := h
        exact .cons (hop _ _ _ _ h1) (constrainAll_forall₂ op R hop sols s1 ys s2 h2)

/-- Operators that return on every solution of the population without touching the random source. -/
theorem constrainAll_returns (op : List F → S → Option (List F × S)) :
    ∀ (pop : List (List F)) (s : S), (∀ sol ∈ pop, ∃ y, op sol s = some (y, s)) →
      ∃ pop', constrainAll op pop s = some (pop', s)
  | [], s, _ => ⟨[], rfl⟩
  | sol :: sols, s, h => by
    obtain ⟨y, hy⟩ := h sol (by simp)
    obtain ⟨ys, hys⟩ := constrainAll_returns op sols s (fun t ht => h t (by simp [ht]))
    exact ⟨y :: ys, by simp [constrainAll, hy, hys]⟩

theorem constrainAll_fixed (op : List F → S → Option (List F × S)) :
    ∀ (pop : List (List F)) (s : S), (∀ sol ∈ pop, ∀ s, op sol s = some (sol, s)) →
      constrainAll op pop s = some (pop, s)
  | [], s, _ => rfl
  | sol :: sols, s, h => by
    have h0 := h sol (by simp) s
    have ht := constrainAll_fixed op sols s (fun t ht s => h t (by simp [ht]) s)
    simp [constrainAll, h0, ht]

/-- The driver on a non-empty stack: exactly the current population goes through `constrainAll`. -/
theorem boundaryConstraint_concat (op : List F → S → Option (List F × S)) (below : List (List (List F)))
    (top : List (List F)) (s : S) :
    boundaryConstraint op (below ++ [top]) s =
      match constrainAll op top s with
      | none => none
      | some (top', s') => some (below ++ [top'], s') := by
  simp only [boundaryConstraint, List.getLast?_append, List.getLast?_singleton, Option.some_or,
    List.dropLast_concat]
  rcases constrainAll op top s with _ | ⟨t, s1⟩ <;> rfl

theorem boundaryConstraint_nil (op : List F → S → Option (List F × S)) (s : S) :
    boundaryConstraint op [] s = none := by simp [boundaryConstraint]

theorem boundaryConstraint_some (op : List F → S → Option (List F × S)) (stack stack' : List (List (List F)))
    (s s' : S) (h : boundaryConstraint op stack s = some (stack', s')) :
    ∃ below top top', stack = below ++ [top] ∧ stack' = below ++ [top'] ∧
      constrainAll op top s = some (top', s') := by
  rcases List.eq_nil_or_concat stack with rfl | ⟨below, top, rfl⟩
  · simp [boundaryConstraint_nil] at h
  · simp only [List.concat_eq_append] at h ⊢
    rw [boundaryConstraint_concat] at h
    cases hc : constrainAll op top s with
    | none => simp [hc] at h
    | some r =>
      obtain ⟨top', s1⟩ := r
      simp only [hc, Option.some.injEq, Prod.mk.injEq] at h
      obtain ⟨rfl, rfl⟩ := h
      exact ⟨below, top, top', rfl, rfl, hc⟩
end

/-! ### what the property demands of a repaired solution, and the driver's generic guarantees -/
section
variable {F : Type} [LE F]

/-- One coordinate: within ITS bounds, and unchanged if it already was. -/
def RepairedCoord (d : F × F) (x y : F) : Prop := d.1 ≤ y ∧ y ≤ d.2 ∧ (d.1 ≤ x → x ≤ d.2 → y = x)

/-- One solution: same dimension, every coordinate repaired against the range of its own dimension. -/
def Repaired (dom : List (F × F)) (sol ys : List F) : Prop :=
  ys.length = sol.length ∧
  ∀ k (hk : k < ys.length) (hx : k < sol.length) (hd : k < dom.length), RepairedCoord dom[k] sol[k] ys[k]

def AllInside (dom : List (F × F)) (ys : List F) : Prop :=
  ∀ k (hk : k < ys.length) (hd : k < dom.length), dom[k].1 ≤ ys[k] ∧ ys[k] ≤ dom[k].2

theorem Repaired.allInside {dom : List (F × F)} {sol ys : List F} (h : Repaired dom sol ys) : AllInside dom ys :=
  fun k hk hd => ⟨(h.2 k hk (h.1 ▸ hk) hd).1, (h.2 k hk (h.1 ▸ hk) hd).2.1⟩

theorem forall₂_right {α β : Type} {R : α → β → Prop} {l : List α} {l' : List β} (h : List.Forall₂ R l l') :
    ∀ y ∈ l', ∃ x ∈ l, R x y := by
  induction h with
  | nil => simp
  | cons hxy _ ih =>
    intro y hy
    simp only [List.mem_cons] at hy
    rcases hy with rfl | hy
    · exact ⟨_, by simp, hxy⟩
    · obtain ⟨x, hx, hr⟩ := ih y hy
      exact ⟨x, by simp [hx], hr⟩

/-- The driver's work on the current population, with an operator that repairs (whenever it returns)
and fixes all-inside solutions: every solution repaired, and a second application changes nothing. -/
theorem constrainAll_repairs {S : Type} (op : List F → S → Option (List F × S)) (dom : List (F × F))
    (hop : ∀ sol s y s', op sol s = some (y, s') → Repaired dom sol y)
    (hfix : ∀ ys s, AllInside dom ys → op ys s = some (ys, s))
    (below : List (List (List F))) (top top' : List (List F)) (s s' : S)
    (hc : constrainAll op top s = some (top', s')) :
    List.Forall₂ (Repaired dom) top top' ∧
      ∀ s2 : S, boundaryConstraint op (below ++ [top']) s2 = some (below ++ [top'], s2) := by
  have hr := constrainAll_forall₂ op (Repaired dom) hop top s top' s' hc
  refine ⟨hr, ?_⟩
  intro s2
  have hfixed := constrainAll_fixed op top' s2 (fun y hy t => by
    obtain ⟨x, _, hx⟩ := forall₂_right hr y hy
    exact hfix y t hx.allInside)
  rw [boundaryConstraint_concat, hfixed]

/-- The same from the driver's result: frame, repaired, idempotent. -/
theorem boundaryConstraint_repairs {S : Type} (op : List F → S → Option (List F × S)) (dom : List (F × F))
    (hop : ∀ sol s y s', op sol s = some (y, s') → Repaired dom sol y)
    (hfix : ∀ ys s, AllInside dom ys → op ys s = some (ys, s))
    (stack stack' : List (List (List F))) (s s' : S) (h : boundaryConstraint op stack s = some (stack', s')) :
    ∃ below top top', stack = below ++ [top] ∧ stack' = below ++ [top'] ∧
      List.Forall₂ (Repaired dom) top top' ∧
      ∀ s2 : S, boundaryConstraint op stack' s2 = some (stack', s2) := by
  obtain ⟨below, top, top', rfl, rfl, hc⟩ := boundaryConstraint_some op stack stack' s s' h
  obtain ⟨hr, hid⟩ := constrainAll_repairs op dom hop hfix below top top' s s' hc
  exact ⟨below, top, top', rfl, rfl, hr, hid⟩
end

end MahfModel.Boundary
