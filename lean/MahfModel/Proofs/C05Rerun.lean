/- Helper definitions and lemmas for consecutive runs on one state (C05, `Model/PopMachineMem.lean`:
`callerReset`, `configRun`, `reruns`, the `init` steps). -/
import MahfModel.Proofs.C05Mem
namespace MahfModel.PopMachine

set_option linter.unusedSectionVars false
set_option linter.unusedSimpArgs false
variable {O : Type}

/-- For every memory that holds individuals: the configuration OWNS it (the `init` that replaces it is among
its `init`s), or what it holds is valid for the objective function `g` anyway. The PSO global best is not
listed: no `init` replaces it (`initGbest` keeps an entry that is already there). -/
def OwnedOrValid (g : Nat → O) (inits : List MemOp) (x : PMX O) : Prop :=
  (MemOp.initBest ∈ inits ∨ ∀ b, x.pm.best = some b → Valid g b) ∧
  (MemOp.initArchive ∈ inits ∨ AllValid g x.pm.archive) ∧
  (MemOp.initPbest ∈ inits ∨ AllValid g x.pbest) ∧
  (MemOp.initMols ∈ inits ∨ AllValid g x.mols)

/-- The population stack and the PSO global best are valid for `g`. -/
def StackGbestValid (g : Nat → O) (x : PMX O) : Prop :=
  (∀ p ∈ x.pm.stack, AllValid g p) ∧ (∀ gb, x.gbest = some gb → Valid g gb)

section
variable [LT O] [DecidableLT O] [DecidableEq O]

theorem memRun_append (f : Nat → O) : ∀ (a b : List MemOp) (x : PMX O),
    memRun f x (a ++ b) = match memRun f x a with
      | .ok x' => memRun f x' b
      | .err x' => .err x'
      | .panic => .panic
  | [], b, x => by simp [memRun]
  | op :: a, b, x => by
    simp only [List.cons_append, memRun]
    cases h : memStep f x op with
    | ok x' => simp only [memRun_append f a b x']
    | err x' => rfl
    | panic => rfl

/-- One `init` step: it succeeds, leaves the stack and the global best alone, and the memory it owns is
empty afterwards (so "owned or valid" passes on to the remaining `init`s). -/
theorem init_step (g : Nat → O) (op : MemOp) (rest : List MemOp) (x : PMX O) (hop : op.isInit = true)
    (hs : StackGbestValid g x) (ho : OwnedOrValid g (op :: rest) x) :
    ∃ x1, memStep g x op = .ok x1 ∧ StackGbestValid g x1 ∧ OwnedOrValid g rest x1 := by
  cases op with
  | initBest =>
    refine ⟨_, rfl, ⟨hs.1, hs.2⟩, ?_⟩
    simp only [OwnedOrValid, List.mem_cons, reduceCtorEq, false_or, true_or, true_and] at ho ⊢
    exact ⟨Or.inr (by simp), ho.1, ho.2.1, ho.2.2⟩
  | initArchive =>
    refine ⟨_, rfl, ⟨hs.1, hs.2⟩, ?_⟩
    simp only [OwnedOrValid, List.mem_cons, reduceCtorEq, false_or, true_or, true_and, and_true] at ho ⊢
    exact ⟨ho.1, Or.inr (by simp [AllValid]), ho.2.1, ho.2.2⟩
  | initPbest =>
    refine ⟨_, rfl, ⟨hs.1, hs.2⟩, ?_⟩
    simp only [OwnedOrValid, List.mem_cons, reduceCtorEq, false_or, true_or, true_and, and_true] at ho ⊢
    exact ⟨ho.1, ho.2.1, Or.inr (by simp [AllValid]), ho.2.2⟩
  | initMols =>
    refine ⟨_, rfl, ⟨hs.1, hs.2⟩, ?_⟩
    simp only [OwnedOrValid, List.mem_cons, reduceCtorEq, false_or, true_or, true_and, and_true] at ho ⊢
    exact ⟨ho.1, ho.2.1, ho.2.2, Or.inr (by simp [AllValid])⟩
  | initGbest =>
    have hg : (match x.gbest with | some g => some g | none => none) = x.gbest := by cases x.gbest <;> rfl
    refine ⟨_, rfl, ⟨hs.1, ?_⟩, ?_⟩
    · intro gb hgb
      have : x.gbest = some gb := by rw [← hg]; exact hgb
      exact hs.2 gb this
    · simp only [OwnedOrValid, List.mem_cons, reduceCtorEq, false_or] at ho ⊢
      exact ho
  | initEvals =>
    refine ⟨_, rfl, ⟨hs.1, hs.2⟩, ?_⟩
    simp only [OwnedOrValid, List.mem_cons, reduceCtorEq, false_or] at ho ⊢
    exact ho
  | _ => simp [MemOp.isInit] at hop

/-- A sequence of `init`s never fails, and afterwards everything the state holds is valid for `g`, provided
the stack and the PSO global best were, and every other memory was owned or valid. -/
theorem inits_valid (g : Nat → O) : ∀ (inits : List MemOp) (x : PMX O),
    (∀ op ∈ inits, op.isInit = true) → StackGbestValid g x → OwnedOrValid g inits x →
    ∃ x', memRun g x inits = .ok x' ∧ AllValidX g x'
  | [], x, _, hs, ho => by
    refine ⟨x, rfl, ?_⟩
    simp only [OwnedOrValid, List.not_mem_nil, false_or] at ho
    exact ⟨⟨hs.1, ho.1, ho.2.1⟩, ho.2.2.1, hs.2, ho.2.2.2⟩
  | op :: rest, x, hi, hs, ho => by
    obtain ⟨x1, h1, hs1, ho1⟩ := init_step g op rest x (hi op List.mem_cons_self) hs ho
    obtain ⟨x', hx', hv⟩ := inits_valid g rest x1 (fun o h => hi o (List.mem_cons_of_mem _ h)) hs1 ho1
    exact ⟨x', by simp only [memRun, h1, hx'], hv⟩

/-- The only step that writes the PSO global best. -/
def MemOp.writesGbest : MemOp → Bool
  | .gbestUpdate => true
  | _ => false

/-- Every other step leaves the PSO global best as it is — also when it ends with an `Err`. -/
theorem memStep_gbest (f : Nat → O) (x x' : PMX O) (op : MemOp) (hop : op.writesGbest = false)
    (hs : (memStep f x op).state? = some x') : x'.gbest = x.gbest := by
  cases op with
  | gbestUpdate => simp [MemOp.writesGbest] at hop
  | onWall a =>
    simp only [memStep, onWall] at hs
    repeat' split at hs
    all_goals simp_all [Out.state?, PMX.withStack]
    all_goals (subst hs; rfl)
  | decomposition a =>
    simp only [memStep, decomposition] at hs
    repeat' split at hs
    all_goals simp_all [Out.state?, PMX.withStack]
    all_goals (subst hs; rfl)
  | intermolecular a =>
    simp only [memStep, intermolecular] at hs
    repeat' split at hs
    all_goals simp_all [Out.state?, PMX.withStack]
    all_goals (subst hs; rfl)
  | synthesis a =>
    simp only [memStep, synthesis] at hs
    repeat' split at hs
    all_goals simp_all [Out.state?, PMX.withStack]
    all_goals (subst hs; rfl)
  | _ =>
    simp only [memStep] at hs
    repeat' split at hs
    all_goals simp_all [Out.state?, PMX.withStack]
    all_goals (subst hs; rfl)

theorem memRun_gbest (f : Nat → O) : ∀ (ops : List MemOp) (x x' : PMX O),
    (∀ op ∈ ops, op.writesGbest = false) → (memRun f x ops).state? = some x' → x'.gbest = x.gbest
  | [], x, x', _, hr => by simp [memRun, Out.state?] at hr; subst hr; rfl
  | op :: ops, x, x', hw, hr => by
    simp only [memRun] at hr
    have hop := hw op List.mem_cons_self
    split at hr
    · rename_i x1 h1
      rw [memRun_gbest f ops x1 x' (fun o h => hw o (List.mem_cons_of_mem _ h)) hr]
      exact memStep_gbest f x x1 op hop (by rw [h1]; rfl)
    · rename_i x1 h1
      simp only [Out.state?, Option.some.injEq] at hr; subst hr
      exact memStep_gbest f x x1 op hop (by rw [h1]; rfl)
    · simp [Out.state?] at hr

end
end MahfModel.PopMachine
