/- Helper lemmas for C13 (parameter states across configurations, scopes and runs). -/
import MahfModel.Model.VariationState
import MahfModel.Proofs.C13Pop

namespace MahfModel.Variation

variable {F : Type}

/-! ### registries -/

theorem regGet_regPut_same (r : PReg F) (k : PKey) (v : Param F) : regGet (regPut r k v) k = some v := by
  simp [regGet, regPut]

theorem find_filter_other (r : PReg F) (k k' : PKey) (h : k' ≠ k) :
    (r.filter (fun e => e.1 != k)).find? (fun e => e.1 == k') = r.find? (fun e => e.1 == k') := by
  induction r with
  | nil => rfl
  | cons e r ih => grind

theorem regGet_regPut_other (r : PReg F) (k k' : PKey) (v : Param F) (h : k' ≠ k) :
    regGet (regPut r k v) k' = regGet r k' := by
  have hk : (k == k') = false := by simpa using fun e => h e.symm
  simp only [regGet, regPut, List.find?_cons, hk, find_filter_other r k k' h]

theorem get_insert_same (ch : PChain F) (k : PKey) (v : Param F) : (ch.insert k v).get k = some v := by
  simp [PChain.get, PChain.insert, regsGet, regGet_regPut_same]

theorem get_insert_other (ch : PChain F) (k k' : PKey) (v : Param F) (h : k' ≠ k) :
    (ch.insert k v).get k' = ch.get k' := by
  simp [PChain.get, PChain.insert, regsGet, regGet_regPut_other _ _ _ _ h]

theorem insert_below (ch : PChain F) (k : PKey) (v : Param F) : (ch.insert k v).below = ch.below := rfl

theorem pop_of_below (ch : PChain F) (t : PReg F) (b : List (PReg F)) (h : ch.below = t :: b) : ch.pop = ⟨t, b⟩ := by
  simp [PChain.pop, h]

/-! ### `init` of one instance -/

theorem compInit_below (c : PComp F) (ch : PChain F) : (compInit c ch).below = ch.below := by
  unfold compInit; split <;> rfl

theorem compSeen_compInit_self (c : PComp F) (ch : PChain F) : compSeen c (compInit c ch) = some c.own := by
  unfold compSeen compInit
  by_cases hs : c.kind.hasStrength = true
  · have hne : c.strengthKey ≠ c.rateKey := by simp [PComp.strengthKey, PComp.rateKey]
    simp [hs, get_insert_same, get_insert_other _ _ _ _ hne, PComp.own]
  · simp [hs, get_insert_same, PComp.own]

theorem compInit_get_other (c : PComp F) (ch : PChain F) (k : PKey) (h : ¬ (k.kind = c.kind ∧ k.ident = c.ident)) :
    (compInit c ch).get k = ch.get k := by
  have h1 : k ≠ c.rateKey := by intro e; apply h; subst e; exact ⟨rfl, rfl⟩
  have h2 : k ≠ c.strengthKey := by intro e; apply h; subst e; exact ⟨rfl, rfl⟩
  unfold compInit
  split
  · rw [get_insert_other _ _ _ _ h1, get_insert_other _ _ _ _ h2]
  · rw [get_insert_other _ _ _ _ h1]

/-- Another type or another identifier: the instance's states are untouched. -/
theorem compSeen_compInit_other (c d : PComp F) (ch : PChain F) (h : ¬ (d.kind = c.kind ∧ d.ident = c.ident)) :
    compSeen d (compInit c ch) = compSeen d ch := by
  unfold compSeen
  rw [compInit_get_other c ch d.rateKey (by simpa [PComp.rateKey] using h),
    compInit_get_other c ch d.strengthKey (by simpa [PComp.strengthKey] using h)]

section Dec

/-- The same type and identifier with the same values: the states hold that instance's values as well. -/
theorem compSeen_compInit_compatible (eqv : Param F → Param F → Bool) (heq : ∀ a b, eqv a b = true → a = b)
    (c d : PComp F) (ch : PChain F) (hk : d.kind = c.kind ∧ d.ident = c.ident)
    (hc : compatible eqv c d = true) : compSeen d (compInit c ch) = some d.own := by
  have hr : d.rateKey = c.rateKey := by simp [PComp.rateKey, hk.1, hk.2]
  have hs : d.strengthKey = c.strengthKey := by simp [PComp.strengthKey, hk.1, hk.2]
  have hne : c.strengthKey ≠ c.rateKey := by simp [PComp.strengthKey, PComp.rateKey]
  simp only [compatible, hk.1, hk.2, beq_self_eq_true, Bool.and_self, Bool.not_true, Bool.false_or,
    Bool.and_eq_true, Bool.or_eq_true, Bool.not_eq_eq_eq_not] at hc
  obtain ⟨hrate, hstr⟩ := hc
  have hrate := heq _ _ hrate
  unfold compSeen compInit
  rw [hr, hs, hk.1]
  by_cases hS : c.kind.hasStrength = true
  · have : c.strength = d.strength := by
      rcases hstr with h | h
      · simp [hS] at h
      · exact heq _ _ h
    simp [hS, get_insert_same, get_insert_other _ _ _ _ hne, PComp.own, hrate, this]
  · simp [hS, get_insert_same, PComp.own, hrate]

end Dec

/-! ### `init` of a block -/

theorem Cfg.init_below (cfg : Cfg F) (ch : PChain F) : (cfg.init ch).below = ch.below := by
  induction cfg generalizing ch with
  | done => rfl
  | leaf c rest ih => simp [Cfg.init, ih, compInit_below]
  | scope body rest _ ih => simp [Cfg.init, ih]
  | loop n body rest ihb ih => simp [Cfg.init, ih, ihb]
  | branch b tb eb rest iht ihe ih => simp [Cfg.init, ih, ihe, iht]

section Dec2

/-- After `init` of a block every instance of its level (compatible with the others of the level) finds
its own values in the state — and so does any instance that did before and is compatible with the level. -/
theorem Cfg.init_sees (eqv : Param F → Param F → Bool) (heq : ∀ a b, eqv a b = true → a = b)
    (cfg : Cfg F) (d : PComp F) (ch : PChain F)
    (hc : ∀ c ∈ cfg.level, compatible eqv c d = true)
    (h : d ∈ cfg.level ∨ compSeen d ch = some d.own) : compSeen d (cfg.init ch) = some d.own := by
  induction cfg generalizing ch with
  | done => simpa [Cfg.level, Cfg.init] using h
  | leaf c rest ih =>
    simp only [Cfg.level, List.mem_cons, forall_eq_or_imp] at hc h
    simp only [Cfg.init]
    apply ih _ hc.2
    by_cases hk : d.kind = c.kind ∧ d.ident = c.ident
    · exact Or.inr (compSeen_compInit_compatible eqv heq c d ch hk hc.1)
    · rcases h with (rfl | h) | h
      · exact absurd ⟨rfl, rfl⟩ hk
      · exact Or.inl h
      · exact Or.inr ((compSeen_compInit_other c d ch hk).trans h)
  | scope body rest _ ih =>
    simp only [Cfg.level] at hc h
    exact ih _ hc h
  | loop n body rest ihb ih =>
    simp only [Cfg.level, List.mem_append] at hc h
    simp only [Cfg.init]
    apply ih _ (fun c hcm => hc c (Or.inr hcm))
    rcases h with (h | h) | h
    · exact Or.inr (ihb _ (fun c hcm => hc c (Or.inl hcm)) (Or.inl h))
    · exact Or.inl h
    · exact Or.inr (ihb _ (fun c hcm => hc c (Or.inl hcm)) (Or.inr h))
  | branch b tb eb rest iht ihe ih =>
    simp only [Cfg.level, List.mem_append] at hc h
    simp only [Cfg.init]
    have hct : ∀ c ∈ tb.level, compatible eqv c d = true := fun c hcm => hc c (Or.inl hcm)
    have hce : ∀ c ∈ eb.level, compatible eqv c d = true := fun c hcm => hc c (Or.inr (Or.inl hcm))
    apply ih _ (fun c hcm => hc c (Or.inr (Or.inr hcm)))
    rcases h with (h | h | h) | h
    · exact Or.inr (ihe _ hce (Or.inr (iht _ hct (Or.inl h))))
    · exact Or.inr (ihe _ hce (Or.inl h))
    · exact Or.inl h
    · exact Or.inr (ihe _ hce (Or.inr (iht _ hct (Or.inr h))))

theorem levelConsistent_iff (eqv : Param F → Param F → Bool) (l : List (PComp F)) :
    levelConsistent eqv l = true ↔ ∀ c ∈ l, ∀ d ∈ l, compatible eqv c d = true := by
  simp [levelConsistent, List.all_eq_true]

end Dec2

/-! ### `execute` -/

section Exec
variable [LE F] [DecidableLE F] [OfNat F 0] [OfNat F 1] [OfNat F 2]

theorem execLeaf_chain (c : PComp F) (st : RunSt F) : (execLeaf c st).chain = st.chain := by
  unfold execLeaf; split
  · rfl
  · split <;> rfl

theorem iterate_inv {σ : Type} (f : σ → σ) (P : σ → Prop) (hP : ∀ s, P s → P (f s)) (n : Nat) (s : σ) (h : P s) :
    P (iterate f n s) := by
  induction n generalizing s with
  | zero => exact h
  | succ n ih => exact ih _ (hP _ h)

/-- Executing a block leaves the registry stack as it found it: whatever a `Scope` inserted is gone. -/
theorem Cfg.exec_chain (cfg : Cfg F) (st : RunSt F) : (cfg.exec st).chain = st.chain := by
  induction cfg generalizing st with
  | done => rfl
  | leaf c rest ih => simp [Cfg.exec, ih, execLeaf_chain]
  | scope body rest ihb ih =>
    simp only [Cfg.exec]
    split
    · rfl
    · rw [ih]
      simp only [ihb]
      exact pop_of_below _ _ _ (by rw [Cfg.init_below]; rfl)
  | loop n body rest ihb ih =>
    simp only [Cfg.exec]
    rw [ih]
    exact iterate_inv body.exec (fun s => s.chain = st.chain) (fun s hs => (ihb s).trans hs) n st rfl
  | branch b tb eb rest iht ihe ih =>
    simp only [Cfg.exec]
    rw [ih]
    cases b
    · exact ihe st
    · exact iht st

end Exec

section ExecDec
variable [LE F] [DecidableLE F] [OfNat F 0] [OfNat F 1] [OfNat F 2]

/-- An execution that found the instance's own values. -/
def Obs.own (o : Obs F) : Prop := o.seen = some o.comp.own

theorem execLeaf_trace (c : PComp F) (st : RunSt F) (h : compSeen c st.chain = some c.own) :
    ∀ o ∈ (execLeaf c st).trace, o ∈ st.trace ∨ o.own := by
  intro o ho
  unfold execLeaf at ho
  split at ho
  · exact Or.inl ho
  · rw [h] at ho
    simp only [List.mem_append, List.mem_singleton] at ho
    rcases ho with ho | rfl
    · exact Or.inl ho
    · exact Or.inr rfl

/-- In a block whose nested levels are consistent, executed on a state in which the instances of its own
level find their own values, EVERY execution (at any depth, in any loop pass) finds its own values. -/
theorem Cfg.exec_trace_own (eqv : Param F → Param F → Bool) (heq : ∀ a b, eqv a b = true → a = b)
    (cfg : Cfg F) (st : RunSt F) (hc : cfg.consistent eqv = true)
    (hl : ∀ d ∈ cfg.level, compSeen d st.chain = some d.own) :
    ∀ o ∈ (cfg.exec st).trace, o ∈ st.trace ∨ o.own := by
  induction cfg generalizing st with
  | done => intro o ho; exact Or.inl ho
  | leaf c rest ih =>
    simp only [Cfg.level, List.mem_cons, forall_eq_or_imp] at hl
    simp only [Cfg.consistent] at hc
    intro o ho
    simp only [Cfg.exec] at ho
    rcases ih (execLeaf c st) hc (by rw [execLeaf_chain]; exact hl.2) o ho with h | h
    · exact execLeaf_trace c st hl.1 o h
    · exact Or.inr h
  | scope body rest ihb ih =>
    simp only [Cfg.level] at hl
    simp only [Cfg.consistent, Bool.and_eq_true] at hc
    obtain ⟨⟨hlev, hb⟩, hr⟩ := hc
    intro o ho
    simp only [Cfg.exec] at ho
    split at ho
    · exact Or.inl ho
    · have hinner := ihb { st with chain := body.init st.chain.push } hb
        (fun d hd => Cfg.init_sees eqv heq body d _ (fun c hcm => (levelConsistent_iff eqv _).mp hlev c hcm d hd) (Or.inl hd))
      have hch : ((body.exec { st with chain := body.init st.chain.push }).chain).pop = st.chain := by
        rw [Cfg.exec_chain]
        exact pop_of_below _ _ _ (by rw [Cfg.init_below]; rfl)
      rw [hch] at ho
      rcases ih _ hr (by simpa using hl) o ho with h | h
      · exact hinner o h
      · exact Or.inr h
  | loop n body rest ihb ih =>
    simp only [Cfg.level, List.mem_append] at hl
    simp only [Cfg.consistent, Bool.and_eq_true] at hc
    intro o ho
    simp only [Cfg.exec] at ho
    have hP := iterate_inv body.exec
      (fun s => s.chain = st.chain ∧ ∀ o ∈ s.trace, o ∈ st.trace ∨ o.own)
      (fun s hs => by
        refine ⟨(Cfg.exec_chain body s).trans hs.1, fun o ho => ?_⟩
        rcases ihb s hc.1 (by rw [hs.1]; exact fun d hd => hl d (Or.inl hd)) o ho with h | h
        · exact hs.2 o h
        · exact Or.inr h) n st ⟨rfl, fun o ho => Or.inl ho⟩
    rcases ih _ hc.2 (by rw [hP.1]; exact fun d hd => hl d (Or.inr hd)) o ho with h | h
    · exact hP.2 o h
    · exact Or.inr h
  | branch b tb eb rest iht ihe ih =>
    simp only [Cfg.level, List.mem_append] at hl
    simp only [Cfg.consistent, Bool.and_eq_true] at hc
    intro o ho
    simp only [Cfg.exec] at ho
    cases b
    · simp only [Bool.false_eq_true, if_false] at ho
      rcases ih _ hc.2.2 (by rw [Cfg.exec_chain]; exact fun d hd => hl d (Or.inr (Or.inr hd))) o ho with h | h
      · exact ihe st hc.2.1 (fun d hd => hl d (Or.inr (Or.inl hd))) o h
      · exact Or.inr h
    · simp only [if_true] at ho
      rcases ih _ hc.2.2 (by rw [Cfg.exec_chain]; exact fun d hd => hl d (Or.inr (Or.inr hd))) o ho with h | h
      · exact iht st hc.1 (fun d hd => hl d (Or.inl hd)) o h
      · exact Or.inr h

/-- `Configuration::run` of a well-formed configuration on ANY state. -/
theorem Cfg.run_own (eqv : Param F → Param F → Bool) (heq : ∀ a b, eqv a b = true → a = b)
    (cfg : Cfg F) (ch : PChain F) (hw : cfg.wellFormedBy eqv = true) :
    ∀ o ∈ (cfg.run ch).trace, o.own := by
  simp only [Cfg.wellFormedBy, Bool.and_eq_true] at hw
  intro o ho
  rcases Cfg.exec_trace_own eqv heq cfg ⟨cfg.init ch, [], true⟩ hw.2
    (fun d hd => Cfg.init_sees eqv heq cfg d ch (fun c hcm => (levelConsistent_iff eqv _).mp hw.1 c hcm d hd) (Or.inl hd)) o ho with h | h
  · simp at h
  · exact h

theorem runAll_own (eqv : Param F → Param F → Bool) (heq : ∀ a b, eqv a b = true → a = b)
    (cfgs : List (Cfg F)) (ch : PChain F) (hw : ∀ cfg ∈ cfgs, cfg.wellFormedBy eqv = true) :
    ∀ t ∈ (runAll cfgs ch).1, ∀ o ∈ t, o.own := by
  induction cfgs generalizing ch with
  | nil => simp [runAll]
  | cons cfg rest ih =>
    simp only [List.mem_cons, forall_eq_or_imp] at hw
    intro t ht
    simp only [runAll, List.mem_cons] at ht
    rcases ht with rfl | ht
    · exact Cfg.run_own eqv heq cfg ch hw.1
    · exact ih _ hw.2 t ht
end ExecDec

/-! ### which instances a run executes -/

section Unroll
variable [LE F] [DecidableLE F] [OfNat F 0] [OfNat F 1] [OfNat F 2]

theorem iterate_fix {σ : Type} (f : σ → σ) (s : σ) (h : f s = s) (n : Nat) : iterate f n s = s := by
  induction n with
  | zero => rfl
  | succ n ih => simp [iterate, h, ih]

/-- Once a component has failed nothing is executed any more. -/
theorem Cfg.exec_dead (cfg : Cfg F) (st : RunSt F) (h : st.live = false) : cfg.exec st = st := by
  induction cfg generalizing st with
  | done => rfl
  | leaf c rest ih =>
    have : execLeaf c st = st := by simp [execLeaf, h]
    simp [Cfg.exec, this, ih st h]
  | scope body rest _ ih => simp [Cfg.exec, h]
  | loop n body rest ihb ih => simp [Cfg.exec, iterate_fix body.exec st (ihb st h) n, ih st h]
  | branch b tb eb rest iht ihe ih => simp [Cfg.exec, iht st h, ihe st h, ih st h]

theorem Cfg.live_of_exec_live (cfg : Cfg F) (st : RunSt F) (h : (cfg.exec st).live = true) : st.live = true := by
  cases hl : st.live with
  | true => rfl
  | false => rw [Cfg.exec_dead cfg st hl, hl] at h; cases h

theorem execLeaf_comps (c : PComp F) (st : RunSt F) (h : st.live = true) :
    (execLeaf c st).trace.map (·.comp) = st.trace.map (·.comp) ++ [c] := by
  unfold execLeaf
  simp only [h, Bool.not_true, Bool.false_eq_true, if_false]
  split <;> simp

/-- A run in which no guard fails executes exactly the instances of `unroll`, in that order. -/
theorem Cfg.exec_comps (cfg : Cfg F) (st : RunSt F) (h : (cfg.exec st).live = true) :
    (cfg.exec st).trace.map (·.comp) = st.trace.map (·.comp) ++ cfg.unroll := by
  induction cfg generalizing st with
  | done => simp [Cfg.exec, Cfg.unroll]
  | leaf c rest ih =>
    simp only [Cfg.exec] at h ⊢
    have hl' := Cfg.live_of_exec_live rest _ h
    have hl : st.live = true := by
      cases hs : st.live with
      | true => rfl
      | false => simp [execLeaf, hs] at hl'
    rw [ih _ h, execLeaf_comps c st hl]
    simp [Cfg.unroll]
  | scope body rest ihb ih =>
    have hl : st.live = true := Cfg.live_of_exec_live _ st h
    simp only [Cfg.exec, hl, Bool.not_true, Bool.false_eq_true, if_false] at h ⊢
    have hi := Cfg.live_of_exec_live rest _ h
    rw [ih _ h]
    simp only at hi ⊢
    rw [ihb _ hi]
    simp [Cfg.unroll]
  | loop n body rest ihb ih =>
    simp only [Cfg.exec] at h ⊢
    have hi := Cfg.live_of_exec_live rest _ h
    rw [ih _ h]
    have key : ∀ (n : Nat) (s : RunSt F), (iterate body.exec n s).live = true →
        (iterate body.exec n s).trace.map (·.comp) = s.trace.map (·.comp) ++ (List.replicate n body.unroll).flatten := by
      intro n
      induction n with
      | zero => intro s _; simp [iterate]
      | succ n ihn =>
        intro s hs
        simp only [iterate] at hs ⊢
        have hb : (body.exec s).live = true := by
          cases hx : (body.exec s).live with
          | true => rfl
          | false => rw [iterate_fix body.exec (body.exec s) (Cfg.exec_dead body _ hx) n, hx] at hs; cases hs
        rw [ihn _ hs, ihb _ hb]
        simp [List.replicate_succ]
    rw [key n st hi]
    simp [Cfg.unroll]
  | branch b tb eb rest iht ihe ih =>
    simp only [Cfg.exec] at h ⊢
    have hi := Cfg.live_of_exec_live rest _ h
    rw [ih _ h]
    cases b
    · simp only [Bool.false_eq_true, if_false] at hi ⊢
      rw [ihe _ hi]
      simp [Cfg.unroll]
    · simp only [if_true] at hi ⊢
      rw [iht _ hi]
      simp [Cfg.unroll]

theorem Cfg.run_comps (cfg : Cfg F) (ch : PChain F) (h : (cfg.run ch).live = true) :
    (cfg.run ch).trace.map (·.comp) = cfg.unroll := by
  simpa [Cfg.run] using Cfg.exec_comps cfg ⟨cfg.init ch, [], true⟩ h
end Unroll

end MahfModel.Variation
