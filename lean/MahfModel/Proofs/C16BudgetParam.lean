/- The pass-count prediction on the iterated-local-search templates as functions of their parameters. -/
import MahfModel.Proofs.C16Budget
import MahfModel.Proofs.C16Param
namespace MahfModel.Tpl
set_option linter.unusedSimpArgs false

theorem toB_loop_fix (body : SComp) (cs : List BCond) (st out : AbsStack) (b : BComp) (cs' : List BCond)
    (hb : toB body cs.tail st = some (b, out, cs')) (hj : stackJoin st out = some st)
    (h1 : stackLe st st = true) (h2 : stackLe out st = true) :
    toB (.loop body) cs st = some (.loop (cs.headD .opaque) b, st, cs') := by
  have hf := findInv_fix (fun s => (toB body cs.tail s).map (·.2.1)) 8 3 st out (by simp [hb]) hj
  simp only [toB, hf, hb, h1, h2, Bool.and_self, if_true]

macro "tob_eval" : tactic =>
  `(tactic| simp [sq, SComps.ofList, l0, evalUpd, toB, toBs, sizeStep, opOf, astep, Itv.exact, stackJoin, leafB, evalLeaf,
      Itv.join, Itv.hiMax, Itv.hiMin, Itv.hiAdd, Itv.hiLe, Itv.mulC, Itv.divC, Itv.add, Itv.capC, Itv.meet, Itv.half,
      bsq, BComps.ofList])

theorem ils_inner_real (k : Nat) (cs : List BCond) :
    toB (lsLoop .NormalMutation .Saturation k) cs [⟨1, some 1⟩, ⟨1, some 1⟩] =
      some (lsB (cs.headD .opaque) k, [⟨1, some 1⟩, ⟨1, some 1⟩], cs.tail) := by
  unfold lsLoop lsB
  apply toB_loop_fix (out := [⟨1, some 1⟩, ⟨1, some 1⟩])
  · tob_eval
  · simp [stackJoin, Itv.join, Itv.hiMax]
  · simp [stackLe, Itv.le, Itv.hiLe]
  · simp [stackLe, Itv.le, Itv.hiLe]

theorem ils_inner_perm (k : Nat) (cs : List BCond) :
    toB (lsLoop .SwapMutation .Noop k) cs [⟨1, some 1⟩, ⟨1, some 1⟩] =
      some (lsB (cs.headD .opaque) k, [⟨1, some 1⟩, ⟨1, some 1⟩], cs.tail) := by
  unfold lsLoop lsB
  apply toB_loop_fix (out := [⟨1, some 1⟩, ⟨1, some 1⟩])
  · tob_eval
  · simp [stackJoin, Itv.join, Itv.hiMax]
  · simp [stackLe, Itv.le, Itv.hiLe]
  · simp [stackLe, Itv.le, Itv.hiLe]

theorem real_ils_toB (k : Nat) (c ci : BCond) :
    toBTop (ilsS .RandomSpread .PartialRandomSpread .NormalMutation .Saturation k) [c, ci] = some (ilsB k c ci) := by
  have hin := ils_inner_real k [ci]
  have hl := toB_loop_fix (sq ([l0 .PartialRandomSpread] ++ evalUpd ++ [l0 .All,
      .scope (sq [sq [lsLoop .NormalMutation .Saturation k]]), l0 .BestIndividualUpdate, .leaf .MuPlusLambda 1 0, l0 .Logger]))
      [c, ci] [⟨1, some 1⟩] [⟨1, some 1⟩]
      (bsq [.leaf, .eval 1, .leaf, .leaf, .scope (bsq [bsq [lsB ci k]]), .leaf, .leaf, .leaf]) []
      (by
        generalize lsLoop .NormalMutation .Saturation k = L at hin ⊢
        simp [sq, SComps.ofList, l0, evalUpd, toB, toBs, sizeStep, opOf, astep, Itv.exact, Itv.mulC, hin, leafB, evalLeaf,
          Itv.add, Itv.capC, Itv.hiAdd, bsq, BComps.ofList])
      (by simp [stackJoin, Itv.join, Itv.hiMax]) (by simp [stackLe, Itv.le, Itv.hiLe]) (by simp [stackLe, Itv.le, Itv.hiLe])
  simp only [ilsS, sq, SComps.ofList, List.cons_append, List.nil_append, evalUpd, l0] at hl ⊢
  generalize SComp.loop _ = L at hl ⊢
  simp [toBTop, toB, toBs, sizeStep, opOf, astep, Itv.exact, leafB, evalLeaf, hl, ilsB, bsq, BComps.ofList]

theorem permutation_ils_toB (k : Nat) (c ci : BCond) :
    toBTop (ilsS .RandomPermutation .ScrambleMutation .SwapMutation .Noop k) [c, ci] = some (ilsB k c ci) := by
  have hin := ils_inner_perm k [ci]
  have hl := toB_loop_fix (sq ([l0 .ScrambleMutation] ++ evalUpd ++ [l0 .All,
      .scope (sq [sq [lsLoop .SwapMutation .Noop k]]), l0 .BestIndividualUpdate, .leaf .MuPlusLambda 1 0, l0 .Logger]))
      [c, ci] [⟨1, some 1⟩] [⟨1, some 1⟩]
      (bsq [.leaf, .eval 1, .leaf, .leaf, .scope (bsq [bsq [lsB ci k]]), .leaf, .leaf, .leaf]) []
      (by
        generalize lsLoop .SwapMutation .Noop k = L at hin ⊢
        simp [sq, SComps.ofList, l0, evalUpd, toB, toBs, sizeStep, opOf, astep, Itv.exact, Itv.mulC, hin, leafB, evalLeaf,
          Itv.add, Itv.capC, Itv.hiAdd, bsq, BComps.ofList])
      (by simp [stackJoin, Itv.join, Itv.hiMax]) (by simp [stackLe, Itv.le, Itv.hiLe]) (by simp [stackLe, Itv.le, Itv.hiLe])
  simp only [ilsS, sq, SComps.ofList, List.cons_append, List.nil_append, evalUpd, l0] at hl ⊢
  generalize SComp.loop _ = L at hl ⊢
  simp [toBTop, toB, toBs, sizeStep, opOf, astep, Itv.exact, leafB, evalLeaf, hl, ilsB, bsq, BComps.ofList]

theorem repLog_nil (m : Nat) : repLog m [] = [] := by
  induction m with
  | zero => rfl
  | succ m ih => simp [repLog, ih]

theorem ilsB_init (k : Nat) (c ci : BCond) (prior : Lvl) : binit (ilsB k c ci) prior = ⟨some 0, some 0⟩ := by
  cases prior
  simp [ilsB, lsB, bsq, BComps.ofList, binit, binits]

theorem ils_predict (k : Nat) (c ci : BCond) (hc : c.static = true) (hci : ci.static = true) (F p0 m : Nat) (prior : Lvl)
    (h0 : firstStop c 1 F 0 (some 1) = some p0) (hm : firstStop ci k F 0 (some 0) = some m) :
    predictRun F (ilsB k c ci) prior = some (⟨some p0, some (1 + p0)⟩, repLog p0 [(1, m)] ++ [(0, p0)]) := by
  simp only [predictRun, ilsB_init]
  simp [ilsB, lsB, bsq, BComps.ofList, predict, predicts, binit, binits, Lvl.empty, directB, directBs, evalsOf, evalsOfL,
    hc, hci, h0, hm, repLog, repLog_nil]
end MahfModel.Tpl
