/- Helper lemmas for C01 (state registry = stack of typed maps). Core only. -/
import MahfModel.Model.Registry
import MahfModel.Model.Borrow
namespace MahfModel.Registry

/-! ### maps -/

@[simp] theorem Scope.get?_nil (k : Key) : Scope.get? [] k = none := rfl
theorem Scope.get?_cons (k' : Key) (c : Cell) (t : Scope) (k : Key) :
    Scope.get? ((k', c) :: t) k = if k' = k then some c else Scope.get? t k := rfl

theorem Scope.get?_erase (s : Scope) (k k' : Key) :
    (s.erase k).get? k' = if k' = k then none else s.get? k' := by
  induction s with
  | nil => simp [Scope.erase]
  | cons e t ih =>
    obtain ⟨a, c⟩ := e
    simp only [Scope.erase]
    split <;> simp only [Scope.get?_cons, ih] <;> grind

theorem Scope.get?_put (s : Scope) (k : Key) (c : Cell) (k' : Key) :
    (s.put k c).get? k' = if k' = k then some c else s.get? k' := by
  simp only [Scope.put, Scope.get?_cons, Scope.get?_erase]; grind

theorem Scope.get?_modify (s : Scope) (k : Key) (f : Cell → Cell) (k' : Key) :
    (s.modify k f).get? k' = if k' = k then (s.get? k).map f else s.get? k' := by
  induction s with
  | nil => simp [Scope.modify]
  | cons e t ih =>
    obtain ⟨a, c⟩ := e
    simp only [Scope.modify]
    split <;> simp only [Scope.get?_cons, ih] <;> grind

theorem Scope.modify_congr (s : Scope) (k : Key) (f g : Cell → Cell)
    (h : ∀ c, s.get? k = some c → f c = g c) : s.modify k f = s.modify k g := by
  induction s with
  | nil => rfl
  | cons e t ih =>
    obtain ⟨a, c⟩ := e
    simp only [Scope.modify]
    by_cases hk : a = k
    · simp only [hk, if_true]; rw [h c (by simp [Scope.get?_cons, hk])]
    · simp only [hk, if_false]; rw [ih (fun c' hc => h c' (by simpa [Scope.get?_cons, hk] using hc))]

theorem Scope.modify_modify (s : Scope) (k : Key) (f g : Cell → Cell) :
    (s.modify k f).modify k g = s.modify k (fun c => g (f c)) := by
  induction s with
  | nil => rfl
  | cons e t ih =>
    obtain ⟨a, c⟩ := e
    simp only [Scope.modify]
    by_cases hk : a = k
    · simp [hk, Scope.modify]
    · simp [hk, Scope.modify, ih]

theorem Scope.has_eq (s : Scope) (k : Key) : s.has k = (s.view k).isSome := by
  simp [Scope.has, Scope.view]

theorem Scope.view_erase (s : Scope) (k : Key) : (s.erase k).view = (s.view).set k none := by
  funext k'; simp only [Scope.view, PMap.set, Scope.get?_erase]; grind

theorem Scope.view_put (s : Scope) (k : Key) (c : Cell) : (s.put k c).view = (s.view).set k (some c.val) := by
  funext k'; simp only [Scope.view, PMap.set, Scope.get?_put]; grind

theorem Scope.view_modify (s : Scope) (k : Key) (f : Cell → Cell) :
    (s.modify k f).view = (s.view).set k ((s.get? k).map fun c => (f c).val) := by
  funext k'; simp only [Scope.view, PMap.set, Scope.get?_modify]
  split
  · cases s.get? k <;> simp
  · rfl

/-! ### chains -/

theorem findIdx_lt {α : Type} (p : α → Bool) (l : List α) (i : Nat) (h : findIdx p l = some i) :
    i < l.length := by
  induction l generalizing i with
  | nil => simp [findIdx] at h
  | cons a t ih =>
    simp only [findIdx] at h
    split at h
    · cases h; simp
    · cases h' : findIdx p t with
      | none => simp [h'] at h
      | some j => simp [h'] at h; subst h; have := ih j h'; simp; omega

theorem modifyAt_length {α : Type} (l : List α) (i : Nat) (f : α → α) : (modifyAt l i f).length = l.length := by
  induction l generalizing i with
  | nil => rfl
  | cons a t ih => cases i <;> simp [modifyAt, ih]

theorem modifyAt_modifyAt {α : Type} (l : List α) (i : Nat) (f g : α → α) :
    modifyAt (modifyAt l i f) i g = modifyAt l i (fun a => g (f a)) := by
  induction l generalizing i with
  | nil => rfl
  | cons a t ih => cases i <;> simp [modifyAt, ih]

theorem getD_modifyAt {α : Type} (l : List α) (i j : Nat) (f : α → α) (d : α) (h : i < l.length) :
    (modifyAt l i f).getD j d = if j = i then f (l.getD i d) else l.getD j d := by
  induction l generalizing i j with
  | nil => simp at h
  | cons a t ih =>
    cases i with
    | zero => cases j <;> simp [modifyAt]
    | succ i =>
      cases j with
      | zero => simp [modifyAt]
      | succ j =>
        have := ih i j (by simpa using h)
        simp only [modifyAt, List.getD_cons_succ, this]; grind

theorem modifyAt_congr {α : Type} (l : List α) (i : Nat) (f g : α → α) (d : α)
    (h : f (l.getD i d) = g (l.getD i d)) : modifyAt l i f = modifyAt l i g := by
  induction l generalizing i with
  | nil => rfl
  | cons a t ih =>
    cases i with
    | zero => simp [modifyAt] at *; exact h
    | succ i => simp only [modifyAt]; rw [ih i (by simpa using h)]

theorem map_modifyAt {α β : Type} (l : List α) (i : Nat) (f : α → α) (g : β → β) (m : α → β) (d : α)
    (h : m (f (l.getD i d)) = g (m (l.getD i d))) : (modifyAt l i f).map m = modifyAt (l.map m) i g := by
  induction l generalizing i with
  | nil => rfl
  | cons a t ih =>
    cases i with
    | zero => simp [modifyAt] at *; exact h
    | succ i => simp only [modifyAt, List.map_cons]; rw [ih i (by simpa using h)]

theorem find_cons (s : Scope) (p : Reg) (k : Key) :
    find (s :: p) k = if s.has k then some 0 else (find p k).map (· + 1) := rfl

@[simp] theorem find_nil (k : Key) : find [] k = none := rfl

theorem scopeAt_zero (s : Scope) (p : Reg) : scopeAt (s :: p) 0 = s := rfl
theorem scopeAt_succ (s : Scope) (p : Reg) (i : Nat) : scopeAt (s :: p) (i + 1) = scopeAt p i := by
  simp [scopeAt]

theorem find_lt (r : Reg) (k : Key) (i : Nat) (h : find r k = some i) : i < r.length :=
  findIdx_lt _ r i h

/-- The found registry really holds the type. -/
theorem find_has (r : Reg) (k : Key) (i : Nat) (h : find r k = some i) : (scopeAt r i).has k = true := by
  induction r generalizing i with
  | nil => simp at h
  | cons s p ih =>
    rw [find_cons] at h
    split at h
    · cases h; simpa [scopeAt_zero]
    · cases h' : find p k with
      | none => simp [h'] at h
      | some j => simp [h'] at h; subst h; rw [scopeAt_succ]; exact ih j h'

/-- … and no registry before it does (innermost). -/
theorem find_first (r : Reg) (k : Key) (i j : Nat) (h : find r k = some i) (hj : j < i) :
    (scopeAt r j).has k = false := by
  induction r generalizing i j with
  | nil => simp at h
  | cons s p ih =>
    rw [find_cons] at h
    split at h
    · cases h; omega
    · rename_i hs
      cases h' : find p k with
      | none => simp [h'] at h
      | some i' =>
        simp [h'] at h; subst h
        cases j with
        | zero => simpa [scopeAt_zero] using hs
        | succ j => rw [scopeAt_succ]; exact ih i' j h' (by omega)

theorem find_none (r : Reg) (k : Key) (h : find r k = none) (i : Nat) : (scopeAt r i).has k = false := by
  induction r generalizing i with
  | nil => simp [scopeAt, Scope.has]
  | cons s p ih =>
    rw [find_cons] at h
    split at h
    · cases h
    · rename_i hs
      cases h' : find p k with
      | some j => simp [h'] at h
      | none =>
        cases i with
        | zero => simpa [scopeAt_zero] using hs
        | succ i => rw [scopeAt_succ]; exact ih h' i

theorem find_cell (r : Reg) (k : Key) (i : Nat) (h : find r k = some i) : ∃ c, cellAt r i k = some c := by
  have := find_has r k i h
  simp only [Scope.has] at this
  exact Option.isSome_iff_exists.mp this

/-! ### abstraction -/

theorem abs_cons (s : Scope) (p : Reg) : abs (s :: p) = s.view :: abs p := rfl
@[simp] theorem abs_nil : abs [] = [] := rfl
@[simp] theorem abs_length (r : Reg) : (abs r).length = r.length := by simp [abs]

theorem find_abs (r : Reg) (k : Key) : find r k = (abs r).depthOf k := by
  induction r with
  | nil => rfl
  | cons s p ih => simp only [find_cons, abs_cons, Spec.depthOf, ih, Scope.has_eq]

/-- The cell `find` resolves to carries the value the innermost-first lookup sees. -/
theorem lookup_found (r : Reg) (k : Key) (i : Nat) (c : Cell) (h : find r k = some i)
    (hc : cellAt r i k = some c) : (abs r).lookup k = some c.val := by
  induction r generalizing i with
  | nil => simp at h
  | cons s p ih =>
    rw [find_cons] at h
    simp only [abs_cons, Spec.lookup]
    split at h
    · cases h
      simp only [cellAt, scopeAt_zero] at hc
      simp [Scope.view, hc]
    · rename_i hs
      cases h' : find p k with
      | none => simp [h'] at h
      | some j =>
        simp [h'] at h; subst h
        simp only [cellAt, scopeAt_succ] at hc
        have hv : s.view k = none := by
          simpa [Scope.has_eq] using hs
        simp only [hv]
        exact ih j h' hc

theorem lookup_not_found (r : Reg) (k : Key) (h : find r k = none) : (abs r).lookup k = none := by
  induction r with
  | nil => rfl
  | cons s p ih =>
    rw [find_cons] at h
    simp only [abs_cons, Spec.lookup]
    split at h
    · cases h
    · rename_i hs
      have hv : s.view k = none := by simpa [Scope.has_eq] using hs
      cases h' : find p k with
      | some j => simp [h'] at h
      | none => simp only [hv]; exact ih h'

theorem updFirst_eq_modifyAt (sp : Spec) (k : Key) (v : Option Nat) (i : Nat) (h : sp.depthOf k = some i) :
    sp.updFirst k v = modifyAt sp i (·.set k v) := by
  induction sp generalizing i with
  | nil => simp [Spec.depthOf] at h
  | cons m p ih =>
    simp only [Spec.depthOf] at h
    simp only [Spec.updFirst]
    split at h
    · cases h; rename_i hm; simp [hm, modifyAt]
    · rename_i hm
      cases h' : Spec.depthOf p k with
      | none => simp [h'] at h
      | some j => simp [h'] at h; subst h; simp [hm, modifyAt, ih j h']

theorem updFirst_absent (sp : Spec) (k : Key) (v : Option Nat) (h : sp.depthOf k = none) :
    sp.updFirst k v = sp := by
  induction sp with
  | nil => rfl
  | cons m p ih =>
    simp only [Spec.depthOf] at h
    simp only [Spec.updFirst]
    split at h
    · cases h
    · rename_i hm
      cases h' : Spec.depthOf p k with
      | some j => simp [h'] at h
      | none => simp [hm, ih h']

/-- Changing the found registry's map so that only `k`'s binding changes (to `v`) is `updFirst`. -/
theorem abs_modifyAt_found (r : Reg) (k : Key) (i : Nat) (F : Scope → Scope) (v : Option Nat)
    (h : find r k = some i) (hF : (F (scopeAt r i)).view = ((scopeAt r i).view).set k v) :
    abs (modifyAt r i F) = (abs r).updFirst k v := by
  rw [updFirst_eq_modifyAt _ _ _ i (by rw [← find_abs]; exact h)]
  exact map_modifyAt r i F (fun m : PMap => m.set k v) Scope.view [] hF

theorem scopeAt_modifyAt (r : Reg) (i j : Nat) (F : Scope → Scope) (h : i < r.length) :
    scopeAt (modifyAt r i F) j = if j = i then F (scopeAt r i) else scopeAt r j := by
  unfold scopeAt; exact getD_modifyAt r i j F [] h

theorem modifyAt_id {α : Type} (l : List α) (i : Nat) : modifyAt l i id = l := by
  induction l generalizing i with
  | nil => rfl
  | cons a t ih => cases i <;> simp [modifyAt, ih]

/-- A flag-only change of a map is invisible. -/
theorem abs_modifyAt_same (r : Reg) (i : Nat) (F : Scope → Scope)
    (hF : (F (scopeAt r i)).view = (scopeAt r i).view) : abs (modifyAt r i F) = abs r := by
  have := map_modifyAt r i F id Scope.view [] hF
  rw [abs, this, modifyAt_id]; rfl

theorem cellAt_modifyAt (r : Reg) (i : Nat) (F : Scope → Scope) (k : Key) (h : i < r.length) :
    cellAt (modifyAt r i F) i k = (F (scopeAt r i)).get? k := by
  simp [cellAt, scopeAt_modifyAt r i i F h]

/-! ### quiescence (no live guard) -/

theorem Scope.quiet_get (s : Scope) (k : Key) (c : Cell) (h : s.quiet = true) (hc : s.get? k = some c) :
    c.readers = 0 ∧ c.writer = false := by
  induction s with
  | nil => simp at hc
  | cons e t ih =>
    obtain ⟨a, c'⟩ := e
    simp only [Scope.quiet, List.all_cons, Bool.and_eq_true] at h
    simp only [Scope.get?_cons] at hc
    split at hc
    · cases hc; simpa [Cell.quiet] using h.1
    · exact ih h.2 hc

theorem Scope.quiet_erase (s : Scope) (k : Key) (h : s.quiet = true) : (s.erase k).quiet = true := by
  induction s with
  | nil => rfl
  | cons e t ih =>
    obtain ⟨a, c'⟩ := e
    simp only [Scope.quiet, List.all_cons, Bool.and_eq_true] at h
    simp only [Scope.erase]
    split
    · exact ih h.2
    · simp only [Scope.quiet, List.all_cons, Bool.and_eq_true]; exact ⟨h.1, ih h.2⟩

theorem Scope.quiet_put (s : Scope) (k : Key) (v : Nat) (h : s.quiet = true) : (s.put k (fresh v)).quiet = true := by
  have := Scope.quiet_erase s k h
  simp only [Scope.put, Scope.quiet, List.all_cons, Bool.and_eq_true]
  exact ⟨by simp [fresh, Cell.quiet], this⟩

theorem Scope.quiet_modify (s : Scope) (k : Key) (f : Cell → Cell) (h : s.quiet = true)
    (hf : ∀ c, c.quiet = true → (f c).quiet = true) : (s.modify k f).quiet = true := by
  induction s with
  | nil => rfl
  | cons e t ih =>
    obtain ⟨a, c'⟩ := e
    simp only [Scope.quiet, List.all_cons, Bool.and_eq_true] at h
    simp only [Scope.modify]
    split
    · simp only [Scope.quiet, List.all_cons, Bool.and_eq_true]; exact ⟨hf _ h.1, h.2⟩
    · simp only [Scope.quiet, List.all_cons, Bool.and_eq_true]; exact ⟨h.1, ih h.2⟩

theorem quiet_cons (s : Scope) (p : Reg) : quiet (s :: p) = (s.quiet && quiet p) := rfl

theorem quiet_scopeAt (r : Reg) (i : Nat) (h : quiet r = true) : (scopeAt r i).quiet = true := by
  induction r generalizing i with
  | nil => simp [scopeAt, Scope.quiet]
  | cons s p ih =>
    simp only [quiet_cons, Bool.and_eq_true] at h
    cases i with
    | zero => exact h.1
    | succ i => rw [scopeAt_succ]; exact ih i h.2

theorem quiet_cell (r : Reg) (i : Nat) (k : Key) (c : Cell) (h : quiet r = true) (hc : cellAt r i k = some c) :
    c.readers = 0 ∧ c.writer = false :=
  Scope.quiet_get _ k c (quiet_scopeAt r i h) hc

theorem quiet_modifyAt (r : Reg) (i : Nat) (F : Scope → Scope) (h : quiet r = true)
    (hF : ∀ s, s.quiet = true → (F s).quiet = true) : quiet (modifyAt r i F) = true := by
  induction r generalizing i with
  | nil => rfl
  | cons s p ih =>
    simp only [quiet_cons, Bool.and_eq_true] at h
    cases i with
    | zero => simp only [modifyAt, quiet_cons, Bool.and_eq_true]; exact ⟨hF s h.1, h.2⟩
    | succ i => simp only [modifyAt, quiet_cons, Bool.and_eq_true]; exact ⟨h.1, ih i h.2⟩

theorem quiet_writeAt (r : Reg) (i : Nat) (k : Key) (f : Nat → Nat) (h : quiet r = true) :
    quiet (writeAt r i k f) = true :=
  quiet_modifyAt r i _ h (fun s hs => Scope.quiet_modify s k _ hs (fun c hc => by simpa [Cell.quiet] using hc))

theorem quiet_drop (r : Reg) (d : Nat) (h : quiet r = true) : quiet (r.drop d) = true := by
  induction r generalizing d with
  | nil => simp [quiet]
  | cons s p ih =>
    cases d with
    | zero => simpa using h
    | succ d => simp only [quiet_cons, Bool.and_eq_true] at h; simpa using ih d h.2

theorem quiet_append (a b : Reg) : quiet (a ++ b) = (quiet a && quiet b) := by
  simp [quiet, List.all_append]

theorem quiet_take (r : Reg) (d : Nat) (h : quiet r = true) : quiet (r.take d) = true := by
  induction r generalizing d with
  | nil => simp [quiet]
  | cons s p ih =>
    cases d with
    | zero => simp [quiet]
    | succ d =>
      simp only [quiet_cons, Bool.and_eq_true] at h
      simp only [List.take_succ_cons, quiet_cons, Bool.and_eq_true]; exact ⟨h.1, ih d h.2⟩

/-! ### resolution, the one case split every operation needs -/

theorem resolve (r : Reg) (k : Key) :
    (find r k = none ∧ (abs r).lookup k = none ∧ (abs r).depthOf k = none ∧ ∀ i, (scopeAt r i).has k = false) ∨
    (∃ i c, find r k = some i ∧ i < r.length ∧ cellAt r i k = some c ∧ (abs r).lookup k = some c.val ∧
      (abs r).depthOf k = some i ∧ (scopeAt r i).has k = true) := by
  cases h : find r k with
  | none => exact Or.inl ⟨rfl, lookup_not_found r k h, by rw [← find_abs]; exact h, find_none r k h⟩
  | some i =>
    obtain ⟨c, hc⟩ := find_cell r k i h
    exact Or.inr ⟨i, c, rfl, find_lt r k i h, hc, lookup_found r k i c h hc, by rw [← find_abs]; exact h,
      find_has r k i h⟩

theorem abs_erase_found (r : Reg) (k : Key) (i : Nat) (h : find r k = some i) :
    abs (modifyAt r i (·.erase k)) = (abs r).updFirst k none :=
  abs_modifyAt_found r k i _ none h (Scope.view_erase _ k)

theorem abs_put_found (r : Reg) (k : Key) (i : Nat) (c : Cell) (h : find r k = some i) :
    abs (modifyAt r i (·.put k c)) = (abs r).updFirst k (some c.val) :=
  abs_modifyAt_found r k i _ _ h (Scope.view_put _ k c)

theorem abs_writeAt (r : Reg) (k : Key) (i : Nat) (c : Cell) (f : Nat → Nat) (h : find r k = some i)
    (hc : cellAt r i k = some c) : abs (writeAt r i k f) = (abs r).updFirst k (some (f c.val)) := by
  apply abs_modifyAt_found r k i _ _ h
  rw [Scope.view_modify]
  simp only [cellAt] at hc
  simp [hc]

theorem abs_put_top (r : Reg) (k : Key) (c : Cell) (h : r ≠ []) :
    abs (modifyAt r 0 (·.put k c)) = (abs r).setTop k (some c.val) := by
  cases r with
  | nil => exact absurd rfl h
  | cons s p => simp [modifyAt, abs_cons, Spec.setTop, Scope.view_put]

theorem top_abs (r : Reg) (k : Key) : (abs r).top k = (scopeAt r 0).view k := by
  cases r with
  | nil => simp [Spec.top, PMap.empty, scopeAt, Scope.view]
  | cons s p => simp [abs_cons, Spec.top, scopeAt_zero]

theorem lookup_isSome (r : Reg) (k : Key) : ((abs r).lookup k).isSome = (find r k).isSome := by
  rcases resolve r k with ⟨hf, hl, _, _⟩ | ⟨i, c, hf, _, _, hl, _, _⟩ <;> simp [hf, hl]

/-! ### the accessors that go through the `RefCell` flag, on a quiescent registry -/

theorem tryGetValue_quiet (r : Reg) (k : Key) (h : quiet r = true) :
    tryGetValue r k = match (abs r).lookup k with | some v => .ok v | none => .error .notFound := by
  rcases resolve r k with ⟨hf, hl, _, _⟩ | ⟨i, c, hf, hi, hc, hl, _, _⟩
  · simp [tryGetValue, tryBorrow, hf, hl]
  · obtain ⟨_, hw⟩ := quiet_cell r i k c h hc
    have hc' := hc; simp only [cellAt] at hc'
    simp [tryGetValue, tryBorrow, hf, hl, hc, Cell.tryBorrow, hw, cellAt_modifyAt r i _ k hi,
      Scope.get?_modify, hc']

theorem tryBorrowMut_quiet (r : Reg) (k : Key) (i : Nat) (c : Cell) (h : quiet r = true)
    (hf : find r k = some i) (hc : cellAt r i k = some c) :
    tryBorrowMut r k = .ok (modifyAt r i (·.modify k (fun _ => { c with writer := true })), i) := by
  obtain ⟨hr, hw⟩ := quiet_cell r i k c h hc
  simp [tryBorrowMut, hf, hc, Cell.tryBorrowMut, hw, hr]

theorem setValue_quiet (r : Reg) (k : Key) (v : Nat) (i : Nat) (c : Cell) (h : quiet r = true)
    (hf : find r k = some i) (hc : cellAt r i k = some c) :
    setValue r k v = (writeAt r i k (fun _ => v), some c.val) := by
  obtain ⟨hr, hw⟩ := quiet_cell r i k c h hc
  have hi := find_lt r k i hf
  have hc' := hc; simp only [cellAt] at hc'
  have h2 : cellAt (modifyAt r i (·.modify k (fun _ => { c with writer := true }))) i k
      = some { c with writer := true } := by
    rw [cellAt_modifyAt r i _ k hi, Scope.get?_modify]; simp [hc']
  unfold setValue
  rw [tryBorrowMut_quiet r k i c h hf hc]
  simp only [h2, releaseAt, writeAt, modifyAt_modifyAt, Scope.modify_modify]
  congr 1
  apply modifyAt_congr r i _ _ []
  apply Scope.modify_congr
  intro c0 hc0
  have : c0 = c := by
    have : scopeAt r i = r.getD i [] := rfl
    rw [← this, hc'] at hc0; exact (Option.some.inj hc0).symm
  subst this
  cases c0; simp_all [Cell.release]

theorem setValue_absent (r : Reg) (k : Key) (v : Nat) (hf : find r k = none) : setValue r k v = (r, none) := by
  simp [setValue, tryBorrowMut, hf]

/-- The invariant between two operations of a C01 history: the chain has its own map and no guard is alive. -/
def Inv (r : Reg) : Prop := r ≠ [] ∧ quiet r = true

theorem entry_found (r : Reg) (k : Key) (i : Nat) (hf : find r k = some i) : entry r k = (i, true) := by
  simp [entry, contains, hf, find_has r k i hf]

theorem entry_absent (r : Reg) (k : Key) (hf : find r k = none) : entry r k = (0, false) := by
  simp [entry, contains, hf, find_none r k hf 0]

theorem modifyAt_ne_nil {α : Type} (l : List α) (i : Nat) (f : α → α) (h : l ≠ []) : modifyAt l i f ≠ [] := by
  intro h'; have := congrArg List.length h'; rw [modifyAt_length] at this
  exact h (List.eq_nil_of_length_eq_zero (by simpa using this))

theorem quiet_put_at (r : Reg) (i : Nat) (k : Key) (v : Nat) (h : quiet r = true) :
    quiet (modifyAt r i (·.put k (fresh v))) = true :=
  quiet_modifyAt r i _ h (fun s hs => Scope.quiet_put s k v hs)

theorem quiet_erase_at (r : Reg) (i : Nat) (k : Key) (h : quiet r = true) :
    quiet (modifyAt r i (·.erase k)) = true :=
  quiet_modifyAt r i _ h (fun s hs => Scope.quiet_erase s k hs)

theorem busy_quiet (c : Cell) (h : c.readers = 0 ∧ c.writer = false) : c.busy = false := by
  simp [Cell.busy, h.1, h.2]

theorem step_ins (r : Reg) (k : Key) (v : Nat) (h : Inv r) :
    Inv (step r (.ins k v)).1 ∧ (step r (.ins k v)).2 = (specStep (abs r) (.ins k v)).2 ∧
    abs (step r (.ins k v)).1 = (specStep (abs r) (.ins k v)).1 := by
  obtain ⟨hne, hq⟩ := h
  cases r with
  | nil => exact absurd rfl hne
  | cons s p =>
    simp only [quiet_cons, Bool.and_eq_true] at hq
    refine ⟨⟨by simp [step, insert], ?_⟩, ?_, ?_⟩
    · simp only [step, insert, quiet_cons, Bool.and_eq_true]; exact ⟨Scope.quiet_put s k v hq.1, hq.2⟩
    · simp [step, insert, specStep, abs_cons, Spec.top, Scope.view]
    · simp [step, insert, specStep, abs_cons, Spec.setTop, Scope.view_put, fresh]

theorem Scope.modify_self (s : Scope) (k : Key) (f : Cell → Cell) (h : ∀ c, s.get? k = some c → f c = c) :
    s.modify k f = s := by
  induction s with
  | nil => rfl
  | cons e t ih =>
    obtain ⟨a, c⟩ := e
    simp only [Scope.modify]
    by_cases hk : a = k
    · simp only [hk, if_true]; rw [h c (by simp [Scope.get?_cons, hk])]
    · simp only [hk, if_false]; rw [ih (fun c' hc => h c' (by simpa [Scope.get?_cons, hk] using hc))]

theorem writeAt_id (r : Reg) (i : Nat) (k : Key) : writeAt r i k id = r := by
  unfold writeAt
  rw [modifyAt_congr r i _ id [] (by simp; exact Scope.modify_self _ k _ (fun c _ => by cases c; rfl))]
  exact modifyAt_id r i

theorem Scope.has_modify (s : Scope) (k : Key) (f : Cell → Cell) (k' : Key) :
    (s.modify k f).has k' = s.has k' := by
  simp only [Scope.has, Scope.get?_modify]; split
  · rename_i h; subst h; cases s.get? k' <;> simp
  · rfl

theorem findIdx_modifyAt {α : Type} (p : α → Bool) (l : List α) (i : Nat) (f : α → α)
    (h : ∀ a, p (f a) = p a) : findIdx p (modifyAt l i f) = findIdx p l := by
  induction l generalizing i with
  | nil => rfl
  | cons a t ih => cases i <;> simp [modifyAt, findIdx, h, ih]

theorem find_writeAt (r : Reg) (i : Nat) (k : Key) (f : Nat → Nat) (k' : Key) :
    find (writeAt r i k f) k' = find r k' :=
  findIdx_modifyAt _ r i _ (fun s => Scope.has_modify s k _ k')

theorem cellAt_writeAt (r : Reg) (i : Nat) (k : Key) (f : Nat → Nat) (c : Cell) (hi : i < r.length)
    (hc : cellAt r i k = some c) : cellAt (writeAt r i k f) i k = some { c with val := f c.val } := by
  unfold writeAt
  rw [cellAt_modifyAt r i _ k hi, Scope.get?_modify]
  simp only [cellAt] at hc
  simp [hc]

/-- One step of the code-shaped model is one step of the stack of maps. -/
def Refines (r : Reg) (op : ROp) : Prop :=
  Inv (step r op).1 ∧ (step r op).2 = (specStep (abs r) op).2 ∧ abs (step r op).1 = (specStep (abs r) op).1

theorem step_rem (r : Reg) (k : Key) (h : Inv r) : Refines r (.rem k) ∧ Refines r (.take k) := by
  obtain ⟨hne, hq⟩ := h
  rcases resolve r k with ⟨hf, hl, hd, hn⟩ | ⟨i, c, hf, hi, hc, hl, hd, hh⟩
  · simp [Refines, step, specStep, remove, hf, hl, Out.ofRes, Out.orPanic, Inv, hne, hq]
  · simp [Refines, step, specStep, remove, hf, hl, hc, Out.ofRes, Out.orPanic, Inv, hne, hq,
      modifyAt_ne_nil, quiet_erase_at, abs_erase_found r k i hf]

theorem step_reads (r : Reg) (k : Key) (h : Inv r) :
    Refines r (.hasTop k) ∧ Refines r (.has k) ∧ Refines r (.find k) ∧ Refines r (.findMut k) ∧
    Refines r (.get k) ∧ Refines r (.tryGet k) ∧ Refines r (.req k) ∧ Refines r .dump := by
  obtain ⟨hne, hq⟩ := h
  refine ⟨?_, ?_, ?_, ?_, ?_, ?_, ?_, ?_⟩
  · simp [Refines, step, specStep, Inv, hne, hq, containsAtTop, top_abs, Scope.has_eq]
  · simp [Refines, step, specStep, Inv, hne, hq, contains, lookup_isSome]
  · simp [Refines, step, specStep, Inv, hne, hq, find_abs]
  · simp [Refines, step, specStep, Inv, hne, hq, find_abs]
  · simp only [Refines, step, specStep, Inv, tryGetValue_quiet r k hq]
    refine ⟨⟨hne, hq⟩, ?_, trivial⟩
    cases (abs r).lookup k <;> rfl
  · simp only [Refines, step, specStep, Inv, tryGetValue_quiet r k hq]
    refine ⟨⟨hne, hq⟩, ?_, trivial⟩
    cases (abs r).lookup k <;> rfl
  · simp only [Refines, step, specStep, Inv, contains, lookup_isSome]; exact ⟨⟨hne, hq⟩, rfl, trivial⟩
  · simp [Refines, step, specStep, Inv, hne, hq, abs]

theorem getMut_found (r : Reg) (k : Key) (i : Nat) (hf : find r k = some i) : getMut r k = some i := by
  simp [getMut, hf, find_has r k i hf]

theorem inv_writeAt (r : Reg) (i : Nat) (k : Key) (f : Nat → Nat) (h : Inv r) : Inv (writeAt r i k f) :=
  ⟨modifyAt_ne_nil _ _ _ h.1, quiet_writeAt r i k f h.2⟩
theorem inv_put_at (r : Reg) (i : Nat) (k : Key) (v : Nat) (h : Inv r) : Inv (modifyAt r i (·.put k (fresh v))) :=
  ⟨modifyAt_ne_nil _ _ _ h.1, quiet_put_at r i k v h.2⟩
theorem inv_erase_at (r : Reg) (i : Nat) (k : Key) (h : Inv r) : Inv (modifyAt r i (·.erase k)) :=
  ⟨modifyAt_ne_nil _ _ _ h.1, quiet_erase_at r i k h.2⟩

theorem step_writes (r : Reg) (k : Key) (v : Nat) (h : Inv r) :
    Refines r (.set k v) ∧ Refines r (.getMut k v) := by
  have ⟨hne, hq⟩ := h
  rcases resolve r k with ⟨hf, hl, hd, hn⟩ | ⟨i, c, hf, hi, hc, hl, hd, hh⟩
  · simp [Refines, step, specStep, setValue_absent r k v hf, getMut, hf, hl, Out.ofOpt, h]
  · simp [Refines, step, specStep, setValue_quiet r k v i c hq hf hc, getMut_found r k i hf, hl, hc, Out.ofOpt,
      inv_writeAt r i k _ h, abs_writeAt r k i c _ hf hc]

@[simp] theorem fresh_val (v : Nat) : (fresh v).val = v := rfl

theorem occWrite_quiet (r : Reg) (i : Nat) (k : Key) (f : Nat → Nat) (c : Cell) (hq : quiet r = true)
    (hc : cellAt r i k = some c) : occWrite r i k f = (writeAt r i k f, .val c.val) := by
  simp [occWrite, hc, busy_quiet c (quiet_cell r i k c hq hc)]

theorem andModify_found (r : Reg) (i : Nat) (k : Key) (d : Nat) (c : Cell) (hq : quiet r = true)
    (hc : cellAt r i k = some c) : andModify r (i, true) k d = some (writeAt r i k (· + d)) := by
  simp [andModify, occWrite_quiet r i k _ c hq hc]

theorem andModify_absent (r : Reg) (i : Nat) (k : Key) (d : Nat) : andModify r (i, false) k d = some r := by
  simp [andModify]

theorem orInsert_found (r : Reg) (i : Nat) (k : Key) (v : Nat) (c : Cell) (hq : quiet r = true)
    (hc : cellAt r i k = some c) : orInsert r (i, true) k v = (r, .val c.val) := by
  simp [orInsert, occWrite_quiet r i k _ c hq hc, writeAt_id]

theorem orInsert_absent (r : Reg) (k : Key) (v : Nat) :
    orInsert r (0, false) k v = (modifyAt r 0 (·.put k (fresh v)), .val v) := by
  simp [orInsert, vacInsert]

theorem step_entries (r : Reg) (k : Key) (v d : Nat) (h : Inv r) :
    Refines r (.entOrIns k v) ∧ Refines r (.entOrWith k v) ∧ Refines r (.entOrDef k) ∧
    Refines r (.entMod k d) ∧ Refines r (.entModV k d) ∧ Refines r (.entModOrIns k d v) := by
  have ⟨hne, hq⟩ := h
  rcases resolve r k with ⟨hf, hl, hd, hn⟩ | ⟨i, c, hf, hi, hc, hl, hd, hh⟩
  · have hp := fun v => abs_put_top r k (fresh v) hne
    simp [Refines, step, specStep, entry_absent r k hf, orInsert_absent, andModify_absent, hl, Spec.orInsert,
      Spec.modify, updFirst_absent _ k _ hd, inv_put_at r 0 k _ h, h, hp]
  · have hw := abs_writeAt r k i c (· + d) hf hc
    have hq' := quiet_writeAt r i k (· + d) hq
    have hc' := cellAt_writeAt r i k (· + d) c hi hc
    have hl' := lookup_found (writeAt r i k (· + d)) k i _ (by rw [find_writeAt]; exact hf) hc'
    rw [hw] at hl'
    simp [Refines, step, specStep, entry_found r k i hf, orInsert_found r i k _ c hq hc,
      andModify_found r i k d c hq hc, orInsert_found _ i k _ _ hq' hc', hl, Spec.orInsert, Spec.modify, h,
      inv_writeAt r i k _ h, hw, hl']

theorem step_occ (r : Reg) (k : Key) (v : Nat) (h : Inv r) :
    Refines r (.occGet k) ∧ Refines r (.occGetMut k v) ∧ Refines r (.occIntoMut k v) ∧
    Refines r (.occIns k v) ∧ Refines r (.occRem k) ∧ Refines r (.vacIns k v) := by
  have ⟨hne, hq⟩ := h
  rcases resolve r k with ⟨hf, hl, hd, hn⟩ | ⟨i, c, hf, hi, hc, hl, hd, hh⟩
  · have hp := abs_put_top r k (fresh v) hne
    simp [Refines, step, specStep, entry_absent r k hf, hl, vacInsert, inv_put_at r 0 k _ h, h, hp]
  · have hw := (quiet_cell r i k c hq hc).2
    simp [Refines, step, specStep, entry_found r k i hf, hl, occGet, occWrite_quiet r i k _ c hq hc, occInsert,
      occRemove, hc, hw, h, inv_writeAt r i k _ h, inv_put_at r i k _ h, inv_erase_at r i k h,
      abs_writeAt r k i c _ hf hc, abs_put_found r k i _ hf, abs_erase_found r k i hf]

theorem view_nil : Scope.view [] = PMap.empty := rfl

theorem step_scopes (r : Reg) (h : Inv r) : Refines r .push ∧ Refines r .pop := by
  have ⟨hne, hq⟩ := h
  constructor
  · simp [Refines, step, specStep, intoChild, Inv, quiet_cons, hq, Scope.quiet, abs_cons, view_nil]
  · cases r with
    | nil => exact absurd rfl hne
    | cons s p =>
      cases p with
      | nil => simp [Refines, step, specStep, intoParent, Inv, hq, abs_cons]
      | cons s' p' =>
        simp only [quiet_cons, Bool.and_eq_true] at hq
        simp [Refines, step, specStep, intoParent, Inv, quiet_cons, hq, abs_cons]

theorem abs_drop (r : Reg) (d : Nat) : abs (r.drop d) = (abs r).drop d := by simp [abs, List.map_drop]
theorem abs_take (r : Reg) (d : Nat) : abs (r.take d) = (abs r).take d := by simp [abs, List.map_take]
theorem abs_append (a b : Reg) : abs (a ++ b) = abs a ++ abs b := by simp [abs]

theorem step_parents (r : Reg) (d : Nat) (k : Key) (v : Nat) (h : Inv r) :
    Refines r (.parGet d k) ∧ Refines r (.parIns d k v) := by
  have ⟨hne, hq⟩ := h
  by_cases hd : d < r.length
  · have hqd := quiet_drop r d hq
    have hned : r.drop d ≠ [] := by
      intro h'; have := congrArg List.length h'; simp at this; omega
    have hi := step_ins (r.drop d) k v ⟨hned, hqd⟩
    simp only [step, specStep] at hi
    obtain ⟨⟨_, hi1⟩, hi2, hi3⟩ := hi
    constructor
    · simp only [Refines, step, specStep, parentN, hd, if_true, abs_length, tryGetValue_quiet _ k hqd, abs_drop]
      refine ⟨h, ?_, trivial⟩
      cases Spec.lookup (List.drop d (abs r)) k <;> rfl
    · simp only [Refines, step, specStep, parentN, hd, if_true, abs_length, under, abs_append, abs_take]
      rw [abs_drop] at hi2 hi3
      refine ⟨⟨by simp; intro h1; omega, ?_⟩, hi2, by rw [hi3]⟩
      rw [quiet_append, quiet_take r d hq, hi1]; rfl
  · simp [Refines, step, specStep, parentN, hd, h]

/-! ### multi-borrow -/

theorem distinctGo_iff (seen ks : List Key) :
    distinctGo seen ks = true ↔ ks.Nodup ∧ ∀ k ∈ ks, k ∉ seen := by
  induction ks generalizing seen with
  | nil => simp [distinctGo]
  | cons k ks ih =>
    simp only [distinctGo, List.contains_iff_mem]
    by_cases hk : k ∈ seen
    · simp [hk]
    · simp only [hk, if_false, ih, List.nodup_cons, List.mem_cons]
      constructor
      · rintro ⟨hn, hs⟩
        refine ⟨⟨fun hm => (hs k hm) (Or.inl rfl), hn⟩, ?_⟩
        intro a ha
        rcases ha with rfl | ha
        · exact hk
        · exact fun h' => hs a ha (Or.inr h')
      · rintro ⟨⟨hnk, hn⟩, hs⟩
        refine ⟨hn, fun a ha h' => ?_⟩
        rcases h' with rfl | h'
        · exact hnk ha
        · exact hs a (Or.inr ha) h'

theorem distinct_iff (ks : List Key) : distinct ks = true ↔ ks.Nodup := by
  simp [distinct, distinctGo_iff]

/-- The cells `getAllMut` resolves: each key's innermost holder. -/
def resolved (r : Reg) (ks : List Key) : List (Nat × Key) := ks.map fun k => ((find r k).getD 0, k)

theorem getAllMut_ok (r : Reg) (ks : List Key) (h : ∀ k ∈ ks, (find r k).isSome = true) :
    getAllMut r ks = .ok (resolved r ks) := by
  induction ks with
  | nil => rfl
  | cons k ks ih =>
    have hk := h k (by simp)
    obtain ⟨i, hi⟩ := Option.isSome_iff_exists.mp hk
    simp [getAllMut, getMut_found r k i hi, ih (fun k' hk' => h k' (by simp [hk'])), resolved, hi]

theorem getAllMut_err (r : Reg) (ks : List Key) (h : ¬ ∀ k ∈ ks, (find r k).isSome = true) :
    getAllMut r ks = .error .notFound := by
  induction ks with
  | nil => simp at h
  | cons k ks ih =>
    cases hf : find r k with
    | none => simp [getAllMut, getMut, hf]
    | some i =>
      have : ¬ ∀ k ∈ ks, (find r k).isSome = true := by
        intro h'; apply h; intro k' hk'
        rcases List.mem_cons.mp hk' with rfl | hk'
        · simp [hf]
        · exact h' k' hk'
      simp [getAllMut, getMut_found r k i hf, ih this]

theorem writeAll_refines (ks : List Key) (d : Nat) (r r0 : Reg) (hfind : ∀ k, find r k = find r0 k)
    (h : ∀ k ∈ ks, (find r0 k).isSome = true) (hI : Inv r) :
    Inv (writeAll r (resolved r0 ks) d) ∧ abs (writeAll r (resolved r0 ks) d) = (abs r).addAll ks d := by
  induction ks generalizing r with
  | nil => exact ⟨hI, rfl⟩
  | cons k ks ih =>
    obtain ⟨i, hi⟩ := Option.isSome_iff_exists.mp (h k (by simp))
    have hi' : find r k = some i := by rw [hfind]; exact hi
    obtain ⟨c, hc⟩ := find_cell r k i hi'
    have hl := lookup_found r k i c hi' hc
    have := ih (writeAt r i k (· + d)) (fun k' => by rw [find_writeAt, hfind])
      (fun k' hk' => h k' (by simp [hk'])) (inv_writeAt r i k _ hI)
    simp only [resolved, List.map_cons, hi, Option.getD_some, writeAll, List.foldl_cons, Spec.addAll] at this ⊢
    rw [abs_writeAt r k i c _ hi' hc] at this
    rw [hl]
    exact this

theorem vals_resolved (r : Reg) (ks : List Key) :
    (resolved r ks).map (fun c => ((cellAt r c.1 c.2).map (·.val)).getD 0) =
      ks.map (fun k => ((abs r).lookup k).getD 0) := by
  simp only [resolved, List.map_map]
  apply List.map_congr_left
  intro k _
  rcases resolve r k with ⟨hf, hl, _, hn⟩ | ⟨i, c, hf, _, hc, hl, _, _⟩
  · have := hn 0
    simp only [Scope.has] at this
    simp [hf, hl, cellAt]
    cases hg : (scopeAt r 0).get? k with
    | none => rfl
    | some c => simp [hg] at this
  · simp [hf, hl, hc]

theorem step_multi (r : Reg) (ks : List Key) (d : Nat) (h : Inv r) : Refines r (.multi ks d) := by
  by_cases hd : ks.Nodup
  · have hdist : distinct ks = true := (distinct_iff ks).mpr hd
    by_cases hall : ∀ k ∈ ks, (find r k).isSome = true
    · have hall' : ks.all (fun k => ((abs r).lookup k).isSome) = true := by
        simp only [List.all_eq_true]; intro k hk; rw [lookup_isSome]; exact hall k hk
      obtain ⟨h1, h2⟩ := writeAll_refines ks d r r (fun _ => rfl) hall h
      simp only [Refines, step, specStep, tryGetMultipleMut, hdist, getAllMut_ok r ks hall, hd, hall', if_true,
        Bool.not_true, Bool.false_eq_true, if_false, vals_resolved]
      exact ⟨h1, by trivial, h2⟩
    · have hall' : ¬ ks.all (fun k => ((abs r).lookup k).isSome) = true := by
        simp only [List.all_eq_true]; intro h'; apply hall; intro k hk; rw [← lookup_isSome]; exact h' k hk
      simp only [Refines, step, specStep, tryGetMultipleMut, hdist, getAllMut_err r ks hall, hd, hall', if_true,
        Bool.not_true, Bool.false_eq_true, if_false]
      exact ⟨h, by trivial, by trivial⟩
  · have hdist : distinct ks = false := by
      cases hx : distinct ks with
      | false => rfl
      | true => exact absurd ((distinct_iff ks).mp hx) hd
    simp only [Refines, step, specStep, tryGetMultipleMut, hdist, hd, Bool.not_false, if_true, if_false]
    exact ⟨h, by trivial, by trivial⟩

theorem step_multiP (r : Reg) (ks : List Key) (d : Nat) (h : Inv r) : Refines r (.multiP ks d) := by
  by_cases hd : ks.Nodup
  · have hdist : distinct ks = true := (distinct_iff ks).mpr hd
    by_cases hall : ∀ k ∈ ks, (find r k).isSome = true
    · have hall' : ks.all (fun k => ((abs r).lookup k).isSome) = true := by
        simp only [List.all_eq_true]; intro k hk; rw [lookup_isSome]; exact hall k hk
      obtain ⟨h1, h2⟩ := writeAll_refines ks d r r (fun _ => rfl) hall h
      simp only [Refines, step, specStep, tryGetMultipleMut, hdist, getAllMut_ok r ks hall, hd, hall', if_true,
        Bool.not_true, Bool.false_eq_true, if_false, vals_resolved, and_self]
      exact ⟨h1, by trivial, h2⟩
    · have hall' : ¬ ks.all (fun k => ((abs r).lookup k).isSome) = true := by
        simp only [List.all_eq_true]; intro h'; apply hall; intro k hk; rw [← lookup_isSome]; exact h' k hk
      simp only [Refines, step, specStep, tryGetMultipleMut, hdist, getAllMut_err r ks hall, hd, hall', if_true,
        Bool.not_true, Bool.false_eq_true, if_false, and_false]
      exact ⟨h, by trivial, by trivial⟩
  · have hdist : distinct ks = false := by
      cases hx : distinct ks with
      | false => rfl
      | true => exact absurd ((distinct_iff ks).mp hx) hd
    simp only [Refines, step, specStep, tryGetMultipleMut, hdist, hd, Bool.not_false, if_true, if_false, false_and]
    exact ⟨h, by trivial, by trivial⟩

/-! ### value access next to a live guard -/

theorem modify_back (r : Reg) (i : Nat) (k : Key) (c c' : Cell) (e : Bool) (hc : cellAt r i k = some c)
    (hrel : c'.release e = c) :
    releaseAt (modifyAt r i (·.modify k (fun _ => c'))) i k e = r := by
  simp only [releaseAt, modifyAt_modifyAt, Scope.modify_modify]
  rw [modifyAt_congr r i _ id [] (by
    simp only [id]
    exact Scope.modify_self _ k _ (fun c0 hc0 => by
      have : cellAt r i k = some c0 := hc0
      rw [hc] at this; cases this; exact hrel))]
  exact modifyAt_id r i

theorem release_shared_back (c : Cell) : ({ c with readers := c.readers + 1 } : Cell).release false = c := by
  cases c; simp [Cell.release]

theorem release_excl_back (c : Cell) (hw : c.writer = false) : ({ c with writer := true } : Cell).release true = c := by
  cases c; simp_all [Cell.release]

theorem step_guarded (r : Reg) (k : Key) (v : Nat) (h : Inv r) : Refines r (.gset k v) ∧ Refines r (.gget k) := by
  have ⟨hne, hq⟩ := h
  rcases resolve r k with ⟨hf, hl, hd, hn⟩ | ⟨i, c, hf, hi, hc, hl, hd, hh⟩
  · simp [Refines, step, specStep, tryBorrow, tryBorrowMut, hf, hl, h]
  · obtain ⟨hr, hw⟩ := quiet_cell r i k c hq hc
    have hc' := hc; simp only [cellAt] at hc'
    constructor
    · -- shared guard alive, then set_value
      have hb : tryBorrow r k = .ok (modifyAt r i (·.modify k (fun _ => { c with readers := c.readers + 1 })), i) := by
        simp [tryBorrow, hf, hc, Cell.tryBorrow, hw]
      have hf1 : find (modifyAt r i (·.modify k (fun _ => { c with readers := c.readers + 1 }))) k = some i := by
        rw [show find (modifyAt r i (·.modify k (fun _ => { c with readers := c.readers + 1 }))) k = find r k from
          findIdx_modifyAt _ r i _ (fun s => Scope.has_modify s k _ k)]; exact hf
      have hc1 : cellAt (modifyAt r i (·.modify k (fun _ => { c with readers := c.readers + 1 }))) i k
          = some { c with readers := c.readers + 1 } := by
        rw [cellAt_modifyAt r i _ k hi, Scope.get?_modify]; simp [hc']
      have hs : setValue (modifyAt r i (·.modify k (fun _ => { c with readers := c.readers + 1 }))) k v
          = (modifyAt r i (·.modify k (fun _ => { c with readers := c.readers + 1 })), none) := by
        simp [setValue, tryBorrowMut, hf1, hc1, Cell.tryBorrowMut]
      have hback := modify_back r i k c { c with readers := c.readers + 1 } false hc (by
        cases c; simp_all [Cell.release])
      simp only [Refines, step, specStep, hb, hs, hback, hl, Out.ofOpt]
      exact ⟨h, trivial, trivial⟩
    · have hb : tryBorrowMut r k = .ok (modifyAt r i (·.modify k (fun _ => { c with writer := true })), i) :=
        tryBorrowMut_quiet r k i c hq hf hc
      have hf1 : find (modifyAt r i (·.modify k (fun _ => { c with writer := true }))) k = some i := by
        rw [show find (modifyAt r i (·.modify k (fun _ => { c with writer := true }))) k = find r k from
          findIdx_modifyAt _ r i _ (fun s => Scope.has_modify s k _ k)]; exact hf
      have hc1 : cellAt (modifyAt r i (·.modify k (fun _ => { c with writer := true }))) i k
          = some { c with writer := true } := by
        rw [cellAt_modifyAt r i _ k hi, Scope.get?_modify]; simp [hc']
      have hg : tryGetValue (modifyAt r i (·.modify k (fun _ => { c with writer := true }))) k
          = .error .conflictImm := by
        simp [tryGetValue, tryBorrow, hf1, hc1, Cell.tryBorrow]
      have hback := modify_back r i k c { c with writer := true } true hc (by
        cases c; simp_all [Cell.release])
      simp only [Refines, step, specStep, hb, hg, hback, hl, Out.ofRes]
      exact ⟨h, trivial, trivial⟩

/-- Refinement, one step, every operation kind. -/
theorem step_refines (r : Reg) (op : ROp) (h : Inv r) : Refines r op := by
  cases op with
  | gset k v => exact (step_guarded r k v h).1
  | gget k => exact (step_guarded r k 0 h).2
  | multiP ks d => exact step_multiP r ks d h
  | ins k v => exact step_ins r k v h
  | rem k => exact (step_rem r k h).1
  | take k => exact (step_rem r k h).2
  | hasTop k => exact (step_reads r k h).1
  | has k => exact (step_reads r k h).2.1
  | find k => exact (step_reads r k h).2.2.1
  | findMut k => exact (step_reads r k h).2.2.2.1
  | get k => exact (step_reads r k h).2.2.2.2.1
  | tryGet k => exact (step_reads r k h).2.2.2.2.2.1
  | req k => exact (step_reads r k h).2.2.2.2.2.2.1
  | dump => exact (step_reads r (.ty 0) h).2.2.2.2.2.2.2
  | set k v => exact (step_writes r k v h).1
  | getMut k v => exact (step_writes r k v h).2
  | entOrIns k v => exact (step_entries r k v 0 h).1
  | entOrWith k v => exact (step_entries r k v 0 h).2.1
  | entOrDef k => exact (step_entries r k 0 0 h).2.2.1
  | entMod k d => exact (step_entries r k 0 d h).2.2.2.1
  | entModV k d => exact (step_entries r k 0 d h).2.2.2.2.1
  | entModOrIns k d v => exact (step_entries r k v d h).2.2.2.2.2
  | occGet k => exact (step_occ r k 0 h).1
  | occGetMut k v => exact (step_occ r k v h).2.1
  | occIntoMut k v => exact (step_occ r k v h).2.2.1
  | occIns k v => exact (step_occ r k v h).2.2.2.1
  | occRem k => exact (step_occ r k 0 h).2.2.2.2.1
  | vacIns k v => exact (step_occ r k v h).2.2.2.2.2
  | push => exact (step_scopes r h).1
  | pop => exact (step_scopes r h).2
  | parGet d k => exact (step_parents r d k 0 h).1
  | parIns d k v => exact (step_parents r d k v h).2
  | multi ks d => exact step_multi r ks d h

theorem inv_new : Inv new := ⟨by simp [new], rfl⟩
theorem abs_new : abs new = [PMap.empty] := rfl

/-! ### one entry per key (`HashMap`) -/

theorem Scope.keys_erase (s : Scope) (k : Key) : (s.erase k).keys = s.keys.filter (fun a => a != k) := by
  induction s with
  | nil => rfl
  | cons e t ih =>
    obtain ⟨a, c⟩ := e
    simp only [Scope.erase, Scope.keys, List.map_cons, List.filter_cons]
    by_cases h : a = k
    · simp [h]; exact ih
    · simp [h]; exact ih

theorem Scope.nodup_erase (s : Scope) (k : Key) (h : s.nodupKeys) : (s.erase k).nodupKeys := by
  simp only [Scope.nodupKeys, Scope.keys_erase]; exact h.filter _

theorem Scope.nodup_put (s : Scope) (k : Key) (c : Cell) (h : s.nodupKeys) : (s.put k c).nodupKeys := by
  have h1 := Scope.nodup_erase s k h
  simp only [Scope.nodupKeys, Scope.put, Scope.keys, List.map_cons, List.nodup_cons] at *
  refine ⟨?_, h1⟩
  have := Scope.keys_erase s k
  simp only [Scope.keys] at this
  rw [this]; simp

theorem Scope.keys_modify (s : Scope) (k : Key) (f : Cell → Cell) : (s.modify k f).keys = s.keys := by
  induction s with
  | nil => rfl
  | cons e t ih =>
    obtain ⟨a, c⟩ := e
    simp only [Scope.modify]
    split
    · simp [Scope.keys]
    · simp only [Scope.keys, List.map_cons] at *; rw [ih]

theorem Scope.nodup_modify (s : Scope) (k : Key) (f : Cell → Cell) (h : s.nodupKeys) : (s.modify k f).nodupKeys := by
  simp only [Scope.nodupKeys, Scope.keys_modify]; exact h

theorem nodupKeys_cons (s : Scope) (p : Reg) : nodupKeys (s :: p) ↔ s.nodupKeys ∧ nodupKeys p := by
  simp [nodupKeys]

theorem nodupKeys_modifyAt (r : Reg) (i : Nat) (F : Scope → Scope) (h : nodupKeys r)
    (hF : ∀ s, s.nodupKeys → (F s).nodupKeys) : nodupKeys (modifyAt r i F) := by
  induction r generalizing i with
  | nil => exact h
  | cons s p ih =>
    rw [nodupKeys_cons] at h
    cases i with
    | zero => simp only [modifyAt, nodupKeys_cons]; exact ⟨hF s h.1, h.2⟩
    | succ i => simp only [modifyAt, nodupKeys_cons]; exact ⟨h.1, ih i h.2⟩

theorem nodupKeys_writeAt (r : Reg) (i : Nat) (k : Key) (f : Nat → Nat) (h : nodupKeys r) :
    nodupKeys (writeAt r i k f) :=
  nodupKeys_modifyAt r i _ h (fun s hs => Scope.nodup_modify s k _ hs)

theorem nodupKeys_put_at (r : Reg) (i : Nat) (k : Key) (c : Cell) (h : nodupKeys r) :
    nodupKeys (modifyAt r i (·.put k c)) :=
  nodupKeys_modifyAt r i _ h (fun s hs => Scope.nodup_put s k c hs)

theorem nodupKeys_erase_at (r : Reg) (i : Nat) (k : Key) (h : nodupKeys r) :
    nodupKeys (modifyAt r i (·.erase k)) :=
  nodupKeys_modifyAt r i _ h (fun s hs => Scope.nodup_erase s k hs)

theorem nodupKeys_writeAll (cs : List (Nat × Key)) (d : Nat) (r : Reg) (h : nodupKeys r) :
    nodupKeys (writeAll r cs d) := by
  induction cs generalizing r with
  | nil => exact h
  | cons c cs ih => exact ih _ (nodupKeys_writeAt r c.1 c.2 _ h)

theorem nodupKeys_insert (r : Reg) (k : Key) (v : Nat) (h : nodupKeys r) : nodupKeys (insert r k v).1 := by
  cases r with
  | nil => simp [insert, nodupKeys, Scope.nodupKeys, Scope.keys]
  | cons s p =>
    rw [nodupKeys_cons] at h
    simp only [insert, nodupKeys_cons]; exact ⟨Scope.nodup_put s k _ h.1, h.2⟩

theorem nodupKeys_drop (r : Reg) (d : Nat) (h : nodupKeys r) : nodupKeys (r.drop d) :=
  fun s hs => h s (List.mem_of_mem_drop hs)
theorem nodupKeys_take (r : Reg) (d : Nat) (h : nodupKeys r) : nodupKeys (r.take d) :=
  fun s hs => h s (List.mem_of_mem_take hs)
theorem nodupKeys_append (a b : Reg) (ha : nodupKeys a) (hb : nodupKeys b) : nodupKeys (a ++ b) := by
  intro s hs; rcases List.mem_append.mp hs with h | h
  · exact ha s h
  · exact hb s h

theorem setValue_reg (r : Reg) (k : Key) (v : Nat) :
    (setValue r k v).1 = r ∨ ∃ i f, (setValue r k v).1 = modifyAt r i (·.modify k f) := by
  unfold setValue
  cases h1 : tryBorrowMut r k with
  | error e => exact Or.inl rfl
  | ok x =>
    obtain ⟨r', i⟩ := x
    simp only
    unfold tryBorrowMut at h1
    cases hf : find r k with
    | none => simp [hf] at h1
    | some j =>
      simp only [hf] at h1
      cases hc : cellAt r j k with
      | none => simp [hc] at h1
      | some c =>
        simp only [hc] at h1
        cases hb : c.tryBorrowMut with
        | none => simp [hb] at h1
        | some c' =>
          simp only [hb, Except.ok.injEq, Prod.mk.injEq] at h1
          obtain ⟨h1, h2⟩ := h1
          subst h1 h2
          cases hc2 : cellAt (modifyAt r j fun x => x.modify k fun _ => c') j k with
          | none => exact Or.inl rfl
          | some c2 =>
            refine Or.inr ⟨j, (fun c0 => Cell.release { val := v, readers := c'.readers, writer := c'.writer } true), ?_⟩
            simp only [releaseAt, modifyAt_modifyAt, Scope.modify_modify]

theorem occWrite_nodup (r : Reg) (i : Nat) (k : Key) (f : Nat → Nat) (h : nodupKeys r) :
    nodupKeys (occWrite r i k f).1 := by
  unfold occWrite
  split
  · split
    · exact h
    · exact nodupKeys_writeAt _ _ _ _ h
  · exact h

theorem orInsert_nodup (r : Reg) (e : Nat × Bool) (k : Key) (v : Nat) (h : nodupKeys r) :
    nodupKeys (orInsert r e k v).1 := by
  unfold orInsert
  split
  · exact occWrite_nodup r _ k _ h
  · exact nodupKeys_put_at _ _ _ _ h

theorem andModify_nodup (r r' : Reg) (e : Nat × Bool) (k : Key) (d : Nat) (h : nodupKeys r)
    (h' : andModify r e k d = some r') : nodupKeys r' := by
  unfold andModify at h'
  split at h'
  · have := occWrite_nodup r e.1 k (· + d) h
    cases hw : occWrite r e.1 k (fun x => x + d) with
    | mk r1 o =>
      rw [hw] at this h'
      cases o <;> simp at h' <;> (subst h'; exact this)
  · cases h'; exact h

/-- Every operation keeps the keys of every map unique. -/
theorem step_nodupKeys (r : Reg) (op : ROp) (h : nodupKeys r) : nodupKeys (step r op).1 := by
  cases op with
  | ins k v => exact nodupKeys_insert r k v h
  | rem k | take k =>
    simp only [step, remove]
    split
    · exact h
    · split
      · exact nodupKeys_erase_at _ _ _ h
      · exact h
  | hasTop k | has k | find k | findMut k | get k | tryGet k | req k | dump => exact h
  | set k v =>
    simp only [step]
    rcases setValue_reg r k v with h1 | ⟨i, f, h1⟩
    · rw [h1]; exact h
    · rw [h1]; exact nodupKeys_modifyAt r i _ h (fun s hs => Scope.nodup_modify s k _ hs)
  | getMut k v =>
    simp only [step]
    split
    · dsimp only; exact nodupKeys_writeAt _ _ _ _ h
    · exact h
  | entOrIns k v | entOrWith k v | entOrDef k => exact orInsert_nodup r _ k _ h
  | entMod k d | entModV k d =>
    simp only [step]
    split
    · rename_i r' heq; exact andModify_nodup r r' _ k d h heq
    · exact h
  | entModOrIns k d v =>
    simp only [step]
    split
    · rename_i r' heq; exact orInsert_nodup r' _ k v (andModify_nodup r r' _ k d h heq)
    · exact h
  | occGet k => exact h
  | occGetMut k v | occIntoMut k v =>
    simp only [step]
    split
    · exact occWrite_nodup r _ k _ h
    · exact h
  | occIns k v =>
    simp only [step, occInsert]
    split
    · split
      · exact nodupKeys_put_at _ _ _ _ h
      · exact h
    · exact h
  | occRem k =>
    simp only [step, occRemove]
    split
    · split
      · exact nodupKeys_erase_at _ _ _ h
      · exact h
    · exact h
  | vacIns k v =>
    simp only [step, vacInsert]
    split
    · exact h
    · exact nodupKeys_put_at _ _ _ _ h
  | push => simp only [step, intoChild, nodupKeys_cons]; exact ⟨by simp [Scope.nodupKeys, Scope.keys], h⟩
  | pop =>
    simp only [step]
    cases r with
    | nil => simp [intoParent, nodupKeys, Scope.nodupKeys, Scope.keys]
    | cons s p =>
      cases p with
      | nil => simpa [intoParent] using h
      | cons s' p' => rw [nodupKeys_cons] at h; simpa [intoParent] using h.2
  | parGet d k => simp only [step]; split <;> exact h
  | parIns d k v =>
    simp only [step]
    split
    · simp only [under]
      exact nodupKeys_append _ _ (nodupKeys_take r d h) (nodupKeys_insert _ k v (nodupKeys_drop r d h))
    · exact h
  | multi ks d | multiP ks d =>
    simp only [step]
    split
    · exact nodupKeys_writeAll _ _ _ h
    · exact h
  | gset k v =>
    simp only [step]
    split
    · exact h
    · rename_i r1 i _
      have h1 : nodupKeys r1 := by
        rename_i heq
        unfold tryBorrow at heq
        split at heq
        · cases heq
        · split at heq
          · cases heq
          · split at heq
            · cases heq
            · cases heq; exact nodupKeys_modifyAt r _ _ h (fun s hs => Scope.nodup_modify s k _ hs)
      simp only [releaseAt]
      apply nodupKeys_modifyAt _ _ _ _ (fun s hs => Scope.nodup_modify s k _ hs)
      rcases setValue_reg r1 k v with h2 | ⟨j, f, h2⟩
      · rw [h2]; exact h1
      · rw [h2]; exact nodupKeys_modifyAt r1 j _ h1 (fun s hs => Scope.nodup_modify s k _ hs)
  | gget k =>
    simp only [step]
    split
    · exact h
    · rename_i r1 i heq
      have h1 : nodupKeys r1 := by
        unfold tryBorrowMut at heq
        split at heq
        · cases heq
        · split at heq
          · cases heq
          · split at heq
            · cases heq
            · cases heq; exact nodupKeys_modifyAt r _ _ h (fun s hs => Scope.nodup_modify s k _ hs)
      simp only [releaseAt]
      exact nodupKeys_modifyAt _ _ _ h1 (fun s hs => Scope.nodup_modify s k _ hs)

/-! ### frame: an operation leaves alone every type it does not mention -/

/-- The types an operation names. -/
def ROp.keys : ROp → List Key
  | .ins k _ | .rem k | .take k | .hasTop k | .has k | .find k | .findMut k | .get k | .tryGet k | .set k _
  | .getMut k _ | .entOrIns k _ | .entOrWith k _ | .entOrDef k | .entMod k _ | .entModV k _ | .entModOrIns k _ _
  | .occGet k | .occGetMut k _ | .occIntoMut k _ | .occIns k _ | .occRem k | .vacIns k _ | .parGet _ k
  | .parIns _ k _ | .req k | .gset k _ | .gget k => [k]
  | .multi ks _ | .multiP ks _ => ks
  | .push | .pop | .dump => []

/-- Not a raw scope push/pop (inside closure bodies scopes come from `with_inner_state`). -/
def ROp.flat : ROp → Bool
  | .push | .pop => false
  | _ => true

/-- The bindings of type `q`, scope by scope. -/
def col (sp : Spec) (q : Key) : List (Option Nat) := sp.map (fun m => m q)

theorem col_updFirst (sp : Spec) (k q : Key) (v : Option Nat) (h : k ≠ q) : col (sp.updFirst k v) q = col sp q := by
  induction sp with
  | nil => rfl
  | cons m p ih =>
    simp only [Spec.updFirst]
    split
    · simp [col, PMap.set, Ne.symm h]
    · simp only [col, List.map_cons] at ih ⊢; rw [ih]

theorem col_setTop (sp : Spec) (k q : Key) (v : Option Nat) (h : k ≠ q) (hne : sp ≠ []) :
    col (sp.setTop k v) q = col sp q := by
  cases sp with
  | nil => exact absurd rfl hne
  | cons m p => simp [Spec.setTop, col, PMap.set, Ne.symm h]

theorem col_modifyAt_set (sp : Spec) (i : Nat) (k q : Key) (v : Option Nat) (h : k ≠ q) :
    col (modifyAt sp i (fun m : PMap => m.set k v)) q = col sp q := by
  induction sp generalizing i with
  | nil => rfl
  | cons m p ih =>
    cases i with
    | zero => simp [modifyAt, col, PMap.set, Ne.symm h]
    | succ i => simp only [modifyAt, col, List.map_cons] at ih ⊢; rw [ih]

theorem col_addAll (ks : List Key) (sp : Spec) (q : Key) (d : Nat) (h : q ∉ ks) : col (sp.addAll ks d) q = col sp q := by
  induction ks generalizing sp with
  | nil => rfl
  | cons k ks ih =>
    simp only [List.mem_cons, not_or] at h
    simp only [Spec.addAll, List.foldl_cons]
    have := ih (sp.updFirst k ((sp.lookup k).map (· + d))) h.2
    simp only [Spec.addAll] at this
    rw [this, col_updFirst _ _ _ _ (Ne.symm h.1)]

theorem col_orInsert (sp : Spec) (k q : Key) (v : Nat) (h : k ≠ q) (hne : sp ≠ []) :
    col (sp.orInsert k v).1 q = col sp q := by
  simp only [Spec.orInsert]; split
  · rfl
  · exact col_setTop sp k q _ h hne

theorem col_length (sp : Spec) (q : Key) : (col sp q).length = sp.length := by simp [col]

theorem specStep_frame (sp : Spec) (o : ROp) (q : Key) (hq : q ∉ ROp.keys o) (hflat : ROp.flat o = true)
    (hne : sp ≠ []) : col (specStep sp o).1 q = col sp q := by
  have hmod : ∀ k d, k ≠ q → col (sp.modify k d) q = col sp q := fun k d hk => col_updFirst sp k q _ hk
  have hmodne : ∀ k d, sp.modify k d ≠ [] := by
    intro k d h
    have := congrArg List.length (congrArg (col · q) h)
    simp only [col_length] at this
    have h2 : (sp.modify k d).length = sp.length := by
      by_cases hk : k = q
      · have := congrArg List.length h; simp at this
        cases sp with
        | nil => exact absurd rfl hne
        | cons m p =>
          simp only [Spec.modify, Spec.updFirst] at h; split at h <;> cases h
      · have := col_updFirst sp k q ((sp.lookup k).map (· + d)) hk
        have := congrArg List.length this
        simpa [col_length, Spec.modify] using this
    rw [h2] at this
    cases sp with
    | nil => exact absurd rfl hne
    | cons m p => simp at this
  cases o <;> simp only [ROp.keys, List.mem_singleton, List.not_mem_nil, not_false_eq_true] at hq <;>
    simp only [ROp.flat] at hflat <;> simp only [specStep]
  case ins k v => exact col_setTop sp k q _ (Ne.symm hq) hne
  case rem k => split <;> first | rfl | exact col_updFirst sp k q _ (Ne.symm hq)
  case take k => split <;> first | rfl | exact col_updFirst sp k q _ (Ne.symm hq)
  case set k v => split <;> first | rfl | exact col_updFirst sp k q _ (Ne.symm hq)
  case getMut k v => split <;> first | rfl | exact col_updFirst sp k q _ (Ne.symm hq)
  case entOrIns k v => exact col_orInsert sp k q v (Ne.symm hq) hne
  case entOrWith k v => exact col_orInsert sp k q v (Ne.symm hq) hne
  case entOrDef k => exact col_orInsert sp k q 0 (Ne.symm hq) hne
  case entMod k d => exact hmod k d (Ne.symm hq)
  case entModV k d => exact hmod k d (Ne.symm hq)
  case entModOrIns k d v =>
    rw [col_orInsert _ k q v (Ne.symm hq) (hmodne k d)]; exact hmod k d (Ne.symm hq)
  case occGetMut k v => split <;> first | rfl | exact col_updFirst sp k q _ (Ne.symm hq)
  case occIntoMut k v => split <;> first | rfl | exact col_updFirst sp k q _ (Ne.symm hq)
  case occIns k v => split <;> first | rfl | exact col_updFirst sp k q _ (Ne.symm hq)
  case occRem k => split <;> first | rfl | exact col_updFirst sp k q _ (Ne.symm hq)
  case vacIns k v => split <;> first | rfl | exact col_setTop sp k q _ (Ne.symm hq) hne
  case parGet d k => split <;> rfl
  case parIns d k v =>
    split
    · rename_i hd
      have hdn : sp.drop d ≠ [] := by
        intro h'; have := congrArg List.length h'; simp at this; omega
      have := col_setTop (sp.drop d) k q (some v) (Ne.symm hq) hdn
      simp only [col, List.map_append, List.map_take, List.map_drop] at this ⊢
      rw [this, List.take_append_drop]
    · rfl
  case multi ks d =>
    split
    · split
      · exact col_addAll ks sp q d hq
      · rfl
    · rfl
  case multiP ks d =>
    split
    · exact col_addAll ks sp q d hq
    · rfl
  case push => cases hflat
  case pop => cases hflat
  all_goals rfl

/-- The bindings of type `q` in the model registry, scope by scope. -/
def vcol (r : Reg) (q : Key) : List (Option Nat) := col (abs r) q

theorem abs_ne_nil (r : Reg) (h : r ≠ []) : abs r ≠ [] := by
  cases r with
  | nil => exact absurd rfl h
  | cons s p => simp [abs_cons]

theorem step_frame (r : Reg) (o : ROp) (q : Key) (hI : Inv r) (hq : q ∉ ROp.keys o) (hflat : ROp.flat o = true) :
    vcol (step r o).1 q = vcol r q := by
  simp only [vcol, (step_refines r o hI).2.2]
  exact specStep_frame (abs r) o q hq hflat (abs_ne_nil r hI.1)

theorem vcol_put_at (r : Reg) (i : Nat) (k q : Key) (c : Cell) (h : k ≠ q) :
    vcol (modifyAt r i (·.put k c)) q = vcol r q := by
  simp only [vcol]
  rw [show abs (modifyAt r i (·.put k c)) = modifyAt (abs r) i (fun m : PMap => m.set k (some c.val)) from
    map_modifyAt r i _ _ Scope.view [] (Scope.view_put _ k c)]
  exact col_modifyAt_set _ i k q _ h

theorem vcol_erase_at (r : Reg) (i : Nat) (k q : Key) (h : k ≠ q) :
    vcol (modifyAt r i (·.erase k)) q = vcol r q := by
  simp only [vcol]
  rw [show abs (modifyAt r i (·.erase k)) = modifyAt (abs r) i (fun m : PMap => m.set k none) from
    map_modifyAt r i _ _ Scope.view [] (Scope.view_erase _ k)]
  exact col_modifyAt_set _ i k q _ h

theorem vcol_length (r : Reg) (q : Key) : (vcol r q).length = r.length := by simp [vcol, col]

theorem vcol_cons (s : Scope) (p : Reg) (q : Key) : vcol (s :: p) q = s.view q :: vcol p q := rfl


/-! ### removal re-exposes; blocks between push and pop -/

theorem find_after_erase (r : Reg) (k : Key) (i : Nat) (hf : find r k = some i) :
    find (modifyAt r i (·.erase k)) k = (find (r.drop (i + 1)) k).map (· + (i + 1)) := by
  induction r generalizing i with
  | nil => simp at hf
  | cons s p ih =>
    rw [find_cons] at hf
    split at hf
    · cases hf
      have : (s.erase k).has k = false := by simp [Scope.has, Scope.get?_erase]
      simp [modifyAt, find_cons, this]
    · rename_i hs
      cases h' : find p k with
      | none => simp [h'] at hf
      | some j =>
        simp [h'] at hf; subst hf
        simp only [modifyAt, find_cons, hs, Bool.false_eq_true, if_false, ih j h', List.drop_succ_cons,
          Option.map_map]
        congr 1

theorem lookup_after_erase (sp : Spec) (k : Key) (i : Nat) (h : sp.depthOf k = some i) :
    (sp.updFirst k none).lookup k = Spec.lookup (sp.drop (i + 1)) k := by
  induction sp generalizing i with
  | nil => simp [Spec.depthOf] at h
  | cons m p ih =>
    simp only [Spec.depthOf] at h
    simp only [Spec.updFirst]
    split at h
    · rename_i hm; cases h
      simp [hm, Spec.lookup, PMap.set]
    · rename_i hm
      cases h' : Spec.depthOf p k with
      | none => simp [h'] at h
      | some j =>
        simp [h'] at h; subst h
        have hm' : m k = none := by simpa using hm
        simp [Spec.lookup, hm', ih j h']


/-- Not a scope push/pop and not a write into a parent through `parent_mut()`. -/
def ROp.isLocal : ROp → Bool
  | .parIns d _ _ => d == 0
  | .push | .pop => false
  | _ => true

theorem ROp.flat_of_isLocal (o : ROp) (h : o.isLocal = true) : o.flat = true := by
  cases o <;> simp_all [ROp.isLocal, ROp.flat]

/-- Whenever an operation of the block names `q`, it is a plain `insert` (which only ever writes the current
scope) or the current (innermost) scope binds `q` at that moment. -/
def shadowedThroughout (q : Key) : Reg → List ROp → Prop
  | _, [] => True
  | r, o :: os =>
    (q ∈ o.keys → containsAtTop r q = true ∨ ∃ v, o = .ins q v) ∧ shadowedThroughout q (step r o).1 os

theorem updFirst_top (m : PMap) (p : Spec) (k : Key) (v : Option Nat) (h : (m k).isSome = true) :
    Spec.updFirst (m :: p) k v = m.set k v :: p := by simp [Spec.updFirst, h]

theorem lookup_top (m : PMap) (p : Spec) (k : Key) (x : Nat) (h : m k = some x) :
    Spec.lookup (m :: p) k = some x := by simp [Spec.lookup, h]

theorem col_tail_addAll (ks : List Key) (d : Nat) (q : Key) (m : PMap) (p : Spec) (hm : (m q).isSome = true) :
    ∃ m' p', Spec.addAll (m :: p) ks d = m' :: p' ∧ (m' q).isSome = true ∧ col p' q = col p q := by
  induction ks generalizing m p with
  | nil => exact ⟨m, p, rfl, hm, rfl⟩
  | cons k ks ih =>
    simp only [Spec.addAll, List.foldl_cons]
    by_cases hk : k = q
    · subst hk
      obtain ⟨x, hx⟩ := Option.isSome_iff_exists.mp hm
      rw [updFirst_top m p k _ hm, lookup_top m p k x hx]
      have := ih (m.set k (some (x + d))) p (by simp [PMap.set])
      simpa [Spec.addAll] using this
    · have hc := col_updFirst (m :: p) k q ((Spec.lookup (m :: p) k).map (· + d)) hk
      simp only [Spec.updFirst] at hc ⊢
      split
      · have := ih (m.set k ((Spec.lookup (m :: p) k).map (· + d))) p (by simp [PMap.set, Ne.symm hk, hm])
        simpa [Spec.addAll] using this
      · rename_i hmk
        simp only [hmk, Bool.false_eq_true, if_false, col, List.map_cons, List.cons.injEq, true_and] at hc
        obtain ⟨m', p', h1, h2, h3⟩ := ih m (Spec.updFirst p k ((Spec.lookup (m :: p) k).map (· + d))) hm
        refine ⟨m', p', by simpa [Spec.addAll] using h1, h2, ?_⟩
        rw [h3]; exact hc

/-- An operation that names `q` while the top scope binds `q` changes no outer scope's binding of `q`. -/
theorem specStep_tail_frame (m : PMap) (p : Spec) (o : ROp) (q : Key) (hl : o.isLocal = true)
    (hq : q ∈ o.keys → (m q).isSome = true ∨ ∃ v, o = .ins q v) :
    (col (specStep (m :: p) o).1 q).tail = col p q := by
  by_cases hins : ∃ k v, o = .ins k v
  · obtain ⟨k, v, rfl⟩ := hins
    simp [specStep, Spec.setTop, col]
  by_cases hmem : q ∈ o.keys
  · have hm : (m q).isSome = true := by
      rcases hq hmem with h | ⟨v, hv⟩
      · exact h
      · exact absurd ⟨q, v, hv⟩ hins
    obtain ⟨x, hx⟩ := Option.isSome_iff_exists.mp hm
    have hl0 := lookup_top m p q x hx
    have hu := fun v => updFirst_top m p q v hm
    cases o <;> simp only [ROp.keys, List.mem_singleton, List.not_mem_nil] at hmem <;>
      (try subst hmem) <;> simp only [ROp.isLocal] at hl
    case multi ks d =>
      simp only [specStep]
      split
      · split
        · obtain ⟨m', p', h1, _, h3⟩ := col_tail_addAll ks d q m p hm
          rw [h1]; simpa [col] using h3
        · simp [col]
      · simp [col]
    case multiP ks d =>
      simp only [specStep]
      split
      · obtain ⟨m', p', h1, _, h3⟩ := col_tail_addAll ks d q m p hm
        rw [h1]; simpa [col] using h3
      · simp [col]
    case parIns d v =>
      have : d = 0 := by simpa using hl
      subst this
      simp [specStep, Spec.setTop, col]
    case parGet d => simp only [specStep]; split <;> simp [col]
    all_goals
      simp only [specStep, hl0, hu, Spec.setTop, Spec.orInsert, Spec.modify, Spec.top, hx]
      try simp [col, Spec.lookup, PMap.set]
  · have := specStep_frame (m :: p) o q hmem (ROp.flat_of_isLocal o hl) (by simp)
    rw [this]; simp [col]

theorem step_tail_frame (s : Scope) (p : Reg) (o : ROp) (q : Key) (h : Inv (s :: p)) (hl : o.isLocal = true)
    (hq : q ∈ o.keys → containsAtTop (s :: p) q = true ∨ ∃ v, o = .ins q v) :
    (vcol (step (s :: p) o).1 q).tail = vcol p q := by
  simp only [vcol, (step_refines (s :: p) o h).2.2, abs_cons]
  apply specStep_tail_frame s.view (abs p) o q hl
  intro hm
  rcases hq hm with h1 | h1
  · left; simpa [containsAtTop, scopeAt_zero, Scope.has_eq] using h1
  · exact Or.inr h1

theorem run_tail_frame (ops : List ROp) (q : Key) (s : Scope) (p : Reg) (h : Inv (s :: p))
    (hl : ∀ o ∈ ops, o.isLocal = true) (hsh : shadowedThroughout q (s :: p) ops) :
    (vcol (run (s :: p) ops).1 q).tail = vcol p q := by
  induction ops generalizing s p with
  | nil => simp [run, vcol_cons]
  | cons o os ih =>
    simp only [shadowedThroughout] at hsh
    have h1 := (step_refines (s :: p) o h).1
    have ht := step_tail_frame s p o q h (hl o (by simp)) hsh.1
    simp only [run]
    generalize (step (s :: p) o).1 = X at *
    cases X with
    | nil => exact absurd rfl h1.1
    | cons s' p' =>
      simp only [vcol_cons, List.tail_cons] at ht
      rw [← ht]
      exact ih s' p' h1 (fun o' ho' => hl o' (by simp [ho'])) hsh.2

theorem updFirst_length (sp : Spec) (k : Key) (v : Option Nat) : (sp.updFirst k v).length = sp.length := by
  induction sp with
  | nil => rfl
  | cons m p ih => simp only [Spec.updFirst]; split <;> simp [ih]

theorem setTop_length (sp : Spec) (k : Key) (v : Option Nat) (h : sp ≠ []) : (sp.setTop k v).length = sp.length := by
  cases sp with
  | nil => exact absurd rfl h
  | cons m p => rfl

theorem addAll_length (ks : List Key) (sp : Spec) (d : Nat) : (sp.addAll ks d).length = sp.length := by
  induction ks generalizing sp with
  | nil => rfl
  | cons k ks ih =>
    simp only [Spec.addAll, List.foldl_cons]
    have := ih (sp.updFirst k ((sp.lookup k).map (· + d)))
    simp only [Spec.addAll] at this
    rw [this, updFirst_length]

theorem specStep_length (sp : Spec) (o : ROp) (hflat : o.flat = true) (hne : sp ≠ []) :
    (specStep sp o).1.length = sp.length := by
  cases o <;> simp only [ROp.flat] at hflat <;> simp only [specStep, Spec.orInsert, Spec.modify]
  case ins k v => exact setTop_length sp k _ hne
  case parIns d k v =>
    split
    · rename_i hd
      have hdn : sp.drop d ≠ [] := by
        intro h'; have := congrArg List.length h'; simp at this; omega
      simp [setTop_length _ k _ hdn]; omega
    · rfl
  case multi ks d => split <;> (try split) <;> simp [addAll_length]
  case multiP ks d => split <;> simp [addAll_length]
  case entModOrIns k d v =>
    split
    · simp [updFirst_length]
    · rw [setTop_length _ k _ (by
        intro h'; have := congrArg List.length h'; simp [updFirst_length] at this; exact hne this)]
      simp [updFirst_length]
  all_goals first
    | exact absurd hflat (by decide)
    | rfl
    | (split <;> simp [updFirst_length, setTop_length sp _ _ hne])
    | simp [updFirst_length]

theorem step_length (r : Reg) (o : ROp) (h : Inv r) (hflat : o.flat = true) : (step r o).1.length = r.length := by
  have := specStep_length (abs r) o hflat (abs_ne_nil r h.1)
  rw [← (step_refines r o h).2.2] at this
  simpa using this

theorem run_length (r : Reg) (ops : List ROp) (h : Inv r) (hflat : ∀ o ∈ ops, o.flat = true) :
    (run r ops).1.length = r.length := by
  induction ops generalizing r with
  | nil => rfl
  | cons o os ih =>
    simp only [run]
    rw [ih _ (step_refines r o h).1 (fun o' ho' => hflat o' (by simp [ho'])), step_length r o h (hflat o (by simp))]

theorem run_frame (r : Reg) (ops : List ROp) (q : Key) (h : Inv r) (hflat : ∀ o ∈ ops, o.flat = true)
    (hq : ∀ o ∈ ops, q ∉ o.keys) : vcol (run r ops).1 q = vcol r q := by
  induction ops generalizing r with
  | nil => rfl
  | cons o os ih =>
    simp only [run]
    rw [ih _ (step_refines r o h).1 (fun o' ho' => hflat o' (by simp [ho'])) (fun o' ho' => hq o' (by simp [ho'])),
      step_frame r o q h (hq o (by simp)) (hflat o (by simp))]

theorem run_inv (r : Reg) (ops : List ROp) (h : Inv r) : Inv (run r ops).1 := by
  induction ops generalizing r with
  | nil => exact h
  | cons o os ih => simp only [run]; exact ih _ (step_refines r o h).1


end MahfModel.Registry

/-! ### statements: registry operations and `with_inner_state` scopes -/
namespace MahfModel.Borrow
open MahfModel.Registry

theorem intoParent_cases (r : Reg) :
    (∃ c p, r = c :: p ∧ p ≠ [] ∧ intoParent r = (some p, c)) ∨ (r.length ≤ 1 ∧ ∃ c, intoParent r = (none, c)) := by
  cases r with
  | nil => exact Or.inr ⟨by simp, [], rfl⟩
  | cons s t =>
    cases t with
    | nil => exact Or.inr ⟨by simp, s, rfl⟩
    | cons s' t' => exact Or.inl ⟨s, s' :: t', rfl, by simp, rfl⟩

mutual
  /-- Refinement for statements: registry operations and `with_inner_state` scopes (ok and err bodies). -/
  theorem execStmt_refines (s : Stmt) (r : Reg) (h : Inv r) (hf : Stmt.holdFree s) :
      Inv (execStmt r s).1 ∧ (execStmt r s).2 = (specExecStmt (abs r) s).2 ∧
        abs (execStmt r s).1 = (specExecStmt (abs r) s).1 := by
    cases s with
    | op o =>
      obtain ⟨h1, h2, h3⟩ := step_refines r o h
      simp only [execStmt, specExecStmt]
      exact ⟨h1, by rw [h2], h3⟩
    | hold k d ok body => simp [Stmt.holdFree] at hf
    | inner ok body =>
      simp only [Stmt.holdFree] at hf
      have hc : Inv (intoChild r) := ⟨by simp [intoChild], by simp [intoChild, quiet_cons, h.2, Scope.quiet]⟩
      obtain ⟨i1, i2, i3⟩ := execProg_refines body (intoChild r) hc hf
      have habs : abs (intoChild r) = PMap.empty :: abs r := rfl
      rw [habs] at i2 i3
      simp only [execStmt, specExecStmt]
      rw [← i2, ← i3]
      generalize (execProg (intoChild r) body).1 = r2 at *
      generalize (execProg (intoChild r) body).2 = outs at *
      rcases intoParent_cases r2 with ⟨c, p, rfl, hp, hip⟩ | ⟨hlen, c, hip⟩
      · rw [hip]
        obtain ⟨_, hq⟩ := i1
        simp only [quiet_cons, Bool.and_eq_true] at hq
        cases p with
        | nil => exact absurd rfl hp
        | cons s' p' =>
          simp only [abs_cons]
          exact ⟨⟨by simp, hq.2⟩, by trivial, by trivial⟩
      · rw [hip]
        cases r2 with
        | nil => exact ⟨inv_new, rfl, rfl⟩
        | cons s t =>
          cases t with
          | nil => exact ⟨inv_new, rfl, rfl⟩
          | cons s' t' => simp at hlen
  theorem execProg_refines (p : Prog) (r : Reg) (h : Inv r) (hf : Prog.holdFree p) :
      Inv (execProg r p).1 ∧ (execProg r p).2 = (specExecProg (abs r) p).2 ∧
        abs (execProg r p).1 = (specExecProg (abs r) p).1 := by
    cases p with
    | nil => exact ⟨h, rfl, rfl⟩
    | cons s rest =>
      simp only [Prog.holdFree] at hf
      obtain ⟨h1, h2, h3⟩ := execStmt_refines s r h hf.1
      obtain ⟨i1, i2, i3⟩ := execProg_refines rest _ h1 hf.2
      simp only [execProg, specExecProg]
      rw [← h3, ← h2]
      exact ⟨i1, by rw [i2], i3⟩
end

end MahfModel.Borrow
