/- Helper lemmas for C04, programs with scopes and failing steps. Core only. -/
import MahfModel.Proofs.C04
import MahfModel.Model.PopStackScope
namespace MahfModel.PopStack

theorem find_put (c : Chain) (s s' : Stk) (h : find c = some s) : find (put c s') = some s' := by
  induction c with
  | nil => simp [find] at h
  | cons r c ih =>
    cases r with
    | some x => simp [put, find]
    | none => simp only [find] at h; simp only [put, find]; exact ih h

theorem put_put (c : Chain) (a b : Stk) : put (put c a) b = put c b := by
  induction c with
  | nil => rfl
  | cons r c ih =>
    cases r with
    | some x => simp [put]
    | none => simp [put, ih]

theorem put_find (c : Chain) (s : Stk) (h : find c = some s) : put c s = c := by
  induction c with
  | nil => rfl
  | cons r c ih =>
    cases r with
    | some x => simp only [find, Option.some.injEq] at h; simp [put, h]
    | none => simp only [find] at h; simp [put, ih h]

theorem put_length (c : Chain) (s : Stk) : (put c s).length = c.length := by
  induction c with
  | nil => rfl
  | cons r c ih => cases r <;> simp [put, ih]

theorem find_ne_nil (c : Chain) (s : Stk) (h : find c = some s) : c ≠ [] := by
  intro hc; subst hc; simp [find] at h

theorem restore_child (c : Chain) (h : c ≠ []) : restore (none :: c) = some c := by
  cases c with
  | nil => exact absurd rfl h
  | cons p rest => rfl

theorem put_ne_nil (c : Chain) (s : Stk) (h : c ≠ []) : put c s ≠ [] := by
  intro hp
  have := put_length c s
  rw [hp] at this
  exact h (List.length_eq_zero_iff.mp this.symm)

theorem stepC_found (c : Chain) (s : Stk) (op : Op) (h : find c = some s) :
    stepC c op = (put c (step s op).1, (step s op).2) := by
  simp [stepC, h]

theorem run_refines (s : Stk) (ops : List Op) :
    abs (run s ops).1 = (specRun (abs s) ops).1 ∧ (run s ops).2 = (specRun (abs s) ops).2 := by
  induction ops generalizing s with
  | nil => simp [run, specRun]
  | cons op ops ih =>
    have h1 := step_refines s op
    have h2 := ih (step s op).1
    simp only [run, specRun]
    rw [← h1.1, ← h1.2]
    exact ⟨h2.1, by rw [h2.2]⟩

theorem opOuts_map_out (l : List Out) : opOuts (l.map SOut.out) = l := by
  induction l with
  | nil => rfl
  | cons x l ih => simp [opOuts, ih]

theorem opOuts_map_skip {α : Type} (l : List α) : opOuts (l.map fun _ => SOut.skip) = [] := by
  induction l with
  | nil => rfl
  | cons x l ih => simp [opOuts, ih]

/-- The refinement relation between a result of the chain model (started from a chain `c` in which the stack
is found) and a result of the plain stack. -/
def Refines (c : Chain) (r : Chain × List SOut × Bool) (q : Spec × List SOut × Bool) : Prop :=
  ∃ s', r.1 = put c s' ∧ abs s' = q.1 ∧ r.2 = q.2

mutual
theorem execItem_refines (i : Item) (c : Chain) (s : Stk) (h : find c = some s) :
    Refines c (execItem c i) (specItem (abs s) i) := by
  cases i with
  | op o =>
    have hs := step_refines s o
    refine ⟨(step s o).1, ?_, ?_, ?_⟩
    · simp [execItem, stepC_found c s o h]
    · simp [specItem, hs.1]
    · simp [execItem, specItem, stepC_found c s o h, hs.2]
  | fail => exact ⟨s, by simp [execItem, put_find c s h], by simp [specItem], by simp [execItem, specItem]⟩
  | failing o =>
    have hs := step_refines s o
    refine ⟨(step s o).1, ?_, ?_, ?_⟩
    · simp [execItem, stepC_found c s o h]
    · simp [specItem, hs.1]
    · simp [execItem, specItem, stepC_found c s o h, hs.2]
  | try_ i =>
    obtain ⟨s', h1, h2, h3⟩ := execItem_refines i c s h
    refine ⟨s', ?_, ?_, ?_⟩
    · simp [execItem, h1]
    · simp [specItem, h2]
    · simp [execItem, specItem, h3]
  | scope k body =>
    have hne := find_ne_nil c s h
    by_cases hk : k.runsBody = true
    · have hc : find (none :: c) = some s := by simpa [find] using h
      obtain ⟨s', h1, h2, h3⟩ := execItems_refines body (none :: c) s hc
      have hr : restore (execItems (none :: c) body).1 = some (put c s') := by
        rw [h1]; simp only [put]; exact restore_child _ (put_ne_nil c s' hne)
      refine ⟨s', ?_, ?_, ?_⟩
      · simp [execItem, hk, hr]
      · simp [specItem, hk, h2]
      · simp [execItem, specItem, hk, hr, h3]
    · have hk' : k.runsBody = false := by simpa using hk
      have hr : restore (none :: c) = some c := restore_child c hne
      refine ⟨s, ?_, ?_, ?_⟩
      · simp [execItem, hk', hr, put_find c s h]
      · simp [specItem, hk']
      · simp [execItem, specItem, hk', hr]
  | hold ok ops =>
    have hr := run_refines s ops
    refine ⟨(run s ops).1, ?_, ?_, ?_⟩
    · simp [execItem, h]
    · simp [specItem, hr.1]
    · simp [execItem, specItem, h, hr.2]
theorem execItems_refines (is : Items) (c : Chain) (s : Stk) (h : find c = some s) :
    Refines c (execItems c is) (specItems (abs s) is) := by
  cases is with
  | nil => exact ⟨s, by simp [execItems, put_find c s h], by simp [specItems], by simp [execItems, specItems]⟩
  | cons i is =>
    obtain ⟨s1, h1, h2, h3⟩ := execItem_refines i c s h
    have hf : find (execItem c i).1 = some s1 := by rw [h1]; exact find_put c s s1 h
    obtain ⟨s2, g1, g2, g3⟩ := execItems_refines is (execItem c i).1 s1 hf
    have h3a : (execItem c i).2.1 = (specItem (abs s) i).2.1 := by rw [h3]
    have h3b : (execItem c i).2.2 = (specItem (abs s) i).2.2 := by rw [h3]
    by_cases hok : (specItem (abs s) i).2.2 = true
    · refine ⟨s2, ?_, ?_, ?_⟩
      · simp only [execItems, h3b, hok, if_true]; rw [g1, h1, put_put]
      · simp only [specItems, hok, if_true]; rw [g2, h2]
      · simp only [execItems, specItems, h3b, hok, if_true]; rw [g3, h3a, h2]
    · refine ⟨s1, ?_, ?_, ?_⟩
      · simp only [execItems, h3b, hok]; simp [h1]
      · simp only [specItems, hok]; simp [h2]
      · simp only [execItems, specItems, h3b, hok]; simp [h3a]
end

/-! ### The executed operations form a plain history -/

theorem specRun_append (s : Spec) (a b : List Op) :
    specRun s (a ++ b) = ((specRun (specRun s a).1 b).1, (specRun s a).2 ++ (specRun (specRun s a).1 b).2) := by
  induction a generalizing s with
  | nil => simp [specRun]
  | cons o a ih => simp [specRun, ih]

theorem opOuts_append (a b : List SOut) : opOuts (a ++ b) = opOuts a ++ opOuts b := by
  induction a with
  | nil => rfl
  | cons x a ih => cases x <;> simp [opOuts, ih]

mutual
theorem opOuts_item_skips (i : Item) : opOuts i.skips = [] := by
  cases i with
  | op o => rfl
  | fail => rfl
  | failing o => rfl
  | try_ i => simpa [Item.skips] using opOuts_item_skips i
  | scope k b => simpa [Item.skips, opOuts] using opOuts_items_skips b
  | hold ok ops => simp [Item.skips, opOuts, opOuts_map_skip]
theorem opOuts_items_skips (is : Items) : opOuts is.skips = [] := by
  cases is with
  | nil => rfl
  | cons i is => simp [Items.skips, opOuts_append, opOuts_item_skips i, opOuts_items_skips is]
end

/-- `tr` is the plain history a program amounts to from stack `s`. -/
def IsTrace (s : Spec) (ops : List Op) (q : Spec × List SOut × Bool) (tr : List Op) : Prop :=
  tr.Sublist ops ∧ q.1 = (specRun s tr).1 ∧ opOuts q.2.1 = (specRun s tr).2

mutual
theorem specItem_trace (i : Item) (s : Spec) : ∃ tr, IsTrace s i.ops (specItem s i) tr := by
  cases i with
  | op o => exact ⟨[o], by simp [Item.ops], by simp [specItem, specRun], by simp [specItem, specRun, opOuts]⟩
  | fail => exact ⟨[], by simp [Item.ops], by simp [specItem, specRun], by simp [specItem, specRun, opOuts]⟩
  | failing o =>
    exact ⟨[o], by simp [Item.ops], by simp [specItem, specRun], by simp [specItem, specRun, opOuts]⟩
  | try_ i =>
    obtain ⟨tr, h1, h2, h3⟩ := specItem_trace i s
    exact ⟨tr, by simpa [Item.ops] using h1, by simpa [specItem] using h2, by simpa [specItem] using h3⟩
  | scope k b =>
    by_cases hk : k.runsBody = true
    · obtain ⟨tr, h1, h2, h3⟩ := specItems_trace b s
      refine ⟨tr, by simpa [Item.ops] using h1, by simpa [specItem, hk] using h2, ?_⟩
      simp only [specItem, hk, if_true]
      split <;> simpa [opOuts] using h3
    · have hk' : k.runsBody = false := by simpa using hk
      refine ⟨[], by simp, by simp [specItem, hk', specRun], ?_⟩
      simp [specItem, hk', specRun, opOuts, opOuts_items_skips]
  | hold ok ops =>
    refine ⟨ops, by simp [Item.ops], by simp [specItem], ?_⟩
    simp only [specItem]
    split <;> simp [opOuts, opOuts_map_out]
theorem specItems_trace (is : Items) (s : Spec) : ∃ tr, IsTrace s is.ops (specItems s is) tr := by
  cases is with
  | nil => exact ⟨[], by simp [Items.ops], by simp [specItems, specRun], by simp [specItems, specRun, opOuts]⟩
  | cons i is =>
    obtain ⟨t1, h1, h2, h3⟩ := specItem_trace i s
    by_cases hok : (specItem s i).2.2 = true
    · obtain ⟨t2, g1, g2, g3⟩ := specItems_trace is (specItem s i).1
      refine ⟨t1 ++ t2, ?_, ?_, ?_⟩
      · simpa [Items.ops] using List.Sublist.append h1 g1
      · simp only [specItems, hok, if_true, specRun_append]; rw [g2, h2]
      · simp only [specItems, hok, if_true, specRun_append, opOuts_append]; rw [g3, h3, h2]
    · refine ⟨t1, ?_, ?_, ?_⟩
      · simpa [Items.ops] using List.Sublist.trans h1 (List.sublist_append_left _ _)
      · simp only [specItems, hok]; simpa using h2
      · simp only [specItems, hok]; simpa [opOuts_append, opOuts_items_skips] using h3
end

/-! ### Top level: the caller carries on after every result -/

theorem specItems_tryAll_ofOps (s : Spec) (ops : List Op) :
    (specItems s (Items.ofOps ops).tryAll).1 = (specRun s ops).1 ∧
    (specItems s (Items.ofOps ops).tryAll).2.1 = (specRun s ops).2.map SOut.out ∧
    (specItems s (Items.ofOps ops).tryAll).2.2 = true := by
  induction ops generalizing s with
  | nil => simp [Items.ofOps, Items.tryAll, specItems, specRun]
  | cons o ops ih =>
    obtain ⟨h1, h2, h3⟩ := ih (specStep s o).1
    simp only [Items.ofOps, Items.tryAll, specItems, specItem, specRun, if_true]
    exact ⟨h1, by simp [h2], h3⟩

end MahfModel.PopStack
