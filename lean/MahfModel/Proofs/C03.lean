/-
C03 — helper lemmas for `Props/C03.lean`.
-/
import MahfModel.Model.Config
namespace MahfModel.Config

/-! ### The code-shaped interpreter coincides with the structured program -/

mutual
  theorem condPhase_eq (s : Script) (f : Nat) (ph : Phase) :
      ∀ (c : Cond) (σ : St), condPhase s ph c σ = srun s f (condProg ph c) σ
    | .leaf id, σ => by simp [condPhase, condProg, srun]
    | .all cs, σ => by simp only [condPhase, condProg]; exact condsPhase_eq s f ph cs σ
    | .any cs, σ => by simp only [condPhase, condProg]; exact condsPhase_eq s f ph cs σ
    | .not c, σ => by simp only [condPhase, condProg]; exact condPhase_eq s f ph c σ
  theorem condsPhase_eq (s : Script) (f : Nat) (ph : Phase) :
      ∀ (cs : Conds) (σ : St), condsPhase s ph cs σ = srun s f (condsProg ph cs) σ
    | .nil, σ => by simp [condsPhase, condsProg, srun]
    | .cons c cs, σ => by
      simp only [condsPhase, condsProg, srun]
      rw [condPhase_eq s f ph c σ]
      congr 1
      funext σ1
      exact condsPhase_eq s f ph cs σ1
end

theorem andThen_congr {r : St × Res} {k k' : St → St × Res} (h : ∀ σ, k σ = k' σ) :
    andThen r k = andThen r k' := by
  have : k = k' := funext h
  rw [this]

mutual
  theorem initC_eq (s : Script) (f : Nat) :
      ∀ (c : Comp) (σ : St), initC s c σ = srun s f (initProg c) σ
    | .leaf id acts, σ => by simp [initC, initProg, srun]
    | .block cs, σ => by simp only [initC, initProg]; exact initCs_eq s f cs σ
    | .loop c b, σ => by
      simp only [initC, initProg, srun, andThen]
      rw [condPhase_eq s f .cinit c]
      exact andThen_congr (initC_eq s f b)
    | .branch c t e he, σ => by
      simp only [initC, initProg, srun]
      rw [condPhase_eq s f .cinit c]
      refine andThen_congr fun σ1 => ?_
      rw [initC_eq s f t]
      refine andThen_congr fun σ2 => ?_
      cases he
      · simp [srun]
      · simp only [if_true]; exact initC_eq s f e σ2
    | .scope _, σ => by simp [initC, initProg, srun]
  theorem initCs_eq (s : Script) (f : Nat) :
      ∀ (cs : Comps) (σ : St), initCs s cs σ = srun s f (initProgs cs) σ
    | .nil, σ => by simp [initCs, initProgs, srun]
    | .cons c cs, σ => by
      simp only [initCs, initProgs, srun]
      rw [initC_eq s f c]
      exact andThen_congr (initCs_eq s f cs)
end

mutual
  theorem reqC_eq (s : Script) (f : Nat) :
      ∀ (c : Comp) (σ : St), reqC s c σ = srun s f (reqProg c) σ
    | .leaf id acts, σ => by simp [reqC, reqProg, srun]
    | .block cs, σ => by simp only [reqC, reqProg]; exact reqCs_eq s f cs σ
    | .loop c b, σ => by
      simp only [reqC, reqProg, srun]
      rw [condPhase_eq s f .creq c]
      exact andThen_congr (reqC_eq s f b)
    | .branch c t e he, σ => by
      simp only [reqC, reqProg, srun]
      rw [condPhase_eq s f .creq c]
      refine andThen_congr fun σ1 => ?_
      rw [reqC_eq s f t]
      refine andThen_congr fun σ2 => ?_
      cases he
      · simp [srun]
      · simp only [if_true]; exact reqC_eq s f e σ2
    | .scope _, σ => by simp [reqC, reqProg, srun]
  theorem reqCs_eq (s : Script) (f : Nat) :
      ∀ (cs : Comps) (σ : St), reqCs s cs σ = srun s f (reqProgs cs) σ
    | .nil, σ => by simp [reqCs, reqProgs, srun]
    | .cons c cs, σ => by
      simp only [reqCs, reqProgs, srun]
      rw [reqC_eq s f c]
      exact andThen_congr (reqCs_eq s f cs)
end

/-- The loop of the code (`body; counter += 1` inlined) is the structured `while` over
`body; bump`. -/
theorem loopN_eq_whileN (cond : St → St × CRes) (body body' : St → St × Res)
    (h : ∀ σ, body' σ = andThen (body σ) bump) :
    ∀ (n : Nat) (σ : St), loopN cond body n σ = whileN cond body' n σ := by
  intro n
  induction n with
  | zero => intro σ; simp [loopN, whileN]
  | succ n ih =>
    intro σ
    simp only [loopN, whileN]
    split <;> try rfl
    rw [h]
    exact andThen_congr (ih)

mutual
  theorem exec_eq (s : Script) (f : Nat) :
      ∀ (c : Comp) (σ : St), exec s f c σ = srun s f (execProg c) σ
    | .leaf id acts, σ => by simp [exec, execProg, srun]
    | .block cs, σ => by simp only [exec, execProg]; exact execs_eq s f cs σ
    | .loop c b, σ => by
      simp only [exec, execProg, srun]
      rw [condPhase_eq s f .cinit c]
      refine andThen_congr fun σ1 => ?_
      refine loopN_eq_whileN _ _ _ (fun σ2 => ?_) f σ1
      show srun s f (.seq (execProg b) .bump) σ2 = andThen (exec s f b σ2) bump
      simp only [srun]
      rw [exec_eq s f b]
    | .branch c t e he, σ => by
      simp only [exec, execProg, srun]
      split
      · exact exec_eq s f t _
      · cases he
        · simp [srun]
        · simp only [if_true]; exact exec_eq s f e _
      · rfl
    | .scope b, σ => by
      simp only [exec, execProg, srun]
      rw [initC_eq s f b]
      have : ∀ σ1, andThen (reqC s b σ1) (exec s f b) = andThen (srun s f (reqProg b) σ1) (srun s f (execProg b)) := by
        intro σ1
        rw [reqC_eq s f b]
        exact andThen_congr (exec_eq s f b)
      rw [andThen_congr this]
  theorem execs_eq (s : Script) (f : Nat) :
      ∀ (cs : Comps) (σ : St), execs s f cs σ = srun s f (execProgs cs) σ
    | .nil, σ => by simp [execs, execProgs, srun]
    | .cons c cs, σ => by
      simp only [execs, execProgs, srun]
      rw [exec_eq s f c]
      exact andThen_congr (execs_eq s f cs)
end

theorem run_eq (s : Script) (f : Nat) (c : Comp) (σ : St) :
    run s f c σ = srun s f (prog c) σ := by
  simp only [run, prog, srun]
  rw [initC_eq s f c]
  refine andThen_congr fun σ1 => ?_
  rw [reqC_eq s f c]
  exact andThen_congr (exec_eq s f c)

end MahfModel.Config
