/-
C03 — helper lemmas for `Props/C03.lean`.
-/
import MahfModel.Model.Config
namespace MahfModel.Config

/-! ### The code-shaped interpreter coincides with the structured program -/

theorem effOf_nil (ph : Phase) : effOf ph [] = some := by
  funext r
  cases ph <;> simp [effOf, leafEff, needEff, applyActs]

mutual
  theorem condPhase_eq (s : Script) (f : Nat) (ph : Phase) :
      ∀ (c : Cond) (σ : St), condPhase s ph c σ = srun s f (condProg ph c) σ
    | .leaf id, σ => by simp [condPhase, condProg, srun, opRun, effOf_nil]
    | .all cs, σ => by simp only [condPhase, condProg]; exact condsPhase_eq s f ph cs σ
    | .any cs, σ => by simp only [condPhase, condProg]; exact condsPhase_eq s f ph cs σ
    | .not c, σ => by simp only [condPhase, condProg]; exact condPhase_eq s f ph c σ
  theorem condsPhase_eq (s : Script) (f : Nat) (ph : Phase) :
      ∀ (cs : Conds) (σ : St), condsPhase s ph cs σ = srun s f (condsProg ph cs) σ
    | .nil, σ => by simp [condsPhase, condsProg, srun]
    | .cons c cs, σ => by
      simp only [condsPhase, condsProg, srun]
      rw [condPhase_eq s f ph c σ]
      congr 1
      funext σ1
      exact condsPhase_eq s f ph cs σ1
end

theorem andThen_congr {r : St × Res} {k k' : St → St × Res} (h : ∀ σ, k σ = k' σ) :
    andThen r k = andThen r k' := by
  have : k = k' := funext h
  rw [this]

theorem andThen_assoc (r : St × Res) (k1 k2 : St → St × Res) :
    andThen (andThen r k1) k2 = andThen r (fun σ => andThen (k1 σ) k2) := by
  obtain ⟨σ, x⟩ := r
  cases x <;> rfl

mutual
  theorem initC_eq (s : Script) (f : Nat) :
      ∀ (c : Comp) (σ : St), initC s c σ = srun s f (initProg c) σ
    | .leaf id acts, σ => by simp [initC, initProg, srun, opRun, effOf]
    | .block cs, σ => by simp only [initC, initProg]; exact initCs_eq s f cs σ
    | .loop c b, σ => by
      simp only [initC, initProg, srun, opRun, andThen]
      rw [condPhase_eq s f .cinit c]
      exact andThen_congr (initC_eq s f b)
    | .branch c t e he, σ => by
      simp only [initC, initProg, srun]
      rw [condPhase_eq s f .cinit c]
      refine andThen_congr fun σ1 => ?_
      rw [initC_eq s f t]
      refine andThen_congr fun σ2 => ?_
      cases he
      · simp [srun]
      · simp only [if_true]; exact initC_eq s f e σ2
    | .scope _, σ => by simp [initC, initProg, srun]
    | .scopeW _ _ _ _, σ => by simp [initC, initProg, srun]
  theorem initCs_eq (s : Script) (f : Nat) :
      ∀ (cs : Comps) (σ : St), initCs s cs σ = srun s f (initProgs cs) σ
    | .nil, σ => by simp [initCs, initProgs, srun]
    | .cons c cs, σ => by
      simp only [initCs, initProgs, srun]
      rw [initC_eq s f c]
      exact andThen_congr (initCs_eq s f cs)
end

mutual
  theorem reqC_eq (s : Script) (f : Nat) :
      ∀ (c : Comp) (σ : St), reqC s c σ = srun s f (reqProg c) σ
    | .leaf id acts, σ => by simp [reqC, reqProg, srun, opRun, effOf]
    | .block cs, σ => by simp only [reqC, reqProg]; exact reqCs_eq s f cs σ
    | .loop c b, σ => by
      simp only [reqC, reqProg, srun]
      rw [condPhase_eq s f .creq c]
      exact andThen_congr (reqC_eq s f b)
    | .branch c t e he, σ => by
      simp only [reqC, reqProg, srun]
      rw [condPhase_eq s f .creq c]
      refine andThen_congr fun σ1 => ?_
      rw [reqC_eq s f t]
      refine andThen_congr fun σ2 => ?_
      cases he
      · simp [srun]
      · simp only [if_true]; exact reqC_eq s f e σ2
    | .scope _, σ => by simp [reqC, reqProg, srun]
    | .scopeW _ _ _ _, σ => by simp [reqC, reqProg, srun]
  theorem reqCs_eq (s : Script) (f : Nat) :
      ∀ (cs : Comps) (σ : St), reqCs s cs σ = srun s f (reqProgs cs) σ
    | .nil, σ => by simp [reqCs, reqProgs, srun]
    | .cons c cs, σ => by
      simp only [reqCs, reqProgs, srun]
      rw [reqC_eq s f c]
      exact andThen_congr (reqCs_eq s f cs)
end

/-- The loop of the code (`body; counter += 1` inlined) is the structured `while` over
`body; bump`. -/
theorem loopN_eq_whileN (cond : St → St × CRes) (body body' : St → St × Res)
    (h : ∀ σ, body' σ = andThen (body σ) bump) :
    ∀ (n : Nat) (σ : St), loopN cond body n σ = whileN cond body' n σ := by
  intro n
  induction n with
  | zero => intro σ; simp [loopN, whileN]
  | succ n ih =>
    intro σ
    simp only [loopN, whileN]
    split <;> try rfl
    rw [h]
    exact andThen_congr (ih)

theorem exportKeys_nil (m : Scope) (mg : List (Nat × Nat)) : exportKeys m mg [] = [] := by
  unfold exportKeys
  induction mg with
  | nil => rfl
  | cons ab mg ih => simp only [List.foldl_cons]; cases m.get? ab.1 <;> simpa [Reg.insert] using ih

/-- Restoring the registry and then merging (what the code does) is merging as the last statement
inside the still-open scope and then closing it (what the structured program does). -/
theorem closeMerge_eq (s : Script) (id : Nat) (mg : List (Nat × Nat)) (x : St × Res) :
    closeMerge s id mg x =
      (pop (andThen x (opRun s (.merge id mg))).1, (andThen x (opRun s (.merge id mg))).2) := by
  obtain ⟨⟨reg, tr⟩, r⟩ := x
  cases r <;> simp only [closeMerge, andThen]
  simp only [opRun, step, pop]
  by_cases hf : s.faulty (Phase.exec, id) (List.count (Phase.exec, id) tr) = true
  · simp [hf]
  · cases reg with
    | nil => simp [hf, mergeEff, exportKeys_nil]
    | cons m p => simp [hf, mergeEff]

mutual
  theorem exec_eq (s : Script) (f : Nat) :
      ∀ (c : Comp) (σ : St), exec s f c σ = srun s f (execProg c) σ
    | .leaf id acts, σ => by simp [exec, execProg, srun, opRun, effOf]
    | .block cs, σ => by simp only [exec, execProg]; exact execs_eq s f cs σ
    | .loop c b, σ => by
      simp only [exec, execProg, srun]
      rw [condPhase_eq s f .cinit c]
      refine andThen_congr fun σ1 => ?_
      refine loopN_eq_whileN _ _ _ (fun σ2 => ?_) f σ1
      show srun s f (.seq (execProg b) (.atom .bump)) σ2 = andThen (exec s f b σ2) bump
      simp only [srun]
      rw [exec_eq s f b]
      rfl
    | .branch c t e he, σ => by
      simp only [exec, execProg, srun]
      split
      · exact exec_eq s f t _
      · cases he
        · simp [srun]
        · simp only [if_true]; exact exec_eq s f e _
      · rfl
    | .scope b, σ => by
      simp only [exec, execProg, srun]
      rw [initC_eq s f b]
      have : ∀ σ1, andThen (reqC s b σ1) (exec s f b) = andThen (srun s f (reqProg b) σ1) (srun s f (execProg b)) := by
        intro σ1
        rw [reqC_eq s f b]
        exact andThen_congr (exec_eq s f b)
      rw [andThen_congr this]
    | .scopeW id si mg b, σ => by
      simp only [exec, execProg, srun, closeMerge_eq]
      have hb : ∀ σ0, andThen (initC s b σ0) (fun σ1 => andThen (reqC s b σ1) (exec s f b)) =
          andThen (srun s f (initProg b) σ0) (fun σ1 => andThen (srun s f (reqProg b) σ1) (srun s f (execProg b))) := by
        intro σ0
        rw [initC_eq s f b]
        refine andThen_congr fun σ1 => ?_
        rw [reqC_eq s f b]
        exact andThen_congr (exec_eq s f b)
      rw [andThen_congr hb, andThen_assoc]
      rfl
  theorem execs_eq (s : Script) (f : Nat) :
      ∀ (cs : Comps) (σ : St), execs s f cs σ = srun s f (execProgs cs) σ
    | .nil, σ => by simp [execs, execProgs, srun]
    | .cons c cs, σ => by
      simp only [execs, execProgs, srun]
      rw [exec_eq s f c]
      exact andThen_congr (execs_eq s f cs)
end

theorem run_eq (s : Script) (f : Nat) (c : Comp) (σ : St) :
    run s f c σ = srun s f (prog c) σ := by
  simp only [run, prog, srun]
  rw [initC_eq s f c]
  refine andThen_congr fun σ1 => ?_
  rw [reqC_eq s f c]
  exact andThen_congr (exec_eq s f c)

/-! ### Registry lemmas -/

theorem Scope.has_iff_get (m : Scope) (k : Nat) : m.has k = (m.get? k).isSome := by
  induction m with
  | nil => simp [Scope.has, Scope.get?]
  | cons e m ih => simp only [Scope.has, Scope.get?] at *; grind

theorem Scope.get_erase (m : Scope) (k k' : Nat) :
    (m.erase k).get? k' = if k = k' then none else m.get? k' := by
  induction m with
  | nil => simp [Scope.get?, Scope.erase]
  | cons e m ih => simp only [Scope.get?, Scope.erase] at *; grind

theorem Scope.get_put (m : Scope) (k v k' : Nat) :
    (m.put k v).get? k' = if k = k' then some v else m.get? k' := by
  have := Scope.get_erase m k k'
  simp only [Scope.put, Scope.get?, Scope.erase] at *
  grind

namespace Reg

theorem length_insert (r : Reg) (k v : Nat) : (r.insert k v).length = r.length := by
  cases r <;> simp [insert]
theorem length_setv (r : Reg) (k v : Nat) : (r.setv k v).length = r.length := by
  induction r with
  | nil => simp [setv]
  | cons m r ih => simp only [setv]; split <;> simp [ih]
theorem length_remove (r : Reg) (k : Nat) : (r.remove k).length = r.length := by
  induction r with
  | nil => simp [remove]
  | cons m r ih => simp only [remove]; split <;> simp [ih]
theorem length_incr (r r' : Reg) (h : r.incr = some r') : r'.length = r.length := by
  induction r generalizing r' with
  | nil => simp [incr] at h
  | cons m r ih => simp only [incr] at h; grind

theorem contains_iff_get (r : Reg) (k : Nat) : r.contains k = (r.get? k).isSome := by
  induction r with
  | nil => simp [contains, get?]
  | cons m r ih => simp only [contains, get?]; grind [Scope.has_iff_get]

theorem get_insert (r : Reg) (k v k' : Nat) (hr : r ≠ []) :
    (r.insert k v).get? k' = if k = k' then some v else r.get? k' := by
  cases r with
  | nil => exact absurd rfl hr
  | cons m r => simp only [insert, get?]; grind [Scope.has_iff_get, Scope.get_put]

theorem get_setv_ne (r : Reg) (k v k' : Nat) (h : k ≠ k') : (r.setv k v).get? k' = r.get? k' := by
  induction r with
  | nil => simp [setv, get?]
  | cons m r ih => simp only [setv, get?]; split <;> simp only [get?] <;> grind [Scope.has_iff_get, Scope.get_put]

theorem get_setv_same (r : Reg) (k v : Nat) :
    (r.setv k v).get? k = if (r.get? k).isSome then some v else none := by
  induction r with
  | nil => simp [setv, get?]
  | cons m r ih => simp only [setv, get?]; split <;> simp only [get?] <;> grind [Scope.has_iff_get, Scope.get_put]

theorem get_remove_ne (r : Reg) (k k' : Nat) (h : k ≠ k') : (r.remove k).get? k' = r.get? k' := by
  induction r with
  | nil => simp [remove]
  | cons m r ih => simp only [remove, get?]; split <;> simp only [get?] <;> grind [Scope.has_iff_get, Scope.get_erase]

theorem setv_of_get_none (r : Reg) (k v : Nat) (h : r.get? k = none) : r.setv k v = r := by
  induction r with
  | nil => simp [setv]
  | cons m r ih => simp only [setv, get?] at *; grind [Scope.has_iff_get]

theorem remove_of_get_none (r : Reg) (k : Nat) (h : r.get? k = none) : r.remove k = r := by
  induction r with
  | nil => simp [remove]
  | cons m r ih => simp only [remove, get?] at *; grind [Scope.has_iff_get]

theorem get_incr (r r' : Reg) (k : Nat) (h : r.incr = some r') :
    r'.get? k = if k = 0 then (r.get? 0).map (· + 1) else r.get? k := by
  induction r generalizing r' with
  | nil => simp [incr] at h
  | cons m r ih =>
    simp only [incr] at h
    split at h
    · injection h with h; subst h; simp only [get?]; grind [Scope.has_iff_get, Scope.get_put]
    · split at h
      · injection h with h; subst h; simp only [get?]; grind [Scope.has_iff_get, Scope.get_put]
      · cases h

theorem incr_isSome_iff (r : Reg) : r.incr.isSome = (r.get? 0).isSome := by
  induction r with
  | nil => simp [incr, get?]
  | cons m r ih => simp only [incr, get?]; grind [Scope.has_iff_get]

end Reg

/-! ### Conditions only extend the trace -/

theorem evalLeaf_frame (s : Script) (id : Nat) (σ : St) :
    (evalLeaf s id σ).1.reg = σ.reg ∧ (evalLeaf s id σ).1.tr = (Phase.ceval, id) :: σ.tr := by
  simp only [evalLeaf]; split <;> simp

mutual
  theorem condEval_reg (s : Script) : ∀ (c : Cond) (σ : St), (condEval s c σ).1.reg = σ.reg
    | .leaf id, σ => by simp only [condEval]; exact (evalLeaf_frame s id σ).1
    | .all cs, σ => by simp only [condEval]; exact evalAll_reg s cs σ
    | .any cs, σ => by simp only [condEval]; exact evalAny_reg s cs σ
    | .not c, σ => by
      simp only [condEval]
      have := condEval_reg s c σ
      split <;> simp_all
  theorem evalAll_reg (s : Script) : ∀ (cs : Conds) (σ : St), (evalAll s cs σ).1.reg = σ.reg
    | .nil, σ => by simp [evalAll]
    | .cons c cs, σ => by
      simp only [evalAll]
      have h1 := condEval_reg s c σ
      split
      · rename_i σ1 b h
        have h2 := evalAll_reg s cs σ1
        split <;> simp_all
      · simp_all
  theorem evalAny_reg (s : Script) : ∀ (cs : Conds) (σ : St), (evalAny s cs σ).1.reg = σ.reg
    | .nil, σ => by simp [evalAny]
    | .cons c cs, σ => by
      simp only [evalAny]
      have h1 := condEval_reg s c σ
      split
      · rename_i σ1 b h
        have h2 := evalAny_reg s cs σ1
        split <;> simp_all
      · simp_all
end

/-! ### Generic relational invariants of the structured language -/

structure Inv (s : Script) (φ : Op → Bool) (C : Cond → Bool) (P : St → St → Prop) : Prop where
  refl : ∀ σ, P σ σ
  trans : ∀ a b c, P a b → P b c → P a c
  op : ∀ o, φ o = true → ∀ σ, P σ (opRun s o σ).1
  cond : ∀ c, C c = true → ∀ σ, P σ (condEval s c σ).1
  scope : ∀ σ σ2, P (push σ) σ2 → P σ (pop σ2)

theorem andThen_pres {P : St → St → Prop} (htr : ∀ a b c, P a b → P b c → P a c)
    {r : St × Res} {k : St → St × Res} {σ : St} (h1 : P σ r.1) (h2 : ∀ σ1, P σ1 (k σ1).1) :
    P σ (andThen r k).1 := by
  unfold andThen
  split
  · exact htr _ _ _ h1 (h2 _)
  · exact h1

theorem whileN_pres {P : St → St → Prop} (hrefl : ∀ σ, P σ σ) (htr : ∀ a b c, P a b → P b c → P a c)
    {cond : St → St × CRes} {body : St → St × Res}
    (hc : ∀ σ, P σ (cond σ).1) (hb : ∀ σ, P σ (body σ).1) :
    ∀ (n : Nat) (σ : St), P σ (whileN cond body n σ).1 := by
  intro n
  induction n with
  | zero => intro σ; simp [whileN, hrefl]
  | succ n ih =>
    intro σ
    simp only [whileN]
    have h := hc σ
    split
    · rename_i σ1 ph id heq; rw [heq] at h; exact h
    · rename_i σ1 heq; rw [heq] at h; exact h
    · rename_i σ1 heq; rw [heq] at h
      exact htr _ _ _ h (andThen_pres htr (hb σ1) ih)

theorem srun_pres {s : Script} {φ : Op → Bool} {C : Cond → Bool} {P : St → St → Prop}
    (I : Inv s φ C P) (f : Nat) : ∀ (p : Stmt), p.all φ C = true → ∀ σ, P σ (srun s f p σ).1
  | .skip, _, σ => by simp [srun, I.refl]
  | .atom o, h, σ => by simp only [srun]; exact I.op o (by simpa [Stmt.all] using h) σ
  | .seq a b, h, σ => by
    simp only [Stmt.all, Bool.and_eq_true] at h
    simp only [srun]
    exact andThen_pres I.trans (srun_pres I f a h.1 σ) (srun_pres I f b h.2)
  | .loop c b, h, σ => by
    simp only [Stmt.all, Bool.and_eq_true] at h
    simp only [srun]
    exact whileN_pres I.refl I.trans (I.cond c h.1) (srun_pres I f b h.2) f σ
  | .ite c t e, h, σ => by
    simp only [Stmt.all, Bool.and_eq_true] at h
    simp only [srun]
    have hc := I.cond c h.1.1 σ
    split
    · rename_i σ1 heq; rw [heq] at hc; exact I.trans _ _ _ hc (srun_pres I f t h.1.2 σ1)
    · rename_i σ1 heq; rw [heq] at hc; exact I.trans _ _ _ hc (srun_pres I f e h.2 σ1)
    · rename_i σ1 ph id heq; rw [heq] at hc; exact hc
  | .inScope b, h, σ => by
    simp only [Stmt.all] at h
    simp only [srun]
    have := srun_pres I f b h (push σ)
    exact I.scope _ _ this


/-! ### From side conditions on the tree to side conditions on its program -/

theorem Stmt.all_true : ∀ (p : Stmt), p.all (fun _ => true) (fun _ => true) = true
  | .skip => rfl
  | .atom _ => rfl
  | .seq a b => by simp [Stmt.all, Stmt.all_true a, Stmt.all_true b]
  | .loop _ b => by simp [Stmt.all, Stmt.all_true b]
  | .ite _ t e => by simp [Stmt.all, Stmt.all_true t, Stmt.all_true e]
  | .inScope b => by simp [Stmt.all, Stmt.all_true b]

mutual
  theorem condProg_all (A : Act → Bool) (C : Cond → Bool) (L : Bool) (ph : Phase) (hph : ph ≠ .ceval) :
      ∀ (c : Cond), (condProg ph c).all (Op.sat A L) C = true
    | .leaf id => by simp [condProg, Stmt.all, Op.sat, hph]
    | .all cs => by simp only [condProg]; exact condsProg_all A C L ph hph cs
    | .any cs => by simp only [condProg]; exact condsProg_all A C L ph hph cs
    | .not c => by simp only [condProg]; exact condProg_all A C L ph hph c
  theorem condsProg_all (A : Act → Bool) (C : Cond → Bool) (L : Bool) (ph : Phase) (hph : ph ≠ .ceval) :
      ∀ (cs : Conds), (condsProg ph cs).all (Op.sat A L) C = true
    | .nil => by simp [condsProg, Stmt.all]
    | .cons c cs => by simp [condsProg, Stmt.all, condProg_all A C L ph hph c, condsProg_all A C L ph hph cs]
end

mutual
  theorem initProg_all (A : Act → Bool) (C : Cond → Bool) (L : Bool) :
      ∀ (c : Comp), c.sat A C L = true → (initProg c).all (Op.sat A L) C = true
    | .leaf id acts, h => by simpa [initProg, Stmt.all, Op.sat, Comp.sat] using h
    | .block cs, h => by simp only [initProg]; exact initProgs_all A C L cs (by simpa [Comp.sat] using h)
    | .loop c b, h => by
      simp only [Comp.sat, Bool.and_eq_true] at h
      have hb := initProg_all A C L b h.2
      have hL := h.1.1
      subst hL
      simp [initProg, Stmt.all, Op.sat, condProg_all, hb]
    | .branch c t e he, h => by
      simp only [Comp.sat, Bool.and_eq_true, Bool.or_eq_true, Bool.not_eq_true'] at h
      cases he
      · simp [initProg, Stmt.all, condProg_all, initProg_all A C L t h.1.2]
      · have he' := initProg_all A C L e (by simpa using h.2)
        simp [initProg, Stmt.all, condProg_all, initProg_all A C L t h.1.2, he']
    | .scope b, h => by simp [initProg, Stmt.all]
    | .scopeW _ _ _ _, h => by simp [initProg, Stmt.all]
  theorem initProgs_all (A : Act → Bool) (C : Cond → Bool) (L : Bool) :
      ∀ (cs : Comps), cs.sat A C L = true → (initProgs cs).all (Op.sat A L) C = true
    | .nil, _ => by simp [initProgs, Stmt.all]
    | .cons c cs, h => by
      simp only [Comps.sat, Bool.and_eq_true] at h
      simp [initProgs, Stmt.all, initProg_all A C L c h.1, initProgs_all A C L cs h.2]
end

mutual
  theorem reqProg_all (A : Act → Bool) (C : Cond → Bool) (L : Bool) :
      ∀ (c : Comp), c.sat A C L = true → (reqProg c).all (Op.sat A L) C = true
    | .leaf id acts, h => by simpa [reqProg, Stmt.all, Op.sat, Comp.sat] using h
    | .block cs, h => by simp only [reqProg]; exact reqProgs_all A C L cs (by simpa [Comp.sat] using h)
    | .loop c b, h => by
      simp only [Comp.sat, Bool.and_eq_true] at h
      simp [reqProg, Stmt.all, condProg_all, reqProg_all A C L b h.2]
    | .branch c t e he, h => by
      simp only [Comp.sat, Bool.and_eq_true, Bool.or_eq_true, Bool.not_eq_true'] at h
      cases he
      · simp [reqProg, Stmt.all, condProg_all, reqProg_all A C L t h.1.2]
      · have he' := reqProg_all A C L e (by simpa using h.2)
        simp [reqProg, Stmt.all, condProg_all, reqProg_all A C L t h.1.2, he']
    | .scope b, h => by simp [reqProg, Stmt.all]
    | .scopeW _ _ _ _, h => by simp [reqProg, Stmt.all]
  theorem reqProgs_all (A : Act → Bool) (C : Cond → Bool) (L : Bool) :
      ∀ (cs : Comps), cs.sat A C L = true → (reqProgs cs).all (Op.sat A L) C = true
    | .nil, _ => by simp [reqProgs, Stmt.all]
    | .cons c cs, h => by
      simp only [Comps.sat, Bool.and_eq_true] at h
      simp [reqProgs, Stmt.all, reqProg_all A C L c h.1, reqProgs_all A C L cs h.2]
end

mutual
  theorem execProg_all (A : Act → Bool) (C : Cond → Bool) (L : Bool) :
      ∀ (c : Comp), c.sat A C L = true → (execProg c).all (Op.sat A L) C = true
    | .leaf id acts, h => by simpa [execProg, Stmt.all, Op.sat, Comp.sat] using h
    | .block cs, h => by simp only [execProg]; exact execProgs_all A C L cs (by simpa [Comp.sat] using h)
    | .loop c b, h => by
      simp only [Comp.sat, Bool.and_eq_true] at h
      have hb := execProg_all A C L b h.2
      have hL := h.1.1
      subst hL
      simp [execProg, Stmt.all, Op.sat, h.1.2, condProg_all, hb]
    | .branch c t e he, h => by
      simp only [Comp.sat, Bool.and_eq_true, Bool.or_eq_true, Bool.not_eq_true'] at h
      cases he
      · simp [execProg, Stmt.all, h.1.1, execProg_all A C L t h.1.2]
      · have he' := execProg_all A C L e (by simpa using h.2)
        simp [execProg, Stmt.all, h.1.1, execProg_all A C L t h.1.2, he']
    | .scope b, h => by
      simp only [Comp.sat] at h
      simp [execProg, Stmt.all, initProg_all A C L b h, reqProg_all A C L b h, execProg_all A C L b h]
    | .scopeW id si mg b, h => by
      simp only [Comp.sat, Bool.and_eq_true] at h
      have h1 := h.1.1
      have h2 := h.1.2
      simp [execProg, Stmt.all, Op.sat, h1, h2, initProg_all A C L b h.2, reqProg_all A C L b h.2,
        execProg_all A C L b h.2]
  theorem execProgs_all (A : Act → Bool) (C : Cond → Bool) (L : Bool) :
      ∀ (cs : Comps), cs.sat A C L = true → (execProgs cs).all (Op.sat A L) C = true
    | .nil, _ => by simp [execProgs, Stmt.all]
    | .cons c cs, h => by
      simp only [Comps.sat, Bool.and_eq_true] at h
      simp [execProgs, Stmt.all, execProg_all A C L c h.1, execProgs_all A C L cs h.2]
end

theorem prog_all (A : Act → Bool) (C : Cond → Bool) (L : Bool) (c : Comp) (h : c.sat A C L = true) :
    (prog c).all (Op.sat A L) C = true := by
  simp [prog, Stmt.all, initProg_all A C L c h, reqProg_all A C L c h, execProg_all A C L c h]

/-- The body of a scope as one program. -/
def scopeBody (b : Comp) : Stmt := .seq (initProg b) (.seq (reqProg b) (execProg b))

/-! ### One leaf call -/

theorem step_cases (s : Script) (ev : Ev) (eff : Reg → Option Reg) (σ : St) :
    step s ev eff σ = (⟨σ.reg, ev :: σ.tr⟩, .err ev.1 ev.2) ∨
    ∃ r, eff σ.reg = some r ∧ step s ev eff σ = (⟨r, ev :: σ.tr⟩, .ok) := by
  simp only [step]
  split
  · exact Or.inl rfl
  · split
    · rename_i r h; exact Or.inr ⟨r, h, rfl⟩
    · exact Or.inl rfl

theorem length_apply (ph : Phase) (a : Act) (r : Reg) : (a.apply ph r).length = r.length := by
  cases a <;> simp only [Act.apply] <;> (try split) <;>
    simp [Reg.length_insert, Reg.length_setv, Reg.length_remove]

theorem length_applyActs (ph : Phase) (acts : List Act) (r : Reg) :
    (applyActs ph acts r).length = r.length := by
  unfold applyActs
  induction acts generalizing r with
  | nil => rfl
  | cons a acts ih => simp [List.foldl_cons, ih, length_apply]

theorem effOf_length (ph : Phase) (acts : List Act) (r r' : Reg) (h : effOf ph acts r = some r') :
    r'.length = r.length := by
  cases ph <;> simp only [effOf, leafEff, needEff] at h
  · injection h with h; subst h; exact length_applyActs _ _ _
  · split at h
    · injection h with h; subst h; rfl
    · cases h
  · injection h with h; subst h; exact length_applyActs _ _ _
  all_goals (injection h with h; subst h; rfl)

theorem exportKeys_length (m : Scope) (mg : List (Nat × Nat)) (p : Reg) :
    (exportKeys m mg p).length = p.length := by
  unfold exportKeys
  induction mg generalizing p with
  | nil => rfl
  | cons ab mg ih =>
    simp only [List.foldl_cons]
    cases m.get? ab.1 <;> simp [ih, Reg.length_insert]

theorem mergeEff_length (mg : List (Nat × Nat)) (r r' : Reg) (h : mergeEff mg r = some r') :
    r'.length = r.length := by
  cases r with
  | nil => simp only [mergeEff] at h; injection h with h; subst h; rfl
  | cons m p => simp only [mergeEff] at h; injection h with h; subst h; simp [exportKeys_length]

/-- A merge hook that exports nothing leaves the registry alone. -/
theorem mergeEff_nil (r : Reg) : mergeEff [] r = some r := by
  cases r <;> simp [mergeEff, exportKeys]

theorem opRun_length (s : Script) (o : Op) (σ : St) : (opRun s o σ).1.reg.length = σ.reg.length := by
  cases o with
  | prim ev acts =>
    simp only [opRun]
    rcases step_cases s ev (effOf ev.1 acts) σ with h | ⟨r, hr, h⟩
    · rw [h]
    · rw [h]; exact effOf_length _ _ _ _ hr
  | counter0 => simp [opRun, newCounter, Reg.length_insert]
  | bump =>
    simp only [opRun, bump]
    split
    · rename_i r h; exact Reg.length_incr _ _ h
    · rfl
  | merge id mg =>
    simp only [opRun]
    rcases step_cases s (Phase.exec, id) (mergeEff mg) σ with h | ⟨r, hr, h⟩
    · rw [h]
    · rw [h]; exact mergeEff_length _ _ _ hr

theorem opRun_tr (s : Script) (o : Op) (σ : St) : σ.tr <:+ (opRun s o σ).1.tr := by
  cases o with
  | prim ev acts =>
    simp only [opRun]
    rcases step_cases s ev (effOf ev.1 acts) σ with h | ⟨r, hr, h⟩ <;> rw [h] <;> exact List.suffix_cons _ _
  | counter0 => simp [opRun, newCounter]
  | bump => simp only [opRun, bump]; split <;> simp
  | merge id mg =>
    simp only [opRun]
    rcases step_cases s (Phase.exec, id) (mergeEff mg) σ with h | ⟨r, hr, h⟩ <;> rw [h] <;> exact List.suffix_cons _ _

mutual
  theorem condEval_tr (s : Script) : ∀ (c : Cond) (σ : St), σ.tr <:+ (condEval s c σ).1.tr
    | .leaf id, σ => by
      simp only [condEval]; rw [(evalLeaf_frame s id σ).2]; exact List.suffix_cons _ _
    | .all cs, σ => by simp only [condEval]; exact evalAll_tr s cs σ
    | .any cs, σ => by simp only [condEval]; exact evalAny_tr s cs σ
    | .not c, σ => by
      simp only [condEval]
      have := condEval_tr s c σ
      split <;> simp_all
  theorem evalAll_tr (s : Script) : ∀ (cs : Conds) (σ : St), σ.tr <:+ (evalAll s cs σ).1.tr
    | .nil, σ => by simp [evalAll]
    | .cons c cs, σ => by
      simp only [evalAll]
      have h1 := condEval_tr s c σ
      split
      · rename_i σ1 b h
        have h2 := evalAll_tr s cs σ1
        rw [h] at h1
        split
        · rename_i σ2 b' h'; rw [h'] at h2; exact h1.trans h2
        · exact h1.trans h2
      · exact h1
  theorem evalAny_tr (s : Script) : ∀ (cs : Conds) (σ : St), σ.tr <:+ (evalAny s cs σ).1.tr
    | .nil, σ => by simp [evalAny]
    | .cons c cs, σ => by
      simp only [evalAny]
      have h1 := condEval_tr s c σ
      split
      · rename_i σ1 b h
        have h2 := evalAny_tr s cs σ1
        rw [h] at h1
        split
        · rename_i σ2 b' h'; rw [h'] at h2; exact h1.trans h2
        · exact h1.trans h2
      · exact h1
end

/-- Depth is kept by every program, whatever the outcome. -/
theorem inv_depth (s : Script) :
    Inv s (fun _ => true) (fun _ => true) (fun σ σ' => σ'.reg.length = σ.reg.length) where
  refl _ := rfl
  trans _ _ _ h1 h2 := h2.trans h1
  op o _ σ := opRun_length s o σ
  cond c _ σ := by rw [condEval_reg]
  scope σ σ2 h := by
    simp only [push, pop, List.length_cons, List.length_tail] at *
    omega

/-- The trace only grows. -/
theorem inv_trace (s : Script) :
    Inv s (fun _ => true) (fun _ => true) (fun σ σ' => σ.tr <:+ σ'.tr) where
  refl _ := List.suffix_refl _
  trans _ _ _ h1 h2 := h1.trans h2
  op o _ σ := opRun_tr s o σ
  cond c _ σ := condEval_tr s c σ
  scope σ σ2 h := by simpa [push, pop] using h

theorem srun_depth (s : Script) (f : Nat) (p : Stmt) (σ : St) :
    (srun s f p σ).1.reg.length = σ.reg.length :=
  srun_pres (inv_depth s) f p (Stmt.all_true p) σ

theorem srun_trace (s : Script) (f : Nat) (p : Stmt) (σ : St) : σ.tr <:+ (srun s f p σ).1.tr :=
  srun_pres (inv_trace s) f p (Stmt.all_true p) σ


/-! ### The returned error is the last thing that happened -/

mutual
  theorem condEval_err_head (s : Script) : ∀ (c : Cond) (σ σ' : St) (ph : Phase) (id : Nat),
      condEval s c σ = (σ', .err ph id) → σ'.tr.head? = some (ph, id)
    | .leaf i, σ, σ', ph, id, h => by
      simp only [condEval, evalLeaf] at h
      split at h <;> simp at h
      obtain ⟨rfl, rfl, rfl⟩ := h; rfl
    | .all cs, σ, σ', ph, id, h => by simp only [condEval] at h; exact evalAll_err_head s cs σ σ' ph id h
    | .any cs, σ, σ', ph, id, h => by simp only [condEval] at h; exact evalAny_err_head s cs σ σ' ph id h
    | .not c, σ, σ', ph, id, h => by
      simp only [condEval] at h
      split at h
      · simp at h
      · rename_i r hne
        cases hr : condEval s c σ with
        | mk σ1 v =>
          cases v with
          | val b => exact absurd hr (hne σ1 b)
          | err ph' id' => rw [hr] at h; injection h with h1 h2; subst h1; injection h2 with h2 h3; subst h2 h3
                           exact condEval_err_head s c σ σ1 ph' id' hr
  theorem evalAll_err_head (s : Script) : ∀ (cs : Conds) (σ σ' : St) (ph : Phase) (id : Nat),
      evalAll s cs σ = (σ', .err ph id) → σ'.tr.head? = some (ph, id)
    | .nil, σ, σ', ph, id, h => by simp [evalAll] at h
    | .cons c cs, σ, σ', ph, id, h => by
      simp only [evalAll] at h
      cases hr : condEval s c σ with
      | mk σ1 v =>
        cases v with
        | val b =>
          simp only [hr] at h
          cases hr2 : evalAll s cs σ1 with
          | mk σ2 v2 =>
            cases v2 with
            | val b' => simp [hr2] at h
            | err ph' id' =>
              simp only [hr2] at h; injection h with h1 h2; subst h1; injection h2 with h2 h3; subst h2 h3
              exact evalAll_err_head s cs σ1 σ2 ph' id' hr2
        | err ph' id' =>
          simp only [hr] at h; injection h with h1 h2; subst h1; injection h2 with h2 h3; subst h2 h3
          exact condEval_err_head s c σ σ1 ph' id' hr
  theorem evalAny_err_head (s : Script) : ∀ (cs : Conds) (σ σ' : St) (ph : Phase) (id : Nat),
      evalAny s cs σ = (σ', .err ph id) → σ'.tr.head? = some (ph, id)
    | .nil, σ, σ', ph, id, h => by simp [evalAny] at h
    | .cons c cs, σ, σ', ph, id, h => by
      simp only [evalAny] at h
      cases hr : condEval s c σ with
      | mk σ1 v =>
        cases v with
        | val b =>
          simp only [hr] at h
          cases hr2 : evalAny s cs σ1 with
          | mk σ2 v2 =>
            cases v2 with
            | val b' => simp [hr2] at h
            | err ph' id' =>
              simp only [hr2] at h; injection h with h1 h2; subst h1; injection h2 with h2 h3; subst h2 h3
              exact evalAny_err_head s cs σ1 σ2 ph' id' hr2
        | err ph' id' =>
          simp only [hr] at h; injection h with h1 h2; subst h1; injection h2 with h2 h3; subst h2 h3
          exact condEval_err_head s c σ σ1 ph' id' hr
end

/-- `ErrLast x`: if `x` is an error then the failing event is the newest event of the trace. -/
def ErrLast (x : St × Res) : Prop := ∀ ph id, x.2 = .err ph id → x.1.tr.head? = some (ph, id)

theorem errLast_andThen {r : St × Res} {k : St → St × Res} (h1 : ErrLast r) (h2 : ∀ σ, ErrLast (k σ)) :
    ErrLast (andThen r k) := by
  unfold andThen
  split
  · exact h2 _
  · exact h1

theorem opRun_errLast (s : Script) (o : Op) (σ : St) : ErrLast (opRun s o σ) := by
  intro ph id h
  cases o with
  | prim ev acts =>
    simp only [opRun] at *
    rcases step_cases s ev (effOf ev.1 acts) σ with h' | ⟨r, _, h'⟩ <;> rw [h'] at h ⊢
    · injection h with h1 h2; subst h1 h2; rfl
    · cases h
  | counter0 => simp [opRun] at h
  | bump => simp only [opRun, bump] at h; split at h <;> cases h
  | merge mid mg =>
    simp only [opRun] at *
    rcases step_cases s (Phase.exec, mid) (mergeEff mg) σ with h' | ⟨r, _, h'⟩ <;> rw [h'] at h ⊢
    · injection h with h1 h2; subst h1 h2; rfl
    · cases h

theorem whileN_errLast {cond : St → St × CRes} {body : St → St × Res}
    (hc : ∀ σ σ' ph id, cond σ = (σ', .err ph id) → σ'.tr.head? = some (ph, id))
    (hb : ∀ σ, ErrLast (body σ)) : ∀ (n : Nat) (σ : St), ErrLast (whileN cond body n σ) := by
  intro n
  induction n with
  | zero => intro σ ph id h; simp [whileN] at h
  | succ n ih =>
    intro σ
    simp only [whileN]
    split
    · rename_i σ1 ph id heq
      intro ph' id' h; injection h with h1 h2; subst h1 h2; exact hc _ _ _ _ heq
    · intro ph id h; cases h
    · exact errLast_andThen (hb _) ih

theorem srun_errLast (s : Script) (f : Nat) : ∀ (p : Stmt) (σ : St), ErrLast (srun s f p σ)
  | .skip, σ => by intro ph id h; simp [srun] at h
  | .atom o, σ => by simp only [srun]; exact opRun_errLast s o σ
  | .seq a b, σ => by simp only [srun]; exact errLast_andThen (srun_errLast s f a σ) (srun_errLast s f b)
  | .loop c b, σ => by
    simp only [srun]
    exact whileN_errLast (condEval_err_head s c) (srun_errLast s f b) f σ
  | .ite c t e, σ => by
    simp only [srun]
    split
    · exact srun_errLast s f t _
    · exact srun_errLast s f e _
    · rename_i σ1 ph id heq
      intro ph' id' h; injection h with h1 h2; subst h1 h2; exact condEval_err_head s c _ _ _ _ heq
  | .inScope b, σ => by
    simp only [srun]
    have := srun_errLast s f b (push σ)
    intro ph id h
    exact this ph id h

/-! ### Lock-step with the fault-free script -/

theorem noFaults_faulty (s : Script) (ev : Ev) (n : Nat) : s.noFaults.faulty ev n = false := by
  simp [Script.noFaults, Script.faulty]

theorem noFaults_value (s : Script) (id n : Nat) : s.noFaults.value id n = s.value id n := rfl

/-- Either the two runs are identical, or the first stopped with an error at a point the second
went through. -/
def Sim {α : Type} (isErr : α → Prop) (x y : St × α) : Prop :=
  x = y ∨ (isErr x.2 ∧ x.1.tr <:+ y.1.tr)

def Res.isErr (r : Res) : Prop := ∃ ph id, r = .err ph id
def CRes.isErr (r : CRes) : Prop := ∃ ph id, r = .err ph id

theorem evalLeaf_sim (s : Script) (id : Nat) (σ : St) :
    Sim CRes.isErr (evalLeaf s id σ) (evalLeaf s.noFaults id σ) := by
  simp only [evalLeaf, noFaults_faulty, noFaults_value]
  split
  · right; exact ⟨⟨_, _, rfl⟩, List.suffix_refl _⟩
  · left; rfl

mutual
  theorem condEval_sim (s : Script) : ∀ (c : Cond) (σ : St),
      Sim CRes.isErr (condEval s c σ) (condEval s.noFaults c σ)
    | .leaf id, σ => by simp only [condEval]; exact evalLeaf_sim s id σ
    | .all cs, σ => by simp only [condEval]; exact evalAll_sim s cs σ
    | .any cs, σ => by simp only [condEval]; exact evalAny_sim s cs σ
    | .not c, σ => by
      simp only [condEval]
      rcases condEval_sim s c σ with h | ⟨⟨ph, id, he⟩, ht⟩
      · rw [h]; left; rfl
      · right
        cases hx : condEval s c σ with
        | mk σx vx =>
          rw [hx] at he ht; simp only at he ht; subst he
          refine ⟨⟨ph, id, rfl⟩, ?_⟩
          cases hy : condEval s.noFaults c σ with
          | mk σy vy => rw [hy] at ht; cases vy <;> exact ht
  theorem evalAll_sim (s : Script) : ∀ (cs : Conds) (σ : St),
      Sim CRes.isErr (evalAll s cs σ) (evalAll s.noFaults cs σ)
    | .nil, σ => by left; rfl
    | .cons c cs, σ => by
      simp only [evalAll]
      rcases condEval_sim s c σ with h | ⟨⟨ph, id, he⟩, ht⟩
      · rw [h]
        cases hy : condEval s.noFaults c σ with
        | mk σ1 v =>
          cases v with
          | err ph id => left; rfl
          | val b =>
            simp only
            rcases evalAll_sim s cs σ1 with h2 | ⟨⟨ph, id, he⟩, ht⟩
            · rw [h2]; left; rfl
            · right
              cases hx : evalAll s cs σ1 with
              | mk σx vx =>
                rw [hx] at he ht; simp only at he ht; subst he
                refine ⟨⟨ph, id, rfl⟩, ?_⟩
                cases hy2 : evalAll s.noFaults cs σ1 with
                | mk σy vy => rw [hy2] at ht; cases vy <;> exact ht
      · right
        cases hx : condEval s c σ with
        | mk σx vx =>
          rw [hx] at he ht; simp only at he ht; subst he
          refine ⟨⟨ph, id, rfl⟩, ?_⟩
          cases hy : condEval s.noFaults c σ with
          | mk σy vy =>
            rw [hy] at ht
            cases vy with
            | err _ _ => exact ht
            | val b =>
              simp only
              have := evalAll_tr s.noFaults cs σy
              cases hy2 : evalAll s.noFaults cs σy with
              | mk σz vz => rw [hy2] at this; cases vz <;> exact ht.trans this
  theorem evalAny_sim (s : Script) : ∀ (cs : Conds) (σ : St),
      Sim CRes.isErr (evalAny s cs σ) (evalAny s.noFaults cs σ)
    | .nil, σ => by left; rfl
    | .cons c cs, σ => by
      simp only [evalAny]
      rcases condEval_sim s c σ with h | ⟨⟨ph, id, he⟩, ht⟩
      · rw [h]
        cases hy : condEval s.noFaults c σ with
        | mk σ1 v =>
          cases v with
          | err ph id => left; rfl
          | val b =>
            simp only
            rcases evalAny_sim s cs σ1 with h2 | ⟨⟨ph, id, he⟩, ht⟩
            · rw [h2]; left; rfl
            · right
              cases hx : evalAny s cs σ1 with
              | mk σx vx =>
                rw [hx] at he ht; simp only at he ht; subst he
                refine ⟨⟨ph, id, rfl⟩, ?_⟩
                cases hy2 : evalAny s.noFaults cs σ1 with
                | mk σy vy => rw [hy2] at ht; cases vy <;> exact ht
      · right
        cases hx : condEval s c σ with
        | mk σx vx =>
          rw [hx] at he ht; simp only at he ht; subst he
          refine ⟨⟨ph, id, rfl⟩, ?_⟩
          cases hy : condEval s.noFaults c σ with
          | mk σy vy =>
            rw [hy] at ht
            cases vy with
            | err _ _ => exact ht
            | val b =>
              simp only
              have := evalAny_tr s.noFaults cs σy
              cases hy2 : evalAny s.noFaults cs σy with
              | mk σz vz => rw [hy2] at this; cases vz <;> exact ht.trans this
end

theorem sim_andThen {x y : St × Res} {k k0 : St → St × Res} (h : Sim Res.isErr x y)
    (hk : ∀ σ, Sim Res.isErr (k σ) (k0 σ)) (hm : ∀ σ, σ.tr <:+ (k0 σ).1.tr) :
    Sim Res.isErr (andThen x k) (andThen y k0) := by
  rcases h with h | ⟨⟨ph, id, he⟩, ht⟩
  · subst h
    unfold andThen
    split
    · exact hk _
    · left; rfl
  · right
    obtain ⟨σx, rx⟩ := x
    simp only at he ht; subst he
    refine ⟨⟨ph, id, rfl⟩, ?_⟩
    simp only [andThen]
    obtain ⟨σy, ry⟩ := y
    cases ry <;> simp only <;> first | exact ht | exact ht.trans (hm _)

theorem opRun_sim (s : Script) (o : Op) (σ : St) : Sim Res.isErr (opRun s o σ) (opRun s.noFaults o σ) := by
  cases o with
  | prim ev acts =>
    simp only [opRun, step, noFaults_faulty]
    split
    · right
      refine ⟨⟨_, _, rfl⟩, ?_⟩
      simp only [Bool.false_eq_true, if_false]
      split <;> exact List.suffix_refl _
    · left; rfl
  | counter0 => left; rfl
  | bump => left; rfl
  | merge id mg =>
    simp only [opRun, step, noFaults_faulty]
    split
    · right
      refine ⟨⟨_, _, rfl⟩, ?_⟩
      simp only [Bool.false_eq_true, if_false]
      split <;> exact List.suffix_refl _
    · left; rfl

theorem whileN_mono {cond : St → St × CRes} {body : St → St × Res}
    (hc : ∀ σ, σ.tr <:+ (cond σ).1.tr) (hb : ∀ σ, σ.tr <:+ (body σ).1.tr) :
    ∀ (n : Nat) (σ : St), σ.tr <:+ (whileN cond body n σ).1.tr :=
  whileN_pres (P := fun σ σ' => σ.tr <:+ σ'.tr) (fun _ => List.suffix_refl _)
    (fun _ _ _ h1 h2 => h1.trans h2) hc hb

theorem whileN_sim {cond cond0 : St → St × CRes} {body body0 : St → St × Res}
    (hc : ∀ σ, Sim CRes.isErr (cond σ) (cond0 σ)) (hb : ∀ σ, Sim Res.isErr (body σ) (body0 σ))
    (hc0 : ∀ σ, σ.tr <:+ (cond0 σ).1.tr) (hb0 : ∀ σ, σ.tr <:+ (body0 σ).1.tr) :
    ∀ (n : Nat) (σ : St), Sim Res.isErr (whileN cond body n σ) (whileN cond0 body0 n σ) := by
  intro n
  induction n with
  | zero => intro σ; left; rfl
  | succ n ih =>
    intro σ
    simp only [whileN]
    rcases hc σ with h | ⟨⟨ph, id, he⟩, ht⟩
    · rw [h]
      cases hy : cond0 σ with
      | mk σ1 v =>
        cases v with
        | err ph id => left; rfl
        | val b =>
          cases b
          · left; rfl
          · simp only
            exact sim_andThen (hb σ1) ih (whileN_mono hc0 hb0 n)
    · right
      cases hx : cond σ with
      | mk σx vx =>
        rw [hx] at he ht; simp only at he ht; subst he
        refine ⟨⟨ph, id, rfl⟩, ?_⟩
        simp only
        have hm := whileN_mono hc0 hb0 (n + 1) σ
        simp only [whileN] at hm
        cases hy : cond0 σ with
        | mk σy vy =>
          rw [hy] at ht hm
          cases vy with
          | err _ _ => exact ht
          | val b =>
            cases b
            · exact ht
            · simp only at hm ⊢
              have h1 : σy.tr <:+ (andThen (body0 σy) (whileN cond0 body0 n)).1.tr :=
                andThen_pres (P := fun σ σ' => σ.tr <:+ σ'.tr) (fun _ _ _ h1 h2 => h1.trans h2)
                  (hb0 σy) (whileN_mono hc0 hb0 n)
              exact ht.trans h1

theorem srun_sim (s : Script) (f : Nat) : ∀ (p : Stmt) (σ : St),
    Sim Res.isErr (srun s f p σ) (srun s.noFaults f p σ)
  | .skip, σ => by left; rfl
  | .atom o, σ => by simp only [srun]; exact opRun_sim s o σ
  | .seq a b, σ => by
    simp only [srun]
    exact sim_andThen (srun_sim s f a σ) (srun_sim s f b) (srun_trace s.noFaults f b)
  | .loop c b, σ => by
    simp only [srun]
    exact whileN_sim (condEval_sim s c) (srun_sim s f b) (condEval_tr s.noFaults c)
      (srun_trace s.noFaults f b) f σ
  | .ite c t e, σ => by
    simp only [srun]
    rcases condEval_sim s c σ with h | ⟨⟨ph, id, he⟩, ht⟩
    · rw [h]
      cases hy : condEval s.noFaults c σ with
      | mk σ1 v =>
        cases v with
        | err ph id => left; rfl
        | val b =>
          cases b
          · exact srun_sim s f e σ1
          · exact srun_sim s f t σ1
    · right
      cases hx : condEval s c σ with
      | mk σx vx =>
        rw [hx] at he ht; simp only at he ht; subst he
        refine ⟨⟨ph, id, rfl⟩, ?_⟩
        simp only
        cases hy : condEval s.noFaults c σ with
        | mk σy vy =>
          rw [hy] at ht
          cases vy with
          | err _ _ => exact ht
          | val b =>
            cases b <;> simp only
            · exact ht.trans (srun_trace s.noFaults f e σy)
            · exact ht.trans (srun_trace s.noFaults f t σy)
  | .inScope b, σ => by
    simp only [srun]
    rcases srun_sim s f b (push σ) with h | ⟨he, ht⟩
    · rw [h]; left; rfl
    · right
      exact ⟨he, ht⟩


/-! ### Straight-line programs: the `init` and `require` passes -/

/-- The events of a loop-free, branch-free, scope-free program, in order. -/
def Stmt.straight : Stmt → Option (List Ev)
  | .skip => some []
  | .atom (.prim ev _) => some [ev]
  | .atom .counter0 => some []
  | .seq a b =>
    match a.straight, b.straight with
    | some x, some y => some (x ++ y)
    | _, _ => none
  | _ => none

/-- Outcome of a straight-line run: a prefix of the events was appended; complete iff `ok`;
otherwise the result is an error. -/
def StraightOut (evs : List Ev) (σ : St) (x : St × Res) : Prop :=
  ∃ k, k ≤ evs.length ∧ x.1.trace = σ.trace ++ evs.take k ∧
    ((x.2 = .ok ∧ k = evs.length) ∨ ∃ ph id, x.2 = .err ph id)

theorem straight_run (s : Script) (f : Nat) : ∀ (p : Stmt) (evs : List Ev) (σ : St),
    p.straight = some evs → StraightOut evs σ (srun s f p σ)
  | .skip, evs, σ, h => by
    simp only [Stmt.straight] at h; injection h with h; subst h
    exact ⟨0, by simp, by simp [srun], Or.inl ⟨rfl, rfl⟩⟩
  | .atom (.prim ev acts), evs, σ, h => by
    simp only [Stmt.straight] at h; injection h with h; subst h
    simp only [srun, opRun]
    rcases step_cases s ev (effOf ev.1 acts) σ with h' | ⟨r, _, h'⟩ <;> rw [h']
    · exact ⟨1, by simp, by simp [St.trace], Or.inr ⟨_, _, rfl⟩⟩
    · exact ⟨1, by simp, by simp [St.trace], Or.inl ⟨rfl, rfl⟩⟩
  | .atom .counter0, evs, σ, h => by
    simp only [Stmt.straight] at h; injection h with h; subst h
    exact ⟨0, by simp, by simp [srun, opRun, newCounter, St.trace], Or.inl ⟨rfl, rfl⟩⟩
  | .atom .bump, evs, σ, h => by simp [Stmt.straight] at h
  | .atom (.merge _ _), evs, σ, h => by simp [Stmt.straight] at h
  | .seq a b, evs, σ, h => by
    simp only [Stmt.straight] at h
    cases ha : a.straight with
    | none => simp [ha] at h
    | some xa =>
      cases hb : b.straight with
      | none => simp [ha, hb] at h
      | some xb =>
        simp only [ha, hb] at h; injection h with h; subst h
        obtain ⟨k1, hk1, ht1, hr1⟩ := straight_run s f a xa σ ha
        simp only [srun]
        cases hx : srun s f a σ with
        | mk σ1 r1 =>
          rw [hx] at ht1 hr1; simp only at ht1 hr1
          rcases hr1 with ⟨rok, hk⟩ | ⟨ph, id, he⟩
          · subst rok; subst hk
            simp only [andThen]
            obtain ⟨k2, hk2, ht2, hr2⟩ := straight_run s f b xb σ1 hb
            refine ⟨xa.length + k2, by simp; omega, ?_, ?_⟩
            · rw [ht2, ht1]; simp [List.take_append, List.append_assoc, List.take_of_length_le]
            · rcases hr2 with ⟨rok, hk⟩ | he
              · exact Or.inl ⟨rok, by simp [hk]⟩
              · exact Or.inr he
          · subst he
            simp only [andThen]
            refine ⟨k1, by simp; omega, ?_, Or.inr ⟨ph, id, rfl⟩⟩
            rw [ht1, List.take_append_of_le_length hk1]
  | .loop _ _, evs, σ, h => by simp [Stmt.straight] at h
  | .ite _ _ _, evs, σ, h => by simp [Stmt.straight] at h
  | .inScope _, evs, σ, h => by simp [Stmt.straight] at h

mutual
  theorem condProg_straight (ph : Phase) : ∀ (c : Cond), (condProg ph c).straight = some (condEvents ph c)
    | .leaf id => rfl
    | .all cs => by simp only [condProg, condEvents]; exact condsProg_straight ph cs
    | .any cs => by simp only [condProg, condEvents]; exact condsProg_straight ph cs
    | .not c => by simp only [condProg, condEvents]; exact condProg_straight ph c
  theorem condsProg_straight (ph : Phase) : ∀ (cs : Conds), (condsProg ph cs).straight = some (condsEvents ph cs)
    | .nil => rfl
    | .cons c cs => by
      simp [condsProg, condsEvents, Stmt.straight, condProg_straight ph c, condsProg_straight ph cs]
end

mutual
  theorem initProg_straight : ∀ (c : Comp), (initProg c).straight = some (phaseEvents .init .cinit c)
    | .leaf id acts => rfl
    | .block cs => by simp only [initProg, phaseEvents]; exact initProgs_straight cs
    | .loop c b => by simp [initProg, phaseEvents, Stmt.straight, condProg_straight, initProg_straight b]
    | .branch c t e he => by
      cases he
      · simp [initProg, phaseEvents, Stmt.straight, condProg_straight, initProg_straight t]
      · simp [initProg, phaseEvents, Stmt.straight, condProg_straight, initProg_straight t, initProg_straight e]
    | .scope b => rfl
    | .scopeW _ _ _ _ => rfl
  theorem initProgs_straight : ∀ (cs : Comps), (initProgs cs).straight = some (phaseEventss .init .cinit cs)
    | .nil => rfl
    | .cons c cs => by simp [initProgs, phaseEventss, Stmt.straight, initProg_straight c, initProgs_straight cs]
end

mutual
  theorem reqProg_straight : ∀ (c : Comp), (reqProg c).straight = some (phaseEvents .req .creq c)
    | .leaf id acts => rfl
    | .block cs => by simp only [reqProg, phaseEvents]; exact reqProgs_straight cs
    | .loop c b => by simp [reqProg, phaseEvents, Stmt.straight, condProg_straight, reqProg_straight b]
    | .branch c t e he => by
      cases he
      · simp [reqProg, phaseEvents, Stmt.straight, condProg_straight, reqProg_straight t]
      · simp [reqProg, phaseEvents, Stmt.straight, condProg_straight, reqProg_straight t, reqProg_straight e]
    | .scope b => rfl
    | .scopeW _ _ _ _ => rfl
  theorem reqProgs_straight : ∀ (cs : Comps), (reqProgs cs).straight = some (phaseEventss .req .creq cs)
    | .nil => rfl
    | .cons c cs => by simp [reqProgs, phaseEventss, Stmt.straight, reqProg_straight c, reqProgs_straight cs]
end

theorem initC_out (s : Script) (c : Comp) (σ : St) : StraightOut (initEvents c) σ (initC s c σ) := by
  rw [initC_eq s 0 c σ]; exact straight_run s 0 _ _ σ (initProg_straight c)

theorem reqC_out (s : Script) (c : Comp) (σ : St) : StraightOut (reqEvents c) σ (reqC s c σ) := by
  rw [reqC_eq s 0 c σ]; exact straight_run s 0 _ _ σ (reqProg_straight c)

/-- `require` cannot change the state. -/
theorem step_need_reg (s : Script) (ev : Ev) (acts : List Act) (σ : St) :
    (step s ev (needEff acts) σ).1.reg = σ.reg := by
  rcases step_cases s ev (needEff acts) σ with h | ⟨r, hr, h⟩ <;> rw [h]
  simp only [needEff] at hr
  split at hr
  · injection hr with hr; exact hr.symm
  · cases hr

theorem step_some_reg (s : Script) (ev : Ev) (σ : St) : (step s ev some σ).1.reg = σ.reg := by
  rcases step_cases s ev some σ with h | ⟨r, hr, h⟩ <;> rw [h]
  injection hr with hr; exact hr.symm

theorem andThen_reg {r : St × Res} {k : St → St × Res} {σ : St} (h1 : r.1.reg = σ.reg)
    (h2 : ∀ σ1, (k σ1).1.reg = σ1.reg) : (andThen r k).1.reg = σ.reg :=
  andThen_pres (P := fun σ σ' => σ'.reg = σ.reg) (fun _ _ _ h1 h2 => h2.trans h1) h1 h2

mutual
  theorem condPhase_reg (s : Script) (ph : Phase) : ∀ (c : Cond) (σ : St), (condPhase s ph c σ).1.reg = σ.reg
    | .leaf id, σ => by simp only [condPhase]; exact step_some_reg s _ σ
    | .all cs, σ => by simp only [condPhase]; exact condsPhase_reg s ph cs σ
    | .any cs, σ => by simp only [condPhase]; exact condsPhase_reg s ph cs σ
    | .not c, σ => by simp only [condPhase]; exact condPhase_reg s ph c σ
  theorem condsPhase_reg (s : Script) (ph : Phase) : ∀ (cs : Conds) (σ : St), (condsPhase s ph cs σ).1.reg = σ.reg
    | .nil, σ => rfl
    | .cons c cs, σ => by
      simp only [condsPhase]; exact andThen_reg (condPhase_reg s ph c σ) (condsPhase_reg s ph cs)
end

mutual
  theorem reqC_reg (s : Script) : ∀ (c : Comp) (σ : St), (reqC s c σ).1.reg = σ.reg
    | .leaf id acts, σ => by simp only [reqC]; exact step_need_reg s _ acts σ
    | .block cs, σ => by simp only [reqC]; exact reqCs_reg s cs σ
    | .loop c b, σ => by simp only [reqC]; exact andThen_reg (condPhase_reg s _ c σ) (reqC_reg s b)
    | .branch c t e he, σ => by
      simp only [reqC]
      refine andThen_reg (condPhase_reg s _ c σ) fun σ1 => andThen_reg (reqC_reg s t σ1) fun σ2 => ?_
      cases he
      · rfl
      · exact reqC_reg s e σ2
    | .scope b, σ => rfl
    | .scopeW _ _ _ _, σ => rfl
  theorem reqCs_reg (s : Script) : ∀ (cs : Comps) (σ : St), (reqCs s cs σ).1.reg = σ.reg
    | .nil, σ => rfl
    | .cons c cs, σ => by simp only [reqCs]; exact andThen_reg (reqC_reg s c σ) (reqCs_reg s cs)
end

/-! ### Loops -/

theorem whileN_ok_iff (cond : St → St × CRes) (body : St → St × Res) :
    ∀ (n : Nat) (σ σ' : St), whileN cond body n σ = (σ', .ok) ↔ ∃ k, k < n ∧ Passes cond body k σ σ' := by
  intro n
  induction n with
  | zero => intro σ σ'; simp [whileN]
  | succ n ih =>
    intro σ σ'
    simp only [whileN]
    cases hc : cond σ with
    | mk σ1 v =>
      cases v with
      | err ph id =>
        simp only
        constructor
        · intro h; cases h
        · rintro ⟨k, _, hp⟩; cases hp <;> simp_all
      | val b =>
        cases b
        · simp only
          constructor
          · intro h; injection h with h; subst h; exact ⟨0, by omega, Passes.done hc⟩
          · rintro ⟨k, _, hp⟩
            cases hp with
            | done h => rw [hc] at h; injection h with h; rw [h]
            | pass h _ _ => rw [hc] at h; injection h with _ h; cases h
        · simp only
          cases hb : body σ1 with
          | mk σ2 r =>
            cases r with
            | ok =>
              simp only [andThen]
              rw [ih σ2 σ']
              constructor
              · rintro ⟨k, hk, hp⟩; exact ⟨k + 1, by omega, Passes.pass hc hb hp⟩
              · rintro ⟨k, hk, hp⟩
                cases hp with
                | done h => rw [hc] at h; injection h with _ h; cases h
                | pass h1 h2 h3 =>
                  rw [hc] at h1; injection h1 with h1 _; subst h1
                  rw [hb] at h2; injection h2 with h2 _; subst h2
                  exact ⟨_, by omega, h3⟩
            | _ =>
              simp only [andThen]
              constructor
              · intro h; injection h with _ h; cases h
              · rintro ⟨k, hk, hp⟩
                cases hp with
                | done h => rw [hc] at h; injection h with _ h; cases h
                | pass h1 h2 h3 =>
                  rw [hc] at h1; injection h1 with h1 _; subst h1
                  rw [hb] at h2; injection h2 with _ h2; cases h2

theorem andThen_ok {r : St × Res} {k : St → St × Res} {σ' : St} (h : andThen r k = (σ', .ok)) :
    ∃ σ1, r = (σ1, .ok) ∧ k σ1 = (σ', .ok) := by
  obtain ⟨σ1, r1⟩ := r
  cases r1 <;> simp only [andThen] at h
  · exact ⟨σ1, rfl, h⟩
  all_goals (injection h with _ h; cases h)

theorem bump_ok {σ σ' : St} (h : bump σ = (σ', .ok)) : σ.reg.incr = some σ'.reg ∧ σ'.tr = σ.tr := by
  simp only [bump] at h
  split at h
  · rename_i r hr; injection h with h _; subst h; exact ⟨hr, rfl⟩
  · injection h with _ h; cases h

/-- Each completed pass adds exactly one to the visible counter, provided test and body leave it
alone. -/
theorem passes_counter {cond : St → St × CRes} {body : St → St × Res}
    (hc : ∀ σ, (cond σ).1.reg = σ.reg)
    (hb : ∀ σ σ', body σ = (σ', .ok) → σ'.reg.get? 0 = σ.reg.get? 0)
    {n : Nat} {σ σ' : St} (h : Passes cond (fun x => andThen (body x) bump) n σ σ') :
    σ'.reg.get? 0 = (σ.reg.get? 0).map (· + n) := by
  induction h with
  | @done σ σ' h => have := hc σ; rw [h] at this; simp only at this; simp [this]
  | @pass n σ σ1 σ2 σ' h1 h2 _ ih =>
    have c1 := hc σ; rw [h1] at c1; simp only at c1
    obtain ⟨σm, hm, hbump⟩ := andThen_ok h2
    have b1 := hb _ _ hm
    have b2 := Reg.get_incr _ _ 0 (bump_ok hbump).1
    rw [ih, b2, b1, c1]
    cases σ.reg.get? 0 <;> simp
    omega

/-- With a single scripted condition the number of passes is read off the script: the values
consumed are `true` for every pass and `false` for the final test. -/
theorem passes_script (s : Script) (cid : Nat) {body : St → St × Res}
    (hb : ∀ σ σ', body σ = (σ', .ok) → σ'.tr.count (Phase.ceval, cid) = σ.tr.count (Phase.ceval, cid))
    {n : Nat} {σ σ' : St} (h : Passes (evalLeaf s cid) body n σ σ') :
    (∀ i, i < n → s.value cid (σ.tr.count (Phase.ceval, cid) + i) = true) ∧
    s.value cid (σ.tr.count (Phase.ceval, cid) + n) = false ∧
    σ'.tr.count (Phase.ceval, cid) = σ.tr.count (Phase.ceval, cid) + n + 1 := by
  induction h with
  | @done σ σ' h =>
    simp only [evalLeaf] at h
    split at h
    · injection h with _ h; cases h
    · injection h with h1 h2; subst h1; injection h2 with h2
      exact ⟨by intro i hi; omega, by simpa using h2, by simp⟩
  | @pass n σ σ1 σ2 σ' h1 h2 _ ih =>
    simp only [evalLeaf] at h1
    split at h1
    · injection h1 with _ h1; cases h1
    · injection h1 with h1 hv; subst h1; injection hv with hv
      have hcnt := hb _ _ h2
      simp only [List.count_cons_self] at hcnt
      obtain ⟨i1, i2, i3⟩ := ih
      rw [hcnt] at i1 i2 i3
      refine ⟨?_, ?_, ?_⟩
      · intro i hi
        cases i with
        | zero => simpa using hv
        | succ i => have := i1 i (by omega); rw [← this]; congr 1; omega
      · rw [← i2]; congr 1; omega
      · rw [i3]; omega


/-! ### The caller's part of the registry while scopes are open -/

/-- The outermost `n` scopes. -/
def Reg.below (r : Reg) (n : Nat) : Reg := r.drop (r.length - n)

namespace Reg

theorem below_self (r : Reg) : r.below r.length = r := by simp [below]

theorem below_cons (m : Scope) (r : Reg) (n : Nat) (h : n ≤ r.length) : below (m :: r) n = r.below n := by
  simp only [below, List.length_cons]
  have : r.length + 1 - n = (r.length - n) + 1 := by omega
  rw [this, List.drop_succ_cons]

theorem below_insert_lt (r : Reg) (k v n : Nat) (h : n < r.length) : (r.insert k v).below n = r.below n := by
  cases r with
  | nil => simp at h
  | cons m r =>
    simp only [insert]
    rw [below_cons _ _ _ (by simpa using Nat.lt_succ_iff.mp h), below_cons _ _ _ (by simpa using Nat.lt_succ_iff.mp h)]

theorem below_setv (r : Reg) (k v n : Nat) (h : n ≤ r.length) :
    (r.setv k v).below n = r.below n ∨ (r.setv k v).below n = (r.below n).setv k v := by
  induction r with
  | nil => left; rfl
  | cons m r ih =>
    by_cases hn : n = (m :: r).length
    · right
      have h1 : n = (setv (m :: r) k v).length := by rw [length_setv]; exact hn
      rw [h1, below_self, ← h1, hn, below_self]
    · have hn' : n ≤ r.length := by simp at h hn; omega
      simp only [setv]
      split
      · left; rw [below_cons _ _ _ hn', below_cons _ _ _ hn']
      · rw [below_cons _ _ _ (by rw [length_setv]; exact hn'), below_cons _ _ _ hn']
        exact ih hn'

theorem below_remove (r : Reg) (k n : Nat) (h : n ≤ r.length) :
    (r.remove k).below n = r.below n ∨ (r.remove k).below n = (r.below n).remove k := by
  induction r with
  | nil => left; rfl
  | cons m r ih =>
    by_cases hn : n = (m :: r).length
    · right
      have h1 : n = (remove (m :: r) k).length := by rw [length_remove]; exact hn
      rw [h1, below_self, ← h1, hn, below_self]
    · have hn' : n ≤ r.length := by simp at h hn; omega
      simp only [remove]
      split
      · left; rw [below_cons _ _ _ hn', below_cons _ _ _ hn']
      · rw [below_cons _ _ _ (by rw [length_remove]; exact hn'), below_cons _ _ _ hn']
        exact ih hn'

theorem below_incr (r r' : Reg) (n : Nat) (h : n ≤ r.length) (hi : r.incr = some r') :
    r'.below n = r.below n ∨ (r.below n).incr = some (r'.below n) := by
  induction r generalizing r' with
  | nil => simp [incr] at hi
  | cons m r ih =>
    by_cases hn : n = (m :: r).length
    · right
      have h1 : n = r'.length := by rw [length_incr _ _ hi]; exact hn
      rw [h1, below_self, ← h1, hn, below_self]; exact hi
    · have hn' : n ≤ r.length := by simp at h hn; omega
      simp only [incr] at hi
      split at hi
      · injection hi with hi; subst hi
        left; rw [below_cons _ _ _ hn', below_cons _ _ _ hn']
      · split at hi
        · rename_i r1 hr1
          injection hi with hi; subst hi
          rw [below_cons _ _ _ (by rw [length_incr _ _ hr1]; exact hn'), below_cons _ _ _ hn']
          exact ih r1 hn' hr1
        · cases hi

end Reg

/-- `Q` (a property of the caller's scopes) survives the operations leaves may perform.
`ins = true`: also inserts (needed when the program runs directly in the caller's top scope). -/
structure Stable (Q : Reg → Prop) (A : Act → Bool) (ins : Bool) (L : Bool) : Prop where
  setv : ∀ ph k v b, A (.set ph k v) = true → Q b → Q (b.setv k v)
  remove : ∀ ph k b, A (.rem ph k) = true → Q b → Q (b.remove k)
  incr : L = true → ∀ b b', b.incr = some b' → Q b → Q b'
  insert : ins = true → ∀ ph k v b, A (.ins ph k v) = true → Q b → Q (b.insert k v)
  ctr0 : ins = true → L = true → ∀ b, Q b → Q (b.insert 0 0)

/-- Depth is kept and `Q` of the outermost `n` scopes is kept, as long as at least `lo` scopes are open. -/
def RegFrame (Q : Reg → Prop) (n lo : Nat) (r r' : Reg) : Prop :=
  r'.length = r.length ∧ (lo ≤ r.length → Q (r.below n) → Q (r'.below n))

theorem regFrame_refl (Q : Reg → Prop) (n lo : Nat) (r : Reg) : RegFrame Q n lo r r := ⟨rfl, fun _ h => h⟩

theorem regFrame_trans {Q : Reg → Prop} {n lo : Nat} {a b c : Reg} (h1 : RegFrame Q n lo a b)
    (h2 : RegFrame Q n lo b c) : RegFrame Q n lo a c :=
  ⟨h2.1.trans h1.1, fun hl hq => h2.2 (by rw [h1.1]; exact hl) (h1.2 hl hq)⟩

theorem regFrame_insert {Q : Reg → Prop} {ins : Bool} {n lo : Nat}
    (hn : n ≤ lo) (hlo : ins = false → n < lo) (r : Reg) (k v : Nat)
    (hst : ins = true → ∀ b, Q b → Q (b.insert k v)) : RegFrame Q n lo r (r.insert k v) := by
  refine ⟨Reg.length_insert _ _ _, fun hl hq => ?_⟩
  by_cases h : n < r.length
  · rw [Reg.below_insert_lt _ _ _ _ h]; exact hq
  · have hnl : n = r.length := by omega
    cases hins : ins with
    | false => have := hlo hins; omega
    | true =>
      have h1 : n = (r.insert k v).length := by rw [Reg.length_insert]; exact hnl
      rw [h1, Reg.below_self]
      rw [hnl, Reg.below_self] at hq
      exact hst hins r hq

theorem regFrame_apply {Q : Reg → Prop} {A : Act → Bool} {ins L : Bool} (hst : Stable Q A ins L) {n lo : Nat}
    (hn : n ≤ lo) (hlo : ins = false → n < lo) (ph : Phase) (a : Act) (ha : A a = true) (r : Reg) :
    RegFrame Q n lo r (a.apply ph r) := by
  cases a with
  | ins p k v =>
    simp only [Act.apply]; split
    · exact regFrame_insert hn hlo r k v (fun hi b hq => hst.insert hi p k v b ha hq)
    · exact regFrame_refl _ _ _ _
  | set p k v =>
    simp only [Act.apply]; split
    · refine ⟨Reg.length_setv _ _ _, fun hl hq => ?_⟩
      rcases Reg.below_setv r k v n (by omega) with h | h <;> rw [h]
      · exact hq
      · exact hst.setv p k v _ ha hq
    · exact regFrame_refl _ _ _ _
  | rem p k =>
    simp only [Act.apply]; split
    · refine ⟨Reg.length_remove _ _, fun hl hq => ?_⟩
      rcases Reg.below_remove r k n (by omega) with h | h <;> rw [h]
      · exact hq
      · exact hst.remove p k _ ha hq
    · exact regFrame_refl _ _ _ _
  | need k => exact regFrame_refl _ _ _ _

theorem regFrame_applyActs {Q : Reg → Prop} {A : Act → Bool} {ins L : Bool} (hst : Stable Q A ins L) {n lo : Nat}
    (hn : n ≤ lo) (hlo : ins = false → n < lo) (ph : Phase) (acts : List Act) (ha : acts.all A = true) (r : Reg) :
    RegFrame Q n lo r (applyActs ph acts r) := by
  unfold applyActs
  induction acts generalizing r with
  | nil => exact regFrame_refl _ _ _ _
  | cons a acts ih =>
    simp only [List.all_cons, Bool.and_eq_true] at ha
    simp only [List.foldl_cons]
    exact regFrame_trans (regFrame_apply hst hn hlo ph a ha.1 r) (ih ha.2 _)

theorem regFrame_effOf {Q : Reg → Prop} {A : Act → Bool} {ins L : Bool} (hst : Stable Q A ins L) {n lo : Nat}
    (hn : n ≤ lo) (hlo : ins = false → n < lo) (ph : Phase) (acts : List Act) (ha : acts.all A = true)
    (r r' : Reg) (h : effOf ph acts r = some r') : RegFrame Q n lo r r' := by
  cases ph <;> simp only [effOf, leafEff, needEff] at h
  · injection h with h; subst h; exact regFrame_applyActs hst hn hlo _ acts ha r
  · split at h
    · injection h with h; subst h; exact regFrame_refl _ _ _ _
    · cases h
  · injection h with h; subst h; exact regFrame_applyActs hst hn hlo _ acts ha r
  all_goals (injection h with h; subst h; exact regFrame_refl _ _ _ _)

/-- The frame invariant of every program whose leaves only perform actions allowed by `A`. -/
theorem inv_frame (s : Script) {Q : Reg → Prop} {A : Act → Bool} {ins L : Bool} (hst : Stable Q A ins L)
    {n lo : Nat} (hn : n ≤ lo) (hlo : ins = false → n < lo) :
    Inv s (Op.sat A L) (fun _ => true) (fun σ σ' => RegFrame Q n lo σ.reg σ'.reg) where
  refl σ := regFrame_refl _ _ _ _
  trans _ _ _ h1 h2 := regFrame_trans h1 h2
  op o ho σ := by
    cases o with
    | prim ev acts =>
      simp only [Op.sat, Bool.and_eq_true] at ho
      simp only [opRun]
      rcases step_cases s ev (effOf ev.1 acts) σ with h | ⟨r, hr, h⟩ <;> rw [h]
      · exact regFrame_refl _ _ _ _
      · exact regFrame_effOf hst hn hlo _ acts ho.2 _ _ hr
    | counter0 =>
      simp only [opRun, newCounter]
      exact regFrame_insert hn hlo _ 0 0 (fun hi b hq => hst.ctr0 hi (by simpa [Op.sat] using ho) b hq)
    | bump =>
      simp only [opRun, bump]
      split
      · rename_i r hr
        refine ⟨Reg.length_incr _ _ hr, fun hl hq => ?_⟩
        rcases Reg.below_incr _ _ n (by omega) hr with h | h
        · rw [h]; exact hq
        · exact hst.incr (by simpa [Op.sat] using ho) _ _ h hq
      · exact regFrame_refl _ _ _ _
    | merge id mg =>
      have hmg : mg = [] := by simpa [Op.sat] using ho
      subst hmg
      simp only [opRun]
      rcases step_cases s (Phase.exec, id) (mergeEff []) σ with h | ⟨r, hr, h⟩ <;> rw [h]
      · exact regFrame_refl _ _ _ _
      · rw [mergeEff_nil] at hr; injection hr with hr; subst hr; exact regFrame_refl _ _ _ _
  cond c _ σ := by rw [condEval_reg]; exact regFrame_refl _ _ _ _
  scope σ σ2 h := by
    simp only [push, pop] at *
    obtain ⟨h1, h2⟩ := h
    simp only [List.length_cons] at h1 h2
    have hne : σ2.reg ≠ [] := by intro h0; rw [h0] at h1; simp at h1
    obtain ⟨m, t, hmt⟩ := List.exists_cons_of_ne_nil hne
    rw [hmt] at h1 h2 ⊢
    simp only [List.length_cons, List.tail_cons] at h1 h2 ⊢
    refine ⟨by omega, fun hl hq => ?_⟩
    have := h2 (by omega) (by rw [Reg.below_cons _ _ _ (by omega)]; exact hq)
    rwa [Reg.below_cons _ _ _ (by omega)] at this


/-! ### Three properties of the caller's scopes that survive -/

/-- Not a `remove` of `k`. -/
def Act.keeps (k : Nat) (a : Act) : Bool := !(a.isRem && a.key == k)
/-- Neither `set_value` nor `remove` of `k`. -/
def Act.spares (k : Nat) (a : Act) : Bool := !(a.isWrite && a.key == k)

theorem stable_present (k : Nat) (L : Bool) : Stable (fun b => (b.get? k).isSome = true) (Act.keeps k) true L where
  setv ph k' v b _ hq := by
    by_cases h : k' = k
    · subst h; rw [Reg.get_setv_same]; simp [hq]
    · rw [Reg.get_setv_ne _ _ _ _ h]; exact hq
  remove ph k' b ha hq := by
    have h : k' ≠ k := by simpa [Act.keeps, Act.isRem, Act.key] using ha
    rw [Reg.get_remove_ne _ _ _ h]; exact hq
  incr _ b b' hi hq := by
    rw [Reg.get_incr _ _ k hi]
    by_cases h : k = 0
    · subst h; simp only [if_true]; cases hg : Reg.get? b 0 <;> simp_all
    · simp [h, hq]
  insert _ _ k' v b _ hq := by
    by_cases hb : b = []
    · subst hb; exact hq
    · rw [Reg.get_insert _ _ _ _ hb]; by_cases h : k' = k <;> simp [h, hq]
  ctr0 _ _ b hq := by
    by_cases hb : b = []
    · subst hb; exact hq
    · rw [Reg.get_insert _ _ _ _ hb]; by_cases h : 0 = k <;> simp [h, hq]

theorem stable_absent (k : Nat) (L : Bool) : Stable (fun b => b.get? k = none) (fun _ => true) false L where
  setv ph k' v b _ hq := by
    by_cases h : k' = k
    · subst h; rw [Reg.setv_of_get_none _ _ _ hq]; exact hq
    · rw [Reg.get_setv_ne _ _ _ _ h]; exact hq
  remove ph k' b _ hq := by
    by_cases h : k' = k
    · subst h; rw [Reg.remove_of_get_none _ _ hq]; exact hq
    · rw [Reg.get_remove_ne _ _ _ h]; exact hq
  incr _ b b' hi hq := by
    rw [Reg.get_incr _ _ k hi]
    by_cases h : k = 0
    · subst h; simp [hq]
    · simp [h, hq]
  insert h := by cases h
  ctr0 h := by cases h

theorem stable_value (k v : Nat) (hk : k ≠ 0) (L : Bool) : Stable (fun b => b.get? k = some v) (Act.spares k) false L where
  setv ph k' v' b ha hq := by
    have h : k' ≠ k := by simpa [Act.spares, Act.isWrite, Act.key] using ha
    rw [Reg.get_setv_ne _ _ _ _ h]; exact hq
  remove ph k' b ha hq := by
    have h : k' ≠ k := by simpa [Act.spares, Act.isWrite, Act.key] using ha
    rw [Reg.get_remove_ne _ _ _ h]; exact hq
  incr _ b b' hi hq := by rw [Reg.get_incr _ _ k hi]; simp [hk, hq]
  insert h := by cases h
  ctr0 h := by cases h

/-! ### Scopes -/

theorem exec_scope (s : Script) (f : Nat) (b : Comp) (σ : St) :
    exec s f (.scope b) σ = (pop (srun s f (scopeBody b) (push σ)).1, (srun s f (scopeBody b) (push σ)).2) := by
  rw [exec_eq]; simp only [execProg, srun, scopeBody]

theorem run_eq_scopeBody (s : Script) (f : Nat) (b : Comp) (σ : St) :
    run s f b σ = srun s f (scopeBody b) σ := run_eq s f b σ

theorem scopeBody_all (A : Act → Bool) (C : Cond → Bool) (L : Bool) (b : Comp) (h : b.sat A C L = true) :
    (scopeBody b).all (Op.sat A L) C = true := prog_all A C L b h

/-- A property of the caller's scopes that is stable under set/remove/increment survives a scope,
whatever the body inserts and however it ends. -/
theorem scope_frame (s : Script) (f : Nat) {Q : Reg → Prop} {A : Act → Bool} {L : Bool} (hst : Stable Q A false L)
    (b : Comp) (hb : b.sat A (fun _ => true) L = true) (σ : St) (hq : Q σ.reg) :
    Q (exec s f (.scope b) σ).1.reg := by
  rw [exec_scope]
  have h := srun_pres (inv_frame s hst (n := σ.reg.length) (lo := σ.reg.length + 1) (by omega) (fun _ => by omega))
    f (scopeBody b) (scopeBody_all A _ L b hb) (push σ)
  obtain ⟨h1, h2⟩ := h
  simp only [push, List.length_cons] at h1 h2
  have hne : (srun s f (scopeBody b) (push σ)).1.reg ≠ [] := by
    intro h0; simp only [push] at h0; rw [h0] at h1; simp at h1
  obtain ⟨m, t, hmt⟩ := List.exists_cons_of_ne_nil hne
  simp only [push] at hmt
  rw [hmt] at h1 h2
  simp only [List.length_cons] at h1
  have ht : t.length = σ.reg.length := by omega
  have := h2 (by omega) (by rw [Reg.below_cons _ _ _ (by omega), Reg.below_self]; exact hq)
  rw [Reg.below_cons _ _ _ (by omega), ← ht, Reg.below_self] at this
  simp only [pop, push, hmt, List.tail_cons]
  exact this

/-- A property stable under every leaf operation (inserts included) survives a whole run. -/
theorem srun_frame_top (s : Script) (f : Nat) {Q : Reg → Prop} {A : Act → Bool} {L : Bool} (hst : Stable Q A true L)
    (p : Stmt) (hp : p.all (Op.sat A L) (fun _ => true) = true) (σ : St) (hq : Q σ.reg) :
    Q (srun s f p σ).1.reg := by
  have h := srun_pres (inv_frame s hst (n := σ.reg.length) (lo := σ.reg.length) (by omega) (fun h => by cases h))
    f p hp σ
  obtain ⟨h1, h2⟩ := h
  have := h2 (by omega) (by rw [Reg.below_self]; exact hq)
  rwa [← h1, Reg.below_self] at this

theorem run_frame (s : Script) (f : Nat) {Q : Reg → Prop} {A : Act → Bool} {L : Bool} (hst : Stable Q A true L)
    (c : Comp) (hc : c.sat A (fun _ => true) L = true) (σ : St) (hq : Q σ.reg) :
    Q (run s f c σ).1.reg := by
  rw [run_eq]; exact srun_frame_top s f hst (prog c) (prog_all A _ L c hc) σ hq

theorem exec_frame (s : Script) (f : Nat) {Q : Reg → Prop} {A : Act → Bool} {L : Bool} (hst : Stable Q A true L)
    (c : Comp) (hc : c.sat A (fun _ => true) L = true) (σ : St) (hq : Q σ.reg) :
    Q (exec s f c σ).1.reg := by
  rw [exec_eq]; exact srun_frame_top s f hst (execProg c) (execProg_all A _ L c hc) σ hq


/-! ### The loop counter is not touched by loop-free bodies whose leaves leave key 0 alone -/

def Act.offCounter (a : Act) : Bool := a.key != 0

def profile (r : Reg) : List (Option Nat) := r.map (fun m => Scope.get? m 0)

theorem get0_of_profile : ∀ (r r' : Reg), profile r = profile r' → r.get? 0 = r'.get? 0 := by
  intro r
  induction r with
  | nil => intro r' h; cases r' <;> simp_all [profile]
  | cons m r ih =>
    intro r' h
    cases r' with
    | nil => simp [profile] at h
    | cons m' r' =>
      simp only [profile, List.map_cons, List.cons.injEq] at h
      simp only [Reg.get?, Scope.has_iff_get, h.1]
      rw [ih r' h.2]

theorem profile_insert (r : Reg) (k v : Nat) (hk : k ≠ 0) : profile (r.insert k v) = profile r := by
  cases r with
  | nil => rfl
  | cons m r => simp [Reg.insert, profile, Scope.get_put, hk]

theorem profile_setv (r : Reg) (k v : Nat) (hk : k ≠ 0) : profile (r.setv k v) = profile r := by
  induction r with
  | nil => rfl
  | cons m r ih =>
    simp only [Reg.setv]
    split
    · simp [profile, Scope.get_put, hk]
    · simp only [profile, List.map_cons] at ih ⊢; rw [ih]

theorem profile_remove (r : Reg) (k : Nat) (hk : k ≠ 0) : profile (r.remove k) = profile r := by
  induction r with
  | nil => rfl
  | cons m r ih =>
    simp only [Reg.remove]
    split
    · simp [profile, Scope.get_erase, hk]
    · simp only [profile, List.map_cons] at ih ⊢; rw [ih]

theorem profile_apply (ph : Phase) (a : Act) (ha : a.offCounter = true) (r : Reg) :
    profile (a.apply ph r) = profile r := by
  cases a <;> simp only [Act.offCounter, Act.key, bne_iff_ne, ne_eq] at ha <;> simp only [Act.apply] <;>
    (try split) <;> simp [profile_insert, profile_setv, profile_remove, ha]

theorem profile_applyActs (ph : Phase) (acts : List Act) (ha : acts.all Act.offCounter = true) (r : Reg) :
    profile (applyActs ph acts r) = profile r := by
  unfold applyActs
  induction acts generalizing r with
  | nil => rfl
  | cons a acts ih =>
    simp only [List.all_cons, Bool.and_eq_true] at ha
    simp only [List.foldl_cons]
    rw [ih ha.2, profile_apply ph a ha.1]

theorem profile_effOf (ph : Phase) (acts : List Act) (ha : acts.all Act.offCounter = true) (r r' : Reg)
    (h : effOf ph acts r = some r') : profile r' = profile r := by
  cases ph <;> simp only [effOf, leafEff, needEff] at h
  · injection h with h; subst h; exact profile_applyActs _ acts ha r
  · split at h
    · injection h with h; subst h; rfl
    · cases h
  · injection h with h; subst h; exact profile_applyActs _ acts ha r
  all_goals (injection h with h; subst h; rfl)

theorem inv_profile (s : Script) :
    Inv s (Op.sat Act.offCounter false) (fun _ => true) (fun σ σ' => profile σ'.reg = profile σ.reg) where
  refl _ := rfl
  trans _ _ _ h1 h2 := h2.trans h1
  op o ho σ := by
    cases o with
    | prim ev acts =>
      simp only [Op.sat, Bool.and_eq_true] at ho
      simp only [opRun]
      rcases step_cases s ev (effOf ev.1 acts) σ with h | ⟨r, hr, h⟩ <;> rw [h]
      exact profile_effOf _ acts ho.2 _ _ hr
    | counter0 => simp [Op.sat] at ho
    | bump => simp [Op.sat] at ho
    | merge id mg =>
      have hmg : mg = [] := by simpa [Op.sat] using ho
      subst hmg
      simp only [opRun]
      rcases step_cases s (Phase.exec, id) (mergeEff []) σ with h | ⟨r, hr, h⟩ <;> rw [h]
      rw [mergeEff_nil] at hr; injection hr with hr; subst hr; rfl
  cond c _ σ := by rw [condEval_reg]
  scope σ σ2 h := by
    simp only [push, pop, profile, List.map_cons] at *
    rw [List.map_tail, h]; rfl

/-- Executing a loop-free tree whose leaves never touch key 0 leaves the visible counter alone. -/
theorem exec_counter_same (s : Script) (f : Nat) (b : Comp)
    (hb : b.sat Act.offCounter (fun _ => true) false = true) (σ : St) :
    (exec s f b σ).1.reg.get? 0 = σ.reg.get? 0 := by
  rw [exec_eq]
  exact get0_of_profile _ _ (srun_pres (inv_profile s) f _ (execProg_all _ _ false b hb) σ)

/-! ### Events of a condition that does not occur in the tree are not produced -/

mutual
  theorem condEval_count (s : Script) (cid : Nat) : ∀ (c : Cond) (σ : St), c.ids.contains cid = false →
      (condEval s c σ).1.tr.count (Phase.ceval, cid) = σ.tr.count (Phase.ceval, cid)
    | .leaf id, σ, h => by
      simp only [condEval]; rw [(evalLeaf_frame s id σ).2]
      have : id ≠ cid := by simp [Cond.ids] at h; exact fun e => h e.symm
      rw [List.count_cons_of_ne]; intro h'; injection h' with _ h'; exact this h'
    | .all cs, σ, h => by simp only [condEval]; exact evalAll_count s cid cs σ (by simpa [Cond.ids] using h)
    | .any cs, σ, h => by simp only [condEval]; exact evalAny_count s cid cs σ (by simpa [Cond.ids] using h)
    | .not c, σ, h => by
      simp only [condEval]
      have := condEval_count s cid c σ (by simpa [Cond.ids] using h)
      split <;> simp_all
  theorem evalAll_count (s : Script) (cid : Nat) : ∀ (cs : Conds) (σ : St), cs.ids.contains cid = false →
      (evalAll s cs σ).1.tr.count (Phase.ceval, cid) = σ.tr.count (Phase.ceval, cid)
    | .nil, σ, _ => by simp [evalAll]
    | .cons c cs, σ, h => by
      simp only [Conds.ids, List.contains_eq_mem, List.mem_append, decide_eq_false_iff_not, not_or] at h
      simp only [evalAll]
      have h1 := condEval_count s cid c σ (by simpa using h.1)
      split
      · rename_i σ1 b heq
        have h2 := evalAll_count s cid cs σ1 (by simpa using h.2)
        rw [heq] at h1
        split <;> simp_all
      · simp_all
  theorem evalAny_count (s : Script) (cid : Nat) : ∀ (cs : Conds) (σ : St), cs.ids.contains cid = false →
      (evalAny s cs σ).1.tr.count (Phase.ceval, cid) = σ.tr.count (Phase.ceval, cid)
    | .nil, σ, _ => by simp [evalAny]
    | .cons c cs, σ, h => by
      simp only [Conds.ids, List.contains_eq_mem, List.mem_append, decide_eq_false_iff_not, not_or] at h
      simp only [evalAny]
      have h1 := condEval_count s cid c σ (by simpa using h.1)
      split
      · rename_i σ1 b heq
        have h2 := evalAny_count s cid cs σ1 (by simpa using h.2)
        rw [heq] at h1
        split <;> simp_all
      · simp_all
end

def Cond.avoids (cid : Nat) (c : Cond) : Bool := !c.ids.contains cid

theorem inv_count (s : Script) (cid : Nat) :
    Inv s (Op.sat (fun _ => true) true) (Cond.avoids cid)
      (fun σ σ' => σ'.tr.count (Phase.ceval, cid) = σ.tr.count (Phase.ceval, cid)) where
  refl _ := rfl
  trans _ _ _ h1 h2 := h2.trans h1
  op o ho σ := by
    cases o with
    | prim ev acts =>
      simp only [Op.sat, Bool.and_eq_true, bne_iff_ne, ne_eq] at ho
      simp only [opRun]
      have hne : ev ≠ (Phase.ceval, cid) := by intro h; rw [h] at ho; exact ho.1 rfl
      rcases step_cases s ev (effOf ev.1 acts) σ with h | ⟨r, hr, h⟩ <;> rw [h] <;>
        exact List.count_cons_of_ne hne
    | counter0 => rfl
    | bump => simp only [opRun, bump]; split <;> rfl
    | merge id mg =>
      simp only [opRun]
      have hne : (Phase.exec, id) ≠ (Phase.ceval, cid) := by intro h; injection h with h _; cases h
      rcases step_cases s (Phase.exec, id) (mergeEff mg) σ with h | ⟨r, hr, h⟩ <;> rw [h] <;>
        exact List.count_cons_of_ne hne
  cond c hc σ := condEval_count s cid c σ (by simpa [Cond.avoids] using hc)
  scope σ σ2 h := by simpa [push, pop] using h

/-- A body in which the condition `cid` does not occur adds no `ceval cid` event. -/
theorem exec_count_same (s : Script) (f : Nat) (cid : Nat) (b : Comp)
    (hb : b.sat (fun _ => true) (Cond.avoids cid) true = true) (σ : St) :
    (exec s f b σ).1.tr.count (Phase.ceval, cid) = σ.tr.count (Phase.ceval, cid) := by
  rw [exec_eq]
  exact srun_pres (inv_count s cid) f _ (execProg_all _ _ true b hb) σ


/-! ### A scope whose body creates no state is transparent -/

/-- `Sk d a b`: `a` is `b` with one extra empty scope inserted below the `d` innermost scopes. -/
inductive Sk : Nat → Reg → Reg → Prop where
  | here (r : Reg) : Sk 0 ([] :: r) r
  | cons {d : Nat} {a b : Reg} (m : Scope) : Sk d a b → Sk (d + 1) (m :: a) (m :: b)

theorem Sk.setv {d : Nat} {a b : Reg} (h : Sk d a b) (k v : Nat) : Sk d (a.setv k v) (b.setv k v) := by
  induction h with
  | here r => simp only [Reg.setv, Scope.has, List.any_nil, Bool.false_eq_true, if_false]; exact Sk.here _
  | cons m _ ih => simp only [Reg.setv]; split <;> exact Sk.cons _ (by assumption)

theorem Sk.remove {d : Nat} {a b : Reg} (h : Sk d a b) (k : Nat) : Sk d (a.remove k) (b.remove k) := by
  induction h with
  | here r => simp only [Reg.remove, Scope.has, List.any_nil, Bool.false_eq_true, if_false]; exact Sk.here _
  | cons m _ ih => simp only [Reg.remove]; split <;> exact Sk.cons _ (by assumption)

theorem Sk.contains {d : Nat} {a b : Reg} (h : Sk d a b) (k : Nat) : a.contains k = b.contains k := by
  induction h with
  | here r => simp [Reg.contains, Scope.has]
  | cons m _ ih => simp [Reg.contains, ih]

theorem Sk.inv_succ {d : Nat} {a b : Reg} (h : Sk (d + 1) a b) :
    ∃ m a' b', a = m :: a' ∧ b = m :: b' ∧ Sk d a' b' := by
  cases h with
  | cons m h' => exact ⟨m, _, _, rfl, rfl, h'⟩

theorem Sk.inv_zero {a b : Reg} (h : Sk 0 a b) : a = [] :: b := by
  cases h with
  | here r => rfl

def Act.noIns (a : Act) : Bool := !a.isIns

theorem Sk.apply {d : Nat} {a b : Reg} (h : Sk d a b) (ph : Phase) (x : Act) (hx : x.noIns = true) :
    Sk d (x.apply ph a) (x.apply ph b) := by
  cases x with
  | ins p k v => simp [Act.noIns, Act.isIns] at hx
  | set p k v => simp only [Act.apply]; split; exact h.setv k v; exact h
  | rem p k => simp only [Act.apply]; split; exact h.remove k; exact h
  | need k => exact h

theorem Sk.applyActs {d : Nat} {a b : Reg} (h : Sk d a b) (ph : Phase) (acts : List Act)
    (ha : acts.all Act.noIns = true) : Sk d (applyActs ph acts a) (applyActs ph acts b) := by
  unfold Config.applyActs
  induction acts generalizing a b with
  | nil => exact h
  | cons x acts ih =>
    simp only [List.all_cons, Bool.and_eq_true] at ha
    simp only [List.foldl_cons]
    exact ih (h.apply ph x ha.1) ha.2

/-- Same result, same trace, registries related by `Sk d`. -/
def Lift (d : Nat) (x y : St × Res) : Prop := x.2 = y.2 ∧ x.1.tr = y.1.tr ∧ Sk d x.1.reg y.1.reg
def LiftS (d : Nat) (σa σb : St) : Prop := σa.tr = σb.tr ∧ Sk d σa.reg σb.reg

theorem effOf_lift {d : Nat} {a b : Reg} (h : Sk d a b) (ph : Phase) (acts : List Act)
    (ha : acts.all Act.noIns = true) :
    (effOf ph acts a = none ∧ effOf ph acts b = none) ∨
    ∃ a' b', effOf ph acts a = some a' ∧ effOf ph acts b = some b' ∧ Sk d a' b' := by
  cases ph <;> simp only [effOf, leafEff, needEff]
  · exact Or.inr ⟨_, _, rfl, rfl, h.applyActs _ acts ha⟩
  · have : acts.all (Act.needOk a) = acts.all (Act.needOk b) := by
      congr 1; funext x; cases x <;> simp [Act.needOk, h.contains]
    rw [this]
    split
    · exact Or.inr ⟨_, _, rfl, rfl, h⟩
    · exact Or.inl ⟨rfl, rfl⟩
  · exact Or.inr ⟨_, _, rfl, rfl, h.applyActs _ acts ha⟩
  all_goals exact Or.inr ⟨_, _, rfl, rfl, h⟩

theorem opRun_lift (s : Script) {d : Nat} (o : Op) (ho : Op.sat Act.noIns false o = true) {σa σb : St}
    (h : LiftS d σa σb) : Lift d (opRun s o σa) (opRun s o σb) := by
  obtain ⟨ht, hr⟩ := h
  cases o with
  | prim ev acts =>
    simp only [Op.sat, Bool.and_eq_true] at ho
    simp only [opRun, step, ht]
    split
    · exact ⟨rfl, rfl, hr⟩
    · rcases effOf_lift hr ev.1 acts ho.2 with ⟨h1, h2⟩ | ⟨a', b', h1, h2, h3⟩
      · simp only [h1, h2]; exact ⟨rfl, rfl, hr⟩
      · simp only [h1, h2]; exact ⟨rfl, rfl, h3⟩
  | counter0 => simp [Op.sat] at ho
  | bump => simp [Op.sat] at ho
  | merge id mg =>
    have hmg : mg = [] := by simpa [Op.sat] using ho
    subst hmg
    simp only [opRun, step, ht, mergeEff_nil]
    split
    · exact ⟨rfl, rfl, hr⟩
    · exact ⟨rfl, rfl, hr⟩

mutual
  theorem condEval_setReg (s : Script) : ∀ (c : Cond) (σ : St) (r : Reg),
      condEval s c { σ with reg := r } = ({ (condEval s c σ).1 with reg := r }, (condEval s c σ).2)
    | .leaf id, σ, r => by simp only [condEval, evalLeaf]; split <;> rfl
    | .all cs, σ, r => by simp only [condEval]; exact evalAll_setReg s cs σ r
    | .any cs, σ, r => by simp only [condEval]; exact evalAny_setReg s cs σ r
    | .not c, σ, r => by
      simp only [condEval]
      rw [condEval_setReg s c σ r]
      cases condEval s c σ with
      | mk σ1 v => cases v <;> rfl
  theorem evalAll_setReg (s : Script) : ∀ (cs : Conds) (σ : St) (r : Reg),
      evalAll s cs { σ with reg := r } = ({ (evalAll s cs σ).1 with reg := r }, (evalAll s cs σ).2)
    | .nil, σ, r => rfl
    | .cons c cs, σ, r => by
      simp only [evalAll]
      rw [condEval_setReg s c σ r]
      cases condEval s c σ with
      | mk σ1 v =>
        cases v with
        | err _ _ => rfl
        | val b =>
          simp only
          rw [evalAll_setReg s cs σ1 r]
          cases evalAll s cs σ1 with
          | mk σ2 v2 => cases v2 <;> rfl
  theorem evalAny_setReg (s : Script) : ∀ (cs : Conds) (σ : St) (r : Reg),
      evalAny s cs { σ with reg := r } = ({ (evalAny s cs σ).1 with reg := r }, (evalAny s cs σ).2)
    | .nil, σ, r => rfl
    | .cons c cs, σ, r => by
      simp only [evalAny]
      rw [condEval_setReg s c σ r]
      cases condEval s c σ with
      | mk σ1 v =>
        cases v with
        | err _ _ => rfl
        | val b =>
          simp only
          rw [evalAny_setReg s cs σ1 r]
          cases evalAny s cs σ1 with
          | mk σ2 v2 => cases v2 <;> rfl
end

/-- A condition sees only the trace. -/
theorem condEval_lift (s : Script) (c : Cond) {d : Nat} {σa σb : St} (h : LiftS d σa σb) :
    (condEval s c σa).2 = (condEval s c σb).2 ∧ LiftS d (condEval s c σa).1 (condEval s c σb).1 := by
  obtain ⟨ht, hr⟩ := h
  have ha : σa = { σb with reg := σa.reg } := by cases σa; cases σb; simp_all
  rw [ha, condEval_setReg s c σb σa.reg]
  refine ⟨rfl, rfl, ?_⟩
  simp only [condEval_reg]; exact hr

theorem lift_andThen {d : Nat} {x y : St × Res} {k : St → St × Res} (h : Lift d x y)
    (hk : ∀ σa σb, LiftS d σa σb → Lift d (k σa) (k σb)) : Lift d (andThen x k) (andThen y k) := by
  obtain ⟨σx, rx⟩ := x
  obtain ⟨σy, ry⟩ := y
  obtain ⟨h1, h2, h3⟩ := h
  simp only at h1 h2 h3; subst h1
  cases rx <;> simp only [andThen]
  · exact hk _ _ ⟨h2, h3⟩
  all_goals exact ⟨rfl, h2, h3⟩

theorem whileN_lift {d : Nat} {cond : St → St × CRes} {body : St → St × Res}
    (hc : ∀ σa σb, LiftS d σa σb → (cond σa).2 = (cond σb).2 ∧ LiftS d (cond σa).1 (cond σb).1)
    (hb : ∀ σa σb, LiftS d σa σb → Lift d (body σa) (body σb)) :
    ∀ (n : Nat) (σa σb : St), LiftS d σa σb → Lift d (whileN cond body n σa) (whileN cond body n σb) := by
  intro n
  induction n with
  | zero => intro σa σb h; exact ⟨rfl, h.1, h.2⟩
  | succ n ih =>
    intro σa σb h
    simp only [whileN]
    obtain ⟨h1, h2⟩ := hc σa σb h
    cases hx : cond σa with
    | mk σ1 v =>
      cases hy : cond σb with
      | mk σ1' v' =>
        rw [hx, hy] at h1 h2; simp only at h1 h2; subst h1
        cases v with
        | err ph id => exact ⟨rfl, h2.1, h2.2⟩
        | val b =>
          cases b
          · exact ⟨rfl, h2.1, h2.2⟩
          · exact lift_andThen (hb _ _ h2) ih

theorem srun_lift (s : Script) (f : Nat) : ∀ (p : Stmt) (d : Nat) (σa σb : St),
    p.all (Op.sat Act.noIns false) (fun _ => true) = true → LiftS d σa σb →
    Lift d (srun s f p σa) (srun s f p σb)
  | .skip, d, σa, σb, _, h => ⟨rfl, h.1, h.2⟩
  | .atom o, d, σa, σb, hp, h => by simp only [srun]; exact opRun_lift s o (by simpa [Stmt.all] using hp) h
  | .seq a b, d, σa, σb, hp, h => by
    simp only [Stmt.all, Bool.and_eq_true] at hp
    simp only [srun]
    exact lift_andThen (srun_lift s f a d σa σb hp.1 h) (fun x y hxy => srun_lift s f b d x y hp.2 hxy)
  | .loop c b, d, σa, σb, hp, h => by
    simp only [Stmt.all, Bool.and_eq_true] at hp
    simp only [srun]
    exact whileN_lift (fun x y hxy => condEval_lift s c hxy) (fun x y hxy => srun_lift s f b d x y hp.2 hxy) f σa σb h
  | .ite c t e, d, σa, σb, hp, h => by
    simp only [Stmt.all, Bool.and_eq_true] at hp
    simp only [srun]
    obtain ⟨h1, h2⟩ := condEval_lift s c h
    cases hx : condEval s c σa with
    | mk σ1 v =>
      cases hy : condEval s c σb with
      | mk σ1' v' =>
        rw [hx, hy] at h1 h2; simp only at h1 h2; subst h1
        cases v with
        | err ph id => exact ⟨rfl, h2.1, h2.2⟩
        | val b =>
          cases b
          · exact srun_lift s f e d _ _ hp.2 h2
          · exact srun_lift s f t d _ _ hp.1.2 h2
  | .inScope b, d, σa, σb, hp, h => by
    simp only [Stmt.all] at hp
    simp only [srun]
    have := srun_lift s f b (d + 1) (push σa) (push σb) hp ⟨h.1, Sk.cons [] h.2⟩
    obtain ⟨h1, h2, h3⟩ := this
    refine ⟨h1, h2, ?_⟩
    simp only [pop]
    obtain ⟨m, a', b', ha, hb', hs⟩ := h3.inv_succ
    rw [ha, hb']; exact hs

/-- A scope around a body that inserts nothing (and has no loop, whose `init` would insert the
counter) behaves exactly like the body run in place: every write reaches the caller's state. -/
theorem scope_transparent (s : Script) (f : Nat) (b : Comp)
    (hb : b.sat Act.noIns (fun _ => true) false = true) (σ : St) :
    exec s f (.scope b) σ = run s f b σ := by
  rw [exec_scope, run_eq_scopeBody]
  have := srun_lift s f (scopeBody b) 0 (push σ) σ (scopeBody_all _ _ false b hb) ⟨rfl, Sk.here _⟩
  obtain ⟨h1, h2, h3⟩ := this
  cases hx : srun s f (scopeBody b) (push σ) with
  | mk σx rx =>
    cases hy : srun s f (scopeBody b) σ with
    | mk σy ry =>
      rw [hx, hy] at h1 h2 h3; simp only at h1 h2 h3
      subst h1
      have := h3.inv_zero
      simp only [pop]
      cases σx; cases σy; simp_all


/-! ### Blocks, trivial side conditions, event kinds -/

theorem execs_append (s : Script) (f : Nat) : ∀ (cs ds : Comps) (σ : St),
    execs s f (cs.append ds) σ = andThen (execs s f cs σ) (execs s f ds)
  | .nil, ds, σ => by simp [Comps.append, execs, andThen]
  | .cons c cs, ds, σ => by
    simp only [Comps.append, execs]
    rw [andThen_assoc]
    exact andThen_congr (execs_append s f cs ds)

theorem initCs_append (s : Script) : ∀ (cs ds : Comps) (σ : St),
    initCs s (cs.append ds) σ = andThen (initCs s cs σ) (initCs s ds)
  | .nil, ds, σ => by simp [Comps.append, initCs, andThen]
  | .cons c cs, ds, σ => by
    simp only [Comps.append, initCs]
    rw [andThen_assoc]
    exact andThen_congr (initCs_append s cs ds)

theorem reqCs_append (s : Script) : ∀ (cs ds : Comps) (σ : St),
    reqCs s (cs.append ds) σ = andThen (reqCs s cs σ) (reqCs s ds)
  | .nil, ds, σ => by simp [Comps.append, reqCs, andThen]
  | .cons c cs, ds, σ => by
    simp only [Comps.append, reqCs]
    rw [andThen_assoc]
    exact andThen_congr (reqCs_append s cs ds)

/-- No merge hook anywhere in the tree exports anything (the only way `Comp.sat` can fail for the
trivial side conditions). -/
def Comp.noExports (c : Comp) : Bool := c.sat (fun _ => true) (fun _ => true) true

mutual
  theorem condEvents_phase (ph : Phase) : ∀ (c : Cond) (e : Ev), e ∈ condEvents ph c → e.1 = ph
    | .leaf id, e, h => by simp [condEvents] at h; rw [h]
    | .all cs, e, h => condsEvents_phase ph cs e (by simpa [condEvents] using h)
    | .any cs, e, h => condsEvents_phase ph cs e (by simpa [condEvents] using h)
    | .not c, e, h => condEvents_phase ph c e (by simpa [condEvents] using h)
  theorem condsEvents_phase (ph : Phase) : ∀ (cs : Conds) (e : Ev), e ∈ condsEvents ph cs → e.1 = ph
    | .nil, e, h => by simp [condsEvents] at h
    | .cons c cs, e, h => by
      simp only [condsEvents, List.mem_append] at h
      rcases h with h | h
      · exact condEvents_phase ph c e h
      · exact condsEvents_phase ph cs e h
end

mutual
  theorem phaseEvents_phase (ph cph : Phase) : ∀ (c : Comp) (e : Ev), e ∈ phaseEvents ph cph c → e.1 = ph ∨ e.1 = cph
    | .leaf id _, e, h => by simp [phaseEvents] at h; rw [h]; exact Or.inl rfl
    | .block cs, e, h => phaseEventss_phase ph cph cs e (by simpa [phaseEvents] using h)
    | .loop c b, e, h => by
      simp only [phaseEvents, List.mem_append] at h
      rcases h with h | h
      · exact Or.inr (condEvents_phase cph c e h)
      · exact phaseEvents_phase ph cph b e h
    | .branch c t el he, e, h => by
      simp only [phaseEvents, List.mem_append] at h
      rcases h with (h | h) | h
      · exact Or.inr (condEvents_phase cph c e h)
      · exact phaseEvents_phase ph cph t e h
      · cases he
        · simp at h
        · exact phaseEvents_phase ph cph el e (by simpa using h)
    | .scope _, e, h => by simp [phaseEvents] at h
    | .scopeW _ _ _ _, e, h => by simp [phaseEvents] at h
  theorem phaseEventss_phase (ph cph : Phase) : ∀ (cs : Comps) (e : Ev), e ∈ phaseEventss ph cph cs → e.1 = ph ∨ e.1 = cph
    | .nil, e, h => by simp [phaseEventss] at h
    | .cons c cs, e, h => by
      simp only [phaseEventss, List.mem_append] at h
      rcases h with h | h
      · exact phaseEvents_phase ph cph c e h
      · exact phaseEventss_phase ph cph cs e h
end

theorem exec_loop_ok_iff (s : Script) (f : Nat) (c : Cond) (b : Comp) (σ σ' : St) :
    exec s f (.loop c b) σ = (σ', .ok) ↔
    ∃ σ1 n, condPhase s .cinit c σ = (σ1, .ok) ∧ n < f ∧
      Passes (condEval s c) (fun x => andThen (exec s f b x) bump) n σ1 σ' := by
  simp only [exec]
  constructor
  · intro h
    obtain ⟨σ1, h1, h2⟩ := andThen_ok h
    rw [loopN_eq_whileN _ _ (fun x => andThen (exec s f b x) bump) (fun _ => rfl), whileN_ok_iff] at h2
    obtain ⟨n, hn, hp⟩ := h2
    exact ⟨σ1, n, h1, hn, hp⟩
  · rintro ⟨σ1, n, h1, hn, hp⟩
    rw [h1]; simp only [andThen]
    rw [loopN_eq_whileN _ _ (fun x => andThen (exec s f b x) bump) (fun _ => rfl), whileN_ok_iff]
    exact ⟨n, hn, hp⟩

theorem trace_prefix_of_suffix {a b : St} (h : a.tr <:+ b.tr) : a.trace <+: b.trace := by
  simpa [St.trace, List.reverse_prefix] using h


/-! ### Counters and scopes: a verified static analysis

`Stmt.ctr p h`: abstract run of `p` where `h` means "the innermost scope certainly holds a counter".
`none` means some `bump` might reach a counter of an enclosing scope. -/

def Stmt.ctr : Stmt → Bool → Option Bool
  | .skip, h => some h
  | .atom (.prim _ _), h => some h
  | .atom .counter0, _ => some true
  | .atom .bump, h => if h then some true else none
  | .atom (.merge _ _), h => some h
  | .seq a b, h =>
    match a.ctr h with
    | some h1 => b.ctr h1
    | none => none
  | .loop _ b, h =>
    match b.ctr h with
    | some _ => some h
    | none => none
  | .ite _ t e, h =>
    match t.ctr h, e.ctr h with
    | some _, some _ => some h
    | _, _ => none
  | .inScope b, h =>
    match b.ctr false with
    | some _ => some h
    | none => none

/-- No counter operation outside inner scopes. -/
def Stmt.flat : Stmt → Bool
  | .skip => true
  | .atom (.prim _ _) => true
  | .atom .counter0 => false
  | .atom .bump => false
  | .atom (.merge _ _) => true
  | .seq a b => a.flat && b.flat
  | .loop _ b => b.flat
  | .ite _ t e => t.flat && e.flat
  | .inScope _ => true

def head0 : Reg → Bool
  | [] => false
  | m :: _ => (m.get? 0).isSome

structure CtrOut (h' : Bool) (fl : Bool) (σ : St) (x : St × Res) : Prop where
  len : x.1.reg.length = σ.reg.length
  tail : (profile x.1.reg).tail = (profile σ.reg).tail
  mono : head0 σ.reg = true → head0 x.1.reg = true
  post : x.2 = .ok → h' = true → head0 x.1.reg = true
  full : fl = true → profile x.1.reg = profile σ.reg

theorem head0_of_profile {r r' : Reg} (h : profile r' = profile r) : head0 r' = head0 r := by
  cases r <;> cases r' <;> simp_all [profile, head0]

theorem ctrOut_of_profile {h' fl : Bool} {σ : St} {x : St × Res} (hp : profile x.1.reg = profile σ.reg)
    (hpost : x.2 = .ok → h' = true → head0 σ.reg = true) : CtrOut h' fl σ x where
  len := by have := congrArg List.length hp; simpa [profile] using this
  tail := by rw [hp]
  mono h := by rw [head0_of_profile hp]; exact h
  post h1 h2 := by rw [head0_of_profile hp]; exact hpost h1 h2
  full _ := hp

theorem ctrOut_seq {h1 h2 f1 f2 : Bool} {σ : St} {x : St × Res} {k : St → St × Res}
    (hx : CtrOut h1 f1 σ x) (hk : x.2 = .ok → CtrOut h2 f2 x.1 (k x.1)) :
    CtrOut h2 (f1 && f2) σ (andThen x k) := by
  obtain ⟨σ1, r1⟩ := x
  cases r1
  · simp only [andThen]
    have hk := hk rfl
    exact {
      len := hk.len.trans hx.len,
      tail := hk.tail.trans hx.tail,
      mono := fun h => hk.mono (hx.mono h),
      post := hk.post,
      full := fun h => by
        simp only [Bool.and_eq_true] at h
        exact (hk.full h.2).trans (hx.full h.1) }
  all_goals
    simp only [andThen]
    exact { len := hx.len, tail := hx.tail, mono := hx.mono, post := fun h => (by cases h),
            full := fun h => by simp only [Bool.and_eq_true] at h; exact hx.full h.1 }

theorem ctrOut_weaken {h1 h2 f1 f2 : Bool} {σ : St} {x : St × Res} (hx : CtrOut h1 f1 σ x)
    (hh : h2 = true → x.2 = .ok → head0 x.1.reg = true) (hf : f2 = true → f1 = true) : CtrOut h2 f2 σ x :=
  { len := hx.len, tail := hx.tail, mono := hx.mono, post := fun a b => hh b a, full := fun h => hx.full (hf h) }

theorem ne_nil_of_len {r r' : Reg} (h : r'.length = r.length) (hne : r ≠ []) : r' ≠ [] := by
  intro h0; rw [h0] at h; cases r <;> simp_all

theorem whileN_ctr {h fl : Bool} {cond : St → St × CRes} {body : St → St × Res}
    (hc : ∀ σ, (cond σ).1.reg = σ.reg)
    (hb : ∀ σ, σ.reg ≠ [] → (h = true → head0 σ.reg = true) → ∃ h1, CtrOut h1 fl σ (body σ)) :
    ∀ (n : Nat) (σ : St), σ.reg ≠ [] → (h = true → head0 σ.reg = true) →
      CtrOut h fl σ (whileN cond body n σ) := by
  intro n
  induction n with
  | zero =>
    intro σ _ hσ
    exact ctrOut_of_profile rfl (fun _ => hσ)
  | succ n ih =>
    intro σ hne hσ
    simp only [whileN]
    have hcr := hc σ
    cases hcond : cond σ with
    | mk σ1 v =>
      rw [hcond] at hcr; simp only at hcr
      cases v with
      | err ph id => exact ctrOut_of_profile (by rw [hcr]) (fun h => by cases h)
      | val b =>
        cases b
        · exact ctrOut_of_profile (by rw [hcr]) (fun _ => hσ)
        · simp only
          have hσ1 : h = true → head0 σ1.reg = true := by rw [hcr]; exact hσ
          have hne1 : σ1.reg ≠ [] := by rw [hcr]; exact hne
          obtain ⟨h1, hb1⟩ := hb σ1 hne1 hσ1
          have key : CtrOut h (fl && fl) σ1 (andThen (body σ1) (whileN cond body n)) :=
            ctrOut_seq hb1 (fun _ => ih _ (ne_nil_of_len hb1.len hne1) (fun hh => hb1.mono (hσ1 hh)))
          exact {
            len := by rw [key.len, hcr],
            tail := by rw [key.tail, hcr],
            mono := fun hh => key.mono (by rw [hcr]; exact hh),
            post := key.post,
            full := fun hh => by rw [key.full (by simp [hh]), hcr] }

theorem incr_head0 {r r' : Reg} (h0 : head0 r = true) (hi : r.incr = some r') :
    r'.length = r.length ∧ (profile r').tail = (profile r).tail ∧ head0 r' = true := by
  cases r with
  | nil => simp [head0] at h0
  | cons m t =>
    simp only [head0] at h0
    simp only [Reg.incr] at hi
    cases hm : m.get? 0 with
    | none => simp [hm] at h0
    | some v =>
      simp only [hm] at hi
      injection hi with hi; subst hi
      simp [profile, head0, Scope.get_put]

theorem incr_of_head0 {r : Reg} (h0 : head0 r = true) : ∃ r', r.incr = some r' := by
  cases r with
  | nil => simp [head0] at h0
  | cons m t =>
    simp only [head0] at h0
    cases hm : m.get? 0 with
    | none => simp [hm] at h0
    | some v => exact ⟨m.put 0 (v + 1) :: t, by simp [Reg.incr, hm]⟩

theorem ctr_sound (s : Script) (f : Nat) : ∀ (p : Stmt) (h h' : Bool) (σ : St),
    p.all (Op.sat Act.offCounter true) (fun _ => true) = true → p.ctr h = some h' → σ.reg ≠ [] →
    (h = true → head0 σ.reg = true) → CtrOut h' p.flat σ (srun s f p σ)
  | .skip, h, h', σ, _, hc, _, hσ => by
    simp only [Stmt.ctr] at hc; injection hc with hc; subst hc
    exact ctrOut_of_profile rfl (fun _ => hσ)
  | .atom (.prim ev acts), h, h', σ, hp, hc, _, hσ => by
    simp only [Stmt.ctr] at hc; injection hc with hc; subst hc
    simp only [Stmt.all, Op.sat, Bool.and_eq_true] at hp
    simp only [srun, opRun]
    rcases step_cases s ev (effOf ev.1 acts) σ with h1 | ⟨r, hr, h1⟩ <;> rw [h1]
    · exact ctrOut_of_profile rfl (fun h => by cases h)
    · exact ctrOut_of_profile (profile_effOf _ acts hp.2 _ _ hr) (fun _ => hσ)
  | .atom .counter0, h, h', σ, _, hc, hne, hσ => by
    simp only [Stmt.ctr] at hc; injection hc with hc; subst hc
    obtain ⟨reg, tr⟩ := σ
    cases reg with
    | nil => exact absurd rfl hne
    | cons m t =>
      simp only [srun, opRun, newCounter, Stmt.flat, Reg.insert]
      exact { len := by simp, tail := by simp [profile],
              mono := fun _ => by simp [head0, Scope.get_put],
              post := fun _ _ => by simp [head0, Scope.get_put],
              full := fun h => by cases h }
  | .atom .bump, h, h', σ, _, hc, _, hσ => by
    simp only [Stmt.ctr] at hc
    cases h with
    | false => simp at hc
    | true =>
      simp only [if_true] at hc; injection hc with hc; subst hc
      have h0 := hσ rfl
      obtain ⟨r', hr'⟩ := incr_of_head0 h0
      obtain ⟨a, b, c⟩ := incr_head0 h0 hr'
      simp only [srun, opRun, bump, hr', Stmt.flat]
      exact { len := a, tail := b, mono := fun _ => c, post := fun _ _ => c, full := fun h => by cases h }
  | .atom (.merge id mg), h, h', σ, hp, hc, _, hσ => by
    simp only [Stmt.ctr] at hc; injection hc with hc; subst hc
    have hmg : mg = [] := by simpa [Stmt.all, Op.sat] using hp
    subst hmg
    simp only [srun, opRun]
    rcases step_cases s (Phase.exec, id) (mergeEff []) σ with h1 | ⟨r, hr, h1⟩ <;> rw [h1]
    · exact ctrOut_of_profile rfl (fun h => by cases h)
    · rw [mergeEff_nil] at hr; injection hr with hr; subst hr
      exact ctrOut_of_profile rfl (fun _ => hσ)
  | .seq a b, h, h', σ, hp, hc, hne, hσ => by
    simp only [Stmt.all, Bool.and_eq_true] at hp
    simp only [Stmt.ctr] at hc
    cases ha : a.ctr h with
    | none => simp [ha] at hc
    | some h1 =>
      simp only [ha] at hc
      simp only [srun, Stmt.flat]
      have ia := ctr_sound s f a h h1 σ hp.1 ha hne hσ
      exact ctrOut_seq ia (fun hok => ctr_sound s f b h1 h' _ hp.2 hc (ne_nil_of_len ia.len hne) (fun hh => ia.post hok hh))
  | .loop c b, h, h', σ, hp, hc, hne, hσ => by
    simp only [Stmt.all, Bool.and_eq_true] at hp
    simp only [Stmt.ctr] at hc
    cases hb : b.ctr h with
    | none => simp [hb] at hc
    | some h1 =>
      simp only [hb] at hc; injection hc with hc; subst hc
      simp only [srun, Stmt.flat]
      exact whileN_ctr (fun x => condEval_reg s c x)
        (fun x hxne hx => ⟨h1, ctr_sound s f b h h1 x hp.2 hb hxne hx⟩) f σ hne hσ
  | .ite c t e, h, h', σ, hp, hc, hne, hσ => by
    simp only [Stmt.all, Bool.and_eq_true] at hp
    simp only [Stmt.ctr] at hc
    cases ht : t.ctr h with
    | none => simp [ht] at hc
    | some h1 =>
      cases he : e.ctr h with
      | none => simp [ht, he] at hc
      | some h2 =>
        simp only [ht, he] at hc; injection hc with hc; subst hc
        simp only [srun, Stmt.flat]
        have hcr := condEval_reg s c σ
        cases hcond : condEval s c σ with
        | mk σ1 v =>
          rw [hcond] at hcr; simp only at hcr
          have hσ1 : h = true → head0 σ1.reg = true := by rw [hcr]; exact hσ
          have hne1 : σ1.reg ≠ [] := by rw [hcr]; exact hne
          cases v with
          | err ph id => exact ctrOut_of_profile (by rw [hcr]) (fun hh => by cases hh)
          | val bv =>
            cases bv
            · simp only
              have ie := ctr_sound s f e h h2 σ1 hp.2 he hne1 hσ1
              exact { len := by rw [ie.len, hcr], tail := by rw [ie.tail, hcr],
                      mono := fun hh => ie.mono (by rw [hcr]; exact hh),
                      post := fun _ hh => ie.mono (hσ1 hh),
                      full := fun hh => by simp only [Bool.and_eq_true] at hh; rw [ie.full hh.2, hcr] }
            · simp only
              have it := ctr_sound s f t h h1 σ1 hp.1.2 ht hne1 hσ1
              exact { len := by rw [it.len, hcr], tail := by rw [it.tail, hcr],
                      mono := fun hh => it.mono (by rw [hcr]; exact hh),
                      post := fun _ hh => it.mono (hσ1 hh),
                      full := fun hh => by simp only [Bool.and_eq_true] at hh; rw [it.full hh.1, hcr] }
  | .inScope b, h, h', σ, hp, hc, _, hσ => by
    simp only [Stmt.all] at hp
    simp only [Stmt.ctr] at hc
    cases hb : b.ctr false with
    | none => simp [hb] at hc
    | some h1 =>
      simp only [hb] at hc; injection hc with hc; subst hc
      simp only [srun]
      have ib := ctr_sound s f b false h1 (push σ) hp hb (by simp [push]) (fun hh => by cases hh)
      have hprof : profile (pop (srun s f b (push σ)).1).reg = profile σ.reg := by
        have := ib.tail
        simp only [push, profile, List.map_cons, List.tail_cons] at this
        simp only [pop, profile, List.map_tail]
        exact this
      exact ctrOut_of_profile hprof (fun _ => hσ)


mutual
  theorem condProg_ctr (ph : Phase) : ∀ (c : Cond) (h : Bool), (condProg ph c).ctr h = some h
    | .leaf id, h => rfl
    | .all cs, h => by simp only [condProg]; exact condsProg_ctr ph cs h
    | .any cs, h => by simp only [condProg]; exact condsProg_ctr ph cs h
    | .not c, h => by simp only [condProg]; exact condProg_ctr ph c h
  theorem condsProg_ctr (ph : Phase) : ∀ (cs : Conds) (h : Bool), (condsProg ph cs).ctr h = some h
    | .nil, h => rfl
    | .cons c cs, h => by simp [condsProg, Stmt.ctr, condProg_ctr ph c h, condsProg_ctr ph cs h]
end

mutual
  theorem condProg_flat (ph : Phase) : ∀ (c : Cond), (condProg ph c).flat = true
    | .leaf id => rfl
    | .all cs => by simp only [condProg]; exact condsProg_flat ph cs
    | .any cs => by simp only [condProg]; exact condsProg_flat ph cs
    | .not c => by simp only [condProg]; exact condProg_flat ph c
  theorem condsProg_flat (ph : Phase) : ∀ (cs : Conds), (condsProg ph cs).flat = true
    | .nil => rfl
    | .cons c cs => by simp [condsProg, Stmt.flat, condProg_flat ph c, condsProg_flat ph cs]
end

mutual
  theorem initProg_ctr : ∀ (b : Comp) (h : Bool), (initProg b).ctr h = some (h || b.hasLoop)
    | .leaf _ _, h => by simp [initProg, Stmt.ctr, Comp.hasLoop]
    | .block cs, h => by simp only [initProg, Comp.hasLoop]; exact initProgs_ctr cs h
    | .loop c b, h => by simp [initProg, Stmt.ctr, Comp.hasLoop, condProg_ctr, initProg_ctr b true]
    | .branch c t e he, h => by
      cases he
      · simp [initProg, Stmt.ctr, Comp.hasLoop, condProg_ctr, initProg_ctr t h]
      · simp [initProg, Stmt.ctr, Comp.hasLoop, condProg_ctr, initProg_ctr t h, initProg_ctr e, Bool.or_assoc]
    | .scope _, h => by simp [initProg, Stmt.ctr, Comp.hasLoop]
    | .scopeW _ _ _ _, h => by simp [initProg, Stmt.ctr, Comp.hasLoop]
  theorem initProgs_ctr : ∀ (cs : Comps) (h : Bool), (initProgs cs).ctr h = some (h || cs.hasLoop)
    | .nil, h => by simp [initProgs, Stmt.ctr, Comps.hasLoop]
    | .cons c cs, h => by
      simp [initProgs, Stmt.ctr, Comps.hasLoop, initProg_ctr c h, initProgs_ctr cs, Bool.or_assoc]
end

mutual
  theorem reqProg_ctr : ∀ (b : Comp) (h : Bool), (reqProg b).ctr h = some h
    | .leaf _ _, h => rfl
    | .block cs, h => by simp only [reqProg]; exact reqProgs_ctr cs h
    | .loop c b, h => by simp [reqProg, Stmt.ctr, condProg_ctr, reqProg_ctr b h]
    | .branch c t e he, h => by
      cases he
      · simp [reqProg, Stmt.ctr, condProg_ctr, reqProg_ctr t h]
      · simp [reqProg, Stmt.ctr, condProg_ctr, reqProg_ctr t h, reqProg_ctr e h]
    | .scope _, h => rfl
    | .scopeW _ _ _ _, h => rfl
  theorem reqProgs_ctr : ∀ (cs : Comps) (h : Bool), (reqProgs cs).ctr h = some h
    | .nil, h => rfl
    | .cons c cs, h => by simp [reqProgs, Stmt.ctr, reqProg_ctr c h, reqProgs_ctr cs h]
end

mutual
  theorem execProg_ctr : ∀ (b : Comp) (h : Bool), (b.hasLoop = true → h = true) → (execProg b).ctr h = some h
    | .leaf _ _, h, _ => rfl
    | .block cs, h, hh => by simp only [execProg]; exact execProgs_ctr cs h (by simpa [Comp.hasLoop] using hh)
    | .loop c b, h, hh => by
      have : h = true := hh (by simp [Comp.hasLoop])
      subst this
      simp [execProg, Stmt.ctr, condProg_ctr, execProg_ctr b true (fun _ => rfl)]
    | .branch c t e he, h, hh => by
      simp only [Comp.hasLoop, Bool.or_eq_true, Bool.and_eq_true] at hh
      cases he
      · simp [execProg, Stmt.ctr, execProg_ctr t h (fun x => hh (Or.inl x))]
      · simp [execProg, Stmt.ctr, execProg_ctr t h (fun x => hh (Or.inl x)),
          execProg_ctr e h (fun x => hh (Or.inr ⟨rfl, x⟩))]
    | .scope b, h, _ => by
      have := execProg_ctr b b.hasLoop (fun x => x)
      simp [execProg, Stmt.ctr, initProg_ctr b false, reqProg_ctr b, this]
    | .scopeW id si mg b, h, _ => by
      have := execProg_ctr b b.hasLoop (fun x => x)
      simp [execProg, Stmt.ctr, initProg_ctr b false, reqProg_ctr b, this]
  theorem execProgs_ctr : ∀ (cs : Comps) (h : Bool), (cs.hasLoop = true → h = true) → (execProgs cs).ctr h = some h
    | .nil, h, _ => rfl
    | .cons c cs, h, hh => by
      simp only [Comps.hasLoop, Bool.or_eq_true] at hh
      simp [execProgs, Stmt.ctr, execProg_ctr c h (fun x => hh (Or.inl x)),
        execProgs_ctr cs h (fun x => hh (Or.inr x))]
end

mutual
  theorem execProg_flat : ∀ (b : Comp), b.hasLoop = false → (execProg b).flat = true
    | .leaf _ _, _ => rfl
    | .block cs, h => by simp only [execProg]; exact execProgs_flat cs (by simpa [Comp.hasLoop] using h)
    | .loop c b, h => by simp [Comp.hasLoop] at h
    | .branch c t e he, h => by
      simp only [Comp.hasLoop, Bool.or_eq_false_iff, Bool.and_eq_false_iff] at h
      cases he
      · simp [execProg, Stmt.flat, execProg_flat t h.1]
      · have he' : e.hasLoop = false := by rcases h.2 with h2 | h2 <;> simp_all
        simp [execProg, Stmt.flat, execProg_flat t h.1, execProg_flat e he']
    | .scope b, _ => rfl
    | .scopeW _ _ _ _, _ => rfl
  theorem execProgs_flat : ∀ (cs : Comps), cs.hasLoop = false → (execProgs cs).flat = true
    | .nil, _ => rfl
    | .cons c cs, h => by
      simp only [Comps.hasLoop, Bool.or_eq_false_iff] at h
      simp [execProgs, Stmt.flat, execProg_flat c h.1, execProgs_flat cs h.2]
end

theorem scopeBody_ctr (b : Comp) : (scopeBody b).ctr false = some b.hasLoop := by
  have := execProg_ctr b b.hasLoop (fun x => x)
  simp [scopeBody, Stmt.ctr, initProg_ctr b false, reqProg_ctr b, this]

/-- A scope never changes the counters the caller sees (at any depth), as long as leaves leave
`Iterations` alone: loops inside the scope count on counters of their own. Holds for every outcome. -/
theorem scope_profile (s : Script) (f : Nat) (b : Comp)
    (hb : b.sat Act.offCounter (fun _ => true) true = true) (σ : St) :
    profile (exec s f (.scope b) σ).1.reg = profile σ.reg := by
  rw [exec_scope]
  have ib := ctr_sound s f (scopeBody b) false b.hasLoop (push σ) (scopeBody_all _ _ true b hb)
    (scopeBody_ctr b) (by simp [push]) (fun hh => by cases hh)
  have := ib.tail
  simp only [push, profile, List.map_cons, List.tail_cons] at this
  simp only [pop, profile, List.map_tail]
  exact this

/-- Executing a tree with no loop outside its scopes, whose leaves leave `Iterations` alone, does not
change the visible counter. -/
theorem exec_counter_same' (s : Script) (f : Nat) (b : Comp)
    (hb : b.sat Act.offCounter (fun _ => true) true = true) (hl : b.hasLoop = false) (σ : St) :
    (exec s f b σ).1.reg.get? 0 = σ.reg.get? 0 := by
  by_cases hne : σ.reg = []
  · have hlen : (exec s f b σ).1.reg.length = σ.reg.length := by rw [exec_eq]; exact srun_depth s f _ σ
    rw [hne] at hlen ⊢
    have : (exec s f b σ).1.reg = [] := List.eq_nil_of_length_eq_zero (by simpa using hlen)
    rw [this]
  · rw [exec_eq]
    have := ctr_sound s f (execProg b) false false σ (execProg_all _ _ true b hb)
      (execProg_ctr b false (fun x => by rw [hl] at x; cases x)) hne (fun hh => by cases hh)
    exact get0_of_profile _ _ (this.full (execProg_flat b hl))


/-! ### No fault fires between two points of a trace (traces newest first) -/

/-- No scripted fault fires at any event of `tr` recorded after `base`. -/
def Clean (s : Script) (base tr : List Ev) : Prop :=
  ∀ newer e old, tr = newer ++ e :: old → base <:+ old → s.faulty e (old.count e) = false

theorem suffix_cases {a : List Ev} {e : Ev} {b : List Ev} (h : a <:+ e :: b) : a = e :: b ∨ a <:+ b :=
  List.suffix_cons_iff.mp h

theorem clean_refl (s : Script) (t : List Ev) : Clean s t t := by
  intro newer e old h hb
  have h1 := hb.length_le
  have h2 := congrArg List.length h
  simp at h2; omega

theorem clean_cons {s : Script} {base old : List Ev} {e : Ev} (h : Clean s base old)
    (hf : s.faulty e (old.count e) = false) : Clean s base (e :: old) := by
  intro newer e' old' heq hb
  cases newer with
  | nil => simp only [List.nil_append, List.cons.injEq] at heq; obtain ⟨rfl, rfl⟩ := heq; exact hf
  | cons x newer =>
    simp only [List.cons_append, List.cons.injEq] at heq
    exact h newer e' old' heq.2 hb

theorem clean_trans {s : Script} {a b c : List Ev} (h1 : Clean s a b) (h2 : Clean s b c) (hbc : b <:+ c) :
    Clean s a c := by
  intro newer e old heq ha
  have hs : e :: old <:+ c := ⟨newer, heq.symm⟩
  rcases List.suffix_or_suffix_of_suffix hbc hs with h | h
  · rcases suffix_cases h with h | h
    · exact h1 [] e old (by simpa using h) ha
    · exact h2 newer e old heq h
  · obtain ⟨m, hm⟩ := h
    exact h1 m e old hm.symm ha

theorem clean_suffix {s : Script} {base t t' : List Ev} (h : Clean s base t) (ht : t' <:+ t) : Clean s base t' := by
  intro newer e old heq hb
  obtain ⟨m, hm⟩ := ht
  exact h (m ++ newer) e old (by rw [← hm, heq, List.append_assoc]) hb

/-- Two "first fault" positions of one trace coincide. -/
theorem first_fault_unique {s : Script} {base T o1 o2 : List Ev} {e1 e2 : Ev}
    (h1 : e1 :: o1 <:+ T) (h2 : e2 :: o2 <:+ T) (b1 : base <:+ o1) (b2 : base <:+ o2)
    (c1 : Clean s base o1) (c2 : Clean s base o2)
    (f1 : s.faulty e1 (o1.count e1) = true) (f2 : s.faulty e2 (o2.count e2) = true) : e1 = e2 ∧ o1 = o2 := by
  rcases List.suffix_or_suffix_of_suffix h1 h2 with h | h
  · rcases suffix_cases h with h | h
    · injection h with a b; exact ⟨a, b⟩
    · obtain ⟨m, hm⟩ := h
      have := c2 m e1 o1 hm.symm b1
      rw [this] at f1; cases f1
  · rcases suffix_cases h with h | h
    · injection h with a b; exact ⟨a.symm, b.symm⟩
    · obtain ⟨m, hm⟩ := h
      have := c1 m e2 o2 hm.symm b2
      rw [this] at f2; cases f2

/-! ### Single-run invariant: everything before the returned error was fault-free -/

def Res.errEv : Res → Option Ev
  | .err ph id => some (ph, id)
  | _ => none
def CRes.errEv : CRes → Option Ev
  | .err ph id => some (ph, id)
  | _ => none

/-- The run from `σ` ended with trace `tr`; if it returned the error `e` then `e` is the newest event
and no fault fired before it, otherwise no fault fired at all. -/
def Quiet (s : Script) (σ : St) (tr : List Ev) : Option Ev → Prop
  | none => σ.tr <:+ tr ∧ Clean s σ.tr tr
  | some e => ∃ old, tr = e :: old ∧ σ.tr <:+ old ∧ Clean s σ.tr old

theorem quiet_here (s : Script) (σ : St) : Quiet s σ σ.tr none := ⟨List.suffix_refl _, clean_refl s _⟩

/-- Composition: first part ended without error, second part starts where it stopped. -/
theorem quiet_trans {s : Script} {σ σ1 : St} {tr : List Ev} {oe : Option Ev}
    (h1 : Quiet s σ σ1.tr none) (h2 : Quiet s σ1 tr oe) : Quiet s σ tr oe := by
  cases oe with
  | none => exact ⟨h1.1.trans h2.1, clean_trans h1.2 h2.2 h2.1⟩
  | some e =>
    obtain ⟨old, a, b, c⟩ := h2
    exact ⟨old, a, h1.1.trans b, clean_trans h1.2 c b⟩

theorem step_quiet (s : Script) (ev : Ev) (eff : Reg → Option Reg) (σ : St) :
    Quiet s σ (step s ev eff σ).1.tr (step s ev eff σ).2.errEv := by
  simp only [step]
  split
  · exact ⟨σ.tr, rfl, List.suffix_refl _, clean_refl s _⟩
  · rename_i hf
    have hf : s.faulty ev (σ.tr.count ev) = false := by simpa using hf
    split
    · exact ⟨List.suffix_cons _ _, clean_cons (clean_refl s _) hf⟩
    · exact ⟨σ.tr, rfl, List.suffix_refl _, clean_refl s _⟩

theorem evalLeaf_quiet (s : Script) (id : Nat) (σ : St) :
    Quiet s σ (evalLeaf s id σ).1.tr (evalLeaf s id σ).2.errEv := by
  simp only [evalLeaf]
  split
  · exact ⟨σ.tr, rfl, List.suffix_refl _, clean_refl s _⟩
  · rename_i hf
    have hf : s.faulty (Phase.ceval, id) (σ.tr.count (Phase.ceval, id)) = false := by simpa using hf
    exact ⟨List.suffix_cons _ _, clean_cons (clean_refl s _) hf⟩

mutual
  theorem condEval_quiet (s : Script) : ∀ (c : Cond) (σ : St),
      Quiet s σ (condEval s c σ).1.tr (condEval s c σ).2.errEv
    | .leaf id, σ => by simp only [condEval]; exact evalLeaf_quiet s id σ
    | .all cs, σ => by simp only [condEval]; exact evalAll_quiet s cs σ
    | .any cs, σ => by simp only [condEval]; exact evalAny_quiet s cs σ
    | .not c, σ => by
      simp only [condEval]
      have := condEval_quiet s c σ
      cases hx : condEval s c σ with
      | mk σ1 v => rw [hx] at this; cases v <;> exact this
  theorem evalAll_quiet (s : Script) : ∀ (cs : Conds) (σ : St),
      Quiet s σ (evalAll s cs σ).1.tr (evalAll s cs σ).2.errEv
    | .nil, σ => quiet_here s σ
    | .cons c cs, σ => by
      simp only [evalAll]
      have h1 := condEval_quiet s c σ
      cases hx : condEval s c σ with
      | mk σ1 v =>
        rw [hx] at h1
        cases v with
        | err ph id => exact h1
        | val b =>
          simp only
          have h2 := evalAll_quiet s cs σ1
          cases hy : evalAll s cs σ1 with
          | mk σ2 v2 =>
            rw [hy] at h2
            cases v2 <;> exact quiet_trans h1 h2
  theorem evalAny_quiet (s : Script) : ∀ (cs : Conds) (σ : St),
      Quiet s σ (evalAny s cs σ).1.tr (evalAny s cs σ).2.errEv
    | .nil, σ => quiet_here s σ
    | .cons c cs, σ => by
      simp only [evalAny]
      have h1 := condEval_quiet s c σ
      cases hx : condEval s c σ with
      | mk σ1 v =>
        rw [hx] at h1
        cases v with
        | err ph id => exact h1
        | val b =>
          simp only
          have h2 := evalAny_quiet s cs σ1
          cases hy : evalAny s cs σ1 with
          | mk σ2 v2 =>
            rw [hy] at h2
            cases v2 <;> exact quiet_trans h1 h2
end

theorem andThen_quiet {s : Script} {σ : St} {r : St × Res} {k : St → St × Res}
    (h1 : Quiet s σ r.1.tr r.2.errEv) (h2 : ∀ σ1, Quiet s σ1 (k σ1).1.tr (k σ1).2.errEv) :
    Quiet s σ (andThen r k).1.tr (andThen r k).2.errEv := by
  obtain ⟨σ1, x⟩ := r
  cases x <;> simp only [andThen]
  · exact quiet_trans h1 (h2 σ1)
  all_goals exact h1

theorem opRun_quiet (s : Script) (o : Op) (σ : St) : Quiet s σ (opRun s o σ).1.tr (opRun s o σ).2.errEv := by
  cases o with
  | prim ev acts => exact step_quiet s ev _ σ
  | merge id mg => exact step_quiet s _ _ σ
  | counter0 => exact quiet_here s σ
  | bump => simp only [opRun, bump]; split <;> exact quiet_here s σ

theorem whileN_quiet {s : Script} {cond : St → St × CRes} {body : St → St × Res}
    (hc : ∀ σ, Quiet s σ (cond σ).1.tr (cond σ).2.errEv)
    (hb : ∀ σ, Quiet s σ (body σ).1.tr (body σ).2.errEv) :
    ∀ (n : Nat) (σ : St), Quiet s σ (whileN cond body n σ).1.tr (whileN cond body n σ).2.errEv := by
  intro n
  induction n with
  | zero => intro σ; exact quiet_here s σ
  | succ n ih =>
    intro σ
    simp only [whileN]
    have h1 := hc σ
    cases hx : cond σ with
    | mk σ1 v =>
      rw [hx] at h1
      cases v with
      | err ph id => exact h1
      | val b =>
        cases b
        · exact h1
        · exact quiet_trans h1 (andThen_quiet (hb σ1) ih)

theorem srun_quiet (s : Script) (f : Nat) : ∀ (p : Stmt) (σ : St),
    Quiet s σ (srun s f p σ).1.tr (srun s f p σ).2.errEv
  | .skip, σ => quiet_here s σ
  | .atom o, σ => opRun_quiet s o σ
  | .seq a b, σ => by simp only [srun]; exact andThen_quiet (srun_quiet s f a σ) (srun_quiet s f b)
  | .loop c b, σ => by simp only [srun]; exact whileN_quiet (condEval_quiet s c) (srun_quiet s f b) f σ
  | .ite c t e, σ => by
    simp only [srun]
    have h1 := condEval_quiet s c σ
    cases hx : condEval s c σ with
    | mk σ1 v =>
      rw [hx] at h1
      cases v with
      | err ph id => exact h1
      | val b => cases b <;> simp only <;> exact quiet_trans h1 (srun_quiet s f _ σ1)
  | .inScope b, σ => by
    simp only [srun]
    have := srun_quiet s f b (push σ)
    exact this


/-! ### Lock-step with the fault-free script, second version: the divergence is a fired fault -/

/-- `x` stopped with the error `(ph, id)` at an event where a scripted fault fired. -/
def FaultStop (s : Script) (tr : List Ev) (oe : Option Ev) : Prop :=
  ∃ e old, oe = some e ∧ tr = e :: old ∧ s.faulty e (old.count e) = true

/-- Either the two runs are identical, or the first stopped at a fired fault at a point the
second went through. -/
def Sim2 (s : Script) (xtr : List Ev) (xe : Option Ev) (same : Prop) (ytr : List Ev) : Prop :=
  same ∨ (FaultStop s xtr xe ∧ xtr <:+ ytr)

abbrev SimR (s : Script) (x y : St × Res) : Prop := Sim2 s x.1.tr x.2.errEv (x = y) y.1.tr
abbrev SimC (s : Script) (x y : St × CRes) : Prop := Sim2 s x.1.tr x.2.errEv (x = y) y.1.tr

theorem evalLeaf_sim2 (s : Script) (id : Nat) (σ : St) : SimC s (evalLeaf s id σ) (evalLeaf s.noFaults id σ) := by
  simp only [SimC, Sim2, evalLeaf, noFaults_faulty, noFaults_value]
  split
  · rename_i hf
    right; exact ⟨⟨_, σ.tr, rfl, rfl, hf⟩, List.suffix_refl _⟩
  · left; rfl

/-- Propagation: an outer computation that returns the inner error unchanged while the fault-free
side only extends its trace. -/
theorem sim2_keep {s : Script} {xtr ytr ytr' : List Ev} {xe : Option Ev} {P : Prop}
    (h : FaultStop s xtr xe ∧ xtr <:+ ytr) (hy : ytr <:+ ytr') : Sim2 s xtr xe P ytr' :=
  Or.inr ⟨h.1, h.2.trans hy⟩

theorem faultStop_err {s : Script} {tr : List Ev} {oe : Option Ev} (h : FaultStop s tr oe) : ∃ e, oe = some e := by
  obtain ⟨e, _, h, _⟩ := h; exact ⟨e, h⟩

theorem cres_err_of {v : CRes} {e : Ev} (h : v.errEv = some e) : v = .err e.1 e.2 := by
  cases v <;> simp [CRes.errEv] at h; subst h; rfl
theorem res_err_of {v : Res} {e : Ev} (h : v.errEv = some e) : v = .err e.1 e.2 := by
  cases v <;> simp [Res.errEv] at h; subst h; rfl

mutual
  theorem condEval_sim2 (s : Script) : ∀ (c : Cond) (σ : St), SimC s (condEval s c σ) (condEval s.noFaults c σ)
    | .leaf id, σ => by simp only [condEval]; exact evalLeaf_sim2 s id σ
    | .all cs, σ => by simp only [condEval]; exact evalAll_sim2 s cs σ
    | .any cs, σ => by simp only [condEval]; exact evalAny_sim2 s cs σ
    | .not c, σ => by
      simp only [condEval]
      rcases condEval_sim2 s c σ with h | h
      · rw [h]; left; rfl
      · obtain ⟨e, he⟩ := faultStop_err h.1
        cases hx : condEval s c σ with
        | mk σx vx =>
          rw [hx] at h he; simp only at h he
          have := cres_err_of he; subst this
          cases hy : condEval s.noFaults c σ with
          | mk σy vy => rw [hy] at h; cases vy <;> exact Or.inr h
  theorem evalAll_sim2 (s : Script) : ∀ (cs : Conds) (σ : St), SimC s (evalAll s cs σ) (evalAll s.noFaults cs σ)
    | .nil, σ => Or.inl rfl
    | .cons c cs, σ => by
      simp only [evalAll]
      rcases condEval_sim2 s c σ with h | h
      · rw [h]
        cases hy : condEval s.noFaults c σ with
        | mk σ1 v =>
          cases v with
          | err ph id => left; rfl
          | val b =>
            simp only
            rcases evalAll_sim2 s cs σ1 with h2 | h2
            · rw [h2]; left; rfl
            · obtain ⟨e, he⟩ := faultStop_err h2.1
              cases hx : evalAll s cs σ1 with
              | mk σx vx =>
                rw [hx] at h2 he; simp only at h2 he
                have := cres_err_of he; subst this
                cases hy2 : evalAll s.noFaults cs σ1 with
                | mk σy vy => rw [hy2] at h2; cases vy <;> exact Or.inr h2
      · obtain ⟨e, he⟩ := faultStop_err h.1
        cases hx : condEval s c σ with
        | mk σx vx =>
          rw [hx] at h he; simp only at h he
          have := cres_err_of he; subst this
          cases hy : condEval s.noFaults c σ with
          | mk σy vy =>
            rw [hy] at h
            cases vy with
            | err _ _ => exact Or.inr h
            | val b =>
              simp only
              have := evalAll_tr s.noFaults cs σy
              cases hy2 : evalAll s.noFaults cs σy with
              | mk σz vz => rw [hy2] at this; cases vz <;> exact sim2_keep h this
  theorem evalAny_sim2 (s : Script) : ∀ (cs : Conds) (σ : St), SimC s (evalAny s cs σ) (evalAny s.noFaults cs σ)
    | .nil, σ => Or.inl rfl
    | .cons c cs, σ => by
      simp only [evalAny]
      rcases condEval_sim2 s c σ with h | h
      · rw [h]
        cases hy : condEval s.noFaults c σ with
        | mk σ1 v =>
          cases v with
          | err ph id => left; rfl
          | val b =>
            simp only
            rcases evalAny_sim2 s cs σ1 with h2 | h2
            · rw [h2]; left; rfl
            · obtain ⟨e, he⟩ := faultStop_err h2.1
              cases hx : evalAny s cs σ1 with
              | mk σx vx =>
                rw [hx] at h2 he; simp only at h2 he
                have := cres_err_of he; subst this
                cases hy2 : evalAny s.noFaults cs σ1 with
                | mk σy vy => rw [hy2] at h2; cases vy <;> exact Or.inr h2
      · obtain ⟨e, he⟩ := faultStop_err h.1
        cases hx : condEval s c σ with
        | mk σx vx =>
          rw [hx] at h he; simp only at h he
          have := cres_err_of he; subst this
          cases hy : condEval s.noFaults c σ with
          | mk σy vy =>
            rw [hy] at h
            cases vy with
            | err _ _ => exact Or.inr h
            | val b =>
              simp only
              have := evalAny_tr s.noFaults cs σy
              cases hy2 : evalAny s.noFaults cs σy with
              | mk σz vz => rw [hy2] at this; cases vz <;> exact sim2_keep h this
end

theorem sim2_andThen {s : Script} {x y : St × Res} {k k0 : St → St × Res} (h : SimR s x y)
    (hk : ∀ σ, SimR s (k σ) (k0 σ)) (hm : ∀ σ, σ.tr <:+ (k0 σ).1.tr) :
    SimR s (andThen x k) (andThen y k0) := by
  rcases h with h | h
  · subst h
    unfold andThen
    split
    · exact hk _
    · left; rfl
  · obtain ⟨e, he⟩ := faultStop_err h.1
    obtain ⟨σx, rx⟩ := x
    simp only at he h
    have := res_err_of he; subst this
    simp only [andThen]
    obtain ⟨σy, ry⟩ := y
    cases ry <;> simp only <;> first | exact Or.inr h | exact sim2_keep h (hm _)

theorem opRun_sim2 (s : Script) (o : Op) (σ : St) : SimR s (opRun s o σ) (opRun s.noFaults o σ) := by
  cases o with
  | prim ev acts =>
    simp only [SimR, Sim2, opRun, step, noFaults_faulty]
    split
    · rename_i hf
      right
      refine ⟨⟨ev, σ.tr, rfl, rfl, hf⟩, ?_⟩
      simp only [Bool.false_eq_true, if_false]
      split <;> exact List.suffix_refl _
    · left; rfl
  | counter0 => left; rfl
  | bump => left; rfl
  | merge id mg =>
    simp only [SimR, Sim2, opRun, step, noFaults_faulty]
    split
    · rename_i hf
      right
      refine ⟨⟨(Phase.exec, id), σ.tr, rfl, rfl, hf⟩, ?_⟩
      simp only [Bool.false_eq_true, if_false]
      split <;> exact List.suffix_refl _
    · left; rfl

theorem whileN_sim2 {s : Script} {cond cond0 : St → St × CRes} {body body0 : St → St × Res}
    (hc : ∀ σ, SimC s (cond σ) (cond0 σ)) (hb : ∀ σ, SimR s (body σ) (body0 σ))
    (hc0 : ∀ σ, σ.tr <:+ (cond0 σ).1.tr) (hb0 : ∀ σ, σ.tr <:+ (body0 σ).1.tr) :
    ∀ (n : Nat) (σ : St), SimR s (whileN cond body n σ) (whileN cond0 body0 n σ) := by
  intro n
  induction n with
  | zero => intro σ; left; rfl
  | succ n ih =>
    intro σ
    simp only [whileN]
    rcases hc σ with h | h
    · rw [h]
      cases hy : cond0 σ with
      | mk σ1 v =>
        cases v with
        | err ph id => left; rfl
        | val b =>
          cases b
          · left; rfl
          · exact sim2_andThen (hb σ1) ih (whileN_mono hc0 hb0 n)
    · obtain ⟨e, he⟩ := faultStop_err h.1
      cases hx : cond σ with
      | mk σx vx =>
        rw [hx] at h he; simp only at h he
        have := cres_err_of he; subst this
        simp only
        cases hy : cond0 σ with
        | mk σy vy =>
          rw [hy] at h
          cases vy with
          | err _ _ => exact Or.inr h
          | val b =>
            cases b
            · exact Or.inr h
            · simp only
              have h1 : σy.tr <:+ (andThen (body0 σy) (whileN cond0 body0 n)).1.tr :=
                andThen_pres (P := fun σ σ' => σ.tr <:+ σ'.tr) (fun _ _ _ h1 h2 => h1.trans h2)
                  (hb0 σy) (whileN_mono hc0 hb0 n)
              exact sim2_keep h h1

theorem srun_sim2 (s : Script) (f : Nat) : ∀ (p : Stmt) (σ : St),
    SimR s (srun s f p σ) (srun s.noFaults f p σ)
  | .skip, σ => Or.inl rfl
  | .atom o, σ => by simp only [srun]; exact opRun_sim2 s o σ
  | .seq a b, σ => by
    simp only [srun]
    exact sim2_andThen (srun_sim2 s f a σ) (srun_sim2 s f b) (srun_trace s.noFaults f b)
  | .loop c b, σ => by
    simp only [srun]
    exact whileN_sim2 (condEval_sim2 s c) (srun_sim2 s f b) (condEval_tr s.noFaults c)
      (srun_trace s.noFaults f b) f σ
  | .ite c t e, σ => by
    simp only [srun]
    rcases condEval_sim2 s c σ with h | h
    · rw [h]
      cases hy : condEval s.noFaults c σ with
      | mk σ1 v =>
        cases v with
        | err ph id => left; rfl
        | val b =>
          cases b
          · exact srun_sim2 s f e σ1
          · exact srun_sim2 s f t σ1
    · obtain ⟨ev, he⟩ := faultStop_err h.1
      cases hx : condEval s c σ with
      | mk σx vx =>
        rw [hx] at h he; simp only at h he
        have := cres_err_of he; subst this
        simp only
        cases hy : condEval s.noFaults c σ with
        | mk σy vy =>
          rw [hy] at h
          cases vy with
          | err _ _ => exact Or.inr h
          | val b =>
            cases b <;> simp only
            · exact sim2_keep h (srun_trace s.noFaults f e σy)
            · exact sim2_keep h (srun_trace s.noFaults f t σy)
  | .inScope b, σ => by
    simp only [srun]
    rcases srun_sim2 s f b (push σ) with h | h
    · rw [h]; left; rfl
    · exact Or.inr h


theorem clean_iff_quiet (s : Script) (b t : List Ev) : Clean s b t ↔ s.quietAfter b.reverse t.reverse := by
  constructor
  · intro h pre e post heq hb
    have ht : t = post.reverse ++ e :: pre.reverse := by
      have := congrArg List.reverse heq
      simpa using this
    have hb' : b <:+ pre.reverse := by
      have := List.reverse_suffix.mpr hb
      simpa using this
    have := h post.reverse e pre.reverse ht hb'
    simpa using this
  · intro h newer e old heq hb
    have ht : t.reverse = old.reverse ++ e :: newer.reverse := by rw [heq]; simp
    have hb' : b.reverse <+: old.reverse := List.reverse_prefix.mpr hb
    have := h old.reverse e newer.reverse ht hb'
    simpa using this

/-- The complete account of scripted faults, on the structured program (traces newest first). -/
theorem srun_fault_returned (s : Script) (f : Nat) (p : Stmt) (σ : St) :
    (∀ newer e old, (srun s.noFaults f p σ).1.tr = newer ++ e :: old → σ.tr <:+ old → Clean s σ.tr old →
        s.faulty e (old.count e) = true →
        (srun s f p σ).2 = .err e.1 e.2 ∧ (srun s f p σ).1.tr = e :: old) ∧
    (Clean s σ.tr (srun s.noFaults f p σ).1.tr → srun s f p σ = srun s.noFaults f p σ) := by
  have hS := srun_sim2 s f p σ
  have hQ := srun_quiet s f p σ
  generalize srun s f p σ = x at hS hQ
  generalize srun s.noFaults f p σ = y at hS
  constructor
  · intro newer e old hy hb hc hf
    have hsuf : e :: old <:+ y.1.tr := ⟨newer, hy.symm⟩
    rcases hS with h | ⟨⟨e', old', he', htr', hf'⟩, hxy⟩
    · subst h
      cases hxe : x.2.errEv with
      | none =>
        rw [hxe] at hQ
        have := hQ.2 newer e old hy hb
        rw [this] at hf; cases hf
      | some e' =>
        rw [hxe] at hQ
        obtain ⟨old', htr', hb', hc'⟩ := hQ
        by_cases hf' : s.faulty e' (old'.count e') = true
        · obtain ⟨rfl, rfl⟩ := first_fault_unique hsuf (by rw [htr']; exact List.suffix_refl _) hb hb' hc hc' hf hf'
          exact ⟨res_err_of hxe, htr'⟩
        · have hcl : Clean s σ.tr x.1.tr := by
            rw [htr']; exact clean_cons hc' (by simpa using hf')
          have := hcl newer e old hy hb
          rw [this] at hf; cases hf
    · rw [he'] at hQ
      obtain ⟨old'', htr'', hb', hc'⟩ := hQ
      have : old'' = old' := by rw [htr'] at htr''; injection htr'' with _ h; exact h.symm
      subst this
      obtain ⟨rfl, rfl⟩ := first_fault_unique hsuf (by rw [← htr']; exact hxy) hb hb' hc hc' hf hf'
      exact ⟨res_err_of he', htr'⟩
  · intro hcl
    rcases hS with h | ⟨⟨e', old', he', htr', hf'⟩, hxy⟩
    · exact h
    · rw [he'] at hQ
      obtain ⟨old'', htr'', hb', _⟩ := hQ
      have : old'' = old' := by rw [htr'] at htr''; injection htr'' with _ h; exact h.symm
      subst this
      obtain ⟨m, hm⟩ := hxy
      have := hcl m e' old'' (by rw [← hm, htr']) hb'
      rw [this] at hf'; cases hf'


/-! ### Per-key frame rules -/

/-- Not an `insert` of `k`. -/
def Act.noInsOf (k : Nat) (a : Act) : Bool := !(a.isIns && a.key == k)
/-- Neither `insert`, `set_value` nor `remove` of `k` (requirements are fine). -/
def Act.leaves (k : Nat) (a : Act) : Bool := !((a.isIns || a.isWrite) && a.key == k)

theorem Scope.has_put (m : Scope) (k v k' : Nat) : (m.put k v).has k' = (k == k' || m.has k') := by
  rw [Scope.has_iff_get, Scope.has_iff_get, Scope.get_put]
  by_cases h : k = k' <;> simp [h]

theorem Scope.has_erase (m : Scope) (k k' : Nat) : (m.erase k).has k' = (k != k' && m.has k') := by
  rw [Scope.has_iff_get, Scope.has_iff_get, Scope.get_erase]
  by_cases h : k = k' <;> simp [h]

/-- The innermost scope has no `k`. -/
def HeadLacks (k : Nat) (b : Reg) : Prop := ∀ m t, b = m :: t → m.has k = false

theorem stable_headLacks (k : Nat) : Stable (HeadLacks k) (Act.noInsOf k) true (k != 0) where
  setv ph k' v b _ hq := by
    intro m t h
    cases b with
    | nil => simp [Reg.setv] at h
    | cons m0 t0 =>
      have h0 := hq m0 t0 rfl
      simp only [Reg.setv] at h
      split at h
      · rename_i hk'
        injection h with h1 _; subst h1
        rw [Scope.has_put]
        have : k' ≠ k := by intro e; subst e; rw [h0] at hk'; cases hk'
        simp [this, h0]
      · injection h with h1 _; subst h1; exact h0
  remove ph k' b _ hq := by
    intro m t h
    cases b with
    | nil => simp [Reg.remove] at h
    | cons m0 t0 =>
      have h0 := hq m0 t0 rfl
      simp only [Reg.remove] at h
      split at h
      · injection h with h1 _; subst h1; rw [Scope.has_erase]; simp [h0]
      · injection h with h1 _; subst h1; exact h0
  incr _ b b' hi hq := by
    intro m t h
    cases b with
    | nil => simp [Reg.incr] at hi
    | cons m0 t0 =>
      have h0 := hq m0 t0 rfl
      simp only [Reg.incr] at hi
      split at hi
      · rename_i v hv
        injection hi with hi; rw [← hi] at h; injection h with h1 _; subst h1
        rw [Scope.has_put]
        have : 0 ≠ k := by
          intro e; subst e
          rw [Scope.has_iff_get, hv] at h0; cases h0
        simp [this, h0]
      · split at hi
        · injection hi with hi; rw [← hi] at h; injection h with h1 _; subst h1; exact h0
        · cases hi
  insert _ ph k' v b ha hq := by
    intro m t h
    cases b with
    | nil => simp [Reg.insert] at h
    | cons m0 t0 =>
      have h0 := hq m0 t0 rfl
      simp only [Reg.insert] at h
      injection h with h1 _; subst h1
      rw [Scope.has_put]
      have : k' ≠ k := by simpa [Act.noInsOf, Act.isIns, Act.key] using ha
      simp [this, h0]
  ctr0 _ hL b hq := by
    intro m t h
    cases b with
    | nil => simp [Reg.insert] at h
    | cons m0 t0 =>
      have h0 := hq m0 t0 rfl
      simp only [Reg.insert] at h
      injection h with h1 _; subst h1
      rw [Scope.has_put]
      have : 0 ≠ k := by intro e; subst e; simp at hL
      simp [this, h0]

theorem stable_lookup (k : Nat) (x : Option Nat) : Stable (fun b => b.get? k = x) (Act.leaves k) true (k != 0) where
  setv ph k' v b ha hq := by
    have h : k' ≠ k := by simpa [Act.leaves, Act.isIns, Act.isWrite, Act.key] using ha
    rw [Reg.get_setv_ne _ _ _ _ h]; exact hq
  remove ph k' b ha hq := by
    have h : k' ≠ k := by simpa [Act.leaves, Act.isIns, Act.isWrite, Act.key] using ha
    rw [Reg.get_remove_ne _ _ _ h]; exact hq
  incr hL b b' hi hq := by
    have hk : k ≠ 0 := by simpa using hL
    rw [Reg.get_incr _ _ k hi]; simp [hk, hq]
  insert _ ph k' v b ha hq := by
    have h : k' ≠ k := by simpa [Act.leaves, Act.isIns, Act.isWrite, Act.key] using ha
    by_cases hb : b = []
    · subst hb; exact hq
    · rw [Reg.get_insert _ _ _ _ hb]; simp [h, hq]
  ctr0 _ hL b hq := by
    have hk : 0 ≠ k := by intro e; subst e; simp at hL
    by_cases hb : b = []
    · subst hb; exact hq
    · rw [Reg.get_insert _ _ _ _ hb]; simp [hk, hq]

/-- The innermost scope has `k`, and below it `k` resolves to `x`. -/
def Shadowed (k : Nat) (x : Option Nat) (b : Reg) : Prop := ∃ m t, b = m :: t ∧ m.has k = true ∧ Reg.get? t k = x

theorem stable_shadowed (k : Nat) (x : Option Nat) : Stable (Shadowed k x) (Act.keeps k) true true where
  setv ph k' v b _ hq := by
    obtain ⟨m, t, rfl, hm, ht⟩ := hq
    simp only [Reg.setv]
    split
    · exact ⟨_, t, rfl, by rw [Scope.has_put]; simp [hm], ht⟩
    · rename_i hk'
      have : k' ≠ k := by intro e; subst e; exact hk' hm
      exact ⟨m, _, rfl, hm, by rw [Reg.get_setv_ne _ _ _ _ this]; exact ht⟩
  remove ph k' b ha hq := by
    obtain ⟨m, t, rfl, hm, ht⟩ := hq
    have hne : k' ≠ k := by simpa [Act.keeps, Act.isRem, Act.key] using ha
    simp only [Reg.remove]
    split
    · exact ⟨_, t, rfl, by rw [Scope.has_erase]; simp [hm, hne], ht⟩
    · exact ⟨m, _, rfl, hm, by rw [Reg.get_remove_ne _ _ _ hne]; exact ht⟩
  incr _ b b' hi hq := by
    obtain ⟨m, t, rfl, hm, ht⟩ := hq
    simp only [Reg.incr] at hi
    split at hi
    · injection hi with hi; subst hi
      exact ⟨_, t, rfl, by rw [Scope.has_put]; simp [hm], ht⟩
    · rename_i hnone
      split at hi
      · rename_i r' hr'
        injection hi with hi; subst hi
        have hk : k ≠ 0 := by
          intro e; subst e; rw [Scope.has_iff_get, hnone] at hm; cases hm
        exact ⟨m, r', rfl, hm, by rw [Reg.get_incr _ _ k hr']; simp [hk, ht]⟩
      · cases hi
  insert _ ph k' v b _ hq := by
    obtain ⟨m, t, rfl, hm, ht⟩ := hq
    exact ⟨_, t, rfl, by rw [Scope.has_put]; simp [hm], ht⟩
  ctr0 _ _ b hq := by
    obtain ⟨m, t, rfl, hm, ht⟩ := hq
    exact ⟨_, t, rfl, by rw [Scope.has_put]; simp [hm], ht⟩

/-- Whatever the body of a scope does, a state type it never inserts (at any level) is seen by the
caller afterwards exactly as the body saw it at its end. -/
theorem scope_exports (s : Script) (f : Nat) (b : Comp) (k : Nat)
    (hb : b.sat (Act.noInsOf k) (fun _ => true) (k != 0) = true) (σ : St) :
    (exec s f (.scope b) σ).1.reg.get? k = (srun s f (scopeBody b) (push σ)).1.reg.get? k := by
  rw [exec_scope]
  have hq := srun_frame_top s f (stable_headLacks k) (scopeBody b) (scopeBody_all _ _ _ b hb) (push σ)
    (by intro m t h; simp only [push] at h; injection h with h1 _; subst h1; rfl)
  have hlen := srun_depth s f (scopeBody b) (push σ)
  cases hr : (srun s f (scopeBody b) (push σ)).1.reg with
  | nil => rw [hr] at hlen; simp [push] at hlen
  | cons m t =>
    have hm := hq m t hr
    simp only [pop, hr, List.tail_cons, Reg.get?, hm]
    simp

/-- Once the body's `init` has put a `k` into the child scope and no leaf removes `k`, the caller's
`k` is out of reach: whatever is set afterwards, the caller finds what `init` left outside. -/
theorem scope_shadow (s : Script) (f : Nat) (b : Comp) (k : Nat)
    (hb : b.sat (Act.keeps k) (fun _ => true) true = true) (σ σ1 : St) (m : Scope) (t : Reg)
    (hi : initC s b (push σ) = (σ1, .ok)) (hr : σ1.reg = m :: t) (hm : m.has k = true) :
    (exec s f (.scope b) σ).1.reg.get? k = Reg.get? t k := by
  rw [exec_scope]
  have hsplit : srun s f (scopeBody b) (push σ) = srun s f (.seq (reqProg b) (execProg b)) σ1 := by
    show andThen (srun s f (initProg b) (push σ)) (srun s f (.seq (reqProg b) (execProg b))) = _
    rw [← initC_eq s f b, hi]; rfl
  rw [hsplit]
  have hall : (Stmt.seq (reqProg b) (execProg b)).all (Op.sat (Act.keeps k) true) (fun _ => true) = true := by
    simp [Stmt.all, reqProg_all _ _ _ b hb, execProg_all _ _ _ b hb]
  have hq := srun_frame_top s f (stable_shadowed k (Reg.get? t k)) _ hall σ1 ⟨m, t, hr, hm, rfl⟩
  obtain ⟨m', t', hr', _, ht'⟩ := hq
  simp only [pop, hr', List.tail_cons]
  exact ht'


/-! ### Hooked scopes (`Scope::new_with`) -/

/-- What runs inside the child state of a hooked scope before the merge: `state_init`, then the
body's lifecycle. -/
def hookBody (id : Nat) (si : List Act) (b : Comp) : Stmt :=
  .seq (.atom (.prim (.init, id) si)) (scopeBody b)

theorem exec_scopeW (s : Script) (f : Nat) (id : Nat) (si : List Act) (mg : List (Nat × Nat)) (b : Comp) (σ : St) :
    exec s f (.scopeW id si mg b) σ =
      closeMerge s id mg (andThen (step s (.init, id) (leafEff .init si) (push σ)) (run s f b)) := by
  simp only [exec]; rfl

theorem exec_scopeW_srun (s : Script) (f : Nat) (id : Nat) (si : List Act) (mg : List (Nat × Nat)) (b : Comp) (σ : St) :
    exec s f (.scopeW id si mg b) σ = closeMerge s id mg (srun s f (hookBody id si b) (push σ)) := by
  rw [exec_scopeW]
  simp only [hookBody, srun, opRun, effOf]
  congr 1
  exact andThen_congr (fun σ0 => run_eq_scopeBody s f b σ0)

theorem hookBody_all (A : Act → Bool) (C : Cond → Bool) (L : Bool) (id : Nat) (si : List Act) (b : Comp)
    (hs : si.all A = true) (h : b.sat A C L = true) : (hookBody id si b).all (Op.sat A L) C = true := by
  have := scopeBody_all A C L b h
  simp [hookBody, Stmt.all, Op.sat, hs, this]

/-- While a program runs in a fresh child scope, a property of the caller's scopes that is stable
under set/remove/increment survives: the child run ends with the child's map on top of a caller
registry that still satisfies it. -/
theorem child_frame (s : Script) (f : Nat) {Q : Reg → Prop} {A : Act → Bool} {L : Bool} (hst : Stable Q A false L)
    (p : Stmt) (hp : p.all (Op.sat A L) (fun _ => true) = true) (σ : St) (hq : Q σ.reg) :
    ∃ m t, (srun s f p (push σ)).1.reg = m :: t ∧ t.length = σ.reg.length ∧ Q t := by
  have h := srun_pres (inv_frame s hst (n := σ.reg.length) (lo := σ.reg.length + 1) (by omega) (fun _ => by omega))
    f p hp (push σ)
  obtain ⟨h1, h2⟩ := h
  simp only [push, List.length_cons] at h1 h2
  have hne : (srun s f p (push σ)).1.reg ≠ [] := by
    intro h0; simp only [push] at h0; rw [h0] at h1; simp at h1
  obtain ⟨m, t, hmt⟩ := List.exists_cons_of_ne_nil hne
  simp only [push] at hmt
  rw [hmt] at h1 h2
  simp only [List.length_cons] at h1
  have ht : t.length = σ.reg.length := by omega
  have := h2 (by omega) (by rw [Reg.below_cons _ _ _ (by omega), Reg.below_self]; exact hq)
  rw [Reg.below_cons _ _ _ (by omega), ← ht, Reg.below_self] at this
  exact ⟨m, t, by simpa [push] using hmt, ht, this⟩

/-- The registry `closeMerge` leaves: the restored caller registry, with the exports applied iff the
closure succeeded and the merge hook did not fail. -/
theorem closeMerge_reg (s : Script) (id : Nat) (mg : List (Nat × Nat)) (m : Scope) (t : Reg) (tr : List Ev) (r : Res) :
    (closeMerge s id mg (⟨m :: t, tr⟩, r)).1.reg = t ∨
    (r = .ok ∧ (closeMerge s id mg (⟨m :: t, tr⟩, r)).2 = .ok ∧
      (closeMerge s id mg (⟨m :: t, tr⟩, r)).1.reg = exportKeys m mg t) := by
  cases r with
  | ok =>
    simp only [closeMerge, pop, List.tail_cons, List.headD_cons]
    rcases step_cases s (Phase.exec, id) (fun p => some (exportKeys m mg p)) ⟨t, tr⟩ with h | ⟨r', hr', h⟩ <;> rw [h]
    · left; rfl
    · right; injection hr' with hr'; subst hr'; simp
  | _ => left; rfl

theorem exportKeys_pres {Q : Reg → Prop} (m : Scope) (mg : List (Nat × Nat))
    (hQ : ∀ b v p, b ∈ mg.map (·.2) → Q p → Q (p.insert b v)) : ∀ p, Q p → Q (exportKeys m mg p) := by
  unfold exportKeys
  induction mg with
  | nil => intro p h; exact h
  | cons ab mg ih =>
    intro p hp
    simp only [List.foldl_cons]
    have ih' := ih (fun b v p hb => hQ b v p (by simp only [List.map_cons, List.mem_cons]; exact Or.inr hb))
    cases hm : m.get? ab.1 with
    | none => exact ih' p hp
    | some v => exact ih' _ (hQ ab.2 v p (by simp) hp)

/-- `scope_frame` for a hooked scope: a property of the caller's scopes that is stable under what
`state_init` and the body's leaves do, and under inserting the keys the merge hook exports, holds
after the scope — whatever the outcome. -/
theorem scopeW_frame (s : Script) (f : Nat) {Q : Reg → Prop} {A : Act → Bool} {L : Bool} (hst : Stable Q A false L)
    (id : Nat) (si : List Act) (mg : List (Nat × Nat)) (b : Comp)
    (hs : si.all A = true) (hb : b.sat A (fun _ => true) L = true)
    (hQ : ∀ k v p, k ∈ mg.map (·.2) → Q p → Q (p.insert k v)) (σ : St) (hq : Q σ.reg) :
    Q (exec s f (.scopeW id si mg b) σ).1.reg := by
  rw [exec_scopeW_srun]
  obtain ⟨m, t, hmt, _, hqt⟩ := child_frame s f hst (hookBody id si b) (hookBody_all A _ L id si b hs hb) σ hq
  cases hx : srun s f (hookBody id si b) (push σ) with
  | mk σ2 r =>
    rw [hx] at hmt; simp only at hmt
    obtain ⟨reg, tr⟩ := σ2
    simp only at hmt; subst hmt
    rcases closeMerge_reg s id mg m t tr r with h | ⟨_, _, h⟩ <;> rw [h]
    · exact hqt
    · exact exportKeys_pres m mg hQ t hqt

/-- What the caller finds under key `k` after the exports `mg` of a merge whose child map is `m`,
if it found `d` before: the value of the last export into `k` whose source the child holds. -/
def exportedValue (m : Scope) (mg : List (Nat × Nat)) (k : Nat) (d : Option Nat) : Option Nat :=
  mg.foldl (fun d ab => if ab.2 = k then (match m.get? ab.1 with | some v => some v | none => d) else d) d

theorem exportKeys_get (m : Scope) (mg : List (Nat × Nat)) (k : Nat) :
    ∀ (p : Reg), p ≠ [] → (exportKeys m mg p).get? k = exportedValue m mg k (p.get? k) := by
  unfold exportKeys exportedValue
  induction mg with
  | nil => intro p _; rfl
  | cons ab mg ih =>
    intro p hp
    simp only [List.foldl_cons]
    cases hm : m.get? ab.1 with
    | none => simp only [ih p hp]; split <;> rfl
    | some v =>
      have hne : p.insert ab.2 v ≠ [] := ne_nil_of_len (Reg.length_insert p ab.2 v) hp
      rw [ih _ hne, Reg.get_insert _ _ _ _ hp]

theorem exportedValue_of_not_target (m : Scope) (mg : List (Nat × Nat)) (k : Nat) (d : Option Nat)
    (h : k ∉ mg.map (·.2)) : exportedValue m mg k d = d := by
  unfold exportedValue
  induction mg generalizing d with
  | nil => rfl
  | cons ab mg ih =>
    simp only [List.map_cons, List.mem_cons, not_or] at h
    simp only [List.foldl_cons]
    have : ab.2 ≠ k := fun e => h.1 e.symm
    simp only [this, if_false]
    exact ih d h.2

mutual
  theorem initProg_flat : ∀ (b : Comp), b.hasLoop = false → (initProg b).flat = true
    | .leaf _ _, _ => rfl
    | .block cs, h => by simp only [initProg]; exact initProgs_flat cs (by simpa [Comp.hasLoop] using h)
    | .loop c b, h => by simp [Comp.hasLoop] at h
    | .branch c t e he, h => by
      simp only [Comp.hasLoop, Bool.or_eq_false_iff, Bool.and_eq_false_iff] at h
      cases he
      · simp [initProg, Stmt.flat, condProg_flat, initProg_flat t h.1]
      · have he' : e.hasLoop = false := by rcases h.2 with h2 | h2 <;> simp_all
        simp [initProg, Stmt.flat, condProg_flat, initProg_flat t h.1, initProg_flat e he']
    | .scope b, _ => rfl
    | .scopeW _ _ _ _, _ => rfl
  theorem initProgs_flat : ∀ (cs : Comps), cs.hasLoop = false → (initProgs cs).flat = true
    | .nil, _ => rfl
    | .cons c cs, h => by
      simp only [Comps.hasLoop, Bool.or_eq_false_iff] at h
      simp [initProgs, Stmt.flat, initProg_flat c h.1, initProgs_flat cs h.2]
end

/-- Initialising a tree with no loop outside its scopes, whose leaves leave `Iterations` alone, does
not change the visible counter. -/
theorem initC_counter_same (s : Script) (b : Comp)
    (hb : b.sat Act.offCounter (fun _ => true) true = true) (hl : b.hasLoop = false) (σ : St) :
    (initC s b σ).1.reg.get? 0 = σ.reg.get? 0 := by
  by_cases hne : σ.reg = []
  · have hlen : (initC s b σ).1.reg.length = σ.reg.length := by rw [initC_eq s 0]; exact srun_depth s 0 _ σ
    rw [hne] at hlen ⊢
    have : (initC s b σ).1.reg = [] := List.eq_nil_of_length_eq_zero (by simpa using hlen)
    rw [this]
  · rw [initC_eq s 0]
    have := ctr_sound s 0 (initProg b) false (false || b.hasLoop) σ (initProg_all _ _ true b hb)
      (initProg_ctr b false) hne (fun hh => by cases hh)
    exact get0_of_profile _ _ (this.full (initProg_flat b hl))

/-! ### Scope by scope: which of the caller's scopes hold a key -/

/-- Scope by scope (innermost first): wherever `L` says `true`, the scope has `k`. -/
def HasAt (k : Nat) : List Bool → Reg → Prop
  | [], _ => True
  | _ :: _, [] => True
  | l :: L, m :: r => (l = true → m.has k = true) ∧ HasAt k L r

theorem hasAt_self (k : Nat) : ∀ (r : Reg), HasAt k (r.map (fun m => m.has k)) r
  | [] => trivial
  | _ :: r => ⟨fun h => h, hasAt_self k r⟩

theorem HasAt.get {k : Nat} : ∀ {L : List Bool} {r : Reg}, HasAt k L r → L.length = r.length →
    ∀ i (h1 : i < L.length) (h2 : i < r.length), L[i] = true → (r[i]).has k = true
  | [], [], _, _, i, h1, _, _ => by simp at h1
  | l :: L, m :: r, h, hl, 0, _, _, ht => h.1 (by simpa using ht)
  | l :: L, m :: r, h, hl, i + 1, h1, h2, ht => by
    have := HasAt.get h.2 (by simpa using hl) i (by simpa using h1) (by simpa using h2) (by simpa using ht)
    simpa using this

theorem stable_hasAt (k : Nat) (L : List Bool) (Lp : Bool) : Stable (HasAt k L) (Act.keeps k) true Lp where
  setv ph k' v b _ hq := by
    induction b generalizing L with
    | nil => exact hq
    | cons m r ih =>
      cases L with
      | nil => trivial
      | cons l L =>
        simp only [Reg.setv]
        split
        · exact ⟨fun hl => by rw [Scope.has_put]; simp [hq.1 hl], hq.2⟩
        · exact ⟨hq.1, ih L hq.2⟩
  remove ph k' b ha hq := by
    have hne : k' ≠ k := by simpa [Act.keeps, Act.isRem, Act.key] using ha
    induction b generalizing L with
    | nil => exact hq
    | cons m r ih =>
      cases L with
      | nil => trivial
      | cons l L =>
        simp only [Reg.remove]
        split
        · exact ⟨fun hl => by rw [Scope.has_erase]; simp [hq.1 hl, hne], hq.2⟩
        · exact ⟨hq.1, ih L hq.2⟩
  incr _ b b' hi hq := by
    induction b generalizing L b' with
    | nil => simp [Reg.incr] at hi
    | cons m r ih =>
      cases L with
      | nil => cases b' <;> trivial
      | cons l L =>
        simp only [Reg.incr] at hi
        split at hi
        · injection hi with hi; subst hi
          exact ⟨fun hl => by rw [Scope.has_put]; simp [hq.1 hl], hq.2⟩
        · split at hi
          · rename_i r' hr'
            injection hi with hi; subst hi
            exact ⟨hq.1, ih L r' hr' hq.2⟩
          · cases hi
  insert _ ph k' v b _ hq := by
    cases b with
    | nil => exact hq
    | cons m r =>
      cases L with
      | nil => trivial
      | cons l L => exact ⟨fun hl => by rw [Scope.has_put]; simp [hq.1 hl], hq.2⟩
  ctr0 _ _ b hq := by
    cases b with
    | nil => exact hq
    | cons m r =>
      cases L with
      | nil => trivial
      | cons l L => exact ⟨fun hl => by rw [Scope.has_put]; simp [hq.1 hl], hq.2⟩

/-! ### A concrete tree, script and state for the non-vacuity examples in `Props/C03.lean` -/

/-- `{ leaf1: insert K1 = 5 ; while c101 { leaf2: set K2 := 9 } }`. -/
def exBody : Comp :=
  .block (.cons (.leaf 1 [.ins .exec 1 5]) (.cons (.loop (.leaf 101) (.leaf 2 [.set .exec 2 9])) .nil))
/-- A hooked scope: `state_init` inserts K3 = 5, the merge hook exports K3 as K2, then K1 as K1. -/
def exHook : Comp := .scopeW 900 [.ins .init 3 5] [(3, 2), (1, 1)] (.leaf 1 [.ins .exec 1 7, .set .exec 3 6])
def exScript : Script := { conds := [(101, false, [true, true])], fails := [] }
def exState : St := { reg := [[(1, 100), (2, 200)]], tr := [] }

end MahfModel.Config
