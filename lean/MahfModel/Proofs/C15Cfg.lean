/- Helper lemmas for C15, configuration export: type names are injective, the serialisation with full
type names in the leaves is injective, the code's serialisation is injective up to `PhantomData` fields. -/
import MahfModel.Model.LogC15Cfg
import MahfModel.Proofs.C15
namespace MahfModel.Log

/-- What can follow a path: nothing, or a delimiter. -/
def Follow (r : List Char) : Prop := r = [] ∨ ∃ c rest, r = c :: rest ∧ isDelim c = true
/-- What can follow a complete type name: nothing, `,` or `>`. -/
def Follow2 (r : List Char) : Prop := r = [] ∨ ∃ rest, r = ',' :: rest ∨ r = '>' :: rest

theorem Follow2.follow {r : List Char} (h : Follow2 r) : Follow r := by
  rcases h with h | ⟨rest, h | h⟩
  · exact Or.inl h
  · exact Or.inr ⟨',', rest, h, by decide⟩
  · exact Or.inr ⟨'>', rest, h, by decide⟩

theorem Follow2.not_lt {r : List Char} (h : Follow2 r) (x : List Char) : r ≠ '<' :: x := by
  rcases h with h | ⟨rest, h | h⟩ <;> subst h <;> simp

/-- A path is the maximal delimiter-free prefix. -/
theorem span_unique (p p' s s' : List Char) (hp : p.all (fun c => !isDelim c) = true)
    (hp' : p'.all (fun c => !isDelim c) = true) (hs : Follow s) (hs' : Follow s')
    (h : p ++ s = p' ++ s') : p = p' ∧ s = s' := by
  induction p generalizing p' with
  | nil =>
    cases p' with
    | nil => exact ⟨rfl, by simpa using h⟩
    | cons c q =>
      exfalso
      simp only [List.nil_append, List.cons_append] at h
      simp only [List.all_cons, Bool.and_eq_true, Bool.not_eq_true'] at hp'
      rcases hs with hs | ⟨d, rest, hs, hd⟩
      · subst hs; cases h
      · subst hs
        simp only [List.cons.injEq] at h
        rw [h.1] at hd
        rw [hd] at hp'
        exact Bool.noConfusion hp'.1
  | cons c q ih =>
    cases p' with
    | nil =>
      exfalso
      simp only [List.nil_append, List.cons_append] at h
      simp only [List.all_cons, Bool.and_eq_true, Bool.not_eq_true'] at hp
      rcases hs' with hs' | ⟨d, rest, hs', hd⟩
      · subst hs'; cases h
      · subst hs'
        simp only [List.cons.injEq] at h
        rw [← h.1] at hd
        rw [hd] at hp
        exact Bool.noConfusion hp.1
    | cons c' q' =>
      simp only [List.cons_append, List.cons.injEq] at h
      simp only [List.all_cons, Bool.and_eq_true] at hp hp'
      obtain ⟨h1, h2⟩ := ih q' hp.2 hp'.2 h.2
      exact ⟨by rw [h.1, h1], h2⟩

theorem Seg.ext {a b : Seg} (h : a.chars = b.chars) : a = b := by
  cases a; cases b; simp_all

theorem renderRest_follow2 (ts : Tys) (r : List Char) : Follow2 (ts.renderRest ++ r) := by
  cases ts with
  | nil => exact Or.inr ⟨r, Or.inr (by simp [Tys.renderRest])⟩
  | cons t ts => exact Or.inr ⟨_, Or.inl (by simp only [Tys.renderRest, List.cons_append]; rfl)⟩

mutual
  /-- Type names are uniquely readable: a rendered name followed by nothing, `,` or `>` determines
  the type and the rest. -/
  theorem ty_prefix : ∀ (t t' : Ty) (r r' : List Char), Follow2 r → Follow2 r' →
      t.render ++ r = t'.render ++ r' → t = t' ∧ r = r'
    | .mk p .nil, .mk p' .nil, r, r', hr, hr', h => by
      simp only [Ty.render] at h
      obtain ⟨h1, h2⟩ := span_unique _ _ _ _ p.ok p'.ok hr.follow hr'.follow h
      exact ⟨by rw [Seg.ext h1], h2⟩
    | .mk p .nil, .mk p' (.cons t' ts'), r, r', hr, hr', h => by
      exfalso
      simp only [Ty.render, List.append_assoc, List.cons_append] at h
      obtain ⟨_, h2⟩ := span_unique _ _ _ _ p.ok p'.ok hr.follow (Or.inr ⟨'<', _, rfl, by decide⟩) h
      exact hr.not_lt _ h2
    | .mk p (.cons t ts), .mk p' .nil, r, r', hr, hr', h => by
      exfalso
      simp only [Ty.render, List.append_assoc, List.cons_append] at h
      obtain ⟨_, h2⟩ := span_unique _ _ _ _ p.ok p'.ok (Or.inr ⟨'<', _, rfl, by decide⟩) hr'.follow h
      exact hr'.not_lt _ h2.symm
    | .mk p (.cons t ts), .mk p' (.cons t' ts'), r, r', hr, hr', h => by
      simp only [Ty.render, List.append_assoc, List.cons_append] at h
      obtain ⟨h1, h2⟩ := span_unique _ _ _ _ p.ok p'.ok (Or.inr ⟨'<', _, rfl, by decide⟩)
        (Or.inr ⟨'<', _, rfl, by decide⟩) h
      simp only [List.cons.injEq, true_and] at h2
      obtain ⟨ht, hrest⟩ := ty_prefix t t' _ _ (renderRest_follow2 ts r) (renderRest_follow2 ts' r') h2
      obtain ⟨hts, hr2⟩ := tys_prefix ts ts' r r' hrest
      exact ⟨by rw [Seg.ext h1, ht, hts], hr2⟩
  theorem tys_prefix : ∀ (ts ts' : Tys) (r r' : List Char),
      ts.renderRest ++ r = ts'.renderRest ++ r' → ts = ts' ∧ r = r'
    | .nil, .nil, r, r', h => by simpa [Tys.renderRest] using h
    | .nil, .cons t' ts', r, r', h => by simp [Tys.renderRest] at h
    | .cons t ts, .nil, r, r', h => by simp [Tys.renderRest] at h
    | .cons t ts, .cons t' ts', r, r', h => by
      simp only [Tys.renderRest, List.cons_append, List.append_assoc, List.cons.injEq, true_and] at h
      obtain ⟨ht, hrest⟩ := ty_prefix t t' _ _ (renderRest_follow2 ts r) (renderRest_follow2 ts' r') h
      obtain ⟨hts, hr2⟩ := tys_prefix ts ts' r r' hrest
      exact ⟨by rw [ht, hts], hr2⟩
end

theorem Ty.render_injective (t t' : Ty) (h : t.render = t'.render) : t = t' :=
  (ty_prefix t t' [] [] (Or.inl rfl) (Or.inl rfl) (by simpa using h)).1

theorem encFull_injective (x y : Param) (h : encFull x = encFull y) : x = y := by
  cases x <;> cases y <;> simp only [encFull, PTok.val.injEq, PTok.name.injEq, PTok.hidden.injEq, reduceCtorEq] at h
  · rw [h]
  · rw [Ty.render_injective _ _ h]
  · rw [Ty.render_injective _ _ h]

mutual
  theorem erasePh_of_noPh : ∀ t : CTree String Param, noPh t = true → erasePh t = t
    | .node a ps kids, h => by
      simp only [noPh, Bool.and_eq_true] at h
      simp only [erasePh, erasePhF_of_noPhF kids h.2]
      congr 1
      exact List.filter_eq_self.2 (by simpa using h.1)
  theorem erasePhF_of_noPhF : ∀ f : CForest String Param, noPhF f = true → erasePhF f = f
    | .nil, _ => rfl
    | .cons t ts, h => by
      simp only [noPhF, Bool.and_eq_true] at h
      simp only [erasePhF, erasePh_of_noPh t h.1, erasePhF_of_noPhF ts h.2]
end

theorem lookup_append_of_not_mem {N V : Type} [DecidableEq N] (a b : Step N V) (n : N) (h : n ∉ a.map Prod.fst) :
    lookup (a ++ b) n = lookup b n := by
  induction a with
  | nil => rfl
  | cons e es ih =>
    simp only [List.map_cons, List.mem_cons, not_or] at h
    simp only [lookup, List.cons_append, List.find?_cons]
    have : decide (e.1 = n) = false := by simpa using fun he => h.1 he.symm
    simp only [this]
    exact ih h.2

/-! ### Witnesses -/

def segOf (s : String) (h : s.toList.all (fun c => !isDelim c) = true := by decide) : Seg := ⟨s.toList, h⟩

def tyIdGlobal : Ty := .mk (segOf "mahf::identifier::inner::Global") .nil
def tyIdA : Ty := .mk (segOf "mahf::identifier::inner::A") .nil
def tyIdB : Ty := .mk (segOf "mahf::identifier::inner::B") .nil
def tyNormalMutation (id : Tys) : Ty := .mk (segOf "mahf::components::mutation::common::NormalMutation") id
def tyUniformMutation (id : Tys) : Ty := .mk (segOf "mahf::components::mutation::common::UniformMutation") id
def tyMutationRate (t : Ty) : Ty := .mk (segOf "mahf::components::mutation::MutationRate") (.cons t .nil)
def tyIterations : Ty := .mk (segOf "mahf::state::common::Iterations") .nil
def tyEvaluations : Ty := .mk (segOf "mahf::state::common::Evaluations") .nil
def tyValueOf (t : Ty) : Ty := .mk (segOf "mahf::lens::common::ValueOf") (.cons t .nil)
def tyProgress (t : Ty) : Ty := .mk (segOf "mahf::state::common::Progress") (.cons t .nil)

/-- `NormalMutation::<I>::new_with_id(0.1, 0.5)` as exported: `NormalMutation(std_dev, rm, phantom: PhantomData)`. -/
def normalMutationOf (id : Ty) : CTree String Param :=
  .node "NormalMutation" [.val "x3fb999999999999a", .val "x3fe0000000000000"] (.cons (.node "PhantomData" [.ph id] .nil) .nil)

/-- `while LessThanN::iterations(100) { t }` as exported. -/
def inLoop100 (t : CTree String Param) : CTree String Param :=
  .node "Loop" [] (.cons (.node "LessThanN" [.val "100"] (.cons (.node "ValueOf" [.ty tyIterations] .nil) .nil))
    (.cons (.node "seq" [] (.cons t .nil)) .nil))

/-- `Linear::new(0.9, 0.1, ValueOf::<Progress<ValueOf<I>>>::new(), ValueOf::<MutationRate<O>>::new())`. -/
def linearOf (i o : Ty) : CTree String Param :=
  .node "Linear" [.val "x3feccccccccccccd", .val "x3fb999999999999a"]
    (.cons (.node "ValueOf" [.ty (tyProgress (tyValueOf i))] .nil) (.cons (.node "ValueOf" [.ty (tyMutationRate o)] .nil) .nil))

end MahfModel.Log
