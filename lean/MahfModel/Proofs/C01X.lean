/- C01 — helper lemmas for the extended operation layer (`Model/RegistryX.lean`). -/
import MahfModel.Proofs.C01
import MahfModel.Model.RegistryX
namespace MahfModel.RegistryX
open MahfModel.Registry MahfModel.Borrow

/-! ### the transient guards on a quiescent registry -/

theorem readGuard_found (r : Reg) (k : Key) (i : Nat) (c : Cell) (h : quiet r = true)
    (hf : find r k = some i) (hc : cellAt r i k = some c) : readGuard r k = (r, .ok c.val) := by
  obtain ⟨_, hw⟩ := quiet_cell r i k c h hc
  have hi := find_lt r k i hf
  have hc' := hc; simp only [cellAt] at hc'
  have hb : tryBorrow r k = .ok (modifyAt r i (·.modify k (fun _ => { c with readers := c.readers + 1 })), i) := by
    simp [tryBorrow, hf, hc, Cell.tryBorrow, hw]
  have hc1 : cellAt (modifyAt r i (·.modify k (fun _ => { c with readers := c.readers + 1 }))) i k
      = some { c with readers := c.readers + 1 } := by
    rw [cellAt_modifyAt r i _ k hi, Scope.get?_modify]; simp [hc']
  simp only [readGuard, hb, hc1]
  rw [modify_back r i k c _ false hc (release_shared_back c)]

theorem readGuard_absent (r : Reg) (k : Key) (hf : find r k = none) : readGuard r k = (r, .error .notFound) := by
  simp [readGuard, tryBorrow, hf]

/-- `set_value` is `try_borrow_value_mut` + swap, with the error forgotten. -/
theorem setValue_eq_writeGuard (r : Reg) (k : Key) (v : Nat) :
    setValue r k v = ((writeGuard r k v).1, match (writeGuard r k v).2 with | .ok x => some x | .error _ => none) := by
  unfold setValue writeGuard
  cases tryBorrowMut r k with
  | error e => rfl
  | ok p =>
    obtain ⟨r1, i⟩ := p
    simp only
    cases cellAt r1 i k <;> rfl

theorem writeGuard_found (r : Reg) (k : Key) (v : Nat) (i : Nat) (c : Cell) (h : quiet r = true)
    (hf : find r k = some i) (hc : cellAt r i k = some c) :
    writeGuard r k v = (writeAt r i k (fun _ => v), .ok c.val) := by
  have hs := setValue_quiet r k v i c h hf hc
  rw [setValue_eq_writeGuard] at hs
  have h1 : (writeGuard r k v).1 = writeAt r i k (fun _ => v) := congrArg Prod.fst hs
  have h2 := congrArg Prod.snd hs
  simp only at h2
  -- the result is `ok` of the old value: the borrow succeeds on a quiescent cell
  have hb := tryBorrowMut_quiet r k i c h hf hc
  have hi := find_lt r k i hf
  have hc' := hc; simp only [cellAt] at hc'
  have hc1 : cellAt (modifyAt r i (·.modify k (fun _ => { c with writer := true }))) i k
      = some { c with writer := true } := by
    rw [cellAt_modifyAt r i _ k hi, Scope.get?_modify]; simp [hc']
  have h3 : (writeGuard r k v).2 = .ok c.val := by simp [writeGuard, hb, hc1]
  exact Prod.ext h1 h3

theorem writeGuard_absent (r : Reg) (k : Key) (v : Nat) (hf : find r k = none) :
    writeGuard r k v = (r, .error .notFound) := by
  simp [writeGuard, tryBorrowMut, hf]

theorem orInsertW_found (r : Reg) (i : Nat) (k : Key) (v w : Nat) (c : Cell) (hq : quiet r = true)
    (hc : cellAt r i k = some c) : orInsertW r (i, true) k v w = (writeAt r i k (fun _ => w), .val c.val) := by
  simp [orInsertW, occWrite_quiet r i k _ c hq hc]

theorem Scope.modify_put (s : Scope) (k : Key) (c : Cell) (f : Cell → Cell) :
    (s.put k c).modify k f = s.put k (f c) := by
  simp [Scope.put, Scope.modify]

theorem writeAt_put (r : Reg) (i : Nat) (k : Key) (v w : Nat) :
    writeAt (modifyAt r i (·.put k (fresh v))) i k (fun _ => w) = modifyAt r i (·.put k (fresh w)) := by
  simp only [writeAt, modifyAt_modifyAt]
  congr 1
  funext s
  simp [Scope.modify_put, fresh]

theorem orInsertW_absent (r : Reg) (k : Key) (v w : Nat) :
    orInsertW r (0, false) k v w = (modifyAt r 0 (·.put k (fresh w)), .val v) := by
  simp only [orInsertW, vacInsert, Bool.false_eq_true, if_false, writeAt_put]

/-! ### refinement, one extended step -/

def XRefines (r : Reg) (op : XOp) : Prop :=
  Inv (xstep r op).1 ∧ (xstep r op).2 = (xspecStep (abs r) op).2 ∧ abs (xstep r op).1 = (xspecStep (abs r) op).1

theorem xstep_reads (r : Reg) (k : Key) (h : Inv r) :
    XRefines r (.bor k) ∧ XRefines r (.tryBor k) ∧ XRefines r (.bval k) ∧ XRefines r (.tryBval k) := by
  have ⟨hne, hq⟩ := h
  rcases resolve r k with ⟨hf, hl, hd, hn⟩ | ⟨i, c, hf, hi, hc, hl, hd, hh⟩
  · simp [XRefines, xstep, xspecStep, readGuard_absent r k hf, hl, Out.orPanic, Out.ofRes, h]
  · simp [XRefines, xstep, xspecStep, readGuard_found r k i c hq hf hc, hl, Out.orPanic, Out.ofRes, h]

theorem xstep_writes (r : Reg) (k : Key) (v : Nat) (h : Inv r) :
    XRefines r (.borMut k v) ∧ XRefines r (.tryBorMut k v) ∧ XRefines r (.bvalMut k v) ∧
    XRefines r (.tryBvalMut k v) := by
  have ⟨hne, hq⟩ := h
  rcases resolve r k with ⟨hf, hl, hd, hn⟩ | ⟨i, c, hf, hi, hc, hl, hd, hh⟩
  · simp [XRefines, xstep, xspecStep, writeGuard_absent r k v hf, hl, Out.orPanic, Out.ofRes, h]
  · simp [XRefines, xstep, xspecStep, writeGuard_found r k v i c hq hf hc, hl, Out.orPanic, Out.ofRes,
      inv_writeAt r i k _ h, abs_writeAt r k i c _ hf hc]

theorem xstep_entw (r : Reg) (k : Key) (v w : Nat) (h : Inv r) :
    XRefines r (.entOrInsW k v w) ∧ XRefines r (.entOrDefW k w) := by
  have ⟨hne, hq⟩ := h
  rcases resolve r k with ⟨hf, hl, hd, hn⟩ | ⟨i, c, hf, hi, hc, hl, hd, hh⟩
  · have hp := abs_put_top r k (fresh w) hne
    simp [XRefines, xstep, xspecStep, entry_absent r k hf, orInsertW_absent, hl, inv_put_at r 0 k _ h, hp]
  · simp [XRefines, xstep, xspecStep, entry_found r k i hf, orInsertW_found r i k _ w c hq hc, hl,
      inv_writeAt r i k _ h, abs_writeAt r k i c _ hf hc]

theorem xstep_refines (r : Reg) (op : XOp) (h : Inv r) : XRefines r op := by
  cases op with
  | base o => exact step_refines r o h
  | bor k => exact (xstep_reads r k h).1
  | tryBor k => exact (xstep_reads r k h).2.1
  | bval k => exact (xstep_reads r k h).2.2.1
  | tryBval k => exact (xstep_reads r k h).2.2.2
  | borMut k v => exact (xstep_writes r k v h).1
  | tryBorMut k v => exact (xstep_writes r k v h).2.1
  | bvalMut k v => exact (xstep_writes r k v h).2.2.1
  | tryBvalMut k v => exact (xstep_writes r k v h).2.2.2
  | entOrInsW k v w => exact (xstep_entw r k v w h).1
  | entOrDefW k w => exact (xstep_entw r k 0 w h).2

/-! ### statements -/

mutual
  theorem execXStmt_refines (s : XStmt) (r : Reg) (h : Inv r) :
      Inv (execXStmt r s).1 ∧ (execXStmt r s).2 = (specExecXStmt (abs r) s).2 ∧
        abs (execXStmt r s).1 = (specExecXStmt (abs r) s).1 := by
    cases s with
    | op o =>
      obtain ⟨h1, h2, h3⟩ := xstep_refines r o h
      simp only [execXStmt, specExecXStmt]
      exact ⟨h1, by rw [h2], h3⟩
    | inner ok body =>
      have hc : Inv (intoChild r) := ⟨by simp [intoChild], by simp [intoChild, quiet_cons, h.2, Scope.quiet]⟩
      obtain ⟨i1, i2, i3⟩ := execXProg_refines body (intoChild r) hc
      have habs : abs (intoChild r) = PMap.empty :: abs r := rfl
      rw [habs] at i2 i3
      simp only [execXStmt, specExecXStmt]
      rw [← i2, ← i3]
      generalize (execXProg (intoChild r) body).1 = r2 at *
      generalize (execXProg (intoChild r) body).2 = outs at *
      rcases intoParent_cases r2 with ⟨c, p, rfl, hp, hip⟩ | ⟨hlen, c, hip⟩
      · rw [hip]
        obtain ⟨_, hq⟩ := i1
        simp only [quiet_cons, Bool.and_eq_true] at hq
        cases p with
        | nil => exact absurd rfl hp
        | cons s' p' =>
          simp only [abs_cons]
          exact ⟨⟨by simp, hq.2⟩, by trivial, by trivial⟩
      · rw [hip]
        cases r2 with
        | nil => exact ⟨inv_new, rfl, rfl⟩
        | cons s t =>
          cases t with
          | nil => exact ⟨inv_new, rfl, rfl⟩
          | cons s' t' => simp at hlen
  theorem execXProg_refines (p : XProg) (r : Reg) (h : Inv r) :
      Inv (execXProg r p).1 ∧ (execXProg r p).2 = (specExecXProg (abs r) p).2 ∧
        abs (execXProg r p).1 = (specExecXProg (abs r) p).1 := by
    cases p with
    | nil => exact ⟨h, rfl, rfl⟩
    | cons s rest =>
      obtain ⟨h1, h2, h3⟩ := execXStmt_refines s r h
      obtain ⟨i1, i2, i3⟩ := execXProg_refines rest _ h1
      simp only [execXProg, specExecXProg]
      rw [← h3, ← h2]
      exact ⟨i1, by rw [i2], i3⟩
end

end MahfModel.RegistryX

namespace MahfModel.Registry

theorem run_append_fst (r : Reg) (a b : List ROp) : (run r (a ++ b)).1 = (run (run r a).1 b).1 := by
  induction a generalizing r with
  | nil => rfl
  | cons o os ih => simp only [List.cons_append, run]; exact ih _

end MahfModel.Registry
