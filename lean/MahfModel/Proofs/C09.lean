/- Helper lemmas for C09 (objective values). Core only. -/
import MahfModel.Model.Objective
namespace MahfModel.Objective

/-! ### scalar comparison -/

theorem compare_int (x y : Int) :
    compare x y = if x < y then .lt else if x = y then .eq else .gt := by
  simp [compare, compareOfLessAndEq]

theorem pc_fin (x y : Int) : partialCmp (.fin x) (.fin y) = some (compare x y) := by
  rw [compare_int]
  simp only [partialCmp, le, ge]
  by_cases h1 : x < y
  · have : x ≤ y := by omega
    have : ¬ y ≤ x := by omega
    simp [*]
  · by_cases h2 : x = y
    · subst h2; simp
    · have : ¬ x ≤ y := by omega
      have : y ≤ x := by omega
      simp [*]

theorem compare_lt_iff (x y : Int) : compare x y = .lt ↔ x < y := by
  rw [compare_int]; split <;> (try split) <;> simp_all <;> omega

theorem compare_gt_iff (x y : Int) : compare x y = .gt ↔ y < x := by
  rw [compare_int]; split <;> (try split) <;> simp_all <;> omega

theorem compare_eq_iff' (x y : Int) : compare x y = .eq ↔ x = y := by
  rw [compare_int]; split <;> (try split) <;> simp_all <;> omega

theorem objCmp_fin (x y : Int) : objCmp (.fin x) (.fin y) = .ok (compare x y) := by
  simp [objCmp, objPartialCmp, pc_fin]

theorem objCmp_lt_iff (a b : F64) : objCmp a b = .ok .lt ↔ lt a b = true := by
  cases a with
  | fin x =>
    cases b with
    | fin y => simp [objCmp_fin, lt, compare_lt_iff]
    | _ => simp [objCmp, objPartialCmp, partialCmp, le, ge, lt]
  | _ => cases b <;> simp [objCmp, objPartialCmp, partialCmp, le, ge, lt]

theorem objCmp_gt_iff (a b : F64) : objCmp a b = .ok .gt ↔ lt b a = true := by
  cases a with
  | fin x =>
    cases b with
    | fin y => simp [objCmp_fin, lt, compare_gt_iff]
    | _ => simp [objCmp, objPartialCmp, partialCmp, le, ge, lt]
  | _ => cases b <;> simp [objCmp, objPartialCmp, partialCmp, le, ge, lt]

theorem objCmp_eq_iff (a b : F64) : objCmp a b = .ok .eq ↔ eq a b = true := by
  cases a with
  | fin x =>
    cases b with
    | fin y => simp [objCmp_fin, eq]
    | _ => simp [objCmp, objPartialCmp, partialCmp, le, ge, eq]
  | _ => cases b <;> simp [objCmp, objPartialCmp, partialCmp, le, ge, eq]

theorem objCmp_panic_iff (a b : F64) : objCmp a b = .panic ↔ (a = .nan ∨ b = .nan) := by
  cases a <;> cases b <;> simp [objCmp, objPartialCmp, pc_fin] <;> simp [partialCmp, le, ge]

theorem partialCmp_eq_valueCmp (a b : F64) (ha : legal a = true) (hb : legal b = true) :
    partialCmp a b = valueCmp a b := by
  cases a <;> cases b <;> simp_all [legal, pc_fin, valueCmp] <;> simp [partialCmp, le, ge]

theorem lt_trans' (a b c : F64) (h1 : lt a b = true) (h2 : lt b c = true) : lt a c = true := by
  cases a <;> cases b <;> cases c <;> simp_all [lt] <;> omega

theorem eq_trans' (a b c : F64) (h1 : eq a b = true) (h2 : eq b c = true) : eq a c = true := by
  cases a <;> cases b <;> cases c <;> simp_all [eq]

theorem lt_eq_trans (a b c : F64) (h1 : lt a b = true) (h2 : eq b c = true) : lt a c = true := by
  cases a <;> cases b <;> cases c <;> simp_all [lt, eq]

theorem eq_lt_trans (a b c : F64) (h1 : eq a b = true) (h2 : lt b c = true) : lt a c = true := by
  cases a <;> cases b <;> cases c <;> simp_all [lt, eq]

theorem eq_symm' (a b : F64) : eq a b = eq b a := by
  cases a <;> cases b <;> simp [eq, eq_comm]

theorem eq_iff_of_not_nan (a b : F64) (ha : isNan a = false) : eq a b = true ↔ a = b := by
  cases a <;> cases b <;> simp_all [eq, isNan]

theorem le_iff_lt_or_eq (a b : F64) : le a b = (lt a b || eq a b) := by
  cases a <;> cases b <;> simp [le, lt, eq]
  rw [Bool.eq_iff_iff]; simp; omega

theorem lt_irrefl' (a : F64) : lt a a = false := by
  cases a <;> simp [lt]

theorem lt_asymm' (a b : F64) (h : lt a b = true) : lt b a = false := by
  cases a <;> cases b <;> simp_all [lt] <;> omega

theorem eq_not_lt (a b : F64) (h : eq a b = true) : lt a b = false := by
  cases a <;> cases b <;> simp_all [eq, lt]

theorem not_lt_iff_le (a b : F64) (ha : isNan a = false) (hb : isNan b = false) :
    lt b a = false ↔ le a b = true := by
  cases a <;> cases b <;> simp_all [lt, le, isNan]

theorem le_trans' (a b c : F64) (h1 : le a b = true) (h2 : le b c = true) : le a c = true := by
  cases a <;> cases b <;> cases c <;> simp_all [le] <;> omega

theorem lt_le_trans (a b c : F64) (h1 : lt a b = true) (h2 : le b c = true) : lt a c = true := by
  cases a <;> cases b <;> cases c <;> simp_all [le, lt] <;> omega

theorem le_lt_trans (a b c : F64) (h1 : le a b = true) (h2 : lt b c = true) : lt a c = true := by
  cases a <;> cases b <;> cases c <;> simp_all [le, lt] <;> omega

theorem legal_not_nan (a : F64) (h : legal a = true) : isNan a = false := by
  cases a <;> simp_all [legal, isNan]

theorem objLe_iff (a b : F64) : objLe a b = true ↔ (lt a b = true ∨ eq a b = true) := by
  have h1 := objCmp_lt_iff a b
  have h2 := objCmp_eq_iff a b
  unfold objCmp at h1 h2
  unfold objLe
  cases h : objPartialCmp a b with
  | none => simp_all
  | some o => cases o <;> simp_all

theorem objLe_total (a b : F64) (ha : legal a = true) (hb : legal b = true) :
    objLe a b = true ∨ objLe b a = true := by
  rw [objLe_iff, objLe_iff]
  cases a <;> cases b <;> simp_all [legal, lt, eq] <;> omega

theorem objLe_trans (a b c : F64) (h1 : objLe a b = true) (h2 : objLe b c = true) : objLe a c = true := by
  rw [objLe_iff] at *
  rcases h1 with h1 | h1 <;> rcases h2 with h2 | h2
  · exact .inl (lt_trans' _ _ _ h1 h2)
  · exact .inl (lt_eq_trans _ _ _ h1 h2)
  · exact .inl (eq_lt_trans _ _ _ h1 h2)
  · exact .inr (eq_trans' _ _ _ h1 h2)

/-! ### sorting, min, max -/

theorem objCmp_cases (a b : F64) (ha : legal a = true) (hb : legal b = true) :
    ∃ o, objCmp a b = .ok o := by
  cases h : objCmp a b with
  | ok o => exact ⟨o, rfl⟩
  | panic =>
    rw [objCmp_panic_iff] at h
    rcases h with h | h <;> subst h <;> simp [legal] at ha hb

theorem objCmp_gt_objLe (a b : F64) (h : objCmp a b = .ok .gt) : objLe b a = true := by
  rw [objCmp_gt_iff] at h
  rw [objLe_iff]; exact .inl h

theorem objCmp_notgt_objLe (a b : F64) (o : Ordering) (h : objCmp a b = .ok o) (ho : o ≠ .gt) :
    objLe a b = true := by
  rw [objLe_iff]
  cases o with
  | lt => exact .inl ((objCmp_lt_iff a b).mp h)
  | eq => exact .inr ((objCmp_eq_iff a b).mp h)
  | gt => exact absurd rfl ho

section sort
variable {α : Type} (key : α → F64)

def SortedBy (l : List α) : Prop := l.Pairwise (fun a b => objLe (key a) (key b) = true)

theorem insertSorted_spec (x : α) (l : List α) (hx : legal (key x) = true)
    (hl : ∀ y ∈ l, legal (key y) = true) (hs : SortedBy key l) :
    ∃ r, insertSorted key x l = .ok r ∧ r.Perm (x :: l) ∧ SortedBy key r := by
  induction l with
  | nil => exact ⟨[x], rfl, List.Perm.refl _, by simp [SortedBy]⟩
  | cons y ys ih =>
    have hy : legal (key y) = true := hl y (by simp)
    obtain ⟨o, ho⟩ := objCmp_cases (key x) (key y) hx hy
    have hs' : SortedBy key ys := (List.pairwise_cons.mp hs).2
    have hys : ∀ z ∈ ys, objLe (key y) (key z) = true := (List.pairwise_cons.mp hs).1
    by_cases hgt : o = .gt
    · subst hgt
      obtain ⟨r, hr, hp, hsr⟩ := ih (fun z hz => hl z (by simp [hz])) hs'
      refine ⟨y :: r, by simp [insertSorted, ho, hr], ?_, ?_⟩
      · exact (List.Perm.cons y hp).trans (List.Perm.swap x y ys)
      · refine List.pairwise_cons.mpr ⟨?_, hsr⟩
        intro z hz
        have : z ∈ x :: ys := hp.mem_iff.mp hz
        rcases List.mem_cons.mp this with h | h
        · subst h; exact objCmp_gt_objLe _ _ ho
        · exact hys z h
    · have hle : objLe (key x) (key y) = true := objCmp_notgt_objLe _ _ o ho hgt
      refine ⟨x :: y :: ys, ?_, List.Perm.refl _, ?_⟩
      · cases o <;> simp_all [insertSorted]
      · refine List.pairwise_cons.mpr ⟨?_, hs⟩
        intro z hz
        rcases List.mem_cons.mp hz with h | h
        · subst h; exact hle
        · exact objLe_trans _ _ _ hle (hys z h)

theorem sortObjs_spec (l : List α) (hl : ∀ y ∈ l, legal (key y) = true) :
    ∃ r, sortObjs key l = .ok r ∧ r.Perm l ∧ SortedBy key r := by
  induction l with
  | nil => exact ⟨[], rfl, List.Perm.refl _, by simp [SortedBy]⟩
  | cons x xs ih =>
    obtain ⟨r, hr, hp, hs⟩ := ih (fun z hz => hl z (by simp [hz]))
    have hrl : ∀ y ∈ r, legal (key y) = true := fun y hy => hl y (by simp [hp.mem_iff.mp hy])
    obtain ⟨r', hr', hp', hs'⟩ := insertSorted_spec key x r (hl x (by simp)) hrl hs
    exact ⟨r', by simp [sortObjs, hr, hr'], hp'.trans (List.Perm.cons x hp), hs'⟩

theorem minGo_spec (m : α) (l : List α) (hm : legal (key m) = true)
    (hl : ∀ y ∈ l, legal (key y) = true) :
    ∃ r, minGo key m l = .ok r ∧ r ∈ m :: l ∧ objLe (key r) (key m) = true ∧
      ∀ y ∈ l, objLe (key r) (key y) = true := by
  induction l generalizing m with
  | nil =>
    refine ⟨m, rfl, by simp, ?_, by simp⟩
    rw [objLe_iff]; right
    rw [eq_iff_of_not_nan _ _ (legal_not_nan _ hm)]
  | cons y ys ih =>
    have hy : legal (key y) = true := hl y (by simp)
    obtain ⟨o, ho⟩ := objCmp_cases (key m) (key y) hm hy
    by_cases hgt : o = .gt
    · subst hgt
      obtain ⟨r, hr, hmem, hry, hall⟩ := ih y hy (fun z hz => hl z (by simp [hz]))
      have hym : objLe (key y) (key m) = true := objCmp_gt_objLe _ _ ho
      refine ⟨r, by simp [minGo, ho, hr], ?_, objLe_trans _ _ _ hry hym, ?_⟩
      · simp only [List.mem_cons] at hmem ⊢
        rcases hmem with h | h <;> simp [h]
      · intro z hz
        rcases List.mem_cons.mp hz with h | h
        · subst h; exact hry
        · exact hall z h
    · obtain ⟨r, hr, hmem, hrm, hall⟩ := ih m hm (fun z hz => hl z (by simp [hz]))
      have hmy : objLe (key m) (key y) = true := objCmp_notgt_objLe _ _ o ho hgt
      refine ⟨r, ?_, ?_, hrm, ?_⟩
      · cases o <;> simp_all [minGo]
      · simp only [List.mem_cons] at hmem ⊢
        rcases hmem with h | h <;> simp [h]
      · intro z hz
        rcases List.mem_cons.mp hz with h | h
        · subst h; exact objLe_trans _ _ _ hrm hmy
        · exact hall z h

theorem maxGo_spec (m : α) (l : List α) (hm : legal (key m) = true)
    (hl : ∀ y ∈ l, legal (key y) = true) :
    ∃ r, maxGo key m l = .ok r ∧ r ∈ m :: l ∧ objLe (key m) (key r) = true ∧
      ∀ y ∈ l, objLe (key y) (key r) = true := by
  induction l generalizing m with
  | nil =>
    refine ⟨m, rfl, by simp, ?_, by simp⟩
    rw [objLe_iff]; right
    rw [eq_iff_of_not_nan _ _ (legal_not_nan _ hm)]
  | cons y ys ih =>
    have hy : legal (key y) = true := hl y (by simp)
    obtain ⟨o, ho⟩ := objCmp_cases (key m) (key y) hm hy
    by_cases hgt : o = .gt
    · subst hgt
      obtain ⟨r, hr, hmem, hmr, hall⟩ := ih m hm (fun z hz => hl z (by simp [hz]))
      have hym : objLe (key y) (key m) = true := objCmp_gt_objLe _ _ ho
      refine ⟨r, by simp [maxGo, ho, hr], ?_, hmr, ?_⟩
      · simp only [List.mem_cons] at hmem ⊢
        rcases hmem with h | h <;> simp [h]
      · intro z hz
        rcases List.mem_cons.mp hz with h | h
        · subst h; exact objLe_trans _ _ _ hym hmr
        · exact hall z h
    · obtain ⟨r, hr, hmem, hyr, hall⟩ := ih y hy (fun z hz => hl z (by simp [hz]))
      have hmy : objLe (key m) (key y) = true := objCmp_notgt_objLe _ _ o ho hgt
      refine ⟨r, ?_, ?_, objLe_trans _ _ _ hmy hyr, ?_⟩
      · cases o <;> simp_all [maxGo]
      · simp only [List.mem_cons] at hmem ⊢
        rcases hmem with h | h <;> simp [h]
      · intro z hz
        rcases List.mem_cons.mp hz with h | h
        · subst h; exact hyr
        · exact hall z h

end sort

/-! ### vectors -/

theorem vecEq_length (a b : List F64) (h : vecEq a b = true) : a.length = b.length := by
  induction a generalizing b with
  | nil => cases b <;> simp_all [vecEq]
  | cons x xs ih =>
    cases b with
    | nil => simp [vecEq] at h
    | cons y ys =>
      simp only [vecEq, Bool.and_eq_true] at h
      simp [ih ys h.2]

theorem vecEq_symm (a b : List F64) : vecEq a b = vecEq b a := by
  induction a generalizing b with
  | nil => cases b <;> simp [vecEq]
  | cons x xs ih =>
    cases b with
    | nil => simp [vecEq]
    | cons y ys => simp [vecEq, ih ys, eq_symm' x y]

theorem vecEq_iff (a b : List F64) (ha : a.all (fun x => !isNan x) = true) :
    vecEq a b = true ↔ a = b := by
  induction a generalizing b with
  | nil => cases b <;> simp [vecEq]
  | cons x xs ih =>
    cases b with
    | nil => simp [vecEq]
    | cons y ys =>
      simp only [List.all_cons, Bool.and_eq_true, Bool.not_eq_true'] at ha
      simp only [vecEq, Bool.and_eq_true, List.cons.injEq]
      rw [ih ys ha.2, eq_iff_of_not_nan x y ha.1]

theorem legalVec_noNan (a : List F64) (h : legalVec a = true) : a.all (fun x => !isNan x) = true := by
  simp only [legalVec, List.all_eq_true] at *
  intro x hx
  have := legal_not_nan x (h x hx)
  simp [this]

theorem vecEq_anyLt (a b : List F64) (h : vecEq a b = true) : anyLt a b = false := by
  induction a generalizing b with
  | nil => cases b <;> simp [anyLt]
  | cons x xs ih =>
    cases b with
    | nil => simp [anyLt]
    | cons y ys =>
      simp only [vecEq, Bool.and_eq_true] at h
      simp [anyLt, ih ys h.2, eq_not_lt x y h.1]

/-- The flag loop computes "somewhere better" and "somewhere worse". -/
theorem flagLoop_eq (a b : List F64) (p q : Bool) :
    flagLoop a b (p, q) = (p || anyLt a b, q || anyLt b a) := by
  induction a generalizing b p q with
  | nil => cases b <;> simp [flagLoop, anyLt]
  | cons x xs ih =>
    cases b with
    | nil => simp [flagLoop, anyLt]
    | cons y ys =>
      simp only [flagLoop, gt, anyLt]
      by_cases h1 : lt x y = true
      · have h2 := lt_asymm' x y h1
        simp [h1, h2, ih]
      · by_cases h2 : lt y x = true
        · simp [h1, h2, ih]
        · simp [h1, h2, ih]

theorem paretoCmp_eq (a b : List F64) :
    paretoCmp a b =
      if vecEq a b then some .eq
      else if a.length != b.length then none
      else match anyLt a b, anyLt b a with
        | true, false => some .lt
        | false, true => some .gt
        | _, _ => none := by
  unfold paretoCmp
  rw [flagLoop_eq]
  simp only [Bool.false_or]
  split
  · rfl
  · split
    · rfl
    · cases anyLt a b <;> cases anyLt b a <;> rfl

theorem anyLt_false_iff_allLe (a b : List F64) (hl : a.length = b.length)
    (ha : a.all (fun x => !isNan x) = true) (hb : b.all (fun x => !isNan x) = true) :
    anyLt b a = false ↔ allLe a b = true := by
  induction a generalizing b with
  | nil => cases b <;> simp [anyLt, allLe]
  | cons x xs ih =>
    cases b with
    | nil => simp at hl
    | cons y ys =>
      simp only [List.all_cons, Bool.and_eq_true, Bool.not_eq_true'] at ha hb
      simp only [anyLt, allLe, Bool.or_eq_false_iff, Bool.and_eq_true]
      rw [ih ys (by simpa using hl) ha.2 hb.2, not_lt_iff_le x y ha.1 hb.1]

theorem dominates_trans_aux (a b c : List F64) (h1 : a.length = b.length) (h2 : b.length = c.length)
    (hab : allLe a b = true) (hbc : allLe b c = true) :
    allLe a c = true ∧ ((anyLt a b = true ∨ anyLt b c = true) → anyLt a c = true) := by
  induction a generalizing b c with
  | nil => cases c <;> simp_all [allLe, anyLt]
          <;> (cases b <;> simp_all [anyLt])
  | cons x xs ih =>
    cases b with
    | nil => simp at h1
    | cons y ys =>
      cases c with
      | nil => simp at h2
      | cons z zs =>
        simp only [allLe, Bool.and_eq_true] at hab hbc
        obtain ⟨i1, i2⟩ := ih ys zs (by simpa using h1) (by simpa using h2) hab.2 hbc.2
        refine ⟨by simp [allLe, i1, le_trans' x y z hab.1 hbc.1], ?_⟩
        simp only [anyLt, Bool.or_eq_true]
        rintro ((h | h) | (h | h))
        · exact .inl (lt_le_trans x y z h hbc.1)
        · exact .inr (i2 (.inl h))
        · exact .inl (le_lt_trans x y z hab.1 h)
        · exact .inr (i2 (.inr h))

theorem allLe_of_vecEq (a b : List F64) (h : vecEq a b = true) : allLe a b = true := by
  induction a generalizing b with
  | nil => cases b <;> simp [allLe]
  | cons x xs ih =>
    cases b with
    | nil => simp [allLe]
    | cons y ys =>
      simp only [vecEq, Bool.and_eq_true] at h
      simp [allLe, ih ys h.2, le_iff_lt_or_eq, h.1]

theorem allLe_iff_zip (a b : List F64) :
    allLe a b = true ↔ ∀ p ∈ List.zip a b, le p.1 p.2 = true := by
  induction a generalizing b with
  | nil => simp [allLe]
  | cons x xs ih =>
    cases b with
    | nil => simp [allLe]
    | cons y ys => simp [allLe, ih ys]

theorem anyLt_iff_zip (a b : List F64) :
    anyLt a b = true ↔ ∃ p ∈ List.zip a b, lt p.1 p.2 = true := by
  induction a generalizing b with
  | nil => simp [anyLt]
  | cons x xs ih =>
    cases b with
    | nil => simp [anyLt]
    | cons y ys => simp [anyLt, ih ys]

theorem anyGt_iff_zip (a b : List F64) :
    anyLt b a = true ↔ ∃ p ∈ List.zip a b, lt p.2 p.1 = true := by
  induction a generalizing b with
  | nil => cases b <;> simp [anyLt]
  | cons x xs ih =>
    cases b with
    | nil => simp [anyLt]
    | cons y ys => simp [anyLt, ih ys]

/-! ### arithmetic classes -/

theorem ovf_pos : 0 < ovf := by decide +kernel

theorem scale_pos : 0 < scale := by decide +kernel

theorem sgnInf_legal (n : Bool) : (sgnInf n).legal = !n := by cases n <;> rfl

theorem infMul_fin_legal (n : Bool) (k : Int) :
    (infMul n (.fin k)).legal = true ↔ (if n then k < 0 else 0 < k) := by
  unfold infMul
  by_cases h : k = 0
  · subst h; cases n <;> simp [Cls.legal]
  · cases n <;> simp [h, sgnInf_legal] <;> omega

theorem roundCls_legal_iff (n : Int) (d : Nat) (hd : 0 < d) :
    (roundCls n d).legal = true ↔ -((ovf * d : Nat) : Int) < n := by
  have hp : 0 < ovf * d := Nat.mul_pos ovf_pos hd
  unfold roundCls
  split
  · split
    · simp [Cls.legal]; omega
    · simp [Cls.legal]; omega
  · simp [Cls.legal]; omega

theorem roundCls_ne_nan (n : Int) (d : Nat) : roundCls n d ≠ .nan := by
  unfold roundCls; split <;> (try split) <;> simp

/-- Magnitude (in units of 2^-1074) encoded by exponent field `e < 2047` and fraction `f`. -/
def mag (e f : Nat) : Nat := if e = 0 then f else (2 ^ 52 + f) * 2 ^ (e - 1)

theorem ofNatBits_nonneg (n : Nat) (h : n < 0x7ff0000000000000) :
    ofNatBits n = .fin (mag (n / 2 ^ 52) (n % 2 ^ 52) : Nat) := by
  have h1 : n / 2 ^ 63 % 2 = 0 := by omega
  have h2 : n / 2 ^ 52 % 2048 = n / 2 ^ 52 := by omega
  have h3 : n / 2 ^ 52 < 2047 := by omega
  unfold ofNatBits mag
  simp only [h1, h2]
  have : ¬ (n / 2 ^ 52 == 2047) = true := by simp; omega
  simp [this]

theorem mag_succ (e f : Nat) : mag e f < mag e (f + 1) := by
  unfold mag
  split
  · omega
  · have : 0 < 2 ^ (e - 1) := Nat.two_pow_pos _
    apply Nat.mul_lt_mul_of_pos_right (by omega) this

theorem mag_carry (e : Nat) : mag e (2 ^ 52 - 1) < mag (e + 1) 0 := by
  unfold mag
  by_cases he : e = 0
  · subst he; simp
  · have hp : 2 ^ (e + 1 - 1) = 2 * 2 ^ (e - 1) := by
      rw [show e + 1 - 1 = (e - 1) + 1 by omega, Nat.pow_succ]; omega
    have he1 : e + 1 ≠ 0 := by omega
    simp only [he, he1, if_false, hp]
    have : 0 < 2 ^ (e - 1) := Nat.two_pow_pos _
    generalize 2 ^ (e - 1) = P at *
    omega

theorem ofNatBits_succ_lt (n : Nat) (h : n + 1 < 0x7ff0000000000000) :
    lt (ofNatBits n) (ofNatBits (n + 1)) = true := by
  rw [ofNatBits_nonneg n (by omega), ofNatBits_nonneg (n + 1) h]
  simp only [lt, decide_eq_true_eq]
  by_cases hc : n % 2 ^ 52 + 1 < 2 ^ 52
  · have e1 : (n + 1) / 2 ^ 52 = n / 2 ^ 52 := by omega
    have e2 : (n + 1) % 2 ^ 52 = n % 2 ^ 52 + 1 := by omega
    rw [e1, e2]
    exact_mod_cast mag_succ _ _
  · have e1 : (n + 1) / 2 ^ 52 = n / 2 ^ 52 + 1 := by omega
    have e2 : (n + 1) % 2 ^ 52 = 0 := by omega
    have e3 : n % 2 ^ 52 = 2 ^ 52 - 1 := by omega
    rw [e1, e2, e3]
    exact_mod_cast mag_carry _

theorem ofNatBits_mono (m n : Nat) (hmn : m < n) (hn : n < 0x7ff0000000000000) :
    lt (ofNatBits m) (ofNatBits n) = true := by
  induction n with
  | zero => omega
  | succ n ih =>
    have hs := ofNatBits_succ_lt n hn
    by_cases h : m = n
    · subst h; exact hs
    · exact lt_trans' _ _ _ (ih (by omega) (by omega)) hs

theorem ofNatBits_sign (n : Nat) (h : n < 2 ^ 63) : ofNatBits (n + 2 ^ 63) = negF (ofNatBits n) := by
  have h1 : (n + 2 ^ 63) / 2 ^ 63 % 2 = 1 := by omega
  have h2 : n / 2 ^ 63 % 2 = 0 := by omega
  have h3 : (n + 2 ^ 63) / 2 ^ 52 % 2048 = n / 2 ^ 52 % 2048 := by omega
  have h4 : (n + 2 ^ 63) % 2 ^ 52 = n % 2 ^ 52 := by omega
  unfold ofNatBits
  simp only [h1, h2, h3, h4]
  split
  · split <;> simp [negF]
  · simp [negF]

theorem legal_ofNatBits (n : Nat) :
    legal (ofNatBits n) = false ↔
      (n / 2 ^ 52 % 2048 = 2047 ∧ (n % 2 ^ 52 ≠ 0 ∨ n / 2 ^ 63 % 2 = 1)) := by
  unfold ofNatBits
  simp only
  split
  · rename_i he
    have he' : n / 2 ^ 52 % 2048 = 2047 := by simpa using he
    split
    · rename_i hf
      have hf' : n % 2 ^ 52 = 0 := by simpa using hf
      split <;> simp_all [legal]
    · rename_i hf
      have hf' : n % 2 ^ 52 ≠ 0 := by simpa using hf
      simp [legal, he', hf']
  · rename_i he
    have he' : ¬ n / 2 ^ 52 % 2048 = 2047 := by simpa using he
    simp [legal, he']

end MahfModel.Objective
