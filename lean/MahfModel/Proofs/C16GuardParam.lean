/- The guard analysis on the templates as functions of their parameters: closed forms for ALL parameter values
that meet the size-related requirements (`guardValidT`). -/
import MahfModel.Proofs.C16Guard
import MahfModel.Proofs.C16Param
namespace MahfModel.Tpl
set_option linter.unusedSimpArgs false

/-- The requirements on the natural-number parameters under which every size precondition inside the template is
met: tournament size between 1 and the population size (GA), at least one parent (ES), at least `2y` (and one)
individuals for `DEBest` (DE). -/
def guardValidT (name : Tid) (ps : List Nat) : Bool :=
  match name, ps with
  | .real_ga, [n, ts] | .binary_ga, [n, ts] => decide (1 ≤ ts) && decide (ts ≤ n)
  | .real_es, [mu, _] => decide (1 ≤ mu)
  | .real_de, [n, y] => decide (2 * y ≤ n) && decide (1 ≤ n)
  | _, _ => true

theorem safeOf_loop_fix (body : SComp) (st out : AbsStack)
    (hb : safeOf body st = some out) (hj : stackJoin st out = some st)
    (h1 : stackLe st st = true) (h2 : stackLe out st = true) :
    safeOf (.loop body) st = some st := by
  have hf := findInv_fix (safeOf body) 8 3 st out hb hj
  simp only [safeOf, hf, hb, h1, h2, Bool.and_self, if_true]

theorem safeOf_loop_one (body : SComp) (st out inv out2 : AbsStack)
    (hb : safeOf body st = some out) (hj : stackJoin st out = some inv) (hne : inv ≠ st)
    (hb2 : safeOf body inv = some out2) (hj2 : stackJoin inv out2 = some inv)
    (h1 : stackLe st inv = true) (h2 : stackLe out2 inv = true) :
    safeOf (.loop body) st = some inv := by
  have hf := findInv_one (safeOf body) 6 2 st out inv out2 hb hj hne hb2 hj2
  simp only [safeOf, hf, hb2, h1, h2, Bool.and_self, if_true]

theorem safe_loop_exact (n : Nat) (body : SComp)
    (hb : safeOf body [⟨n, some n⟩] = some [⟨n, some n⟩]) :
    safeOf (.loop body) [⟨n, some n⟩] = some [⟨n, some n⟩] :=
  safeOf_loop_fix body _ _ hb (exact_facts n).1 (exact_facts n).2.1 (exact_facts n).2.1

macro "safe_eval" : tactic =>
  `(tactic| simp [sq, SComps.ofList, l0, evalUpd, safeOf, safesOf, gabs, sizeStep, opOf, astep, Itv.exact, Itv.isExact, stackJoin,
      Itv.join, Itv.hiMax, Itv.hiMin, Itv.hiAdd, Itv.hiLe, Itv.mulC, Itv.divC, Itv.add, Itv.capC, Itv.meet, Itv.half, *])

macro "safe_finish" hl:ident : tactic =>
  `(tactic| (generalize SComp.loop _ = L at $hl:ident ⊢
             simp [guardsSafe, safeOf, safesOf, gabs, sizeStep, opOf, astep, Itv.exact, $hl:ident]))

theorem real_ga_guards_all (n ts : Nat) (h1 : 1 ≤ ts) (h2 : ts ≤ n) : guardsSafe (gaS .RandomSpread .NormalMutation .Saturation n ts) = true := by
  have hl := safe_loop_exact n (sq ([.leaf .Tournament n ts, .leaf .UniformCrossover 1 0, .branch (sq [l0 .NormalMutation]) (sq []), l0 .Saturation] ++ evalUpd ++ [l0 .Generational, l0 .Logger]))
    (by safe_eval)
  simp only [gaS, lsLoop, sq, SComps.ofList, List.cons_append, List.nil_append, evalUpd, l0, Bool.false_eq_true, ↓reduceIte] at hl ⊢
  safe_finish hl

theorem binary_ga_guards_all (n ts : Nat) (h1 : 1 ≤ ts) (h2 : ts ≤ n) : guardsSafe (gaS .RandomBitstring .BitFlipMutation .Noop n ts) = true := by
  have hl := safe_loop_exact n (sq ([.leaf .Tournament n ts, .leaf .UniformCrossover 1 0, .branch (sq [l0 .BitFlipMutation]) (sq []), l0 .Noop] ++ evalUpd ++ [l0 .Generational, l0 .Logger]))
    (by safe_eval)
  simp only [gaS, lsLoop, sq, SComps.ofList, List.cons_append, List.nil_append, evalUpd, l0, Bool.false_eq_true, ↓reduceIte] at hl ⊢
  safe_finish hl

theorem real_es_guards_all (mu lam : Nat) (h1 : 1 ≤ mu) : guardsSafe (esS mu lam) = true := by
  have hl := safe_loop_exact mu (sq ([.leaf .FullyRandom lam 0, l0 .NormalMutation, l0 .Saturation] ++ evalUpd ++ [.leaf .MuPlusLambda mu 0, l0 .Logger]))
    (by safe_eval)
  simp only [esS, lsLoop, sq, SComps.ofList, List.cons_append, List.nil_append, evalUpd, l0, Bool.false_eq_true, ↓reduceIte] at hl ⊢
  safe_finish hl

theorem real_de_guards_all (n y : Nat) (h1 : 2 * y ≤ n) (h2 : 1 ≤ n) : guardsSafe (deS n y) = true := by
  have hl := safe_loop_exact n (sq ([.leaf .DEBest y 0, .leaf .DEMutation y 0, l0 .DEBinomialCrossover, l0 .Saturation] ++ evalUpd ++ [l0 .KeepBetterAtIndex, l0 .Logger]))
    (by safe_eval)
  simp only [deS, lsLoop, sq, SComps.ofList, List.cons_append, List.nil_append, evalUpd, l0, Bool.false_eq_true, ↓reduceIte] at hl ⊢
  safe_finish hl

theorem real_pso_guards_all (n : Nat) : guardsSafe (psoS n) = true := by
  have hl := safe_loop_exact n (sq ([l0 .ParticleVelocitiesUpdate, l0 .Saturation] ++ evalUpd ++ [l0 .Linear, sq [l0 .PersonalBestParticlesUpdate, l0 .GlobalBestParticleUpdate], l0 .Logger]))
    (by safe_eval)
  simp only [psoS, lsLoop, sq, SComps.ofList, List.cons_append, List.nil_append, evalUpd, l0, Bool.false_eq_true, ↓reduceIte] at hl ⊢
  safe_finish hl

theorem real_sa_guards_all : guardsSafe (saS .RandomSpread .NormalMutation .Saturation) = true := by
  have hl := safe_loop_exact 1 (sq ([l0 .All, l0 .NormalMutation, l0 .Saturation] ++ evalUpd ++ [l0 .GeometricCooling, l0 .ExponentialAnnealingAcceptance, l0 .Logger]))
    (by safe_eval)
  simp only [saS, lsLoop, sq, SComps.ofList, List.cons_append, List.nil_append, evalUpd, l0, Bool.false_eq_true, ↓reduceIte] at hl ⊢
  safe_finish hl

theorem permutation_sa_guards_all : guardsSafe (saS .RandomPermutation .SwapMutation .Noop) = true := by
  have hl := safe_loop_exact 1 (sq ([l0 .All, l0 .SwapMutation, l0 .Noop] ++ evalUpd ++ [l0 .GeometricCooling, l0 .ExponentialAnnealingAcceptance, l0 .Logger]))
    (by safe_eval)
  simp only [saS, lsLoop, sq, SComps.ofList, List.cons_append, List.nil_append, evalUpd, l0, Bool.false_eq_true, ↓reduceIte] at hl ⊢
  safe_finish hl

theorem real_ls_guards_all (k : Nat) : guardsSafe (realLsS k) = true := by
  have hl := safe_loop_exact 1 (sq ([.leaf .CloneSingle k 0, l0 .NormalMutation, l0 .Saturation] ++ evalUpd ++ [.leaf .MuPlusLambda 1 0, l0 .Logger]))
    (by safe_eval)
  simp only [realLsS, lsLoop, sq, SComps.ofList, List.cons_append, List.nil_append, evalUpd, l0, Bool.false_eq_true, ↓reduceIte] at hl ⊢
  safe_finish hl

theorem permutation_ls_guards_all (k : Nat) : guardsSafe (permLsS k) = true := by
  have hl := safe_loop_exact 1 (sq ([.leaf .CloneSingle k 0, l0 .SwapMutation, l0 .Noop] ++ evalUpd ++ [.leaf .MuPlusLambda 1 0, l0 .Logger]))
    (by safe_eval)
  simp only [permLsS, lsLoop, sq, SComps.ofList, List.cons_append, List.nil_append, evalUpd, l0, Bool.false_eq_true, ↓reduceIte] at hl ⊢
  safe_finish hl

theorem real_rs_guards_all : guardsSafe (rsS .RandomSpread .PartialRandomSpread) = true := by
  have hl := safe_loop_exact 1 (sq ([l0 .All, l0 .PartialRandomSpread] ++ evalUpd ++ [.leaf .MuPlusLambda 1 0, l0 .Logger]))
    (by safe_eval)
  simp only [rsS, lsLoop, sq, SComps.ofList, List.cons_append, List.nil_append, evalUpd, l0, Bool.false_eq_true, ↓reduceIte] at hl ⊢
  safe_finish hl

theorem permutation_rs_guards_all : guardsSafe (rsS .RandomPermutation .ScrambleMutation) = true := by
  have hl := safe_loop_exact 1 (sq ([l0 .All, l0 .ScrambleMutation] ++ evalUpd ++ [.leaf .MuPlusLambda 1 0, l0 .Logger]))
    (by safe_eval)
  simp only [rsS, lsLoop, sq, SComps.ofList, List.cons_append, List.nil_append, evalUpd, l0, Bool.false_eq_true, ↓reduceIte] at hl ⊢
  safe_finish hl

theorem real_rw_guards_all : guardsSafe (rwS .RandomSpread .NormalMutation .Saturation) = true := by
  have hl := safe_loop_exact 1 (sq ([l0 .All, l0 .NormalMutation, l0 .Saturation] ++ evalUpd ++ [l0 .Generational, l0 .Logger]))
    (by safe_eval)
  simp only [rwS, lsLoop, sq, SComps.ofList, List.cons_append, List.nil_append, evalUpd, l0, Bool.false_eq_true, ↓reduceIte] at hl ⊢
  safe_finish hl

theorem permutation_rw_guards_all : guardsSafe (rwS .RandomPermutation .SwapMutation .Noop) = true := by
  have hl := safe_loop_exact 1 (sq ([l0 .All, l0 .SwapMutation, l0 .Noop] ++ evalUpd ++ [l0 .Generational, l0 .Logger]))
    (by safe_eval)
  simp only [rwS, lsLoop, sq, SComps.ofList, List.cons_append, List.nil_append, evalUpd, l0, Bool.false_eq_true, ↓reduceIte] at hl ⊢
  safe_finish hl

theorem real_bh_guards_all (n : Nat) : guardsSafe (bhS n) = true := by
  have hl := safe_loop_exact n (sq ([l0 .BlackHoleParticlesUpdate, l0 .Saturation] ++ evalUpd ++ [l0 .EventHorizon] ++ evalUpd ++ [l0 .Logger]))
    (by safe_eval)
  simp only [bhS, lsLoop, sq, SComps.ofList, List.cons_append, List.nil_append, evalUpd, l0, Bool.false_eq_true, ↓reduceIte] at hl ⊢
  safe_finish hl

theorem real_fa_guards_all (n : Nat) (cool : Bool) : guardsSafe (faS n cool) = true := by
  cases cool
  · have hl := safe_loop_exact n (sq ([l0 .FireflyPositionsUpdate, l0 .Saturation] ++ evalUpd ++ [sq [], l0 .Logger]))
      (by safe_eval)
    simp only [faS, sq, SComps.ofList, List.cons_append, List.nil_append, evalUpd, l0, Bool.false_eq_true, ↓reduceIte] at hl ⊢
    safe_finish hl
  · have hl := safe_loop_exact n (sq ([l0 .FireflyPositionsUpdate, l0 .Saturation] ++ evalUpd ++
        [sq [l0 .GeometricCooling], l0 .Logger]))
      (by safe_eval)
    simp only [faS, sq, SComps.ofList, List.cons_append, List.nil_append, evalUpd, l0, Bool.false_eq_true, ↓reduceIte] at hl ⊢
    safe_finish hl

theorem ils_inner_safe (k : Nat) (gen con : LeafKind)
    (hb : safeOf (sq ([.leaf .CloneSingle k 0, l0 gen, l0 con] ++ evalUpd ++
      [.leaf .MuPlusLambda 1 0, l0 .Logger])) [⟨1, some 1⟩, ⟨1, some 1⟩] = some [⟨1, some 1⟩, ⟨1, some 1⟩]) :
    safeOf (lsLoop gen con k) [⟨1, some 1⟩, ⟨1, some 1⟩] = some [⟨1, some 1⟩, ⟨1, some 1⟩] :=
  safeOf_loop_fix _ _ _ hb (by simp [stackJoin, Itv.join, Itv.hiMax])
    (by simp [stackLe, Itv.le, Itv.hiLe]) (by simp [stackLe, Itv.le, Itv.hiLe])

theorem real_ils_guards_all (k : Nat) :
    guardsSafe (ilsS .RandomSpread .PartialRandomSpread .NormalMutation .Saturation k) = true := by
  have hin := ils_inner_safe k .NormalMutation .Saturation (by safe_eval)
  have hl := safe_loop_exact 1 (sq ([l0 .PartialRandomSpread] ++ evalUpd ++ [l0 .All,
      .scope (sq [sq [lsLoop .NormalMutation .Saturation k]]), l0 .BestIndividualUpdate, .leaf .MuPlusLambda 1 0, l0 .Logger]))
    (by
      generalize lsLoop .NormalMutation .Saturation k = L at hin ⊢
      simp [sq, SComps.ofList, l0, evalUpd, safeOf, safesOf, gabs, sizeStep, opOf, astep, Itv.exact, Itv.mulC, hin,
        Itv.add, Itv.capC, Itv.hiAdd])
  simp only [ilsS, sq, SComps.ofList, List.cons_append, List.nil_append, evalUpd, l0] at hl ⊢
  safe_finish hl

theorem permutation_ils_guards_all (k : Nat) :
    guardsSafe (ilsS .RandomPermutation .ScrambleMutation .SwapMutation .Noop k) = true := by
  have hin := ils_inner_safe k .SwapMutation .Noop (by safe_eval)
  have hl := safe_loop_exact 1 (sq ([l0 .ScrambleMutation] ++ evalUpd ++ [l0 .All,
      .scope (sq [sq [lsLoop .SwapMutation .Noop k]]), l0 .BestIndividualUpdate, .leaf .MuPlusLambda 1 0, l0 .Logger]))
    (by
      generalize lsLoop .SwapMutation .Noop k = L at hin ⊢
      simp [sq, SComps.ofList, l0, evalUpd, safeOf, safesOf, gabs, sizeStep, opOf, astep, Itv.exact, Itv.mulC, hin,
        Itv.add, Itv.capC, Itv.hiAdd])
  simp only [ilsS, sq, SComps.ofList, List.cons_append, List.nil_append, evalUpd, l0] at hl ⊢
  safe_finish hl

theorem aco_guards_all (upd : LeafKind) (hu : opOf upd 0 0 = some (.keep 1)) (hg : ∀ st, gabs upd 0 0 st = true)
    (ants : Nat) : guardsSafe (acoS upd ants) = true := by
  have hbody : ∀ st : AbsStack, st.length = 1 →
      safeOf (sq ([.leaf .AcoGeneration ants 0] ++ evalUpd ++ [l0 upd, l0 .Logger])) st
        = some [⟨ants + 1, some (ants + 1)⟩] := by
    intro st hst
    match st, hst with
    | [x], _ =>
      simp [sq, SComps.ofList, l0, evalUpd, safeOf, safesOf, sizeStep, hu, hg, astep, Itv.exact]
      simp [gabs, opOf, astep, Itv.exact]
  have hl := safeOf_loop_one _ [⟨0, some 0⟩] [⟨ants + 1, some (ants + 1)⟩]
    [⟨0, some (ants + 1)⟩] [⟨ants + 1, some (ants + 1)⟩] (hbody _ rfl)
    (by simp [stackJoin, Itv.join, Itv.hiMax]) (by simp) (hbody _ rfl)
    (by simp [stackJoin, Itv.join, Itv.hiMax]) (by simp [stackLe, Itv.le, Itv.hiLe]) (by simp [stackLe, Itv.le, Itv.hiLe])
  simp only [acoS, sq, SComps.ofList, List.cons_append, List.nil_append, evalUpd, l0] at hl ⊢
  safe_finish hl

theorem ant_system_guards_all (ants : Nat) : guardsSafe (acoS .AsPheromoneUpdate ants) = true :=
  aco_guards_all _ rfl (fun _ => rfl) ants
theorem max_min_ant_system_guards_all (ants : Nat) : guardsSafe (acoS .MinMaxPheromoneUpdate ants) = true :=
  aco_guards_all _ rfl (fun _ => rfl) ants

/-- All templates but invasive weed (parameter-dependent invariant) and chemical reaction (outside the size
abstraction): every size precondition is met at every parameter point that satisfies `guardValidT`. -/
theorem tpl_guards_all (name : Tid) (ps : List Nat) (cool : Bool) (t : SComp)
    (hn1 : name ≠ .real_iwo) (hn2 : name ≠ .real_cro)
    (h : tplT name ps cool = some t) (hv : guardValidT name ps = true) :
    guardsSafe t = true := by
  unfold tplT at h
  split at h
  all_goals first
    | (cases h; done)
    | (exfalso; exact hn1 rfl)
    | (exfalso; exact hn2 rfl)
    | (injection h with h; subst h
       simp only [guardValidT, Bool.and_eq_true, decide_eq_true_eq] at hv
       simp [real_pso_guards_all, real_sa_guards_all, permutation_sa_guards_all, real_ls_guards_all,
            permutation_ls_guards_all, real_ils_guards_all, permutation_ils_guards_all, real_rs_guards_all,
            permutation_rs_guards_all, real_rw_guards_all, permutation_rw_guards_all, real_fa_guards_all, real_bh_guards_all,
            ant_system_guards_all, max_min_ant_system_guards_all, real_ga_guards_all, binary_ga_guards_all,
            real_es_guards_all, real_de_guards_all, hv])

end MahfModel.Tpl
