/- Helper lemmas for C11: functional specification of stochastic universal sampling in exact
arithmetic — the `k`-th selected position is the FIRST position whose cumulative weight reaches the
`k`-th selection point `(u + k)·total/n`. -/
import MahfModel.Proofs.C11Sus
namespace MahfModel.Selection
set_option linter.unusedSectionVars false

section generic
variable {F : Type} [Add F] [Sub F] [Mul F] [Div F] [LT F] [LE F] [DecidableLT F] [DecidableLE F]
  [OfNat F 0] [OfNat F 1]

/-- an `Ok` result of SUS: the weights exist, the pointer walk succeeded, and the selection is the
population read at the walk's positions -/
theorem sus_select_decomp (O : Ops F) (n : Nat) (offset u : F) (pop sel : Pop F)
    (h : select O (.sus n offset) (.draw u) pop = .ok sel) :
    ∃ objs ws is, objectives pop = some objs ∧ proportionalWeights O objs offset false = .ok (some ws) ∧
      susIndices O ws n u = .ok is ∧ sel = pick pop is ∧ ws.length = pop.length := by
  have heq : select O (.sus n offset) (.draw u) pop =
      match objectives pop with
      | none => .error .panic
      | some objs =>
        match proportionalWeights O objs offset false with
        | .error e => .error e
        | .ok none => .error .exec
        | .ok (some ws) =>
          match susIndices O ws n u with
          | .error e => .error e
          | .ok is => .ok (pick pop is) := rfl
  rw [heq] at h
  split at h
  · cases h
  · next objs hobjs =>
    split at h
    · cases h
    · cases h
    · next ws hws =>
      split at h
      · cases h
      · next is his =>
        injection h with h
        exact ⟨objs, ws, is, hobjs, hws, his, h.symm, by
          rw [proportionalWeights_length_any O objs offset false ws hws, objectives_length hobjs]⟩

end generic

section
variable {F : Type} [Field F] [LinearOrder F] [IsStrictOrderedRing F]

/-- cumulative weight of the first `i` positions -/
def cum (ws : List F) (i : Nat) : F := sum (ws.take i)

theorem cum_zero (ws : List F) : cum ws 0 = 0 := by simp [cum, sum_nil]

theorem cum_length (ws : List F) : cum ws ws.length = sum ws := by simp [cum]

theorem cum_append_length (pre rest : List F) : cum (pre ++ rest) pre.length = sum pre := by
  simp [cum]

theorem cum_mono (ws : List F) (hw : ∀ w ∈ ws, 0 ≤ w) (i j : Nat) (hij : i ≤ j) : cum ws i ≤ cum ws j := by
  obtain ⟨d, rfl⟩ := Nat.exists_eq_add_of_le hij
  have : ws.take (i + d) = ws.take i ++ (ws.drop i).take d := by
    rw [List.take_add]
  simp only [cum, this, sum_append]
  have : 0 ≤ sum ((ws.drop i).take d) :=
    sum_nonneg _ (fun x hx => hw x (List.mem_of_mem_drop (List.mem_of_mem_take hx)))
  linarith

theorem cum_le_total (ws : List F) (hw : ∀ w ∈ ws, 0 ≤ w) (i : Nat) : cum ws i ≤ sum ws := by
  by_cases h : i ≤ ws.length
  · rw [← cum_length ws]; exact cum_mono ws hw i ws.length h
  · simp [cum, List.take_of_length_le (le_of_lt (not_le.mp h))]

/-- pointer state of the walk: `i` is a position of `ws`, `rest` the weights after it, `sumW` the
cumulative weight up to and including it -/
def SusInv (ws rest : List F) (i : Nat) (sumW : F) : Prop :=
  ∃ pre, ws = pre ++ rest ∧ pre.length = i + 1 ∧ sumW = sum pre

theorem SusInv.cum {ws rest : List F} {i : Nat} {sumW : F} (h : SusInv ws rest i sumW) :
    sumW = cum ws (i + 1) ∧ i < ws.length ∧ (rest = [] → i + 1 = ws.length) := by
  obtain ⟨pre, h1, h2, h3⟩ := h
  subst h1
  refine ⟨by rw [h3, ← h2, cum_append_length], by simp; omega, ?_⟩
  intro hr; subst hr; simp [h2]

/-- one walk: the pointer stops at the first position (from `i` on) whose cumulative weight reaches
`distance`, or at the last position -/
theorem susInner_spec (ws : List F) (distance : F) (rest : List F) (i : Nat) (sumW : F)
    (hinv : SusInv ws rest i sumW) :
    SusInv ws (susInner distance rest i sumW).2.2 (susInner distance rest i sumW).1
      (susInner distance rest i sumW).2.1 ∧
    i ≤ (susInner distance rest i sumW).1 ∧
    ((susInner distance rest i sumW).1 = i ∨ cum ws (susInner distance rest i sumW).1 < distance) ∧
    (distance ≤ cum ws ((susInner distance rest i sumW).1 + 1) ∨
      (susInner distance rest i sumW).1 + 1 = ws.length) := by
  induction rest generalizing i sumW with
  | nil =>
    have e : susInner distance [] i sumW = if sumW < distance then (i, sumW, []) else (i, sumW, []) := by
      rw [susInner]
    rw [e]
    obtain ⟨hc, _, hl⟩ := hinv.cum
    split
    · exact ⟨hinv, le_refl _, Or.inl rfl, Or.inr (hl rfl)⟩
    · next hn => exact ⟨hinv, le_refl _, Or.inl rfl, Or.inl (by rw [← hc]; exact not_lt.mp hn)⟩
  | cons w rest ih =>
    have e : susInner distance (w :: rest) i sumW =
        if sumW < distance then susInner distance rest (i + 1) (sumW + w) else (i, sumW, w :: rest) := by
      rw [susInner]
    rw [e]
    obtain ⟨hc, _, _⟩ := hinv.cum
    split
    · next hlt =>
      have hinv' : SusInv ws rest (i + 1) (sumW + w) := by
        obtain ⟨pre, h1, h2, h3⟩ := hinv
        exact ⟨pre ++ [w], by simp [h1], by simp [h2], by rw [sum_append, h3, sum_cons, sum_nil, add_zero]⟩
      obtain ⟨g1, g2, g3, g4⟩ := ih (i + 1) (sumW + w) hinv'
      refine ⟨g1, by omega, ?_, g4⟩
      rcases g3 with g3 | g3
      · right; rw [g3, ← hc]; exact hlt
      · right; exact g3
    · next hn => exact ⟨hinv, le_refl _, Or.inl rfl, Or.inl (by rw [← hc]; exact not_lt.mp hn)⟩

/-- what SUS promises about the `k`-th, `k+1`-th, … selected positions -/
def SusOK (ws : List F) (start gaps : F) : Nat → Nat → List Nat → Prop
  | _, _, [] => True
  | k, lo, idx :: l =>
    (lo ≤ idx ∧ idx < ws.length ∧
     (idx = 0 ∨ cum ws idx < start + (k : F) * gaps) ∧
     (start + (k : F) * gaps ≤ cum ws (idx + 1) ∨ idx + 1 = ws.length)) ∧
    SusOK ws start gaps (k + 1) idx l

theorem susGo_ok (O : Ops F) (hcast : ∀ k : Nat, O.ofNat k = (k : F)) (ws : List F) (start gaps : F)
    (hg : 0 ≤ gaps) (cnt k : Nat) (rest : List F) (i : Nat) (sumW : F)
    (hinv : SusInv ws rest i sumW) (hlb : i = 0 ∨ cum ws i < start + (k : F) * gaps) :
    SusOK ws start gaps k i (susGo O start gaps cnt k rest i sumW) := by
  induction cnt generalizing k rest i sumW with
  | zero => simp [susGo, SusOK]
  | succ cnt ih =>
    simp only [susGo, hcast]
    obtain ⟨g1, g2, g3, g4⟩ := susInner_spec ws (start + (k : F) * gaps) rest i sumW hinv
    have hlb' : (susInner (start + (k : F) * gaps) rest i sumW).1 = 0 ∨
        cum ws (susInner (start + (k : F) * gaps) rest i sumW).1 < start + (k : F) * gaps := by
      rcases g3 with g3 | g3
      · rw [g3]; exact hlb
      · exact Or.inr g3
    refine ⟨⟨g2, g1.cum.2.1, hlb', g4⟩, ?_⟩
    apply ih (k + 1) _ _ _ g1
    rcases hlb' with h | h
    · exact Or.inl h
    · right
      have : start + (k : F) * gaps ≤ start + ((k + 1 : Nat) : F) * gaps := by
        push_cast; nlinarith
      exact lt_of_lt_of_le h this

theorem SusOK.get {ws : List F} {start gaps : F} {k lo : Nat} {l : List Nat} (h : SusOK ws start gaps k lo l)
    (j : Nat) (hj : j < l.length) :
    lo ≤ l[j] ∧ l[j] < ws.length ∧ (l[j] = 0 ∨ cum ws l[j] < start + ((k + j : Nat) : F) * gaps) ∧
    (start + ((k + j : Nat) : F) * gaps ≤ cum ws (l[j] + 1) ∨ l[j] + 1 = ws.length) := by
  induction l generalizing k lo j with
  | nil => simp at hj
  | cons idx l ih =>
    obtain ⟨h1, h2⟩ := h
    cases j with
    | zero => simpa using h1
    | succ j =>
      have := ih h2 j (by simpa using hj)
      simp only [List.getElem_cons_succ]
      have e : k + (j + 1) = k + 1 + j := by omega
      rw [e]
      exact ⟨by omega, this.2⟩

theorem SusOK.sorted {ws : List F} {start gaps : F} {k lo : Nat} {l : List Nat} (h : SusOK ws start gaps k lo l) :
    (∀ x ∈ l, lo ≤ x) ∧ l.Pairwise (· ≤ ·) := by
  induction l generalizing k lo with
  | nil => simp
  | cons idx l ih =>
    obtain ⟨h1, h2⟩ := h
    obtain ⟨i1, i2⟩ := ih h2
    refine ⟨?_, List.pairwise_cons.mpr ⟨i1, i2⟩⟩
    intro x hx
    rcases List.mem_cons.mp hx with rfl | hx
    · exact h1.1
    · exact le_trans h1.1 (i1 x hx)

/-- Functional specification of SUS in exact arithmetic (non-negative weights, draw `u ∈ [0,1)`):
`n` positions, in population order, and the `k`-th one is the FIRST position whose cumulative weight
reaches the `k`-th selection point `(u + k)·total/n` — "the individual for which the selection point
falls within its fitness range". -/
theorem susIndices_spec (O : Ops F) (hcast : ∀ k : Nat, O.ofNat k = (k : F)) (ws : List F) (n : Nat) (u : F)
    (is : List Nat) (hu1 : u < 1)
    (h : susIndices O ws n u = .ok is) :
    is.length = n ∧ is.Pairwise (· ≤ ·) ∧
    ∀ k (hk : k < is.length), is[k] < ws.length ∧
      (is[k] = 0 ∨ cum ws is[k] < (u + (k : F)) * (sum ws / (n : F))) ∧
      (u + (k : F)) * (sum ws / (n : F)) ≤ cum ws (is[k] + 1) := by
  have hlen := (susIndices_count O ws n u is h).1
  simp only [susIndices] at h
  split_ifs at h with htot
  cases ws with
  | nil => cases h
  | cons w0 rest =>
    simp only at h
    injection h with h
    rw [hcast] at h
    set total := sum (w0 :: rest) with htotal
    set gaps := total / (n : F) with hgaps
    have hg : 0 ≤ gaps := div_nonneg (le_of_lt htot) (Nat.cast_nonneg n)
    have hinv : SusInv (w0 :: rest) rest 0 w0 := ⟨[w0], rfl, rfl, by rw [sum_cons, sum_nil, add_zero]⟩
    have hok := susGo_ok O hcast (w0 :: rest) (u * gaps) gaps hg n 0 rest 0 w0 hinv (Or.inl rfl)
    rw [h] at hok
    refine ⟨hlen, hok.sorted.2, ?_⟩
    intro k hk
    obtain ⟨_, g2, g3, g4⟩ := hok.get k hk
    have hd : u * gaps + ((0 + k : Nat) : F) * gaps = (u + (k : F)) * gaps := by
      simp only [Nat.zero_add]; ring
    rw [hd] at g3 g4
    refine ⟨g2, g3, ?_⟩
    rcases g4 with g4 | g4
    · exact g4
    · -- the last position: its cumulative weight is the total, and every point lies below the total
      rw [g4, cum_length]
      have hn : 0 < (n : F) := by
        have : 0 < n := by omega
        exact_mod_cast this
      have hk' : (k : F) + 1 ≤ (n : F) := by
        have : k + 1 ≤ n := by omega
        exact_mod_cast this
      have hgp : 0 < gaps := div_pos htot hn
      have : (u + (k : F)) * gaps ≤ (n : F) * gaps := by
        apply mul_le_mul_of_nonneg_right _ hg
        linarith
      have hng : (n : F) * gaps = total := by
        rw [hgaps]
        calc (n : F) * (total / (n : F)) = total * ((n : F) / (n : F)) := by ring
          _ = total := by rw [div_self (ne_of_gt hn), mul_one]
      rw [hng] at this
      exact this

theorem cum_succ (ws : List F) (i : Nat) (hi : i < ws.length) : cum ws (i + 1) = cum ws i + ws[i] := by
  simp only [cum]
  rw [List.take_succ_eq_append_getElem hi, sum_append, sum_cons, sum_nil, add_zero]

/-- SUS hands out copies in proportion to the weights, up to one copy: with `g = total/n` the distance
between selection points,
(a) if the `k₁`-th and the `k₂`-th point (`k₁ ≤ k₂`) both select position `i`, then `(k₂ - k₁)·g ≤ wᵢ`
    — at most `⌊wᵢ/g⌋ + 1` copies;
(b) if the `k₁`-th point selects a position before `i` and the `k₂`-th one a position after `i`, then
    `wᵢ < (k₂ - k₁)·g` — with `c` copies in between (`k₂ - k₁ = c + 1`): `c > wᵢ/g - 1`; in particular a
    member skipped between two selected ones has weight `< g = total/n`;
(c), (d) the same at the two ends of the wheel: a member before the position selected by the `k₂`-th point
    has weight `< (u + k₂)·g`, a member after the position selected by the `k₁`-th point has weight
    `≤ (n - u - k₁)·g` — so a member before the first / after the last selected one has weight `≤ g`. -/
theorem sus_spans (O : Ops F) (hcast : ∀ k : Nat, O.ofNat k = (k : F)) (ws : List F) (n : Nat) (u : F)
    (is : List Nat) (hw : ∀ w ∈ ws, 0 ≤ w) (hu0 : 0 ≤ u) (hu1 : u < 1)
    (h : susIndices O ws n u = .ok is) (i : Nat) (hi : i < ws.length)
    (k1 k2 : Nat) (h1 : k1 < is.length) (h2 : k2 < is.length) :
    (k1 ≤ k2 → is[k1] = i → is[k2] = i → ((k2 : F) - (k1 : F)) * (sum ws / (n : F)) ≤ ws[i]) ∧
    (is[k1] < i → i < is[k2] → ws[i] < ((k2 : F) - (k1 : F)) * (sum ws / (n : F))) ∧
    (i < is[k2] → ws[i] < (u + (k2 : F)) * (sum ws / (n : F))) ∧
    (0 < n → is[k1] < i → ws[i] ≤ ((n : F) - u - (k1 : F)) * (sum ws / (n : F))) := by
  obtain ⟨_, _, hspec⟩ := susIndices_spec O hcast ws n u is hu1 h
  have hg : 0 ≤ sum ws / (n : F) := div_nonneg (sum_nonneg ws hw) (Nat.cast_nonneg n)
  obtain ⟨_, a2, a3⟩ := hspec k1 h1
  obtain ⟨_, b2, b3⟩ := hspec k2 h2
  have hsucc := cum_succ ws i hi
  have hupper : i < is[k2] → cum ws (i + 1) < (u + (k2 : F)) * (sum ws / (n : F)) := by
    intro e2
    rcases b2 with b2 | b2
    · omega
    · exact lt_of_le_of_lt (cum_mono ws hw _ _ (by omega)) b2
  have hlower : is[k1] < i → (u + (k1 : F)) * (sum ws / (n : F)) ≤ cum ws i := fun e1 =>
    le_trans a3 (cum_mono ws hw _ _ (by omega))
  have hc0 : 0 ≤ cum ws i := by rw [← cum_zero ws]; exact cum_mono ws hw 0 i (Nat.zero_le _)
  refine ⟨?_, ?_, ?_, ?_⟩
  · intro _ e1 e2
    rw [e1] at a2; rw [e2] at b3
    have hlow : cum ws i ≤ (u + (k1 : F)) * (sum ws / (n : F)) := by
      rcases a2 with a2 | a2
      · rw [a2, cum_zero]
        exact mul_nonneg (add_nonneg hu0 (Nat.cast_nonneg k1)) hg
      · exact le_of_lt a2
    have : ((k2 : F) - (k1 : F)) * (sum ws / (n : F)) =
        (u + (k2 : F)) * (sum ws / (n : F)) - (u + (k1 : F)) * (sum ws / (n : F)) := by ring
    rw [this]; linarith
  · intro e1 e2
    have hlow := hlower e1
    have hup := hupper e2
    have : ((k2 : F) - (k1 : F)) * (sum ws / (n : F)) =
        (u + (k2 : F)) * (sum ws / (n : F)) - (u + (k1 : F)) * (sum ws / (n : F)) := by ring
    rw [this]; linarith
  · intro e2
    have hup := hupper e2
    linarith
  · intro hn e1
    have hlow := hlower e1
    have htot : cum ws (i + 1) ≤ sum ws := cum_le_total ws hw (i + 1)
    have hn' : (n : F) ≠ 0 := by exact_mod_cast (Nat.pos_iff_ne_zero.mp hn)
    have : ((n : F) - u - (k1 : F)) * (sum ws / (n : F)) =
        sum ws * ((n : F) / (n : F)) - (u + (k1 : F)) * (sum ws / (n : F)) := by ring
    rw [this, div_self hn', mul_one]; linarith

end
end MahfModel.Selection
