/- Helper lemmas for C04 (population stack). Core only. -/
import MahfModel.Model.PopStack
namespace MahfModel.PopStack

theorem vecPop_nil : vecPop [] = none := rfl

theorem vecPop_concat (r : Stk) (p : Pop) : vecPop (r ++ [p]) = some (p, r) := by
  simp [vecPop]

theorem abs_concat (r : Stk) (p : Pop) : abs (r ++ [p]) = p :: abs r := by
  simp [abs]

theorem abs_nil : abs ([] : Stk) = [] := rfl

theorem abs_length (s : Stk) : (abs s).length = s.length := by simp [abs]

theorem tryPeek_eq (s : Stk) (d : Nat) : tryPeek s d = (abs s)[d]? := by
  unfold tryPeek abs
  by_cases h : d < s.length
  · have h1 : ¬ s.length < 1 := by omega
    have h2 : ¬ s.length - 1 < d := by omega
    simp only [h1, h2, if_false]
    rw [List.getElem?_reverse h]
  · have : s.reverse[d]? = none := by
      apply List.getElem?_eq_none; simp; omega
    rw [this]
    by_cases h1 : s.length < 1
    · simp [h1]
    · have h2 : s.length - 1 < d := by omega
      simp [h1, h2]

theorem rotR1_concat (l : List Pop) (x : Pop) : rotR1 (l ++ [x]) = x :: l := by
  simp [rotR1]

theorem rotR1_nil : rotR1 [] = [] := rfl

theorem rotate_eq (s : Stk) (n : Nat) (h : n ≤ s.length) :
    ∃ s', rotate s n = some s' ∧ abs s' = specRot (abs s) n := by
  unfold rotate
  have h' : ¬ s.length < n := by omega
  simp only [h', if_false]
  refine ⟨_, rfl, ?_⟩
  have hsplit : s = s.take (s.length - n) ++ s.drop (s.length - n) := (List.take_append_drop _ _).symm
  generalize hpre : s.take (s.length - n) = pre at *
  generalize hseg : s.drop (s.length - n) = seg at *
  have hlen : seg.length = n := by rw [← hseg]; simp; omega
  subst hsplit
  unfold specRot abs
  rcases List.eq_nil_or_concat seg with hnil | ⟨seg', x, hx⟩
  · subst hnil
    have : n = 0 := by simpa using hlen.symm
    subst this
    simp [rotR1]
  · subst hx
    simp only [List.concat_eq_append] at *
    rw [rotR1_concat]
    have hn : n = seg'.length + 1 := by simpa using hlen.symm
    subst hn
    simp [List.take_append, List.drop_append]

theorem rotate_none (s : Stk) (n : Nat) (h : s.length < n) : rotate s n = none := by
  simp [rotate, h]

theorem step_refines (s : Stk) (op : Op) :
    abs (step s op).1 = (specStep (abs s) op).1 ∧ (step s op).2 = (specStep (abs s) op).2 := by
  cases op with
  | push p => simp [step, specStep, abs]
  | reset => simp [step, specStep, abs]
  | pop | tryPop | cur | getCur | cClear | cDup =>
    rcases List.eq_nil_or_concat s with h | ⟨r, p, h⟩ <;> subst h <;>
      simp [step, specStep, vecPop, abs]
  | edit e | tryEdit e =>
    rcases List.eq_nil_or_concat s with h | ⟨r, q, h⟩
    · subst h; simp [step, specStep, vecPop, abs]
    · subst h
      cases he : applyEdit e q <;> simp [step, specStep, vecPop, abs, he]
  | peek d | tryPeek d =>
    simp only [step, specStep, tryPeek_eq]
    cases (abs s)[d]? <;> simp
  | rot n =>
    simp only [step, specStep, abs_length]
    by_cases h : s.length < n
    · simp [rotate_none s n h, h]
    · obtain ⟨s', h1, h2⟩ := rotate_eq s n (by omega)
      simp [h1, h2, h]
  | len => simp [step, specStep, abs_length]
  | empty => simp [step, specStep, abs]
  | cRot n =>
    simp only [step, specStep, abs_length]
    by_cases h : s.length < n
    · simp [h]
    · obtain ⟨s', h1, h2⟩ := rotate_eq s n (by omega)
      simp [h1, h2, h]
  | cIleave w =>
    rcases List.eq_nil_or_concat s with h | ⟨r, p, h⟩
    · subst h; simp [step, specStep, vecPop, abs]
    · subst h
      rcases List.eq_nil_or_concat r with h | ⟨r', q, h⟩ <;> subst h
      · by_cases hw : w = some 1 <;> simp [step, specStep, vecPop, abs, hw]
      · simp [step, specStep, vecPop, abs]
  | cSplit w ws =>
    rcases List.eq_nil_or_concat s with h | ⟨r, p, h⟩
    · subst h; simp [step, specStep, vecPop, abs]
    · subst h
      cases hs : splitPop p ws with
      | none =>
        by_cases hw : w = some (r.length + 1) <;> simp [step, specStep, vecPop, abs, hs, hw]
      | some lu => obtain ⟨l, u⟩ := lu; simp [step, specStep, vecPop, abs, hs]
  | cEval =>
    rcases List.eq_nil_or_concat s with h | ⟨r, p, h⟩ <;> subst h <;>
      simp [step, specStep, vecPop, abs]
  | cFrame need takes puts w =>
    have htake : ∀ h, h ≤ s.length → abs (s.take h) = (abs s).drop (s.length - h) := by
      intro h _; simp [abs, List.reverse_take]
    have hcanon : abs (frameCanon s takes puts).1 = (specFrameCanon (abs s) takes puts).1 ∧
        (frameCanon s takes puts).2 = (specFrameCanon (abs s) takes puts).2 := by
      by_cases ht : takes ≤ s.length
      · simp only [frameCanon, specFrameCanon, and_true]
        rw [show abs (s.take (s.length - takes) ++ List.replicate puts []) =
          (List.replicate puts ([] : Pop)).reverse ++ abs (s.take (s.length - takes)) by simp [abs]]
        rw [htake _ (by omega), List.reverse_replicate]
        congr 2; omega
      · have h0 : s.length - takes = 0 := by omega
        simp only [frameCanon, specFrameCanon, and_true, h0, List.take_zero, List.nil_append]
        rw [List.drop_of_length_le (by simp [abs]; omega)]
        simp [abs]
    simp only [step, specStep, abs_length]
    by_cases hf : frameFits s.length need takes = true
    · have ht : takes ≤ s.length := by simp [frameFits] at hf; exact hf.2
      simp only [hf, if_true]
      cases w with
      | none => exact hcanon
      | some w =>
        cases w with
        | ok new =>
          by_cases hl : new.length = puts
          · simp only [hl, if_true, and_true]
            rw [show abs (s.take (s.length - takes) ++ new.reverse) = new ++ abs (s.take (s.length - takes)) by
              simp [abs]]
            rw [htake _ (by omega)]
            congr 2; omega
          · simp only [hl, if_false]; exact hcanon
        | fail pn h =>
          by_cases hh : s.length - takes ≤ h ∧ h ≤ s.length
          · dsimp only; rw [if_pos hh, if_pos hh]; cases pn <;> exact ⟨htake h hh.2, rfl⟩
          · dsimp only; rw [if_neg hh, if_neg hh]; exact hcanon
    · have hf' : frameFits s.length need takes = false := by simpa using hf
      simp only [hf', Bool.false_eq_true, if_false]
      cases w with
      | none => simp
      | some w =>
        cases w with
        | ok new => simp
        | fail pn h =>
          cases pn with
          | false => simp
          | true =>
            by_cases hh : s.length - takes ≤ h ∧ h ≤ s.length
            · dsimp only; rw [if_pos hh, if_pos hh]; exact ⟨htake h hh.2, rfl⟩
            · dsimp only; rw [if_neg hh, if_neg hh]; exact ⟨rfl, rfl⟩

/-- `k`-fold application. -/
def iter {α : Type} (f : α → α) : Nat → α → α
  | 0, a => a
  | k + 1, a => iter f k (f a)

/-- Rotating a head-is-top list left by one, `k` times, is `drop k ++ take k`. -/
def rotL1 : List Pop → List Pop
  | [] => []
  | t :: r => r ++ [t]

theorem rotL1_length (l : List Pop) : (rotL1 l).length = l.length := by
  cases l <;> simp [rotL1]

theorem rotL1_iter (l : List Pop) (k : Nat) (h : k ≤ l.length) :
    iter rotL1 k l = l.drop k ++ l.take k := by
  induction k generalizing l with
  | zero => simp [iter]
  | succ k ih =>
    cases l with
    | nil => simp at h
    | cons t r =>
      simp only [iter, rotL1]
      rw [ih _ (by simp at h ⊢; omega)]
      simp at h
      simp [List.drop_append, List.take_append, show k - r.length = 0 by omega]

theorem specRot_eq (s : Spec) (n : Nat) : specRot s n = rotL1 (s.take n) ++ s.drop n := by
  unfold specRot
  cases h : s.take n with
  | nil =>
    simp [rotL1]
    have := List.take_append_drop n s
    rw [h] at this; simpa using this.symm
  | cons t r => simp [rotL1]

theorem specRot_iter (s : Spec) (n k : Nat) (hn : n ≤ s.length) :
    iter (fun x => specRot x n) k s = iter rotL1 k (s.take n) ++ s.drop n := by
  induction k generalizing s with
  | zero => simp [iter]
  | succ k ih =>
    simp only [iter]
    have hl : (specRot s n).length = s.length := by
      rw [specRot_eq]; simp [rotL1_length]; omega
    rw [ih _ (by omega)]
    rw [specRot_eq]
    have h1 : (rotL1 (List.take n s)).length = n := by simp [rotL1_length]; omega
    simp [List.take_append, List.drop_append, h1]

/-! ### Split: every legal outcome has the stated shape, and the stable sort is a legal outcome. -/

theorem splitLegal_spec (p l u : Pop) (hs : splittable p = true) (h : splitLegal p l u = true) :
    (l ++ u).Perm p ∧ l.length = (p.length + 1) / 2 ∧ u.length = p.length / 2 ∧
    (l ++ u).Pairwise (fun a b => key a ≤ key b) ∧
    (∀ a ∈ l ++ u, ∃ x, a.obj = some x ∧ key a = x) := by
  simp only [splitLegal, Bool.and_eq_true, decide_eq_true_eq, List.isPerm_iff] at h
  obtain ⟨⟨h1, h2⟩, h3⟩ := h
  simp only [splittable, Bool.and_eq_true, decide_eq_true_eq, List.all_eq_true] at hs
  refine ⟨h2, h1, ?_, h3, ?_⟩
  · have := h2.length_eq
    simp only [List.length_append] at this
    omega
  · intro a ha
    have hm : a ∈ p := h2.subset ha
    have := hs.2 a hm
    cases ho : a.obj with
    | none => simp [ho] at this
    | some x => exact ⟨x, rfl, by simp [key, ho]⟩

theorem splitCanon_legal (p : Pop) : splitLegal p (splitCanon p).1 (splitCanon p).2 = true := by
  simp only [splitLegal, splitCanon, Bool.and_eq_true, decide_eq_true_eq, List.isPerm_iff,
    List.take_append_drop]
  refine ⟨⟨?_, List.mergeSort_perm _ _⟩, ?_⟩
  · simp [List.length_mergeSort]; omega
  · have := List.pairwise_mergeSort (le := objLe)
      (fun a b c hab hbc => by simp only [objLe, decide_eq_true_eq] at *; omega)
      (fun a b => by simp only [objLe, Bool.or_eq_true, decide_eq_true_eq]; omega) p
    simpa [objLe] using this

theorem splitPop_some (p : Pop) (ws : Option (Pop × Pop)) (l u : Pop) (h : splitPop p ws = some (l, u)) :
    splittable p = true ∧ splitLegal p l u = true := by
  unfold splitPop at h
  by_cases hs : splittable p = true
  · simp only [hs, if_true] at h
    refine ⟨hs, ?_⟩
    cases ws with
    | none =>
      simp only [Option.some.injEq] at h
      have := splitCanon_legal p
      rw [h] at this; exact this
    | some w =>
      obtain ⟨wl, wu⟩ := w
      simp only at h
      split at h
      · next hl => simp only [Option.some.injEq, Prod.mk.injEq] at h; rw [← h.1, ← h.2]; exact hl
      · simp only [Option.some.injEq] at h
        have := splitCanon_legal p
        rw [h] at this; exact this
  · simp [hs] at h

/-! ### Vocabulary of the conservation theorem -/

/-- The plain stack operations (no edits, no utility components). -/
def stackOp : Op → Bool
  | .push _ | .pop | .tryPop | .cur | .getCur | .peek _ | .tryPeek _ | .rot _ | .cRot _ | .len | .empty => true
  | _ => false

def pushedBy : Op → List Pop
  | .push p => [p]
  | _ => []

def removedBy : Op → Out → List Pop
  | .pop, .pop p => [p]
  | .tryPop, .pop p => [p]
  | _, _ => []

def pushedAll (ops : List Op) : List Pop := ops.flatMap pushedBy

def removedAll : List Op → List Out → List Pop
  | op :: ops, o :: os => removedBy op o ++ removedAll ops os
  | _, _ => []

/-! ### Interleave / Duplicate -/

theorem interleave_nil_right (a : Pop) : interleave a [] = a := by
  cases a <;> simp [interleave]

/-- `interleave a b` alternates `a[0], b[0], a[1], b[1], …` as long as both last, then appends what is left of the longer. -/
theorem interleave_eq (a b : Pop) :
    interleave a b = (List.zip a b).flatMap (fun xy => [xy.1, xy.2]) ++ a.drop b.length ++ b.drop a.length := by
  induction a generalizing b with
  | nil => simp [interleave]
  | cons x xs ih =>
    cases b with
    | nil => simp [interleave]
    | cons y ys => simp [interleave, ih ys]

theorem interleave_perm (a b : Pop) : (interleave a b).Perm (a ++ b) := by
  induction a generalizing b with
  | nil => simp [interleave]
  | cons x xs ih =>
    cases b with
    | nil => simp [interleave]
    | cons y ys =>
      simp only [interleave, List.cons_append]
      refine List.Perm.cons x ?_
      have := (ih ys).cons y
      exact this.trans (List.perm_middle.symm)

theorem interleave_sublist_left (a b : Pop) : a.Sublist (interleave a b) := by
  induction a generalizing b with
  | nil => simp
  | cons x xs ih =>
    cases b with
    | nil => simp [interleave]
    | cons y ys =>
      simp only [interleave]
      exact ((ih ys).cons y).cons_cons x

theorem interleave_sublist_right (a b : Pop) : b.Sublist (interleave a b) := by
  induction a generalizing b with
  | nil => simp [interleave]
  | cons x xs ih =>
    cases b with
    | nil => simp
    | cons y ys =>
      simp only [interleave]
      exact ((ih ys).cons_cons y).cons x

theorem interleave_self (p : Pop) : interleave p p = p.flatMap (fun i => [i, i]) := by
  induction p with
  | nil => simp [interleave]
  | cons x xs ih => simp [interleave, ih]

end MahfModel.PopStack
