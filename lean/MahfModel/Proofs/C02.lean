/- Helper lemmas for C02 (dynamic borrows, multi-borrow, holding). Core only. -/
import MahfModel.Model.Borrow
import MahfModel.Proofs.C01
namespace MahfModel.Borrow
open MahfModel.Registry

/-! ### statements keep the registry well-formed -/

theorem inv_intoChild (r : Reg) (h : Inv r) : Inv (intoChild r) :=
  ⟨by simp [intoChild], by simp [intoChild, quiet_cons, h.2, Scope.quiet]⟩

theorem nodupKeys_intoChild (r : Reg) (h : nodupKeys r) : nodupKeys (intoChild r) := by
  simp only [intoChild, nodupKeys_cons]; exact ⟨by simp [Scope.nodupKeys, Scope.keys], h⟩

theorem intoParent_some (r p : Reg) (c : Scope) (h : intoParent r = (some p, c)) : r = c :: p ∧ p ≠ [] := by
  cases r with
  | nil => simp [intoParent] at h
  | cons s t =>
    cases t with
    | nil => simp [intoParent] at h
    | cons s' t' => simp [intoParent] at h; obtain ⟨h1, h2⟩ := h; subst h1 h2; simp

mutual
  theorem execStmt_inv (s : Stmt) (r : Reg) (h : Inv r) (hn : nodupKeys r) :
      Inv (execStmt r s).1 ∧ nodupKeys (execStmt r s).1 := by
    cases s with
    | op o =>
      simp only [execStmt]
      exact ⟨(Registry.step_refines r o h).1, step_nodupKeys r o hn⟩
    | hold k d ok body =>
      simp only [execStmt]
      split
      · exact ⟨h, hn⟩
      · rename_i i _
        split
        · exact ⟨h, hn⟩
        · rename_i c _
          have h1 := inv_put_at r i (markerOf k) 0 h
          have n1 := nodupKeys_put_at r i (markerOf k) (fresh 0) hn
          have h2 := inv_erase_at _ i k h1
          have n2 := nodupKeys_erase_at _ i k n1
          have ih := execProg_inv body _ h2 n2
          split
          · exact ih
          · rename_i j _
            have h4 := inv_put_at _ j k (c.val + d) ih.1
            have n4 := nodupKeys_put_at _ j k (fresh (c.val + d)) ih.2
            exact ⟨inv_erase_at _ j _ h4, nodupKeys_erase_at _ j _ n4⟩
    | inner ok body =>
      simp only [execStmt]
      have ih := execProg_inv body _ (inv_intoChild r h) (nodupKeys_intoChild r hn)
      split
      · rename_i p child heq
        obtain ⟨h1, h2⟩ := intoParent_some _ p child heq
        rw [h1] at ih
        obtain ⟨⟨_, hq⟩, hnk⟩ := ih
        simp only [quiet_cons, Bool.and_eq_true] at hq
        rw [nodupKeys_cons] at hnk
        exact ⟨⟨h2, hq.2⟩, hnk.2⟩
      · exact ⟨inv_new, by simp [new, nodupKeys, Scope.nodupKeys, Scope.keys]⟩
  theorem execProg_inv (p : Prog) (r : Reg) (h : Inv r) (hn : nodupKeys r) :
      Inv (execProg r p).1 ∧ nodupKeys (execProg r p).1 := by
    cases p with
    | nil => exact ⟨h, hn⟩
    | cons s rest =>
      simp only [execProg]
      have h1 := execStmt_inv s r h hn
      exact execProg_inv rest _ h1.1 h1.2
end

/-! ### cells under a single-cell update -/

theorem modifyAt_ge {α : Type} (l : List α) (i : Nat) (f : α → α) (h : l.length ≤ i) : modifyAt l i f = l := by
  induction l generalizing i with
  | nil => rfl
  | cons a t ih =>
    cases i with
    | zero => simp at h
    | succ i => simp only [modifyAt]; rw [ih i (by simpa using h)]

theorem scopeAt_ge (r : Reg) (i : Nat) (h : r.length ≤ i) : scopeAt r i = [] := by
  simp [scopeAt, List.getD, List.getElem?_eq_none h]

theorem cellAt_modify_at (r : Reg) (i : Nat) (k : Key) (f : Cell → Cell) (j : Nat) (q : Key) :
    cellAt (modifyAt r i (·.modify k f)) j q =
      if j = i ∧ q = k then (cellAt r i k).map f else cellAt r j q := by
  by_cases hi : i < r.length
  · simp only [cellAt, scopeAt_modifyAt r i j _ hi]
    by_cases hj : j = i
    · subst hj; simp only [if_true, true_and, Scope.get?_modify]
    · simp [hj]
  · have hi' : r.length ≤ i := by omega
    rw [modifyAt_ge r i _ hi']
    split
    · rename_i h; obtain ⟨h1, h2⟩ := h; subst h1 h2
      simp [cellAt, scopeAt_ge r j hi']
    · rfl

theorem cellAt_put_at (r : Reg) (i : Nat) (k : Key) (c : Cell) (j : Nat) (q : Key) (hi : i < r.length) :
    cellAt (modifyAt r i (·.put k c)) j q = if j = i ∧ q = k then some c else cellAt r j q := by
  simp only [cellAt, scopeAt_modifyAt r i j _ hi]
  by_cases hj : j = i
  · subst hj; simp only [if_true, true_and, Scope.get?_put]
  · simp [hj]

theorem cellAt_erase_at (r : Reg) (i : Nat) (k : Key) (j : Nat) (q : Key) (hi : i < r.length) :
    cellAt (modifyAt r i (·.erase k)) j q = if j = i ∧ q = k then none else cellAt r j q := by
  simp only [cellAt, scopeAt_modifyAt r i j _ hi]
  by_cases hj : j = i
  · subst hj; simp only [if_true, true_and, Scope.get?_erase]
  · simp [hj]

theorem cellAt_lt (r : Reg) (i : Nat) (k : Key) (c : Cell) (h : cellAt r i k = some c) : i < r.length := by
  by_cases hi : i < r.length
  · exact hi
  · simp [cellAt, scopeAt_ge r i (by omega)] at h

/-! ### the flag invariant -/

/-- Guard `g` is a shared (`excl = false`) / exclusive (`excl = true`) guard on the cell `(i, k)`. -/
def onCell (i : Nat) (k : Key) (excl : Bool) (g : Guard) : Bool := g.idx == i && g.key == k && (g.excl == excl)

/-- Number of live shared guards on the cell `(i, k)`. -/
def sharedOn (gs : List Guard) (i : Nat) (k : Key) : Nat := gs.countP (onCell i k false)
/-- Number of live exclusive guards on the cell `(i, k)`. -/
def exclOn (gs : List Guard) (i : Nat) (k : Key) : Nat := gs.countP (onCell i k true)

/-- In a reachable machine state every cell's `RefCell` flag says exactly which guards are alive on it. -/
structure FlagInv (m : M) : Prop where
  ne : m.reg ≠ []
  nk : nodupKeys m.reg
  ids : ∀ g ∈ m.guards, g.id < m.next
  nd : (m.guards.map (·.id)).Nodup
  present : ∀ i k c, cellAt m.reg i k = some c →
    c.readers = sharedOn m.guards i k ∧ (c.writer = true ↔ exclOn m.guards i k = 1) ∧
      exclOn m.guards i k ≤ 1 ∧ (c.writer = true → c.readers = 0)
  absent : ∀ i k, cellAt m.reg i k = none → sharedOn m.guards i k = 0 ∧ exclOn m.guards i k = 0

theorem flagInv_init : FlagInv M.init :=
  { ne := by simp [M.init, new]
    nk := by simp [M.init, new, nodupKeys, Scope.nodupKeys, Scope.keys]
    ids := by simp [M.init]
    nd := by simp [M.init]
    present := by intro i k c h; cases i <;> simp [M.init, new, cellAt, scopeAt] at h
    absent := by intro i k _; simp [M.init, sharedOn, exclOn] }

theorem Scope.get?_of_mem (s : Scope) (k : Key) (c : Cell) (hn : s.nodupKeys) (h : (k, c) ∈ s) :
    s.get? k = some c := by
  induction s with
  | nil => simp at h
  | cons e t ih =>
    obtain ⟨a, c'⟩ := e
    simp only [Scope.nodupKeys, Scope.keys, List.map_cons, List.nodup_cons] at hn
    simp only [Scope.get?_cons]
    rcases List.mem_cons.mp h with h1 | h1
    · cases h1; simp
    · have : a ≠ k := by
        intro hak; apply hn.1; subst hak
        exact List.mem_map.mpr ⟨(a, c), h1, rfl⟩
      simp [this]; exact ih hn.2 h1

theorem Scope.quiet_of_cells (s : Scope) (hn : s.nodupKeys)
    (h : ∀ k c, s.get? k = some c → c.readers = 0 ∧ c.writer = false) : s.quiet = true := by
  simp only [Scope.quiet, List.all_eq_true]
  intro e he
  obtain ⟨k, c⟩ := e
  have := h k c (Scope.get?_of_mem s k c hn he)
  simp [Cell.quiet, this.1, this.2]

theorem quiet_of_cells (r : Reg) (hn : nodupKeys r)
    (h : ∀ i k c, cellAt r i k = some c → c.readers = 0 ∧ c.writer = false) : quiet r = true := by
  induction r with
  | nil => rfl
  | cons s p ih =>
    rw [nodupKeys_cons] at hn
    simp only [quiet_cons, Bool.and_eq_true]
    refine ⟨Scope.quiet_of_cells s hn.1 (fun k c hc => h 0 k c (by simpa [cellAt, scopeAt_zero] using hc)), ?_⟩
    exact ih hn.2 (fun i k c hc => h (i + 1) k c (by simpa [cellAt, scopeAt_succ] using hc))

/-- With no guard alive the registry is quiescent (the C01 invariant). -/
theorem FlagInv.inv_of_no_guards (m : M) (h : FlagInv m) (hg : m.guards = []) : Inv m.reg := by
  refine ⟨h.ne, quiet_of_cells m.reg h.nk ?_⟩
  intro i k c hc
  obtain ⟨h1, h2, _, _⟩ := h.present i k c hc
  simp only [hg, sharedOn, exclOn, List.countP_nil] at h1 h2
  refine ⟨h1, ?_⟩
  cases hw : c.writer with
  | false => rfl
  | true => have := h2.mp hw; omega

theorem flagInv_of_inv (r : Reg) (n : Nat) (h : Inv r) (hn : nodupKeys r) :
    FlagInv { reg := r, guards := [], next := n } :=
  { ne := h.1, nk := hn, ids := by simp, nd := by simp
    present := by
      intro i k c hc
      obtain ⟨h1, h2⟩ := quiet_cell r i k c h.2 hc
      simp [sharedOn, exclOn, h1, h2]
    absent := by intro i k _; simp [sharedOn, exclOn] }

theorem onCell_new (n i k excl) (j : Nat) (q : Key) (e : Bool) :
    onCell j q e ⟨n, i, k, excl⟩ = (decide (i = j) && decide (k = q) && (excl == e)) := by
  simp only [onCell]
  congr 2

/-- The cell a granted request leaves behind. -/
def grantedCell (c : Cell) (excl : Bool) : Cell :=
  if excl then { c with writer := true } else { c with readers := c.readers + 1 }

theorem grant_inv (m : M) (h : FlagInv m) (i : Nat) (k : Key) (c : Cell) (excl : Bool)
    (hc : cellAt m.reg i k = some c) (hw : c.writer = false) (hr : excl = true → c.readers = 0) :
    FlagInv { reg := modifyAt m.reg i (·.modify k (fun _ => grantedCell c excl)),
              guards := ⟨m.next, i, k, excl⟩ :: m.guards, next := m.next + 1 } := by
  obtain ⟨p1, p2, p3, p4⟩ := h.present i k c hc
  have hex0 : exclOn m.guards i k = 0 := by
    have : ¬ exclOn m.guards i k = 1 := fun h1 => by have := p2.mpr h1; simp [hw] at this
    omega
  refine { ne := modifyAt_ne_nil _ _ _ h.ne,
           nk := nodupKeys_modifyAt _ _ _ h.nk (fun s hs => Scope.nodup_modify s k _ hs),
           ids := ?_, nd := ?_, present := ?_, absent := ?_ }
  · intro g hg
    rcases List.mem_cons.mp hg with rfl | hg
    · simp
    · have := h.ids g hg; simp only; omega
  · simp only [List.map_cons, List.nodup_cons]
    refine ⟨?_, h.nd⟩
    intro hmem
    obtain ⟨g, hg, hgid⟩ := List.mem_map.mp hmem
    have := h.ids g hg; omega
  · intro j q c' hc'
    simp only [cellAt_modify_at] at hc'
    simp only [sharedOn, exclOn, List.countP_cons, onCell_new]
    by_cases hjq : j = i ∧ q = k
    · obtain ⟨rfl, rfl⟩ := hjq
      simp only [and_self, if_true, hc, Option.map_some, Option.some.injEq] at hc'
      subst hc'
      simp only [sharedOn, exclOn] at p1 hex0
      cases excl with
      | true =>
        have := hr rfl
        simp [grantedCell, hex0, ← p1, this]
      | false =>
        simp [grantedCell, hex0, hw, ← p1]
    · simp only [hjq, if_false] at hc'
      obtain ⟨q1, q2, q3, q4⟩ := h.present j q c' hc'
      have : (decide (i = j) && decide (k = q)) = false := by
        cases hd : (decide (i = j) && decide (k = q)) with
        | false => rfl
        | true => simp at hd; exact absurd ⟨hd.1.symm, hd.2.symm⟩ hjq
      simp only [this, Bool.false_and, Bool.false_eq_true, if_false, Nat.add_zero]
      exact ⟨q1, q2, q3, q4⟩
  · intro j q hnone
    simp only [cellAt_modify_at] at hnone
    by_cases hjq : j = i ∧ q = k
    · obtain ⟨rfl, rfl⟩ := hjq
      simp [hc] at hnone
    · simp only [hjq, if_false] at hnone
      have := h.absent j q hnone
      have hd : (decide (i = j) && decide (k = q)) = false := by
        cases hd : (decide (i = j) && decide (k = q)) with
        | false => rfl
        | true => simp at hd; exact absurd ⟨hd.1.symm, hd.2.symm⟩ hjq
      simp only [sharedOn, exclOn, List.countP_cons, onCell_new, hd, Bool.false_and, Bool.false_eq_true,
        if_false, Nat.add_zero]
      exact this

theorem dropGuard_of_not_mem (gs : List Guard) (id : Nat) (h : id ∉ gs.map (·.id)) : dropGuard gs id = gs := by
  induction gs with
  | nil => rfl
  | cons g t ih =>
    simp only [List.map_cons, List.mem_cons, not_or] at h
    simp only [dropGuard, List.filter_cons]
    have : (g.id != id) = true := by simp; exact fun h' => h.1 h'.symm
    simp only [this, if_true]
    congr 1
    exact ih h.2

theorem countP_dropGuard (gs : List Guard) (gd : Guard) (P : Guard → Bool) (hmem : gd ∈ gs)
    (hnd : (gs.map (·.id)).Nodup) :
    (dropGuard gs gd.id).countP P + (if P gd then 1 else 0) = gs.countP P := by
  induction gs with
  | nil => simp at hmem
  | cons g t ih =>
    simp only [List.map_cons, List.nodup_cons] at hnd
    rcases List.mem_cons.mp hmem with rfl | hmem
    · have : dropGuard (gd :: t) gd.id = t := by
        simp only [dropGuard, List.filter_cons, bne_self_eq_false, Bool.false_eq_true, if_false]
        exact dropGuard_of_not_mem t gd.id hnd.1
      rw [this, List.countP_cons]
    · have hne : g.id ≠ gd.id := by
        intro he; apply hnd.1; rw [he]; exact List.mem_map.mpr ⟨gd, hmem, rfl⟩
      have : dropGuard (g :: t) gd.id = g :: dropGuard t gd.id := by
        simp [dropGuard, hne]
      rw [this, List.countP_cons, List.countP_cons]
      have := ih hmem hnd.2
      omega

theorem findGuard_some (gs : List Guard) (id : Nat) (gd : Guard) (h : findGuard gs id = some gd) :
    gd ∈ gs ∧ gd.id = id := by
  simp only [findGuard] at h
  exact ⟨List.mem_of_find?_eq_some h, by simpa using List.find?_some h⟩

theorem onCell_self (gd : Guard) : onCell gd.idx gd.key gd.excl gd = true := by simp [onCell]

theorem onCell_other (gd : Guard) (j : Nat) (q : Key) (e : Bool) (h : ¬ (j = gd.idx ∧ q = gd.key)) :
    onCell j q e gd = false := by
  cases hd : onCell j q e gd with
  | false => rfl
  | true => simp [onCell] at hd; exact absurd ⟨hd.1.1.symm, hd.1.2.symm⟩ h

theorem countP_pos_of_mem {α : Type} (l : List α) (P : α → Bool) (a : α) (h : a ∈ l) (hp : P a = true) :
    0 < l.countP P := List.countP_pos_iff.mpr ⟨a, h, hp⟩

/-- The cell a guard sits on exists. -/
theorem FlagInv.guard_cell (m : M) (h : FlagInv m) (gd : Guard) (hmem : gd ∈ m.guards) :
    ∃ c, cellAt m.reg gd.idx gd.key = some c := by
  cases hc : cellAt m.reg gd.idx gd.key with
  | some c => exact ⟨c, rfl⟩
  | none =>
    obtain ⟨h1, h2⟩ := h.absent gd.idx gd.key hc
    have := countP_pos_of_mem m.guards (onCell gd.idx gd.key gd.excl) gd hmem (onCell_self gd)
    cases he : gd.excl <;> simp only [he, sharedOn, exclOn] at * <;> omega

theorem release_inv (m : M) (h : FlagInv m) (gd : Guard) (hmem : gd ∈ m.guards) :
    FlagInv { m with reg := releaseAt m.reg gd.idx gd.key gd.excl, guards := dropGuard m.guards gd.id } := by
  obtain ⟨c, hc⟩ := h.guard_cell m gd hmem
  obtain ⟨p1, p2, p3, p4⟩ := h.present gd.idx gd.key c hc
  have hcnt := fun P => countP_dropGuard m.guards gd P hmem h.nd
  have hpos := countP_pos_of_mem m.guards (onCell gd.idx gd.key gd.excl) gd hmem (onCell_self gd)
  refine { ne := modifyAt_ne_nil _ _ _ h.ne,
           nk := nodupKeys_modifyAt _ _ _ h.nk (fun s hs => Scope.nodup_modify s _ _ hs),
           ids := ?_, nd := ?_, present := ?_, absent := ?_ }
  · intro g hg
    exact h.ids g (List.mem_filter.mp hg).1
  · exact h.nd.sublist ((List.filter_sublist).map _)
  · intro j q c' hc'
    simp only [releaseAt, cellAt_modify_at] at hc'
    have hs := hcnt (onCell j q false)
    have he := hcnt (onCell j q true)
    simp only [sharedOn, exclOn]
    by_cases hjq : j = gd.idx ∧ q = gd.key
    · obtain ⟨rfl, rfl⟩ := hjq
      simp only [and_self, if_true, hc, Option.map_some, Option.some.injEq] at hc'
      subst hc'
      simp only [sharedOn, exclOn] at p1 p2 p3 p4
      cases hx : gd.excl with
      | true =>
        have o1 : onCell gd.idx gd.key true gd = true := by have := onCell_self gd; rwa [hx] at this
        have o2 : onCell gd.idx gd.key false gd = false := by simp [onCell, hx]
        simp only [o1, o2, if_true, Bool.false_eq_true, if_false, Nat.add_zero] at hs he
        simp only [hx] at hpos
        have hw : c.writer = true := p2.mpr (by omega)
        have := p4 hw
        simp [Cell.release, hs, p1]
        omega
      | false =>
        have o1 : onCell gd.idx gd.key false gd = true := by have := onCell_self gd; rwa [hx] at this
        have o2 : onCell gd.idx gd.key true gd = false := by simp [onCell, hx]
        simp only [o1, o2, if_true, Bool.false_eq_true, if_false, Nat.add_zero] at hs he
        simp only [hx] at hpos
        have hw : c.writer = false := by
          cases hw : c.writer with
          | false => rfl
          | true => have := p4 hw; omega
        simp only [Cell.release, Bool.false_eq_true, if_false, he, hw]
        refine ⟨by omega, ?_, p3, by simp⟩
        constructor
        · intro hh; cases hh
        · intro hh; have := p2.mpr hh; simp [hw] at this
    · simp only [hjq, if_false] at hc'
      obtain ⟨q1, q2, q3, q4⟩ := h.present j q c' hc'
      simp only [onCell_other gd j q _ hjq, Bool.false_eq_true, if_false, Nat.add_zero] at hs he
      simp only [sharedOn, exclOn] at q1 q2 q3 q4
      rw [hs, he]; exact ⟨q1, q2, q3, q4⟩
  · intro j q hnone
    simp only [releaseAt, cellAt_modify_at] at hnone
    by_cases hjq : j = gd.idx ∧ q = gd.key
    · obtain ⟨rfl, rfl⟩ := hjq
      simp [hc] at hnone
    · simp only [hjq, if_false] at hnone
      have := h.absent j q hnone
      have hs := hcnt (onCell j q false)
      have he := hcnt (onCell j q true)
      simp only [onCell_other gd j q _ hjq, Bool.false_eq_true, if_false, Nat.add_zero] at hs he
      simp only [sharedOn, exclOn] at this ⊢
      rw [hs, he]; exact this

theorem sameFlags_inv (m : M) (h : FlagInv m) (i : Nat) (k : Key) (f : Cell → Cell)
    (hf : ∀ c, cellAt m.reg i k = some c → (f c).readers = c.readers ∧ (f c).writer = c.writer) :
    FlagInv { m with reg := modifyAt m.reg i (·.modify k f) } := by
  refine { ne := modifyAt_ne_nil _ _ _ h.ne,
           nk := nodupKeys_modifyAt _ _ _ h.nk (fun s hs => Scope.nodup_modify s _ _ hs),
           ids := h.ids, nd := h.nd, present := ?_, absent := ?_ }
  · intro j q c' hc'
    simp only [cellAt_modify_at] at hc'
    by_cases hjq : j = i ∧ q = k
    · obtain ⟨rfl, rfl⟩ := hjq
      simp only [and_self, if_true] at hc'
      cases hc : cellAt m.reg j q with
      | none => simp [hc] at hc'
      | some c =>
        simp only [hc, Option.map_some, Option.some.injEq] at hc'
        subst hc'
        obtain ⟨f1, f2⟩ := hf c hc
        have := h.present j q c hc
        simp only [f1, f2]; exact this
    · simp only [hjq, if_false] at hc'
      exact h.present j q c' hc'
  · intro j q hnone
    simp only [cellAt_modify_at] at hnone
    by_cases hjq : j = i ∧ q = k
    · obtain ⟨rfl, rfl⟩ := hjq
      simp only [and_self, if_true] at hnone
      cases hc : cellAt m.reg j q with
      | none => exact h.absent j q hc
      | some c => simp [hc] at hnone
    · simp only [hjq, if_false] at hnone
      exact h.absent j q hnone

theorem tryBorrow_ok_elim (p p' : Reg) (k : Key) (i : Nat) (h : tryBorrow p k = .ok (p', i)) :
    ∃ c, find p k = some i ∧ cellAt p i k = some c ∧ c.writer = false ∧
      p' = modifyAt p i (·.modify k (fun _ => grantedCell c false)) := by
  unfold tryBorrow at h
  cases hf : find p k with
  | none => simp [hf] at h
  | some j =>
    simp only [hf] at h
    cases hc : cellAt p j k with
    | none => simp [hc] at h
    | some c =>
      simp only [hc, Cell.tryBorrow] at h
      cases hw : c.writer with
      | true => simp [hw] at h
      | false =>
        simp only [hw, Bool.false_eq_true, if_false, Except.ok.injEq, Prod.mk.injEq] at h
        obtain ⟨h1, h2⟩ := h
        subst h2
        exact ⟨c, rfl, hc, hw, by rw [← h1]; simp [grantedCell, hw]⟩

theorem tryBorrowMut_ok_elim (p p' : Reg) (k : Key) (i : Nat) (h : tryBorrowMut p k = .ok (p', i)) :
    ∃ c, find p k = some i ∧ cellAt p i k = some c ∧ c.writer = false ∧ c.readers = 0 ∧
      p' = modifyAt p i (·.modify k (fun _ => grantedCell c true)) := by
  unfold tryBorrowMut at h
  cases hf : find p k with
  | none => simp [hf] at h
  | some j =>
    simp only [hf] at h
    cases hc : cellAt p j k with
    | none => simp [hc] at h
    | some c =>
      simp only [hc, Cell.tryBorrowMut] at h
      by_cases hb : (c.writer || c.readers != 0) = true
      · simp [hb] at h
      · simp only [hb] at h
        injection h with h
        injection h with h1 h2
        subst h2
        simp only [Bool.or_eq_true, bne_iff_ne, ne_eq, not_or, Bool.not_eq_true, Decidable.not_not] at hb
        exact ⟨c, rfl, hc, hb.1, hb.2, by rw [← h1]; simp [grantedCell, hb.2]⟩

theorem take_append_modifyAt_drop {α : Type} (l : List α) (d i : Nat) (F : α → α) :
    l.take d ++ modifyAt (l.drop d) i F = modifyAt l (d + i) F := by
  induction l generalizing d with
  | nil => simp [modifyAt]
  | cons a t ih =>
    cases d with
    | zero => simp
    | succ d =>
      have : d + 1 + i = (d + i) + 1 := by omega
      simp only [List.take_succ_cons, List.drop_succ_cons, List.cons_append, this, modifyAt, ih]

theorem cellAt_drop (r : Reg) (d i : Nat) (k : Key) : cellAt (r.drop d) i k = cellAt r (d + i) k := by
  simp [cellAt, scopeAt, List.getD, List.getElem?_drop]

theorem setValue_flags (r : Reg) (k : Key) (v : Nat) :
    (setValue r k v).1 = r ∨ ∃ i f, (setValue r k v).1 = modifyAt r i (·.modify k f) ∧
      ∀ c, cellAt r i k = some c → (f c).readers = c.readers ∧ (f c).writer = c.writer := by
  unfold setValue
  cases h1 : tryBorrowMut r k with
  | error e => exact Or.inl rfl
  | ok x =>
    obtain ⟨r', i⟩ := x
    obtain ⟨c, hf, hc, hw, hr, hr'⟩ := tryBorrowMut_ok_elim r r' k i h1
    subst hr'
    simp only
    cases hc2 : cellAt (modifyAt r i fun x => x.modify k fun _ => grantedCell c true) i k with
    | none => exact Or.inl rfl
    | some c2 =>
      refine Or.inr ⟨i, (fun _ => Cell.release (Cell.mk v (grantedCell c true).readers
        (grantedCell c true).writer) true), ?_, ?_⟩
      · simp only [releaseAt, modifyAt_modifyAt, Scope.modify_modify]
      · intro c0 hc0
        rw [hc] at hc0; cases hc0
        simp [Cell.release, grantedCell, hw]

theorem step_shared_reg (r : Reg) (o : ROp) (ho : ROp.isShared o = true) :
    (step r o).1 = r ∨ ∃ i k f, (step r o).1 = modifyAt r i (·.modify k f) ∧
      ∀ c, cellAt r i k = some c → (f c).readers = c.readers ∧ (f c).writer = c.writer := by
  cases o <;> simp [ROp.isShared] at ho <;> try (exact Or.inl rfl)
  case set k v =>
    simp only [step]
    rcases setValue_flags r k v with h | ⟨i, f, h1, h2⟩
    · exact Or.inl h
    · exact Or.inr ⟨i, k, f, h1, h2⟩
  case parGet d k =>
    simp only [step]; split <;> exact Or.inl rfl

theorem grant_step_inv (m : M) (h : FlagInv m) (r' : Reg) (i : Nat) (k : Key) (excl : Bool) (c : Cell)
    (hc : cellAt m.reg i k = some c) (hw : c.writer = false) (hr : excl = true → c.readers = 0)
    (hr' : r' = modifyAt m.reg i (·.modify k (fun _ => grantedCell c excl))) :
    FlagInv (grant m r' i k excl).1 := by
  subst hr'; exact grant_inv m h i k c excl hc hw hr

theorem borrowAt_inv (m : M) (h : FlagInv m) (d : Nat) (k : Key) (excl : Bool) (r' : Reg) (i : Nat)
    (hb : borrowAt m.reg d k excl = some (.ok (r', i))) : FlagInv (grant m r' i k excl).1 := by
  unfold borrowAt at hb
  cases hp : parentN m.reg d with
  | none => simp [hp] at hb
  | some p =>
    simp only [hp] at hb
    have hpd : p = m.reg.drop d := by
      simp only [parentN] at hp; split at hp
      · exact (Option.some.inj hp).symm
      · cases hp
    cases excl with
    | false =>
      simp only [Bool.false_eq_true, if_false] at hb
      cases ht : tryBorrow p k with
      | error e => simp [ht] at hb
      | ok x =>
        obtain ⟨p', i'⟩ := x
        simp only [ht, Option.some.injEq, Except.ok.injEq, Prod.mk.injEq] at hb
        obtain ⟨hb1, hb2⟩ := hb
        obtain ⟨c, _, hc, hw, hp'⟩ := tryBorrow_ok_elim p p' k i' ht
        subst hpd
        rw [cellAt_drop] at hc
        subst hb2
        apply grant_step_inv m h r' (d + i') k false c hc hw (by simp)
        rw [← hb1, hp', take_append_modifyAt_drop]
    | true =>
      simp only [if_true] at hb
      cases ht : tryBorrowMut p k with
      | error e => simp [ht] at hb
      | ok x =>
        obtain ⟨p', i'⟩ := x
        simp only [ht, Option.some.injEq, Except.ok.injEq, Prod.mk.injEq] at hb
        obtain ⟨hb1, hb2⟩ := hb
        obtain ⟨c, _, hc, hw, hr, hp'⟩ := tryBorrowMut_ok_elim p p' k i' ht
        subst hpd
        rw [cellAt_drop] at hc
        subst hb2
        apply grant_step_inv m h r' (d + i') k true c hc hw (fun _ => hr)
        rw [← hb1, hp', take_append_modifyAt_drop]

/-- `flag_inv`: every machine step keeps the flags equal to the live guards. -/
theorem mstep_inv (m : M) (op : MOp) (h : FlagInv m) : FlagInv (mstep m op).1 := by
  cases op with
  | bor k | borP k =>
    simp only [mstep]
    cases ht : tryBorrow m.reg k with
    | error e => exact h
    | ok x =>
      obtain ⟨r', i⟩ := x
      obtain ⟨c, _, hc, hw, hr'⟩ := tryBorrow_ok_elim m.reg r' k i ht
      exact grant_step_inv m h r' i k false c hc hw (by simp) hr'
  | borMut k | borMutP k =>
    simp only [mstep]
    cases ht : tryBorrowMut m.reg k with
    | error e => exact h
    | ok x =>
      obtain ⟨r', i⟩ := x
      obtain ⟨c, _, hc, hw, hr, hr'⟩ := tryBorrowMut_ok_elim m.reg r' k i ht
      exact grant_step_inv m h r' i k true c hc hw (fun _ => hr) hr'
  | parBor d k =>
    simp only [mstep]
    cases hb : borrowAt m.reg d k false with
    | none => exact h
    | some x =>
      cases x with
      | error e => exact h
      | ok y => obtain ⟨r', i⟩ := y; exact borrowAt_inv m h d k false r' i hb
  | parBorMut d k =>
    simp only [mstep]
    cases hb : borrowAt m.reg d k true with
    | none => exact h
    | some x =>
      cases x with
      | error e => exact h
      | ok y => obtain ⟨r', i⟩ := y; exact borrowAt_inv m h d k true r' i hb
  | drop g =>
    simp only [mstep]
    cases hg : findGuard m.guards g with
    | none => exact h
    | some gd =>
      obtain ⟨hmem, hid⟩ := findGuard_some m.guards g gd hg
      subst hid
      exact release_inv m h gd hmem
  | rd g =>
    simp only [mstep]
    cases findGuard m.guards g <;> exact h
  | wr g v =>
    simp only [mstep]
    cases hg : findGuard m.guards g with
    | none => exact h
    | some gd =>
      simp only
      split
      · exact sameFlags_inv m h gd.idx gd.key _ (fun c _ => ⟨rfl, rfl⟩)
      · exact h
  | sh o =>
    simp only [mstep]
    split
    · rename_i ho
      rcases step_shared_reg m.reg o ho with h1 | ⟨i, k, f, h1, h2⟩
      · simp only [h1]; exact h
      · simp only [h1]; exact sameFlags_inv m h i k f h2
    · exact h
  | ex s =>
    simp only [mstep]
    split
    · rename_i hg
      have hg' : m.guards = [] := by simpa using hg
      have hI := h.inv_of_no_guards m hg'
      have := execStmt_inv s m.reg hI h.nk
      have := flagInv_of_inv _ m.next this.1 this.2
      simp only [hg']; exact this
    · exact h
  | locks => exact h

theorem mrun_inv (m : M) (ops : List MOp) (h : FlagInv m) : FlagInv (mrun m ops).1 := by
  induction ops generalizing m with
  | nil => exact h
  | cons op ops ih => simp only [mrun]; exact ih _ (mstep_inv m op h)

/-! ### grant / refuse -/

theorem bor_spec (m : M) (h : FlagInv m) (k : Key) :
    (find m.reg k = none → mstep m (.bor k) = (m, [.err .notFound])) ∧
    (∀ i, find m.reg k = some i → exclOn m.guards i k ≠ 0 → mstep m (.bor k) = (m, [.err .conflictImm])) ∧
    (∀ i, find m.reg k = some i → exclOn m.guards i k = 0 →
      ∃ r', mstep m (.bor k) =
        ({ reg := r', guards := ⟨m.next, i, k, false⟩ :: m.guards, next := m.next + 1 }, [.guard m.next])) := by
  refine ⟨?_, ?_, ?_⟩
  · intro hf; simp [mstep, tryBorrow, hf]
  · intro i hf hx
    obtain ⟨c, hc⟩ := find_cell m.reg k i hf
    obtain ⟨_, p2, p3, _⟩ := h.present i k c hc
    have hw : c.writer = true := p2.mpr (by omega)
    simp [mstep, tryBorrow, hf, hc, Cell.tryBorrow, hw]
  · intro i hf hx
    obtain ⟨c, hc⟩ := find_cell m.reg k i hf
    obtain ⟨_, p2, _, _⟩ := h.present i k c hc
    have hw : c.writer = false := by
      cases hw : c.writer with
      | false => rfl
      | true => have := p2.mp hw; omega
    refine ⟨modifyAt m.reg i (·.modify k (fun _ => { c with readers := c.readers + 1 })), ?_⟩
    simp [mstep, tryBorrow, hf, hc, Cell.tryBorrow, hw, grant]

theorem borMut_spec (m : M) (h : FlagInv m) (k : Key) :
    (find m.reg k = none → mstep m (.borMut k) = (m, [.err .notFound])) ∧
    (∀ i, find m.reg k = some i → exclOn m.guards i k + sharedOn m.guards i k ≠ 0 →
      mstep m (.borMut k) = (m, [.err .conflictMut])) ∧
    (∀ i, find m.reg k = some i → exclOn m.guards i k + sharedOn m.guards i k = 0 →
      ∃ r', mstep m (.borMut k) =
        ({ reg := r', guards := ⟨m.next, i, k, true⟩ :: m.guards, next := m.next + 1 }, [.guard m.next])) := by
  refine ⟨?_, ?_, ?_⟩
  · intro hf; simp [mstep, tryBorrowMut, hf]
  · intro i hf hx
    obtain ⟨c, hc⟩ := find_cell m.reg k i hf
    obtain ⟨p1, p2, p3, _⟩ := h.present i k c hc
    have hb : (c.writer || c.readers != 0) = true := by
      by_cases he : exclOn m.guards i k = 0
      · have : c.readers ≠ 0 := by omega
        simp [this]
      · have hw : c.writer = true := p2.mpr (by omega)
        simp [hw]
    simp [mstep, tryBorrowMut, hf, hc, Cell.tryBorrowMut, hb]
  · intro i hf hx
    obtain ⟨c, hc⟩ := find_cell m.reg k i hf
    obtain ⟨p1, p2, _, _⟩ := h.present i k c hc
    have hw : c.writer = false := by
      cases hw : c.writer with
      | false => rfl
      | true => have := p2.mp hw; omega
    have hr : c.readers = 0 := by omega
    refine ⟨modifyAt m.reg i (·.modify k (fun _ => { c with writer := true })), ?_⟩
    simp [mstep, tryBorrowMut, hf, hc, Cell.tryBorrowMut, hw, hr, grant]

/-- An outcome list that is a grant. -/
def granted (outs : List Out) : Prop := ∃ id, outs = [.guard id]

/-! ### values are only changed by writes -/

theorem abs_modify_sameval (r : Reg) (i : Nat) (k : Key) (f : Cell → Cell)
    (hf : ∀ c, cellAt r i k = some c → (f c).val = c.val) : abs (modifyAt r i (·.modify k f)) = abs r := by
  apply abs_modifyAt_same
  rw [Scope.view_modify]
  funext q
  simp only [PMap.set]
  split
  · rename_i hq; subst hq
    cases hc : (scopeAt r i).get? q with
    | none => simp [Scope.view, hc]
    | some c => simp [Scope.view, hc, hf c (by simpa [cellAt] using hc)]
  · rfl

/-- Requests that do not write a value: acquiring, releasing, reading, probing. -/
def nonWriting : MOp → Bool
  | .bor _ | .borMut _ | .borP _ | .borMutP _ | .parBor _ _ | .parBorMut _ _ | .drop _ | .rd _ | .locks => true
  | .sh o => ROp.isShared o && (match o with | .set _ _ => false | _ => true)
  | .wr _ _ | .ex _ => false

theorem grant_abs (m : M) (r' : Reg) (i : Nat) (k : Key) (e : Bool) (c : Cell) (hc : cellAt m.reg i k = some c)
    (hr' : r' = modifyAt m.reg i (·.modify k (fun _ => grantedCell c e))) : abs r' = abs m.reg := by
  subst hr'
  apply abs_modify_sameval
  intro c0 hc0; rw [hc] at hc0; cases hc0
  cases e <;> simp [grantedCell]

theorem borrowAt_abs (r : Reg) (d : Nat) (k : Key) (e : Bool) (r' : Reg) (i : Nat)
    (hb : borrowAt r d k e = some (.ok (r', i))) : abs r' = abs r := by
  unfold borrowAt at hb
  cases hp : parentN r d with
  | none => simp [hp] at hb
  | some p =>
    simp only [hp] at hb
    have hpd : p = r.drop d := by
      simp only [parentN] at hp; split at hp
      · exact (Option.some.inj hp).symm
      · cases hp
    subst hpd
    cases e with
    | false =>
      simp only [Bool.false_eq_true, if_false] at hb
      cases ht : tryBorrow (r.drop d) k with
      | error e => simp [ht] at hb
      | ok x =>
        obtain ⟨p', i'⟩ := x
        simp only [ht, Option.some.injEq, Except.ok.injEq, Prod.mk.injEq] at hb
        obtain ⟨c, _, hc, _, hp'⟩ := tryBorrow_ok_elim _ p' k i' ht
        rw [← hb.1, hp', take_append_modifyAt_drop]
        rw [cellAt_drop] at hc
        exact grant_abs ⟨r, [], 0⟩ _ (d + i') k false c hc rfl
    | true =>
      simp only [if_true] at hb
      cases ht : tryBorrowMut (r.drop d) k with
      | error e => simp [ht] at hb
      | ok x =>
        obtain ⟨p', i'⟩ := x
        simp only [ht, Option.some.injEq, Except.ok.injEq, Prod.mk.injEq] at hb
        obtain ⟨c, _, hc, _, _, hp'⟩ := tryBorrowMut_ok_elim _ p' k i' ht
        rw [← hb.1, hp', take_append_modifyAt_drop]
        rw [cellAt_drop] at hc
        exact grant_abs ⟨r, [], 0⟩ _ (d + i') k true c hc rfl

theorem nonWriting_abs (m : M) (op : MOp) (hop : nonWriting op = true) : abs (mstep m op).1.reg = abs m.reg := by
  cases op with
  | bor k | borP k =>
    simp only [mstep]
    cases ht : tryBorrow m.reg k with
    | error e => rfl
    | ok x =>
      obtain ⟨r', i⟩ := x
      obtain ⟨c, _, hc, _, hr'⟩ := tryBorrow_ok_elim m.reg r' k i ht
      exact grant_abs m r' i k false c hc hr'
  | borMut k | borMutP k =>
    simp only [mstep]
    cases ht : tryBorrowMut m.reg k with
    | error e => rfl
    | ok x =>
      obtain ⟨r', i⟩ := x
      obtain ⟨c, _, hc, _, _, hr'⟩ := tryBorrowMut_ok_elim m.reg r' k i ht
      exact grant_abs m r' i k true c hc hr'
  | parBor d k =>
    simp only [mstep]
    cases hb : borrowAt m.reg d k false with
    | none => rfl
    | some x =>
      cases x with
      | error e => rfl
      | ok y => obtain ⟨r', i⟩ := y; exact borrowAt_abs m.reg d k false r' i hb
  | parBorMut d k =>
    simp only [mstep]
    cases hb : borrowAt m.reg d k true with
    | none => rfl
    | some x =>
      cases x with
      | error e => rfl
      | ok y => obtain ⟨r', i⟩ := y; exact borrowAt_abs m.reg d k true r' i hb
  | drop g =>
    simp only [mstep]
    cases hg : findGuard m.guards g with
    | none => rfl
    | some gd =>
      simp only [releaseAt]
      apply abs_modify_sameval
      intro c _; simp only [Cell.release]; split <;> rfl
  | rd g => simp only [mstep]; cases findGuard m.guards g <;> rfl
  | wr g v => simp [nonWriting] at hop
  | ex s => simp [nonWriting] at hop
  | locks => rfl
  | sh o =>
    simp only [mstep]
    simp only [nonWriting, Bool.and_eq_true] at hop
    simp only [hop.1, if_true]
    cases o <;> simp [ROp.isShared] at hop <;> try rfl
    case parGet d k => simp only [step]; split <;> rfl

theorem nonWriting_run_abs (m : M) (ops : List MOp) (hops : ∀ o ∈ ops, nonWriting o = true) :
    abs (mrun m ops).1.reg = abs m.reg := by
  induction ops generalizing m with
  | nil => rfl
  | cons op ops ih =>
    simp only [mrun]
    rw [ih _ (fun o ho => hops o (by simp [ho])), nonWriting_abs m op (hops op (by simp))]

theorem view_scopeAt (r : Reg) (i : Nat) (k : Key) :
    ((abs r).getD i PMap.empty) k = (cellAt r i k).map (·.val) := by
  induction r generalizing i with
  | nil => simp [cellAt, scopeAt, PMap.empty]
  | cons s p ih =>
    cases i with
    | zero => simp [abs_cons, cellAt, scopeAt_zero, Scope.view]
    | succ i => simpa [abs_cons, cellAt, scopeAt_succ] using ih i

theorem abs_writeAt_cell (r : Reg) (i : Nat) (k : Key) (v : Nat) (c : Cell) (hc : cellAt r i k = some c) :
    abs (writeAt r i k (fun _ => v)) = modifyAt (abs r) i (fun m : PMap => m.set k (some v)) := by
  apply map_modifyAt r i _ _ Scope.view []
  rw [Scope.view_modify]
  have : (r.getD i []).get? k = some c := hc
  rw [this]; rfl

/-! ### multi-borrow -/

theorem multi_ok_iff' (r : Reg) (ks : List Key) :
    (∃ cs, tryGetMultipleMut r ks = .ok cs) ↔ ks.Nodup ∧ ∀ k ∈ ks, contains r k = true := by
  unfold tryGetMultipleMut
  by_cases hd : ks.Nodup
  · have hdist : distinct ks = true := (distinct_iff ks).mpr hd
    simp only [hdist, Bool.not_true, Bool.false_eq_true, if_false, hd, true_and]
    by_cases hall : ∀ k ∈ ks, (find r k).isSome = true
    · rw [getAllMut_ok r ks hall]; simp only [contains]; exact ⟨fun _ => hall, fun _ => ⟨_, rfl⟩⟩
    · rw [getAllMut_err r ks hall]; simp only [contains]
      constructor
      · rintro ⟨cs, h⟩; cases h
      · intro h; exact absurd h hall
  · have hdist : distinct ks = false := by
      cases hx : distinct ks with
      | false => rfl
      | true => exact absurd ((distinct_iff ks).mp hx) hd
    simp only [hdist, Bool.not_false, if_true, hd, false_and, iff_false]
    rintro ⟨cs, h⟩; cases h

theorem multi_error_kind' (r : Reg) (ks : List Key) :
    (¬ ks.Nodup → tryGetMultipleMut r ks = .error .multi) ∧
    (ks.Nodup → (¬ ∀ k ∈ ks, contains r k = true) → tryGetMultipleMut r ks = .error .notFound) := by
  unfold tryGetMultipleMut
  constructor
  · intro hd
    have hdist : distinct ks = false := by
      cases hx : distinct ks with
      | false => rfl
      | true => exact absurd ((distinct_iff ks).mp hx) hd
    simp [hdist]
  · intro hd hall
    have hdist : distinct ks = true := (distinct_iff ks).mpr hd
    simp only [hdist, Bool.not_true, Bool.false_eq_true, if_false]
    exact getAllMut_err r ks hall

theorem resolved_nodup (r : Reg) (ks : List Key) (h : ks.Nodup) : (resolved r ks).Nodup := by
  induction ks with
  | nil => simp [resolved]
  | cons k ks ih =>
    simp only [List.nodup_cons] at h
    simp only [resolved, List.map_cons, List.nodup_cons]
    refine ⟨?_, ih h.2⟩
    intro hm
    obtain ⟨k', hk', he⟩ := List.mem_map.mp hm
    have : k' = k := (Prod.mk.inj he).2
    subst this; exact h.1 hk'

theorem multi_distinct_cells' (r : Reg) (ks : List Key) (cs : List (Nat × Key))
    (h : tryGetMultipleMut r ks = .ok cs) :
    cs.Nodup ∧ cs.map (·.2) = ks ∧ ∀ c ∈ cs, find r c.2 = some c.1 ∧ (cellAt r c.1 c.2).isSome = true := by
  have hok := (multi_ok_iff' r ks).mp ⟨cs, h⟩
  have hall : ∀ k ∈ ks, (find r k).isSome = true := hok.2
  unfold tryGetMultipleMut at h
  have hdist : distinct ks = true := (distinct_iff ks).mpr hok.1
  simp only [hdist, Bool.not_true, Bool.false_eq_true, if_false, getAllMut_ok r ks hall] at h
  cases h
  refine ⟨resolved_nodup r ks hok.1, by simp [resolved, List.map_map, Function.comp_def], ?_⟩
  intro c hc
  obtain ⟨k, hk, he⟩ := List.mem_map.mp hc
  subst he
  obtain ⟨i, hi⟩ := Option.isSome_iff_exists.mp (hall k hk)
  obtain ⟨c0, hc0⟩ := find_cell r k i hi
  simp [hi, hc0]

/-! ### requests on one cell do not depend on the others -/

theorem tryBorrow_local (r r' : Reg) (k : Key) (hf : find r' k = find r k)
    (hc : ∀ i, find r k = some i → cellAt r' i k = cellAt r i k) :
    (tryBorrow r' k).map (·.2) = (tryBorrow r k).map (·.2) ∧
    (tryBorrowMut r' k).map (·.2) = (tryBorrowMut r k).map (·.2) := by
  unfold tryBorrow tryBorrowMut
  rw [hf]
  cases h : find r k with
  | none => exact ⟨rfl, rfl⟩
  | some i =>
    simp only [hc i h]
    cases cellAt r i k with
    | none => exact ⟨rfl, rfl⟩
    | some c =>
      constructor
      · simp only; cases c.tryBorrow <;> rfl
      · simp only; cases c.tryBorrowMut <;> rfl

/-! ### frame: a program leaves alone every type it does not mention -/

mutual
  /-- The program never names the type `q`: no operation on it, no raw push/pop, no nested `holding` of it
  or of the type whose marker it is. -/
  def Stmt.avoids (q : Key) : Stmt → Prop
    | .op o => q ∉ ROp.keys o ∧ ROp.flat o = true
    | .hold k _ _ body => k ≠ q ∧ markerOf k ≠ q ∧ Prog.avoids q body
    | .inner _ body => Prog.avoids q body
  def Prog.avoids (q : Key) : Prog → Prop
    | .nil => True
    | .cons s rest => Stmt.avoids q s ∧ Prog.avoids q rest
end

mutual
  theorem execStmt_frame (s : Stmt) (r : Reg) (q : Key) (hI : Inv r) (hn : nodupKeys r) (ha : Stmt.avoids q s) :
      vcol (execStmt r s).1 q = vcol r q := by
    cases s with
    | op o =>
      simp only [Stmt.avoids] at ha
      simp only [execStmt]
      exact step_frame r o q hI ha.1 ha.2
    | hold k d ok body =>
      simp only [Stmt.avoids] at ha
      obtain ⟨hk, hmk, hb⟩ := ha
      simp only [execStmt]
      split
      · rfl
      · rename_i i _
        split
        · rfl
        · rename_i c _
          have h1 := inv_put_at r i (markerOf k) 0 hI
          have n1 := nodupKeys_put_at r i (markerOf k) (fresh 0) hn
          have h2 := inv_erase_at _ i k h1
          have n2 := nodupKeys_erase_at _ i k n1
          have ih := execProg_frame body _ q h2 n2 hb
          rw [vcol_erase_at _ i k q hk, vcol_put_at _ i _ q _ hmk] at ih
          split
          · exact ih
          · rename_i j _
            simp only
            rw [vcol_erase_at _ j _ q hmk, vcol_put_at _ j k q _ hk]
            exact ih
    | inner ok body =>
      simp only [Stmt.avoids] at ha
      simp only [execStmt]
      have ih := execProg_frame body _ q (inv_intoChild r hI) (nodupKeys_intoChild r hn) ha
      split
      · rename_i p child heq
        obtain ⟨h1, _⟩ := intoParent_some _ p child heq
        rw [h1] at ih
        simp only [intoChild, vcol_cons] at ih
        exact (List.cons.inj ih).2
      · rename_i heq
        exfalso
        generalize (execProg (intoChild r) body).1 = r2 at *
        have hl := congrArg List.length ih
        simp only [vcol_length, intoChild, List.length_cons] at hl
        have hr : 0 < r.length := List.length_pos_iff.mpr hI.1
        cases r2 with
        | nil => simp at hl
        | cons s t =>
          cases t with
          | nil => simp only [List.length_cons, List.length_nil] at hl; omega
          | cons s' t' => simp [intoParent] at heq
  theorem execProg_frame (p : Prog) (r : Reg) (q : Key) (hI : Inv r) (hn : nodupKeys r) (ha : Prog.avoids q p) :
      vcol (execProg r p).1 q = vcol r q := by
    cases p with
    | nil => rfl
    | cons s rest =>
      simp only [Prog.avoids] at ha
      simp only [execProg]
      have h1 := execStmt_inv s r hI hn
      rw [execProg_frame rest _ q h1.1 h1.2 ha.2]
      exact execStmt_frame s r q hI hn ha.1
end

/-! ### `holding` puts the value back -/

theorem marker_ne (k : Key) : markerOf k ≠ k := by
  induction k with
  | ty n => intro h; cases h
  | marker k ih => intro h; simp only [markerOf] at *; exact ih (Key.marker.inj h)

theorem depthOf_col (sp : Spec) (q : Key) : sp.depthOf q = findIdx Option.isSome (col sp q) := by
  induction sp with
  | nil => rfl
  | cons m p ih => simp only [Spec.depthOf, col, List.map_cons, findIdx] at ih ⊢; rw [ih]

theorem find_of_vcol (r r' : Reg) (q : Key) (h : vcol r' q = vcol r q) : find r' q = find r q := by
  rw [find_abs, find_abs, depthOf_col, depthOf_col]; exact congrArg _ h

theorem has_of_vcol (r : Reg) (j : Nat) (q : Key) : (scopeAt r j).has q = ((vcol r q).getD j none).isSome := by
  induction r generalizing j with
  | nil => simp [scopeAt, Scope.has, vcol, col]
  | cons s p ih =>
    cases j with
    | zero => simp [scopeAt_zero, vcol_cons, Scope.has_eq]
    | succ j => simpa [scopeAt_succ, vcol_cons] using ih j

theorem find_eq_some_of (r : Reg) (q : Key) (i : Nat) (h1 : (scopeAt r i).has q = true)
    (h2 : ∀ j, j < i → (scopeAt r j).has q = false) : find r q = some i := by
  cases hf : find r q with
  | none => have := find_none r q hf i; rw [h1] at this; cases this
  | some i' =>
    have a1 := find_has r q i' hf
    have a2 := fun j hj => find_first r q i' j hf hj
    by_cases hlt : i' < i
    · have := h2 i' hlt; rw [a1] at this; cases this
    · by_cases hgt : i < i'
      · have := a2 i hgt; rw [h1] at this; cases this
      · have : i' = i := by omega
        rw [this]

/-- The registry the body of `holding::<k>` runs on: marker in, value out. -/
def heldOut (r : Reg) (i : Nat) (k : Key) : Reg :=
  modifyAt (modifyAt r i (·.put (markerOf k) (fresh 0))) i (·.erase k)

theorem holding_restores' (r : Reg) (k : Key) (d : Nat) (ok : Bool) (body : Prog) (i : Nat) (c : Cell)
    (hI : Inv r) (hn : nodupKeys r) (hf : find r k = some i) (hc : cellAt r i k = some c)
    (hnm : ∀ j, (scopeAt r j).has (markerOf k) = false) (hwf : Prog.avoids (markerOf k) body) :
    (execStmt r (.hold k d ok body)).2 = (execProg (heldOut r i k) body).2 ++ [resOut ok] ∧
    (execStmt r (.hold k d ok body)).1.length = r.length ∧
    cellAt (execStmt r (.hold k d ok body)).1 i k = some (fresh (c.val + d)) ∧
    (∀ j, (scopeAt (execStmt r (.hold k d ok body)).1 j).has (markerOf k) = false) ∧
    (∀ j q, ¬ (j = i ∧ (q = k ∨ q = markerOf k)) →
      cellAt (execStmt r (.hold k d ok body)).1 j q = cellAt (execProg (heldOut r i k) body).1 j q) := by
  have hi := find_lt r k i hf
  have hmk := marker_ne k
  have h1 := inv_put_at r i (markerOf k) 0 hI
  have n1 := nodupKeys_put_at r i (markerOf k) (fresh 0) hn
  have h2 := inv_erase_at _ i k h1
  have n2 := nodupKeys_erase_at _ i k n1
  have hlen1 : (modifyAt r i (·.put (markerOf k) (fresh 0))).length = r.length := modifyAt_length _ _ _
  -- where the marker is before the body runs
  have hs2 : ∀ j, scopeAt (heldOut r i k) j =
      if j = i then ((scopeAt r i).put (markerOf k) (fresh 0)).erase k else scopeAt r j := by
    intro j
    simp only [heldOut]
    rw [scopeAt_modifyAt _ i j _ (by rw [hlen1]; exact hi)]
    split
    · rw [scopeAt_modifyAt _ i i _ hi]; simp
    · rename_i hj; rw [scopeAt_modifyAt _ i j _ hi]; simp [hj]
  have hfind2 : find (heldOut r i k) (markerOf k) = some i := by
    apply find_eq_some_of
    · rw [hs2 i]; simp [Scope.has, Scope.get?_erase, Scope.get?_put, hmk]
    · intro j hj; rw [hs2 j]; simp [Nat.ne_of_lt hj, hnm j]
  have hframe := execProg_frame body (heldOut r i k) (markerOf k) h2 n2 hwf
  have hfind3 : find (execProg (heldOut r i k) body).1 (markerOf k) = some i := by
    rw [find_of_vcol _ _ _ hframe]; exact hfind2
  have hlen3 : (execProg (heldOut r i k) body).1.length = r.length := by
    have := congrArg List.length hframe
    simp only [vcol_length] at this
    rw [this]; simp [heldOut, modifyAt_length]
  have hunf : execStmt r (.hold k d ok body) =
      (modifyAt (modifyAt (execProg (heldOut r i k) body).1 i (·.put k (fresh (c.val + d)))) i
        (·.erase (markerOf k)), (execProg (heldOut r i k) body).2 ++ [resOut ok]) := by
    simp only [execStmt, hf, hc]
    simp only [heldOut] at hfind3
    simp only [hfind3, heldOut]
  rw [hunf]
  generalize (execProg (heldOut r i k) body).1 = r3 at *
  have hlen4 : (modifyAt r3 i (·.put k (fresh (c.val + d)))).length = r3.length := modifyAt_length _ _ _
  have hi3 : i < r3.length := by omega
  refine ⟨rfl, by simp [modifyAt_length, hlen3], ?_, ?_, ?_⟩
  · rw [cellAt_erase_at _ i _ i k (by omega), cellAt_put_at _ i k _ i k hi3]
    simp [Ne.symm hmk]
  · intro j
    by_cases hj : j = i
    · subst hj
      simp only [Scope.has]
      have := cellAt_erase_at (modifyAt r3 j (·.put k (fresh (c.val + d)))) j (markerOf k) j (markerOf k) (by omega)
      simp only [cellAt] at this
      simp [this]
    · rw [scopeAt_modifyAt _ i j _ (by omega), scopeAt_modifyAt _ i j _ hi3]
      simp only [hj, if_false]
      rw [has_of_vcol, hframe, ← has_of_vcol, hs2 j]
      simp [hj, hnm j]
  · intro j q hjq
    rw [cellAt_erase_at _ i _ j q (by omega), cellAt_put_at _ i k _ j q hi3]
    have a1 : ¬ (j = i ∧ q = markerOf k) := fun h => hjq ⟨h.1, Or.inr h.2⟩
    have a2 : ¬ (j = i ∧ q = k) := fun h => hjq ⟨h.1, Or.inl h.2⟩
    simp [a1, a2]

/-! ### statements used by `Props/C02.lean` -/

theorem grant_iff' (m : M) (h : FlagInv m) (k : Key) :
    (granted (mstep m (.bor k)).2 ↔ ∃ i, find m.reg k = some i ∧ exclOn m.guards i k = 0) ∧
    (granted (mstep m (.borMut k)).2 ↔
      ∃ i, find m.reg k = some i ∧ exclOn m.guards i k = 0 ∧ sharedOn m.guards i k = 0) := by
  obtain ⟨b1, b2, b3⟩ := bor_spec m h k
  obtain ⟨c1, c2, c3⟩ := borMut_spec m h k
  constructor
  · cases hf : find m.reg k with
    | none => rw [b1 hf]; simp [granted]
    | some i =>
      by_cases hx : exclOn m.guards i k = 0
      · obtain ⟨r', hr'⟩ := b3 i hf hx
        rw [hr']; simp only [granted]; exact ⟨fun _ => ⟨i, rfl, hx⟩, fun _ => ⟨_, rfl⟩⟩
      · rw [b2 i hf hx]; simp only [granted]
        constructor
        · rintro ⟨id, hid⟩; simp at hid
        · rintro ⟨i', hi', hx'⟩; cases hi'; exact absurd hx' hx
  · cases hf : find m.reg k with
    | none => rw [c1 hf]; simp [granted]
    | some i =>
      by_cases hx : exclOn m.guards i k + sharedOn m.guards i k = 0
      · obtain ⟨r', hr'⟩ := c3 i hf hx
        rw [hr']; simp only [granted]
        exact ⟨fun _ => ⟨i, rfl, by omega, by omega⟩, fun _ => ⟨_, rfl⟩⟩
      · rw [c2 i hf hx]; simp only [granted]
        constructor
        · rintro ⟨id, hid⟩; simp at hid
        · rintro ⟨i', hi', hx1, hx2⟩; cases hi'; omega

theorem refused' (m : M) (h : FlagInv m) (k : Key) :
    (¬ granted (mstep m (.bor k)).2 → (mstep m (.bor k)).1 = m ∧
      (((mstep m (.bor k)).2 = [.err .notFound] ∧ find m.reg k = none) ∨
       ((mstep m (.bor k)).2 = [.err .conflictImm] ∧ ∃ i, find m.reg k = some i ∧ exclOn m.guards i k = 1))) ∧
    (¬ granted (mstep m (.borMut k)).2 → (mstep m (.borMut k)).1 = m ∧
      (((mstep m (.borMut k)).2 = [.err .notFound] ∧ find m.reg k = none) ∨
       ((mstep m (.borMut k)).2 = [.err .conflictMut] ∧
          ∃ i, find m.reg k = some i ∧ 0 < exclOn m.guards i k + sharedOn m.guards i k))) := by
  obtain ⟨b1, b2, b3⟩ := bor_spec m h k
  obtain ⟨c1, c2, c3⟩ := borMut_spec m h k
  constructor
  · intro hng
    cases hf : find m.reg k with
    | none => rw [b1 hf]; exact ⟨rfl, Or.inl ⟨rfl, rfl⟩⟩
    | some i =>
      by_cases hx : exclOn m.guards i k = 0
      · obtain ⟨r', hr'⟩ := b3 i hf hx
        exact absurd ⟨_, by rw [hr']⟩ hng
      · rw [b2 i hf hx]
        obtain ⟨c, hc⟩ := find_cell m.reg k i hf
        have := (h.present i k c hc).2.2.1
        exact ⟨rfl, Or.inr ⟨rfl, i, rfl, by omega⟩⟩
  · intro hng
    cases hf : find m.reg k with
    | none => rw [c1 hf]; exact ⟨rfl, Or.inl ⟨rfl, rfl⟩⟩
    | some i =>
      by_cases hx : exclOn m.guards i k + sharedOn m.guards i k = 0
      · obtain ⟨r', hr'⟩ := c3 i hf hx
        exact absurd ⟨_, by rw [hr']⟩ hng
      · rw [c2 i hf hx]
        exact ⟨rfl, Or.inr ⟨rfl, i, rfl, by omega⟩⟩

theorem noninterference' (m m' : M) (h : FlagInv m) (h' : FlagInv m') (k : Key) (i : Nat)
    (hf : find m.reg k = some i) (hf' : find m'.reg k = some i)
    (hs : sharedOn m'.guards i k = sharedOn m.guards i k) (he : exclOn m'.guards i k = exclOn m.guards i k) :
    (granted (mstep m' (.bor k)).2 ↔ granted (mstep m (.bor k)).2) ∧
    (granted (mstep m' (.borMut k)).2 ↔ granted (mstep m (.borMut k)).2) := by
  obtain ⟨a1, a2⟩ := grant_iff' m h k
  obtain ⟨b1, b2⟩ := grant_iff' m' h' k
  rw [a1, a2, b1, b2, hf, hf']
  constructor
  · constructor
    · rintro ⟨j, hj, hx⟩; cases hj; exact ⟨i, rfl, by omega⟩
    · rintro ⟨j, hj, hx⟩; cases hj; exact ⟨i, rfl, by omega⟩
  · constructor
    · rintro ⟨j, hj, hx, hy⟩; cases hj; exact ⟨i, rfl, by omega, by omega⟩
    · rintro ⟨j, hj, hx, hy⟩; cases hj; exact ⟨i, rfl, by omega, by omega⟩

theorem find_modify_at (r : Reg) (i : Nat) (q : Key) (f : Cell → Cell) (k : Key) :
    find (modifyAt r i (·.modify q f)) k = find r k :=
  findIdx_modifyAt _ r i _ (fun s => Scope.has_modify s q _ k)

/-- A guard acquired on another cell (another type, or the same type in another scope) changes nothing
for requests on the cell `(i, k)`. -/
theorem elsewhere' (m : M) (h : FlagInv m) (k q : Key) (i j : Nat) (excl : Bool)
    (hf : find m.reg k = some i) (hq : find m.reg q = some j) (hne : ¬ (j = i ∧ q = k)) :
    let m' := (mstep m (if excl then .borMut q else .bor q)).1
    (granted (mstep m' (.bor k)).2 ↔ granted (mstep m (.bor k)).2) ∧
    (granted (mstep m' (.borMut k)).2 ↔ granted (mstep m (.borMut k)).2) := by
  intro m'
  have h' : FlagInv m' := mstep_inv m _ h
  have hd : (decide (j = i) && decide (q = k)) = false := by
    cases hd : (decide (j = i) && decide (q = k)) with
    | false => rfl
    | true => simp at hd; exact absurd hd hne
  have key : find m'.reg k = some i ∧ sharedOn m'.guards i k = sharedOn m.guards i k ∧
      exclOn m'.guards i k = exclOn m.guards i k := by
    cases excl with
    | true =>
      simp only [m', if_true, mstep]
      cases ht : tryBorrowMut m.reg q with
      | error e => exact ⟨hf, rfl, rfl⟩
      | ok x =>
        obtain ⟨r', j'⟩ := x
        obtain ⟨c, hfq, _, _, _, hr'⟩ := tryBorrowMut_ok_elim m.reg r' q j' ht
        rw [hq] at hfq; cases hfq
        subst hr'
        simp only [grant, find_modify_at, sharedOn, exclOn, List.countP_cons, onCell_new, hd, Bool.false_and,
          Bool.false_eq_true, if_false, Nat.add_zero]
        exact ⟨hf, trivial, trivial⟩
    | false =>
      simp only [m', Bool.false_eq_true, if_false, mstep]
      cases ht : tryBorrow m.reg q with
      | error e => exact ⟨hf, rfl, rfl⟩
      | ok x =>
        obtain ⟨r', j'⟩ := x
        obtain ⟨c, hfq, _, _, hr'⟩ := tryBorrow_ok_elim m.reg r' q j' ht
        rw [hq] at hfq; cases hfq
        subst hr'
        simp only [grant, find_modify_at, sharedOn, exclOn, List.countP_cons, onCell_new, hd, Bool.false_and,
          Bool.false_eq_true, if_false, Nat.add_zero]
        exact ⟨hf, trivial, trivial⟩
  exact noninterference' m m' h h' k i hf key.1 key.2.1 key.2.2

theorem findGuard_mem (gs : List Guard) (gd : Guard) (hmem : gd ∈ gs) (hnd : (gs.map (·.id)).Nodup) :
    findGuard gs gd.id = some gd := by
  induction gs with
  | nil => simp at hmem
  | cons g t ih =>
    simp only [List.map_cons, List.nodup_cons] at hnd
    rcases List.mem_cons.mp hmem with rfl | hmem
    · simp [findGuard]
    · have hne : g.id ≠ gd.id := by
        intro he; apply hnd.1; rw [he]; exact List.mem_map.mpr ⟨gd, hmem, rfl⟩
      have := ih hmem hnd.2
      simp only [findGuard] at this ⊢
      rw [List.find?_cons_of_neg (by simpa using hne)]; exact this

theorem release_restores' (m : M) (h : FlagInv m) (gd : Guard) (hmem : gd ∈ m.guards) :
    (mstep m (.drop gd.id)).2 = [.ok] ∧
    (∀ j q e, (mstep m (.drop gd.id)).1.guards.countP (onCell j q e) + (if onCell j q e gd then 1 else 0) =
      m.guards.countP (onCell j q e)) ∧
    abs (mstep m (.drop gd.id)).1.reg = abs m.reg ∧
    (find m.reg gd.key = some gd.idx → exclOn m.guards gd.idx gd.key + sharedOn m.guards gd.idx gd.key = 1 →
      granted (mstep (mstep m (.drop gd.id)).1 (.borMut gd.key)).2) := by
  have hfg := findGuard_mem m.guards gd hmem h.nd
  have habs := nonWriting_abs m (.drop gd.id) rfl
  have hcnt : ∀ j q e, (mstep m (.drop gd.id)).1.guards.countP (onCell j q e) + (if onCell j q e gd then 1 else 0) =
      m.guards.countP (onCell j q e) := by
    intro j q e
    simp only [mstep, hfg]
    exact countP_dropGuard m.guards gd _ hmem h.nd
  refine ⟨by simp [mstep, hfg], hcnt, habs, ?_⟩
  intro hf hone
  have h' := mstep_inv m (.drop gd.id) h
  apply (grant_iff' _ h' gd.key).2.mpr
  refine ⟨gd.idx, ?_, ?_, ?_⟩
  · simp only [mstep, hfg, releaseAt, find_modify_at]; exact hf
  · have h1 := hcnt gd.idx gd.key true
    have h2 := hcnt gd.idx gd.key false
    have hs := onCell_self gd
    simp only [exclOn, sharedOn] at *
    cases hx : gd.excl <;> simp only [hx] at hs <;> simp [onCell, hx] at h1 h2 <;> omega
  · have h1 := hcnt gd.idx gd.key true
    have h2 := hcnt gd.idx gd.key false
    have hs := onCell_self gd
    simp only [exclOn, sharedOn] at *
    cases hx : gd.excl <;> simp only [hx] at hs <;> simp [onCell, hx] at h1 h2 <;> omega

theorem write_then_read' (m : M) (h : FlagInv m) (gd : Guard) (hmem : gd ∈ m.guards) (hex : gd.excl = true)
    (v : Nat) (ops : List MOp) (hops : ∀ o ∈ ops, nonWriting o = true) :
    (mstep m (.wr gd.id v)).2 = [.ok] ∧
    ∀ g' ∈ (mrun (mstep m (.wr gd.id v)).1 ops).1.guards, g'.idx = gd.idx → g'.key = gd.key →
      (mstep (mrun (mstep m (.wr gd.id v)).1 ops).1 (.rd g'.id)).2 = [.val v] := by
  have hfg := findGuard_mem m.guards gd hmem h.nd
  obtain ⟨c, hc⟩ := h.guard_cell m gd hmem
  have hi := cellAt_lt m.reg gd.idx gd.key c hc
  refine ⟨by simp [mstep, hfg, hex], ?_⟩
  intro g' hg' hidx hkey
  have h1 : FlagInv (mstep m (.wr gd.id v)).1 := mstep_inv m _ h
  have h2 := mrun_inv _ ops h1
  have habs : abs (mrun (mstep m (.wr gd.id v)).1 ops).1.reg =
      modifyAt (abs m.reg) gd.idx (fun mp : PMap => mp.set gd.key (some v)) := by
    rw [nonWriting_run_abs _ ops hops]
    simp only [mstep, hfg, hex, if_true]
    exact abs_writeAt_cell m.reg gd.idx gd.key v c hc
  have hfg' := findGuard_mem _ g' hg' h2.nd
  have hv := view_scopeAt (mrun (mstep m (.wr gd.id v)).1 ops).1.reg gd.idx gd.key
  rw [habs, getD_modifyAt _ gd.idx gd.idx _ _ (by simpa using hi)] at hv
  simp only [if_true, PMap.set] at hv
  generalize (mrun (mstep m (.wr gd.id v)).1 ops).1 = m2 at *
  cases hc2 : cellAt m2.reg gd.idx gd.key with
  | none => simp [hc2] at hv
  | some c2 =>
    simp [hc2] at hv
    simp only [mstep, hfg', hidx, hkey, hc2, hv]

end MahfModel.Borrow
