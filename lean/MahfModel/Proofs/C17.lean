/- Helper lemmas for C17 (simulated-annealing acceptance). -/
import MahfModel.Model.Sa
import Mathlib.Algebra.Order.Field.Basic
import Mathlib.Tactic.Ring
import Mathlib.Tactic.Linarith
import Mathlib.Tactic.Positivity
import Mathlib.Tactic.FieldSimp
namespace MahfModel.Sa

/-- What the theorems need from the exponential function. `Real.exp` satisfies it
(`Props/C17Real.lean`). -/
structure ExpSpec {F : Type} [Field F] [LinearOrder F] [IsStrictOrderedRing F] (exp : F → F) : Prop where
  zero : exp 0 = 1
  add : ∀ x y, exp (x + y) = exp x * exp y
  lower : ∀ x, 1 + x ≤ exp x

section
variable {F : Type} [Field F] [LinearOrder F] [IsStrictOrderedRing F] {exp : F → F}

theorem ExpSpec.nonneg (h : ExpSpec exp) (x : F) : 0 ≤ exp x := by
  have : exp x = exp (x / 2) * exp (x / 2) := by rw [← h.add]; congr 1; ring
  rw [this]; exact mul_self_nonneg _

theorem ExpSpec.mul_neg (h : ExpSpec exp) (x : F) : exp x * exp (-x) = 1 := by
  rw [← h.add, add_neg_cancel, h.zero]

theorem ExpSpec.pos (h : ExpSpec exp) (x : F) : 0 < exp x := by
  rcases lt_or_eq_of_le (h.nonneg x) with hp | hz
  · exact hp
  · have := h.mul_neg x
    rw [← hz, zero_mul] at this
    exact absurd this (by norm_num)

theorem ExpSpec.mono (h : ExpSpec exp) {x y : F} (hxy : x ≤ y) : exp x ≤ exp y := by
  have e : exp y = exp x * exp (y - x) := by rw [← h.add]; congr 1; ring
  have l : 1 ≤ exp (y - x) := by have := h.lower (y - x); linarith
  rw [e]
  exact le_mul_of_one_le_right (h.nonneg x) l

/-- `exp (−x) ≤ 1 / (1 + x)` for `x ≥ 0`. -/
theorem ExpSpec.neg_le_inv (h : ExpSpec exp) {x : F} (hx : 0 ≤ x) : exp (-x) ≤ 1 / (1 + x) := by
  have hp : 0 < 1 + x := by linarith
  rw [le_div_iff₀ hp]
  have h1 := h.mul_neg x
  have h2 := h.lower x
  have h3 := h.nonneg (-x)
  calc exp (-x) * (1 + x) ≤ exp (-x) * exp x := mul_le_mul_of_nonneg_left h2 h3
    _ = 1 := by rw [mul_comm]; exact h1

theorem iter_cool (alpha : F) (n : Nat) (t : F) : iter (cool alpha) n t = t * alpha ^ n := by
  induction n generalizing t with
  | zero => simp [iter]
  | succ n ih => simp only [iter, ih, cool]; ring

theorem coolTrace_length (alpha : F) (n : Nat) (t : F) : (coolTrace alpha n t).length = n := by
  induction n generalizing t with
  | zero => rfl
  | succ n ih => simp [coolTrace, ih]

theorem coolTrace_get (alpha : F) (n : Nat) (t : F) (k : Nat) (hk : k < n) :
    (coolTrace alpha n t)[k]? = some (t * alpha ^ (k + 1)) := by
  induction n generalizing t k with
  | zero => omega
  | succ n ih =>
    cases k with
    | zero => simp [coolTrace, cool]
    | succ k =>
      simp only [coolTrace, List.getElem?_cons_succ]
      rw [ih _ _ (by omega)]
      simp only [cool]; congr 1; ring

end

/-! ### A carrier with the IEEE special values (for the known finding on infinite objectives) -/

/-- An ordered field extended by `+∞`, `−∞` and `NaN`, with the IEEE rules the acceptance uses. -/
inductive Ext (F : Type) where
  | fin (x : F) | pinf | ninf | nan

namespace Ext
variable {F : Type} [Field F] [LinearOrder F] [IsStrictOrderedRing F]

instance : Sub (Ext F) := ⟨fun a b => match a, b with
  | fin x, fin y => fin (x - y)
  | nan, _ => nan | _, nan => nan
  | pinf, pinf => nan | ninf, ninf => nan
  | pinf, _ => pinf | ninf, _ => ninf
  | fin _, pinf => ninf | fin _, ninf => pinf⟩

instance : Div (Ext F) := ⟨fun a b => match a, b with
  | fin x, fin y => if y = 0 then (if x = 0 then nan else if (0 < x) then pinf else ninf) else fin (x / y)
  | nan, _ => nan | _, nan => nan
  | fin _, pinf => fin 0 | fin _, ninf => fin 0
  | pinf, fin y => if 0 ≤ y then pinf else ninf
  | ninf, fin y => if 0 ≤ y then ninf else pinf
  | pinf, _ => nan | ninf, _ => nan⟩

/-- IEEE `<`: false as soon as a NaN is involved. -/
def ltb : Ext F → Ext F → Bool
  | fin x, fin y => decide (x < y)
  | nan, _ => false | _, nan => false
  | ninf, ninf => false | ninf, _ => true
  | _, ninf => false
  | pinf, _ => false
  | fin _, pinf => true

instance : LT (Ext F) := ⟨fun a b => ltb a b = true⟩
instance : DecidableLT (Ext F) := fun a b => inferInstanceAs (Decidable (ltb a b = true))

/-- IEEE `<=`: false as soon as a NaN is involved; `+∞ <= +∞` holds. -/
def leb : Ext F → Ext F → Bool
  | fin x, fin y => decide (x ≤ y)
  | nan, _ => false | _, nan => false
  | ninf, _ => true
  | _, pinf => true
  | _, ninf => false
  | pinf, _ => false

instance : LE (Ext F) := ⟨fun a b => leb a b = true⟩
instance : DecidableLE (Ext F) := fun a b => inferInstanceAs (Decidable (leb a b = true))

/-- A function on the field lifted to the extended carrier in the IEEE way (`NaN` stays `NaN`);
the values at `±∞` are parameters. -/
def lift (f : F → F) (atPinf atNinf : Ext F) : Ext F → Ext F
  | fin x => fin (f x) | pinf => atPinf | ninf => atNinf | nan => nan

theorem fin_lt_fin (x y : F) : ((fin x : Ext F) < fin y) ↔ x < y := by
  show ltb (fin x) (fin y) = true ↔ _
  simp [ltb]

theorem fin_sub_div (x y t : F) (ht : t ≠ 0) : ((fin x : Ext F) - fin y) / fin t = fin ((x - y) / t) := by
  show (if t = 0 then _ else fin ((x - y) / t)) = _
  simp [ht]

end Ext

/-- Among the first `N` naturals exactly `min c N` are below `c`. -/
theorem countP_lt_range (N c : Nat) : (List.range N).countP (fun w => decide (w < c)) = min c N := by
  induction N with
  | zero => simp
  | succ N ih =>
    rw [List.range_succ, List.countP_append, ih]
    by_cases h : N < c
    · simp [h]; omega
    · simp [h]; omega

theorem unitNumer_of_lt {w : Nat} (h : w < 2 ^ 64) : unitNumer w = w / 2 ^ 11 := by
  unfold unitNumer
  rw [Nat.mod_eq_of_lt h]

end MahfModel.Sa
