/- Soundness of the guard analysis `safeOf`: no execution of `gexec` ends at a violated size precondition. -/
import MahfModel.Proofs.C16Size
import MahfModel.Model.TemplatesGuard
namespace MahfModel.Tpl

theorem conc_cons {s : List Nat} {x : Itv} {a : AbsStack} (h : Conc s (x :: a)) :
    ∃ n r, s = n :: r ∧ x.mem n ∧ Conc r a := by
  cases s with
  | nil => simp [Conc] at h
  | cons n r => exact ⟨n, r, rfl, h.1, h.2⟩

theorem exact_mem {x : Itv} {n : Nat} (hx : x.isExact = true) (hm : x.mem n) : n = x.lo := by
  rcases x with ⟨lo, hi⟩
  simp [Itv.isExact] at hx
  subst hx
  have h1 := hm.2 lo rfl
  have h2 := hm.1
  simp only at h1 h2 ⊢
  omega

-- preconditions on the number of populations
set_option hygiene false in
macro "guard_len" : tactic =>
  `(tactic| (simp only [gabs, decide_eq_true_eq] at hg; simp [guardC, guardOf, hlen]; omega))

-- preconditions on the size of the current population
set_option hygiene false in
macro "guard_head" : tactic =>
  `(tactic| (cases st with
     | nil => simp [gabs] at hg
     | cons x rest =>
       obtain ⟨n, r, rfl, hm, hr⟩ := conc_cons hc
       simp only [gabs, Bool.and_eq_true, Bool.or_eq_true, beq_iff_eq, decide_eq_true_eq] at hg
       have h1 := hm.1
       simp [guardC, guardOf]
       omega))

/-- The interval test implies the precondition on every concretisation. -/
theorem gabs_sound (k : LeafKind) (a b : Nat) (st : AbsStack) (s : List Nat)
    (hg : gabs k a b st = true) (hc : Conc s st) : guardC k a b s = true := by
  have hlen := Conc_length hc
  cases k
  case All => guard_len
  case None => guard_len
  case DuplicatePopulation => guard_len
  case ClearPopulation => guard_len
  case NPointCrossover => guard_len
  case UniformCrossover => guard_len
  case ArithmeticCrossover => guard_len
  case NormalMutation => guard_len
  case MuPlusLambda => guard_len
  case Generational => guard_len
  case RandomReplacement => guard_len
  case Merge => guard_len
  case DiscardOffspring => guard_len
  case InterleavePopulations => guard_len
  case FullyRandom => guard_head
  case RandomWithoutRepetition => guard_head
  case Tournament => guard_head
  case DERand => guard_head
  case DEBest => guard_head
  case DECurrentToBest => guard_head
  case DeterministicFitnessProportional => guard_head
  case CloneSingle =>
    cases st with
    | nil => simp [gabs] at hg
    | cons x rest =>
      obtain ⟨n, r, rfl, hm, hr⟩ := conc_cons hc
      simp only [gabs, Bool.and_eq_true, beq_iff_eq] at hg
      have e1 := exact_mem hg.1 hm
      simp [guardC, guardOf]
      omega
  case DEMutation =>
    cases st with
    | nil => simp [gabs] at hg
    | cons x rest =>
      obtain ⟨n, r, rfl, hm, hr⟩ := conc_cons hc
      simp only [gabs, Bool.and_eq_true, beq_iff_eq] at hg
      have e1 := exact_mem hg.1 hm
      subst e1
      simp [guardC, guardOf, hg.2]
  case KeepBetterAtIndex =>
    match st, hc, hg with
    | [], _, hg => simp [gabs] at hg
    | [_], _, hg => simp [gabs] at hg
    | x :: y :: rest, hc, hg =>
      obtain ⟨n, r, rfl, hm, hr⟩ := conc_cons hc
      obtain ⟨m, r2, rfl, hm2, _⟩ := conc_cons hr
      simp only [gabs, Bool.and_eq_true, beq_iff_eq] at hg
      have e1 := exact_mem hg.1.1 hm
      have e2 := exact_mem hg.1.2 hm2
      simp [guardC, guardOf]
      omega
  case ExponentialAnnealingAcceptance =>
    match st, hc, hg with
    | [], _, hg => simp [gabs] at hg
    | [_], _, hg => simp [gabs] at hg
    | x :: y :: rest, hc, hg =>
      obtain ⟨n, r, rfl, hm, hr⟩ := conc_cons hc
      obtain ⟨m, r2, rfl, hm2, _⟩ := conc_cons hr
      simp only [gabs, Bool.and_eq_true, beq_iff_eq] at hg
      have e1 := exact_mem hg.1.1.1 hm
      have e2 := exact_mem hg.1.1.2 hm2
      have hn : n = 1 := by omega
      have hm' : m = 1 := by omega
      simp [guardC, guardOf, hn, hm']
  all_goals (simp [guardC, guardOf])

/-! ### Trees -/

/-- What `safeOf` promises about one execution: it does not end at a violated precondition, and if it runs to
the end the sizes are inside the predicted intervals. -/
def GGood (a' : AbsStack) : GRes → Prop
  | .ok s' => Conc s'.stack a'
  | .guard => False
  | .stop => True

mutual
  theorem gexec_safe (o : SOracle) : ∀ (fuel : Nat) (c : SComp) (a a' : AbsStack) (s : SSt),
      safeOf c a = some a' → Conc s.stack a → GGood a' (gexec o fuel c s)
    | 0, _, _, _, _, _, _ => by simp [gexec, GGood]
    | fuel + 1, .leaf k p q, a, a', s, ha, hc => by
      simp only [safeOf] at ha
      split at ha
      · rename_i hg
        have hgc := gabs_sound k p q a s.stack hg hc
        simp only [gexec, hgc, if_true]
        split
        · simp [GGood]
        · cases hl : leafStep k p q (o.pick s.tick) s.stack with
          | none => simp [GGood]
          | some st => exact sizeStep_sound k p q _ a a' s.stack st ha hc hl
      · cases ha
    | fuel + 1, .seq cs, a, a', s, ha, hc => by
      simp only [safeOf] at ha
      simp only [gexec]
      exact gexecs_safe o fuel cs a a' s ha hc
    | fuel + 1, .loop body, a, a', s, ha, hc => by
      simp only [safeOf] at ha
      simp only [gexec]
      cases hb : safeOf body (findInv (safeOf body) 8 3 a) with
      | none => simp [hb] at ha
      | some out =>
        simp only [hb] at ha
        split at ha
        · rename_i hchk
          injection ha with ha; subst ha
          simp only [Bool.and_eq_true] at hchk
          have hinv := stackLe_sound hchk.1 hc
          exact gloop_safe o fuel body _ out s hb hchk.2 hinv
        · cases ha
    | fuel + 1, .branch t e, a, a', s, ha, hc => by
      simp only [safeOf] at ha
      simp only [gexec]
      cases hx : safeOf t a with
      | none => simp [hx] at ha
      | some x =>
        cases hy : safeOf e a with
        | none => simp [hx, hy] at ha
        | some y =>
          simp only [hx, hy] at ha
          split
          · have g := gexec_safe o fuel t a x { s with tick := s.tick + 1 } hx hc
            revert g
            cases gexec o fuel t { s with tick := s.tick + 1 } with
            | ok s1 => intro g; exact stackJoin_left ha g
            | guard => intro g; exact g
            | stop => intro _; trivial
          · have g := gexec_safe o fuel e a y { s with tick := s.tick + 1 } hy hc
            revert g
            cases gexec o fuel e { s with tick := s.tick + 1 } with
            | ok s1 => intro g; exact stackJoin_right ha g
            | guard => intro g; exact g
            | stop => intro _; trivial
    | fuel + 1, .scope body, a, a', s, ha, hc => by
      simp only [safeOf] at ha
      simp only [gexec]
      exact gexec_safe o fuel body a a' s ha hc
  theorem gexecs_safe (o : SOracle) : ∀ (fuel : Nat) (cs : SComps) (a a' : AbsStack) (s : SSt),
      safesOf cs a = some a' → Conc s.stack a → GGood a' (gexecs o fuel cs s)
    | 0, _, _, _, _, _, _ => by simp [gexecs, GGood]
    | fuel + 1, .nil, a, a', s, ha, hc => by
      simp only [safesOf] at ha
      injection ha with ha; subst ha
      simpa [gexecs, GGood] using hc
    | fuel + 1, .cons c rest, a, a', s, ha, hc => by
      simp only [safesOf] at ha
      simp only [gexecs]
      cases hx : safeOf c a with
      | none => simp [hx] at ha
      | some x =>
        simp only [hx] at ha
        have g1 := gexec_safe o fuel c a x s hx hc
        revert g1
        cases gexec o fuel c s with
        | ok s1 => intro g1; exact gexecs_safe o fuel rest x a' s1 ha g1
        | guard => intro g1; exact g1
        | stop => intro _; trivial
  theorem gloop_safe (o : SOracle) : ∀ (fuel : Nat) (body : SComp) (inv out : AbsStack) (s : SSt),
      safeOf body inv = some out → stackLe out inv = true → Conc s.stack inv →
      GGood inv (gloop o fuel body s)
    | 0, _, _, _, _, _, _, _ => by simp [gloop, GGood]
    | fuel + 1, body, inv, out, s, hb, hle, hc => by
      simp only [gloop]
      split
      · have g1 := gexec_safe o fuel body inv out { s with tick := s.tick + 1 } hb hc
        revert g1
        cases gexec o fuel body { s with tick := s.tick + 1 } with
        | ok s1 => intro g1; exact gloop_safe o fuel body inv out s1 hb hle (stackLe_sound hle g1)
        | guard => intro g1; exact g1
        | stop => intro _; trivial
      · simpa [GGood] using hc
end

end MahfModel.Tpl
